import GrinVerif.Drv.Common
import GrinVerif.Model.Pmmr
import GrinVerif.Model.PmmrHandle
import GrinVerif.Model.PmmrU64
import GrinVerif.Model.PmmrViews
namespace GV.Drv.PmmrD
open GV GV.Pmmr GV.Drv

/-- the real hash shapes: `(idx, elem).hash()` and `(idx, (l, r)).hash()` -/
def realHF : HashFn Bytes Bytes where
  leaf := fun i e => h256 (beBytes 8 i ++ e)
  node := fun i l r => h256 (beBytes 8 i ++ l ++ r)

structure St where
  hashes : List Bytes := []
  /-- remove log of the Vec backend -/
  removed : List Nat := []
  /-- data vector of the Vec backend (one element per push) -/
  elems : List Bytes := []
  /-- the live handle of the `handle` / `atsize` runs (`Model/PmmrHandle.lean`): backend + size -/
  h : Handle Bytes Bytes := {}
  /-- backend saved by `hsave`, brought back by `hrestore` -/
  saved : VecBackend Bytes Bytes := {}
  /-- the backend of `h` was built by pushes at its end and rewinds only, nothing pruned: it is the
  MMR of its own element list (`Rep` of the theorems `handle_*` in Props/C07.lean) -/
  rep : Bool := true
  savedRep : Bool := true

def showPairs (l : List (Nat × Nat)) : String :=
  "[" ++ ",".intercalate (l.map fun p => s!"{p.1}:{p.2}") ++ "]"

def showRoot : RootRes Bytes → String
  | .zero => "zero"
  | .ok h => toHex h
  | .err => "err"

def showOptHex : Option Bytes → String
  | some b => toHex b
  | none => "none"

def showProof : Option (Nat × List Bytes) → String
  | some (sz, path) => s!"{sz} {showHexList path}"
  | none => "err"

/-- is `s` the size of an MMR (`peak_map_height(s).1 == 0`; `validSize_iff` in Props/C07.lean) -/
def validSize (s : Nat) : Bool := (peakMapHeight s).2 == 0

/-- the handle is a view at a valid size inside a backend that is the MMR of its element list: all
its observations are fixed by the property (`handle_observations`, `handle_at_valid_size`) -/
def specFixed (st : St) : Bool :=
  st.rep && validSize st.h.size && st.h.size ≤ st.h.be.hashes.length

/-- compare as a property-fixed value or as an internal observable -/
def cmpBy (spec : Bool) (model impl : String) : Verdict :=
  if spec then cmpSpec model impl else cmpModel model impl

/-- release-build value `w` against the value on unbounded naturals `n`: equal = fixed by the
property; different = an observable of the wrapped arithmetic -/
def cmpW (w n impl : String) : Verdict := if w = n then cmpSpec w impl else cmpModel w impl

/-- the ops of the `handle` / `atsize` runs; a trailing tag (which kind of view was asked: `pmmr`,
`ro`, `rw` - they share one body in the code and one function here) is ignored -/
def handleH (st : St) (args : List String) (impl : String) : Option (St × Verdict) :=
  match args with
  | ["hnew"] => some ({ st with h := {}, rep := true }, .ok)
  | ["hnewho"] => some ({ st with h := { be := { data := none } }, rep := true }, .ok)
  | ["hsave"] => some ({ st with saved := st.h.be, savedRep := st.rep }, .ok)
  | ["hrestore"] => some ({ st with h := { st.h with be := st.saved }, rep := st.savedRep }, .ok)
  | ["hat", s] => match nat? s with
    | some s => some ({ st with h := Handle.openAt st.h.be s }, .ok)
    | none => some (st, .unknown)
  | ["hpush", e] => match parseHex e with
    | some e => match st.h.push realHF e with
      | .ok h' =>
        let atEnd := st.h.size == st.h.be.hashes.length
        some ({ st with h := h', rep := st.rep && atEnd }, cmpBy (st.rep && atEnd) (toString h'.size) impl)
      -- refused for a size that is not an MMR size: fixed by the property, whatever the backend
      | .badSize => some (st, cmpSpec "err" impl)
      | .missingSibling => some (st, cmpModel "err" impl)
    | none => some (st, .unknown)
  | ["hrewind", p] => match nat? p with
    | some p => let h' := st.h.rewind p; some ({ st with h := h' }, cmpSpec (toString h'.size) impl)
    | none => some (st, .unknown)
  | ["hprune", p] => match nat? p with
    | some p => match st.h.prune p with
      | some (r, h') => some ({ st with h := h', rep := st.rep && !r }, cmpModel (showBool r) impl)
      | none => some (st, cmpModel "err" impl)
    | none => some (st, .unknown)
  | "hsize" :: _ => some (st, cmpSpec (toString st.h.size) impl)
  | "hroot" :: _ =>
    some (st, cmpBy (specFixed st || !validSize st.h.size) (showRoot (st.h.root realHF)) impl)
  | "hpeaks" :: _ =>
    some (st, cmpBy (specFixed st || !validSize st.h.size) (showHexList st.h.peaks) impl)
  | "hvalidate" :: _ => some (st, cmpBy (specFixed st) (showBool (st.h.validate realHF)) impl)
  | "hproof" :: p :: _ => match nat? p with
    | some p => some (st, cmpBy (specFixed st) (showProof (st.h.merkleProof realHF p)) impl)
    | none => some (st, .unknown)
  | "hhash" :: p :: _ => match nat? p with
    | some p => some (st, cmpBy (specFixed st) (showOptHex (st.h.getHash p)) impl)
    | none => some (st, .unknown)
  | "hdata" :: p :: _ => match nat? p with
    | some p => some (st, cmpBy (specFixed st) (showOptHex (st.h.getData p)) impl)
    | none => some (st, .unknown)
  | ["hleafpos"] => some (st, cmpModel (showNatList st.h.leafPosIter) impl)
  -- `VecBackend::n_unpruned_leaves` is `unimplemented!()`
  | ["hnunpruned"] => some (st, cmpModel "panic" impl)
  | ["hbackend"] =>
    let d := match st.h.be.data with
      | some d => toString d.length
      | none => "none"
    some (st, cmpBy st.rep s!"{st.h.be.hashes.length} {d} {st.h.be.removed.length}" impl)
  | ["hfile"] => some (st, cmpBy st.rep (showHexList st.h.be.hashes) impl)
  | ["hdatafile"] => some (st, cmpBy st.rep (showHexList (st.h.be.data.getD [])) impl)
  | _ => none

def handle (st : St) (args : List String) (impl : String) : St × Verdict :=
  match handleH st args impl with
  | some r => r
  | none =>
  match args with
  | ["pmh", p] => match nat? p with
    | some p => let r := peakMapHeight p; (st, cmpSpec s!"{r.1} {r.2}" impl)
    | none => (st, .unknown)
  | ["peaks", p] => match nat? p with
    | some p => (st, cmpSpec (showNatList (peaks p)) impl)
    | none => (st, .unknown)
  | ["nleaves", p] => match nat? p with
    | some p => (st, cmpSpec (toString (nLeaves p)) impl)
    | none => (st, .unknown)
  | ["roundup", p] => match nat? p with
    | some p => (st, cmpSpec (toString (roundUpToLeafPos p)) impl)
    | none => (st, .unknown)
  | ["ins2pos", p] => match nat? p with
    | some p => (st, cmpSpec (toString (insertionToPmmrIndex p)) impl)
    | none => (st, .unknown)
  | ["pos2ins", p] => match nat? p with
    | some p => (st, cmpSpec (showOptNat (pmmrLeafToInsertionIndex p)) impl)
    | none => (st, .unknown)
  | ["height", p] => match nat? p with
    | some p => (st, cmpSpec (toString (height p)) impl)
    | none => (st, .unknown)
  | ["family", p] => match nat? p with
    | some p => let r := family p; (st, cmpSpec s!"{r.1} {r.2}" impl)
    | none => (st, .unknown)
  | ["isleft", p] => match nat? p with
    | some p => (st, cmpSpec (showBool (isLeftSibling p)) impl)
    | none => (st, .unknown)
  | ["branch", p, s] => match nat? p, nat? s with
    | some p, some s => (st, cmpSpec (showPairs (familyBranch p s)) impl)
    | _, _ => (st, .unknown)
  | ["rightmost", p] => match nat? p with
    | some p => (st, cmpSpec (toString (bintreeRightmost p)) impl)
    | none => (st, .unknown)
  | ["leftmost", p] => match nat? p with
    | some p => (st, cmpSpec (toString (bintreeLeftmost p)) impl)
    | none => (st, .unknown)
  | ["range", p] => match nat? p with
    | some p => let r := bintreeRange p; (st, cmpSpec s!"{r.1} {r.2}" impl)
    | none => (st, .unknown)
  | ["leafiter", p] => match nat? p with
    | some p => (st, cmpSpec (showNatList (bintreeLeafPosIter p)) impl)
    | none => (st, .unknown)
  -- the same functions with release-build u64 arithmetic (`Model/PmmrU64.lean`), for inputs up to
  -- u64::MAX: where nothing wraps the value is the property's (spec), where it wraps it is what the
  -- release build computes (model)
  | ["roundupw", p] => match nat? p with
    | some p => (st, cmpW (toString (U64.roundUpToLeafPos p)) (toString (roundUpToLeafPos p)) impl)
    | none => (st, .unknown)
  | ["ins2posw", p] => match nat? p with
    | some p => (st, cmpW (toString (U64.insertionToPmmrIndex p)) (toString (insertionToPmmrIndex p)) impl)
    | none => (st, .unknown)
  | ["familyw", p] => match nat? p with
    | some p =>
      let r := U64.family p
      let n := family p
      (st, cmpW s!"{r.1} {r.2}" s!"{n.1} {n.2}" impl)
    | none => (st, .unknown)
  | ["leftmostw", p] => match nat? p with
    | some p => (st, cmpW (toString (U64.bintreeLeftmost p)) (toString (bintreeLeftmost p)) impl)
    | none => (st, .unknown)
  | ["rangew", p] => match nat? p with
    | some p =>
      let r := U64.bintreeRange p
      let n := bintreeRange p
      (st, cmpW s!"{r.1} {r.2}" s!"{n.1} {n.2}" impl)
    | none => (st, .unknown)
  | ["leafiterw", p] => match nat? p with
    | some p => (st, cmpW (showNatList (U64.bintreeLeafPosIter p)) (showNatList (bintreeLeafPosIter p)) impl)
    | none => (st, .unknown)
  | ["positerw", p] => match nat? p with
    | some p =>
      let r := U64.bintreePosIter p
      let n := bintreeRange p
      (st, cmpW s!"{r.1} {r.2}" s!"{n.1} {n.2 - n.1}" impl)
    | none => (st, .unknown)
  | ["branchw", p, s] => match nat? p, nat? s with
    | some p, some s =>
      match U64.familyBranch p s with
      | some l => (st, cmpW (showPairs l) (showPairs (familyBranch p s)) impl)
      | none => (st, cmpModel "hang" impl)
    | _, _ => (st, .unknown)
  | ["isleaf", p] => match nat? p with
    | some p => (st, cmpSpec (showBool (isLeaf p)) impl)
    | none => (st, .unknown)
  | ["psh", p] => match nat? p with
    | some p => let r := peakSizesHeight p; (st, cmpSpec s!"{showNatList r.1} {r.2}" impl)
    | none => (st, .unknown)
  | ["new"] => ({ hashes := [], removed := [] }, .ok)
  | ["push", e] => match parseHex e with
    | some e => match push realHF st.hashes e with
      | some hs => ({ st with hashes := hs, elems := st.elems ++ [e] }, cmpSpec s!"{hs.length} {showRoot (root realHF hs)}" impl)
      | none => (st, cmpSpec "err" impl)
    | none => (st, .unknown)
  | ["root"] => (st, cmpSpec (showRoot (root realHF st.hashes)) impl)
  | ["validate"] => (st, cmpSpec (showBool (validate realHF st.hashes)) impl)
  -- `PMMR::validate` over a copy of the backend whose hash at `pos` was replaced (state unchanged)
  | ["validatex", p, h] => match nat? p, parseHex h with
    | some p, some h => (st, cmpSpec (showBool (validate realHF (st.hashes.set p h))) impl)
    | _, _ => (st, .unknown)
  | ["peakhashes"] => (st, cmpSpec (showHexList (peakHashes st.hashes)) impl)
  | ["proof", p] => match nat? p with
    | some p => match merkleProof realHF st.hashes p with
      | some (sz, path) => (st, cmpSpec s!"{sz} {showHexList path}" impl)
      | none => (st, cmpSpec "err" impl)
    | none => (st, .unknown)
  | ["verify", rt, sz, path, e, p] =>
    match parseHex rt, nat? sz, parseHexList path, parseHex e, nat? p with
    | some rt, some sz, some path, some e, some p =>
      (st, cmpSpec (showBool (verify realHF rt sz path e p)) impl)
    | _, _, _, _, _ => (st, .unknown)
  -- views at a size over the backend with its remove log (sizes beyond the backend are not modelled)
  -- element side of the read-only views (`Model/PmmrViews.lean`)
  | ["vdata", s, p] => match nat? s, nat? p with
    | some s, some p => (st, cmpModel (showOptHex (vGetData (⟨st.hashes, st.elems, st.removed⟩ : DBackend Bytes Bytes) s p)) impl)
    | _, _ => (st, .unknown)
  | ["vlastn", s, n] => match nat? s, nat? n with
    | some s, some n =>
      let l := vLastN (⟨st.hashes, st.elems, st.removed⟩ : DBackend Bytes Bytes) s n
      (st, cmpModel ("[" ++ ",".intercalate (l.map fun x => s!"{toHex x.1}:{toHex x.2}") ++ "]") impl)
    | _, _ => (st, .unknown)
  | ["velems", s, i, m, mp] => match nat? s, nat? i, nat? m with
    | some s, some i, some m =>
      let mp' : Option (Option Nat) := if mp == "none" then some none else (nat? mp).map some
      match mp' with
      | some mp' =>
        let r := vElementsFrom (⟨st.hashes, st.elems, st.removed⟩ : DBackend Bytes Bytes) s i m mp'
        (st, cmpModel s!"{r.1} {showHexList r.2}" impl)
      | none => (st, .unknown)
    | _, _, _ => (st, .unknown)
  | ["vleafpos", _] =>
    (st, cmpModel (showNatList (vLeafPosIter (⟨st.hashes, st.elems, st.removed⟩ : DBackend Bytes Bytes))) impl)
  | ["vleafidx", _, f] => match nat? f with
    | some f =>
      let m := vLeafIdxIter (⟨st.hashes, st.elems, st.removed⟩ : DBackend Bytes Bytes) f
      -- the value the property fixes: exactly the unpruned leaves' insertion indices >= from, ascending
      -- (each maps back to its position); compared as a spec value whenever the model function agrees
      let spec := (List.range (nLeaves st.hashes.length)).filter fun i =>
        decide (f ≤ i) && !st.removed.contains (insertionToPmmrIndex i)
      (st, (if m == spec then cmpSpec else cmpModel) (showNatList m) impl)
    | none => (st, .unknown)
  | ["vroot", s] => match nat? s with
    | some s => if s ≤ st.hashes.length then
        (st, cmpSpec (showRoot (vRoot realHF ⟨st.hashes, st.removed⟩ s)) impl) else (st, .unknown)
    | none => (st, .unknown)
  | ["vpeaks", s] => match nat? s with
    | some s => if s ≤ st.hashes.length then
        (st, cmpSpec (showHexList (vPeaks ⟨st.hashes, st.removed⟩ s)) impl) else (st, .unknown)
    | none => (st, .unknown)
  | ["vproof", s, p] => match nat? s, nat? p with
    | some s, some p => if s ≤ st.hashes.length then
        match vProof realHF ⟨st.hashes, st.removed⟩ s p with
        | some (sz, path) => (st, cmpSpec s!"{sz} {showHexList path}" impl)
        | none => (st, cmpSpec "err" impl)
      else (st, .unknown)
    | _, _ => (st, .unknown)
  | ["prune", s, p] => match nat? s, nat? p with
    | some s, some p => if s ≤ st.hashes.length then
        match vPrune ⟨st.hashes, st.removed⟩ s p with
        | some (r, b) => ({ st with removed := b.removed }, cmpSpec (showBool r) impl)
        | none => (st, cmpSpec "err" impl)
      else (st, .unknown)
    | _, _ => (st, .unknown)
  -- `PMMR::rewind(position)` on the backend: truncate to the rounded-up leaf boundary
  | ["prewind", p] => match nat? p with
    | some p =>
      let sz := rewindView p
      ({ st with hashes := st.hashes.take sz }, cmpSpec (toString (min sz st.hashes.length)) impl)
    | none => (st, .unknown)
  | ["rewind", p] => match nat? p with
    | some p => (st, cmpSpec (toString (rewindView p)) impl)
    | none => (st, .unknown)
  | _ => (st, .unknown)

end GV.Drv.PmmrD
