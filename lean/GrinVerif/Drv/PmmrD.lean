import GrinVerif.Drv.Common
import GrinVerif.Model.Pmmr
namespace GV.Drv.PmmrD
open GV GV.Pmmr GV.Drv

/-- the real hash shapes: `(idx, elem).hash()` and `(idx, (l, r)).hash()` -/
def realHF : HashFn Bytes Bytes where
  leaf := fun i e => h256 (beBytes 8 i ++ e)
  node := fun i l r => h256 (beBytes 8 i ++ l ++ r)

structure St where
  hashes : List Bytes := []
  /-- remove log of the Vec backend -/
  removed : List Nat := []

def showPairs (l : List (Nat × Nat)) : String :=
  "[" ++ ",".intercalate (l.map fun p => s!"{p.1}:{p.2}") ++ "]"

def showRoot : RootRes Bytes → String
  | .zero => "zero"
  | .ok h => toHex h
  | .err => "err"

def handle (st : St) (args : List String) (impl : String) : St × Verdict :=
  match args with
  | ["pmh", p] => match nat? p with
    | some p => let r := peakMapHeight p; (st, cmpSpec s!"{r.1} {r.2}" impl)
    | none => (st, .unknown)
  | ["peaks", p] => match nat? p with
    | some p => (st, cmpSpec (showNatList (peaks p)) impl)
    | none => (st, .unknown)
  | ["nleaves", p] => match nat? p with
    | some p => (st, cmpSpec (toString (nLeaves p)) impl)
    | none => (st, .unknown)
  | ["roundup", p] => match nat? p with
    | some p => (st, cmpSpec (toString (roundUpToLeafPos p)) impl)
    | none => (st, .unknown)
  | ["ins2pos", p] => match nat? p with
    | some p => (st, cmpSpec (toString (insertionToPmmrIndex p)) impl)
    | none => (st, .unknown)
  | ["pos2ins", p] => match nat? p with
    | some p => (st, cmpSpec (showOptNat (pmmrLeafToInsertionIndex p)) impl)
    | none => (st, .unknown)
  | ["height", p] => match nat? p with
    | some p => (st, cmpSpec (toString (height p)) impl)
    | none => (st, .unknown)
  | ["family", p] => match nat? p with
    | some p => let r := family p; (st, cmpSpec s!"{r.1} {r.2}" impl)
    | none => (st, .unknown)
  | ["isleft", p] => match nat? p with
    | some p => (st, cmpSpec (showBool (isLeftSibling p)) impl)
    | none => (st, .unknown)
  | ["branch", p, s] => match nat? p, nat? s with
    | some p, some s => (st, cmpSpec (showPairs (familyBranch p s)) impl)
    | _, _ => (st, .unknown)
  | ["rightmost", p] => match nat? p with
    | some p => (st, cmpSpec (toString (bintreeRightmost p)) impl)
    | none => (st, .unknown)
  | ["leftmost", p] => match nat? p with
    | some p => (st, cmpSpec (toString (bintreeLeftmost p)) impl)
    | none => (st, .unknown)
  | ["range", p] => match nat? p with
    | some p => let r := bintreeRange p; (st, cmpSpec s!"{r.1} {r.2}" impl)
    | none => (st, .unknown)
  | ["leafiter", p] => match nat? p with
    | some p => (st, cmpSpec (showNatList (bintreeLeafPosIter p)) impl)
    | none => (st, .unknown)
  | ["new"] => ({ hashes := [], removed := [] }, .ok)
  | ["push", e] => match parseHex e with
    | some e => match push realHF st.hashes e with
      | some hs => ({ st with hashes := hs }, cmpSpec s!"{hs.length} {showRoot (root realHF hs)}" impl)
      | none => (st, cmpSpec "err" impl)
    | none => (st, .unknown)
  | ["root"] => (st, cmpSpec (showRoot (root realHF st.hashes)) impl)
  | ["validate"] => (st, cmpSpec (showBool (validate realHF st.hashes)) impl)
  | ["peakhashes"] => (st, cmpSpec (showHexList (peakHashes st.hashes)) impl)
  | ["proof", p] => match nat? p with
    | some p => match merkleProof realHF st.hashes p with
      | some (sz, path) => (st, cmpSpec s!"{sz} {showHexList path}" impl)
      | none => (st, cmpSpec "err" impl)
    | none => (st, .unknown)
  | ["verify", rt, sz, path, e, p] =>
    match parseHex rt, nat? sz, parseHexList path, parseHex e, nat? p with
    | some rt, some sz, some path, some e, some p =>
      (st, cmpSpec (showBool (verify realHF rt sz path e p)) impl)
    | _, _, _, _, _ => (st, .unknown)
  -- views at a size over the backend with its remove log (sizes beyond the backend are not modelled)
  | ["vroot", s] => match nat? s with
    | some s => if s ≤ st.hashes.length then
        (st, cmpSpec (showRoot (vRoot realHF ⟨st.hashes, st.removed⟩ s)) impl) else (st, .unknown)
    | none => (st, .unknown)
  | ["vpeaks", s] => match nat? s with
    | some s => if s ≤ st.hashes.length then
        (st, cmpSpec (showHexList (vPeaks ⟨st.hashes, st.removed⟩ s)) impl) else (st, .unknown)
    | none => (st, .unknown)
  | ["vproof", s, p] => match nat? s, nat? p with
    | some s, some p => if s ≤ st.hashes.length then
        match vProof realHF ⟨st.hashes, st.removed⟩ s p with
        | some (sz, path) => (st, cmpSpec s!"{sz} {showHexList path}" impl)
        | none => (st, cmpSpec "err" impl)
      else (st, .unknown)
    | _, _ => (st, .unknown)
  | ["prune", s, p] => match nat? s, nat? p with
    | some s, some p => if s ≤ st.hashes.length then
        match vPrune ⟨st.hashes, st.removed⟩ s p with
        | some (r, b) => ({ st with removed := b.removed }, cmpSpec (showBool r) impl)
        | none => (st, cmpSpec "err" impl)
      else (st, .unknown)
    | _, _ => (st, .unknown)
  -- `PMMR::rewind(position)` on the backend: truncate to the rounded-up leaf boundary
  | ["prewind", p] => match nat? p with
    | some p =>
      let sz := rewindView p
      ({ st with hashes := st.hashes.take sz }, cmpSpec (toString (min sz st.hashes.length)) impl)
    | none => (st, .unknown)
  | ["rewind", p] => match nat? p with
    | some p => (st, cmpSpec (toString (rewindView p)) impl)
    | none => (st, .unknown)
  | _ => (st, .unknown)

end GV.Drv.PmmrD
