import GrinVerif.Model.Pmmr
/-! # The defining construction of a Merkle mountain range (spec for C07)

No position arithmetic, no bit tricks: a stack of peaks and a running position counter.

* Appending an element hashes it as a leaf at the next free position.
* While the two topmost peaks have the same height they are merged into a parent, hashed at the
  next free position over both children (left child first).
* Positions are therefore the consecutive post-order numbers 0, 1, 2, … of the emitted hashes.
* The root bags the peaks from right to left, each step hashed with the total size.

`HashFn` (the two hash shapes `leaf pos elem` and `node pos left right`) is shared with the model. -/
namespace GV.Spec.Mmr
open GV.Pmmr (HashFn)

variable {α H : Type}

/-- one mountain: its height, the position of its top and the hash there -/
structure Peak (H : Type) where
  height : Nat
  pos : Nat
  hash : H
deriving Repr, DecidableEq

structure State (H : Type) where
  /-- number of hashes emitted so far = position the next hash will get -/
  next : Nat := 0
  /-- current peaks, rightmost (most recent, lowest) first -/
  stack : List (Peak H) := []
  /-- every hash emitted so far, in emission order = position order -/
  out : List H := []

/-- put the finished subtree `cur` on the stack, merging as long as the peak below it has the
same height -/
def carry (hf : HashFn α H) (cur : Peak H) : List (Peak H) → Nat → List H → State H
  | l :: rest, next, out =>
    if l.height = cur.height then
      let parent := hf.node next l.hash cur.hash
      carry hf ⟨cur.height + 1, next, parent⟩ rest (next + 1) (out ++ [parent])
    else ⟨next, cur :: l :: rest, out⟩
  | [], next, out => ⟨next, [cur], out⟩

/-- append one element -/
def append (hf : HashFn α H) (st : State H) (e : α) : State H :=
  let leaf := hf.leaf st.next e
  carry hf ⟨0, st.next, leaf⟩ st.stack (st.next + 1) (st.out ++ [leaf])

/-- the MMR of a list of elements -/
def build (hf : HashFn α H) (xs : List α) : State H := xs.foldl (append hf) {}

/-- all hashes, indexed by position -/
def hashes (hf : HashFn α H) (xs : List α) : List H := (build hf xs).out

/-- total number of hashes -/
def size (hf : HashFn α H) (xs : List α) : Nat := (build hf xs).next

/-- peak positions, left to right -/
def peakPositions (hf : HashFn α H) (xs : List α) : List Nat := (build hf xs).stack.reverse.map (·.pos)

/-- peak hashes, left to right -/
def peakHashes (hf : HashFn α H) (xs : List α) : List H := (build hf xs).stack.reverse.map (·.hash)

/-- bag right to left: start from the rightmost peak, then hash each peak to its left over the
running value, every step with the total size as the index -/
def bagRightToLeft (hf : HashFn α H) (size : Nat) : List H → Option H
  | [] => none
  | rightmost :: leftwards => some (leftwards.foldl (fun acc p => hf.node size p acc) rightmost)

/-- the root (`none` for the empty MMR, whose root the code defines as the zero hash) -/
def root (hf : HashFn α H) (xs : List α) : Option H :=
  bagRightToLeft hf (size hf xs) ((build hf xs).stack.map (·.hash))

end GV.Spec.Mmr
