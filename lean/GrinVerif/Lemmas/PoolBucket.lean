import GrinVerif.Lemmas.PoolAvail
/-! `Pool::bucket_transactions` and the choice of the eviction victim.

Which branch of the loop a transaction takes (`stepKind`), and the invariant that holds as long
as every dependent transaction joins its parent's bucket (`fresh` / `merged` only): the output
index points at the bucket that really holds the creator, so children sit in their parent's bucket
behind it, and the last transaction of any bucket has no child in the pool. -/
namespace GV.Pool

/-- the branch of the loop body of `bucket_transactions` taken by one entry -/
inductive StepKind
  /-- no input is an output of a bucketed transaction: own bucket at the end -/
  | fresh
  /-- one parent bucket, aggregate fee rate not lower: joins the parent's bucket -/
  | merged
  /-- one parent bucket, but the aggregate (cut-through applied) would pay less per weight than the
  bucket does: own bucket at the end, outputs still indexed under the PARENT's position -/
  | own
  /-- two inputs found in the index, an input of a skipped transaction, or aggregation failed -/
  | rejected
  /-- index out of range (never happens) -/
  | stuck
deriving DecidableEq, Repr

def stepKind (c : Ctx) (w : Weighting) (st : BState) (t : Tx) : StepKind :=
  let scan := scanInputs st t.ins
  if scan.2 then .rejected
  else match scan.1 with
    | none => .fresh
    | some pos =>
      match st.buckets[pos]? with
      | none => .stuck
      | some b =>
        match b.aggregateWith c w t with
        | some nb => if nb.feeRate ≥ b.feeRate then .merged else .own
        | none => .rejected

/-- the branches taken by the entries of a pool, in order -/
def stepKinds (c : Ctx) (w : Weighting) : BState → List Tx → List StepKind
  | _, [] => []
  | st, t :: ts => stepKind c w st t :: stepKinds c w (bucketStep c w st t) ts

/-- **the fee condition**: every transaction that depends on a pooled one has exactly one input
created in the pool and joins its parent's bucket, i.e. the aggregate of the bucket with it (after
cut-through: `fee_rate = Σ fees / weight of the aggregate`, integer division) pays at least the
bucket's current rate — no child lowers its parent bucket's fee rate, none is skipped. -/
def calmB (c : Ctx) (w : Weighting) (st : BState) (txs : List Tx) : Bool :=
  (stepKinds c w st txs).all fun k => k == .fresh || k == .merged

/-- insertion order respects dependencies and no transaction spends its own output -/
def Ordered (txs : List Tx) : Prop :=
  ∀ pre t post, txs = pre ++ t :: post → ∀ u ∈ pre ++ [t], ∀ o ∈ t.outs, o ∉ u.ins

/-! ### the output index -/

theorem lookupCommit_new (outs : List Nat) (pos : Nat) (m : List (Nat × Nat)) (o : Nat) :
    lookupCommit (outs.map (·, pos) ++ m) o = if o ∈ outs then some pos else lookupCommit m o := by
  unfold lookupCommit
  induction outs with
  | nil => simp
  | cons a rest ih =>
    simp only [List.map_cons, List.cons_append, List.find?_cons, List.mem_cons]
    by_cases h : a = o
    · subst h; simp
    · have h' : (a == o) = false := by simpa using h
      have h'' : ¬ o = a := fun e => h e.symm
      simp only [h', h'', false_or]
      exact ih

theorem scan_flag_stays (st : BState) (l : List Nat) (acc : Option Nat × Bool) (h : acc.2 = true) :
    (l.foldl (fun (acc : Option Nat × Bool) i =>
      if st.rejected.contains i then (acc.1, true)
      else match lookupCommit st.commits i with
        | some pos => if acc.1.isSome then (acc.1, true) else (some pos, acc.2)
        | none => acc) acc).2 = true := by
  induction l generalizing acc with
  | nil => exact h
  | cons i rest ih =>
    simp only [List.foldl_cons]
    apply ih
    split
    · rfl
    · split
      · split
        · rfl
        · exact h
      · exact h

/-- with nothing skipped so far and the scan not flagging: an input found in the index determines
the position, and a position comes from some input -/
theorem scan_spec (st : BState) (hrej : st.rejected = []) (l : List Nat) (acc : Option Nat × Bool)
    (hflag : (l.foldl (fun (acc : Option Nat × Bool) i =>
      if st.rejected.contains i then (acc.1, true)
      else match lookupCommit st.commits i with
        | some pos => if acc.1.isSome then (acc.1, true) else (some pos, acc.2)
        | none => acc) acc).2 = false) :
    let r := l.foldl (fun (acc : Option Nat × Bool) i =>
      if st.rejected.contains i then (acc.1, true)
      else match lookupCommit st.commits i with
        | some pos => if acc.1.isSome then (acc.1, true) else (some pos, acc.2)
        | none => acc) acc
    (∀ j, acc.1 = some j → r.1 = some j ∧ ∀ i ∈ l, lookupCommit st.commits i = none) ∧
    (acc.1 = none → (∀ i ∈ l, ∀ j, lookupCommit st.commits i = some j → r.1 = some j) ∧
      (r.1 = none → ∀ i ∈ l, lookupCommit st.commits i = none)) := by
  induction l generalizing acc with
  | nil =>
    simp only [List.foldl_nil]
    exact ⟨fun j hj => ⟨hj, fun i hi => by simp at hi⟩, fun _ => ⟨fun i hi => by simp at hi, fun _ i hi => by simp at hi⟩⟩
  | cons i rest ih =>
    simp only [List.foldl_cons] at hflag ⊢
    have hc : st.rejected.contains i = false := by simp [hrej]
    simp only [hc, Bool.false_eq_true, if_false] at hflag ⊢
    cases hl : lookupCommit st.commits i with
    | none =>
      simp only [hl] at hflag ⊢
      obtain ⟨a, b⟩ := ih acc hflag
      refine ⟨fun j hj => ?_, fun hn => ?_⟩
      · obtain ⟨a1, a2⟩ := a j hj
        refine ⟨a1, fun x hx => ?_⟩
        rcases List.mem_cons.mp hx with h | h
        · subst h; exact hl
        · exact a2 x h
      · obtain ⟨b1, b2⟩ := b hn
        refine ⟨fun x hx j hj => ?_, fun hr x hx => ?_⟩
        · rcases List.mem_cons.mp hx with h | h
          · subst h; rw [hl] at hj; simp at hj
          · exact b1 x h j hj
        · rcases List.mem_cons.mp hx with h | h
          · subst h; exact hl
          · exact b2 hr x h
    | some pos =>
      simp only [hl] at hflag ⊢
      cases ha : acc.1 with
      | some j0 =>
        -- a second input found: the flag is raised and stays
        simp only [ha, Option.isSome_some, if_true] at hflag
        have := scan_flag_stays st rest (some j0, true) rfl
        rw [this] at hflag
        simp at hflag
      | none =>
        simp only [ha, Option.isSome_none, Bool.false_eq_true, if_false] at hflag ⊢
        obtain ⟨a, _⟩ := ih (some pos, acc.2) hflag
        obtain ⟨a1, a2⟩ := a pos rfl
        refine ⟨fun j hj => by simp at hj, fun _ => ⟨fun x hx j hj => ?_, fun hr => ?_⟩⟩
        · rcases List.mem_cons.mp hx with h | h
          · subst h; rw [hl] at hj; simp only [Option.some.injEq] at hj; subst hj; exact a1
          · rw [a2 x h] at hj; simp at hj
        · rw [a1] at hr; simp at hr

/-! ### the invariant of a calm run -/

def childOf (u t : Tx) : Prop := ∃ o ∈ t.outs, o ∈ u.ins

structure BInv (st : BState) (done : List Tx) : Prop where
  rej : st.rejected = []
  /-- the index points at the bucket that holds the creator -/
  reg : ∀ (j : Nat) (b : Bucket), st.buckets[j]? = some b → ∀ t ∈ b.raw, ∀ o ∈ t.outs, lookupCommit st.commits o = some j
  /-- bucketed transactions are processed ones -/
  mem : ∀ (j : Nat) (b : Bucket), st.buckets[j]? = some b → ∀ t ∈ b.raw, t ∈ done
  /-- every processed transaction is in a bucket -/
  cov : ∀ t ∈ done, ∃ (j : Nat) (b : Bucket), st.buckets[j]? = some b ∧ t ∈ b.raw
  /-- a transaction with a child among the processed ones is not the last of its bucket -/
  last : ∀ (j : Nat) (b : Bucket), st.buckets[j]? = some b → ∀ t ∈ b.raw, ∀ u ∈ done, childOf u t → b.raw.getLast? ≠ some t

theorem binv_empty : BInv {} [] :=
  ⟨rfl, fun j b h => by simp at h, fun j b h => by simp at h, fun t h => by simp at h,
   fun j b h => by simp at h⟩

theorem aggregateWith_raw' {c : Ctx} {w : Weighting} {b nb : Bucket} {t : Tx}
    (h : b.aggregateWith c w t = some nb) : nb.raw = b.raw ++ [t] := by
  unfold Bucket.aggregateWith at h
  split at h
  · simp at h
  · split at h
    · simp at h
    · simp only [Option.some.injEq] at h
      rw [← h]

theorem getElem?_append_single {bs : List Bucket} {nb b : Bucket} {j : Nat}
    (h : (bs ++ [nb])[j]? = some b) : bs[j]? = some b ∨ (j = bs.length ∧ b = nb) := by
  by_cases hj : j < bs.length
  · rw [List.getElem?_append_left hj] at h; exact Or.inl h
  · rw [List.getElem?_append_right (by omega)] at h
    right
    have : j - bs.length = 0 := by
      by_cases h0 : j - bs.length = 0
      · exact h0
      · have : ([nb] : List Bucket)[j - bs.length]? = none := by
          apply List.getElem?_eq_none; simp; omega
        rw [this] at h; simp at h
    rw [this] at h
    simp only [List.getElem?_cons_zero, Option.some.injEq] at h
    exact ⟨by omega, h.symm⟩

theorem getElem?_set_cases {bs : List Bucket} {nb b : Bucket} {pos j : Nat}
    (h : (bs.set pos nb)[j]? = some b) : (j = pos ∧ b = nb) ∨ (j ≠ pos ∧ bs[j]? = some b) := by
  rw [List.getElem?_set] at h
  by_cases hj : pos = j
  · subst hj
    simp only [if_true] at h
    split at h
    · simp only [Option.some.injEq] at h; exact Or.inl ⟨rfl, h.symm⟩
    · simp at h
  · simp only [hj, if_false] at h
    exact Or.inr ⟨fun e => hj e.symm, h⟩

theorem getLast?_concat' (l : List Tx) (t : Tx) : (l ++ [t]).getLast? = some t := by
  simp

/-- one calm step keeps the invariant -/
theorem binv_step {c : Ctx} {w : Weighting} {st : BState} {done : List Tx} {t : Tx}
    (h : BInv st done) (hk : stepKind c w st t = .fresh ∨ stepKind c w st t = .merged)
    (hfresh : ∀ o ∈ t.outs, o ∉ allOuts done)
    (hord : ∀ u ∈ done ++ [t], ∀ o ∈ t.outs, o ∉ u.ins) :
    BInv (bucketStep c w st t) (done ++ [t]) := by
  -- outputs of bucketed transactions are not outputs of the new one
  have hnew : ∀ (j : Nat) (b : Bucket), st.buckets[j]? = some b → ∀ x ∈ b.raw, ∀ o ∈ x.outs, o ∉ t.outs := by
    intro j b hb x hx o ho hot
    exact hfresh o hot (mem_allOuts.mpr ⟨x, h.mem j b hb x hx, ho⟩)
  have hself : ¬ childOf t t := fun ⟨o, ho, hi⟩ => hord t (by simp) o ho hi
  have hnochild : ∀ u ∈ done ++ [t], ¬ childOf u t := fun u hu ⟨o, ho, hi⟩ => hord u hu o ho hi
  unfold stepKind at hk
  unfold bucketStep
  simp only [] at hk ⊢
  by_cases hs : (scanInputs st t.ins).2 = true
  · simp [hs] at hk
  have hs' : (scanInputs st t.ins).2 = false := by simpa using hs
  obtain ⟨_, hscan⟩ := scan_spec st h.rej t.ins (none, false) hs'
  obtain ⟨hfound, hnone⟩ := hscan rfl
  simp only [hs', Bool.false_eq_true, if_false] at hk ⊢
  cases h1 : (scanInputs st t.ins).1 with
  | none =>
    -- fresh: own bucket at the end
    simp only [h1]
    have hno := hnone h1
    refine ⟨h.rej, ?_, ?_, ?_, ?_⟩
    · intro j b hb x hx o ho
      simp only [lookupCommit_new]
      rcases getElem?_append_single hb with hb | ⟨hj, hbb⟩
      · rw [if_neg (hnew j b hb x hx o ho)]; exact h.reg j b hb x hx o ho
      · subst hbb
        simp only [Bucket.new, List.mem_singleton] at hx
        subst hx
        rw [if_pos ho, hj]
    · intro j b hb x hx
      rcases getElem?_append_single hb with hb | ⟨_, hbb⟩
      · exact List.mem_append.mpr (Or.inl (h.mem j b hb x hx))
      · subst hbb
        simp only [Bucket.new, List.mem_singleton] at hx
        subst hx; simp
    · intro x hx
      rcases List.mem_append.mp hx with hx | hx
      · obtain ⟨j, b, hb, hm⟩ := h.cov x hx
        refine ⟨j, b, ?_, hm⟩
        have hj : j < st.buckets.length := by
          by_cases hj : j < st.buckets.length
          · exact hj
          · rw [List.getElem?_eq_none (by omega)] at hb; simp at hb
        rw [List.getElem?_append_left hj]; exact hb
      · simp only [List.mem_singleton] at hx
        subst hx
        exact ⟨st.buckets.length, Bucket.new x st.buckets.length, by simp, by simp [Bucket.new]⟩
    · intro j b hb x hx u hu hch
      rcases getElem?_append_single hb with hb1 | ⟨_, hbb⟩
      · rcases List.mem_append.mp hu with hu | hu
        · exact h.last j b hb1 x hx u hu hch
        · simp only [List.mem_singleton] at hu
          obtain ⟨o, ho, hi⟩ := hch
          rw [hu] at hi
          have := h.reg j b hb1 x hx o ho
          rw [hno o hi] at this; simp at this
      · subst hbb
        simp only [Bucket.new, List.mem_singleton] at hx
        subst hx
        exact absurd hch (hnochild u hu)
  | some pos =>
    simp only [h1] at hk ⊢
    cases hb0 : st.buckets[pos]? with
    | none => simp [hb0] at hk
    | some b0 =>
      simp only [hb0] at hk ⊢
      cases ha : b0.aggregateWith c w t with
      | none => simp [ha] at hk
      | some nb =>
        simp only [ha] at hk ⊢
        by_cases hr : nb.feeRate ≥ b0.feeRate
        · -- merged into the parent's bucket
          simp only [hr, if_true]
          have hraw := aggregateWith_raw' ha
          have hpos : pos < st.buckets.length := by
            by_cases hj : pos < st.buckets.length
            · exact hj
            · rw [List.getElem?_eq_none (by omega)] at hb0; simp at hb0
          have hfound' : ∀ i ∈ t.ins, ∀ j, lookupCommit st.commits i = some j → j = pos := by
            intro i hi j hj
            have : (scanInputs st t.ins).1 = some j := hfound i hi j hj
            rw [h1] at this
            simp only [Option.some.injEq] at this
            exact this.symm
          refine ⟨h.rej, ?_, ?_, ?_, ?_⟩
          · intro j b hb x hx o ho
            simp only [lookupCommit_new]
            rcases getElem?_set_cases hb with ⟨hj, hbb⟩ | ⟨hj, hb⟩
            · subst hbb; subst hj
              rw [hraw] at hx
              rcases List.mem_append.mp hx with hx | hx
              · rw [if_neg (hnew j b0 hb0 x hx o ho)]; exact h.reg j b0 hb0 x hx o ho
              · simp only [List.mem_singleton] at hx
                subst hx; rw [if_pos ho]
            · rw [if_neg (hnew j b hb x hx o ho)]; exact h.reg j b hb x hx o ho
          · intro j b hb x hx
            rcases getElem?_set_cases hb with ⟨hj, hbb⟩ | ⟨hj, hb⟩
            · subst hbb; subst hj
              rw [hraw] at hx
              rcases List.mem_append.mp hx with hx | hx
              · exact List.mem_append.mpr (Or.inl (h.mem j b0 hb0 x hx))
              · exact List.mem_append.mpr (Or.inr hx)
            · exact List.mem_append.mpr (Or.inl (h.mem j b hb x hx))
          · intro x hx
            rcases List.mem_append.mp hx with hx | hx
            · obtain ⟨j, b, hb, hm⟩ := h.cov x hx
              by_cases hj : j = pos
              · subst hj
                rw [hb0] at hb
                simp only [Option.some.injEq] at hb
                subst hb
                refine ⟨j, nb, ?_, ?_⟩
                · rw [List.getElem?_set]; simp [hpos]
                · rw [hraw]; exact List.mem_append.mpr (Or.inl hm)
              · refine ⟨j, b, ?_, hm⟩
                rw [List.getElem?_set]
                have : ¬ pos = j := fun e => hj e.symm
                simp [this, hb]
            · simp only [List.mem_singleton] at hx
              subst hx
              refine ⟨pos, nb, ?_, ?_⟩
              · rw [List.getElem?_set]; simp [hpos]
              · rw [hraw]; simp
          · intro j b hb x hx u hu hch
            rcases getElem?_set_cases hb with ⟨hj, hbb⟩ | ⟨hj, hb⟩
            · subst hbb; subst hj
              rw [hraw, getLast?_concat']
              intro he
              simp only [Option.some.injEq] at he
              subst he
              exact absurd hch (hnochild u hu)
            · rcases List.mem_append.mp hu with hu | hu
              · exact h.last j b hb x hx u hu hch
              · simp only [List.mem_singleton] at hu
                obtain ⟨o, ho, hi⟩ := hch
                rw [hu] at hi
                exact absurd (hfound' o hi j (h.reg j b hb x hx o ho)) hj
        · simp [hr] at hk

/-- a calm run keeps the invariant -/
theorem binv_fold {c : Ctx} {w : Weighting} (rest : List Tx) (st : BState) (done : List Tx)
    (h : BInv st done) (hc : calmB c w st rest = true)
    (hnd : (allOuts (done ++ rest)).Nodup) (hord : Ordered (done ++ rest)) :
    BInv (rest.foldl (bucketStep c w) st) (done ++ rest) := by
  induction rest generalizing st done with
  | nil => simpa using h
  | cons t ts ih =>
    simp only [calmB, stepKinds, List.all_cons, Bool.and_eq_true, Bool.or_eq_true, beq_iff_eq] at hc
    have hstep : BInv (bucketStep c w st t) (done ++ [t]) := by
      apply binv_step h hc.1
      · intro o ho hm
        rw [allOuts_append, allOuts_cons] at hnd
        have := (List.nodup_append.mp hnd).2.2
        exact this o hm o (List.mem_append.mpr (Or.inl ho)) rfl
      · exact hord done t ts rfl
    have heq : done ++ t :: ts = (done ++ [t]) ++ ts := by simp
    rw [heq] at hnd hord ⊢
    simp only [List.foldl_cons]
    exact ih (bucketStep c w st t) (done ++ [t]) hstep (by simpa [calmB] using hc.2) hnd hord

theorem getLast?_flatMap_some {α β : Type} (f : α → List β) (l : List α) (x : β)
    (h : (l.flatMap f).getLast? = some x) : ∃ a ∈ l, (f a).getLast? = some x := by
  induction l with
  | nil => simp at h
  | cons a rest ih =>
    simp only [List.flatMap_cons, List.getLast?_append] at h
    cases hr : (rest.flatMap f).getLast? with
    | none =>
      rw [hr] at h
      exact ⟨a, by simp, by simpa using h⟩
    | some y =>
      rw [hr] at h
      simp only [Option.some_or, Option.some.injEq] at h
      subst h
      obtain ⟨b, hb, hx⟩ := ih hr
      exact ⟨b, by simp [hb], hx⟩

/-- **the eviction victim of a calm pool is a leaf**: no pooled transaction spends one of its
outputs -/
theorem evictee_leaf_of_calm {c : Ctx} {p : Pool} {E : Tx}
    (hc : calmB c .noLimit {} p.txs = true) (hnd : (allOuts p.txs).Nodup) (hord : Ordered p.txs)
    (hE : p.evictee c = some E) : ∀ u ∈ p.txs, ¬ childOf u E := by
  have hinv := binv_fold (c := c) (w := .noLimit) p.txs {} [] binv_empty hc (by simpa using hnd) (by simpa using hord)
  simp only [List.nil_append] at hinv
  unfold Pool.evictee Pool.bucketTransactions at hE
  obtain ⟨b, hb, hlast⟩ := getLast?_flatMap_some _ _ _ hE
  have hb' := mem_sortBuckets hb
  obtain ⟨j, hj⟩ := List.mem_iff_getElem?.mp hb'
  intro u hu hch
  have hmem : E ∈ b.raw := List.mem_of_getLast? hlast
  exact hinv.last j b hj E hmem u hu hch hlast

end GV.Pool
