import GrinVerif.Lemmas.StoreCompact
/-! The "prune list append only" assertions of `store/src/prune_list.rs` never fire for the
arguments the store passes (`Model/PruneList.lean` `appendChecked` / `newChecked` = the functions
with the assertions as a `none` outcome): `PruneList::new` on the bitmap `check_compact` builds,
`PruneList::open` on a flushed list, `append` of a new rightmost root during an import.
Core Lean only. -/
namespace GV.Store
open GV GV.Pmmr

namespace PruneList

/-- the assertion in terms of the elements -/
theorem appendAssert_of_all_le {pl : PruneList} {pos0 : Nat} (h : ∀ y ∈ pl.bitmap, y ≤ pos0) :
    appendAssert pl pos0 = true := by
  unfold appendAssert
  cases hm : Bm.maximum pl.bitmap with
  | none => simp
  | some m => simpa using h m (maximum_mem hm)

/-- **`append` does not trip its assertions** when every root is strictly left of the position
(1-based roots `<= pos0`): the recursion moves to the parent (further right), `cleanup_subtree`
only removes roots -/
theorem appendChecked_eq : ∀ (fuel : Nat) (pl : PruneList) (pos0 : Nat), Inv pl →
    (∀ y ∈ pl.bitmap, y ≤ pos0) → appendChecked fuel pl pos0 = some (appendFuel fuel pl pos0) := by
  intro fuel
  induction fuel with
  | zero => intro pl pos0 _ _; rfl
  | succ n ih =>
    intro pl pos0 hinv hall
    unfold appendChecked appendFuel
    rw [appendAssert_of_all_le hall]
    simp only [Bool.not_true, Bool.false_eq_true, if_false]
    split
    · exact ih pl (family pos0).1 hinv (fun y hy => by
        have := hall y hy; have := family_parent_gt pos0; omega)
    · obtain ⟨_, _, hsub⟩ := cleanup_inv hinv pos0
      rw [appendAssert_of_all_le (fun y hy => hall y (hsub y hy))]
      simp

/-- the fold of `new`, with the accumulator's roots strictly left of everything still to come -/
theorem foldl_appendChecked : ∀ (rest : List Nat) (pl : PruneList), Inv pl →
    (∀ y ∈ pl.bitmap, ∀ e ∈ rest, y < e) →
    Sorted rest → (∀ e ∈ rest, 1 ≤ e ∧ e + 64 < 2 ^ 64) →
    List.Pairwise (fun a b => ¬ Sub (b - 1) (a - 1)) rest →
    rest.foldl (fun acc pos1 => acc.bind fun pl => appendChecked 64 pl (pos1 - 1)) (some pl) =
      some (rest.foldl (fun pl pos1 => append pl (pos1 - 1)) pl) := by
  intro rest
  induction rest with
  | nil => intro pl _ _ _ _ _; rfl
  | cons e rest ih =>
    intro pl hinv hlt hsorted hbound hanti
    have hs' := List.pairwise_cons.1 hsorted
    have ha' := List.pairwise_cons.1 hanti
    obtain ⟨he1, he2⟩ := hbound e (by simp)
    have hall : ∀ y ∈ pl.bitmap, y ≤ e - 1 := fun y hy => by
      have := hlt y hy e (by simp); omega
    simp only [List.foldl_cons, Option.bind_some]
    rw [appendChecked_eq 64 pl (e - 1) hinv hall]
    obtain ⟨p', hp1, hp2, hp3, _⟩ := appendFuel_leaves 64 pl (e - 1) hinv
      (fun y hy => by have := hall y hy; omega) (by omega) (by omega)
    exact ih (append pl (e - 1)) (append_inv hinv _)
      (fun y hy e' he' => by
        have h1 := hp3 y hy
        have h2 := hs'.1 e' he'
        have h3 := ha'.1 e' he'
        apply Classical.byContradiction
        intro hc
        exact h3 (hp2 (e' - 1) (by omega) (by omega)))
      hs'.2 (fun e' he' => hbound e' (by simp [he'])) ha'.2

/-- **`PruneList::new` does not panic** on an ascending bitmap of 1-based positions none of which
lies inside the subtree of a later one -/
theorem newChecked_eq (l : List Nat) (hs : Sorted l) (hb : ∀ e ∈ l, 1 ≤ e ∧ e + 64 < 2 ^ 64)
    (hanti : List.Pairwise (fun a b => ¬ Sub (b - 1) (a - 1)) l) :
    newChecked l = some (PruneList.new l) := by
  unfold newChecked PruneList.new
  have h0 : Bm.contains l 0 = false := by
    unfold Bm.contains
    cases h : l.elem 0 with
    | false => rfl
    | true =>
      have := hb 0 (List.mem_of_elem_eq_true h)
      omega
  rw [h0]
  simp only [Bool.false_eq_true, if_false]
  exact foldl_appendChecked l {} inv_empty (fun y hy => by simp at hy) hs hb hanti

end PruneList

/-- the bitmap `check_compact` hands to `PruneList::new`: ascending, positive, bounded, and no
element inside the subtree of a later one (old roots are not nested; a removed leaf is not below
an old root – `removed_pre_cutoff` ANDs with the unpruned leaves) -/
theorem compact_bitmap_ok {H : Type} {b : Backend H} {size cutoff : Nat}
    (hp : Backend.CompactPre b size cutoff) (rm : Bitmap) :
    let l := Bm.or b.pruneList.bitmap (Backend.leavesRm b cutoff rm)
    Sorted l ∧ (∀ e ∈ l, 1 ≤ e ∧ e + 64 < 2 ^ 64) ∧
      List.Pairwise (fun a c => ¬ Sub (c - 1) (a - 1)) l := by
  intro l
  have hprops := Backend.leavesRm_props hp rm
  have hsorted : Sorted l := sorted_or hp.inv.sorted
  refine ⟨hsorted, ?_, ?_⟩
  · intro e he
    have hb := hp.bound
    have hc := hp.cutoff
    rcases mem_or.1 he with h | h
    · have := hp.roots e h; have := hp.inv.pos e h; omega
    · have := hprops e h; omega
  · apply List.Pairwise.imp_of_mem (R := fun a c => a < c) ?_ hsorted
    intro a c ha hc hac hsub
    rcases mem_or.1 ha with ha | ha <;> rcases mem_or.1 hc with hc | hc
    · have h1 := PruneList.root_not_compacted hp.inv a ha
      have h2 : compactedP b.pruneList.bitmap (a - 1) = true :=
        compactedP_iff.2 ⟨c, hc, hsub, by have := hp.inv.pos a ha; omega⟩
      rw [h1] at h2; exact absurd h2 (by simp)
    · have := sub_leaf (hprops c hc).2.2.2.2.1 hsub
      have := hp.inv.pos a ha; have := (hprops c hc).1
      omega
    · exact (hprops a ha).2.2.2.2.2 ⟨c, hc, hsub⟩
    · have := sub_leaf (hprops c hc).2.2.2.2.1 hsub
      have := (hprops a ha).1; have := (hprops c hc).1
      omega

/-- **`check_compact` does not trip the prune list's assertions** -/
theorem checkCompact_new_no_panic {H : Type} {b : Backend H} {size cutoff : Nat}
    (hp : Backend.CompactPre b size cutoff) (rm : Bitmap) :
    PruneList.newChecked (Bm.or b.pruneList.bitmap (Backend.leavesRm b cutoff rm)) =
      some (PruneList.new (Bm.or b.pruneList.bitmap (Backend.leavesRm b cutoff rm))) := by
  obtain ⟨h1, h2, h3⟩ := compact_bitmap_ok hp rm
  exact PruneList.newChecked_eq _ h1 h2 h3

end GV.Store
