import GrinVerif.Lemmas.ConsDiff
/-! Definitions used to *state* the `validate_header` theorems of `Props/C04.lean` (the rules as
propositions, the order of the checks) and the lemmas about the `!SKIP_POW` block
(`validateDifficulty`) they are assembled from. -/
namespace GV.Cons
open GV GV.Gen

/-- results of `validateHeader` can be compared (used by the `decide` examples) -/
instance : DecidableEq (Except Err Unit) := fun a b =>
  match a, b with
  | .ok (), .ok () => isTrue rfl
  | .error e, .error f =>
    if h : e = f then isTrue (by rw [h]) else isFalse (by intro hh; cases hh; exact h rfl)
  | .ok (), .error _ => isFalse (by intro h; cases h)
  | .error _, .ok () => isFalse (by intro h; cases h)

/-- The proof-of-work / difficulty rules (the block of `validate_header` guarded by
`!SKIP_POW`): the edge bits are an allowed size, the cycle verifier accepted, the claimed total
difficulty exceeds the parent's by **exactly** the network difficulty computed from the
preceding headers, the proof's own difficulty reaches it, and before header version 5 the
secondary scaling is the computed one. -/
def DifficultyRules (c : Ctx) (prev h : Hdr) : Prop :=
  (isPrimary c.ct h.edgeBits = true ∨ isSecondary h.edgeBits = true) ∧ c.powOk = true ∧
  prev.totalDiff < h.totalDiff ∧
  ∃ next, nextDifficulty c.ct h.height c.window = some next ∧
    h.totalDiff - prev.totalDiff = next.diff ∧
    next.diff ≤ toDifficulty c.ct h.height h.edgeBits h.secondaryScaling h.hash64 ∧
    (h.version < 5 → h.secondaryScaling = next.scaling)

/-- The header rules: not denied, extends a known header at height + 1, scheduled version,
strictly later timestamp, both MMR leaf counts grew, the implied minimum weight fits a block,
and (unless `SKIP_POW`) the difficulty rules. -/
def HeaderRules (c : Ctx) (h : Hdr) : Prop :=
  c.denied = false ∧ ∃ prev, c.prev = some prev ∧
    h.height = addW prev.height 1 ∧
    h.version = headerVersion c.ct h.height ∧
    prev.ts < h.ts ∧
    Pmmr.nLeaves prev.outputMmrSize < Pmmr.nLeaves h.outputMmrSize ∧
    Pmmr.nLeaves prev.kernelMmrSize < Pmmr.nLeaves h.kernelMmrSize ∧
    weightByIok 0 (Pmmr.nLeaves h.outputMmrSize - Pmmr.nLeaves prev.outputMmrSize)
      (Pmmr.nLeaves h.kernelMmrSize - Pmmr.nLeaves prev.kernelMmrSize) ≤ maxBlockWeight c.ct ∧
    (c.skipPow = false → DifficultyRules c prev h)

/-- position of each error's check in `validate_header` (the order of the code) -/
def errRank : Err → Nat
  | .Denied => 0 | .Orphan => 1 | .InvalidBlockHeight => 2 | .InvalidBlockVersion => 3
  | .InvalidBlockTime => 4 | .InvalidMMRSize => 5 | .TooHeavy => 6 | .LowEdgebits => 7
  | .InvalidPow => 8 | .DifficultyTooLow => 9 | .Panic => 10 | .WrongTotalDifficulty => 11
  | .InvalidScaling => 12 | .InvalidRoot => 13

/-- the result is acceptance or an error raised by a check later than check number `k` -/
def passedBeyond (r : Except Err Unit) (k : Nat) : Prop :=
  match r with
  | .ok _ => True
  | .error e => k < errRank e

theorem validate_difficulty_iff (c : Ctx) (prev h : Hdr) :
    validateDifficulty c prev h = .ok () ↔ DifficultyRules c prev h := by
  unfold validateDifficulty DifficultyRules validatePowOnly
  by_cases h8 : isPrimary c.ct h.edgeBits = true ∨ isSecondary h.edgeBits = true
  case neg =>
    have : (!isPrimary c.ct h.edgeBits && !isSecondary h.edgeBits) = true := by
      simp only [not_or, Bool.not_eq_true] at h8
      simp [h8.1, h8.2]
    simp [this, h8]
  have h8' : ¬ (!isPrimary c.ct h.edgeBits && !isSecondary h.edgeBits) = true := by
    rcases h8 with h8 | h8 <;> simp [h8]
  rw [if_neg h8']
  by_cases h9 : c.powOk = true
  case neg => simp [h9]
  simp only [h9, Bool.not_true, Bool.false_eq_true, if_false, h8, true_and]
  split
  · rename_i h10
    simp only [reduceCtorEq, false_iff]
    intro hc
    have := hc.1
    omega
  rename_i h10
  have h10' : prev.totalDiff < h.totalDiff := by omega
  simp only [h10', true_and]
  split
  · rename_i h11
    simp only [reduceCtorEq, false_iff]
    rintro ⟨next, _, he, hle, _⟩
    omega
  rename_i h11
  cases hn : nextDifficulty c.ct h.height c.window with
  | none => simp
  | some next =>
    simp only [Option.some.injEq, exists_eq_left']
    split
    · rename_i h12
      simp only [reduceCtorEq, false_iff]
      intro hc
      exact h12 hc.1
    rename_i h12
    have h12' : h.totalDiff - prev.totalDiff = next.diff := by simpa using h12
    split
    · rename_i h13
      simp only [reduceCtorEq, false_iff]
      intro hc
      exact h13.2 (hc.2.2 h13.1)
    rename_i h13
    simp only [true_iff]
    refine ⟨h12', by omega, ?_⟩
    intro hv
    by_cases hs : h.secondaryScaling = next.scaling
    · exact hs
    · exact absurd ⟨hv, hs⟩ h13


theorem validate_difficulty_prefix (c : Ctx) (prev h : Hdr) :
    (passedBeyond (validateDifficulty c prev h) 7 →
      isPrimary c.ct h.edgeBits = true ∨ isSecondary h.edgeBits = true) ∧
    (passedBeyond (validateDifficulty c prev h) 8 → c.powOk = true) ∧
    (passedBeyond (validateDifficulty c prev h) 9 → prev.totalDiff < h.totalDiff ∧
      h.totalDiff - prev.totalDiff ≤ toDifficulty c.ct h.height h.edgeBits h.secondaryScaling h.hash64) ∧
    (passedBeyond (validateDifficulty c prev h) 10 →
      ∃ next, nextDifficulty c.ct h.height c.window = some next ∧
        (passedBeyond (validateDifficulty c prev h) 11 → h.totalDiff - prev.totalDiff = next.diff) ∧
        (passedBeyond (validateDifficulty c prev h) 12 → h.version < 5 → h.secondaryScaling = next.scaling)) := by
  generalize hr : validateDifficulty c prev h = r
  unfold validateDifficulty validatePowOnly at hr
  split at hr
  · rename_i e he
    split at he
    · cases he; subst hr; simp [passedBeyond, errRank]
    rename_i h8
    have h8' : isPrimary c.ct h.edgeBits = true ∨ isSecondary h.edgeBits = true := by
      cases hA : isPrimary c.ct h.edgeBits <;> cases hB : isSecondary h.edgeBits <;> simp_all
    split at he
    · cases he; subst hr; simp [passedBeyond, errRank, h8']
    · cases he
  rename_i he
  split at he
  · cases he
  rename_i h8
  have h8' : isPrimary c.ct h.edgeBits = true ∨ isSecondary h.edgeBits = true := by
    cases hA : isPrimary c.ct h.edgeBits <;> cases hB : isSecondary h.edgeBits <;> simp_all
  split at he
  · cases he
  rename_i h9
  have h9' : c.powOk = true := by simpa using h9
  split at hr
  · subst hr; simp [passedBeyond, errRank, h8', h9']
  rename_i h10
  split at hr
  · subst hr; simp [passedBeyond, errRank, h8', h9']
  rename_i h11
  have h10' : prev.totalDiff < h.totalDiff := by omega
  have h11' := Nat.le_of_not_gt h11
  refine ⟨fun _ => h8', fun _ => h9', fun _ => ⟨h10', h11'⟩, ?_⟩
  split at hr
  · subst hr; simp [passedBeyond, errRank]
  rename_i next hn
  intro _
  refine ⟨next, hn, ?_⟩
  split at hr
  · subst hr; simp [passedBeyond, errRank]
  rename_i h12
  have h12' : h.totalDiff - prev.totalDiff = next.diff := by simpa using h12
  split at hr
  · subst hr; simp [passedBeyond, errRank, h12']
  rename_i h13
  refine ⟨fun _ => h12', fun _ hv => ?_⟩
  by_cases hs : h.secondaryScaling = next.scaling
  · exact hs
  · exact absurd ⟨hv, hs⟩ h13


theorem passedBeyond_mono {r : Except Err Unit} {j k : Nat} (hjk : j ≤ k)
    (h : passedBeyond r k) : passedBeyond r j := by
  cases r with
  | ok u => trivial
  | error e => simp only [passedBeyond] at *; omega

theorem passed_or_rejected (r : Except Err Unit) (k : Nat) :
    passedBeyond r k ∨ ∃ e, r = .error e ∧ errRank e ≤ k := by
  cases r with
  | ok u => exact .inl trivial
  | error e =>
    by_cases hk : k < errRank e
    · exact .inl hk
    · exact .inr ⟨e, rfl, by omega⟩

theorem difficulty_panic (c : Ctx) (prev h : Hdr)
    (hv : validateDifficulty c prev h = .error .Panic) :
    nextDifficulty c.ct h.height c.window = none := by
  unfold validateDifficulty at hv
  split at hv
  · rename_i e he
    cases hv
    unfold validatePowOnly at he
    repeat' split at he
    all_goals cases he
  · repeat' split at hv
    all_goals first | assumption | cases hv

end GV.Cons
