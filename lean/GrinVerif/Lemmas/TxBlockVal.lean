import GrinVerif.Model.TxBlock
import GrinVerif.Lemmas.TxBlock
/-! Lemmas about the block-level gates of `Model/TxBlock.lean` (C12): `block_kernel_offset`,
`Vec::dedup`, the lock-height scan, the insertion sort of the short ids. -/
namespace GV.Tx
open List

/-! ### `block_kernel_offset` -/

theorem toSecrets_singleton_pos {s : Nat} (h : s < N) (z : s ≠ 0) : toSecrets [s] = [s] := by
  rw [toSecrets_singleton_of_lt h, if_neg z]

/-- closed form of `block_kernel_offset` for 32-byte values that are scalars -/
theorem blockKernelOffset_eq {t p : Nat} (ht : t < N) (hp : p < N) :
    blockKernelOffset t p = .ok (if t = 0 then 0 else (t + (N - p)) % N) := by
  unfold blockKernelOffset
  by_cases e : t = p
  · subst e
    by_cases z : t = 0
    · simp [z]
    · have : (t + (N - t)) % N = 0 := by
        have : t + (N - t) = N := by omega
        rw [this, Nat.mod_self]
      simp [z, this]
  · rw [if_neg e]
    by_cases z : t = 0
    · subst z
      have e0 : toSecrets [0] = [] := by simp [toSecrets]
      simp [sumKernelOffsets, e0]
    · rw [if_neg z]
      unfold sumKernelOffsets
      rw [toSecrets_singleton_pos ht z]
      simp only [isEmpty_cons, Bool.false_eq_true, if_false, blindSumOrZero_eq]
      by_cases zp : p = 0
      · subst zp
        have e0 : toSecrets [0] = [] := by simp [toSecrets]
        rw [e0]
        simp [scalarSum]
      · rw [toSecrets_singleton_pos hp zp]
        simp [scalarSum, Nat.mod_eq_of_lt hp]

/-! ### `Vec::dedup` -/

theorem dedupAdj_length_le : ∀ (l : List Nat), (dedupAdj l).length ≤ l.length
  | [] => by simp [dedupAdj]
  | [_] => by simp [dedupAdj]
  | a :: b :: t => by
    have ih := dedupAdj_length_le (b :: t)
    unfold dedupAdj
    split
    · simp only [length_cons] at ih ⊢; omega
    · simp only [length_cons] at ih ⊢; omega

/-- `dedup` keeps the length exactly when no two neighbours are equal -/
theorem dedupAdj_length_eq_iff : ∀ (l : List Nat), (dedupAdj l).length = l.length ↔ adjDup l = false
  | [] => by simp [dedupAdj, adjDup]
  | [_] => by simp [dedupAdj, adjDup]
  | a :: b :: t => by
    have ih := dedupAdj_length_eq_iff (b :: t)
    have le := dedupAdj_length_le (b :: t)
    unfold dedupAdj adjDup
    by_cases e : a = b
    · subst e
      simp only [beq_self_eq_true, if_true, Bool.true_or, length_cons] at le ⊢
      constructor
      · intro h; omega
      · intro h; cases h
    · have e' : (a == b) = false := by simpa using e
      simp only [e', Bool.false_eq_true, if_false, Bool.false_or, length_cons, Nat.add_right_cancel_iff]
      simpa using ih

/-! ### lock heights -/

theorem verifyKernelLockHeights_none_iff (M : KMeta) (height : Nat) :
    ∀ (ks : List Nat), verifyKernelLockHeights M height ks = none ↔
      ∀ k ∈ ks, M.feat k = 2 → M.lock k ≤ height
  | [] => by simp [verifyKernelLockHeights]
  | k :: t => by
    have ih := verifyKernelLockHeights_none_iff M height t
    unfold verifyKernelLockHeights
    by_cases c : M.feat k = 2 ∧ M.lock k > height
    · have : (M.feat k == 2 && decide (M.lock k > height)) = true := by simp [c.1, c.2]
      rw [if_pos this]
      constructor
      · intro h; cases h
      · intro h
        have := h k mem_cons_self c.1
        omega
    · have : (M.feat k == 2 && decide (M.lock k > height)) = false := by
        cases hb : (M.feat k == 2 && decide (M.lock k > height))
        · rfl
        · exfalso; apply c; simpa using hb
      rw [this, if_neg (by simp), ih]
      constructor
      · intro h x hx
        rcases mem_cons.1 hx with rfl | hx
        · intro f; have : ¬ M.lock x > height := fun g => c ⟨f, g⟩; omega
        · exact h x hx
      · intro h x hx; exact h x (mem_cons_of_mem _ hx)

/-! ### insertion sort of the short ids -/

theorem insertByLe_perm {α : Type} (le : α → α → Bool) (x : α) : ∀ (l : List α), insertByLe le x l ~ x :: l
  | [] => by simp [insertByLe]
  | y :: t => by
    unfold insertByLe
    split
    · exact Perm.refl _
    · exact ((insertByLe_perm le x t).cons y).trans (Perm.swap x y t)

theorem sortByLe_perm {α : Type} (le : α → α → Bool) : ∀ (l : List α), sortByLe le l ~ l
  | [] => by simp [sortByLe]
  | x :: t => by
    unfold sortByLe
    exact (insertByLe_perm le x _).trans ((sortByLe_perm le t).cons x)

theorem insertByLe_sorted {α : Type} (le : α → α → Bool) (tot : ∀ a b, le a b = true ∨ le b a = true)
    (tr : ∀ a b c, le a b = true → le b c = true → le a c = true) (x : α) :
    ∀ (l : List α), l.Pairwise (fun a b => le a b = true) → (insertByLe le x l).Pairwise (fun a b => le a b = true)
  | [], _ => by simp [insertByLe]
  | y :: t, s => by
    have hy := (pairwise_cons.1 s).1
    have st := (pairwise_cons.1 s).2
    unfold insertByLe
    split
    · rename_i hxy
      refine pairwise_cons.2 ⟨?_, s⟩
      intro b hb
      rcases mem_cons.1 hb with rfl | hb
      · exact hxy
      · exact tr _ _ _ hxy (hy b hb)
    · rename_i hxy
      have hyx : le y x = true := by
        rcases tot x y with h | h
        · exact absurd h hxy
        · exact h
      refine pairwise_cons.2 ⟨?_, insertByLe_sorted le tot tr x t st⟩
      intro b hb
      rcases mem_cons.1 ((insertByLe_perm le x t).mem_iff.1 hb) with rfl | hb
      · exact hyx
      · exact hy b hb

theorem sortByLe_sorted {α : Type} (le : α → α → Bool) (tot : ∀ a b, le a b = true ∨ le b a = true)
    (tr : ∀ a b c, le a b = true → le b c = true → le a c = true) :
    ∀ (l : List α), (sortByLe le l).Pairwise (fun a b => le a b = true)
  | [] => by simp [sortByLe]
  | x :: t => by
    unfold sortByLe
    exact insertByLe_sorted le tot tr x _ (sortByLe_sorted le tot tr t)

theorem bytesLe_total : ∀ (a b : List Nat), bytesLe a b = true ∨ bytesLe b a = true
  | [], _ => by simp [bytesLe]
  | _ :: _, [] => by simp [bytesLe]
  | a :: as, b :: bs => by
    have ih := bytesLe_total as bs
    unfold bytesLe
    by_cases h1 : a < b
    · simp [h1]
    · by_cases h2 : b < a
      · simp [h2]
      · simpa [h1, h2] using ih

theorem bytesLe_trans : ∀ (a b c : List Nat), bytesLe a b = true → bytesLe b c = true → bytesLe a c = true
  | [], _, _, _, _ => by simp [bytesLe]
  | _ :: _, [], _, h, _ => by simp [bytesLe] at h
  | _ :: _, _ :: _, [], _, h => by simp [bytesLe] at h
  | a :: as, b :: bs, c :: cs, h1, h2 => by
    have ih := bytesLe_trans as bs cs
    unfold bytesLe at h1 h2 ⊢
    by_cases ab : a < b
    · by_cases bc : b < c
      · have : a < c := by omega
        simp [this]
      · by_cases cb : c < b
        · simp [bc, cb] at h2
        · have : a < c := by omega
          simp [this]
    · by_cases ba : b < a
      · simp [ab, ba] at h1
      · have e : a = b := by omega
        subst e
        simp only [Nat.lt_irrefl, if_false] at h1
        by_cases bc : a < c
        · simp [bc]
        · by_cases cb : c < a
          · simp [bc, cb] at h2
          · simp only [bc, cb, if_false] at h2 ⊢
            exact ih h1 h2

/-! ### fees and lock height of a body -/

theorem foldl_satAdd (f : Nat → Nat) : ∀ (l : List Nat) (acc : Nat), acc ≤ U64MAX →
    l.foldl (fun a k => min U64MAX (a + f k)) acc = min U64MAX (acc + (l.map f).sum)
  | [], acc, h => by simp [Nat.min_eq_right h]
  | k :: t, acc, h => by
    simp only [foldl_cons, map_cons, sum_cons]
    rw [foldl_satAdd f t _ (Nat.min_le_left _ _)]
    simp only [Nat.min_def]
    split <;> split <;> split <;> omega

/-- `fee()`: the saturating sum is the capped sum -/
theorem totalFees_eq (M : KMeta) (ks : List Nat) :
    totalFees M ks = min U64MAX (((ks.filter (fun k => M.feat k != 1)).map M.fee).sum) := by
  unfold totalFees
  rw [foldl_satAdd M.fee _ 0 (by decide), Nat.zero_add]

theorem totalFees_perm (M : KMeta) {a b : List Nat} (p : a ~ b) : totalFees M a = totalFees M b := by
  rw [totalFees_eq, totalFees_eq, ((p.filter _).map M.fee).sum_nat]

theorem foldl_max_le_iff : ∀ (l : List Nat) (a h : Nat), l.foldl max a ≤ h ↔ a ≤ h ∧ ∀ x ∈ l, x ≤ h
  | [], a, h => by simp
  | x :: t, a, h => by
    simp only [foldl_cons]
    rw [foldl_max_le_iff t (max a x) h]
    constructor
    · rintro ⟨h1, h2⟩
      refine ⟨by omega, ?_⟩
      intro y hy
      rcases mem_cons.1 hy with rfl | hy
      · omega
      · exact h2 y hy
    · rintro ⟨h1, h2⟩
      have := h2 x mem_cons_self
      exact ⟨by omega, fun y hy => h2 y (mem_cons_of_mem _ hy)⟩

/-- `lock_height()` is at most `h` iff every height-locked kernel's lock height is -/
theorem lockHeight_le_iff (M : KMeta) (ks : List Nat) (h : Nat) :
    lockHeight M ks ≤ h ↔ ∀ k ∈ ks, M.feat k = 2 → M.lock k ≤ h := by
  unfold lockHeight
  rw [foldl_max_le_iff]
  simp only [Nat.zero_le, true_and, mem_map, mem_filter, beq_iff_eq]
  constructor
  · intro g k hk hf; exact g _ ⟨k, ⟨hk, hf⟩, rfl⟩
  · rintro g x ⟨k, ⟨hk, hf⟩, rfl⟩; exact g k hk hf

/-! ### SipHash words stay inside 64 bits -/

theorem leBytes_length (w n : Nat) : (leBytes w n).length = w := by
  simp [leBytes]

end GV.Tx
