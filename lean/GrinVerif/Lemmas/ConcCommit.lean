import GrinVerif.Model.Conc
/-! Lemmas for C17, commit-protocol model (`GV.Conc.Commit`): the invariant tying the shared state to
the sequential commit history, its preservation, and the three run-level consequences. -/
namespace GV.Conc.Commit
variable {D M : Type}

structure CInv (s0 : Shared D M) (s : St D M) : Prop where
  len : s.hist.length = s.k + 1
  /-- a thread inside a writer op holds the txhashset write lock -/
  lockW : ∀ tid, s.wr tid ≠ .idle → s.ts = .writer tid
  /-- outside the sync→commit window the shared state is the last committed state -/
  quiet : (∀ tid b w, s.wr tid ≠ .synced b w) → s.hist.head? = some s.sh
  /-- the LMDB half is always that of the last committed state -/
  dbok : ∃ c, s.hist.head? = some c ∧ s.sh.db = c.db
  /-- a running op started from the last committed state -/
  base : ∀ tid b w, (s.wr tid = .working b w ∨ s.wr tid = .synced b w) → s.hist.head? = some b
  serial : serialHist s0 s.bases s.hist

theorem cinv_start (s0 : Shared D M) : CInv s0 (start s0) := by
  refine ⟨rfl, ?_, ?_, ⟨s0, rfl, rfl⟩, ?_, ?_⟩
  · intro tid h; exact absurd rfl h
  · intro _; rfl
  · intro tid b w h; rcases h with h | h <;> cases h
  · simp [start, serialHist]

theorem all_idle_of_not_writer {s0 : Shared D M} {s : St D M} (hi : CInv s0 s)
    (h : ∀ tid, s.ts ≠ .writer tid) : ∀ tid, s.wr tid = .idle := by
  intro tid
  cases hw : s.wr tid with
  | idle => rfl
  | working b w => exact absurd (hi.lockW tid (by rw [hw]; intro e; cases e)) (h tid)
  | synced b w => exact absurd (hi.lockW tid (by rw [hw]; intro e; cases e)) (h tid)
  | committed => exact absurd (hi.lockW tid (by rw [hw]; intro e; cases e)) (h tid)

theorem only_writer {s0 : Shared D M} {s : St D M} (hi : CInv s0 s) {tid j : Nat}
    (ht : s.wr tid ≠ .idle) (hj : s.wr j ≠ .idle) : j = tid := by
  have a := hi.lockW tid ht
  have b := hi.lockW j hj
  rw [a] at b; injection b with b; exact b.symm

theorem cinv_step (s0 : Shared D M) (s s' : St D M) (o : Option (Obs D M)) (hi : CInv s0 s)
    (hs : CStep s o s') : CInv s0 s' := by
  cases hs with
  | wlock tid hfree hidle =>
    have hall := all_idle_of_not_writer hi (by intro t e; rw [hfree] at e; cases e)
    have hq := hi.quiet (by intro t b w e; rw [hall t] at e; cases e)
    refine ⟨hi.len, ?_, ?_, hi.dbok, ?_, hi.serial⟩
    · intro j hj
      by_cases hjt : j = tid
      · subst hjt; rfl
      · simp only [hjt, if_false] at hj; exact absurd (hall j) hj
    · intro _; exact hq
    · intro j b w h
      by_cases hjt : j = tid
      · subst hjt
        simp only [if_true] at h
        rcases h with h | h
        · injection h with h1 _; subst h1; exact hq
        · cases h
      · simp only [hjt, if_false] at h
        rw [hall j] at h; rcases h with h | h <;> cases h
  | work tid b w f hw =>
    have hne : s.wr tid ≠ .idle := by rw [hw]; intro e; cases e
    refine ⟨hi.len, ?_, ?_, hi.dbok, ?_, hi.serial⟩
    · intro j hj
      by_cases hjt : j = tid
      · subst hjt; exact hi.lockW _ hne
      · simp only [hjt, if_false] at hj; exact hi.lockW j hj
    · intro hq
      apply hi.quiet
      intro j b' w' e
      by_cases hjt : j = tid
      · subst hjt; rw [hw] at e; cases e
      · have := hq j b' w'; simp only [hjt, if_false] at this; exact this e
    · intro j b' w' h
      by_cases hjt : j = tid
      · subst hjt
        simp only [if_true] at h
        rcases h with h | h
        · injection h with h1 _; subst h1; exact hi.base _ b w (Or.inl hw)
        · cases h
      · simp only [hjt, if_false] at h; exact hi.base j b' w' h
  | sync tid b w hw =>
    have hne : s.wr tid ≠ .idle := by rw [hw]; intro e; cases e
    refine ⟨hi.len, ?_, ?_, ?_, ?_, hi.serial⟩
    · intro j hj
      by_cases hjt : j = tid
      · subst hjt; exact hi.lockW _ hne
      · simp only [hjt, if_false] at hj; exact hi.lockW j hj
    · intro hq
      have := hq tid b w
      simp only [if_true] at this
      exact absurd rfl this
    · exact hi.dbok
    · intro j b' w' h
      by_cases hjt : j = tid
      · subst hjt
        simp only [if_true] at h
        rcases h with h | h
        · cases h
        · injection h with h1 _; subst h1; exact hi.base _ b w (Or.inl hw)
      · simp only [hjt, if_false] at h; exact hi.base j b' w' h
  | commit tid b w hw =>
    have hne : s.wr tid ≠ .idle := by rw [hw]; intro e; cases e
    have hb := hi.base tid b w (Or.inr hw)
    have hothers : ∀ j, j ≠ tid → s.wr j = .idle := by
      intro j hjt
      cases hj : s.wr j with
      | idle => rfl
      | working _ _ => exact absurd (only_writer hi hne (by rw [hj]; intro e; cases e)) hjt
      | synced _ _ => exact absurd (only_writer hi hne (by rw [hj]; intro e; cases e)) hjt
      | committed => exact absurd (only_writer hi hne (by rw [hj]; intro e; cases e)) hjt
    refine ⟨by simp [hi.len], ?_, ?_, ⟨w, rfl, rfl⟩, ?_, ?_⟩
    · intro j hj
      by_cases hjt : j = tid
      · subst hjt; exact hi.lockW _ hne
      · simp only [hjt, if_false] at hj; exact hi.lockW j hj
    · intro _; rfl
    · intro j b' w' h
      by_cases hjt : j = tid
      · subst hjt; simp only [if_true] at h; rcases h with h | h <;> cases h
      · simp only [hjt, if_false] at h; rw [hothers j hjt] at h; rcases h with h | h <;> cases h
    · -- serial: b = previous head
      cases hh : s.hist with
      | nil => rw [hh] at hb; cases hb
      | cons h' hs =>
        rw [hh] at hb
        simp only [List.head?_cons, Option.some.injEq] at hb
        have hser := hi.serial
        rw [hh] at hser
        simp only [serialHist]
        exact ⟨hb.symm, hser⟩
  | abort tid b w hw =>
    have hne : s.wr tid ≠ .idle := by rw [hw]; intro e; cases e
    have hothers : ∀ j, j ≠ tid → s.wr j = .idle := by
      intro j hjt
      cases hj : s.wr j with
      | idle => rfl
      | working _ _ => exact absurd (only_writer hi hne (by rw [hj]; intro e; cases e)) hjt
      | synced _ _ => exact absurd (only_writer hi hne (by rw [hj]; intro e; cases e)) hjt
      | committed => exact absurd (only_writer hi hne (by rw [hj]; intro e; cases e)) hjt
    refine ⟨hi.len, ?_, ?_, hi.dbok, ?_, hi.serial⟩
    · intro j hj
      by_cases hjt : j = tid
      · subst hjt; simp at hj
      · simp only [hjt, if_false] at hj; exact absurd (hothers j hjt) hj
    · intro _
      apply hi.quiet
      intro j b' w' e
      by_cases hjt : j = tid
      · subst hjt; rw [hw] at e; cases e
      · rw [hothers j hjt] at e; cases e
    · intro j b' w' h
      by_cases hjt : j = tid
      · subst hjt; simp only [if_true] at h; rcases h with h | h <;> cases h
      · simp only [hjt, if_false] at h; rw [hothers j hjt] at h; rcases h with h | h <;> cases h
  | wunlock tid hw =>
    have hne : s.wr tid ≠ .idle := by rw [hw]; intro e; cases e
    have hothers : ∀ j, j ≠ tid → s.wr j = .idle := by
      intro j hjt
      cases hj : s.wr j with
      | idle => rfl
      | working _ _ => exact absurd (only_writer hi hne (by rw [hj]; intro e; cases e)) hjt
      | synced _ _ => exact absurd (only_writer hi hne (by rw [hj]; intro e; cases e)) hjt
      | committed => exact absurd (only_writer hi hne (by rw [hj]; intro e; cases e)) hjt
    refine ⟨hi.len, ?_, ?_, hi.dbok, ?_, hi.serial⟩
    · intro j hj
      by_cases hjt : j = tid
      · subst hjt; simp at hj
      · simp only [hjt, if_false] at hj; exact absurd (hothers j hjt) hj
    · intro _
      apply hi.quiet
      intro j b' w' e
      by_cases hjt : j = tid
      · subst hjt; rw [hw] at e; cases e
      · rw [hothers j hjt] at e; cases e
    · intro j b' w' h
      by_cases hjt : j = tid
      · subst hjt; simp only [if_true] at h; rcases h with h | h <;> cases h
      · simp only [hjt, if_false] at h; rw [hothers j hjt] at h; rcases h with h | h <;> cases h
  | rlock0 hfree =>
    have hall := all_idle_of_not_writer hi (by intro t e; rw [hfree] at e; cases e)
    exact ⟨hi.len, fun j hj => absurd (hall j) hj, hi.quiet, hi.dbok, hi.base, hi.serial⟩
  | rlock n hr =>
    have hall := all_idle_of_not_writer hi (by intro t e; rw [hr] at e; cases e)
    exact ⟨hi.len, fun j hj => absurd (hall j) hj, hi.quiet, hi.dbok, hi.base, hi.serial⟩
  | rread n hr => exact hi
  | runlock1 hr =>
    have hall := all_idle_of_not_writer hi (by intro t e; rw [hr] at e; cases e)
    exact ⟨hi.len, fun j hj => absurd (hall j) hj, hi.quiet, hi.dbok, hi.base, hi.serial⟩
  | runlock n hr =>
    have hall := all_idle_of_not_writer hi (by intro t e; rw [hr] at e; cases e)
    exact ⟨hi.len, fun j hj => absurd (hall j) hj, hi.quiet, hi.dbok, hi.base, hi.serial⟩
  | lfread => exact hi

theorem cinv_run (s0 : Shared D M) (s : St D M) (log : List (Nat × Obs D M)) (h : Run s0 s log) :
    CInv s0 s := by
  induction h with
  | nil => exact cinv_start s0
  | silent _ hs ih => exact cinv_step s0 _ _ _ ih hs
  | obs _ hs ih => exact cinv_step s0 _ _ _ ih hs

theorem reverse_last_of_head {α : Type} (l : List α) (k : Nat) (c : α) (hl : l.length = k + 1)
    (hh : l.head? = some c) : l.reverse[k]? = some c := by
  cases l with
  | nil => cases hh
  | cons a r =>
    simp only [List.head?_cons, Option.some.injEq] at hh
    subst hh
    simp only [List.length_cons, Nat.add_right_cancel_iff] at hl
    simp [List.reverse_cons, hl]

/-- history positions are stable: later steps only push in front -/
theorem hist_stable (s s' : St D M) (o : Option (Obs D M)) (hs : CStep s o s') (k : Nat) (c : Shared D M)
    (h : s.hist.reverse[k]? = some c) : s'.hist.reverse[k]? = some c := by
  cases hs <;> try exact h
  case commit tid b w hw =>
    simp only [List.reverse_cons]
    have hk : k < s.hist.reverse.length := by
      rcases Nat.lt_or_ge k s.hist.reverse.length with hlt | hge
      · exact hlt
      · rw [List.getElem?_eq_none hge] at h; cases h
    rw [List.getElem?_append_left hk]; exact h

theorem k_mono (s s' : St D M) (o : Option (Obs D M)) (hs : CStep s o s') : s.k ≤ s'.k := by
  cases hs <;> simp

theorem obs_same_state (s s' : St D M) (o : Obs D M) (hs : CStep s (some o) s') : s' = s := by
  cases hs <;> rfl

theorem obs_now (s0 : Shared D M) (s s' : St D M) (o : Obs D M) (hi : CInv s0 s) (hs : CStep s (some o) s') :
    ∃ c, s.hist.reverse[s.k]? = some c ∧ obsMatches o c := by
  cases hs with
  | rread n hr =>
    have hall := all_idle_of_not_writer hi (by intro t e; rw [hr] at e; cases e)
    have hq := hi.quiet (by intro t b w e; rw [hall t] at e; cases e)
    exact ⟨s.sh, reverse_last_of_head _ _ _ hi.len hq, rfl, rfl⟩
  | lfread =>
    obtain ⟨c, hc, hdb⟩ := hi.dbok
    exact ⟨c, reverse_last_of_head _ _ _ hi.len hc, hdb⟩

theorem run_obs_committed (s0 : Shared D M) (s : St D M) (log : List (Nat × Obs D M)) (h : Run s0 s log) :
    ∀ k o, (k, o) ∈ log → ∃ c, s.hist.reverse[k]? = some c ∧ obsMatches o c := by
  induction h with
  | nil => intro k o hm; cases hm
  | silent _ hs ih =>
    intro k o hm
    obtain ⟨c, hc, hm'⟩ := ih k o hm
    exact ⟨c, hist_stable _ _ _ hs k c hc, hm'⟩
  | @obs s s' log o' hr hs ih =>
    intro k o hm
    have hsame := obs_same_state _ _ _ hs
    rcases List.mem_cons.mp hm with heq | hm
    · injection heq with h1 h2; subst h1; subst h2
      rw [hsame]
      exact obs_now s0 s s' o (cinv_run s0 s log hr) hs
    · obtain ⟨c, hc, hm'⟩ := ih k o hm
      exact ⟨c, hist_stable _ _ _ hs k c hc, hm'⟩

theorem run_log_monotone (s0 : Shared D M) (s : St D M) (log : List (Nat × Obs D M)) (h : Run s0 s log) :
    log.Pairwise (fun a b => b.1 ≤ a.1) ∧ ∀ e ∈ log, e.1 ≤ s.k := by
  induction h with
  | nil => exact ⟨List.Pairwise.nil, fun e he => by cases he⟩
  | silent _ hs ih =>
    exact ⟨ih.1, fun e he => Nat.le_trans (ih.2 e he) (k_mono _ _ _ hs)⟩
  | @obs s s' log o' hr hs ih =>
    have hsame := obs_same_state _ _ _ hs
    refine ⟨List.Pairwise.cons (fun b hb => ih.2 b hb) ih.1, ?_⟩
    intro e he
    rw [hsame]
    rcases List.mem_cons.mp he with rfl | he
    · exact Nat.le_refl _
    · exact ih.2 e he

theorem run_serial (s0 : Shared D M) (s : St D M) (log : List (Nat × Obs D M)) (h : Run s0 s log) :
    serialHist s0 s.bases s.hist := (cinv_run s0 s log h).serial

/-! non-vacuity: a run in which a writer commits and both kinds of reader observe the new state,
while a lock-free reader inside the sync→commit window still observes the old LMDB half -/
example : ∃ (s : St Nat Nat) (log : List (Nat × Obs Nat Nat)), Run ⟨0, 0⟩ s log ∧
    log = [(1, .locked 7 7), (1, .lockfree 7), (0, .lockfree 0)] := by
  let s0 : Shared Nat Nat := ⟨0, 0⟩
  have r0 := Run.nil (s0 := s0)
  have r1 := Run.silent r0 (CStep.wlock _ 5 rfl rfl)
  have r2 := Run.silent r1 (CStep.work _ 5 s0 s0 (fun _ => ⟨7, 7⟩) rfl)
  have r3 := Run.silent r2 (CStep.sync _ 5 s0 ⟨7, 7⟩ rfl)
  have r4 := Run.obs r3 (CStep.lfread _)
  have r5 := Run.silent r4 (CStep.commit _ 5 s0 ⟨7, 7⟩ rfl)
  have r6 := Run.silent r5 (CStep.wunlock _ 5 rfl)
  have r7 := Run.obs r6 (CStep.lfread _)
  have r8 := Run.silent r7 (CStep.rlock0 _ rfl)
  have r9 := Run.obs r8 (CStep.rread _ 1 rfl)
  exact ⟨_, _, r9, rfl⟩

/-! ## read-only extensions (`txhashset::extending_readonly`, `header_extending_readonly`)

`Chain::get_merkle_proof`, `get_locator_hashes`, `set_txhashset_roots`, `validate`,
`validate_tx` (NRD path), `verify_coinbase_maturity` (write-lock path), `Chain::segmenter` →
`init_segmenter`: take the write lock(s), rewind / apply on the private (unsynced) part of the MMR
backends and a child batch, then `force_rollback` — in the model: `wlock`, any number of `work`
steps, `abort`. -/

/-- the private copy after a list of work steps -/
def workAll (w : Shared D M) : List (Shared D M → Shared D M) → Shared D M
  | [] => w
  | f :: fs => workAll (f w) fs

/-- finitely many silent steps of the commit-protocol system -/
inductive Silent : St D M → St D M → Prop where
  | refl (s : St D M) : Silent s s
  | step {s s' s'' : St D M} : Silent s s' → CStep s' none s'' → Silent s s''

theorem Silent.head {s s1 s' : St D M} (h1 : CStep s none s1) (h : Silent s1 s') : Silent s s' := by
  induction h with
  | refl => exact Silent.step (Silent.refl _) h1
  | step _ hs ih => exact Silent.step ih hs

/-- a writer in phase `working b w` can run any list of private work steps; nothing but its own
phase changes -/
theorem work_chain (fs : List (Shared D M → Shared D M)) : ∀ (s : St D M) (tid : Nat) (b w : Shared D M),
    s.wr tid = .working b w →
    ∃ s', Silent s s' ∧ s'.wr tid = .working b (workAll w fs) ∧ s'.sh = s.sh ∧ s'.ts = s.ts ∧ s'.k = s.k ∧
      s'.hist = s.hist ∧ s'.bases = s.bases ∧ ∀ j, j ≠ tid → s'.wr j = s.wr j := by
  induction fs with
  | nil => intro s tid b w h; exact ⟨s, Silent.refl s, h, rfl, rfl, rfl, rfl, rfl, fun _ _ => rfl⟩
  | cons f fs ih =>
    intro s tid b w h
    have st := CStep.work s tid b w f h
    obtain ⟨s', hs, hw, hsh, hts, hk, hh, hb, hj⟩ :=
      ih { s with wr := fun j => if j = tid then .working b (f w) else s.wr j } tid b (f w) (by simp)
    refine ⟨s', Silent.head st hs, hw, hsh, hts, hk, hh, hb, ?_⟩
    intro j hne
    rw [hj j hne]
    simp [hne]

/-- what a read-only extension would do if its rollback were lost (the closure's error propagated
past `force_rollback`, the seeded change C17-F): the private MMR work is published and the lock
released, no commit -/
def leakUnlock (s : St D M) (tid : Nat) : St D M :=
  match s.wr tid with
  | .working _ w => { s with sh := { s.sh with mmr := w.mmr }, ts := .free,
                             wr := fun j => if j = tid then .idle else s.wr j }
  | _ => s

/-- thread 3 inside a read-only extension that has rewound the MMR part of its private copy -/
def leakExample : St Nat Nat :=
  { sh := ⟨0, 0⟩, ts := .writer 3, k := 0, hist := [⟨0, 0⟩], bases := [],
    wr := fun j => if j = 3 then .working ⟨0, 0⟩ ⟨0, 9⟩ else .idle }

/-- `Chain::txhashset_write` (chain.rs, install of a zipped state) as the code has it: the LMDB part
of the new state `w` (body head, output_pos index, block sums) is committed while the thread holds
`header_pmmr.write()` but NOT the txhashset lock - readers holding `txhashset.read()` are not
excluded; the MMR part follows later under `txhashset.write()` (`installSwap`). -/
def installCommit (s : St D M) (w : Shared D M) : St D M :=
  { s with sh := { s.sh with db := w.db }, k := s.k + 1, hist := w :: s.hist, bases := s.sh :: s.bases }

/-- second half: the MMR files are swapped in (needs the txhashset lock free: `txhashset.write()`) -/
def installSwap (s : St D M) (w : Shared D M) : St D M :=
  { s with sh := { s.sh with mmr := w.mmr } }

/-! ## The state-receiving phase (PIBD): MMR published without an LMDB commit

`Desegmenter::apply_output_segments` / `apply_rangeproof_segments` / `apply_kernel_segments` /
`finalize_bitmap` (desegmenter.rs): `header_pmmr.write()`, `txhashset.write()`, a batch,
`txhashset::extending(..)` — which syncs the MMR files when the closure succeeds — and then the
function returns WITHOUT `batch.commit()`: the MMR part of the private copy is published, the LMDB
part is not touched (`stage`).  The body head stays where it was until
`Desegmenter::validate_complete_state` commits (an ordinary writer). -/

inductive PStep : St D M → Option (Obs D M) → St D M → Prop where
  | base {s : St D M} {o : Option (Obs D M)} {s' : St D M} : CStep s o s' → PStep s o s'
  | stage (s : St D M) (tid : Nat) (b w : Shared D M) : s.wr tid = .working b w →
      PStep s none { s with sh := { s.sh with mmr := w.mmr }, ts := .free,
                            wr := fun j => if j = tid then .idle else s.wr j }

inductive PRun (s0 : Shared D M) : St D M → List (Nat × Obs D M) → Prop where
  | nil : PRun s0 (start s0) []
  | silent {s s' log} : PRun s0 s log → PStep s none s' → PRun s0 s' log
  | obs {s s' log o} : PRun s0 s log → PStep s (some o) s' → PRun s0 s' ((s.k, o) :: log)

/-- the LMDB half of an observation -/
def obsDb : Obs D M → D
  | .locked d _ => d
  | .lockfree d => d

/-- what survives the staging steps: the LMDB half of the shared state is that of the last
committed state -/
structure DbInv (s : St D M) : Prop where
  len : s.hist.length = s.k + 1
  dbok : ∃ c, s.hist.head? = some c ∧ s.sh.db = c.db

theorem dbinv_start (s0 : Shared D M) : DbInv (start s0) := ⟨rfl, s0, rfl, rfl⟩

theorem dbinv_cstep (s s' : St D M) (o : Option (Obs D M)) (hi : DbInv s) (hs : CStep s o s') : DbInv s' := by
  cases hs <;> first
    | exact hi
    | exact ⟨hi.len, hi.dbok⟩
    | exact ⟨by simp [hi.len], _, rfl, rfl⟩

theorem dbinv_pstep (s s' : St D M) (o : Option (Obs D M)) (hi : DbInv s) (hs : PStep s o s') : DbInv s' := by
  cases hs with
  | base h => exact dbinv_cstep s s' o hi h
  | stage tid b w hw => exact ⟨hi.len, hi.dbok⟩

theorem dbinv_prun (s0 : Shared D M) (s : St D M) (log : List (Nat × Obs D M)) (h : PRun s0 s log) : DbInv s := by
  induction h with
  | nil => exact dbinv_start s0
  | silent _ hs ih => exact dbinv_pstep _ _ _ ih hs
  | obs _ hs ih => exact dbinv_pstep _ _ _ ih hs

theorem phist_stable (s s' : St D M) (o : Option (Obs D M)) (hs : PStep s o s') (k : Nat) (c : Shared D M)
    (h : s.hist.reverse[k]? = some c) : s'.hist.reverse[k]? = some c := by
  cases hs with
  | base hc => exact hist_stable s s' o hc k c h
  | stage tid b w hw => exact h

theorem pobs_same_state (s s' : St D M) (o : Obs D M) (hs : PStep s (some o) s') : s' = s := by
  cases hs with
  | base hc => exact obs_same_state s s' o hc

theorem pobs_now (s s' : St D M) (o : Obs D M) (hi : DbInv s) (hs : PStep s (some o) s') :
    ∃ c, s.hist.reverse[s.k]? = some c ∧ obsDb o = c.db := by
  obtain ⟨c, hc, hdb⟩ := hi.dbok
  cases hs with
  | base h =>
    cases h with
    | rread n hr => exact ⟨c, reverse_last_of_head _ _ _ hi.len hc, hdb⟩
    | lfread => exact ⟨c, reverse_last_of_head _ _ _ hi.len hc, hdb⟩

theorem prun_db_committed (s0 : Shared D M) (s : St D M) (log : List (Nat × Obs D M)) (h : PRun s0 s log) :
    ∀ k o, (k, o) ∈ log → ∃ c, s.hist.reverse[k]? = some c ∧ obsDb o = c.db := by
  induction h with
  | nil => intro k o hm; cases hm
  | silent _ hs ih =>
    intro k o hm
    obtain ⟨c, hc, hm'⟩ := ih k o hm
    exact ⟨c, phist_stable _ _ _ hs k c hc, hm'⟩
  | @obs s s' log o' hr hs ih =>
    intro k o hm
    have hsame := pobs_same_state _ _ _ hs
    rcases List.mem_cons.mp hm with heq | hm
    · injection heq with h1 h2; subst h1; subst h2
      rw [hsame]
      exact pobs_now s s' o (dbinv_prun s0 s log hr) hs
    · obtain ⟨c, hc, hm'⟩ := ih k o hm
      exact ⟨c, phist_stable _ _ _ hs k c hc, hm'⟩

end GV.Conc.Commit
