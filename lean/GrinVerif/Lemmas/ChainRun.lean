import GrinVerif.Lemmas.ChainStep
/-! Delivery histories over the chain model: events, runs, and the generic lifting of a node
invariant from one `processBlockSingle` / `processHeader` step through `checkOrphans`,
`deliverBlock`, `deliverHeader` and any finite run. -/
namespace GV.Chain

/-- one delivery to the node: a full block (`Chain::process_block`) or a header
(`Chain::process_block_header`) -/
inductive Event
  | block (b : Blk)
  | header (b : Blk)
deriving Repr, Inhabited

def Event.blk : Event → Blk
  | .block b => b
  | .header b => b

def step (p : Params) (n : Node) : Event → Node
  | .block b => (deliverBlock p n b).1
  | .header b => (deliverHeader p n b).1

/-- the node after a finite delivery history -/
def run (p : Params) (n : Node) (es : List Event) : Node := es.foldl (step p) n

theorem run_nil (p : Params) (n : Node) : run p n [] = n := rfl
theorem run_cons (p : Params) (n : Node) (e : Event) (es : List Event) :
    run p n (e :: es) = run p (step p n e) es := rfl
theorem run_append (p : Params) (n : Node) (es fs : List Event) :
    run p n (es ++ fs) = run p (run p n es) fs := by
  simp [run, List.foldl_append]

/-- every delivered block is the registered definition of its id -/
def Registered (n : Node) (es : List Event) : Prop := ∀ e ∈ es, n.blk e.blk.id = some e.blk

/-- the body of the loop over the orphans of one height in `checkOrphans` -/
def orphanStep (p : Params) (acc : Node × Option Nat) (o : Nat) : Node × Option Nat :=
  match acc.1.blk o with
  | none => acc
  | some b =>
    let (n', r) := processBlockSingle p acc.1 b
    match r with
    | .err _ => (n', acc.2)
    | _ => (n', some b.h)

theorem checkOrphans_zero (p : Params) (n : Node) (h : Nat) : checkOrphans p 0 n h = n := rfl

/-- one round of `checkOrphans`, with the partition written as two filters -/
theorem checkOrphans_succ (p : Params) (fuel : Nat) (n : Node) (height : Nat) :
    checkOrphans p (fuel + 1) n height =
      if (n.orphans.filter (fun o => n.heightOf o == height)).isEmpty then n else
      match ((n.orphans.filter (fun o => n.heightOf o == height)).foldl (orphanStep p)
          ({ n with orphans := n.orphans.filter (fun o => !(n.heightOf o == height)) }, none)).2 with
      | some hAcc => checkOrphans p fuel
          ((n.orphans.filter (fun o => n.heightOf o == height)).foldl (orphanStep p)
            ({ n with orphans := n.orphans.filter (fun o => !(n.heightOf o == height)) }, none)).1 (hAcc + 1)
      | none => ((n.orphans.filter (fun o => n.heightOf o == height)).foldl (orphanStep p)
            ({ n with orphans := n.orphans.filter (fun o => !(n.heightOf o == height)) }, none)).1 := by
  simp only [checkOrphans, List.partition_eq_filter_filter]
  rfl

/-- what it takes for a node predicate to survive every delivery -/
structure Preserved (p : Params) (P : Node → Prop) : Prop where
  single : ∀ n b, n.blk b.id = some b → P n → P (processBlockSingle p n b).1
  orphans : ∀ n os, P n → P { n with orphans := os }
  header : ∀ n b n', n.blk b.id = some b → processHeader p n b = .ok n' → P n → P n'

theorem orphanStep_preserved {p : Params} {P : Node → Prop} (hP : Preserved p P)
    (acc : Node × Option Nat) (o : Nat) (h : P acc.1) : P (orphanStep p acc o).1 := by
  unfold orphanStep
  split
  · exact h
  · rename_i b hb
    have hreg : acc.1.blk b.id = some b := by rw [blk_id hb]; exact hb
    have := hP.single acc.1 b hreg h
    cases hr : processBlockSingle p acc.1 b with
    | mk n' r =>
      rw [hr] at this
      cases r <;> exact this

theorem orphanFold_preserved {p : Params} {P : Node → Prop} (hP : Preserved p P)
    (l : List Nat) (acc : Node × Option Nat) (h : P acc.1) : P (l.foldl (orphanStep p) acc).1 := by
  induction l generalizing acc with
  | nil => exact h
  | cons o os ih => exact ih _ (orphanStep_preserved hP acc o h)

theorem checkOrphans_preserved {p : Params} {P : Node → Prop} (hP : Preserved p P)
    (fuel : Nat) : ∀ (n : Node) (height : Nat), P n → P (checkOrphans p fuel n height) := by
  induction fuel with
  | zero => intro n _ h; exact h
  | succ k ih =>
    intro n height h
    rw [checkOrphans_succ]
    split
    · exact h
    · have h0 := orphanFold_preserved hP (n.orphans.filter (fun o => n.heightOf o == height))
        ({ n with orphans := n.orphans.filter (fun o => !(n.heightOf o == height)) }, none)
        (hP.orphans n _ h)
      split
      · exact ih _ _ h0
      · exact h0

theorem deliverBlock_preserved {p : Params} {P : Node → Prop} (hP : Preserved p P)
    (n : Node) (b : Blk) (hb : n.blk b.id = some b) (h : P n) : P (deliverBlock p n b).1 := by
  unfold deliverBlock
  have h1 := hP.single n b hb h
  cases hr : processBlockSingle p n b with
  | mk n1 r =>
    rw [hr] at h1
    cases r with
    | err e => exact h1
    | okHead => exact checkOrphans_preserved hP _ _ _ h1
    | okFork => exact checkOrphans_preserved hP _ _ _ h1

theorem deliverHeader_preserved {p : Params} {P : Node → Prop} (hP : Preserved p P)
    (n : Node) (b : Blk) (hb : n.blk b.id = some b) (h : P n) : P (deliverHeader p n b).1 := by
  unfold deliverHeader
  split
  · exact h
  · rename_i n' hn
    exact hP.header n b n' hb hn h

theorem step_preserved {p : Params} {P : Node → Prop} (hP : Preserved p P)
    (n : Node) (e : Event) (hb : n.blk e.blk.id = some e.blk) (h : P n) : P (step p n e) := by
  cases e with
  | block b => exact deliverBlock_preserved hP n b hb h
  | header b => exact deliverHeader_preserved hP n b hb h

/-! ### the definitions never change -/

theorem processBlockSingle_defs (p : Params) (n : Node) (b : Blk) :
    (processBlockSingle p n b).1.blks = n.blks ∧ (processBlockSingle p n b).1.outs = n.outs := by
  rcases processBlockSingle_spec p n b with ⟨e, _, hr⟩ | ⟨n1, h1, hr⟩
  · rw [hr]; exact ⟨rfl, rfl⟩
  · have hf := processHeader_frame p n n1 b h1
    rcases hr with ⟨e, _, hr⟩ | ⟨_, hr⟩ | ⟨par, _, ⟨e, _, hr⟩ | ⟨s', _, hr⟩⟩
    · rw [hr]; exact ⟨hf.2.2.1, hf.2.2.2.2⟩
    · rw [hr]; exact ⟨hf.2.2.1, hf.2.2.2.2⟩
    · rw [hr]; exact ⟨hf.2.2.1, hf.2.2.2.2⟩
    · rw [hr]
      have : (storeBlock n1 b).1.blks = n1.blks ∧ (storeBlock n1 b).1.outs = n1.outs := by
        unfold storeBlock; split <;> exact ⟨rfl, rfl⟩
      exact ⟨this.1.trans hf.2.2.1, this.2.trans hf.2.2.2.2⟩

theorem preserved_defs (p : Params) (B : List Blk) (O : List OutDef) :
    Preserved p (fun m => m.blks = B ∧ m.outs = O) where
  single := by
    intro n b _ h
    have := processBlockSingle_defs p n b
    exact ⟨this.1.trans h.1, this.2.trans h.2⟩
  orphans := by intro n os h; exact h
  header := by
    intro n b n' _ hn h
    have hf := processHeader_frame p n n' b hn
    exact ⟨hf.2.2.1 ▸ h.1, hf.2.2.2.2 ▸ h.2⟩

theorem checkOrphans_defs (p : Params) (fuel : Nat) (n : Node) (height : Nat) :
    (checkOrphans p fuel n height).blks = n.blks ∧ (checkOrphans p fuel n height).outs = n.outs :=
  checkOrphans_preserved (preserved_defs p n.blks n.outs) fuel n height ⟨rfl, rfl⟩

theorem deliverBlock_defs (p : Params) (n : Node) (b : Blk) :
    (deliverBlock p n b).1.blks = n.blks ∧ (deliverBlock p n b).1.outs = n.outs := by
  have h1 := processBlockSingle_defs p n b
  unfold deliverBlock
  cases hr : processBlockSingle p n b with
  | mk n1 r =>
    rw [hr] at h1
    cases r with
    | err e => exact h1
    | okHead =>
      have := checkOrphans_defs p (n1.blks.length + 2) n1 (b.h + 1)
      exact ⟨this.1.trans h1.1, this.2.trans h1.2⟩
    | okFork =>
      have := checkOrphans_defs p (n1.blks.length + 2) n1 (b.h + 1)
      exact ⟨this.1.trans h1.1, this.2.trans h1.2⟩

theorem deliverHeader_defs (p : Params) (n : Node) (b : Blk) :
    (deliverHeader p n b).1.blks = n.blks ∧ (deliverHeader p n b).1.outs = n.outs := by
  unfold deliverHeader
  split
  · exact ⟨rfl, rfl⟩
  · rename_i n' hn
    have hf := processHeader_frame p n n' b hn
    exact ⟨hf.2.2.1, hf.2.2.2.2⟩

theorem step_defs (p : Params) (n : Node) (e : Event) :
    (step p n e).blks = n.blks ∧ (step p n e).outs = n.outs := by
  cases e with
  | block b => exact deliverBlock_defs p n b
  | header b => exact deliverHeader_defs p n b

/-- block and output definitions are never changed by a run -/
theorem run_defs (p : Params) (n : Node) (es : List Event) :
    (run p n es).blks = n.blks ∧ (run p n es).outs = n.outs := by
  induction es generalizing n with
  | nil => exact ⟨rfl, rfl⟩
  | cons e es ih =>
    rw [run_cons]
    have h1 := step_defs p n e
    have h2 := ih (step p n e)
    exact ⟨h2.1.trans h1.1, h2.2.trans h1.2⟩

theorem Registered.tail {n : Node} {e : Event} {es : List Event} (p : Params)
    (h : Registered n (e :: es)) : Registered (step p n e) es := by
  intro e' he'
  rw [blk_congr (step_defs p n e).1]
  exact h e' (List.mem_cons_of_mem _ he')

/-- an invariant of single steps holds after any finite delivery history of registered blocks -/
theorem run_preserved {p : Params} {P : Node → Prop} (hP : Preserved p P)
    (n : Node) (es : List Event) (hreg : Registered n es) (h : P n) : P (run p n es) := by
  induction es generalizing n with
  | nil => exact h
  | cons e es ih =>
    rw [run_cons]
    exact ih _ (hreg.tail p) (step_preserved hP n e (hreg e (List.mem_cons_self ..)) h)


/-! ### guarded variant: the invariant itself says which blocks may sit in the pool -/

/-- like `Preserved`, for invariants that are preserved only by processing blocks that satisfy a
guard `G`, that guarantee the guard for every pooled block, and that survive shrinking the pool -/
structure PreservedG (p : Params) (G : Nat → Prop) (P : Node → Prop) : Prop where
  single : ∀ n b, n.blk b.id = some b → G b.id → P n → P (processBlockSingle p n b).1
  shrink : ∀ n os, (∀ o ∈ os, o ∈ n.orphans) → P n → P { n with orphans := os }
  pool : ∀ n, P n → ∀ o ∈ n.orphans, G o

theorem orphanStep_preservedG {p : Params} {G : Nat → Prop} {P : Node → Prop}
    (hP : PreservedG p G P) (acc : Node × Option Nat) (o : Nat) (hg : G o) (h : P acc.1) :
    P (orphanStep p acc o).1 := by
  unfold orphanStep
  split
  · exact h
  · rename_i b hb
    have hid := blk_id hb
    have hreg : acc.1.blk b.id = some b := by rw [hid]; exact hb
    have := hP.single acc.1 b hreg (hid ▸ hg) h
    cases hr : processBlockSingle p acc.1 b with
    | mk n' r =>
      rw [hr] at this
      cases r <;> exact this

theorem orphanFold_preservedG {p : Params} {G : Nat → Prop} {P : Node → Prop}
    (hP : PreservedG p G P) (l : List Nat) (acc : Node × Option Nat) (hg : ∀ o ∈ l, G o)
    (h : P acc.1) : P (l.foldl (orphanStep p) acc).1 := by
  induction l generalizing acc with
  | nil => exact h
  | cons o os ih =>
    exact ih _ (fun x hx => hg x (List.mem_cons_of_mem _ hx))
      (orphanStep_preservedG hP acc o (hg o (List.mem_cons_self ..)) h)

theorem checkOrphans_preservedG {p : Params} {G : Nat → Prop} {P : Node → Prop}
    (hP : PreservedG p G P) (fuel : Nat) :
    ∀ (n : Node) (height : Nat), P n → P (checkOrphans p fuel n height) := by
  induction fuel with
  | zero => intro n _ h; exact h
  | succ k ih =>
    intro n height h
    rw [checkOrphans_succ]
    split
    · exact h
    · have h0 := orphanFold_preservedG hP (n.orphans.filter (fun o => n.heightOf o == height))
        ({ n with orphans := n.orphans.filter (fun o => !(n.heightOf o == height)) }, none)
        (fun o ho => hP.pool n h o (List.mem_filter.mp ho).1)
        (hP.shrink n _ (fun o ho => (List.mem_filter.mp ho).1) h)
      split
      · exact ih _ _ h0
      · exact h0

theorem deliverBlock_preservedG {p : Params} {G : Nat → Prop} {P : Node → Prop}
    (hP : PreservedG p G P) (n : Node) (b : Blk) (h1 : P (processBlockSingle p n b).1) :
    P (deliverBlock p n b).1 := by
  unfold deliverBlock
  cases hr : processBlockSingle p n b with
  | mk n1 r =>
    rw [hr] at h1
    cases r with
    | err e => exact h1
    | okHead => exact checkOrphans_preservedG hP _ _ _ h1
    | okFork => exact checkOrphans_preservedG hP _ _ _ h1

end GV.Chain
