import GrinVerif.Lemmas.CodecRun
import GrinVerif.Model.CodecSpec
/-! Framing is faithful on the flat stream: chains of successful reads, one lemma per kind of sent
message, assembled over an arbitrary list of messages. -/
namespace GV.Codec
open GV GV.Ser GV.Dec GV.Msg GV.Gen.Msg

variable {B H : Type}

/-- one successful `Codec::read` on the flat stream -/
def ReadsTo (env : Env B H) (c : Codec H) (s : Bytes) (m : Message B H) (c' : Codec H) (s' : Bytes) : Prop :=
  (read env flatOps c s).res = .msg m ∧ (read env flatOps c s).codec = c' ∧ (read env flatOps c s).sock = s'

/-- a sequence of successful reads, with the handler's `expect_attachment` in between -/
inductive Chain (env : Env B H) (attach : Message B H → Option Nat) :
    Codec H → Bytes → List (Message B H) → Codec H → Bytes → Prop
  | nil (c : Codec H) (s : Bytes) : Chain env attach c s [] c s
  | cons {c : Codec H} {s : Bytes} {m : Message B H} {c1 : Codec H} {s1 : Bytes} {c2 : Codec H}
      {ms : List (Message B H)} {c3 : Codec H} {s3 : Bytes} :
      ReadsTo env c s m c1 s1 → nextCodec attach c1 m = some c2 → Chain env attach c2 s1 ms c3 s3 →
      Chain env attach c s (m :: ms) c3 s3

theorem Chain.append {env : Env B H} {attach : Message B H → Option Nat} {c c1 c2 : Codec H} {s s1 s2 : Bytes}
    {ms ms' : List (Message B H)} (h1 : Chain env attach c s ms c1 s1) (h2 : Chain env attach c1 s1 ms' c2 s2) :
    Chain env attach c s (ms ++ ms') c2 s2 := by
  induction h1 with
  | nil c s => exact h2
  | cons hr hn _ ih => exact Chain.cons hr hn (ih h2)

theorem Chain.single {env : Env B H} {attach : Message B H → Option Nat} {c c1 c2 : Codec H} {s s1 : Bytes}
    {m : Message B H} (hr : ReadsTo env c s m c1 s1) (hn : nextCodec attach c1 m = some c2) :
    Chain env attach c s [m] c2 s1 :=
  Chain.cons hr hn (Chain.nil c2 s1)

/-- the reader loop follows a chain, then continues from where the chain ends -/
theorem run_chain {env : Env B H} {attach : Message B H → Option Nat} {c c' : Codec H} {s s' : Bytes}
    {ms : List (Message B H)} (h : Chain env attach c s ms c' s') (fuel : Nat) :
    run env flatOps attach (ms.length + fuel) c s =
      (ms ++ (run env flatOps attach fuel c' s').1, (run env flatOps attach fuel c' s').2.1,
       (run env flatOps attach fuel c' s').2.2.1, (run env flatOps attach fuel c' s').2.2.2) := by
  induction h with
  | nil c s => simp
  | @cons c s m c1 s1 c2 ms c3 s3 hr hn _ ih =>
    have e : (m :: ms).length + fuel = (ms.length + fuel) + 1 := by simp only [List.length_cons]; omega
    rw [e]
    obtain ⟨r1, r2, r3⟩ := hr
    simp only [run, r1, r2, r3, hn, ih, List.cons_append]

theorem nextCodec_none {attach : Message B H → Option Nat} (c : Codec H) (m : Message B H)
    (h : attach m = none) : nextCodec attach c m = some c := by
  simp [nextCodec, h]

theorem READ_FUEL_eq : READ_FUEL = 34 + 2 := by decide

theorem isDispatched_known {t : Nat} (h : isDispatched t = true) : isKnownType t = true ∧ t ≠ T_Headers := by
  simp only [isDispatched, Bool.and_eq_true, bne_iff_ne, ne_eq] at h
  exact ⟨h.1.1.1.1, h.2⟩

/-- the first read of any known, dispatched, non-`Headers` frame -/
theorem reads_plain (env : Env B H) (t : Nat) (v : B) (raw rest : Bytes)
    (hd : isDispatched t = true) (hl : raw.length ≤ maxLen env.net t) (h64 : raw.length < 2^64)
    (hb : env.decBody t raw = .ok v) :
    ReadsTo env idle (encHeader env.net t raw.length ++ (raw ++ rest)) (.body t v) idle rest := by
  obtain ⟨hk, hth⟩ := isDispatched_known hd
  have hdec : decHeader env.net (encHeader env.net t raw.length) = .ok (.known t raw.length) [] 0 := by
    have := decHeader_encHeader env.net t raw.length h64 []
    rw [List.append_nil] at this
    rw [this, if_neg (by omega), if_pos hk]
  have hm : decodeMessage env t raw = .ok (.body t v) := by simp [decodeMessage, hd, hb]
  have e1 := readLoop_header_ok env (34 + 1) (encHeader env.net t raw.length) (raw ++ rest)
    (encHeader_length _ _ _) 0 0 _ _ _ hdec
  have e2 := readLoop_body env 34 t raw rest hth (0 + 11) (0 + 11 + 0)
  unfold ReadsTo read
  rw [READ_FUEL_eq, e1, e2, hm]
  exact ⟨rfl, rfl, rfl⟩

theorem reads_unknown (env : Env B H) (t : Nat) (raw rest : Bytes)
    (hk : isKnownType t = false) (hl : raw.length ≤ maxLen env.net t) (h64 : raw.length < 2^64) :
    ReadsTo env idle (encHeader env.net t raw.length ++ (raw ++ rest)) (.unknown t) idle rest := by
  have hdec : decHeader env.net (encHeader env.net t raw.length) = .ok (.unknown raw.length t) [] 0 := by
    have := decHeader_encHeader env.net t raw.length h64 []
    rw [List.append_nil] at this
    rw [this, if_neg (by omega), if_neg (by simp [hk])]
  have e1 := readLoop_header_ok env (34 + 1) (encHeader env.net t raw.length) (raw ++ rest)
    (encHeader_length _ _ _) 0 0 _ _ _ hdec
  have e2 := readLoop_unknown env 34 t raw rest (0 + 11) (0 + 11 + 0)
  unfold ReadsTo read
  rw [READ_FUEL_eq, e1, e2]
  exact ⟨rfl, rfl, rfl⟩

/-- the attachment stream: chunks of at most 48 000 bytes until `left = 0` -/
theorem chain_attachment (env : Env B H) (attach : Message B H → Option Nat) (hat : AttachOK attach) (rest : Bytes) :
    ∀ (f : Nat) (data : Bytes), data.length < f →
      Chain env attach { buffer := [], state := .attachment data.length } (data ++ rest)
        (attEvents f data) idle rest := by
  intro f
  induction f with
  | zero => intro data h; omega
  | succ f ih =>
    intro data hlen
    have hn : (data.take (min data.length ATTACHMENT_CHUNK)).length = min data.length ATTACHMENT_CHUNK := by
      rw [List.length_take]; omega
    have hsplit : data ++ rest = data.take (min data.length ATTACHMENT_CHUNK) ++
        (data.drop (min data.length ATTACHMENT_CHUNK) ++ rest) := by
      rw [← List.append_assoc, List.take_append_drop]
    have e := readLoop_attachment env (34 + 1) data.length (data.take (min data.length ATTACHMENT_CHUNK))
      (data.drop (min data.length ATTACHMENT_CHUNK) ++ rest) hn 0 0
    rw [hn] at e
    have hr : ReadsTo env { buffer := [], state := .attachment data.length } (data ++ rest)
        (.attachment (min data.length ATTACHMENT_CHUNK) (data.length - min data.length ATTACHMENT_CHUNK)
          (data.take (min data.length ATTACHMENT_CHUNK)))
        { buffer := [], state := if data.length - min data.length ATTACHMENT_CHUNK = 0 then .none
                                  else .attachment (data.length - min data.length ATTACHMENT_CHUNK) }
        (data.drop (min data.length ATTACHMENT_CHUNK) ++ rest) := by
      unfold ReadsTo read
      rw [READ_FUEL_eq, hsplit, e]
      exact ⟨rfl, rfl, rfl⟩
    have hnx := nextCodec_none (attach := attach)
      ({ buffer := [], state := if data.length - min data.length ATTACHMENT_CHUNK = 0 then .none
                                  else .attachment (data.length - min data.length ATTACHMENT_CHUNK) } : Codec H)
      _ (hat.2.2 (min data.length ATTACHMENT_CHUNK) (data.length - min data.length ATTACHMENT_CHUNK)
          (data.take (min data.length ATTACHMENT_CHUNK)))
    simp only [attEvents]
    by_cases hz : data.length - min data.length ATTACHMENT_CHUNK = 0
    · simp only [hz, if_true] at hr hnx ⊢
      have hd : data.drop (min data.length ATTACHMENT_CHUNK) = [] := by
        apply List.drop_eq_nil_of_le; omega
      rw [hd, List.nil_append] at hr
      exact Chain.single hr hnx
    · simp only [hz, if_false] at hr hnx ⊢
      have hc : ATTACHMENT_CHUNK = 48000 := by decide
      have hdl : (data.drop (min data.length ATTACHMENT_CHUNK)).length = data.length - min data.length ATTACHMENT_CHUNK := by
        simp
      have := ih (data.drop (min data.length ATTACHMENT_CHUNK)) (by rw [hdl]; omega)
      rw [hdl] at this
      exact Chain.cons hr hnx this

end GV.Codec

namespace GV.Codec
open GV GV.Ser GV.Dec GV.Msg GV.Gen.Msg

variable {B H : Type}

/-! ### `Headers`: the streaming loop -/

/-- the serialised items still to come -/
def itemBytes (its : List (H × Bytes)) : Bytes := (its.map (·.2)).flatten

theorem itemBytes_cons (it : H × Bytes) (its : List (H × Bytes)) : itemBytes (it :: its) = it.2 ++ itemBytes its := by
  simp [itemBytes]

theorem itemBytes_nil : itemBytes ([] : List (H × Bytes)) = [] := rfl

/-- codec in the middle of a `Headers` message: `its` still to come, `hs` collected in the current
batch, the first `p` bytes of the remaining items already buffered -/
def hdrState (its : List (H × Bytes)) (hs : List H) (p : Nat) : Codec H :=
  { buffer := (itemBytes its).take p, state := .blockHeaders (itemBytes its).length its.length hs }

/-- codec after a batch was returned -/
def afterBatch (its : List (H × Bytes)) (p : Nat) : Codec H :=
  if its.isEmpty then idle else hdrState its [] p

theorem HBS : HEADER_BATCH_SIZE = 32 := rfl

theorem wrap_pred (n : Nat) (h : n + 1 < 2^64) : (n + 1 + USIZE_MOD - 1) % USIZE_MOD = n := by
  unfold USIZE_MOD
  have : n + 1 + 2^64 - 1 = n + 2^64 := by omega
  rw [this, Nat.add_mod_right]
  exact Nat.mod_eq_of_lt (by omega)

/-- one iteration of the `BlockHeaders` arm on well-formed items -/
theorem items_iter (env : Env B H) (rest : Bytes) (it : H × Bytes) (its' : List (H × Bytes)) (hs : List H) (p : Nat)
    (hit : ItemWF env it) (hn : its'.length + 1 < 2^64)
    (hp1 : p ≤ (itemBytes (it :: its')).length) (hp2 : p ≤ env.hdrMax) :
    let I := itemBytes (it :: its')
    let nl := min I.length env.hdrMax
    let p' := nl - it.2.length
    fill flatOps (hdrState (it :: its') hs p) (I.drop p ++ rest) nl =
        some ({ buffer := I.take nl, state := .blockHeaders I.length (its'.length + 1) hs },
              (itemBytes its').drop p' ++ rest) ∧
    stepState env ({ buffer := I.take nl, state := .blockHeaders I.length (its'.length + 1) hs } : Codec H) nl =
      (if (hs ++ [it.1]).length = 32 ∨ its'.length = 0 then
         .inl (.msg (.headers (hs ++ [it.1]) its'.length), afterBatch its' p', min 32 its'.length * env.hdrMem)
       else .inr (hdrState its' (hs ++ [it.1]) p', 0)) ∧
    p' ≤ (itemBytes its').length ∧ p' ≤ env.hdrMax := by
  intro I nl p'
  obtain ⟨hb1, hb2, hdec⟩ := hit
  have hI : I = it.2 ++ itemBytes its' := itemBytes_cons it its'
  have hIl : I.length = it.2.length + (itemBytes its').length := by rw [hI, List.length_append]
  have hnl1 : nl ≤ I.length := Nat.min_le_left _ _
  have hnl2 : nl ≤ env.hdrMax := Nat.min_le_right _ _
  have hbnl : it.2.length ≤ nl := by
    show it.2.length ≤ min I.length env.hdrMax
    omega
  have hpnl : p ≤ nl := by show p ≤ min I.length env.hdrMax; omega
  have hp'1 : p' ≤ (itemBytes its').length := by show nl - it.2.length ≤ _; omega
  have hp'2 : p' ≤ env.hdrMax := by show nl - it.2.length ≤ _; omega
  -- the buffer after the fill and what stays on the socket
  have htake : I.take nl = it.2 ++ (itemBytes its').take p' := by
    rw [hI, List.take_append, List.take_of_length_le hbnl]
  have hdrop : I.drop nl = (itemBytes its').drop p' := by
    rw [hI, List.drop_append, List.drop_of_length_le hbnl, List.nil_append]
  refine ⟨?_, ?_, hp'1, hp'2⟩
  · -- fill
    have hx : ((I.drop p).take (nl - p)).length = nl - (I.take p).length := by
      rw [List.length_take, List.length_drop, List.length_take]; omega
    have hsplit : I.drop p ++ rest = (I.drop p).take (nl - p) ++ (I.drop nl ++ rest) := by
      have : I.drop nl = (I.drop p).drop (nl - p) := by
        rw [List.drop_drop]; congr 1; omega
      rw [this, ← List.append_assoc, List.take_append_drop]
    have hbuf : I.take p ++ (I.drop p).take (nl - p) = I.take nl := by
      have : nl = p + (nl - p) := by omega
      rw [this, List.take_add]; congr 2; omega
    have := fill_flat (H := H) (.blockHeaders I.length (its'.length + 1) hs) (I.take p) ((I.drop p).take (nl - p))
      (I.drop nl ++ rest) nl hx
    rw [hbuf, ← hsplit, hdrop] at this
    exact this
  · -- the arm
    have hne : I.length ≠ 0 := by omega
    have hd := hdec ((itemBytes its').take p')
    have hlen1 : (I.take nl).length = nl := by rw [List.length_take]; omega
    have hlen2 : ((itemBytes its').take p').length = p' := by rw [List.length_take]; omega
    have hused : (I.take nl).length - ((itemBytes its').take p').length = it.2.length := by
      rw [hlen1, hlen2]; show nl - (nl - it.2.length) = _; omega
    have hbl : I.length - it.2.length = (itemBytes its').length := by omega
    have hil := wrap_pred its'.length hn
    simp only [stepState, hne, if_false, htake, hd]
    rw [← htake, hused, hbl, hil, HBS]
    by_cases hc : (hs ++ [it.1]).length = 32 ∨ its'.length = 0
    · rw [if_pos hc, if_pos hc]
      by_cases hz : its'.length = 0
      · have hnil : its' = [] := List.eq_nil_of_length_eq_zero hz
        subst hnil
        simp [afterBatch, itemBytes_nil, idle]
      · have hne' : its' ≠ [] := fun h => hz (by rw [h]; rfl)
        have hie : its'.isEmpty = false := by cases its' <;> simp_all
        simp [hz, afterBatch, hie, hdrState]
    · rw [if_neg hc, if_neg hc]
      rfl

end GV.Codec
