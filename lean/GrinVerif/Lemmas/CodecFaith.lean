import GrinVerif.Lemmas.CodecRun
import GrinVerif.Model.CodecSpec
/-! Framing is faithful on the flat stream: chains of successful reads, one lemma per kind of sent
message, assembled over an arbitrary list of messages. -/
namespace GV.Codec
open GV GV.Ser GV.Dec GV.Msg GV.Gen.Msg

variable {B H : Type}

/-- one successful `Codec::read` on the flat stream -/
def ReadsTo (env : Env B H) (c : Codec H) (s : Bytes) (m : Message B H) (c' : Codec H) (s' : Bytes) : Prop :=
  (read env flatOps c s).res = .msg m ∧ (read env flatOps c s).codec = c' ∧ (read env flatOps c s).sock = s'

/-- a sequence of successful reads, with the handler's `expect_attachment` in between -/
inductive Chain (env : Env B H) (attach : Message B H → Option Nat) :
    Codec H → Bytes → List (Message B H) → Codec H → Bytes → Prop
  | nil (c : Codec H) (s : Bytes) : Chain env attach c s [] c s
  | cons {c : Codec H} {s : Bytes} {m : Message B H} {c1 : Codec H} {s1 : Bytes} {c2 : Codec H}
      {ms : List (Message B H)} {c3 : Codec H} {s3 : Bytes} :
      ReadsTo env c s m c1 s1 → nextCodec attach c1 m = some c2 → Chain env attach c2 s1 ms c3 s3 →
      Chain env attach c s (m :: ms) c3 s3

theorem Chain.append {env : Env B H} {attach : Message B H → Option Nat} {c c1 c2 : Codec H} {s s1 s2 : Bytes}
    {ms ms' : List (Message B H)} (h1 : Chain env attach c s ms c1 s1) (h2 : Chain env attach c1 s1 ms' c2 s2) :
    Chain env attach c s (ms ++ ms') c2 s2 := by
  induction h1 with
  | nil c s => exact h2
  | cons hr hn _ ih => exact Chain.cons hr hn (ih h2)

theorem Chain.single {env : Env B H} {attach : Message B H → Option Nat} {c c1 c2 : Codec H} {s s1 : Bytes}
    {m : Message B H} (hr : ReadsTo env c s m c1 s1) (hn : nextCodec attach c1 m = some c2) :
    Chain env attach c s [m] c2 s1 :=
  Chain.cons hr hn (Chain.nil c2 s1)

/-- the reader loop follows a chain, then continues from where the chain ends -/
theorem run_chain {env : Env B H} {attach : Message B H → Option Nat} {c c' : Codec H} {s s' : Bytes}
    {ms : List (Message B H)} (h : Chain env attach c s ms c' s') (fuel : Nat) :
    run env flatOps attach (ms.length + fuel) c s =
      (ms ++ (run env flatOps attach fuel c' s').1, (run env flatOps attach fuel c' s').2.1,
       (run env flatOps attach fuel c' s').2.2.1, (run env flatOps attach fuel c' s').2.2.2) := by
  induction h with
  | nil c s => simp
  | @cons c s m c1 s1 c2 ms c3 s3 hr hn _ ih =>
    have e : (m :: ms).length + fuel = (ms.length + fuel) + 1 := by simp only [List.length_cons]; omega
    rw [e]
    obtain ⟨r1, r2, r3⟩ := hr
    simp only [run, r1, r2, r3, hn, ih, List.cons_append]

theorem nextCodec_none {attach : Message B H → Option Nat} (c : Codec H) (m : Message B H)
    (h : attach m = none) : nextCodec attach c m = some c := by
  simp [nextCodec, h]

theorem READ_FUEL_eq : READ_FUEL = 34 + 2 := by decide

theorem isDispatched_known {t : Nat} (h : isDispatched t = true) : isKnownType t = true ∧ t ≠ T_Headers := by
  simp only [isDispatched, Bool.and_eq_true, bne_iff_ne, ne_eq] at h
  exact ⟨h.1.1.1.1, h.2⟩

/-- the first read of any known, dispatched, non-`Headers` frame -/
theorem reads_plain (env : Env B H) (t : Nat) (v : B) (raw rest : Bytes)
    (hd : isDispatched t = true) (hl : raw.length ≤ maxLen env.net t) (h64 : raw.length < 2^64)
    (hb : env.decBody t raw = .ok v) :
    ReadsTo env idle (encHeader env.net t raw.length ++ (raw ++ rest)) (.body t v) idle rest := by
  obtain ⟨hk, hth⟩ := isDispatched_known hd
  have hdec : decHeader env.net (encHeader env.net t raw.length) = .ok (.known t raw.length) [] 0 := by
    have := decHeader_encHeader env.net t raw.length h64 []
    rw [List.append_nil] at this
    rw [this, if_neg (by omega), if_pos hk]
  have hm : decodeMessage env t raw = .ok (.body t v) := by simp [decodeMessage, hd, hb]
  have e1 := readLoop_header_ok env (34 + 1) (encHeader env.net t raw.length) (raw ++ rest)
    (encHeader_length _ _ _) 0 0 _ _ _ hdec
  have e2 := readLoop_body env 34 t raw rest hth (0 + 11) (0 + 11 + 0)
  unfold ReadsTo read
  rw [READ_FUEL_eq, e1, e2, hm]
  exact ⟨rfl, rfl, rfl⟩

theorem reads_unknown (env : Env B H) (t : Nat) (raw rest : Bytes)
    (hk : isKnownType t = false) (hl : raw.length ≤ maxLen env.net t) (h64 : raw.length < 2^64) :
    ReadsTo env idle (encHeader env.net t raw.length ++ (raw ++ rest)) (.unknown t) idle rest := by
  have hdec : decHeader env.net (encHeader env.net t raw.length) = .ok (.unknown raw.length t) [] 0 := by
    have := decHeader_encHeader env.net t raw.length h64 []
    rw [List.append_nil] at this
    rw [this, if_neg (by omega), if_neg (by simp [hk])]
  have e1 := readLoop_header_ok env (34 + 1) (encHeader env.net t raw.length) (raw ++ rest)
    (encHeader_length _ _ _) 0 0 _ _ _ hdec
  have e2 := readLoop_unknown env 34 t raw rest (0 + 11) (0 + 11 + 0)
  unfold ReadsTo read
  rw [READ_FUEL_eq, e1, e2]
  exact ⟨rfl, rfl, rfl⟩

/-- the attachment stream: chunks of at most 48 000 bytes until `left = 0` -/
theorem chain_attachment (env : Env B H) (attach : Message B H → Option Nat) (hat : AttachOK attach) (rest : Bytes) :
    ∀ (f : Nat) (data : Bytes), data.length < f →
      Chain env attach { buffer := [], state := .attachment data.length } (data ++ rest)
        (attEvents f data) idle rest := by
  intro f
  induction f with
  | zero => intro data h; omega
  | succ f ih =>
    intro data hlen
    have hn : (data.take (min data.length ATTACHMENT_CHUNK)).length = min data.length ATTACHMENT_CHUNK := by
      rw [List.length_take]; omega
    have hsplit : data ++ rest = data.take (min data.length ATTACHMENT_CHUNK) ++
        (data.drop (min data.length ATTACHMENT_CHUNK) ++ rest) := by
      rw [← List.append_assoc, List.take_append_drop]
    have e := readLoop_attachment env (34 + 1) data.length (data.take (min data.length ATTACHMENT_CHUNK))
      (data.drop (min data.length ATTACHMENT_CHUNK) ++ rest) hn 0 0
    rw [hn] at e
    have hr : ReadsTo env { buffer := [], state := .attachment data.length } (data ++ rest)
        (.attachment (min data.length ATTACHMENT_CHUNK) (data.length - min data.length ATTACHMENT_CHUNK)
          (data.take (min data.length ATTACHMENT_CHUNK)))
        { buffer := [], state := if data.length - min data.length ATTACHMENT_CHUNK = 0 then .none
                                  else .attachment (data.length - min data.length ATTACHMENT_CHUNK) }
        (data.drop (min data.length ATTACHMENT_CHUNK) ++ rest) := by
      unfold ReadsTo read
      rw [READ_FUEL_eq, hsplit, e]
      exact ⟨rfl, rfl, rfl⟩
    have hnx := nextCodec_none (attach := attach)
      ({ buffer := [], state := if data.length - min data.length ATTACHMENT_CHUNK = 0 then .none
                                  else .attachment (data.length - min data.length ATTACHMENT_CHUNK) } : Codec H)
      _ (hat.2.2 (min data.length ATTACHMENT_CHUNK) (data.length - min data.length ATTACHMENT_CHUNK)
          (data.take (min data.length ATTACHMENT_CHUNK)))
    simp only [attEvents]
    by_cases hz : data.length - min data.length ATTACHMENT_CHUNK = 0
    · simp only [hz, if_true] at hr hnx ⊢
      have hd : data.drop (min data.length ATTACHMENT_CHUNK) = [] := by
        apply List.drop_eq_nil_of_le; omega
      rw [hd, List.nil_append] at hr
      exact Chain.single hr hnx
    · simp only [hz, if_false] at hr hnx ⊢
      have hc : ATTACHMENT_CHUNK = 48000 := by decide
      have hdl : (data.drop (min data.length ATTACHMENT_CHUNK)).length = data.length - min data.length ATTACHMENT_CHUNK := by
        simp
      have := ih (data.drop (min data.length ATTACHMENT_CHUNK)) (by rw [hdl]; omega)
      rw [hdl] at this
      exact Chain.cons hr hnx this

end GV.Codec

namespace GV.Codec
open GV GV.Ser GV.Dec GV.Msg GV.Gen.Msg

variable {B H : Type}

/-! ### `Headers`: the streaming loop -/

/-- the serialised items still to come -/
def itemBytes (its : List (H × Bytes)) : Bytes := (its.map (·.2)).flatten

theorem itemBytes_cons (it : H × Bytes) (its : List (H × Bytes)) : itemBytes (it :: its) = it.2 ++ itemBytes its := by
  simp [itemBytes]

theorem itemBytes_nil : itemBytes ([] : List (H × Bytes)) = [] := rfl

/-- codec in the middle of a `Headers` message: `its` still to come, `hs` collected in the current
batch, the first `p` bytes of the remaining items already buffered -/
def hdrState (its : List (H × Bytes)) (hs : List H) (p : Nat) : Codec H :=
  { buffer := (itemBytes its).take p, state := .blockHeaders (itemBytes its).length its.length hs }

/-- codec after a batch was returned -/
def afterBatch (its : List (H × Bytes)) (p : Nat) : Codec H :=
  if its.isEmpty then idle else hdrState its [] p

theorem HBS : HEADER_BATCH_SIZE = 32 := rfl

theorem wrap_pred (n : Nat) (h : n + 1 < 2^64) : (n + 1 + USIZE_MOD - 1) % USIZE_MOD = n := by
  unfold USIZE_MOD
  have : n + 1 + 2^64 - 1 = n + 2^64 := by omega
  rw [this, Nat.add_mod_right]
  exact Nat.mod_eq_of_lt (by omega)

/-- one iteration of the `BlockHeaders` arm on well-formed items -/
theorem items_iter (env : Env B H) (rest : Bytes) (it : H × Bytes) (its' : List (H × Bytes)) (hs : List H) (p : Nat)
    (hit : ItemWF env it) (hn : its'.length + 1 < 2^64)
    (hp1 : p ≤ (itemBytes (it :: its')).length) (hp2 : p ≤ env.hdrMax) :
    let I := itemBytes (it :: its')
    let nl := min I.length env.hdrMax
    let p' := nl - it.2.length
    fill flatOps (hdrState (it :: its') hs p) (I.drop p ++ rest) nl =
        some ({ buffer := I.take nl, state := .blockHeaders I.length (its'.length + 1) hs },
              (itemBytes its').drop p' ++ rest) ∧
    stepState env ({ buffer := I.take nl, state := .blockHeaders I.length (its'.length + 1) hs } : Codec H) nl =
      (if (hs ++ [it.1]).length = 32 ∨ its'.length = 0 then
         .inl (.msg (.headers (hs ++ [it.1]) its'.length), afterBatch its' p', min 32 its'.length * env.hdrMem)
       else .inr (hdrState its' (hs ++ [it.1]) p', 0)) ∧
    p' ≤ (itemBytes its').length ∧ p' ≤ env.hdrMax := by
  intro I nl p'
  have hp1 : p ≤ I.length := hp1
  obtain ⟨hb1, hb2, hdec⟩ := hit
  have hI : I = it.2 ++ itemBytes its' := itemBytes_cons it its'
  have hIl : I.length = it.2.length + (itemBytes its').length := by rw [hI, List.length_append]
  have hnl1 : nl ≤ I.length := Nat.min_le_left _ _
  have hnl2 : nl ≤ env.hdrMax := Nat.min_le_right _ _
  have hbnl : it.2.length ≤ nl := by
    show it.2.length ≤ min I.length env.hdrMax
    omega
  have hpnl : p ≤ nl := by show p ≤ min I.length env.hdrMax; omega
  have hp'1 : p' ≤ (itemBytes its').length := by show nl - it.2.length ≤ _; omega
  have hp'2 : p' ≤ env.hdrMax := by show nl - it.2.length ≤ _; omega
  -- the buffer after the fill and what stays on the socket
  have htake : I.take nl = it.2 ++ (itemBytes its').take p' := by
    rw [hI, List.take_append, List.take_of_length_le hbnl]
  have hdrop : I.drop nl = (itemBytes its').drop p' := by
    rw [hI, List.drop_append, List.drop_of_length_le hbnl, List.nil_append]
  refine ⟨?_, ?_, hp'1, hp'2⟩
  · -- fill
    have hx : ((I.drop p).take (nl - p)).length = nl - (I.take p).length := by
      rw [List.length_take, List.length_drop, List.length_take]; omega
    have hsplit : I.drop p ++ rest = (I.drop p).take (nl - p) ++ (I.drop nl ++ rest) := by
      have : I.drop nl = (I.drop p).drop (nl - p) := by
        rw [List.drop_drop]; congr 1; omega
      rw [this, ← List.append_assoc, List.take_append_drop]
    have hbuf : I.take p ++ (I.drop p).take (nl - p) = I.take nl := by
      have : nl = p + (nl - p) := by omega
      rw [this, List.take_add]; congr 2; omega
    have := fill_flat (H := H) (.blockHeaders I.length (its'.length + 1) hs) (I.take p) ((I.drop p).take (nl - p))
      (I.drop nl ++ rest) nl hx
    rw [hbuf, ← hsplit, hdrop] at this
    exact this
  · -- the arm
    have hne : I.length ≠ 0 := by omega
    have hd := hdec ((itemBytes its').take p')
    have hlen1 : (I.take nl).length = nl := by rw [List.length_take]; omega
    have hlen2 : ((itemBytes its').take p').length = p' := by rw [List.length_take]; omega
    have hused : (I.take nl).length - ((itemBytes its').take p').length = it.2.length := by
      rw [hlen1, hlen2]; show nl - (nl - it.2.length) = _; omega
    have hbl : I.length - it.2.length = (itemBytes its').length := by omega
    have hil := wrap_pred its'.length hn
    simp only [stepState, hne, if_false, htake, hd]
    rw [← htake, hused, hbl, hil, HBS]
    by_cases hc : (hs ++ [it.1]).length = 32 ∨ its'.length = 0
    · rw [if_pos hc, if_pos hc]
      by_cases hz : its'.length = 0
      · have hnil : its' = [] := List.eq_nil_of_length_eq_zero hz
        subst hnil
        simp [afterBatch, itemBytes_nil, idle]
      · have hne' : its' ≠ [] := fun h => hz (by rw [h]; rfl)
        have hie : its'.isEmpty = false := by cases its' <;> simp_all
        simp [hz, afterBatch, hie, hdrState]
    · rw [if_neg hc, if_neg hc]
      rfl


theorem nextLen_hdrState (env : Env B H) (its : List (H × Bytes)) (hs : List H) (p : Nat) :
    nextLen env (hdrState its hs p).state = min (itemBytes its).length env.hdrMax := rfl

/-- the rest of the current batch: from a codec in the middle of a `Headers` message, one `read`
returns the batch completed by the next `k = min (32 - |hs|) |its|` items, and leaves the codec either
idle (no item left) or in the middle of the message with an empty batch -/
theorem readLoop_items (env : Env B H) (rest : Bytes) :
    ∀ (its : List (H × Bytes)) (fuel : Nat) (hs : List H) (p br al : Nat),
      (∀ it ∈ its, ItemWF env it) → its ≠ [] → its.length < 2^64 → hs.length < 32 →
      p ≤ (itemBytes its).length → p ≤ env.hdrMax → 32 - hs.length ≤ fuel →
      ∃ p' br' al', p' ≤ (itemBytes (its.drop (min (32 - hs.length) its.length))).length ∧ p' ≤ env.hdrMax ∧
        readLoop env flatOps fuel (hdrState its hs p) ((itemBytes its).drop p ++ rest) br al =
          { res := .msg (.headers (hs ++ (its.take (min (32 - hs.length) its.length)).map (·.1))
                          (its.length - min (32 - hs.length) its.length)),
            bytesRead := br', alloc := al',
            codec := afterBatch (its.drop (min (32 - hs.length) its.length)) p',
            sock := (itemBytes (its.drop (min (32 - hs.length) its.length))).drop p' ++ rest } := by
  intro its
  induction its with
  | nil => intro fuel hs p br al _ h; exact absurd rfl h
  | cons it its' ih =>
    intro fuel hs p br al hwf _ hlen hhs hp1 hp2 hfuel
    have hit : ItemWF env it := hwf it (by simp)
    have hwf' : ∀ x ∈ its', ItemWF env x := fun x hx => hwf x (by simp [hx])
    have hlen' : its'.length + 1 < 2^64 := by simpa using hlen
    obtain ⟨hfill, hstep, hp'1, hp'2⟩ := items_iter env rest it its' hs p hit hlen' hp1 hp2
    cases fuel with
    | zero => omega
    | succ fuel =>
      have hnl := nextLen_hdrState env (it :: its') hs p
      by_cases hc : (hs ++ [it.1]).length = 32 ∨ its'.length = 0
      · -- the batch is complete with this item
        rw [if_pos hc] at hstep
        have hk : min (32 - hs.length) (it :: its').length = 1 := by
          simp only [List.length_cons, List.length_append, List.length_nil] at hc ⊢
          omega
        have e := readLoop_inl env flatOps fuel (hdrState (it :: its') hs p) _ _ _ _ br al _ _
          (by rw [hnl]; exact hfill) (by rw [hnl]; exact hstep)
        refine ⟨min (itemBytes (it :: its')).length env.hdrMax - it.2.length,
          br + (nextLen env (hdrState (it :: its') hs p).state - (hdrState (it :: its') hs p).buffer.length),
          al + (nextLen env (hdrState (it :: its') hs p).state - (hdrState (it :: its') hs p).buffer.length) +
            min 32 its'.length * env.hdrMem, ?_, hp'2, ?_⟩
        · rw [hk]; exact hp'1
        · rw [e, hk]
          simp
      · -- continue with the next item
        rw [if_neg hc] at hstep
        have hc' : hs.length + 1 < 32 ∧ its' ≠ [] := by
          simp only [List.length_append, List.length_cons, List.length_nil, not_or] at hc
          refine ⟨by omega, ?_⟩
          intro h; rw [h] at hc; simp at hc
        have e := readLoop_inr env flatOps fuel (hdrState (it :: its') hs p) _ _ _ _ br al _
          (by rw [hnl]; exact hfill) (by rw [hnl]; exact hstep)
        obtain ⟨p'', br', al', q1, q2, q3⟩ := ih fuel (hs ++ [it.1]) _ _ _ hwf' hc'.2 (by omega)
          (by simp; omega) hp'1 hp'2 (by simp; omega)
        have hk : min (32 - hs.length) (it :: its').length = min (32 - (hs ++ [it.1]).length) its'.length + 1 := by
          simp only [List.length_cons, List.length_append, List.length_nil]
          omega
        refine ⟨p'', br', al', ?_, q2, ?_⟩
        · rw [hk]; exact q1
        · rw [e, q3, hk]
          simp only [List.take_succ_cons, List.drop_succ_cons, List.map_cons, List.length_cons,
            List.append_assoc, List.singleton_append, Nat.add_sub_add_right]


theorem take_min_length {α : Type} (l : List α) (n : Nat) : l.take (min n l.length) = l.take n := by
  by_cases h : n ≤ l.length
  · rw [Nat.min_eq_left h]
  · have h' : l.length ≤ n := by omega
    rw [Nat.min_eq_right h', List.take_length, List.take_of_length_le h']

theorem drop_min_length {α : Type} (l : List α) (n : Nat) : l.drop (min n l.length) = l.drop n := by
  by_cases h : n ≤ l.length
  · rw [Nat.min_eq_left h]
  · have h' : l.length ≤ n := by omega
    rw [Nat.min_eq_right h', List.drop_length, List.drop_of_length_le h']

/-- all remaining batches of a `Headers` message, read one `Codec::read` per batch -/
theorem chain_batches (env : Env B H) (attach : Message B H → Option Nat) (hat : AttachOK attach) (rest : Bytes) :
    ∀ (f : Nat) (its : List (H × Bytes)) (p : Nat), its.length ≤ f → its ≠ [] →
      (∀ it ∈ its, ItemWF env it) → its.length < 2^64 → p ≤ (itemBytes its).length → p ≤ env.hdrMax →
      Chain env attach (hdrState its [] p) ((itemBytes its).drop p ++ rest) (batches f (its.map (·.1))) idle rest := by
  intro f
  induction f with
  | zero => intro its p h hne; cases its with
    | nil => exact absurd rfl hne
    | cons a t => simp at h
  | succ f ih =>
    intro its p hlen hne hwf h64 hp1 hp2
    obtain ⟨p', br', al', q1, q2, q3⟩ := readLoop_items env rest its READ_FUEL [] p 0 0 hwf hne h64 (by simp)
      hp1 hp2 (by simp [READ_FUEL_eq])
    simp only [List.length_nil, Nat.sub_zero, List.nil_append] at q1 q3
    rw [take_min_length, drop_min_length] at q3
    rw [drop_min_length] at q1
    have hr : ReadsTo env (hdrState its [] p) ((itemBytes its).drop p ++ rest)
        (.headers ((its.take 32).map (·.1)) (its.length - min 32 its.length))
        (afterBatch (its.drop 32) p') ((itemBytes (its.drop 32)).drop p' ++ rest) := by
      unfold ReadsTo read
      rw [q3]; exact ⟨rfl, rfl, rfl⟩
    have hnx := nextCodec_none (attach := attach) (afterBatch (its.drop 32) p') _
      (hat.2.1 ((its.take 32).map (·.1)) (its.length - min 32 its.length))
    have hie : (its.map (·.1)).isEmpty = false := by cases its <;> simp_all
    have hrem : its.length - min 32 its.length = (its.map (·.1)).length - HEADER_BATCH_SIZE := by
      rw [List.length_map, HBS]; omega
    simp only [batches, hie, HBS]
    rw [← List.map_take, ← List.map_drop, List.length_map]
    rw [show its.length - 32 = its.length - min 32 its.length by omega]
    by_cases hd : its.drop 32 = []
    · have hb : batches f ((its.drop 32).map (·.1)) = ([] : List (Message B H)) := by
        rw [hd]; cases f <;> simp [batches]
      rw [hb]
      have ha : afterBatch (its.drop 32) p' = (idle : Codec H) := by simp [afterBatch, hd]
      rw [ha] at hr hnx
      rw [hd, itemBytes_nil, List.drop_nil, List.nil_append] at hr
      simp only [Bool.false_eq_true, if_false]
      exact Chain.single hr hnx
    · have ha : afterBatch (its.drop 32) p' = hdrState (its.drop 32) [] p' := by
        have : (its.drop 32).isEmpty = false := by
          cases h : its.drop 32 with
          | nil => exact absurd h hd
          | cons a t => rfl
        simp [afterBatch, this]
      rw [ha] at hr hnx
      have hl : (its.drop 32).length ≤ f := by
        rw [List.length_drop]
        have : its.length ≠ 0 := fun h => hne (List.eq_nil_of_length_eq_zero h)
        omega
      have := ih (its.drop 32) p' hl hd (fun it hit => hwf it (List.mem_of_mem_drop hit))
        (by rw [List.length_drop]; omega) q1 q2
      exact Chain.cons hr hnx this

/-- the item count of a `Headers` frame: two bytes are pulled, the state becomes `BlockHeaders` -/
theorem readLoop_count (env : Env B H) (fuel : Nat) (L n : Nat) (rest : Bytes) (hL : 2 ≤ L) (hn : n < 2^16)
    (hne : ¬ (n = 0 ∧ L - 2 = 0)) (br al : Nat) :
    readLoop env flatOps (fuel + 1) { buffer := [], state := .header (.known T_Headers L) } (writeU16 n ++ rest) br al =
      readLoop env flatOps fuel { buffer := [], state := .blockHeaders (L - 2) n [] } rest (br + 2)
        (al + 2 + min HEADER_BATCH_SIZE n * env.hdrMem) := by
  have hnl : nextLen env (State.header (.known T_Headers L) : State H) = 2 := by
    simp only [nextLen, if_true, HEADERS_COUNT_LEN]; omega
  have hf := fill_flat (H := H) (.header (.known T_Headers L)) [] (writeU16 n) rest 2 (by simp [writeU16])
  have hr : readU16 (writeU16 n) = .ok (n, []) := by
    have := readU16_write n hn []
    rwa [List.append_nil] at this
  have hs : stepState env ({ buffer := writeU16 n, state := .header (.known T_Headers L) } : Codec H) 2 =
      .inr ({ buffer := [], state := .blockHeaders (L - 2) n [] }, min HEADER_BATCH_SIZE n * env.hdrMem) := by
    have h2 : (writeU16 n).length = 2 := rfl
    have ht : (writeU16 n).take 2 = writeU16 n := by rw [← h2]; exact List.take_length
    have hd : (writeU16 n).drop 2 = [] := by rw [← h2]; exact List.drop_length
    have hL' : ¬ L < 2 := by omega
    simp only [stepState, h2, Nat.lt_irrefl, if_false, if_true, ht, hd, hr, hL', hne]
  have := readLoop_inr env flatOps fuel { buffer := [], state := .header (.known T_Headers L) } _ _ _ _ br al _
    (by rw [hnl]; simpa using hf) (by rw [hnl]; simpa using hs)
  rw [this, hnl]; rfl

/-- the item count 0 of a `Headers` frame of length 2 (an empty list, since /repo 11bd5ac16): two bytes
are pulled, an empty batch is returned, the codec is idle again -/
theorem readLoop_count_empty (env : Env B H) (fuel : Nat) (rest : Bytes) (br al : Nat) :
    readLoop env flatOps (fuel + 1) { buffer := [], state := .header (.known T_Headers 2) } (writeU16 0 ++ rest) br al =
      { res := .msg (.headers [] 0), bytesRead := br + 2, alloc := al + 2 + 0, codec := idle, sock := rest } := by
  have hnl : nextLen env (State.header (.known T_Headers 2) : State H) = 2 := by
    simp only [nextLen, if_true, HEADERS_COUNT_LEN]; omega
  have hf := fill_flat (H := H) (.header (.known T_Headers 2)) [] (writeU16 0) rest 2 (by simp [writeU16])
  have hr : readU16 (writeU16 0) = .ok (0, []) := by
    have := readU16_write 0 (by decide) []
    rwa [List.append_nil] at this
  have hs : stepState env ({ buffer := writeU16 0, state := .header (.known T_Headers 2) } : Codec H) 2 =
      .inl (.msg (.headers [] 0), idle, 0) := by
    have h2 : (writeU16 0).length = 2 := rfl
    have ht : (writeU16 0).take 2 = writeU16 0 := by rw [← h2]; exact List.take_length
    have hd : (writeU16 0).drop 2 = [] := by rw [← h2]; exact List.drop_length
    simp only [stepState, h2, Nat.lt_irrefl, if_false, if_true, ht, hd, hr]
    rfl
  have := readLoop_inl env flatOps fuel { buffer := [], state := .header (.known T_Headers 2) } _ _ _ _ br al _ _
    (by rw [hnl]; simpa using hf) (by rw [hnl]; simpa using hs)
  rw [this, hnl]; rfl


/-- once the first batch has been read (from whatever state), the remaining batches follow -/
theorem chain_from_first (env : Env B H) (attach : Message B H → Option Nat) (hat : AttachOK attach) (rest : Bytes)
    (c : Codec H) (s : Bytes) (its : List (H × Bytes)) (p' : Nat) (hne : its ≠ [])
    (hwf : ∀ it ∈ its, ItemWF env it) (h64 : its.length < 2^64)
    (q1 : p' ≤ (itemBytes (its.drop 32)).length) (q2 : p' ≤ env.hdrMax)
    (hr : ReadsTo env c s (.headers ((its.take 32).map (·.1)) (its.length - min 32 its.length))
        (afterBatch (its.drop 32) p') ((itemBytes (its.drop 32)).drop p' ++ rest)) :
    Chain env attach c s (batches its.length (its.map (·.1))) idle rest := by
  have hnx := nextCodec_none (attach := attach) (afterBatch (its.drop 32) p') _
    (hat.2.1 ((its.take 32).map (·.1)) (its.length - min 32 its.length))
  have hie : (its.map (·.1)).isEmpty = false := by cases its <;> simp_all
  obtain ⟨f, hf⟩ : ∃ f, its.length = f + 1 := by
    cases its with
    | nil => exact absurd rfl hne
    | cons a t => exact ⟨t.length, rfl⟩
  rw [hf]
  simp only [batches, hie, HBS]
  rw [← List.map_take, ← List.map_drop, List.length_map]
  rw [show its.length - 32 = its.length - min 32 its.length by omega]
  by_cases hd : its.drop 32 = []
  · have hb : batches f ((its.drop 32).map (·.1)) = ([] : List (Message B H)) := by
      rw [hd]; cases f <;> simp [batches]
    rw [hb]
    have ha : afterBatch (its.drop 32) p' = (idle : Codec H) := by simp [afterBatch, hd]
    rw [ha] at hr hnx
    rw [hd, itemBytes_nil, List.drop_nil, List.nil_append] at hr
    simp only [Bool.false_eq_true, if_false]
    exact Chain.single hr hnx
  · have ha : afterBatch (its.drop 32) p' = hdrState (its.drop 32) [] p' := by
      have : (its.drop 32).isEmpty = false := by
        cases h : its.drop 32 with
        | nil => exact absurd h hd
        | cons a t => rfl
      simp [afterBatch, this]
    rw [ha] at hr hnx
    have hl : (its.drop 32).length ≤ f := by rw [List.length_drop]; omega
    have := chain_batches env attach hat rest f (its.drop 32) p' hl hd
      (fun it hit => hwf it (List.mem_of_mem_drop hit)) (by rw [List.length_drop]; omega) q1 q2
    simp only [Bool.false_eq_true, if_false]
    exact Chain.cons hr hnx this

theorem isKnown_headers : isKnownType T_Headers = true := by decide

/-- a whole `Headers` message, from the idle codec -/
theorem chain_headers (env : Env B H) (attach : Message B H → Option Nat) (hat : AttachOK attach) (rest : Bytes)
    (items : List (H × Bytes)) (hwf : SentWF env attach (.headers items)) :
    Chain env attach idle (encodeSent env.net (Sent.headers (B := B) items) ++ rest)
      (expected (Sent.headers (B := B) items)) idle rest := by
  obtain ⟨hn16, hmax, h64, hit⟩ := hwf
  have hbl : (headersBody items).length = 2 + (itemBytes items).length := by
    simp [headersBody, itemBytes, writeU16]; omega
  by_cases hne : items = []
  · -- the empty list: one read returns the empty batch
    subst hne
    have hdec0 : decHeader env.net (encHeader env.net T_Headers 2) = .ok (.known T_Headers 2) [] 0 := by
      have := decHeader_encHeader env.net T_Headers 2 (by decide) []
      rw [List.append_nil] at this
      have h2 : ¬ 2 > maxLen env.net T_Headers := by
        have : (headersBody ([] : List (H × Bytes))).length = 2 := rfl
        omega
      rw [this, if_neg h2, if_pos isKnown_headers]
    have hs0 : encodeSent env.net (Sent.headers (B := B) ([] : List (H × Bytes))) ++ rest =
        encHeader env.net T_Headers 2 ++ (writeU16 0 ++ rest) := by
      simp [encodeSent, writeMessage, headersBody, writeU16]
    have e1 := readLoop_header_ok env (34 + 1) (encHeader env.net T_Headers 2) (writeU16 0 ++ rest)
      (encHeader_length _ _ _) 0 0 _ _ _ hdec0
    have e2 := readLoop_count_empty env 34 rest (0 + 11) (0 + 11 + 0)
    have hr : ReadsTo env idle (encodeSent env.net (Sent.headers (B := B) ([] : List (H × Bytes))) ++ rest)
        (.headers [] 0) idle rest := by
      unfold ReadsTo read
      rw [READ_FUEL_eq, hs0, e1, e2]
      exact ⟨rfl, rfl, rfl⟩
    have := Chain.single hr (nextCodec_none (attach := attach) idle _ (hat.2.1 [] 0))
    simpa [expected] using this
  have hdec : decHeader env.net (encHeader env.net T_Headers (headersBody items).length) =
      .ok (.known T_Headers (headersBody items).length) [] 0 := by
    have := decHeader_encHeader env.net T_Headers (headersBody items).length h64 []
    rw [List.append_nil] at this
    rw [this, if_neg (by omega), if_pos isKnown_headers]
  have hstream : encodeSent env.net (Sent.headers (B := B) items) ++ rest =
      encHeader env.net T_Headers (headersBody items).length ++ (writeU16 items.length ++ (itemBytes items ++ rest)) := by
    simp [encodeSent, writeMessage, headersBody, itemBytes]
  have e1 := readLoop_header_ok env (34 + 1) (encHeader env.net T_Headers (headersBody items).length)
    (writeU16 items.length ++ (itemBytes items ++ rest)) (encHeader_length _ _ _) 0 0 _ _ _ hdec
  have hlen0 : items.length ≠ 0 := fun h => hne (List.eq_nil_of_length_eq_zero h)
  have e2 := readLoop_count env 34 (headersBody items).length items.length (itemBytes items ++ rest)
    (by omega) hn16 (fun h => hlen0 h.1) (0 + 11) (0 + 11 + 0)
  have hst : ({ buffer := [], state := .blockHeaders ((headersBody items).length - 2) items.length [] } : Codec H) =
      hdrState items [] 0 := by
    simp only [hdrState, List.take_zero]
    rw [show (headersBody items).length - 2 = (itemBytes items).length by omega]
  obtain ⟨p', br', al', q1, q2, q3⟩ := readLoop_items env rest items 34 [] 0 (0 + 11 + 2)
    (0 + 11 + 0 + 2 + min HEADER_BATCH_SIZE items.length * env.hdrMem) hit hne (by omega) (by simp)
    (Nat.zero_le _) (Nat.zero_le _) (by simp)
  simp only [List.length_nil, Nat.sub_zero, List.nil_append, List.drop_zero] at q1 q3
  rw [take_min_length, drop_min_length] at q3
  rw [drop_min_length] at q1
  have hr : ReadsTo env idle (encodeSent env.net (Sent.headers (B := B) items) ++ rest)
      (.headers ((items.take 32).map (·.1)) (items.length - min 32 items.length))
      (afterBatch (items.drop 32) p') ((itemBytes (items.drop 32)).drop p' ++ rest) := by
    unfold ReadsTo read
    rw [READ_FUEL_eq, hstream, e1, e2, hst, q3]
    exact ⟨rfl, rfl, rfl⟩
  have := chain_from_first env attach hat rest idle _ items p' hne hit (by omega) q1 q2 hr
  have hie : items.isEmpty = false := by cases items <;> simp_all
  simpa [expected, hie] using this


/-- every well-formed sent message is read back as exactly its expected events, and leaves the codec idle -/
theorem chain_sent (env : Env B H) (attach : Message B H → Option Nat) (hat : AttachOK attach) (rest : Bytes)
    (m : Sent B H) (hwf : SentWF env attach m) :
    Chain env attach idle (encodeSent env.net m ++ rest) (expected m) idle rest := by
  cases m with
  | plain t v raw =>
    obtain ⟨hd, hl, h64, hb, ha⟩ := hwf
    have hr := reads_plain env t v raw rest hd hl h64 hb
    have hs : encodeSent env.net (Sent.plain (H := H) t v raw) ++ rest =
        encHeader env.net t raw.length ++ (raw ++ rest) := by simp [encodeSent, writeMessage]
    rw [hs]
    exact Chain.single hr (nextCodec_none idle _ ha)
  | unknown t raw =>
    obtain ⟨hk, hl, h64⟩ := hwf
    have hr := reads_unknown env t raw rest hk hl h64
    have hs : encodeSent env.net (Sent.unknown (B := B) (H := H) t raw) ++ rest =
        encHeader env.net t raw.length ++ (raw ++ rest) := by simp [encodeSent, writeMessage]
    rw [hs]
    exact Chain.single hr (nextCodec_none idle _ (hat.1 t))
  | headers items => exact chain_headers env attach hat rest items hwf
  | archive t v raw att =>
    obtain ⟨hd, hl, h64, hb, ha⟩ := hwf
    have hr := reads_plain env t v raw (att ++ rest) hd hl h64 hb
    have hs : encodeSent env.net (Sent.archive (H := H) t v raw att) ++ rest =
        encHeader env.net t raw.length ++ (raw ++ (att ++ rest)) := by simp [encodeSent, writeMessage]
    rw [hs]
    have hn : nextCodec attach (idle : Codec H) (.body t v) = some { buffer := [], state := .attachment att.length } := by
      simp [nextCodec, ha, expectAttachment, idle]
    exact Chain.cons hr hn (chain_attachment env attach hat rest (att.length + 1) att (Nat.lt_succ_self _))

/-- a whole conversation -/
theorem chain_all (env : Env B H) (attach : Message B H → Option Nat) (hat : AttachOK attach) :
    ∀ (msgs : List (Sent B H)), (∀ m ∈ msgs, SentWF env attach m) → ∀ rest : Bytes,
      Chain env attach idle ((msgs.map (encodeSent env.net)).flatten ++ rest) (msgs.map expected).flatten idle rest := by
  intro msgs
  induction msgs with
  | nil => intro _ rest; exact Chain.nil idle rest
  | cons m ms ih =>
    intro hwf rest
    have h1 := chain_sent env attach hat ((ms.map (encodeSent env.net)).flatten ++ rest) m (hwf m (by simp))
    have h2 := ih (fun x hx => hwf x (by simp [hx])) rest
    simp only [List.map_cons, List.flatten_cons, List.append_assoc]
    exact h1.append h2

/-- **framing is faithful on the flat stream**: the reader loop delivers exactly the expected
events, then ends with `Error::Connection` at the end of the stream, idle, nothing buffered -/
theorem framing_faithful_flat (env : Env B H) (attach : Message B H → Option Nat) (hat : AttachOK attach)
    (msgs : List (Sent B H)) (hwf : ∀ m ∈ msgs, SentWF env attach m) (extra : Nat) :
    run env flatOps attach ((msgs.map expected).flatten.length + (extra + 1)) idle
        (msgs.map (encodeSent env.net)).flatten =
      ((msgs.map expected).flatten, .err .conn, idle, []) := by
  have hc := chain_all env attach hat msgs hwf []
  rw [List.append_nil] at hc
  rw [run_chain hc (extra + 1)]
  have he := readLoop_idle_eof env 35 ([] : Bytes) (by simp) 0 0
  have hrun : run env flatOps attach (extra + 1) (idle : Codec H) [] = ([], .err .conn, idle, []) := by
    simp only [run, read, READ_FUEL_eq, he]
  rw [hrun]; simp

end GV.Codec
