import GrinVerif.Model.Crash
import GrinVerif.Lemmas.CrashBasic
import GrinVerif.Lemmas.CrashPath
import GrinVerif.Lemmas.CrashRecover
import GrinVerif.Lemmas.CrashSteps
/-! Plain extension and header acceptance: which of the closed-form crash states pass the header
check and agree with the old consistent state. -/
namespace GV.Crash

/-- block `b` extends the stored path `O` by one block, and target `t` describes exactly that -/
structure PlainExt (tbl : List BlkInfo) (O : List BlkInfo) (b : BlkInfo) (t : Target) : Prop where
  old : pathOf tbl (tbl.length + 1) (tipOf O) [] = some O
  new : pathOf tbl (tbl.length + 1) b.id [] = some (O ++ [b])
  newPath : t.newPath = O ++ [b]
  forkLen : t.forkLen = O.length

theorem map_prefix_of_append {α β : Type} (f : α → β) (Q S : List α) : Q.map f <+: (Q ++ S).map f := by
  rw [List.map_append]; exact List.prefix_append _ _

theorem leavesOf_prefix (Q S : List BlkInfo) : leavesOf Q <+: leavesOf (Q ++ S) := by
  rw [leavesOf_append]; exact List.prefix_append _ _

/-- at every crash point of a plain extension the output and kernel files cover every prefix of
the old path -/
theorem extState_files (O : List BlkInfo) (b : BlkInfo) (m1 m2 : Bool) (k : Nat) (Q S : List BlkInfo)
    (h : Q ++ S = O) : FilesCover Q (extState O b m1 m2 k) := by
  subst h
  have a1 : leavesOf Q <+: leavesOf (Q ++ S) := leavesOf_prefix Q S
  have a2 : leavesOf Q <+: leavesOf (Q ++ S ++ [b]) := by
    rw [List.append_assoc]; exact leavesOf_prefix Q _
  have b1 : Q.map (·.id) <+: (Q ++ S).map (·.id) := map_prefix_of_append _ Q S
  have b2 : Q.map (·.id) <+: (Q ++ S ++ [b]).map (·.id) := by
    rw [List.append_assoc]; exact map_prefix_of_append _ Q _
  constructor <;> simp only [extState] <;> split <;> assumption

theorem extState_hdrOk (tbl : List BlkInfo) (O : List BlkInfo) (b : BlkInfo) (t : Target)
    (h : PlainExt tbl O b t) (m1 m2 : Bool) (k : Nat) (hk : k ≤ 2 ∨ 5 ≤ k) :
    HdrOk tbl (extState O b m1 m2 k) := by
  rcases hk with hk | hk
  · have e1 : ¬ 3 ≤ k := by omega
    have e2 : ¬ 5 ≤ k := by omega
    have e3 : ¬ (6 ≤ k ∧ m1 = true) := by omega
    refine ⟨by simp [extState, e1, e2], O, ?_, ?_⟩
    · simp only [extState, e3, if_false]; exact h.old
    · simp only [extState, e2, if_false]; exact List.prefix_refl _
  · have e1 : 3 ≤ k := by omega
    by_cases hm : 6 ≤ k ∧ m1 = true
    · refine ⟨by simp [extState, e1, hk], O ++ [b], ?_, ?_⟩
      · simp only [extState, hm, and_self, if_true]; exact h.new
      · simp only [extState, hk, if_true]; exact List.prefix_refl _
    · refine ⟨by simp [extState, e1, hk], O, ?_, ?_⟩
      · simp only [extState, hm, if_false]; exact h.old
      · simp only [extState, hk, if_true]; exact map_prefix_of_append _ O [b]

theorem extState_agrees (O : List BlkInfo) (b : BlkInfo) (m1 m2 : Bool) (k : Nat) (hk : k ≤ 11) :
    AgreesOld O (extState O b m1 m2 k) := by
  refine ⟨?_, ?_, extState_files O b m1 m2 k O [] (by simp)⟩
  · have : ¬ (17 ≤ k ∧ m2 = true) := by omega
    simp [extState, this]
  · have : ¬ 12 ≤ k := by omega
    simp [extState, this]

theorem extState_agrees_new (O : List BlkInfo) (b : BlkInfo) (m1 : Bool) (k : Nat) (hk : 17 ≤ k) :
    AgreesOld (O ++ [b]) (extState O b m1 true k) := by
  have e : ∀ n, n ≤ 17 → n ≤ k := by intro n hn; omega
  refine ⟨by simp [extState, hk], by simp [extState, e], ?_⟩
  constructor <;> simp [extState, e]

/-- in the window between the leaf-set rename and the final commit the body head is still the old
tip, and the leaf set is already the new block's -/
theorem extState_window (O : List BlkInfo) (b : BlkInfo) (m1 m2 : Bool) (k : Nat) (h1 : 12 ≤ k) (h2 : k ≤ 16) :
    (extState O b m1 m2 k).dbHead = tipOf O ∧ (extState O b m1 m2 k).leaf = applyU (unspentOf O) b := by
  have : ¬ (17 ≤ k ∧ m2 = true) := by omega
  simp [extState, this, h1, unspentOf_snoc]

/-! ### header acceptance onto a fork -/

/-- a header whose stored path is `N` is accepted while the header head is the tip of `O`; the two
paths part after `t.forkLen` blocks, strictly inside both (a reorganisation of the header chain) -/
structure HdrReorg (tbl : List BlkInfo) (O N : List BlkInfo) (t : Target) : Prop where
  old : pathOf tbl (tbl.length + 1) (tipOf O) [] = some O
  new : pathOf tbl (tbl.length + 1) (tipOf N) [] = some N
  newPath : t.newPath = N
  lt_old : t.forkLen < O.length
  lt_new : t.forkLen < N.length
  diverge : (O.map (·.id))[t.forkLen]? ≠ (N.map (·.id))[t.forkLen]?

theorem recover_hdr_mismatch (bc : Nat → Bool) (tbl : List BlkInfo) (d : Durable) (hp : List BlkInfo)
    (hl : d.hdrHash.length = d.hdrData.length)
    (hpath : pathOf tbl (tbl.length + 1) d.dbHHead [] = some hp)
    (hne : d.hdrData.take hp.length ≠ hp.map (·.id)) :
    recover bc tbl d = .openFail .other := by
  unfold recover
  rw [if_neg (by simpa using hl), hpath]
  simp only [ne_eq]
  rw [if_pos hne]

theorem hdrState_agrees (O N : List BlkInfo) (F : Nat) (m : Bool) (k : Nat) :
    AgreesOld O (hdrState O N F m k) := by
  refine ⟨by simp [hdrState, consistent, tipOf], by simp [hdrState, consistent], ?_⟩
  constructor <;> simp [hdrState, consistent]

end GV.Crash
