import GrinVerif.Lemmas.SerAccept
/-! Canonical form, decoder side: **for every byte string** (of real bytes), if a decoder accepts
it then the bytes it consumed are exactly the encoding of the value it returned — nothing is
normalised. (The one decoder for which this fails, `RangeProof::read`, is characterised in
`Props/C10.lean`.) -/
namespace GV.Ser
open GV

theorem allBytes_cons {b : Nat} {r : Bytes} (h : AllBytes (b :: r)) : b < 256 ∧ AllBytes r :=
  ⟨h b (by simp), fun x hx => h x (by simp [hx])⟩

theorem allBytes_append_right {a b : Bytes} (h : AllBytes (a ++ b)) : AllBytes b :=
  fun x hx => h x (by simp [hx])

theorem readU8_inv {bs : Bytes} {b : Nat} {r : Bytes} (h : readU8 bs = .ok (b, r)) : bs = writeU8 b ++ r := by
  cases bs with
  | nil => simp [readU8] at h
  | cons x xs => simp only [readU8, Except.ok.injEq, Prod.mk.injEq] at h; obtain ⟨rfl, rfl⟩ := h; rfl

theorem readU16_inv {bs : Bytes} {n : Nat} {r : Bytes} (hb : AllBytes bs) (h : readU16 bs = .ok (n, r)) :
    bs = writeU16 n ++ r ∧ n < 2^16 := by
  match bs, hb, h with
  | b0 :: b1 :: r', hb, h =>
    simp only [readU16, Except.ok.injEq, Prod.mk.injEq] at h
    obtain ⟨rfl, rfl⟩ := h
    have h0 := hb b0 (by simp)
    have h1 := hb b1 (by simp)
    refine ⟨?_, by omega⟩
    simp only [writeU16, List.cons_append, List.nil_append, List.cons.injEq, and_true]
    omega
  | [], _, h => simp [readU16] at h
  | [_], _, h => simp [readU16] at h

theorem readU64_inv {bs : Bytes} {n : Nat} {r : Bytes} (hb : AllBytes bs) (h : readU64 bs = .ok (n, r)) :
    bs = writeU64 n ++ r ∧ n < 2^64 := by
  match bs, hb, h with
  | b0 :: b1 :: b2 :: b3 :: b4 :: b5 :: b6 :: b7 :: r', hb, h =>
    simp only [readU64, Except.ok.injEq, Prod.mk.injEq] at h
    obtain ⟨rfl, rfl⟩ := h
    have h0 := hb b0 (by simp)
    have h1 := hb b1 (by simp)
    have h2 := hb b2 (by simp)
    have h3 := hb b3 (by simp)
    have h4 := hb b4 (by simp)
    have h5 := hb b5 (by simp)
    have h6 := hb b6 (by simp)
    have h7 := hb b7 (by simp)
    refine ⟨?_, by omega⟩
    simp only [writeU64, List.cons_append, List.nil_append, List.cons.injEq, and_true]
    omega
  | [], _, h => simp [readU64] at h
  | [_], _, h => simp [readU64] at h
  | [_, _], _, h => simp [readU64] at h
  | [_, _, _], _, h => simp [readU64] at h
  | [_, _, _, _], _, h => simp [readU64] at h
  | [_, _, _, _, _], _, h => simp [readU64] at h
  | [_, _, _, _, _, _], _, h => simp [readU64] at h
  | [_, _, _, _, _, _, _], _, h => simp [readU64] at h

theorem readEmpty_inv {n : Nat} {bs r : Bytes} (h : readEmpty n bs = .ok ((), r)) : bs = writeEmpty n ++ r := by
  induction n generalizing bs with
  | zero => simp only [readEmpty, Except.ok.injEq, Prod.mk.injEq, true_and] at h; subst h; rfl
  | succ n ih =>
    cases bs with
    | nil => simp [readEmpty, readU8] at h
    | cons b bs =>
      simp only [readEmpty, readU8] at h
      split at h
      · simp at h
      · rename_i hb
        have hb0 : b = 0 := by simpa using hb
        subst hb0
        rw [ih h]
        simp [writeEmpty, List.replicate_succ]

theorem decNrdHeight_inv {bs : Bytes} {n : Nat} {r : Bytes} (hb : AllBytes bs)
    (h : decNrdHeight bs = .ok (n, r)) : bs = writeU16 n ++ r ∧ 1 ≤ n ∧ n ≤ NRD_MAX := by
  unfold decNrdHeight at h
  cases h1 : readU16 bs with
  | error e => simp [h1] at h
  | ok v =>
    obtain ⟨x, r'⟩ := v
    simp only [h1] at h
    split at h
    · simp at h
    · rename_i hr
      simp only [Except.ok.injEq, Prod.mk.injEq] at h
      obtain ⟨rfl, rfl⟩ := h
      exact ⟨(readU16_inv hb h1).1, by omega, by omega⟩

/-- v1 kernel features: accepted ⇒ canonical and in range -/
theorem decKernelFeaturesV1_inv {nrd : Bool} {bs : Bytes} {f : KernelFeatures} {r : Bytes}
    (hb : AllBytes bs) (h : decKernelFeaturesV1 nrd bs = .ok (f, r)) :
    bs = encKernelFeaturesV1 f ++ r ∧ f.WF nrd := by
  cases bs with
  | nil => simp [decKernelFeaturesV1, readU8] at h
  | cons t bs =>
    have hbs := (allBytes_cons hb).2
    rcases t with _ | _ | _ | _ | t
    · -- plain
      simp only [decKernelFeaturesV1, readU8] at h
      cases h1 : readU64 bs with
      | error e => simp [h1] at h
      | ok v =>
        obtain ⟨fee, r1⟩ := v
        simp only [h1] at h
        obtain ⟨e1, hfee⟩ := readU64_inv hbs h1
        cases h2 : readEmpty 8 r1 with
        | error e => simp [h2] at h
        | ok v2 =>
          obtain ⟨u, r2⟩ := v2
          simp only [h2, Except.ok.injEq, Prod.mk.injEq] at h
          obtain ⟨rfl, rfl⟩ := h
          have e2 := readEmpty_inv h2
          subst e1; subst e2
          exact ⟨by simp [encKernelFeaturesV1, writeU8], hfee⟩
    · -- coinbase
      simp only [decKernelFeaturesV1, readU8] at h
      cases h2 : readEmpty 16 bs with
      | error e => simp [h2] at h
      | ok v2 =>
        obtain ⟨u, r2⟩ := v2
        simp only [h2, Except.ok.injEq, Prod.mk.injEq] at h
        obtain ⟨rfl, rfl⟩ := h
        have e2 := readEmpty_inv h2
        subst e2
        exact ⟨by simp [encKernelFeaturesV1, writeU8], trivial⟩
    · -- height locked
      simp only [decKernelFeaturesV1, readU8] at h
      cases h1 : readU64 bs with
      | error e => simp [h1] at h
      | ok v =>
        obtain ⟨fee, r1⟩ := v
        simp only [h1] at h
        obtain ⟨e1, hfee⟩ := readU64_inv hbs h1
        subst e1
        have hr1 := allBytes_append_right hbs
        cases h2 : readU64 r1 with
        | error e => simp [h2] at h
        | ok v2 =>
          obtain ⟨lock, r2⟩ := v2
          simp only [h2, Except.ok.injEq, Prod.mk.injEq] at h
          obtain ⟨rfl, rfl⟩ := h
          obtain ⟨e2, hlock⟩ := readU64_inv hr1 h2
          subst e2
          exact ⟨by simp [encKernelFeaturesV1, writeU8], hfee, hlock⟩
    · -- NRD
      simp only [decKernelFeaturesV1, readU8] at h
      cases hn : nrd with
      | false => simp [hn] at h
      | true =>
        simp only [hn, Bool.not_true, Bool.false_eq_true, ↓reduceIte] at h
        cases h1 : readU64 bs with
        | error e => simp [h1] at h
        | ok v =>
          obtain ⟨fee, r1⟩ := v
          simp only [h1] at h
          obtain ⟨e1, hfee⟩ := readU64_inv hbs h1
          subst e1
          have hr1 := allBytes_append_right hbs
          cases h2 : readEmpty 6 r1 with
          | error e => simp [h2] at h
          | ok v2 =>
            obtain ⟨u, r2⟩ := v2
            simp only [h2] at h
            have e2 := readEmpty_inv h2
            subst e2
            have hr2 := allBytes_append_right hr1
            cases h3 : decNrdHeight r2 with
            | error e => simp [h3] at h
            | ok v3 =>
              obtain ⟨rel, r3⟩ := v3
              simp only [h3, Except.ok.injEq, Prod.mk.injEq] at h
              obtain ⟨rfl, rfl⟩ := h
              obtain ⟨e3, hl, hu⟩ := decNrdHeight_inv hr2 h3
              subst e3
              exact ⟨by simp [encKernelFeaturesV1, writeU8], rfl, hfee, hl, hu⟩
    · simp [decKernelFeaturesV1, readU8] at h

/-- v2 kernel features: accepted ⇒ canonical and in range -/
theorem decKernelFeaturesV2_inv {nrd : Bool} {bs : Bytes} {f : KernelFeatures} {r : Bytes}
    (hb : AllBytes bs) (h : decKernelFeaturesV2 nrd bs = .ok (f, r)) :
    bs = encKernelFeaturesV2 f ++ r ∧ f.WF nrd := by
  cases bs with
  | nil => simp [decKernelFeaturesV2, readU8] at h
  | cons t bs =>
    have hbs := (allBytes_cons hb).2
    rcases t with _ | _ | _ | _ | t
    · simp only [decKernelFeaturesV2, readU8] at h
      cases h1 : readU64 bs with
      | error e => simp [h1] at h
      | ok v =>
        obtain ⟨fee, r1⟩ := v
        simp only [h1, Except.ok.injEq, Prod.mk.injEq] at h
        obtain ⟨rfl, rfl⟩ := h
        obtain ⟨e1, hfee⟩ := readU64_inv hbs h1
        subst e1
        exact ⟨by simp [encKernelFeaturesV2, writeU8], hfee⟩
    · simp only [decKernelFeaturesV2, readU8, Except.ok.injEq, Prod.mk.injEq] at h
      obtain ⟨rfl, rfl⟩ := h
      exact ⟨by simp [encKernelFeaturesV2, writeU8], trivial⟩
    · simp only [decKernelFeaturesV2, readU8] at h
      cases h1 : readU64 bs with
      | error e => simp [h1] at h
      | ok v =>
        obtain ⟨fee, r1⟩ := v
        simp only [h1] at h
        obtain ⟨e1, hfee⟩ := readU64_inv hbs h1
        subst e1
        have hr1 := allBytes_append_right hbs
        cases h2 : readU64 r1 with
        | error e => simp [h2] at h
        | ok v2 =>
          obtain ⟨lock, r2⟩ := v2
          simp only [h2, Except.ok.injEq, Prod.mk.injEq] at h
          obtain ⟨rfl, rfl⟩ := h
          obtain ⟨e2, hlock⟩ := readU64_inv hr1 h2
          subst e2
          exact ⟨by simp [encKernelFeaturesV2, writeU8], hfee, hlock⟩
    · simp only [decKernelFeaturesV2, readU8] at h
      cases hn : nrd with
      | false => simp [hn] at h
      | true =>
        simp only [hn, Bool.not_true, Bool.false_eq_true, ↓reduceIte] at h
        cases h1 : readU64 bs with
        | error e => simp [h1] at h
        | ok v =>
          obtain ⟨fee, r1⟩ := v
          simp only [h1] at h
          obtain ⟨e1, hfee⟩ := readU64_inv hbs h1
          subst e1
          have hr1 := allBytes_append_right hbs
          cases h3 : decNrdHeight r1 with
          | error e => simp [h3] at h
          | ok v3 =>
            obtain ⟨rel, r3⟩ := v3
            simp only [h3, Except.ok.injEq, Prod.mk.injEq] at h
            obtain ⟨rfl, rfl⟩ := h
            obtain ⟨e3, hl, hu⟩ := decNrdHeight_inv hr1 h3
            subst e3
            exact ⟨by simp [encKernelFeaturesV2, writeU8], rfl, hfee, hl, hu⟩
    · simp [decKernelFeaturesV2, readU8] at h

theorem decKernelFeatures_inv {c : Cfg} {bs : Bytes} {f : KernelFeatures} {r : Bytes}
    (hb : AllBytes bs) (h : decKernelFeatures c bs = .ok (f, r)) :
    bs = encKernelFeatures c.ver .full f ++ r ∧ f.WF c.nrd := by
  unfold decKernelFeatures at h
  unfold encKernelFeatures
  by_cases hv : c.ver ≤ 1
  · simp only [hv, ↓reduceIte] at h
    simpa [hv] using decKernelFeaturesV1_inv hb h
  · simp only [hv, ↓reduceIte] at h
    simpa [hv] using decKernelFeaturesV2_inv hb h

theorem decTxKernel_inv {c : Cfg} {bs : Bytes} {k : TxKernel} {r : Bytes}
    (hb : AllBytes bs) (h : decTxKernel c bs = .ok (k, r)) :
    bs = encTxKernel c.ver .full k ++ r ∧ k.WF c.nrd := by
  rw [decTxKernel] at h
  obtain ⟨f, r1, h1, h⟩ := andThen_inv h
  obtain ⟨ex, r2, h2, h⟩ := andThen_inv h
  obtain ⟨sg, r3, h3, h⟩ := andThen_inv h
  simp only [Except.ok.injEq, Prod.mk.injEq] at h
  obtain ⟨rfl, rfl⟩ := h
  obtain ⟨e1, hf⟩ := decKernelFeatures_inv hb h1
  obtain ⟨e2, l2⟩ := readFixed_ok h2
  obtain ⟨e3, l3⟩ := readFixed_ok h3
  subst e1; subst e2; subst e3
  exact ⟨by simp [encTxKernel, writeFixed], hf, l2, l3⟩

theorem decOutputFeatures_inv {bs : Bytes} {f : OutputFeatures} {r : Bytes}
    (h : decOutputFeatures bs = .ok (f, r)) : bs = encOutputFeatures f ++ r := by
  cases bs with
  | nil => simp [decOutputFeatures, readU8] at h
  | cons t bs =>
    rcases t with _ | _ | t
    · simp only [decOutputFeatures, readU8, Except.ok.injEq, Prod.mk.injEq] at h
      obtain ⟨rfl, rfl⟩ := h; rfl
    · simp only [decOutputFeatures, readU8, Except.ok.injEq, Prod.mk.injEq] at h
      obtain ⟨rfl, rfl⟩ := h; rfl
    · simp [decOutputFeatures, readU8] at h

theorem decInput_inv {bs : Bytes} {i : Input} {r : Bytes} (h : decInput bs = .ok (i, r)) :
    bs = encInput i ++ r ∧ i.WF := by
  rw [decInput] at h
  obtain ⟨f, r1, h1, h⟩ := andThen_inv h
  obtain ⟨cm, r2, h2, h⟩ := andThen_inv h
  simp only [Except.ok.injEq, Prod.mk.injEq] at h
  obtain ⟨rfl, rfl⟩ := h
  have e1 := decOutputFeatures_inv h1
  obtain ⟨e2, l2⟩ := readFixed_ok h2
  subst e1; subst e2
  exact ⟨by simp [encInput, writeFixed], l2⟩

theorem decOutputId_inv {bs : Bytes} {o : OutputId} {r : Bytes} (h : decOutputId bs = .ok (o, r)) :
    bs = encOutputId o ++ r ∧ o.WF := by
  rw [decOutputId] at h
  obtain ⟨f, r1, h1, h⟩ := andThen_inv h
  obtain ⟨cm, r2, h2, h⟩ := andThen_inv h
  simp only [Except.ok.injEq, Prod.mk.injEq] at h
  obtain ⟨rfl, rfl⟩ := h
  have e1 := decOutputFeatures_inv h1
  obtain ⟨e2, l2⟩ := readFixed_ok h2
  subst e1; subst e2
  exact ⟨by simp [encOutputId, writeFixed], l2⟩

theorem decTip_inv {bs : Bytes} {t : Tip} {r : Bytes} (hb : AllBytes bs) (h : decTip bs = .ok (t, r)) :
    bs = encTip t ++ r ∧ t.WF := by
  rw [decTip] at h
  obtain ⟨height, r1, h1, k1⟩ := andThen_inv h
  obtain ⟨last, r2, h2, k2⟩ := andThen_inv k1
  obtain ⟨prev, r3, h3, k3⟩ := andThen_inv k2
  obtain ⟨td, r4, h4, k4⟩ := andThen_inv k3
  clear h k1 k2 k3
  simp only [Except.ok.injEq, Prod.mk.injEq] at k4
  obtain ⟨rfl, rfl⟩ := k4
  obtain ⟨e1, hh⟩ := readU64_inv hb h1
  subst e1
  have hb1 := allBytes_append_right hb
  obtain ⟨e2, l2⟩ := readFixed_ok h2
  subst e2
  have hb2 := allBytes_append_right hb1
  obtain ⟨e3, l3⟩ := readFixed_ok h3
  subst e3
  have hb3 := allBytes_append_right hb2
  obtain ⟨e4, htd⟩ := readU64_inv hb3 h4
  subst e4
  exact ⟨by simp [encTip, writeFixed], hh, l2, l3, htd⟩

end GV.Ser
