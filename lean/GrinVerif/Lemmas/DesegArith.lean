import GrinVerif.Model.Deseg
import GrinVerif.Lemmas.SegForest
import GrinVerif.Lemmas.SegDsg
/-! Arithmetic bridge for the desegmenter model (`Model/Deseg.lean`): under the range hypotheses
(`height ≤ 61`, leaf counts `< 2^62`) the wrapped u64 / usize expressions of
`next_required_*_segment_index`, `count_segments_required`, `pmmr_size`, `segment_unpruned_size`
and `segment_pos_range` equal the plain leaf-count arithmetic, and the values of the four
`next_required_*` flavours at every position a local MMR can be in (`Pos`). -/
namespace GV.Deseg
open GV GV.Pmmr GV.Seg

theorem pow_pos' (h : Nat) : 0 < 2 ^ h := Nat.pow_pos (by omega)

theorem pow_lt_62 (h : Nat) (hh : h ≤ 61) : 2 ^ h < 2 ^ 62 := Nat.pow_lt_pow_right (by omega) (by omega)

theorem nLeaves_mmr (n : Nat) : nLeaves (mmr n) = n := GV.Props.C07.nLeaves_at_leaf_boundary n

theorem mmr_one : mmr 1 = 1 := by simp [mmr, popcount]

theorem mmr_lt_iff {a b : Nat} : mmr a < mmr b ↔ a < b := by
  constructor
  · intro h
    by_cases hab : a < b
    · exact hab
    · have := Co.mmr_le_mmr (show b ≤ a by omega); omega
  · exact Co.mmr_lt_mmr

theorem mmr_eq_iff {a b : Nat} : mmr a = mmr b ↔ a = b :=
  ⟨Co.mmr_inj, fun h => by rw [h]⟩

theorem mmr_eq_one {n : Nat} : mmr n = 1 ↔ n = 1 := by
  constructor
  · intro h; exact Co.mmr_inj (h.trans mmr_one.symm)
  · intro h; rw [h]; exact mmr_one

theorem shl_one (h : Nat) (hh : h < 64) : shlW 1 h = 2 ^ h := by
  have hpow : 2 ^ h < 2 ^ 64 := Nat.pow_lt_pow_right (by omega) (by omega)
  unfold shlW
  rw [Nat.mod_eq_of_lt hh, Nat.one_mul, Nat.mod_eq_of_lt hpow]

/-- `count_segments_required(mmr n, h)` is `⌈n / 2^h⌉` -/
theorem csr_mmr (n h : Nat) (hh : h ≤ 61) (hn : n < 2 ^ 62) :
    Ident.countSegmentsRequired (mmr n) h = Dsg.segCount n h := by
  have hp := pow_lt_62 h hh
  have hpos := pow_pos' h
  unfold Ident.countSegmentsRequired Dsg.segCount
  simp only [nLeaves_mmr, shl_one h (by omega)]
  have e1 : addW n (2 ^ h) = n + 2 ^ h := by unfold addW; exact Nat.mod_eq_of_lt (by omega)
  rw [e1, subW_small _ _ (by omega) (by omega)]

/-- `SegmentIdentifier::pmmr_size(c, h)` is the size of an MMR with `c * 2^h` leaves -/
theorem pmmrSize_eq (c h : Nat) (hh : h ≤ 61) (hc : c * 2 ^ h < 2 ^ 63) :
    pmmrSize c h = mmr (c * 2 ^ h) := by
  unfold pmmrSize
  rw [shl_one h (by omega)]
  have : mulW c (2 ^ h) = c * 2 ^ h := by unfold mulW; exact Nat.mod_eq_of_lt (by omega)
  rw [this, ins2pmmrW_small _ hc]

theorem segCount_le (n h : Nat) : Dsg.segCount n h * 2 ^ h < n + 2 ^ h := by
  unfold Dsg.segCount
  have hp := pow_pos' h
  have := Nat.div_mul_le_self (n + 2 ^ h - 1) (2 ^ h)
  omega

theorem segCount_ge (n h : Nat) : n ≤ Dsg.segCount n h * 2 ^ h := by
  unfold Dsg.segCount
  have hp := pow_pos' h
  have h1 := Nat.div_add_mod (n + 2 ^ h - 1) (2 ^ h)
  have h2 := Nat.mod_lt (n + 2 ^ h - 1) hp
  rw [Nat.mul_comm] at h1
  omega

theorem segCount_pos (n h : Nat) (hn : 0 < n) : 0 < Dsg.segCount n h := by
  have := segCount_ge n h
  by_cases h0 : Dsg.segCount n h = 0
  · rw [h0] at this; omega
  · omega

theorem idx_lt_segCount_iff (idx n h : Nat) : idx < Dsg.segCount n h ↔ idx * 2 ^ h < n := by
  constructor
  · intro hlt
    have hp := pow_pos' h
    have h1 := segCount_le n h
    have : (idx + 1) * 2 ^ h ≤ Dsg.segCount n h * 2 ^ h := Nat.mul_le_mul_right _ hlt
    rw [Nat.succ_mul] at this
    omega
  · exact Dsg.lt_segCount idx h n

theorem capacity_eq (id : Ident) (hh : id.height < 64) : id.capacity = 2 ^ id.height := by
  unfold Ident.capacity; exact shl_one _ hh

/-- `segment_unpruned_size` without wrap-around -/
theorem unprunedSize_mmr (id : Ident) (N : Nat) (hh : id.height < 64)
    (hoff : id.idx * 2 ^ id.height < 2 ^ 64) :
    id.unprunedSize (mmr N) = min (2 ^ id.height) (N - id.idx * 2 ^ id.height) := by
  unfold Ident.unprunedSize Ident.leafOffset satSub mulW
  rw [capacity_eq id hh, nLeaves_mmr, Nat.mod_eq_of_lt hoff]

/-- a segment whose first leaf exists passes the `NonExistent` test of `Segment::root` -/
theorem unprunedSize_pos (id : Ident) (N : Nat) (hh : id.height ≤ 61) (hN : N < 2 ^ 62)
    (hlo : id.idx * 2 ^ id.height < N) : id.unprunedSize (mmr N) ≠ 0 := by
  rw [unprunedSize_mmr id N (by omega) (by omega)]
  have hp := pow_pos' id.height
  have hd : 0 < N - id.idx * 2 ^ id.height := Nat.sub_pos_of_lt hlo
  exact Nat.ne_of_gt (Nat.lt_min.mpr ⟨hp, hd⟩)

/-- a segment beyond the MMR (no wrap-around) does not -/
theorem unprunedSize_zero (id : Ident) (N : Nat) (hh : id.height < 64)
    (hoff : id.idx * 2 ^ id.height < 2 ^ 64) (hlo : N ≤ id.idx * 2 ^ id.height) :
    id.unprunedSize (mmr N) = 0 := by
  rw [unprunedSize_mmr id N hh hoff, Nat.sub_eq_zero_of_le hlo]
  exact Nat.min_zero _

/-! ## positions of a local MMR -/

/-- where a local MMR with `n` leaves stands relative to an archive MMR of `N` leaves cut into
segments of height `h`, and the segment index that comes next: at the archive size, at a segment
boundary below it, or (`gen`: output / rangeproof / kernel of a fresh chain) at the genesis leaf -/
inductive Pos (gen : Bool) (h N : Nat) : Nat → Option Nat → Prop
  | done : Pos gen h N N none
  | boundary (k : Nat) : k * 2 ^ h < N → Pos gen h N (k * 2 ^ h) (some k)
  | genesis : gen = true → 1 < N → Pos gen h N 1 (some 0)

theorem Pos.le {gen : Bool} {h N n : Nat} {o : Option Nat} (p : Pos gen h N n o) : n ≤ N := by
  cases p with
  | done => exact Nat.le_refl _
  | boundary k hk => omega
  | genesis _ h1 => omega

theorem Pos.lt_of_some {gen : Bool} {h N n k : Nat} (p : Pos gen h N n (some k)) : n < N := by
  cases p with
  | boundary k hk => exact hk
  | genesis _ h1 => exact h1

theorem Pos.eq_of_none {gen : Bool} {h N n : Nat} (p : Pos gen h N n none) : n = N := by
  cases p; rfl

/-- the segment that comes next starts at or before the end of the local MMR and ends beyond it -/
theorem Pos.bounds {gen : Bool} {h N n k : Nat} (p : Pos gen h N n (some k)) (hh : gen = true → 1 ≤ h) :
    k * 2 ^ h ≤ n ∧ n < (k + 1) * 2 ^ h ∧ k * 2 ^ h < N := by
  have hp := pow_pos' h
  cases p with
  | boundary k hk => rw [Nat.succ_mul]; omega
  | genesis hg h1 =>
    have := Dsg.two_le_pow h (hh hg)
    omega

theorem ne_one_of_boundary (k h : Nat) (hh : 1 ≤ h) : k * 2 ^ h ≠ 1 := by
  have h2 := Dsg.two_le_pow h hh
  intro he
  cases k with
  | zero => simp at he
  | succ n => rw [Nat.succ_mul] at he; omega

theorem optIdx_ne {cur total : Nat} (h : cur ≠ total) : optIdx cur total = some cur := by
  unfold optIdx; rw [if_neg h]

theorem optIdx_self (c : Nat) : optIdx c c = none := by
  unfold optIdx; rw [if_pos rfl]

/-- `cur_segment_count` before the adjustment, for a local MMR of `n` leaves -/
theorem curSegmentCount_mmr (n h : Nat) (hh : h ≤ 61) (hn : n < 2 ^ 62) :
    curSegmentCount (mmr n) h = if n = 1 then 0 else Dsg.segCount n h := by
  unfold curSegmentCount
  simp only [mmr_eq_one, csr_mmr n h hh hn]

/-- the resume adjustment in leaf counts -/
theorem resumeAdjust_mmr (n c h : Nat) (hh : h ≤ 61) (hc : c * 2 ^ h < 2 ^ 63) :
    resumeAdjust (mmr n) c h = if n < c * 2 ^ h then c - 1 else c := by
  unfold resumeAdjust
  rw [pmmrSize_eq c h hh hc]
  by_cases hlt : n < c * 2 ^ h
  · rw [if_pos (mmr_lt_iff.mpr hlt), if_pos hlt]
    have hp := pow_pos' h
    have hc1 : 1 ≤ c := by
      cases c with
      | zero => simp at hlt
      | succ m => omega
    have : c ≤ c * 2 ^ h := Nat.le_mul_of_pos_right _ hp
    exact subW_small _ _ hc1 (by omega)
  · rw [if_neg (fun hx => hlt (mmr_lt_iff.mp hx)), if_neg hlt]

/-- `next_required_bitmap_segment_index` -/
theorem nextBitmap_pos (h N n : Nat) (o : Option Nat) (hh : h ≤ 61) (hN : N < 2 ^ 62)
    (p : Pos false h N n o) : nextRequiredBitmap h (mmr N) (mmr n) = o := by
  have hle := p.le
  unfold nextRequiredBitmap
  rw [csr_mmr n h hh (by omega), csr_mmr N h hh hN]
  cases p with
  | done => exact optIdx_self _
  | boundary k hk =>
    rw [Dsg.segCount_boundary]
    have := Dsg.lt_segCount k h N hk
    exact optIdx_ne (by omega)
  | genesis hg _ => cases hg

/-- `cur_segment_count` after the adjustment at a position where segments are missing -/
theorem cur_at_pos (h N n k : Nat) (hh : h ≤ 61) (h1 : 1 ≤ h) (hN : N < 2 ^ 62)
    (p : Pos true h N n (some k)) :
    curSegmentCount (mmr n) h = k ∧ resumeAdjust (mmr n) k h = k ∧ k < Dsg.segCount N h := by
  have hle := p.le
  have hp := pow_lt_62 h hh
  rw [curSegmentCount_mmr n h hh (by omega)]
  cases p with
  | boundary k hk =>
    have hlt := Dsg.lt_segCount k h N hk
    rw [if_neg (ne_one_of_boundary k h h1), Dsg.segCount_boundary,
      resumeAdjust_mmr _ k h hh (by omega), if_neg (Nat.lt_irrefl _)]
    exact ⟨rfl, rfl, hlt⟩
  | genesis _ hn =>
    have hpos := segCount_pos N h (by omega)
    rw [if_pos rfl, resumeAdjust_mmr _ 0 h hh (by omega), if_neg (by omega)]
    exact ⟨rfl, rfl, hpos⟩

/-- `next_required_kernel_segment_index` (archive MMR with at least two leaves) -/
theorem nextKernel_pos (h N n : Nat) (o : Option Nat) (hh : h ≤ 61) (h1 : 1 ≤ h) (hN : N < 2 ^ 62)
    (hN2 : 2 ≤ N) (p : Pos true h N n o) : nextRequiredKernel h (mmr N) (mmr n) = o := by
  unfold nextRequiredKernel
  simp only [csr_mmr N h hh hN]
  cases o with
  | none =>
    have := p.eq_of_none; subst this
    have e : (if n = 1 then 0 else Dsg.segCount n h) = Dsg.segCount n h := if_neg (by omega)
    rw [curSegmentCount_mmr n h hh hN, e, if_neg (fun hx => hx rfl)]
    exact optIdx_self _
  | some k =>
    obtain ⟨e1, e2, hlt⟩ := cur_at_pos h N n k hh h1 hN p
    rw [e1, if_pos (by omega), e2]
    exact optIdx_ne (by omega)

/-- `next_required_{output,rangeproof}_segment_index` while segments are missing -/
theorem nextPrunable_pos (h N n k : Nat) (hh : h ≤ 61) (h1 : 1 ≤ h) (hN : N < 2 ^ 62)
    (p : Pos true h N n (some k)) : nextRequiredPrunable h (mmr N) (mmr n) = some k := by
  unfold nextRequiredPrunable
  obtain ⟨e1, e2, hlt⟩ := cur_at_pos h N n k hh h1 hN p
  rw [e1, e2, csr_mmr N h hh hN]
  exact optIdx_ne (by omega)

/-- … and once the tree is complete: nothing if the last segment is full; otherwise the code keeps
naming the last segment (the reason `is_complete()` stays false; `check_progress` is what the
server uses) -/
theorem nextPrunable_done (h N : Nat) (hh : h ≤ 61) (h1 : 1 ≤ h) (hN : N < 2 ^ 62) (hN1 : 1 ≤ N) :
    (nextRequiredPrunable h (mmr N) (mmr N) = none ∧ N = Dsg.segCount N h * 2 ^ h) ∨
    (nextRequiredPrunable h (mmr N) (mmr N) = some (Dsg.segCount N h - 1) ∧
      (Dsg.segCount N h - 1) * 2 ^ h < N ∧ N < Dsg.segCount N h * 2 ^ h) := by
  have hpos := segCount_pos N h (by omega)
  have hge := segCount_ge N h
  have hlt := segCount_le N h
  have h2 := Dsg.two_le_pow h h1
  have hp := pow_lt_62 h hh
  have hsub : (Dsg.segCount N h - 1) * 2 ^ h = Dsg.segCount N h * 2 ^ h - 2 ^ h := by
    rw [Nat.sub_mul, Nat.one_mul]
  unfold nextRequiredPrunable
  rw [csr_mmr N h hh hN, curSegmentCount_mmr N h hh hN]
  by_cases hone : N = 1
  · subst hone
    right
    have hs : Dsg.segCount 1 h = 1 := by
      have b : Dsg.segCount 1 h * 2 ^ h < 2 * 2 ^ h := by omega
      have := Nat.lt_of_mul_lt_mul_right b
      omega
    rw [if_pos rfl, resumeAdjust_mmr 1 0 h hh (by omega), if_neg (by omega), hs]
    exact ⟨optIdx_ne (by omega), by omega, by omega⟩
  · rw [if_neg hone, resumeAdjust_mmr N _ h hh (by omega)]
    by_cases hfull : N = Dsg.segCount N h * 2 ^ h
    · left
      rw [if_neg (by omega)]
      exact ⟨optIdx_self _, hfull⟩
    · right
      rw [if_pos (by omega)]
      exact ⟨optIdx_ne (by omega), by omega, by omega⟩

/-! ## `cur_segment_count -= 1` never wraps (for **every** size and height) -/

/-- `pmmr_size(0, h) = 0`: the resume adjustment is never taken at `cur_segment_count = 0` -/
theorem pmmrSize_zero (h : Nat) : pmmrSize 0 h = 0 := by
  unfold pmmrSize mulW ins2pmmrW mulW subW
  simp [popcount]

/-! ## `segment_pos_range` of the segment that comes next -/

/-- the last position of a full segment lies inside the MMR that ends with the segment -/
theorem lastOf_lt (id : Ident) : lastOf id < mmr ((id.idx + 1) * 2 ^ id.height) := by
  unfold lastOf
  have hpos := pow_pos' id.height
  have e : (id.idx + 1) * 2 ^ id.height = (id.idx * 2 ^ id.height + (2 ^ id.height - 1)) + 1 := by
    rw [Nat.succ_mul]; omega
  have ht := trailingOnes_full id.height id.idx
  rw [e, mmr_succ]
  omega

/-- the range of a segment that lies completely inside the first `m` leaves ends before `mmr m` -/
theorem posRange_last_lt (id : Ident) (N m : Nat) (hh : id.height ≤ 61) (hN : N < 2 ^ 62)
    (hm : (id.idx + 1) * 2 ^ id.height ≤ m) (hmN : m ≤ N) : (id.posRange (mmr N)).2 < mmr m := by
  have v : FullId id (mmr N) := ⟨by omega, by rw [nLeaves_mmr]; omega, by rw [nLeaves_mmr]; exact hN⟩
  rw [(full_arith id (mmr N) v).2.2.2]
  exact Nat.lt_of_lt_of_le (lastOf_lt id) (Co.mmr_le_mmr hm)

/-- the range of a segment whose first leaf exists ends at or after the first position of that leaf -/
theorem posRange_last_ge (id : Ident) (N : Nat) (hh : id.height ≤ 61) (hN : N < 2 ^ 62)
    (hlo : id.idx * 2 ^ id.height < N) : mmr (id.idx * 2 ^ id.height) ≤ (id.posRange (mmr N)).2 := by
  by_cases hfit : (id.idx + 1) * 2 ^ id.height ≤ N
  · have v : FullId id (mmr N) := ⟨by omega, by rw [nLeaves_mmr]; exact hfit, by rw [nLeaves_mmr]; exact hN⟩
    rw [(full_arith id (mmr N) v).2.2.2]
    unfold lastOf
    have := Co.mmr_le_mmr (show id.idx * 2 ^ id.height ≤ id.idx * 2 ^ id.height + (2 ^ id.height - 1) by omega)
    simp only
    omega
  · have v : FinalId id N := ⟨by omega, hlo, by omega, hN⟩
    rw [(final_arith id N v).2.2.2.2]
    have := Co.mmr_lt_mmr hlo
    simp only
    omega

/-- the range of the final, not full segment ends at the last position of the MMR -/
theorem posRange_last_final (id : Ident) (N : Nat) (hh : id.height ≤ 61) (hN : N < 2 ^ 62)
    (hlo : id.idx * 2 ^ id.height < N) (hhi : N < (id.idx + 1) * 2 ^ id.height) :
    (id.posRange (mmr N)).2 = mmr N - 1 := by
  have v : FinalId id N := ⟨by omega, hlo, hhi, hN⟩
  rw [(final_arith id N v).2.2.2.2]

end GV.Deseg
