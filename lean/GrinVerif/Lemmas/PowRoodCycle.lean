import GrinVerif.Lemmas.PowRood
/-! Cuckarood: an accepted walk is one simple, direction-alternating cycle through all edges. -/
namespace GV.Pow

theorem roodWalk_trace (step : Nat → Except Err Nat) (size : Nat) :
    ∀ f i n m, roodWalk step size f i n = .ok m → ∃ tr, Trace step i tr ∧ m = n + tr.length := by
  intro f
  induction f with
  | zero => intro i n m h; simp [roodWalk] at h
  | succ f ih =>
    intro i n m h
    unfold roodWalk at h
    cases hs : step i with
    | error e => simp [hs] at h
    | ok i' =>
      simp only [hs] at h
      by_cases h0 : i' = 0
      · simp only [h0, if_true] at h
        injection h with h
        refine ⟨[i], ⟨by simp, by simp, ?_, ?_⟩, by simp [← h]⟩
        · intro t ht; simp at ht
        · simp [hs, h0]
      · simp only [h0, if_false] at h
        by_cases hc : n + 1 ≥ size
        · simp [hc] at h
        · simp only [hc, if_false] at h
          obtain ⟨tr, htr, hm⟩ := ih i' (n+1) m h
          refine ⟨i :: tr, ⟨by simp, by simp, ?_, ?_⟩, by simp [hm]; omega⟩
          · intro t ht
            cases t with
            | zero =>
              simp only [List.getD_cons_zero, List.getD_cons_succ, htr.head]
              exact ⟨hs, h0⟩
            | succ t =>
              simp only [List.getD_cons_succ]
              exact htr.chain t (by simpa using ht)
          · have hp := htr.pos
            have : (i :: tr).length - 1 = (tr.length - 1) + 1 := by simp; omega
            rw [this, List.getD_cons_succ]
            exact htr.last

/-- the repaired walk always terminates: with `size + 1` fuel the outer loop never runs out of
fuel (it can only pass on a `hang` of the inner search) -/
theorem roodWalk_no_hang (step : Nat → Except Err Nat) (size : Nat)
    (hstep : ∀ j, step j ≠ .error .hang) :
    ∀ f i n, size ≤ f + n → 1 ≤ f → roodWalk step size f i n ≠ .error .hang := by
  intro f
  induction f with
  | zero => intro i n _ h; omega
  | succ f ih =>
    intro i n hs _
    unfold roodWalk
    cases hst : step i with
    | error e =>
      simp only
      intro h
      injection h with h
      exact hstep i (by rw [hst, h])
    | ok i' =>
      simp only
      by_cases h0 : i' = 0
      · simp [h0]
      · simp only [h0, if_false]
        by_cases hc : n + 1 ≥ size
        · simp [hc]
        · simp only [hc, if_false]
          exact ih i' (n+1) (by omega) (by omega)

theorem Trace.cyc_chain {step : Nat → Except Err Nat} {tr : List Nat} {L : Nat}
    (htr : Trace step 0 tr) (hlen : tr.length = L) (t : Nat) (ht : t < L) :
    step (tr.getD t 0) = .ok (tr.getD ((t + 1) % L) 0) := by
  by_cases hl : t + 1 < L
  · rw [Nat.mod_eq_of_lt hl]; exact (htr.chain t (by omega)).1
  · have e : t + 1 = L := by omega
    have e2 : tr.length - 1 = t := by omega
    have := htr.last
    rw [e2] at this
    rw [e, Nat.mod_self, htr.head]; exact this

theorem cntBelow_pos (f : Nat → Bool) : ∀ n, 0 < cntBelow f n →
    ∃ e, e < n ∧ f e = true ∧ cntBelow f e = 0 := by
  intro n
  induction n with
  | zero => intro h; simp [cntBelow] at h
  | succ n ih =>
    intro h
    by_cases hp : 0 < cntBelow f n
    · obtain ⟨e, a, b, c⟩ := ih hp; exact ⟨e, by omega, b, c⟩
    · have hz : cntBelow f n = 0 := by omega
      by_cases hf : f n = true
      · exact ⟨n, by omega, hf, hz⟩
      · simp [cntBelow, hz, hf] at h

theorem cntBelow_split (ns : List Nat) : ∀ n,
    cntBelow (fun e => dirF ns e == 0) n + cntBelow (fun e => dirF ns e == 1) n = n := by
  intro n
  induction n with
  | zero => simp [cntBelow]
  | succ n ih =>
    have := dirF_lt ns n
    simp only [cntBelow]
    by_cases hz : dirF ns n = 0
    · simp [hz]; omega
    · have : dirF ns n = 1 := by omega
      simp [this]; omega

theorem cntBelow_cons (q : Nat → Bool) (x : Nat) (l : List Nat) : ∀ n,
    cntBelow (fun e => q ((x :: l).getD e 0)) (n+1) =
      (if q x then 1 else 0) + cntBelow (fun e => q (l.getD e 0)) n := by
  intro n
  induction n with
  | zero => simp [cntBelow]
  | succ n ih =>
    rw [cntBelow, ih]
    simp only [cntBelow, List.getD_cons_succ]
    omega

theorem cntBelow_countP (q : Nat → Bool) : ∀ l : List Nat,
    cntBelow (fun e => q (l.getD e 0)) l.length = l.countP q := by
  intro l
  induction l with
  | nil => simp [cntBelow]
  | cons x l ih =>
    rw [List.length_cons, cntBelow_cons, ih, List.countP_cons]
    omega


theorem slotNode_side (ep : Nat → Nat × Nat) (ns : List Nat) (e d : Nat) (he : e < ns.length)
    (hd : d < 2) : slotNode (ns.map ep) (2 * e + d) = sideNode ep ns d e := by
  have := uvF_even ep ns e he
  have := uvF_odd ep ns e he
  unfold uvF at *
  unfold sideNode frmF toF
  by_cases hz : d = 0
  · subst hz; simpa using ‹slotNode (ns.map ep) (2 * e) = _›
  · have : d = 1 := by omega
    subst this; simpa using ‹slotNode (ns.map ep) (2 * e + 1) = _›

theorem rood_balance (ns : List Nat) (ep : Nat → Nat × Nat)
    (h : cntBelow (fun e => dirF ns e == 0) ns.length = cntBelow (fun e => dirF ns e == 1) ns.length) :
    ((ns.map (fun x => (x % 2, ep x))).filter (fun d => d.1 = 0)).length =
      ((ns.map (fun x => (x % 2, ep x))).filter (fun d => d.1 ≠ 0)).length := by
  have f0 : (fun e => dirF ns e == 0) = (fun e => (fun x => decide (x % 2 = 0)) (ns.getD e 0)) := by
    funext e
    show (ns.getD e 0 % 2 == 0) = decide (ns.getD e 0 % 2 = 0)
    generalize ns.getD e 0 % 2 = y
    by_cases hy : y = 0 <;> simp [hy]
  have f1 : (fun e => dirF ns e == 1) = (fun e => (fun x => decide (x % 2 ≠ 0)) (ns.getD e 0)) := by
    funext e
    show (ns.getD e 0 % 2 == 1) = decide (ns.getD e 0 % 2 ≠ 0)
    have hlt : ns.getD e 0 % 2 < 2 := Nat.mod_lt _ (by omega)
    generalize ns.getD e 0 % 2 = y at hlt
    by_cases hy : y = 0
    · simp [hy]
    · have : y = 1 := by omega
      simp [this]
  rw [f0, f1, cntBelow_countP (fun x => decide (x % 2 = 0)) ns,
    cntBelow_countP (fun x => decide (x % 2 ≠ 0)) ns] at h
  rw [← List.countP_eq_length_filter, ← List.countP_eq_length_filter, List.countP_map, List.countP_map]
  exact h

theorem rood_cycle (P : Params) (ep : Nat → Nat × Nat) (ns : List Nat) (s : RoodSt)
    (hbk : ∀ x, P.bk x % 2 = x % 2) (inv : RoodInv P ep ns ns.length s) (tr : List Nat)
    (htr : Trace (roodStep P ns.length s) 0 tr) (hlen : tr.length = ns.length) :
    IsProofCycleCuckarood (ns.map (fun x => (x % 2, ep x))) := by
  have hL : 0 < ns.length := hlen ▸ htr.pos
  have hsplit := cntBelow_split ns ns.length
  have hb0 := inv.bal.1
  have hb1 := inv.bal.2
  rw [inv.nd0] at hb0
  rw [inv.nd1] at hb1
  have hceq : cntBelow (fun e => dirF ns e == 0) ns.length = cntBelow (fun e => dirF ns e == 1) ns.length := by
    omega
  have hcpos : 0 < cntBelow (fun e => dirF ns e == 0) ns.length := by omega
  obtain ⟨e0, he0, hf0, hc0⟩ := cntBelow_pos _ _ hcpos
  have hd0 : dirF ns e0 = 0 := by simpa using hf0
  have hent0 : ent ns e0 = 0 := by
    unfold ent slotOf; rw [hd0, hc0]
  -- every entry of the trace is the entry slot of an edge
  have hB : ∀ t, t < ns.length → ∃ e, e < ns.length ∧ tr.getD t 0 = ent ns e := by
    intro t
    induction t with
    | zero => intro _; exact ⟨e0, he0, by rw [htr.head, hent0]⟩
    | succ t ih =>
      intro ht
      obtain ⟨e, he, hte⟩ := ih (by omega)
      have hc := (htr.chain t (by omega)).1
      rw [hte] at hc
      obtain ⟨e2, h2, _, _, _, h6⟩ := roodStep_ent P ep ns s hbk inv e _ he hc
      exact ⟨e2, h2, h6⟩
  let eo : Nat → Nat := fun t => if h : t < ns.length then Classical.choose (hB t h) else 0
  have heo : ∀ t, t < ns.length → eo t < ns.length ∧ tr.getD t 0 = ent ns (eo t) := by
    intro t ht
    have := Classical.choose_spec (hB t ht)
    simp only [eo, ht, dif_pos]
    exact this
  have heo_inj : ∀ a b, a < ns.length → b < ns.length → eo a = eo b → a = b := by
    intro a b ha hb h
    apply htr.inj (by omega) (by omega)
    rw [(heo a ha).2, (heo b hb).2, h]
  have hS : ∀ t, t < ns.length →
      dirF ns (eo ((t+1) % ns.length)) ≠ dirF ns (eo t) ∧
      sideNode ep ns (dirF ns (eo t)) (eo ((t+1) % ns.length)) = sideNode ep ns (dirF ns (eo t)) (eo t) ∧
      ∀ e', e' < ns.length → dirF ns e' ≠ dirF ns (eo t) →
        sideNode ep ns (dirF ns (eo t)) e' = sideNode ep ns (dirF ns (eo t)) (eo t) →
        e' = eo ((t+1) % ns.length) := by
    intro t ht
    have hc := htr.cyc_chain hlen t ht
    rw [(heo t ht).2] at hc
    obtain ⟨e2, h2, h3, h4, h5, h6⟩ := roodStep_ent P ep ns s hbk inv (eo t) _ (heo t ht).1 hc
    have hm : (t + 1) % ns.length < ns.length := Nat.mod_lt _ hL
    rw [(heo _ hm).2] at h6
    have := ent_inj ns _ _ h6
    rw [this]
    exact ⟨h3, h4, h5⟩
  have hdl : (ns.map (fun x => (x % 2, ep x))).length = ns.length := by simp
  have hes : (ns.map (fun x => (x % 2, ep x))).map (·.2) = ns.map ep := by
    simp [List.map_map, Function.comp_def]
  have hdir : ∀ e, e < ns.length →
      ((ns.map (fun x => (x % 2, ep x))).getD e (0, (0, 0))).1 = dirF ns e := by
    intro e he
    simp [dirF, List.getD_eq_getElem?_getD, he]
  have hcg : ∀ t, t < ns.length →
      ((List.range ns.length).map (fun t => 2 * eo t + dirF ns (eo t))).getD t 0 =
        2 * eo t + dirF ns (eo t) := by
    intro t ht
    simp [List.getD_eq_getElem?_getD, ht]
  refine ⟨rood_balance ns ep hceq, (List.range ns.length).map (fun t => 2 * eo t + dirF ns (eo t)), ?_⟩
  simp only [hes, hdl]
  refine ⟨by simp, ?_, ?_, ?_⟩
  · -- every edge exactly once
    have hmap : ((List.range ns.length).map (fun t => 2 * eo t + dirF ns (eo t))).map (· / 2) =
        (List.range ns.length).map eo := by
      rw [List.map_map]
      apply List.map_congr_left
      intro t _
      have := dirF_lt ns (eo t)
      simp only [Function.comp]
      omega
    rw [hmap]
    apply perm_range_of_nodup
    · rw [List.Nodup, List.pairwise_map, List.pairwise_iff_getElem]
      intro a b ha hb hab h
      simp only [List.length_range] at ha hb
      simp only [List.getElem_range] at h
      have := heo_inj a b ha hb h
      omega
    · intro x hx
      obtain ⟨t, ht, rfl⟩ := List.mem_map.mp hx
      exact (heo t (List.mem_range.mp ht)).1
    · simp
  · -- consecutive edges meet in a vertex, with opposite directions
    intro t ht
    have hm : (t + 1) % ns.length < ns.length := Nat.mod_lt _ hL
    obtain ⟨s1, s2, _⟩ := hS t ht
    rw [hcg t ht, hcg _ hm]
    have d1 := dirF_lt ns (eo t)
    have d2 := dirF_lt ns (eo ((t+1) % ns.length))
    have hx : (2 * eo ((t+1) % ns.length) + dirF ns (eo ((t+1) % ns.length))) ^^^ 1 =
        2 * eo ((t+1) % ns.length) + dirF ns (eo t) := by
      rw [xor_one_eq]; split <;> omega
    rw [hx]
    refine ⟨by unfold sameSide; omega, ?_, ?_⟩
    · rw [slotNode_side ep ns _ _ (heo t ht).1 d1, slotNode_side ep ns _ _ (heo _ hm).1 d1, s2]
    · have q1 : (2 * eo t + dirF ns (eo t)) / 2 = eo t := by omega
      have q2 : (2 * eo ((t+1) % ns.length) + dirF ns (eo t)) / 2 = eo ((t+1) % ns.length) := by omega
      rw [q1, q2, hdir _ (heo t ht).1, hdir _ (heo _ hm).1]
      exact fun h => s1 h.symm
  · -- no vertex twice
    intro a b ha hb hab ⟨hs, hn⟩
    rw [hcg a ha, hcg b hb] at hs hn
    have d1 := dirF_lt ns (eo a)
    have d2 := dirF_lt ns (eo b)
    have hd : dirF ns (eo a) = dirF ns (eo b) := by unfold sameSide at hs; omega
    rw [slotNode_side ep ns _ _ (heo a ha).1 d1, slotNode_side ep ns _ _ (heo b hb).1 d2, ← hd] at hn
    have hma : (a + 1) % ns.length < ns.length := Nat.mod_lt _ hL
    have hmb : (b + 1) % ns.length < ns.length := Nat.mod_lt _ hL
    obtain ⟨_, _, ua⟩ := hS a ha
    obtain ⟨b1, b2, _⟩ := hS b hb
    rw [← hd] at b1 b2
    have := ua (eo ((b+1) % ns.length)) (heo _ hmb).1 b1 (by rw [b2, hn])
    have := heo_inj _ _ hmb hma this
    by_cases h1 : a + 1 < ns.length
    · by_cases h2 : b + 1 < ns.length
      · rw [Nat.mod_eq_of_lt h1, Nat.mod_eq_of_lt h2] at this; omega
      · have e2 : b + 1 = ns.length := by omega
        rw [Nat.mod_eq_of_lt h1, e2, Nat.mod_self] at this; omega
    · have e1 : a + 1 = ns.length := by omega
      by_cases h2 : b + 1 < ns.length
      · rw [Nat.mod_eq_of_lt h2, e1, Nat.mod_self] at this; omega
      · omega

end GV.Pow
