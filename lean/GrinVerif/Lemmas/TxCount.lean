import GrinVerif.Model.TxCount
/-! Invariant of the open-transaction counter protocol (`Model/TxCount.lean`) under atomic
updates, and the facts about the concrete stuck state used by `lost_decrement_witness`. -/
namespace GV.TxCount

def total (l : List Th) : Nat := (l.map (·.opened)).sum

theorem total_setTh : ∀ (t : Nat) (y : Th) (l : List Th), t < l.length →
    total (setTh t y l) + (thOf t l).opened = total l + y.opened
  | _, _, [], h => by simp at h
  | 0, y, x :: r, _ => by simp [setTh, thOf, total]; omega
  | t+1, y, x :: r, h => by
    have ih := total_setTh t y r (by simpa using h)
    simp only [total, setTh, thOf, List.map_cons, List.sum_cons] at ih ⊢
    omega

theorem opened_le_total : ∀ (t : Nat) (l : List Th), (thOf t l).opened ≤ total l
  | _, [] => by simp [thOf, total]
  | 0, x :: r => by simp [thOf, total]
  | t+1, x :: r => by
    have := opened_le_total t r
    simp only [total, thOf, List.map_cons, List.sum_cons] at this ⊢
    omega

theorem length_setTh : ∀ (t : Nat) (y : Th) (l : List Th), (setTh t y l).length = l.length
  | _, _, [] => by simp [setTh]
  | 0, _, _ :: _ => by simp [setTh]
  | t+1, y, _ :: r => by simp [setTh, length_setTh t y r]

theorem mem_setTh : ∀ (t : Nat) (y : Th) (l : List Th) (x : Th), x ∈ setTh t y l → x = y ∨ x ∈ l
  | _, _, [], x, h => by simp [setTh] at h
  | 0, y, _ :: r, x, h => by
    simp only [setTh, List.mem_cons] at h ⊢
    rcases h with h | h
    · exact Or.inl h
    · exact Or.inr (Or.inr h)
  | t+1, y, z :: r, x, h => by
    simp only [setTh, List.mem_cons] at h ⊢
    rcases h with h | h
    · exact Or.inr (Or.inl h)
    · rcases mem_setTh t y r x h with h | h
      · exact Or.inl h
      · exact Or.inr (Or.inr h)

theorem thOf_mem : ∀ (t : Nat) (l : List Th), t < l.length → thOf t l ∈ l
  | _, [], h => by simp at h
  | 0, x :: r, _ => by simp [thOf]
  | t+1, x :: r, h => by
    have := thOf_mem t r (by simpa using h)
    simp [thOf, this]

/-- the invariant of the atomic protocol: the counter is the number of open transactions and no
decrement is ever half done -/
structure Inv (s : St) : Prop where
  count : s.counter = total s.ths
  noreg : ∀ th ∈ s.ths, th.reg = none

theorem inv_init (n : Nat) : Inv (init n) := by
  refine ⟨?_, ?_⟩
  · simp only [init, total]
    induction n with
    | zero => rfl
    | succ n ih =>
      simp only [List.replicate_succ, List.map_cons, List.sum_cons] at ih ⊢
      omega
  · intro th h
    simp only [init, List.mem_replicate] at h
    rw [h.2]

theorem inv_step (s : St) (a : Act) (inv : Inv s) (ha : a.atomic = true) (he : enabled s a = true) :
    Inv (step s a) := by
  cases a with
  | enter t =>
    simp only [enabled, Bool.and_eq_true, decide_eq_true_eq] at he
    have hs := total_setTh t { thOf t s.ths with opened := (thOf t s.ths).opened + 1 } s.ths he.1
    refine ⟨?_, ?_⟩
    · simp only [step]
      have := inv.count
      simp only at hs
      omega
    · intro th hm
      simp only [step] at hm
      rcases mem_setTh _ _ _ _ hm with h | h
      · rw [h]; exact inv.noreg (thOf t s.ths) (thOf_mem t s.ths he.1)
      · exact inv.noreg _ h
  | leave t =>
    simp only [enabled, Bool.and_eq_true, decide_eq_true_eq] at he
    have hs := total_setTh t { thOf t s.ths with opened := (thOf t s.ths).opened - 1 } s.ths he.1.1
    have hle := opened_le_total t s.ths
    refine ⟨?_, ?_⟩
    · simp only [step]
      have := inv.count
      have hpos := he.1.2
      simp only at hs
      omega
    · intro th hm
      simp only [step] at hm
      rcases mem_setTh _ _ _ _ hm with h | h
      · rw [h]; exact inv.noreg (thOf t s.ths) (thOf_mem t s.ths he.1.1)
      · exact inv.noreg _ h
  | load t => simp [Act.atomic] at ha
  | store t => simp [Act.atomic] at ha
  | leaveForget t => simp [Act.atomic] at ha
  | request => exact ⟨inv.count, inv.noreg⟩
  | resize => exact ⟨inv.count, inv.noreg⟩

theorem inv_run : ∀ (acts : List Act) (s s' : St), Inv s → (∀ a ∈ acts, a.atomic = true) →
    runChecked s acts = some s' → Inv s'
  | [], s, s', inv, _, h => by
    simp only [runChecked, Option.some.injEq] at h
    exact h ▸ inv
  | a :: r, s, s', inv, hat, h => by
    simp only [runChecked] at h
    by_cases he : enabled s a = true
    · simp only [he, if_true] at h
      exact inv_run r (step s a) s' (inv_step s a inv (hat a (by simp)) he)
        (fun b hb => hat b (by simp [hb])) h
    · simp [he] at h

theorem total_zero_of_quiescent : ∀ (l : List Th), l.all (fun th => th.opened == 0 && th.reg.isNone) = true →
    total l = 0
  | [], _ => rfl
  | x :: r, h => by
    simp only [List.all_cons, Bool.and_eq_true, beq_iff_eq] at h
    have := total_zero_of_quiescent r h.2
    simp only [total, List.map_cons, List.sum_cons] at this ⊢
    omega

/-- the state reached by the lost-update schedule: both readers are gone, the counter says one
transaction is open, a resize has been requested -/
def stuckState : St :=
  { counter := 1, resizing := true, resizes := 0, ths := [{}, {}] }

theorem thOf_two_default (t : Nat) : thOf t [({} : Th), {}] = {} := by
  match t with
  | 0 => rfl
  | 1 => rfl
  | t+2 => simp [thOf]

/-- in `stuckState` nothing can move: nobody can enter (a resize is pending), nobody has anything
to leave, and the resize waits for a counter that no transition will ever change -/
theorem stuckState_dead (a : Act) : enabled stuckState a = false := by
  cases a <;> simp [enabled, stuckState, thOf_two_default]

/-! ### per-thread nesting depth -/

theorem thOf_setTh_same : ∀ (t : Nat) (y : Th) (l : List Th), t < l.length → thOf t (setTh t y l) = y
  | _, _, [], h => by simp at h
  | 0, _, _ :: _, _ => rfl
  | t+1, y, _ :: r, h => by
    simp only [setTh, thOf]
    exact thOf_setTh_same t y r (by simpa using h)

theorem thOf_setTh_ne : ∀ (t u : Nat) (y : Th) (l : List Th), t ≠ u → thOf t (setTh u y l) = thOf t l
  | _, _, _, [], _ => by simp [setTh]
  | 0, 0, _, _ :: _, h => absurd rfl h
  | 0, u+1, _, _ :: _, _ => rfl
  | t+1, 0, _, _ :: _, _ => rfl
  | t+1, u+1, y, _ :: r, h => by
    simp only [setTh, thOf]
    exact thOf_setTh_ne t u y r (by omega)

theorem length_step (s : St) (a : Act) : (step s a).ths.length = s.ths.length := by
  cases a <;> simp only [step, length_setTh]
  case store t =>
    cases (thOf t s.ths).reg <;> simp [length_setTh]

theorem length_run : ∀ (acts : List Act) (s s' : St), runChecked s acts = some s' → s'.ths.length = s.ths.length
  | [], s, s', h => by simp only [runChecked, Option.some.injEq] at h; rw [← h]
  | a :: r, s, s', h => by
    simp only [runChecked] at h
    by_cases he : enabled s a = true
    · simp only [he, if_true] at h
      rw [length_run r _ _ h, length_step]
    · simp [he] at h

/-- one atomic step moves the depth of thread `t` exactly as the schedule says -/
theorem depth_step (s : St) (a : Act) (t : Nat) (ha : a.atomic = true) (he : enabled s a = true) :
    depth (step s a) t = opensFrom t (depth s t) [a] := by
  cases a with
  | enter u =>
    simp only [enabled, Bool.and_eq_true, decide_eq_true_eq] at he
    by_cases hu : u = t
    · subst hu
      simp [depth, step, opensFrom, thOf_setTh_same _ _ _ he.1]
    · have : t ≠ u := fun h => hu h.symm
      simp [depth, step, opensFrom, hu, thOf_setTh_ne _ _ _ _ this]
  | leave u =>
    simp only [enabled, Bool.and_eq_true, decide_eq_true_eq] at he
    by_cases hu : u = t
    · subst hu
      simp [depth, step, opensFrom, thOf_setTh_same _ _ _ he.1.1]
    · have : t ≠ u := fun h => hu h.symm
      simp [depth, step, opensFrom, hu, thOf_setTh_ne _ _ _ _ this]
  | load u => simp [Act.atomic] at ha
  | store u => simp [Act.atomic] at ha
  | leaveForget u => simp [Act.atomic] at ha
  | request => simp [depth, step, opensFrom]
  | resize => simp [depth, step, opensFrom]

theorem opensFrom_cons (t k : Nat) (a : Act) (r : List Act) :
    opensFrom t k (a :: r) = opensFrom t (opensFrom t k [a]) r := by
  cases a <;> simp [opensFrom]

theorem depth_run : ∀ (acts : List Act) (s s' : St) (t : Nat), (∀ a ∈ acts, a.atomic = true) →
    runChecked s acts = some s' → depth s' t = opensFrom t (depth s t) acts
  | [], s, s', t, _, h => by
    simp only [runChecked, Option.some.injEq] at h
    rw [← h]; rfl
  | a :: r, s, s', t, hat, h => by
    simp only [runChecked] at h
    by_cases he : enabled s a = true
    · simp only [he, if_true] at h
      rw [depth_run r (step s a) s' t (fun b hb => hat b (by simp [hb])) h,
        depth_step s a t (hat a (by simp)) he, ← opensFrom_cons]
    · simp [he] at h

theorem depth_init (n t : Nat) : depth (init n) t = 0 := by
  simp only [depth, init]
  induction n generalizing t with
  | zero => simp [thOf]
  | succ n ih =>
    cases t with
    | zero => rfl
    | succ t => simpa [List.replicate_succ, thOf] using ih t

/-- some thread holds a transaction when the total is positive -/
theorem exists_pos_of_total_pos : ∀ (l : List Th), 0 < total l → ∃ t, t < l.length ∧ (thOf t l).opened > 0
  | [], h => by simp [total] at h
  | x :: r, h => by
    by_cases hx : x.opened > 0
    · exact ⟨0, by simp, by simpa [thOf] using hx⟩
    · have hr : 0 < total r := by
        simp only [total, List.map_cons, List.sum_cons] at h ⊢
        omega
      obtain ⟨t, ht, hp⟩ := exists_pos_of_total_pos r hr
      exact ⟨t + 1, by simpa using ht, by simpa [thOf] using hp⟩

/-! ### a nested enter/leave pair under an open outer transaction restores the state exactly -/

theorem setTh_setTh : ∀ (t : Nat) (y z : Th) (l : List Th), setTh t z (setTh t y l) = setTh t z l
  | _, _, _, [] => by simp [setTh]
  | 0, _, _, _ :: _ => rfl
  | t+1, y, z, x :: r => by simp [setTh, setTh_setTh t y z r]

theorem setTh_self : ∀ (t : Nat) (l : List Th), setTh t (thOf t l) l = l
  | _, [] => by simp [setTh]
  | 0, _ :: _ => rfl
  | t+1, x :: r => by simp [setTh, thOf, setTh_self t r]

theorem pair_restores (s : St) (t : Nat) (ht : t < s.ths.length) :
    step (step s (.enter t)) (.leave t) = s := by
  have h1 : thOf t (setTh t { thOf t s.ths with opened := (thOf t s.ths).opened + 1 } s.ths)
      = { thOf t s.ths with opened := (thOf t s.ths).opened + 1 } := thOf_setTh_same _ _ _ ht
  cases s with
  | mk counter resizing resizes ths =>
    simp only [step] at h1 ⊢
    rw [h1]
    simp only [setTh_setTh, Nat.add_sub_cancel]
    congr 1
    exact setTh_self t ths

/-- `k` consecutive nested operations (each a complete enter/leave pair) of thread `t` -/
def nestedPairs (t : Nat) : Nat → List Act
  | 0 => []
  | k+1 => .enter t :: .leave t :: nestedPairs t k

theorem run_nestedPairs (s : St) (t : Nat) (ht : t < s.ths.length) (hd : 0 < depth s t)
    (hreg : (thOf t s.ths).reg = none) : ∀ k, runChecked s (nestedPairs t k) = some s
  | 0 => rfl
  | k+1 => by
    have he1 : enabled s (.enter t) = true := by
      simp only [enabled, Bool.and_eq_true, decide_eq_true_eq, Bool.or_eq_true, Bool.not_eq_true']
      exact ⟨ht, Or.inr hd⟩
    have hth : thOf t (step s (.enter t)).ths = { thOf t s.ths with opened := (thOf t s.ths).opened + 1 } := by
      simp only [step]; exact thOf_setTh_same _ _ _ ht
    have he2 : enabled (step s (.enter t)) (.leave t) = true := by
      simp only [enabled, hth, length_step, Bool.and_eq_true, decide_eq_true_eq]
      exact ⟨⟨ht, by omega⟩, by simp [hreg]⟩
    simp only [nestedPairs, runChecked, he1, he2, if_true, pair_restores s t ht]
    exact run_nestedPairs s t ht hd hreg k

theorem runChecked_append : ∀ (a b : List Act) (s : St),
    runChecked s (a ++ b) = (runChecked s a).bind (fun s' => runChecked s' b)
  | [], _, _ => rfl
  | x :: r, b, s => by
    simp only [List.cons_append, runChecked]
    by_cases he : enabled s x = true
    · simp only [he, if_true]; exact runChecked_append r b _
    · simp [he]

end GV.TxCount
