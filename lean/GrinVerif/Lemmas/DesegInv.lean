import GrinVerif.Lemmas.DesegArith
/-! The invariant of the desegmenter state machine (`Model/Deseg.lean`) and its preservation by
`add_*_segment`, `apply_next_segments`, `next_desired_segments`; monotonicity and progress of
`apply_next_segments`.  Core Lean only. -/
namespace GV.Deseg
open GV GV.Pmmr GV.Seg

/-! ## caches -/

theorem hasId_iff (cache : List Cached) (id : Ident) :
    hasId cache id = true ↔ ∃ c ∈ cache, c.id = id := by
  unfold hasId
  simp [List.any_eq_true]

theorem mem_cacheSeg (cache : List Cached) (y x : Cached) (h : x ∈ cacheSeg cache y) :
    x ∈ cache ∨ x = y := by
  unfold cacheSeg at h
  split at h
  · exact Or.inl h
  · rcases List.mem_append.mp h with h | h
    · exact Or.inl h
    · simp only [List.mem_singleton] at h; exact Or.inr h

theorem cacheSeg_sub (cache : List Cached) (y x : Cached) (h : x ∈ cache) : x ∈ cacheSeg cache y := by
  unfold cacheSeg
  split
  · exact h
  · exact List.mem_append_left _ h

theorem hasId_cacheSeg (cache : List Cached) (y : Cached) : hasId (cacheSeg cache y) y.id = true := by
  unfold cacheSeg
  split
  · assumption
  · rw [hasId_iff]; exact ⟨y, List.mem_append_right _ (List.mem_singleton.mpr rfl), rfl⟩

/-- caching is idempotent: a second segment with the same identifier (whatever its content) is dropped -/
theorem cacheSeg_idem (cache : List Cached) (y z : Cached) (h : z.id = y.id) :
    cacheSeg (cacheSeg cache y) z = cacheSeg cache y := by
  have hh := hasId_cacheSeg cache y
  rw [← h] at hh
  have e : cacheSeg (cacheSeg cache y) z =
      if hasId (cacheSeg cache y) z.id then cacheSeg cache y else cacheSeg cache y ++ [z] := rfl
  rw [e, if_pos hh]

theorem removeFirstIdx_some (cache : List Cached) (n : Nat) (h : ∃ c ∈ cache, c.id.idx = n) :
    ∃ s rest, removeFirstIdx cache n = some (s, rest) ∧ s ∈ cache ∧ s.id.idx = n ∧
      (∀ x ∈ rest, x ∈ cache) := by
  induction cache with
  | nil => obtain ⟨c, hc, _⟩ := h; cases hc
  | cons c cs ih =>
    by_cases hc : c.id.idx = n
    · exact ⟨c, cs, by simp [removeFirstIdx, hc], List.mem_cons_self, hc,
        fun x hx => List.mem_cons_of_mem _ hx⟩
    · obtain ⟨c', hc', hi⟩ := h
      have : ∃ c ∈ cs, c.id.idx = n := by
        rcases List.mem_cons.mp hc' with he | he
        · subst he; exact absurd hi hc
        · exact ⟨c', he, hi⟩
      obtain ⟨s, rest, hr, hs, hsi, hrest⟩ := ih this
      refine ⟨s, c :: rest, by simp [removeFirstIdx, hc, hr], List.mem_cons_of_mem _ hs, hsi, ?_⟩
      intro x hx
      rcases List.mem_cons.mp hx with he | he
      · subst he; exact List.mem_cons_self
      · exact List.mem_cons_of_mem _ (hrest x he)

theorem removeFirstIdx_mem (cache : List Cached) (n : Nat) (s : Cached) (rest : List Cached)
    (h : removeFirstIdx cache n = some (s, rest)) :
    s ∈ cache ∧ s.id.idx = n ∧ ∀ x ∈ rest, x ∈ cache := by
  induction cache generalizing rest with
  | nil => simp [removeFirstIdx] at h
  | cons c cs ih =>
    simp only [removeFirstIdx] at h
    split at h
    · rename_i hc
      injection h with h; injection h with h1 h2
      subst h1; subst h2
      exact ⟨List.mem_cons_self, hc, fun x hx => List.mem_cons_of_mem _ hx⟩
    · split at h
      · rename_i x rest' hr
        injection h with h; injection h with h1 h2
        subst h1; subst h2
        obtain ⟨a, b, c'⟩ := ih rest' hr
        refine ⟨List.mem_cons_of_mem _ a, b, ?_⟩
        intro y hy
        rcases List.mem_cons.mp hy with he | he
        · subst he; exact List.mem_cons_self
        · exact List.mem_cons_of_mem _ (c' y he)
      · cases h

/-- the identifiers of a list are `m, m+1, m+2, …` -/
def Consec : Nat → List Cached → Prop
  | _, [] => True
  | m, c :: cs => c.id.idx = m ∧ Consec (m + 1) cs

/-- `take_segment_batch`: what is taken and what is left was cached; the taken segments have
consecutive indices from `next` on -/
theorem takeBatch_spec : ∀ (k : Nat) (cache : List Cached) (next : Nat),
    (∀ x ∈ (takeBatch cache next k).1, x ∈ cache) ∧ (∀ x ∈ (takeBatch cache next k).2, x ∈ cache) ∧
      Consec next (takeBatch cache next k).1 := by
  intro k
  induction k with
  | zero => intro cache next; simp [takeBatch, Consec]
  | succ k ih =>
    intro cache next
    simp only [takeBatch]
    cases hr : removeFirstIdx cache next with
    | none => simp [Consec]
    | some p =>
      obtain ⟨s, rest⟩ := p
      obtain ⟨hs, hsi, hrest⟩ := removeFirstIdx_mem cache next s rest hr
      obtain ⟨i1, i2, i3⟩ := ih rest (next + 1)
      simp only
      refine ⟨?_, ?_, ⟨hsi, i3⟩⟩
      · intro x hx
        rcases List.mem_cons.mp hx with he | he
        · subst he; exact hs
        · exact hrest x (i1 x he)
      · intro x hx; exact hrest x (i2 x hx)

theorem takeBatch_head (cache : List Cached) (next k : Nat) (h : ∃ c ∈ cache, c.id.idx = next) :
    ∃ s l, (takeBatch cache next (k + 1)).1 = s :: l ∧ s.id.idx = next ∧ s ∈ cache := by
  obtain ⟨s, rest, hr, hs, hsi, _⟩ := removeFirstIdx_some cache next h
  exact ⟨s, (takeBatch rest (next + 1) k).1, by simp [takeBatch, hr], hsi, hs⟩

/-! ## one tree -/

/-- a tree is regular: every cached segment has the asked height, and the local MMR ends at the
archive size, at a segment boundary below it, or at the genesis leaf -/
structure TreeOk (gen : Bool) (h N : Nat) (t : Tree) : Prop where
  own : ∀ c ∈ t.cache, c.id.height = h
  pos : ∃ n o, t.size = mmr n ∧ Pos gen h N n o

/-- leaves of the local MMR -/
def Tree.leaves (t : Tree) : Nat := nLeaves t.size

theorem TreeOk.leaves_le {gen : Bool} {h N : Nat} {t : Tree} (ok : TreeOk gen h N t) : t.leaves ≤ N := by
  obtain ⟨n, o, hs, p⟩ := ok.pos
  unfold Tree.leaves; rw [hs, nLeaves_mmr]; exact p.le

theorem TreeOk.size_eq {gen : Bool} {h N : Nat} {t : Tree} (ok : TreeOk gen h N t) :
    t.size = mmr t.leaves := by
  obtain ⟨n, o, hs, _⟩ := ok.pos
  unfold Tree.leaves; rw [hs, nLeaves_mmr]

theorem TreeOk.pos' {gen : Bool} {h N : Nat} {t : Tree} (ok : TreeOk gen h N t) :
    ∃ o, Pos gen h N t.leaves o := by
  obtain ⟨n, o, hs, p⟩ := ok.pos
  refine ⟨o, ?_⟩
  unfold Tree.leaves; rw [hs, nLeaves_mmr]; exact p

theorem treeOk_cache {gen : Bool} {h N : Nat} {t : Tree} (ok : TreeOk gen h N t) (c : Cached)
    (hc : c.id.height = h) : TreeOk gen h N { t with cache := cacheSeg t.cache c } := by
  refine ⟨?_, ok.pos⟩
  intro x hx
  rcases mem_cacheSeg _ _ _ hx with h1 | h1
  · exact ok.own x h1
  · subst h1; exact hc

/-- `m * 2^h ≤ n ∨ n = N`: a segment with index `m` does not start beyond the local MMR, or the
local MMR is complete -/
def Reach (h N m n : Nat) : Prop := m * 2 ^ h ≤ n ∨ n = N

theorem applySeg_in (prunable : Bool) (A : Nat) (t : Tree) (c : Cached)
    (hin : segLo c ≤ nLeaves t.size ∧ nLeaves t.size < segHi c (nLeaves A)) :
    applySeg prunable A t c =
      (⟨insertionToPmmrIndex (min ((c.id.idx + 1 + (if prunable then c.jump else 0)) * 2 ^ c.id.height)
          (nLeaves A)), t.cache, c :: t.log⟩, false) := by
  unfold applySeg
  simp only
  rw [if_pos hin]

theorem applySeg_out (prunable : Bool) (A : Nat) (t : Tree) (c : Cached)
    (hin : ¬ (segLo c ≤ nLeaves t.size ∧ nLeaves t.size < segHi c (nLeaves A))) :
    applySeg prunable A t c = (t, decide (nLeaves t.size < segLo c ∧ segLo c < nLeaves A)) := by
  unfold applySeg
  simp only
  rw [if_neg hin]

/-- `Extension::apply_*_segment` on a regular tree, segment of the asked height that does not start
beyond the local MMR -/
theorem applySeg_ok (prunable gen : Bool) (h N : Nat) (t : Tree) (c : Cached) (ok : TreeOk gen h N t)
    (hc : c.id.height = h) (hr : Reach h N c.id.idx t.leaves) :
    TreeOk gen h N (applySeg prunable (mmr N) t c).1 ∧ (applySeg prunable (mmr N) t c).2 = false ∧
      t.leaves ≤ (applySeg prunable (mmr N) t c).1.leaves ∧
      Reach h N (c.id.idx + 1) (applySeg prunable (mmr N) t c).1.leaves ∧
      (applySeg prunable (mmr N) t c).1.cache = t.cache := by
  have hle := ok.leaves_le
  have hp := pow_pos' h
  by_cases hin : segLo c ≤ nLeaves t.size ∧ nLeaves t.size < segHi c (nLeaves (mmr N))
  · rw [applySeg_in prunable (mmr N) t c hin]
    simp only [nLeaves_mmr, segLo, segHi, hc] at hin ⊢
    have hin' : c.id.idx * 2 ^ h ≤ t.leaves ∧ t.leaves < min ((c.id.idx + 1) * 2 ^ h) N := hin
    generalize (if prunable = true then c.jump else 0) = j
    have hmono : (c.id.idx + 1) * 2 ^ h ≤ (c.id.idx + 1 + j) * 2 ^ h :=
      Nat.mul_le_mul_right _ (by omega)
    have hl : Tree.leaves ⟨insertionToPmmrIndex (min ((c.id.idx + 1 + j) * 2 ^ h) N), t.cache,
        c :: t.log⟩ = min ((c.id.idx + 1 + j) * 2 ^ h) N := by
      unfold Tree.leaves insertionToPmmrIndex; simp only [nLeaves_mmr]
    rw [hl]
    refine ⟨⟨ok.own, ?_⟩, trivial, by omega, ?_, trivial⟩
    · by_cases hlt : (c.id.idx + 1 + j) * 2 ^ h < N
      · exact ⟨_, some (c.id.idx + 1 + j), rfl, by
          rw [Nat.min_eq_left (by omega)]; exact Pos.boundary _ hlt⟩
      · exact ⟨_, none, rfl, by rw [Nat.min_eq_right (by omega)]; exact Pos.done⟩
    · unfold Reach
      by_cases hlt : (c.id.idx + 1 + j) * 2 ^ h < N
      · left; rw [Nat.min_eq_left (by omega)]; exact hmono
      · right; exact Nat.min_eq_right (by omega)
  · rw [applySeg_out prunable (mmr N) t c hin]
    simp only [nLeaves_mmr, segLo, segHi, hc] at hin ⊢
    have hin' : ¬ (c.id.idx * 2 ^ h ≤ t.leaves ∧ t.leaves < min ((c.id.idx + 1) * 2 ^ h) N) := hin
    refine ⟨ok, ?_, Nat.le_refl _, ?_, trivial⟩
    · rw [decide_eq_false_iff_not]
      show ¬ (t.leaves < c.id.idx * 2 ^ h ∧ c.id.idx * 2 ^ h < N)
      unfold Reach at hr
      omega
    · unfold Reach at hr ⊢
      rcases hr with hr | hr
      · have : ¬ t.leaves < min ((c.id.idx + 1) * 2 ^ h) N := fun hx => hin' ⟨hr, hx⟩
        by_cases hq : (c.id.idx + 1) * 2 ^ h ≤ N
        · rw [Nat.min_eq_left hq] at this; left; omega
        · rw [Nat.min_eq_right (by omega)] at this; right; omega
      · right; exact hr

/-- the segment that comes next advances the tree to (at least) its end -/
theorem applySeg_next (prunable gen : Bool) (h N k : Nat) (t : Tree) (c : Cached)
    (hg : gen = true → 1 ≤ h) (p : Pos gen h N t.leaves (some k))
    (hc : c.id.height = h) (hi : c.id.idx = k) :
    t.leaves < (applySeg prunable (mmr N) t c).1.leaves := by
  obtain ⟨b1, b2, b3⟩ := p.bounds hg
  have hlt := p.lt_of_some
  have hin : segLo c ≤ nLeaves t.size ∧ nLeaves t.size < segHi c (nLeaves (mmr N)) := by
    simp only [nLeaves_mmr, segLo, segHi, hc, hi]
    show k * 2 ^ h ≤ t.leaves ∧ t.leaves < min ((k + 1) * 2 ^ h) N
    exact ⟨b1, Nat.lt_min.mpr ⟨b2, hlt⟩⟩
  rw [applySeg_in prunable (mmr N) t c hin]
  simp only [nLeaves_mmr, hc, hi]
  generalize (if prunable = true then c.jump else 0) = j
  have hmono : (k + 1) * 2 ^ h ≤ (k + 1 + j) * 2 ^ h := Nat.mul_le_mul_right _ (by omega)
  unfold Tree.leaves insertionToPmmrIndex
  simp only [nLeaves_mmr]
  show t.leaves < _
  exact Nat.lt_min.mpr ⟨by omega, hlt⟩

/-- the `for segment in segments` loop over a batch with consecutive indices -/
theorem applyList_ok (prunable gen : Bool) (h N : Nat) : ∀ (l : List Cached) (m : Nat) (t : Tree),
    TreeOk gen h N t → (∀ c ∈ l, c.id.height = h) → Consec m l → Reach h N m t.leaves →
    TreeOk gen h N (applyList prunable (mmr N) t l).1 ∧ (applyList prunable (mmr N) t l).2 = false ∧
      t.leaves ≤ (applyList prunable (mmr N) t l).1.leaves ∧
      (applyList prunable (mmr N) t l).1.cache = t.cache := by
  intro l
  induction l with
  | nil => intro m t ok _ _ _; exact ⟨ok, rfl, Nat.le_refl _, rfl⟩
  | cons c cs ih =>
    intro m t ok hl hcs hr
    obtain ⟨hci, hcs'⟩ := hcs
    have hc := hl c List.mem_cons_self
    obtain ⟨a1, a2, a3, a4, a5⟩ := applySeg_ok prunable gen h N t c ok hc (by rw [hci]; exact hr)
    obtain ⟨b1, b2, b3, b4⟩ := ih (m + 1) _ a1 (fun x hx => hl x (List.mem_cons_of_mem _ hx)) hcs'
      (by rw [← hci]; exact a4)
    simp only [applyList]
    refine ⟨b1, ?_, Nat.le_trans a3 b3, b4.trans a5⟩
    rw [a2, b2]; rfl

theorem applyList_mono_first (prunable gen : Bool) (h N : Nat) (c : Cached) (cs : List Cached)
    (m : Nat) (t : Tree) (ok : TreeOk gen h N t) (hl : ∀ x ∈ c :: cs, x.id.height = h)
    (hcs : Consec m (c :: cs)) (hr : Reach h N m t.leaves) :
    (applySeg prunable (mmr N) t c).1.leaves ≤ (applyList prunable (mmr N) t (c :: cs)).1.leaves := by
  obtain ⟨hci, hcs'⟩ := hcs
  have hc := hl c List.mem_cons_self
  obtain ⟨a1, _, _, a4, _⟩ := applySeg_ok prunable gen h N t c ok hc (by rw [hci]; exact hr)
  obtain ⟨_, _, b3, _⟩ := applyList_ok prunable gen h N cs (m + 1) _ a1
    (fun x hx => hl x (List.mem_cons_of_mem _ hx)) hcs' (by rw [← hci]; exact a4)
  simp only [applyList]
  exact b3

/-- one main-tree part of `apply_next_segments` keeps the tree regular, never misapplies, never
loses leaves — whatever is cached -/
theorem applyTree_ok (prunable gen : Bool) (h N : Nat) (next : Option Nat) (t : Tree)
    (ok : TreeOk gen h N t) (hn : ∀ m, next = some m → Reach h N m t.leaves) :
    TreeOk gen h N (applyTree prunable (mmr N) next t).1 ∧
      (applyTree prunable (mmr N) next t).2 = false ∧
      t.leaves ≤ (applyTree prunable (mmr N) next t).1.leaves := by
  unfold applyTree
  cases next with
  | none =>
    simp only
    split
    · exact ⟨⟨fun c hc => (by cases hc), ok.pos⟩, rfl, Nat.le_refl _⟩
    · exact ⟨ok, rfl, Nat.le_refl _⟩
  | some m =>
    simp only
    obtain ⟨i1, i2, i3⟩ := takeBatch_spec batchSize t.cache m
    have ok' : TreeOk gen h N { t with cache := (takeBatch t.cache m batchSize).2 } :=
      ⟨fun c hc => ok.own c (i2 c hc), ok.pos⟩
    obtain ⟨a, b, c, _⟩ := applyList_ok prunable gen h N _ m _ ok' (fun c hc => ok.own c (i1 c hc)) i3
      (hn m rfl)
    exact ⟨a, b, c⟩

/-- … and makes progress as soon as the segment that comes next is cached -/
theorem applyTree_progress (prunable gen : Bool) (h N k : Nat) (t : Tree) (ok : TreeOk gen h N t)
    (hg : gen = true → 1 ≤ h) (p : Pos gen h N t.leaves (some k)) (hc : ∃ c ∈ t.cache, c.id.idx = k) :
    t.leaves < (applyTree prunable (mmr N) (some k) t).1.leaves := by
  unfold applyTree
  simp only
  obtain ⟨i1, i2, i3⟩ := takeBatch_spec batchSize t.cache k
  have hb : batchSize = 3 + 1 := rfl
  obtain ⟨s, l, hsl, hsi, hs⟩ := takeBatch_head t.cache k 3 hc
  rw [hb] at i1 i3 ⊢
  rw [hsl] at i1 i3 ⊢
  have ok' : TreeOk gen h N { t with cache := (takeBatch t.cache k (3 + 1)).2 } :=
    ⟨fun c hc => ok.own c (by rw [hb] at i2; exact i2 c hc), ok.pos⟩
  have hreach : Reach h N k t.leaves := Or.inl (p.bounds hg).1
  have h1 := applySeg_next prunable gen h N k { t with cache := (takeBatch t.cache k (3 + 1)).2 } s hg
    p (ok.own s hs) hsi
  have h2 := applyList_mono_first prunable gen h N s l k _ ok' (fun c hc => ok.own c (i1 c hc)) i3 hreach
  exact Nat.lt_of_lt_of_le h1 h2

end GV.Deseg
