import GrinVerif.Lemmas.PmmrProof
/-! Soundness of `MerkleProof::verify` for collision-free hash functions (C07): a proof that
verifies against the root of an MMR for a leaf position inside it carries the element stored at
that position and is the canonical path.  Core Lean only. -/
namespace GV.Pmmr.Co
open GV GV.Pmmr

variable {α H : Type}

/-- collision-freedom, stated the way it is used: the two hash shapes are injective in all their
arguments and never coincide.  Holds literally for the free term algebra (`HTerm` below); for the
real Blake2b-based hashes it is the standard idealisation. -/
structure CollisionFree (hf : HashFn α H) : Prop where
  leaf_inj : ∀ {i e i' e'}, hf.leaf i e = hf.leaf i' e' → i = i' ∧ e = e'
  node_inj : ∀ {i a b i' a' b'}, hf.node i a b = hf.node i' a' b' → i = i' ∧ a = a' ∧ b = b'
  leaf_ne_node : ∀ {i e j a b}, hf.leaf i e ≠ hf.node j a b

/-- the free term algebra of hashes -/
inductive HTerm (α : Type) where
  | leaf (i : Nat) (e : α)
  | node (i : Nat) (l r : HTerm α)
deriving DecidableEq, Repr

/-- hashing into free terms -/
def termHF (α : Type) : HashFn α (HTerm α) := ⟨HTerm.leaf, HTerm.node⟩

theorem termHF_collisionFree (α : Type) : CollisionFree (termHF α) where
  leaf_inj := by intro i e i' e' h; injection h with h1 h2; exact ⟨h1, h2⟩
  node_inj := by intro i a b i' a' b' h; injection h with h1 h2 h3; exact ⟨h1, h2, h3⟩
  leaf_ne_node := by intro i e j a b h; cases h

/-- `x` is a hash made with index `t` -/
def HasIdx (hf : HashFn α H) (x : H) (t : Nat) : Prop :=
  (∃ e, x = hf.leaf t e) ∨ (∃ a b, x = hf.node t a b)

theorem HasIdx.unique {hf : HashFn α H} (cf : CollisionFree hf) {x : H} {s t : Nat}
    (hs : HasIdx hf x s) (ht : HasIdx hf x t) : s = t := by
  rcases hs with ⟨e, rfl⟩ | ⟨a, b, rfl⟩ <;> rcases ht with ⟨e', h⟩ | ⟨a', b', h⟩
  · exact (cf.leaf_inj h).1
  · exact absurd h cf.leaf_ne_node
  · exact absurd h.symm cf.leaf_ne_node
  · exact (cf.node_inj h).1

theorem nodeHash_hasIdx (hf : HashFn α H) (f : Nat → α) (n h : Nat) :
    HasIdx hf (nodeHash hf f n h) (mmr n + h) := by
  cases h with
  | zero => exact Or.inl ⟨f n, rfl⟩
  | succ h => exact Or.inr ⟨_, _, rfl⟩

/-- the running hash of `verify_consume` as a function of the index it will be hashed with -/
def Indexed (hf : HashFn α H) (eh : Nat → H) : Prop := ∀ t, HasIdx hf (eh t) t

theorem indexed_leaf (hf : HashFn α H) (e : α) : Indexed hf (fun t => hf.leaf t e) :=
  fun _ => Or.inl ⟨e, rfl⟩

theorem indexed_node (hf : HashFn α H) (a b : H) : Indexed hf (fun t => hf.node t a b) :=
  fun _ => Or.inr ⟨a, b, rfl⟩

theorem nh_ne_node_size {hf : HashFn α H} (cf : CollisionFree hf) (f : Nat → α) {N : Nat} {c : Nat × Nat}
    (hc : c.2 ≤ trailingOnes c.1 ∧ c.1 < N) (a b : H) : nh hf f c ≠ hf.node (mmr N) a b := by
  intro h
  have h1 := nodeHash_hasIdx hf f c.1 c.2
  have h2 : HasIdx hf (nh hf f c) (mmr N) := Or.inr ⟨a, b, h⟩
  have := HasIdx.unique cf h1 h2
  have := (coord_lt_iff hc.1).2 hc.2
  omega

/-! ### Peeling the bagged root -/

theorem peel {hf : HashFn α H} (cf : CollisionFree hf) (size : Nat) (C' : H)
    (hC : ∃ a b, C' = hf.node size a b) :
    ∀ (q : List H) (P : H) (Ps : List H),
      q.foldr (fun s acc => hf.node size s acc) C' = bagNE hf size P Ps →
      (∀ x ∈ P :: Ps, ∀ a b, x ≠ hf.node size a b) →
      ∃ A R0 R1 R', P :: Ps = A ++ R0 :: R1 :: R' ∧ q = A ∧ C' = hf.node size R0 (bagNE hf size R1 R') := by
  intro q
  induction q with
  | nil =>
    intro P Ps h hP
    simp only [List.foldr_nil] at h
    cases Ps with
    | nil =>
      obtain ⟨a, b, hab⟩ := hC
      exact absurd (by rw [← hab, h]; rfl) (hP P (List.mem_cons_self ..) a b)
    | cons P1 Ps' => exact ⟨[], P, P1, Ps', rfl, rfl, h⟩
  | cons s q' ih =>
    intro P Ps h hP
    simp only [List.foldr_cons] at h
    cases Ps with
    | nil => exact absurd h.symm (hP P (List.mem_cons_self ..) _ _)
    | cons P1 Ps' =>
      simp only [bagNE] at h
      obtain ⟨_, h2, h3⟩ := cf.node_inj h
      obtain ⟨A, R0, R1, R', e1, e2, e3⟩ := ih P1 Ps' h3 (fun x hx => hP x (List.mem_cons_of_mem _ hx))
      exact ⟨P :: A, R0, R1, R', by rw [e1]; rfl, by rw [h2, e2], e3⟩

theorem split_unique {β : Type} (x : β) : ∀ (A A' B B' : List β), (A ++ x :: B).Nodup →
    A ++ x :: B = A' ++ x :: B' → A = A' ∧ B = B' := by
  intro A
  induction A with
  | nil =>
    intro A' B B' hnd h
    cases A' with
    | nil => simp at h; exact ⟨rfl, h⟩
    | cons a A'' =>
      simp only [List.nil_append, List.cons_append, List.cons.injEq] at h
      obtain ⟨rfl, hB⟩ := h
      simp only [List.nil_append, List.nodup_cons] at hnd
      exact absurd (by rw [hB]; simp) hnd.1
  | cons a A ih =>
    intro A' B B' hnd h
    cases A' with
    | nil =>
      simp only [List.nil_append, List.cons_append, List.cons.injEq] at h
      obtain ⟨rfl, hB⟩ := h
      simp only [List.cons_append, List.nodup_cons] at hnd
      exact absurd (by simp) hnd.1
    | cons a' A'' =>
      simp only [List.cons_append, List.cons.injEq] at h
      obtain ⟨rfl, hrest⟩ := h
      simp only [List.cons_append, List.nodup_cons] at hnd
      obtain ⟨h1, h2⟩ := ih A'' B B' hnd.2 hrest
      exact ⟨by rw [h1], h2⟩

theorem forest_nodup (N : Nat) : (forest N).Nodup := by
  have := forest_pairwise N
  exact this.imp (fun h he => by rw [he] at h; omega)

theorem bagNE_hasIdx (hf : HashFn α H) (size : Nat) (p q : H) (qs : List H) :
    HasIdx hf (bagNE hf size p (q :: qs)) size := Or.inr ⟨_, _, rfl⟩

section sound
variable [DecidableEq H] {N i k : Nat} {L R : List (Nat × Nat)}

omit [DecidableEq H] in
theorem forest_map_eq (c : PeakCtx N i k L R) (hf : HashFn α H) (f : Nat → α) :
    ∃ P Ps, (forest N).map (nh hf f) = P :: Ps
      ∧ rootAt hf f (mmr N) L (up i k, k) R = bagNE hf (mmr N) P Ps := by
  have h1 := bag_forest c hf f (mmr N)
  cases hfm : (forest N).map (nh hf f) with
  | nil => rw [c.split] at hfm; simp at hfm
  | cons P Ps =>
    rw [hfm, bag_cons] at h1
    exact ⟨P, Ps, rfl, by injection h1 with h; exact h.symm⟩

omit [DecidableEq H] in
/-- the root carries the size as index unless there is a single peak -/
theorem root_eq_indexed {hf : HashFn α H} (cf : CollisionFree hf) (c : PeakCtx N i k L R)
    (f : Nat → α) {x : H} {t : Nat} (hx : HasIdx hf x t) (ht : t < mmr N)
    (h : rootAt hf f (mmr N) L (up i k, k) R = x) : L = [] ∧ R = [] ∧ t = cpos (up i k, k) := by
  cases L with
  | cons l L' =>
    have : HasIdx hf (rootAt hf f (mmr N) (l :: L') (up i k, k) R) (mmr N) := Or.inr ⟨_, _, rfl⟩
    rw [h] at this
    have := HasIdx.unique cf hx this; omega
  | nil =>
    cases R with
    | cons r R' =>
      have : HasIdx hf (rootAt hf f (mmr N) [] (up i k, k) (r :: R')) (mmr N) := Or.inr ⟨_, _, rfl⟩
      rw [h] at this
      have := HasIdx.unique cf hx this; omega
    | nil =>
      have : HasIdx hf (rootAt hf f (mmr N) [] (up i k, k) []) (cpos (up i k, k)) :=
        nodeHash_hasIdx hf f (up i k) k
      rw [h] at this
      exact ⟨rfl, rfl, HasIdx.unique cf hx this⟩

theorem sound_peak {hf : HashFn α H} (cf : CollisionFree hf) (c : PeakCtx N i k L R) (f : Nat → α)
    (eh : Nat → H) (hidx : Indexed hf eh) (path : List H)
    (hv : verifyAux hf (rootAt hf f (mmr N) L (up i k, k) R) (mmr N) (peaks (mmr N)) path eh
      (cpos (up i k, k)) = true) :
    eh (cpos (up i k, k)) = nodeHash hf f (up i k) k ∧ path = peakPart hf f (mmr N) L R := by
  have hlt := c.cpos_lt (Nat.le_refl k)
  have hge := c.parent_ge
  have hcur := hidx (cpos (up i k, k))
  cases path with
  | nil =>
    rw [va_nil hf _ _ _ _ _ hlt] at hv
    have hroot := eq_of_beq hv
    obtain ⟨rfl, rfl, _⟩ := root_eq_indexed cf c f hcur hlt hroot
    refine ⟨hroot.symm, ?_⟩
    simp [peakPart, bag]
  | cons sib rest =>
    obtain ⟨P, Ps, hPs, hroot⟩ := forest_map_eq c hf f
    have hne : ∀ x ∈ P :: Ps, ∀ a b, x ≠ hf.node (mmr N) a b := by
      intro x hx a b
      rw [← hPs] at hx
      obtain ⟨d, hd, rfl⟩ := List.mem_map.1 hx
      exact nh_ne_node_size cf f (forest_valid d hd) a b
    have hfold : ∀ C', List.foldl (fun acc s => hf.node (mmr N) s acc) C' rest
        = rest.reverse.foldr (fun s acc => hf.node (mmr N) s acc) C' := by
      intro C'; rw [List.foldr_reverse]
    cases R with
    | nil =>
      rw [va_peak_last c rfl, va_beyond hf _ N _ _ _ hge, hfold] at hv
      have hroot' := eq_of_beq hv
      rw [hroot] at hroot'
      obtain ⟨A, R0, R1, R', e1, e2, e3⟩ := peel cf (mmr N) _ ⟨_, _, rfl⟩ rest.reverse P Ps hroot'.symm hne
      obtain ⟨_, h2, h3⟩ := cf.node_inj e3
      -- the running hash has an index below the size, so nothing is left to bag to its right
      cases R' with
      | cons r R'' =>
        have := bagNE_hasIdx hf (mmr N) R1 r R''
        rw [← h3] at this
        have := HasIdx.unique cf hcur this; omega
      | nil =>
        simp only [bagNE] at h3
        rw [← hPs, c.split, List.map_append, List.map_cons, List.map_nil] at e1
        have e1' : L.map (nh hf f) ++ [nh hf f (up i k, k)] = (A ++ [R0]) ++ [R1] := by
          rw [e1]; simp
        obtain ⟨hL, hp⟩ := List.append_inj' e1' rfl
        refine ⟨?_, ?_⟩
        · rw [h3]; injection hp with hp' _; exact hp'.symm
        · have hrest : rest = A.reverse := by rw [← e2]; simp
          simp only [peakPart, List.map_nil, bag, List.nil_append, hL, hrest, h2]
          simp
    | cons r Rr =>
      rw [va_peak_mid c (by simp), va_beyond hf _ N _ _ _ hge, hfold] at hv
      have hroot' := eq_of_beq hv
      rw [hroot] at hroot'
      obtain ⟨A, R0, R1, R', e1, e2, e3⟩ := peel cf (mmr N) _ ⟨_, _, rfl⟩ rest.reverse P Ps hroot'.symm hne
      obtain ⟨_, h2, h3⟩ := cf.node_inj e3
      rw [← hPs] at e1
      obtain ⟨cA, cB, hsplit, hA, hB⟩ := List.map_eq_append_iff.1 e1
      obtain ⟨c0, cR, hcB, hc0, hcR⟩ := List.map_eq_cons_iff.1 hB
      subst hcB
      -- the peak found by peeling has the index of our peak, so it is our peak
      have hmem : c0 ∈ forest N := by rw [hsplit]; simp
      have hval := forest_valid c0 hmem
      have hidx0 : HasIdx hf (eh (cpos (up i k, k))) (cpos c0) := by
        rw [h2, ← hc0]; exact nodeHash_hasIdx hf f c0.1 c0.2
      have hpos := HasIdx.unique cf hcur hidx0
      have hinj := coord_inj (up_valid i k) hval.1 hpos
      have hc0eq : c0 = (up i k, k) := by
        obtain ⟨h1, h2⟩ := hinj
        exact Prod.ext h1.symm h2.symm
      subst hc0eq
      have hnd := forest_nodup N
      rw [hsplit] at hnd
      obtain ⟨hLeq, hReq⟩ := split_unique _ cA L cR (r :: Rr) hnd (by rw [← hsplit, c.split])
      refine ⟨by rw [h2, ← hc0], ?_⟩
      have hrest : rest = A.reverse := by rw [← e2]; simp
      rw [← hReq, ← hLeq]
      simp only [peakPart, hcR, bag_cons, hA, hrest, h3]
      simp

theorem sound_tree {hf : HashFn α H} (cf : CollisionFree hf) (c : PeakCtx N i k L R) (f : Nat → α) :
    ∀ d j (eh : Nat → H) (path : List H), j + d = k → Indexed hf eh →
      verifyAux hf (rootAt hf f (mmr N) L (up i k, k) R) (mmr N) (peaks (mmr N)) path eh
        (cpos (up i j, j)) = true →
      eh (cpos (up i j, j)) = nodeHash hf f (up i j) j
        ∧ path = treePath hf f i j d ++ peakPart hf f (mmr N) L R := by
  intro d
  induction d with
  | zero =>
    intro j eh path hj hidx hv
    have : j = k := by omega
    subst this
    simpa [treePath] using sound_peak cf c f eh hidx path hv
  | succ d ih =>
    intro j eh path hj hidx hv
    have hlt := c.cpos_lt (show j ≤ k by omega)
    cases path with
    | nil =>
      rw [va_nil hf _ _ _ _ _ hlt] at hv
      obtain ⟨_, _, hpos⟩ := root_eq_indexed cf c f (hidx _) hlt (eq_of_beq hv)
      have := (coord_inj (up_valid i j) (up_valid i k) hpos).2
      omega
    | cons sib rest =>
      rw [va_tree c hf _ (by omega)] at hv
      have hpos := two_pow_pos j
      cases hb : bitSet i j with
      | true =>
        rw [hb] at hv
        simp only [if_true] at hv
        obtain ⟨h1, h2⟩ := ih (j+1) _ rest (by omega) (indexed_node hf _ _) hv
        obtain ⟨hu, hs, _⟩ := step_right hb
        rw [nodeHash] at h1
        obtain ⟨_, h3, h4⟩ := cf.node_inj h1
        refine ⟨by rw [h4, hu], ?_⟩
        simp only [treePath, List.range'_succ, List.map_cons, List.cons_append, nh, hs]
        rw [h3, hu, h2]; rfl
      | false =>
        rw [hb] at hv
        simp only [Bool.false_eq_true, if_false] at hv
        obtain ⟨h1, h2⟩ := ih (j+1) _ rest (by omega) (indexed_node hf _ _) hv
        obtain ⟨hu, hs, _⟩ := step_left hb
        rw [nodeHash] at h1
        obtain ⟨_, h3, h4⟩ := cf.node_inj h1
        have : up i (j+1) - 2^j = up i j := by omega
        refine ⟨by rw [h3, this], ?_⟩
        simp only [treePath, List.range'_succ, List.map_cons, List.cons_append, nh, hs]
        rw [h4, h2]; rfl

/-- a proof that verifies for leaf position `mmr i` carries element `f i` and is the canonical path -/
theorem verify_sound {hf : HashFn α H} (cf : CollisionFree hf) (c : PeakCtx N i k L R) (f : Nat → α)
    (e : α) (path : List H)
    (hv : verify hf (rootAt hf f (mmr N) L (up i k, k) R) (mmr N) path e (mmr i) = true) :
    e = f i ∧ path = treePath hf f i 0 k ++ peakPart hf f (mmr N) L R := by
  have h0 : cpos (up i 0, 0) = mmr i := by simp [cpos, up_zero]
  rw [verify, ← h0] at hv
  obtain ⟨h1, h2⟩ := sound_tree cf c f k 0 _ path (by omega) (indexed_leaf hf e) hv
  refine ⟨?_, h2⟩
  simp only [up_zero, nodeHash] at h1
  exact (cf.leaf_inj h1).2

end sound

/-! ### The canonical path determines the leaf -/

theorem mmr_inj {a b : Nat} (h : mmr a = mmr b) : a = b := by
  apply Classical.byContradiction
  intro hne
  rcases Nat.lt_or_gt_of_ne hne with hlt | hlt
  · have := mmr_lt_mmr hlt; omega
  · have := mmr_lt_mmr hlt; omega

theorem sibCo_zero (i : Nat) : sibCo i 0 = (if i % 2 = 1 then i - 1 else i + 1, 0) := by
  simp only [sibCo, bitSet, up_zero, Nat.pow_zero, Nat.div_one]
  by_cases h : i % 2 = 1 <;> simp [h]

theorem nh_sibCo_zero (hf : HashFn α H) (f : Nat → α) (i : Nat) :
    nh hf f (sibCo i 0) = hf.leaf (mmr (sibCo i 0).1) (f (sibCo i 0).1) := by
  simp only [nh, sibCo_zero, nodeHash]

namespace PeakCtx
variable {N i k : Nat} {L R : List (Nat × Nat)}

theorem left_fst_lt (c : PeakCtx N i k L R) : ∀ d ∈ L, d.1 < up i k := by
  intro d hd
  have h := forest_pairwise N
  rw [c.split] at h
  exact (List.pairwise_append.1 h).2.2 d hd _ (List.mem_cons_self ..)

theorem right_fst_gt (c : PeakCtx N i k L R) : ∀ d ∈ R, up i k < d.1 := by
  intro d hd
  have h := forest_pairwise N
  rw [c.split] at h
  exact (List.pairwise_cons.1 (List.pairwise_append.1 h).2.1).1 d hd

end PeakCtx

/-- a leaf that is itself a peak is the last leaf and the last peak -/
theorem peak_leaf_last {N i : Nat} {L R : List (Nat × Nat)} (c : PeakCtx N i 0 L R) :
    i + 1 = N ∧ R = [] := by
  have h := c.peak_facts
  simp only [up_zero, Nat.pow_zero] at h
  refine ⟨by omega, ?_⟩
  cases R with
  | nil => rfl
  | cons r R' =>
    have h1 := c.right_fst_gt r (List.mem_cons_self ..)
    have h2 := (c.right_valid r (List.mem_cons_self ..)).2
    simp only [up_zero] at h1
    omega

theorem canon_ne_aux {hf : HashFn α H} (cf : CollisionFree hf) (f : Nat → α)
    {N i i' k' : Nat} {L R L' R' : List (Nat × Nat)}
    (c : PeakCtx N i 0 L R) (_c' : PeakCtx N i' (k'+1) L' R')
    (h : treePath hf f i 0 0 ++ peakPart hf f (mmr N) L R
      = treePath hf f i' 0 (k'+1) ++ peakPart hf f (mmr N) L' R') : False := by
  obtain ⟨hiN, rfl⟩ := peak_leaf_last c
  simp only [treePath, List.range'_zero, List.map_nil, List.nil_append, peakPart, bag,
    List.range'_succ, List.map_cons, List.cons_append] at h
  rcases List.eq_nil_or_concat L with rfl | ⟨L0, l, rfl⟩
  · simp at h
  · rw [List.concat_eq_append, List.map_append, List.reverse_append] at h
    simp only [List.map_cons, List.map_nil, List.reverse_cons, List.reverse_nil, List.nil_append,
      List.cons_append, List.cons.injEq] at h
    have hhead := h.1
    rw [nh_sibCo_zero] at hhead
    have hl_mem : l ∈ L0.concat l := by simp
    have hlv := c.left_valid l hl_mem
    have hlt := c.left_fst_lt l hl_mem
    simp only [up_zero] at hlt
    have h1 := nodeHash_hasIdx hf f l.1 l.2
    have h2 : HasIdx hf (nh hf f l) (mmr (sibCo i' 0).1 + 0) := Or.inl ⟨_, hhead⟩
    have hpos := HasIdx.unique cf h1 h2
    obtain ⟨e1, e2⟩ := coord_inj hlv.1 (Nat.zero_le _) hpos
    -- `l` would be a peak of height 0 before the last leaf
    have hm := forest_mem (show l ∈ forest N by rw [c.split]; simp)
    rw [e2] at hm
    simp only [Nat.pow_zero] at hm
    omega

theorem canon_inj {hf : HashFn α H} (cf : CollisionFree hf) (f : Nat → α)
    {N i i' k k' : Nat} {L R L' R' : List (Nat × Nat)}
    (c : PeakCtx N i k L R) (c' : PeakCtx N i' k' L' R')
    (h : treePath hf f i 0 k ++ peakPart hf f (mmr N) L R
      = treePath hf f i' 0 k' ++ peakPart hf f (mmr N) L' R') : i = i' := by
  cases k with
  | zero =>
    cases k' with
    | zero =>
      have := (peak_leaf_last c).1
      have := (peak_leaf_last c').1
      omega
    | succ k' => exact absurd h (fun h => canon_ne_aux cf f c c' h)
  | succ k =>
    cases k' with
    | zero => exact absurd h.symm (fun h => canon_ne_aux cf f c' c h)
    | succ k' =>
      simp only [treePath, List.range'_succ, List.map_cons, List.cons_append, List.cons.injEq] at h
      have hhead := h.1
      rw [nh_sibCo_zero, nh_sibCo_zero] at hhead
      have := mmr_inj (cf.leaf_inj hhead).1
      simp only [sibCo_zero] at this
      split at this <;> split at this <;> omega


/-! ### Positions that are not leaf positions inside the MMR -/

section wrongpos
variable [DecidableEq H] {N i k : Nat} {L R : List (Nat × Nat)}

/-- a position at or beyond the size never verifies -/
theorem sound_beyond {hf : HashFn α H} (cf : CollisionFree hf) (c : PeakCtx N i k L R) (f : Nat → α)
    (e : α) (path : List H) (pos : Nat) (hge : mmr N ≤ pos) :
    verify hf (rootAt hf f (mmr N) L (up i k, k) R) (mmr N) path e pos = false := by
  apply Bool.eq_false_iff.2
  intro hv
  rw [verify, va_beyond hf _ N _ _ _ hge] at hv
  have hroot := eq_of_beq hv
  obtain ⟨P, Ps, hPs, hbag⟩ := forest_map_eq c hf f
  have hne : ∀ x ∈ P :: Ps, ∀ a b, x ≠ hf.node (mmr N) a b := by
    intro x hx a b
    rw [← hPs] at hx
    obtain ⟨d, hd, rfl⟩ := List.mem_map.1 hx
    exact nh_ne_node_size cf f (forest_valid d hd) a b
  have hleafidx : HasIdx hf (hf.leaf (mmr N) e) (mmr N) := Or.inl ⟨e, rfl⟩
  have hPsidx : ∀ x ∈ P :: Ps, ∃ t, t < mmr N ∧ HasIdx hf x t := by
    intro x hx
    rw [← hPs] at hx
    obtain ⟨d, hd, rfl⟩ := List.mem_map.1 hx
    have hv := forest_valid d hd
    exact ⟨mmr d.1 + d.2, (coord_lt_iff hv.1).2 hv.2, nodeHash_hasIdx hf f d.1 d.2⟩
  rw [hbag] at hroot
  cases path with
  | nil =>
    simp only [List.foldl_nil] at hroot
    cases Ps with
    | nil =>
      simp only [bagNE] at hroot
      obtain ⟨t, ht, hidx⟩ := hPsidx P (List.mem_cons_self ..)
      rw [hroot] at hidx
      have := HasIdx.unique cf hidx hleafidx; omega
    | cons P1 Ps' => exact absurd hroot.symm cf.leaf_ne_node
  | cons s1 rest =>
    simp only [List.foldl_cons] at hroot
    have hfold : List.foldl (fun acc s => hf.node (mmr N) s acc) (hf.node (mmr N) s1 (hf.leaf (mmr N) e)) rest
        = rest.reverse.foldr (fun s acc => hf.node (mmr N) s acc) (hf.node (mmr N) s1 (hf.leaf (mmr N) e)) := by
      rw [List.foldr_reverse]
    rw [hfold] at hroot
    obtain ⟨A, R0, R1, R', e1, _, e3⟩ := peel cf (mmr N) _ ⟨_, _, rfl⟩ rest.reverse P Ps hroot.symm hne
    obtain ⟨_, _, h3⟩ := cf.node_inj e3
    cases R' with
    | cons r R'' => exact absurd h3 cf.leaf_ne_node
    | nil =>
      simp only [bagNE] at h3
      obtain ⟨t, ht, hidx⟩ := hPsidx R1 (by rw [e1]; simp)
      rw [← h3] at hidx
      have := HasIdx.unique cf hidx hleafidx; omega

/-- the peak above leaf `n` is at least as high as any node `(n, h)` -/
theorem PeakCtx.height_le (c : PeakCtx N i k L R) {h : Nat} (hh : h ≤ trailingOnes i) : h ≤ k := by
  apply Classical.byContradiction
  intro hlt
  have hk : k ≤ trailingOnes i := by omega
  have hup := up_of_valid hk
  have := c.peak_facts.1
  rw [hup] at this
  omega

/-- an inner node position never verifies (the element would have to hash like a parent) -/
theorem sound_nonleaf {hf : HashFn α H} (cf : CollisionFree hf) (c : PeakCtx N i k L R) (f : Nat → α)
    (e : α) (path : List H) (h : Nat) (hh : h + 1 ≤ trailingOnes i) :
    verify hf (rootAt hf f (mmr N) L (up i k, k) R) (mmr N) path e (mmr i + (h+1)) = false := by
  apply Bool.eq_false_iff.2
  intro hv
  have hle := c.height_le hh
  have hup := up_of_valid hh
  have h0 : cpos (up i (h+1), h+1) = mmr i + (h+1) := by simp [cpos, hup]
  rw [verify, ← h0] at hv
  obtain ⟨h1, _⟩ := sound_tree cf c f (k - (h+1)) (h+1) _ path (by omega) (indexed_leaf hf e) hv
  rw [nodeHash] at h1
  exact cf.leaf_ne_node h1

end wrongpos

/-! ### From the coordinate lemmas (leaf data `f : Nat → α`) to lists -/

/-- any list is `f 0, …, f (len-1)` for a function `f`, which is how the lemma files index leaves -/
theorem list_as_fn (xs : List α) (hne : xs ≠ []) :
    ∃ f : Nat → α, xs = (List.range xs.length).map f ∧ ∀ i (hi : i < xs.length), f i = xs[i] := by
  obtain ⟨x0, _⟩ := List.exists_mem_of_ne_nil xs hne
  refine ⟨fun i => xs.getD i x0, list_eq_range_map xs x0, ?_⟩
  intro i hi
  simp [List.getD_eq_getElem?_getD, List.getElem?_eq_getElem hi]

/-- everything the lemma files know about leaf `i` of `xs`, in list form -/
theorem leaf_ctx (hf : HashFn α H) (xs : List α) (i : Nat) (hi : i < xs.length) :
    ∃ (f : Nat → α) (k : Nat) (L R : List (Nat × Nat)) (_ : PeakCtx xs.length i k L R),
      f i = xs[i]
      ∧ Spec.Mmr.hashes hf xs = allHashes hf f xs.length
      ∧ Spec.Mmr.root hf xs = some (rootAt hf f (mmr xs.length) L (up i k, k) R) := by
  have hne : xs ≠ [] := by intro h; subst h; simp at hi
  obtain ⟨f, hxs, hf_i⟩ := list_as_fn xs hne
  obtain ⟨k, L, R, c⟩ := exists_peakCtx hi
  refine ⟨f, k, L, R, c, hf_i i hi, ?_, ?_⟩
  · conv => lhs; rw [hxs]
    exact spec_hashes hf f xs.length
  · conv => lhs; rw [hxs]
    rw [spec_root]
    exact bag_forest c hf f (mmr xs.length)

end GV.Pmmr.Co
