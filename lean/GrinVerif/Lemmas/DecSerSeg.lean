import GrinVerif.Lemmas.DecSerHdr
/-! `BitmapBlock`, `BitmapSegment`, the segment responses, and the assembled payload of
`decode_message`: bounds and panic-freedom. -/
namespace GV.DecSer
open GV GV.Ser GV.Dec GV.Msg

/-! ### `BitmapBlock` -/

theorem bnd_flipLoop (c nBits n : Nat) : Bnd c 0 0 (flipLoop nBits n) := by
  induction n with
  | zero => intro bs; simp [flipLoop]
  | succ n ih =>
    have h := Bnd.bind (bnd_rU16 c) fun pos =>
      Bnd.ite (pos ≥ nBits) (Bnd.fail c .corrupted)
        (Bnd.ite (pos ≥ nBits) (Bnd.panic0 c .assertion)
          (Bnd.bind ih fun ps => Bnd.pure c (pos :: ps)))
    intro bs
    have := h bs
    simpa [flipLoop] using this

/-- `BitVec::set(pos, _)` is only reached with `pos < n_bits` -/
theorem noPanic_flipLoop (nBits n : Nat) : NoPanic (flipLoop nBits n) := by
  induction n with
  | zero => intro bs; rfl
  | succ n ih =>
    have h := NoPanic.bind noPanic_rU16 fun pos =>
      NoPanic.iteH (pos ≥ nBits) (fun _ => NoPanic.fail .corrupted)
        (fun h1 => NoPanic.iteH (p := fun _ => .panic .assertion 0) (pos ≥ nBits) (fun h2 => absurd h2 h1)
          (fun _ => NoPanic.bind ih fun ps => NoPanic.pure (pos :: ps)))
    intro bs
    simpa [flipLoop] using h bs

/-- a block requests at most 8 KiB besides what it reads (the zeroed `BitVec` of 2^16 bits, allocated
before the entry count is known), whatever entry count follows -/
theorem bnd_rBitmapBlockBody (rd : Rdr) (nChunks mode : Nat) (hn : nChunks ≤ 64) :
    Bnd 1 8192 8192 (rBitmapBlockBody rd nChunks mode) :=
  Bnd.ite (mode = 0)
    ((Bnd.bind (bnd_rFixed rd (nChunks * CHUNK_BITS / 8)) fun bytes =>
        (BndS.charge (BndS.pure 1 (fun _ : BitmapBlock => 0) (BitmapBlock.mk (bytes.length * 8) (.raw bytes)))
          (nChunks * CHUNK_BITS / 8)).toBnd).mono (c' := 1) (k' := 8192) (e' := 8192) (Nat.le_refl 1)
      (by simp only [CHUNK_BITS]; omega) (by simp only [CHUNK_BITS]; omega))
    (Bnd.ite (mode = 1 ∨ mode = 2)
      ((Bnd.withCapacity (A := 8192)
        (Bnd.bind (bnd_rU16 1) fun n => Bnd.bind (bnd_flipLoop 1 (nChunks * CHUNK_BITS) n) fun ps =>
          Bnd.pure 1 (BitmapBlock.mk (nChunks * CHUNK_BITS) (.flips (decide (mode = 2)) ps)))
        (nChunks * CHUNK_BITS / 8) 1 (by simp only [CHUNK_BITS]; omega)).mono
        (Nat.le_refl 1) (by decide) (Nat.zero_le 8192))
      ((Bnd.fail 1 .corrupted).mono (Nat.le_refl 1) (Nat.zero_le 8192) (Nat.zero_le 8192)))

theorem noPanic_rBitmapBlockBody (rd : Rdr) (nChunks mode : Nat) (hn : nChunks ≤ 64) :
    NoPanic (rBitmapBlockBody rd nChunks mode) :=
  NoPanic.ite (mode = 0)
    (NoPanic.bind (noPanic_rFixed rd _) fun bytes =>
      NoPanic.charge (NoPanic.pure (BitmapBlock.mk (bytes.length * 8) (.raw bytes))) _)
    (NoPanic.ite (mode = 1 ∨ mode = 2)
      (NoPanic.withCapacity
        (NoPanic.bind noPanic_rU16 fun n => NoPanic.bind (noPanic_flipLoop (nChunks * CHUNK_BITS) n) fun ps =>
          NoPanic.pure (BitmapBlock.mk (nChunks * CHUNK_BITS) (.flips (decide (mode = 2)) ps)))
        (nChunks * CHUNK_BITS / 8) 1
        (by have : ISIZE_MAX = 9223372036854775807 := by decide
            simp only [CHUNK_BITS]; omega))
      (NoPanic.fail .corrupted))

theorem bnd_rBitmapBlock (rd : Rdr) : Bnd 1 8192 8192 (rBitmapBlock rd) :=
  (Bnd.bind (bnd_rU8 1) fun nChunks =>
    Bnd.iteH (nChunks > NCHUNKS)
      (fun _ => (Bnd.fail 1 .tooLarge).mono (Nat.le_refl 1) (Nat.zero_le 8192) (Nat.zero_le 8192))
      (fun hn => (Bnd.bind (bnd_rU8 1) fun mode =>
        bnd_rBitmapBlockBody rd nChunks mode (by simp only [NCHUNKS] at hn; omega)).mono
        (Nat.le_refl 1) (by decide) (by decide))).mono (Nat.le_refl 1) (by decide) (by decide)

theorem noPanic_rBitmapBlock (rd : Rdr) : NoPanic (rBitmapBlock rd) :=
  NoPanic.bind noPanic_rU8 fun nChunks =>
    NoPanic.iteH (nChunks > NCHUNKS) (fun _ => NoPanic.fail .tooLarge)
      (fun hn => NoPanic.bind noPanic_rU8 fun mode =>
        noPanic_rBitmapBlockBody rd nChunks mode (by simp only [NCHUNKS] at hn; omega))

/-- a block read consumes at least its two header bytes (loop progress) -/
theorem progW_rBitmapBlock (rd : Rdr) : ProgW 2 (rBitmapBlock rd) :=
  (ProgW.bind progW_rU8 fun nChunks =>
    ProgW.iteH (nChunks > NCHUNKS) (fun _ => ProgW.fail 1 .tooLarge)
      (fun hn => ProgW.bind progW_rU8 fun mode =>
        Bnd.progW0 (bnd_rBitmapBlockBody rd nChunks mode (by simp only [NCHUNKS] at hn; omega)))).mono (by omega)

/-! ### `BitmapSegment` -/

theorem nChunksOf_pos {blocks : List BitmapBlock} {n : Nat} (h : nChunksOf blocks = .ok n) : 0 < n := by
  unfold nChunksOf at h
  cases hl : blocks.getLast? with
  | none => simp [hl] at h
  | some last =>
    simp only [hl] at h
    cases hf : fullBlocksOk blocks.dropLast with
    | error e => simp [hf] at h
    | ok u =>
      simp only [hf] at h
      cases ht : tryNChunks last with
      | error e => simp [ht] at h
      | ok lc =>
        simp only [ht] at h
        split at h
        · simp at h
        · split at h
          · simp at h
          · simp only [Except.ok.injEq] at h; omega

/-- `(n_chunks - 1) as u64` cannot underflow: `n_chunks()` answers `CorruptedData` for an empty last block -/
theorem validateBlocks_noPanic (id : SegmentId) (blocks : List BitmapBlock) (s : Site) :
    validateBlocks id blocks ≠ .panic s := by
  unfold validateBlocks
  cases leafOffset id with
  | error e => simp
  | ok off =>
    simp only
    cases hn : nChunksOf blocks with
    | error e => simp
    | ok n =>
      have := nChunksOf_pos hn
      simp only
      cases maxChunks id.height with
      | error e => simp
      | ok mx =>
        simp only
        split
        · simp
        · rw [if_neg (by omega)]
          split
          · simp
          · split <;> simp

/-- constant part of a bitmap segment: the block vector (128 · 32), 128 blocks of 8 KiB, the proof's
pre-allocation (1024 hashes) -/
def BITMAP_K : Nat := 4096 + 128 * 8192 + 32768

theorem bnd_rBitmapBlocks (rd : Rdr) (id : SegmentId) (nBlocks : Nat) (hn : nBlocks ≤ 128) :
    Bnd 1 BITMAP_K 8192 (rBitmapBlocks rd id nBlocks) :=
  (Bnd.withCapacity (A := 4096)
    (Bnd.bind (Bnd.readNk (bnd_rBitmapBlock rd) nBlocks) fun blocks =>
      (BndS.pass (validateBlocks id blocks)
        (Bnd.toBndS (Bnd.bind (bnd_segmentProof rd) fun proof => Bnd.pure 1 (BitmapSegment.mk id blocks proof)))).toBnd)
    nBlocks BITMAP_BLOCK_MEM (by simp only [BITMAP_BLOCK_MEM]; omega)).mono (Nat.le_refl 1)
    (by unfold BITMAP_K; omega) (by decide)

theorem noPanic_rBitmapBlocks (rd : Rdr) (id : SegmentId) (nBlocks : Nat) (hn : nBlocks ≤ 128) :
    NoPanic (rBitmapBlocks rd id nBlocks) :=
  NoPanic.withCapacity
    (NoPanic.bind (NoPanic.readN (noPanic_rBitmapBlock rd) nBlocks) fun blocks =>
      NoPanic.pass _ (validateBlocks_noPanic id blocks)
        (NoPanic.bind (noPanic_segmentProof rd) fun proof => NoPanic.pure (BitmapSegment.mk id blocks proof)))
    nBlocks BITMAP_BLOCK_MEM
    (by have : ISIZE_MAX = 9223372036854775807 := by decide
        simp only [BITMAP_BLOCK_MEM]; omega)

theorem maxChunks_le {h mx : Nat} (hm : maxChunks h = .ok mx) : mx ≤ 8192 := by
  unfold maxChunks at hm
  split at hm
  · simp at hm
  · split at hm
    · simp at hm
    · simp only [Except.ok.injEq] at hm
      rename_i h1 _
      have : MAX_BITMAP_SEGMENT_HEIGHT = 13 := rfl
      have : 2 ^ h ≤ 2 ^ 13 := Nat.pow_le_pow_right (by decide) (by omega)
      omega

theorem bnd_rBitmapAfterCount (rd : Rdr) (id : SegmentId) (nBlocks : Nat) :
    Bnd 1 BITMAP_K 8192 (rBitmapAfterCount rd id nBlocks) := by
  intro r
  unfold rBitmapAfterCount
  split
  · simp
  · cases hm : maxChunks id.height with
    | error e => simp
    | ok mx =>
      simp only
      split
      · simp
      · cases leafOffset id with
        | error e => simp
        | ok off =>
          have := maxChunks_le hm
          exact bnd_rBitmapBlocks rd id nBlocks (by simp only [NCHUNKS] at *; omega) r

theorem noPanic_rBitmapAfterCount (rd : Rdr) (id : SegmentId) (nBlocks : Nat) :
    NoPanic (rBitmapAfterCount rd id nBlocks) := by
  intro r
  unfold rBitmapAfterCount
  split
  · rfl
  · cases hm : maxChunks id.height with
    | error e => rfl
    | ok mx =>
      simp only
      split
      · rfl
      · cases leafOffset id with
        | error e => rfl
        | ok off =>
          have := maxChunks_le hm
          exact noPanic_rBitmapBlocks rd id nBlocks (by simp only [NCHUNKS] at *; omega) r

/-- `BitmapSegment::read`: what it reads plus at most `BITMAP_K` ≈ 1.04 MiB — the block count is capped
at 128 before anything is allocated, but each 4-byte block may reserve 8 KiB -/
theorem bnd_rBitmapSegment (rd : Rdr) : Bnd 1 BITMAP_K 8192 (rBitmapSegment rd) :=
  (Bnd.bind bnd_segmentId' fun id => Bnd.bind (bnd_rU16 1) fun nBlocks => bnd_rBitmapAfterCount rd id nBlocks).mono
    (Nat.le_refl 1) (by omega) (by decide)

theorem noPanic_rBitmapSegment (rd : Rdr) : NoPanic (rBitmapSegment rd) :=
  NoPanic.bind noPanic_segmentId' fun id => NoPanic.bind noPanic_rU16 fun nBlocks =>
    noPanic_rBitmapAfterCount rd id nBlocks

/-! ### segment responses -/

theorem bnd_rSegmentResponse {α : Type} (rd : Rdr) {p : Dec α} {e : Nat} (hp : Bnd 1 0 e p) (sz : Nat) :
    Bnd 1 (81920 + 1024 * sz) (max 32 e) (rSegmentResponse rd p sz) :=
  (Bnd.bind (bnd_rHash rd) fun h => Bnd.bind (bnd_segment rd hp sz) fun s => Bnd.pure 1 (h, s)).mono
    (Nat.le_refl 1) (by omega) (by omega)

theorem noPanic_rSegmentResponse {α : Type} (rd : Rdr) {p : Dec α} (hp : NoPanic p) (sz : Nat)
    (hsz : 1024 * sz ≤ ISIZE_MAX) : NoPanic (rSegmentResponse rd p sz) :=
  NoPanic.bind (noPanic_rHash rd) fun h => NoPanic.bind (noPanic_segment rd hp sz hsz) fun s => NoPanic.pure (h, s)

theorem bnd_rOutputSegmentResponse (rd : Rdr) : Bnd 1 116736 33 (rOutputSegmentResponse rd) :=
  (Bnd.bind (bnd_rSegmentResponse rd (bnd_rOutputId rd) OUTPUT_ID_MEM) fun p =>
    Bnd.bind (bnd_rHash rd) fun root => Bnd.pure 1 (p.1, p.2, root)).mono (Nat.le_refl 1) (by decide) (by decide)

theorem noPanic_rOutputSegmentResponse (rd : Rdr) : NoPanic (rOutputSegmentResponse rd) :=
  NoPanic.bind (noPanic_rSegmentResponse rd (noPanic_rOutputId rd) OUTPUT_ID_MEM (by decide)) fun p =>
    NoPanic.bind (noPanic_rHash rd) fun root => NoPanic.pure (p.1, p.2, root)

theorem bnd_rBitmapSegmentResponse (rd : Rdr) : Bnd 1 BITMAP_K 8192 (rBitmapSegmentResponse rd) :=
  (Bnd.bind (bnd_rHash rd) fun h => Bnd.bind (bnd_rBitmapSegment rd) fun s =>
    Bnd.bind (bnd_rHash rd) fun root => Bnd.pure 1 (h, s, root)).mono (Nat.le_refl 1) (by omega) (by decide)

theorem noPanic_rBitmapSegmentResponse (rd : Rdr) : NoPanic (rBitmapSegmentResponse rd) :=
  NoPanic.bind (noPanic_rHash rd) fun h => NoPanic.bind (noPanic_rBitmapSegment rd) fun s =>
    NoPanic.bind (noPanic_rHash rd) fun root => NoPanic.pure (h, s, root)

/-! ### the payload of `decode_message`, and `decode_message` itself -/

/-- additive constant of any payload: the largest capped pre-allocation (a bitmap segment) plus the
header's constant -/
def payloadK (ps : Nat) : Nat := BITMAP_K + hdrK ps
/-- slack of one failed read -/
def payloadE (ps : Nat) : Nat := 8192 + 675 + hdrE ps

theorem bnd_payload (rd : Rdr) (e : Env) (t : Nat) :
    Bnd CB (payloadK e.cfg.proofSize) (payloadE e.cfg.proofSize) (payload rd e t) := by
  have hK : BITMAP_K = 1085440 := by decide
  unfold payload payloadK payloadE
  split
  · exact (Bnd.map (bnd_rTransaction rd e.cfg) PayloadV.tx).mono (Nat.le_refl _) (by omega) (by omega)
  split
  · exact (Bnd.map (bnd_rUntrustedBlock rd e) PayloadV.block).mono (Nat.le_refl _) (by omega) (by omega)
  split
  · exact (Bnd.map (bnd_rUntrustedCompactBlock rd e) PayloadV.compactBlock).mono (by decide) (by omega) (by omega)
  split
  · exact (Bnd.map (bnd_rUntrustedHeader rd e) PayloadV.header).mono (by decide) (by omega) (by omega)
  split
  · exact (Bnd.map (bnd_rBitmapSegmentResponse rd) _).mono (by decide) (by omega) (by omega)
  split
  · exact (Bnd.map (bnd_rOutputSegmentResponse rd) _).mono (by decide) (by omega) (by omega)
  split
  · exact (Bnd.map (bnd_rSegmentResponse rd (bnd_rRangeProof rd) RANGE_PROOF_MEM) _).mono (by decide)
      (by simp only [RANGE_PROOF_MEM]; omega) (by omega)
  split
  · exact (Bnd.map (bnd_rSegmentResponse rd (bnd_rTxKernel rd e.cfg) KERNEL_MEM) _).mono (by decide)
      (by simp only [KERNEL_MEM]; omega) (by omega)
  · exact (Bnd.fail CB .corrupted).mono (Nat.le_refl _) (Nat.zero_le _) (Nat.zero_le _)

theorem noPanic_payload (rd : Rdr) (e : Env) (hps : e.cfg.proofSize * 8 ≤ ISIZE_MAX) (t : Nat) :
    NoPanic (payload rd e t) := by
  unfold payload
  split
  · exact NoPanic.map (noPanic_rTransaction rd e.cfg) _
  split
  · exact NoPanic.map (noPanic_rUntrustedBlock rd e hps) _
  split
  · exact NoPanic.map (noPanic_rUntrustedCompactBlock rd e hps) _
  split
  · exact NoPanic.map (noPanic_rUntrustedHeader rd e hps) _
  split
  · exact NoPanic.map (noPanic_rBitmapSegmentResponse rd) _
  split
  · exact NoPanic.map (noPanic_rOutputSegmentResponse rd) _
  split
  · exact NoPanic.map (noPanic_rSegmentResponse rd (noPanic_rRangeProof rd) RANGE_PROOF_MEM (by decide)) _
  split
  · exact NoPanic.map (noPanic_rSegmentResponse rd (noPanic_rTxKernel rd e.cfg) KERNEL_MEM (by decide)) _
  · exact NoPanic.fail .corrupted

/-- `bnd_decBody` of `Lemmas/MsgBound.lean` for a payload with coefficient `c ≥ 1` -/
theorem bnd_decBodyC {P : Type} (pl : Payload P) (rd : Rdr) (c k e : Nat) (hc : 1 ≤ c) (hk : 8192 ≤ k) (he : 32 ≤ e)
    (hpl : ∀ t, Bnd c k e (pl t)) (t : Nat) : Bnd c k e (decBody pl rd t) := by
  unfold decBody
  split
  · exact bnd_decPingPong.mono hc (Nat.zero_le _) (Nat.zero_le _)
  split
  · exact (bnd_decBanReason rd).mono hc (Nat.zero_le _) (Nat.zero_le _)
  split
  · exact (bnd_decHashBody rd).mono hc (Nat.zero_le _) he
  split
  · exact (bnd_decLocator rd).mono hc (by omega) he
  split
  · exact bnd_decGetPeerAddrs.mono hc (Nat.zero_le _) (Nat.zero_le _)
  split
  · exact (bnd_decPeerAddrs rd).mono hc hk (by omega)
  split
  · exact (bnd_decTxHashSetRequest rd).mono hc (Nat.zero_le _) he
  split
  · exact (bnd_decTxHashSetArchive rd).mono hc (Nat.zero_le _) he
  split
  · exact (bnd_decSegmentRequest rd).mono hc (Nat.zero_le _) he
  · exact Bnd.map (hpl t) Body.payload

theorem bnd_decodeMessageBody (rd : Rdr) (e : Env) (t : Nat) :
    Bnd CB (payloadK e.cfg.proofSize) (payloadE e.cfg.proofSize) (decodeMessageBody rd e t) :=
  bnd_decBodyC (payload rd e) rd CB _ _ (by decide) (by unfold payloadK BITMAP_K; omega)
    (by unfold payloadE; omega) (bnd_payload rd e) t

end GV.DecSer
