import GrinVerif.Lemmas.ChainImplFork
import GrinVerif.Lemmas.ChainValue
/-! The incremental txhashset model refines the replay of `Model/Chain.lean`. -/
namespace GV.Chain
open TxHS

/-- abstraction: the commitments with an `output_pos` entry are exactly the unspent set of the
replayed state -/
def AbsU (S : TxHS) (s : UState) : Prop := ∀ c, (S.getOutputPos c).isSome = s.has c

/-- one block: if the replayed state accepts the block's inputs and outputs, `apply_block`
succeeds and the abstraction is kept -/
theorem impl_step {S : TxHS} {s : UState} {b : Blk} (hi : RInv S) (ha : AbsU S s) (hs : b.Sane)
    (hct : cutThroughViolation b = false) (hins : ∀ i ∈ b.ins, s.has i = true)
    (houts : ∀ o ∈ b.outs, s.has o.1 = false) :
    ∃ S', applyBlockImpl S b = .ok S' ∧ RInv S' ∧ AbsU S' (effects s b) := by
  have hfresh : ∀ c ∈ b.outs.map (·.1), S.getOutputPos c = none := by
    intro c hc
    obtain ⟨o, ho, hoc⟩ := List.mem_map.mp hc
    have := ha c
    rw [← hoc, houts o ho] at this
    rw [← hoc]
    cases h : S.getOutputPos o.1 with
    | none => rfl
    | some cp => rw [h] at this; cases this
  obtain ⟨S', hS'⟩ := applyBlockImpl_of hi hct hs.1 hs.2 hfresh
    (fun c hc => by rw [ha c]; exact hins c hc)
  obtain ⟨sp, A⟩ := applyBlockImpl_ok hi hct hS'
  refine ⟨S', hS', A.rinv, ?_⟩
  intro c
  rw [effects_has]
  have hcut := (cutThrough_false_iff b).mp hct
  by_cases hc : c ∈ b.ins
  · have hno : c ∉ b.outs.map (·.1) := hcut c hc
    have h2 : b.outs.any (·.1 == c) = false := by
      apply Bool.eq_false_iff.mpr
      intro ht
      obtain ⟨o, ho, hoc⟩ := List.any_eq_true.mp ht
      exact hno (List.mem_map.mpr ⟨o, ho, by simpa using hoc⟩)
    rw [A.idxIn c hc, h2]
    simp [hc]
  · by_cases ho : c ∈ b.outs.map (·.1)
    · obtain ⟨i, e, _⟩ := A.idxOut c ho
      obtain ⟨o, ho', hoc⟩ := List.mem_map.mp ho
      have h2 : b.outs.any (·.1 == c) = true := List.any_eq_true.mpr ⟨o, ho', by simp [hoc]⟩
      rw [e, h2]; simp
    · have h2 : b.outs.any (·.1 == c) = false := by
        apply Bool.eq_false_iff.mpr
        intro ht
        obtain ⟨o, ho', hoc⟩ := List.any_eq_true.mp ht
        exact ho (List.mem_map.mpr ⟨o, ho', by simpa using hoc⟩)
      rw [A.idxOther c hc ho, h2, ha c]
      simp [hc]

/-- a whole path: if `replay` accepts it, folding `applyBlockImpl` succeeds and ends in a
txhashset whose indexed commitments are exactly the replayed unspent set -/
theorem impl_replay (p : Params) (bs : List Blk) : ∀ {S : TxHS} {s s' : UState}, RInv S → AbsU S s →
    (∀ b ∈ bs, b.Sane ∧ cutThroughViolation b = false) → replay p s bs = .ok s' →
    ∃ S', applyBlocks S bs = .ok S' ∧ RInv S' ∧ AbsU S' s' := by
  induction bs with
  | nil =>
    intro S s s' hi ha _ hr
    simp only [replay] at hr
    injection hr with hr
    subst hr
    exact ⟨S, rfl, hi, ha⟩
  | cons b bs ih =>
    intro S s s' hi ha hb hr
    simp only [replay] at hr
    cases h1 : applyBlock p s b with
    | error e => simp only [h1] at hr; cases hr
    | ok s1 =>
      simp only [h1] at hr
      obtain ⟨hins, houts, _, _, he⟩ := applyBlock_ok p s s1 b h1
      obtain ⟨hs, hct⟩ := hb b (List.mem_cons_self ..)
      obtain ⟨S1, hS1, hi1, ha1⟩ := impl_step hi ha hs hct hins houts
      obtain ⟨S', hS', r⟩ := ih hi1 (he ▸ ha1) (fun b' hb' => hb b' (List.mem_cons_of_mem _ hb')) hr
      exact ⟨S', by simp only [applyBlocks, hS1, hS'], r⟩

theorem absU_empty : AbsU {} {} := by
  intro c; rfl

theorem genesisState_has (g : Blk) (c : Nat) :
    (genesisState g).has c = (effects {} g).has c := by
  simp [UState.has, genesisState, effects, List.any_map]
  rfl

/-- the genesis block -/
theorem impl_genesis (g : Blk) (hgi : g.ins = []) (hgo : (g.outs.map (·.1)).Nodup) :
    ∃ S0, applyBlockImpl {} g = .ok S0 ∧ RInv S0 ∧ AbsU S0 (genesisState g) := by
  have hct : cutThroughViolation g = false := by
    apply (cutThrough_false_iff g).mpr; intro c hc; rw [hgi] at hc; cases hc
  obtain ⟨S0, h0, hi0, ha0⟩ := impl_step (S := {}) (s := {}) (b := g) RInv.empty absU_empty
    ⟨hgi ▸ List.nodup_nil, hgo⟩ hct (fun i hi => by rw [hgi] at hi; cases hi)
    (fun o _ => rfl)
  exact ⟨S0, h0, hi0, fun c => by rw [ha0 c, genesisState_has]⟩

/-- with the invariant, the reported set is the set of indexed commitments -/
theorem reported_iff {S : TxHS} (hi : RInv S) (c : Nat) :
    c ∈ S.reported ↔ (S.getOutputPos c).isSome = true := by
  unfold TxHS.reported
  rw [List.mem_filter, hi.getUnspent_eq]
  constructor
  · exact fun h => h.2
  · intro h
    refine ⟨?_, h⟩
    unfold TxHS.getOutputPos at h
    cases hf : S.outputPos.find? (·.1 == c) with
    | none => rw [hf] at h; cases h
    | some e =>
      have h1 := List.mem_of_find?_eq_some hf
      have h2 := List.find?_some hf
      exact List.mem_map.mpr ⟨e, h1, by simpa using h2⟩

/-- after every applied block with at least one output the last output leaf is unspent -/
theorem last_leaf_unspent_of {S S' : TxHS} {b : Blk} {sp : List (Nat × CommitPos)}
    (A : BlockApplied S S' b sp) (hne : b.outs ≠ []) : S'.leaves.length - 1 ∈ S'.leafSet := by
  have hk : 0 < b.outs.length := List.length_pos_iff.mpr hne
  rw [A.leafSet]
  right
  rw [A.leaves]
  simp only [List.length_append, List.length_map]
  omega

/-- a body that passes `verify_coinbase` with a non-zero claim has at least one output -/
theorem outs_ne_nil_of_coinbase (p : Params) (outs : List OutDef) (b : Blk)
    (h : coinbaseMismatch p outs b = false) (hpos : 0 < p.reward + b.fees) : b.outs ≠ [] := by
  intro he
  unfold coinbaseMismatch at h
  simp only [he, List.filter_nil, List.map_nil, Bool.or_eq_false_iff, decide_eq_false_iff_not,
    Decidable.not_not] at h
  have : sumVals outs [] = 0 := rfl
  omega

end GV.Chain

namespace GV.Chain
open TxHS

/-- abstraction of the recorded heights: the height stored with an `output_pos` entry is the
creation height of that unspent output in the replayed state -/
def AbsH (S : TxHS) (s : UState) : Prop :=
  ∀ c cp, S.getOutputPos c = some cp → ∃ cb, (c, cp.height, cb) ∈ s.utxo

theorem absH_step {S S' : TxHS} {s : UState} {b : Blk} {sp : List (Nat × CommitPos)}
    (A : BlockApplied S S' b sp) (ha : AbsH S s) : AbsH S' (effects s b) := by
  intro c cp hg
  by_cases hc : c ∈ b.ins
  · rw [A.idxIn c hc] at hg; cases hg
  · by_cases ho : c ∈ b.outs.map (·.1)
    · obtain ⟨i, e, _⟩ := A.idxOut c ho
      rw [e] at hg
      injection hg with hg
      subst hg
      obtain ⟨o, ho', hoc⟩ := List.mem_map.mp ho
      refine ⟨o.2, ?_⟩
      simp only [effects, List.mem_append, List.mem_map]
      right
      exact ⟨o, ho', by rw [← hoc]⟩
    · rw [A.idxOther c hc ho] at hg
      obtain ⟨cb, hm⟩ := ha c cp hg
      refine ⟨cb, ?_⟩
      simp only [effects, List.mem_append, List.mem_filter]
      left
      exact ⟨hm, by simpa using hc⟩

/-- the heights recorded by the incremental txhashset along a path are the creation heights of the
replay (the genesis outputs at the genesis block's own height) -/
theorem impl_replay_heights (p : Params) (bs : List Blk) : ∀ {S S' : TxHS} {s s' : UState}, RInv S →
    AbsH S s → (∀ b ∈ bs, cutThroughViolation b = false) → replay p s bs = .ok s' →
    applyBlocks S bs = .ok S' → AbsH S' s' := by
  induction bs with
  | nil =>
    intro S S' s s' _ ha _ hr hS
    simp only [replay] at hr
    simp only [applyBlocks] at hS
    injection hr with hr
    injection hS with hS
    subst hr hS
    exact ha
  | cons b bs ih =>
    intro S S' s s' hi ha hct hr hS
    simp only [replay] at hr
    simp only [applyBlocks] at hS
    cases h1 : applyBlock p s b with
    | error e => simp only [h1] at hr; cases hr
    | ok s1 =>
      simp only [h1] at hr
      cases h2 : applyBlockImpl S b with
      | error e => simp only [h2] at hS; cases hS
      | ok S1 =>
        simp only [h2] at hS
        obtain ⟨sp, A⟩ := applyBlockImpl_ok hi (hct b (List.mem_cons_self ..)) h2
        have he := (applyBlock_ok p s s1 b h1).2.2.2.2
        exact ih A.rinv (he ▸ absH_step A ha) (fun b' hb' => hct b' (List.mem_cons_of_mem _ hb')) hr hS

end GV.Chain
