import GrinVerif.Model.Dec
import GrinVerif.Lemmas.SerPrim
/-! Bound calculus for the instrumented decoders (`Model/Dec.lean`):

* `Bnd c k e p` — on every input, `p` leaves a suffix-length rest and has requested at most
  `c * consumed + k` bytes when it succeeds and at most `c * input + k + e` when it fails (or panics);
  `k` adds up along `?`-sequencing, `e` (the slack of one failing read that allocated before reading)
  does not;
* `NoPanic p` — `p` never takes a `panic` branch;
* `Prog p` — a successful `p` consumes at least one byte (loop progress).
-/
namespace GV.Dec
open GV GV.Ser

variable {α β : Type}

theorem bind_ok (a : α) (r : Bytes) (n : Nat) (f : α → Bytes → Outcome β) :
    GV.Dec.bind (.ok a r n) f = (f a r).addAlloc n := rfl
theorem bind_err (e : SerErr) (n : Nat) (f : α → Bytes → Outcome β) :
    GV.Dec.bind (.err e n : Outcome α) f = .err e n := rfl
theorem bind_panic (s : Site) (n : Nat) (f : α → Bytes → Outcome β) :
    GV.Dec.bind (.panic s n : Outcome α) f = .panic s n := rfl

/-- the bound on one outcome, for an input of length `len` -/
def OBnd (c k e len : Nat) : Outcome α → Prop
  | .ok _ r n => r.length ≤ len ∧ n ≤ c * (len - r.length) + k
  | .err _ n => n ≤ c * len + k + e
  | .panic _ n => n ≤ c * len + k + e

@[simp] theorem OBnd_ok (c k e len : Nat) (a : α) (r : Bytes) (n : Nat) :
    OBnd c k e len (.ok a r n) = (r.length ≤ len ∧ n ≤ c * (len - r.length) + k) := rfl
@[simp] theorem OBnd_err (c k e len : Nat) (x : SerErr) (n : Nat) :
    OBnd c k e len (.err x n : Outcome α) = (n ≤ c * len + k + e) := rfl
@[simp] theorem OBnd_panic (c k e len : Nat) (x : Site) (n : Nat) :
    OBnd c k e len (.panic x n : Outcome α) = (n ≤ c * len + k + e) := rfl

def Bnd (c k e : Nat) (p : Dec α) : Prop := ∀ bs, OBnd c k e bs.length (p bs)

def NoPanic (p : Dec α) : Prop := ∀ bs, (p bs).isPanic = false

/-- a successful read consumes at least one byte -/
def Prog (p : Dec α) : Prop := ∀ bs a r n, p bs = .ok a r n → r.length < bs.length

theorem mul_sub_chain (c a b d : Nat) (h1 : d ≤ b) (h2 : b ≤ a) :
    c * (a - b) + c * (b - d) = c * (a - d) := by
  rw [← Nat.mul_add]; congr 1; omega

theorem mul_sub_add (c a b : Nat) (h : b ≤ a) : c * (a - b) + c * b = c * a := by
  rw [← Nat.mul_add]; congr 1; omega

theorem mul_sub_le (c a b : Nat) : c * (a - b) ≤ c * a := Nat.mul_le_mul_left c (Nat.sub_le a b)

/-- the headline consequence: total requested allocation ≤ `c * input + (k + e)` -/
theorem Bnd.alloc_le {c k e : Nat} {p : Dec α} (h : Bnd c k e p) (bs : Bytes) :
    (p bs).alloc ≤ c * bs.length + (k + e) := by
  have := h bs
  cases hp : p bs with
  | ok a r n =>
    rw [hp] at this; simp only [OBnd_ok] at this
    have := mul_sub_le c bs.length r.length
    simp only [Outcome.alloc]; omega
  | err e' n => rw [hp] at this; simp only [OBnd_err] at this; simp only [Outcome.alloc]; omega
  | panic s n => rw [hp] at this; simp only [OBnd_panic] at this; simp only [Outcome.alloc]; omega

theorem OBnd.mono {c k e c' k' e' len : Nat} {o : Outcome α} (h : OBnd c k e len o)
    (hc : c ≤ c') (hk : k ≤ k') (he : e ≤ e') : OBnd c' k' e' len o := by
  have m1 : ∀ x, c * x ≤ c' * x := fun x => Nat.mul_le_mul_right x hc
  cases o with
  | ok a r n => simp only [OBnd_ok] at h ⊢; have := m1 (len - r.length); omega
  | err e0 n => simp only [OBnd_err] at h ⊢; have := m1 len; omega
  | panic s n => simp only [OBnd_panic] at h ⊢; have := m1 len; omega

theorem Bnd.mono {c k e c' k' e' : Nat} {p : Dec α} (h : Bnd c k e p)
    (hc : c ≤ c') (hk : k ≤ k') (he : e ≤ e') : Bnd c' k' e' p :=
  fun bs => (h bs).mono hc hk he

theorem Bnd.bind {c k1 e1 k2 e2 : Nat} {p : Dec α} {f : α → Dec β}
    (hp : Bnd c k1 e1 p) (hf : ∀ a, Bnd c k2 e2 (f a)) :
    Bnd c (k1 + k2) (max e1 e2) (fun bs => GV.Dec.bind (p bs) f) := by
  intro bs
  have h1 := hp bs
  show OBnd _ _ _ _ (GV.Dec.bind (p bs) f)
  cases hpb : p bs with
  | ok a r n =>
    rw [hpb] at h1; simp only [OBnd_ok] at h1
    have h2 := hf a r
    simp only [GV.Dec.bind]
    cases hfa : f a r with
    | ok b r' m =>
      rw [hfa] at h2; simp only [OBnd_ok] at h2
      simp only [Outcome.addAlloc, OBnd_ok]
      have := mul_sub_chain c bs.length r.length r'.length h2.1 h1.1
      refine ⟨by omega, ?_⟩
      omega
    | err e' m =>
      rw [hfa] at h2; simp only [OBnd_err] at h2
      simp only [Outcome.addAlloc, OBnd_err]
      have := mul_sub_add c bs.length r.length h1.1
      omega
    | panic s m =>
      rw [hfa] at h2; simp only [OBnd_panic] at h2
      simp only [Outcome.addAlloc, OBnd_panic]
      have := mul_sub_add c bs.length r.length h1.1
      omega
  | err e' n => rw [hpb] at h1; simp only [OBnd_err] at h1; simp only [GV.Dec.bind, OBnd_err]; omega
  | panic s n => rw [hpb] at h1; simp only [OBnd_panic] at h1; simp only [GV.Dec.bind, OBnd_panic]; omega

/-- a pure result allocates nothing -/
theorem Bnd.pure (c : Nat) (a : α) : Bnd c 0 0 (fun bs => (.ok a bs 0 : Outcome α)) := by
  intro bs; simp

theorem Bnd.fail (c : Nat) (e : SerErr) : Bnd c 0 0 (fun _ => (.err e 0 : Outcome α)) := by
  intro bs; simp

theorem Bnd.panic0 (c : Nat) (st : Site) : Bnd c 0 0 (fun _ => (.panic st 0 : Outcome α)) := by
  intro bs; simp

/-- lifted `Ser` parsers whose rest is never longer than the input -/
theorem Bnd.lift {q : Parser α} (hq : ∀ bs a r, q bs = .ok (a, r) → r.length ≤ bs.length) (c : Nat) :
    Bnd c 0 0 (fun bs => GV.Dec.lift (q bs)) := by
  intro bs
  show OBnd _ _ _ _ (GV.Dec.lift (q bs))
  cases h : q bs with
  | ok v => obtain ⟨a, r⟩ := v; simp only [GV.Dec.lift, OBnd_ok]; exact ⟨hq bs a r h, Nat.zero_le _⟩
  | error e => simp [GV.Dec.lift]

theorem readU8_len {bs : Bytes} {a : Nat} {r : Bytes} (h : readU8 bs = .ok (a, r)) : r.length + 1 = bs.length := by
  cases bs with
  | nil => simp [readU8] at h
  | cons b t => simp only [readU8, Except.ok.injEq, Prod.mk.injEq] at h; simp [← h.2]

theorem readU16_len {bs : Bytes} {a : Nat} {r : Bytes} (h : readU16 bs = .ok (a, r)) : r.length + 2 = bs.length := by
  match bs, h with
  | b0 :: b1 :: t, h => simp only [readU16, Except.ok.injEq, Prod.mk.injEq] at h; simp [← h.2]

theorem readU32_len {bs : Bytes} {a : Nat} {r : Bytes} (h : readU32 bs = .ok (a, r)) : r.length + 4 = bs.length := by
  match bs, h with
  | b0 :: b1 :: b2 :: b3 :: t, h => simp only [readU32, Except.ok.injEq, Prod.mk.injEq] at h; simp [← h.2]

theorem readU64_len {bs : Bytes} {a : Nat} {r : Bytes} (h : readU64 bs = .ok (a, r)) : r.length + 8 = bs.length := by
  match bs, h with
  | b0 :: b1 :: b2 :: b3 :: b4 :: b5 :: b6 :: b7 :: t, h =>
    simp only [readU64, Except.ok.injEq, Prod.mk.injEq] at h; simp [← h.2]

theorem expectU8_len {v : Nat} {bs : Bytes} {a : Nat} {r : Bytes} (h : expectU8 v bs = .ok (a, r)) :
    r.length + 1 = bs.length := by
  unfold expectU8 at h
  cases h1 : readU8 bs with
  | error e => simp [h1] at h
  | ok p =>
    obtain ⟨b, r'⟩ := p
    simp only [h1] at h
    split at h
    · simp only [Except.ok.injEq, Prod.mk.injEq] at h
      have := readU8_len h1; rw [← h.2]; exact this
    · simp at h

theorem bnd_rU8 (c : Nat) : Bnd c 0 0 rU8 := Bnd.lift (fun _ _ _ h => by have := readU8_len h; omega) c
theorem bnd_rU16 (c : Nat) : Bnd c 0 0 rU16 := Bnd.lift (fun _ _ _ h => by have := readU16_len h; omega) c
theorem bnd_rU32 (c : Nat) : Bnd c 0 0 rU32 := Bnd.lift (fun _ _ _ h => by have := readU32_len h; omega) c
theorem bnd_rU64 (c : Nat) : Bnd c 0 0 rU64 := Bnd.lift (fun _ _ _ h => by have := readU64_len h; omega) c
theorem bnd_rExpectU8 (c v : Nat) : Bnd c 0 0 (rExpectU8 v) :=
  Bnd.lift (fun _ _ _ h => by have := expectU8_len h; omega) c

theorem splitExact_len {n : Nat} {bs x r : Bytes} (h : splitExact n bs = some (x, r)) :
    x.length = n ∧ r.length + n = bs.length := by
  have := splitExact_some h
  obtain ⟨h1, h2⟩ := this
  subst h1
  refine ⟨h2, ?_⟩
  simp [List.length_append, h2]; omega

/-- `read_fixed_bytes(len)`: allocation = bytes consumed; a failing `BinReader` read has requested `len` -/
theorem bnd_rFixed (rd : Rdr) (len : Nat) : Bnd 1 0 (min len MAX_FIXED_READ) (rFixed rd len) := by
  intro bs
  unfold rFixed
  by_cases hle : len > MAX_FIXED_READ
  · rw [if_pos hle]; simp
  · rw [if_neg hle]
    cases h : splitExact len bs with
    | some p =>
      obtain ⟨x, r⟩ := p
      have := splitExact_len h
      simp only [OBnd_ok]; omega
    | none =>
      cases rd <;> simp only [OBnd_err] <;> omega

theorem bnd_rHash (rd : Rdr) : Bnd 1 0 32 (rHash rd) := by
  have := bnd_rFixed rd 32
  simpa [rHash, MAX_FIXED_READ] using this

theorem bnd_rBytesLenPrefix (rd : Rdr) : Bnd 1 0 MAX_FIXED_READ (rBytesLenPrefix rd) := by
  have h := Bnd.bind (bnd_rU64 1) (fun len => (bnd_rFixed rd len).mono (Nat.le_refl _) (Nat.le_refl _)
    (Nat.min_le_right len MAX_FIXED_READ))
  simp only [Nat.add_zero, Nat.zero_max] at h
  exact h

/-- a loop of `n` reads, each proportional: the count does not enter the bound -/
theorem Bnd.readN {c e : Nat} {p : Dec α} (hp : Bnd c 0 e p) (n : Nat) : Bnd c 0 e (GV.Dec.readN p n) := by
  induction n with
  | zero => intro bs; simp [GV.Dec.readN]
  | succ n ih =>
    have h := Bnd.bind hp (fun x => Bnd.bind (k2 := 0) (e2 := 0) ih (fun xs => Bnd.pure c (x :: xs)))
    simp only [Nat.add_zero, Nat.max_zero, Nat.max_self] at h
    intro bs
    have := h bs
    simpa [GV.Dec.readN] using this

theorem OBnd.addAlloc {c k e len A : Nat} {o : Outcome α} (h : OBnd c k e len o) :
    OBnd c (A + k) e len (o.addAlloc A) := by
  cases o with
  | ok a r m => simp only [OBnd_ok, Outcome.addAlloc] at h ⊢; omega
  | err e' m => simp only [OBnd_err, Outcome.addAlloc] at h ⊢; omega
  | panic s m => simp only [OBnd_panic, Outcome.addAlloc] at h ⊢; omega

/-- `Vec::with_capacity(n)` in front of a bounded computation adds its request to `k` -/
theorem Bnd.withCapacity {c k e A : Nat} {p : Dec α} (hp : Bnd c k e p) (n sz : Nat) (hA : n * sz ≤ A) :
    Bnd c (A + k) e (fun bs => GV.Dec.withCapacity n sz (p bs)) := by
  intro bs
  have := hp bs
  show OBnd _ _ _ _ (GV.Dec.withCapacity n sz (p bs))
  unfold GV.Dec.withCapacity
  split
  · simp
  · exact (OBnd.addAlloc (A := n * sz) this).mono (Nat.le_refl _) (by omega) (Nat.le_refl _)

theorem Bnd.ite {c k e : Nat} {p q : Dec α} (b : Prop) [Decidable b] (hp : Bnd c k e p) (hq : Bnd c k e q) :
    Bnd c k e (fun bs => if b then p bs else q bs) := by
  intro bs
  show OBnd _ _ _ _ (if b then p bs else q bs)
  split
  · exact hp bs
  · exact hq bs

/-- `if` whose branches may use the guard -/
theorem Bnd.iteH {c k e : Nat} {p q : Dec α} (b : Prop) [Decidable b] (hp : b → Bnd c k e p)
    (hq : ¬ b → Bnd c k e q) : Bnd c k e (fun bs => if b then p bs else q bs) := by
  intro bs
  show OBnd _ _ _ _ (if b then p bs else q bs)
  by_cases hb : b
  · rw [if_pos hb]; exact hp hb bs
  · rw [if_neg hb]; exact hq hb bs

theorem Bnd.map {c k e : Nat} {p : Dec α} (hp : Bnd c k e p) (f : α → β) :
    Bnd c k e (fun bs => (p bs).map f) := by
  intro bs
  have := hp bs
  show OBnd _ _ _ _ ((p bs).map f)
  cases h : p bs <;> rw [h] at this <;> simpa [Outcome.map] using this

/-! ### no-panic calculus -/

theorem NoPanic.bind {p : Dec α} {f : α → Dec β} (hp : NoPanic p) (hf : ∀ a, NoPanic (f a)) :
    NoPanic (fun bs => GV.Dec.bind (p bs) f) := by
  intro bs
  have h1 := hp bs
  show (GV.Dec.bind (p bs) f).isPanic = false
  cases hpb : p bs with
  | ok a r n =>
    have h2 := hf a r
    simp only [GV.Dec.bind]
    cases hfa : f a r <;> simp_all [Outcome.addAlloc, Outcome.isPanic]
  | err e n => simp [GV.Dec.bind, Outcome.isPanic]
  | panic s n => simp [hpb, Outcome.isPanic] at h1

theorem NoPanic.lift (q : Parser α) : NoPanic (fun bs => GV.Dec.lift (q bs)) := by
  intro bs
  show (GV.Dec.lift (q bs)).isPanic = false
  cases h : q bs with
  | ok v => obtain ⟨a, r⟩ := v; simp [GV.Dec.lift, Outcome.isPanic]
  | error e => simp [GV.Dec.lift, Outcome.isPanic]

theorem NoPanic.pure (a : α) : NoPanic (fun bs => (.ok a bs 0 : Outcome α)) := by intro bs; rfl
theorem NoPanic.fail (e : SerErr) : NoPanic (fun _ => (.err e 0 : Outcome α)) := by intro bs; rfl

theorem noPanic_rU8 : NoPanic rU8 := NoPanic.lift _
theorem noPanic_rU16 : NoPanic rU16 := NoPanic.lift _
theorem noPanic_rU32 : NoPanic rU32 := NoPanic.lift _
theorem noPanic_rU64 : NoPanic rU64 := NoPanic.lift _
theorem noPanic_rExpectU8 (v : Nat) : NoPanic (rExpectU8 v) := NoPanic.lift _

theorem noPanic_rFixed (rd : Rdr) (len : Nat) : NoPanic (rFixed rd len) := by
  intro bs; unfold rFixed; split
  · rfl
  · cases splitExact len bs with
    | some p => rfl
    | none => rfl

theorem noPanic_rHash (rd : Rdr) : NoPanic (rHash rd) := noPanic_rFixed rd 32

theorem noPanic_rBytesLenPrefix (rd : Rdr) : NoPanic (rBytesLenPrefix rd) :=
  NoPanic.bind noPanic_rU64 (fun len => noPanic_rFixed rd len)

theorem NoPanic.readN {p : Dec α} (hp : NoPanic p) (n : Nat) : NoPanic (GV.Dec.readN p n) := by
  induction n with
  | zero => intro bs; rfl
  | succ n ih =>
    have := NoPanic.bind hp (fun x => NoPanic.bind ih (fun xs => NoPanic.pure (x :: xs)))
    intro bs; simpa [GV.Dec.readN] using this bs

theorem NoPanic.withCapacity {p : Dec α} (hp : NoPanic p) (n sz : Nat) (h : n * sz ≤ ISIZE_MAX) :
    NoPanic (fun bs => GV.Dec.withCapacity n sz (p bs)) := by
  intro bs
  show (GV.Dec.withCapacity n sz (p bs)).isPanic = false
  unfold GV.Dec.withCapacity
  rw [if_neg (by omega)]
  have := hp bs
  cases hp' : p bs <;> simp_all [Outcome.addAlloc, Outcome.isPanic]

theorem NoPanic.ite {p q : Dec α} (b : Prop) [Decidable b] (hp : NoPanic p) (hq : NoPanic q) :
    NoPanic (fun bs => if b then p bs else q bs) := by
  intro bs
  show (if b then p bs else q bs).isPanic = false
  split
  · exact hp bs
  · exact hq bs

theorem NoPanic.iteH {p q : Dec α} (b : Prop) [Decidable b] (hp : b → NoPanic p) (hq : ¬ b → NoPanic q) :
    NoPanic (fun bs => if b then p bs else q bs) := by
  intro bs
  show (if b then p bs else q bs).isPanic = false
  by_cases hb : b
  · rw [if_pos hb]; exact hp hb bs
  · rw [if_neg hb]; exact hq hb bs

theorem NoPanic.map {p : Dec α} (hp : NoPanic p) (f : α → β) : NoPanic (fun bs => (p bs).map f) := by
  intro bs
  have := hp bs
  show ((p bs).map f).isPanic = false
  cases h : p bs <;> simp_all [Outcome.map, Outcome.isPanic]

/-! ### progress -/

/-- the number of items a `readN` loop produced is at most the number of bytes it consumed:
the loop cannot spin on an exhausted input, whatever count was announced -/
theorem readN_progress {p : Dec α} (hp : Prog p) :
    ∀ (k : Nat) (bs : Bytes) (xs : List α) (r : Bytes) (n : Nat),
      readN p k bs = .ok xs r n → xs.length + r.length ≤ bs.length := by
  intro k
  induction k with
  | zero => intro bs xs r n h; simp only [GV.Dec.readN, Outcome.ok.injEq] at h; simp [← h.1, ← h.2.1]
  | succ k ih =>
    intro bs xs r n h
    simp only [GV.Dec.readN, GV.Dec.bind] at h
    cases h1 : p bs with
    | err e m => simp [h1] at h
    | panic s m => simp [h1] at h
    | ok x r1 m =>
      simp only [h1] at h
      cases h2 : readN p k r1 with
      | err e m' => simp [h2, Outcome.addAlloc] at h
      | panic s m' => simp [h2, Outcome.addAlloc] at h
      | ok ys r2 m' =>
        simp only [h2, Outcome.addAlloc, Outcome.ok.injEq] at h
        have := ih r1 ys r2 m' h2
        have := hp bs x r1 m h1
        rw [← h.1, ← h.2.1]; simp only [List.length_cons]; omega

/-- items produced = count announced, when the loop succeeds -/
theorem readN_length {p : Dec α} :
    ∀ (k : Nat) (bs : Bytes) (xs : List α) (r : Bytes) (n : Nat),
      readN p k bs = .ok xs r n → xs.length = k := by
  intro k
  induction k with
  | zero => intro bs xs r n h; simp only [GV.Dec.readN, Outcome.ok.injEq] at h; simp [← h.1]
  | succ k ih =>
    intro bs xs r n h
    simp only [GV.Dec.readN, GV.Dec.bind] at h
    cases h1 : p bs with
    | err e m => simp [h1] at h
    | panic s m => simp [h1] at h
    | ok x r1 m =>
      simp only [h1] at h
      cases h2 : readN p k r1 with
      | err e m' => simp [h2, Outcome.addAlloc] at h
      | panic s m' => simp [h2, Outcome.addAlloc] at h
      | ok ys r2 m' =>
        simp only [h2, Outcome.addAlloc, Outcome.ok.injEq] at h
        have := ih r1 ys r2 m' h2
        rw [← h.1]; simp [this]

theorem Bnd.rest_le {c k e : Nat} {p : Dec α} (h : Bnd c k e p) {bs : Bytes} {a : α} {r : Bytes} {n : Nat}
    (hp : p bs = .ok a r n) : r.length ≤ bs.length := by
  have := h bs
  rw [hp] at this
  exact this.1

/-- `p` makes progress and what follows never un-reads: the sequence makes progress -/
theorem Prog.bind {p : Dec α} {f : α → Dec β} (hp : Prog p)
    (hf : ∀ a bs b r n, f a bs = .ok b r n → r.length ≤ bs.length) :
    Prog (fun bs => GV.Dec.bind (p bs) f) := by
  intro bs b r n h
  change GV.Dec.bind (p bs) f = .ok b r n at h
  cases hpb : p bs with
  | err e m => rw [hpb] at h; simp [GV.Dec.bind] at h
  | panic s m => rw [hpb] at h; simp [GV.Dec.bind] at h
  | ok a r1 m =>
    rw [hpb] at h
    simp only [GV.Dec.bind] at h
    cases hfa : f a r1 with
    | err e k => rw [hfa] at h; simp [Outcome.addAlloc] at h
    | panic s k => rw [hfa] at h; simp [Outcome.addAlloc] at h
    | ok b' r2 k =>
      rw [hfa] at h
      simp only [Outcome.addAlloc, Outcome.ok.injEq] at h
      have := hf a r1 b' r2 k hfa
      have := hp bs a r1 m hpb
      rw [← h.2.1]; omega

theorem prog_rU8 : Prog rU8 := by
  intro bs a r n h
  unfold rU8 GV.Dec.lift at h
  cases h1 : readU8 bs with
  | error e => simp [h1] at h
  | ok p =>
    obtain ⟨a', r'⟩ := p
    simp only [h1, Outcome.ok.injEq] at h
    have := readU8_len h1; rw [← h.2.1]; omega

theorem prog_rU64 : Prog rU64 := by
  intro bs a r n h
  unfold rU64 GV.Dec.lift at h
  cases h1 : readU64 bs with
  | error e => simp [h1] at h
  | ok p =>
    obtain ⟨a', r'⟩ := p
    simp only [h1, Outcome.ok.injEq] at h
    have := readU64_len h1; rw [← h.2.1]; omega

theorem prog_rFixed (rd : Rdr) (len : Nat) (hl : 0 < len) : Prog (rFixed rd len) := by
  intro bs a r n h
  unfold rFixed at h
  split at h
  · simp at h
  · cases hs : splitExact len bs with
    | none => simp [hs] at h
    | some p =>
      obtain ⟨x, r'⟩ := p
      simp only [hs, Outcome.ok.injEq] at h
      have := splitExact_len hs
      rw [← h.2.1]; omega

theorem prog_rHash (rd : Rdr) : Prog (rHash rd) := prog_rFixed rd 32 (by decide)

theorem prog_rU16 : Prog rU16 := by
  intro bs a r n h
  unfold rU16 GV.Dec.lift at h
  cases h1 : readU16 bs with
  | error e => simp [h1] at h
  | ok p =>
    obtain ⟨a', r'⟩ := p
    simp only [h1, Outcome.ok.injEq] at h
    have := readU16_len h1; rw [← h.2.1]; omega

end GV.Dec
