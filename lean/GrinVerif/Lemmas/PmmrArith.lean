import GrinVerif.Model.Pmmr
/-! Helper lemmas for the PMMR position arithmetic (C07; reused by C08, C15, C16).
Core Lean only. -/
namespace GV.Pmmr
open GV

theorem popcount_le (n : Nat) : popcount n ≤ n := by
  induction n using Nat.strongRecOn with
  | _ n ih =>
    cases n with
    | zero => simp [popcount]
    | succ m =>
      rw [popcount]
      have := ih ((m+1)/2) (by omega)
      omega

theorem trailingOnes_le_popcount (n : Nat) : trailingOnes n ≤ popcount n := by
  induction n using Nat.strongRecOn with
  | _ n ih =>
    cases n with
    | zero => simp [trailingOnes, popcount]
    | succ m =>
      rw [trailingOnes, popcount]
      have := ih ((m+1)/2) (by omega)
      split <;> omega

theorem popcount_add_pow (k m : Nat) (h : m < 2^k) : popcount (2^k + m) = 1 + popcount m := by
  induction k generalizing m with
  | zero =>
    have : m = 0 := by simpa using h
    subst this; simp [popcount]
  | succ k ih =>
    have hp : 2^(k+1) = 2 * 2^k := by rw [Nat.pow_succ]; omega
    have hpos : 0 < 2^k := Nat.pow_pos (by omega)
    have e1 : 2^(k+1) + m = (2^(k+1) + m - 1) + 1 := by omega
    rw [e1, popcount, ← e1]
    have hdiv : (2^(k+1) + m) / 2 = 2^k + m/2 := by omega
    have hmod : (2^(k+1) + m) % 2 = m % 2 := by omega
    rw [hdiv, hmod, ih (m/2) (by omega)]
    cases m with
    | zero => simp [popcount]
    | succ m' => rw [popcount]; omega

theorem mmr_add_pow (k m : Nat) (h : m < 2^k) : mmr (2^k + m) = (2^(k+1) - 1) + mmr m := by
  unfold mmr
  rw [popcount_add_pow k m h]
  have := popcount_le m
  have hp : 2^(k+1) = 2 * 2^k := by rw [Nat.pow_succ]; omega
  have hpos : 0 < 2^k := Nat.pow_pos (by omega)
  omega

theorem trailingOnes_add_mul (k a m : Nat) (h : m < 2^k) :
    trailingOnes (a * 2^(k+1) + m) = trailingOnes m := by
  induction k generalizing m with
  | zero =>
    have : m = 0 := by simpa using h
    subst this
    cases ha : a * 2 ^ (0+1) + 0 with
    | zero => simp [trailingOnes]
    | succ n =>
      rw [trailingOnes]
      have : (n+1) % 2 = 0 := by rw [← ha]; omega
      simp [this, trailingOnes]
  | succ k ih =>
    have hp : 2^(k+1+1) = 2 * 2^(k+1) := by rw [Nat.pow_succ]; omega
    have hp' : 2^(k+1) = 2 * 2^k := by rw [Nat.pow_succ]; omega
    have hA : a * 2^(k+1+1) = 2 * (a * 2^(k+1)) := by rw [hp]; ac_rfl
    cases hn : a * 2 ^ (k+1+1) + m with
    | zero =>
      have : m = 0 := by omega
      subst this; simp [trailingOnes]
    | succ n =>
      rw [trailingOnes]
      have hdiv : (n+1) / 2 = a * 2^(k+1) + m/2 := by rw [← hn, hA]; omega
      have hmod : (n+1) % 2 = m % 2 := by rw [← hn, hA]; omega
      rw [hdiv, hmod, ih (m/2) (by omega)]
      cases m with
      | zero => simp [trailingOnes]
      | succ m' => rw [trailingOnes]

/-- the greedy peak subtraction recovers the (leaf count, height) coordinates -/
theorem greedy_spec (k : Nat) : ∀ (m pm h : Nat), m < 2^k → h ≤ trailingOnes (pm * 2^k + m) →
    greedy k (mmr m + h) pm = (pm * 2^k + m, h) := by
  induction k with
  | zero =>
    intro m pm h hm _
    have : m = 0 := by simpa using hm
    subst this
    simp [greedy, mmr, popcount]
  | succ k ih =>
    intro m pm h hm hh
    have hp : 2^(k+1) = 2 * 2^k := by rw [Nat.pow_succ]; omega
    have hpos : 0 < 2^k := Nat.pow_pos (by omega)
    have hP : pm * 2^(k+1) = 2 * (pm * 2^k) := by rw [hp]; ac_rfl
    rw [greedy]
    by_cases hb : 2^k ≤ m
    · obtain ⟨m', rfl⟩ : ∃ m', m = 2^k + m' := ⟨m - 2^k, by omega⟩
      have hm' : m' < 2^k := by omega
      rw [mmr_add_pow k m' hm']
      have hge : 2 ^ (k + 1) - 1 + mmr m' + h ≥ 2 ^ (k + 1) - 1 := by omega
      rw [if_pos hge]
      have e : 2 ^ (k + 1) - 1 + mmr m' + h - (2 ^ (k + 1) - 1) = mmr m' + h := by omega
      have hn : (2*pm+1) * 2^k + m' = pm * 2^(k+1) + (2^k + m') := by
        rw [hP, Nat.add_mul]; rw [Nat.mul_assoc]; omega
      rw [e, ih m' (2*pm+1) h hm' (by rw [hn]; exact hh), hn]
    · have hm' : m < 2^k := by omega
      have ht : trailingOnes (pm * 2^(k+1) + m) = trailingOnes m := trailingOnes_add_mul k pm m hm'
      have h1 := trailingOnes_le_popcount m
      have h2 := popcount_le m
      have hlt : ¬ (mmr m + h ≥ 2^(k+1) - 1) := by unfold mmr; omega
      rw [if_neg hlt]
      have hn : (2*pm) * 2^k + m = pm * 2^(k+1) + m := by rw [hP, Nat.mul_assoc]
      rw [ih m (2*pm) h hm' (by rw [hn]; exact hh), hn]

theorem lt_two_pow_bitLen (n : Nat) : n < 2^(bitLen n) := by
  induction n using Nat.strongRecOn with
  | _ n ih =>
    cases n with
    | zero => simp [bitLen]
    | succ m =>
      rw [bitLen]
      have := ih ((m+1)/2) (by omega)
      have hp : 2^(1 + bitLen ((m+1)/2)) = 2 * 2^(bitLen ((m+1)/2)) := by
        rw [Nat.add_comm, Nat.pow_succ]; omega
      omega

theorem le_mmr (n : Nat) : n ≤ mmr n := by
  have := popcount_le n
  unfold mmr; omega

/-- popcount (n+1) + trailingOnes n = popcount n + 1 -/
theorem popcount_succ (n : Nat) : popcount (n+1) + trailingOnes n = popcount n + 1 := by
  induction n using Nat.strongRecOn with
  | _ n ih =>
    cases n with
    | zero => simp [popcount, trailingOnes]
    | succ m =>
      by_cases hodd : (m+1) % 2 = 1
      · -- n odd: n+1 even, (n+1)/2 = n/2 + 1
        have e1 : (m + 1 + 1) / 2 = (m+1)/2 + 1 := by omega
        have e2 : (m + 1 + 1) % 2 = 0 := by omega
        have := ih ((m+1)/2) (by omega)
        rw [popcount, e1, e2]
        conv => rhs; rw [popcount]
        rw [trailingOnes, if_pos hodd]
        omega
      · have e1 : (m + 1 + 1) / 2 = (m+1)/2 := by omega
        have e2 : (m + 1 + 1) % 2 = 1 := by omega
        rw [popcount, e1, e2]
        conv => rhs; rw [popcount]
        rw [trailingOnes, if_neg hodd]
        omega

theorem mmr_succ (n : Nat) : mmr (n+1) = mmr n + 1 + trailingOnes n := by
  have h1 := popcount_succ n
  have h2 := popcount_le n
  have h3 := popcount_le (n+1)
  unfold mmr; omega

end GV.Pmmr
