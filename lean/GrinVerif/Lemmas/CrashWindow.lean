import GrinVerif.Model.Crash
import GrinVerif.Lemmas.CrashBasic
import GrinVerif.Lemmas.CrashPath
import GrinVerif.Lemmas.CrashRecover
import GrinVerif.Lemmas.CrashSteps
import GrinVerif.Lemmas.CrashExt
import GrinVerif.Lemmas.CrashUnspent
/-! The txhashset window of a plain extension: the leaf set on disk is already the new block's
(its spent leaves are gone) while the body head — and with it the spent index the fallback loop can
use — is still the old one. Exactly which candidate heads validate. -/
namespace GV.Crash

/-- the leaves of the old unspent set that the new block's leaf set no longer has (what `b` spends) -/
def lost (O : List BlkInfo) (b : BlkInfo) : List Leaf :=
  (unspentOf O).filter fun l => !(b.ins.foldl spendOne (unspentOf O)).contains l

theorem mem_lost (O : List BlkInfo) (b : BlkInfo) (l : Leaf) :
    l ∈ lost O b ↔ l ∈ unspentOf O ∧ l ∉ b.ins.foldl spendOne (unspentOf O) := by
  simp [lost]

theorem lost_nil_of_no_inputs (O : List BlkInfo) (b : BlkInfo) (h : b.ins = []) : lost O b = [] := by
  apply List.eq_nil_iff_forall_not_mem.mpr
  intro l hl
  rw [mem_lost, h] at hl
  exact hl.2 hl.1

/-- if some input resolves to an unspent leaf, something is lost -/
theorem exists_lost_of_resolves (ins : List Nat) : ∀ (u : List Leaf), u.Nodup →
    (∃ o ∈ ins, ∃ l ∈ u, l.2 = o) → ∃ l ∈ u, l ∉ ins.foldl spendOne u := by
  induction ins with
  | nil => intro u _ h; obtain ⟨o, ho, _⟩ := h; simp at ho
  | cons o' rest ih =>
    intro u hu h
    rw [List.foldl_cons]
    cases hf : u.reverse.find? (·.2 == o') with
    | some l0 =>
      have e : spendOne u o' = u.erase l0 := by simp [spendOne, hf]
      have hl0 : l0 ∈ u := by simpa using List.mem_of_find?_eq_some hf
      refine ⟨l0, hl0, ?_⟩
      intro hin
      have := foldl_spendOne_subset rest _ l0 hin
      rw [e, hu.mem_erase_iff] at this
      exact this.1 rfl
    | none =>
      have e : spendOne u o' = u := by simp [spendOne, hf]
      rw [e]
      apply ih u hu
      obtain ⟨o, ho, l, hl, hlo⟩ := h
      rcases List.mem_cons.1 ho with rfl | ho
      · exfalso
        have := List.find?_eq_none.1 hf l (by simpa using hl)
        simp [hlo] at this
      · exact ⟨o, ho, l, hl, hlo⟩

theorem lost_ne_nil (O : List BlkInfo) (b : BlkInfo) (hn : (leavesOf O).Nodup)
    (h : ∃ o ∈ b.ins, ∃ l ∈ unspentOf O, l.2 = o) : ∃ l, l ∈ lost O b := by
  obtain ⟨l, h1, h2⟩ := exists_lost_of_resolves b.ins (unspentOf O) (unspentOf_nodup O hn) h
  exact ⟨l, (mem_lost O b l).2 ⟨h1, h2⟩⟩

/-- a durable state in the txhashset window of accepting `b` on `O`: the leaf set is the new
block's, and the files cover every prefix of the old path -/
structure InWindow (O : List BlkInfo) (b : BlkInfo) (d : Durable) : Prop where
  leaf : d.leaf = applyU (unspentOf O) b
  files : ∀ Q S, Q ++ S = O → FilesCover Q d

/-- what the leaf set of the window state says about a leaf created on the old path -/
theorem window_leaf_mem (O : List BlkInfo) (b : BlkInfo) (hn : (leavesOf (O ++ [b])).Nodup) (l : Leaf)
    (hl : l ∈ leavesOf O) :
    l ∈ applyU (unspentOf O) b ↔ l ∈ b.ins.foldl spendOne (unspentOf O) := by
  unfold applyU
  rw [List.mem_append]
  constructor
  · rintro (h | h)
    · exact h
    · exfalso
      exact leavesOf_disjoint_of_nodup O [b] hn l hl (by rw [leavesOf_single]; exact h)
  · intro h; exact Or.inl h

/-- **A candidate below which nothing was lost validates.** -/
theorem window_valid (bc : Nat → Bool) (O : List BlkInfo) (b : BlkInfo) (d : Durable) (Q R : List BlkInfo)
    (hw : InWindow O b d) (hQR : Q ++ R = O)
    (hn : (leavesOf (O ++ [b])).Nodup) (hwf : BlocksWF O)
    (hnone : ∀ l ∈ lost O b, l ∉ leavesOf Q) :
    validAt bc d (undo Q R) Q = true := by
  have hnO : (leavesOf O).Nodup := by
    rw [leavesOf_append] at hn; exact (List.nodup_append.1 hn).1
  apply validAt_true_of bc d _ Q (hw.files Q R hQR)
  intro l
  rw [hw.leaf]
  have hsub : ∀ l, l ∈ leavesOf Q → l ∈ leavesOf O := by
    intro l h; rw [← hQR, leavesOf_append]; exact List.mem_append_left _ h
  constructor
  · intro hl
    have hlQ := unspentOf_subset_leaves Q l hl
    refine ⟨hlQ, ?_⟩
    rcases (rewind_exact R Q (by rw [hQR]; exact hnO) (by rw [hQR]; exact hwf) l hlQ).1 hl with h | h
    · left
      rw [window_leaf_mem O b hn l (hsub l hlQ)]
      rw [hQR] at h
      apply Classical.byContradiction
      intro hnot
      exact hnone l ((mem_lost O b l).2 ⟨h, hnot⟩) hlQ
    · exact Or.inr h
  · rintro ⟨hlQ, h | h⟩
    · rw [window_leaf_mem O b hn l (hsub l hlQ)] at h
      have hu : l ∈ unspentOf O := foldl_spendOne_subset _ _ l h
      apply (rewind_exact R Q (by rw [hQR]; exact hnO) (by rw [hQR]; exact hwf) l hlQ).2
      left; rw [hQR]; exact hu
    · exact (rewind_exact R Q (by rw [hQR]; exact hnO) (by rw [hQR]; exact hwf) l hlQ).2 (Or.inr h)

/-- **A candidate that contains the creation of a lost leaf does not validate** (when its header
commits to the bitmap): the leaf is unspent there, the leaf set does not have it, and no spent
index on the old chain can bring it back. -/
theorem window_invalid (bc : Nat → Bool) (O : List BlkInfo) (b : BlkInfo) (d : Durable) (Q R : List BlkInfo)
    (hw : InWindow O b d) (hQR : Q ++ R = O)
    (hn : (leavesOf (O ++ [b])).Nodup) (hwf : BlocksWF O)
    (hbc : bc (Q.length - 1) = true) (l : Leaf) (hl : l ∈ lost O b) (hlQ : l ∈ leavesOf Q) :
    validAt bc d (undo Q R) Q = false := by
  have hnO : (leavesOf O).Nodup := by
    rw [leavesOf_append] at hn; exact (List.nodup_append.1 hn).1
  have hlO : l ∈ leavesOf O := by rw [← hQR, leavesOf_append]; exact List.mem_append_left _ hlQ
  obtain ⟨hu, hnot⟩ := (mem_lost O b l).1 hl
  apply validAt_false_of bc d _ Q hbc l
  · apply (rewind_exact R Q (by rw [hQR]; exact hnO) (by rw [hQR]; exact hwf) l hlQ).2
    left; rw [hQR]; exact hu
  · rw [hw.leaf, window_leaf_mem O b hn l hlO]
    rintro (h | h)
    · exact hnot h
    · have := undo_not_unspent R Q (by rw [hQR]; exact hnO) (by rw [hQR]; exact hwf) l h
      rw [hQR] at this
      exact this hu

theorem extState_inWindow (O : List BlkInfo) (b : BlkInfo) (m1 m2 : Bool) (k : Nat) (h1 : 12 ≤ k) :
    InWindow O b (extState O b m1 m2 k) :=
  ⟨by simp [extState, h1, unspentOf_snoc], fun Q S h => extState_files O b m1 m2 k Q S h⟩

end GV.Crash
