import GrinVerif.Model.ChainInputs
import GrinVerif.Model.ChainNrdDup
import GrinVerif.Lemmas.ChainMoreReject
/-! Inputs in features-and-commit form (`Model/ChainInputs.lean`): an input is accepted iff it names
an unspent output by its full identifier. -/
namespace GV.Chain

/-- `validate_inputs` accepts a list of inputs iff every one of them names an output that is unspent
in the state, and — where the input carries a claim about the features — the claim is the flag the
unspent output really has. -/
theorem validateInputsFC_none_iff (s : UState) (l : List (Nat × Option Bool)) :
    validateInputsFC s l = none ↔
      ∀ x ∈ l, ∃ u, s.find x.1 = some u ∧ ∀ f, x.2 = some f → f = u.2.2 := by
  induction l with
  | nil => simp [validateInputsFC]
  | cons x rest ih =>
    obtain ⟨i, claim⟩ := x
    simp only [validateInputsFC, List.mem_cons, forall_eq_or_imp]
    cases hf : s.find i with
    | none => simp
    | some u =>
      obtain ⟨a, h, cb⟩ := u
      cases claim with
      | none => simp [ih]
      | some f =>
        by_cases hc : cb = f
        · subst hc
          simp [ih]
        · have : (cb != f) = true := by simpa using hc
          simp only [this, if_true, reduceCtorEq, Option.some.injEq, exists_eq_left', forall_eq',
            false_iff, not_and]
          intro h
          exact absurd h.symm hc

/-- the tag a features mismatch is carried as is found by `hasTag` -/
theorem hasTag_sums_of_mismatch (outs : List OutDef) (b : Blk) (inf : List (Nat × Bool))
    (h : featMismatch outs inf = true) : hasTag (b.withInputFeatures outs inf) "sums:" ≠ none := by
  unfold Blk.withInputFeatures
  rw [if_pos h]
  unfold hasTag
  intro hn
  simp only [Option.map_eq_none_iff, List.find?_eq_none, List.mem_append, List.mem_singleton] at hn
  have := hn "sums:Other" (Or.inr rfl)
  exact this (by simp)

/-- a block one of whose inputs claims the wrong features for the output it names is refused by
every node in every state; head, stored blocks and the reported unspent set stay what they were -/
theorem refused_of_featMismatch (p : Params) (n : Node) (outs : List OutDef) (b : Blk)
    (inf : List (Nat × Bool)) (h : featMismatch outs inf = true) :
    Refused p n (b.withInputFeatures outs inf) := by
  apply refused_of_state_fault
  intro par sPar _ _ hn
  exact hasTag_sums_of_mismatch outs b inf h ((stateChecks_none_iff p sPar _).mp hn).2.2.2.1

/-- a block with two NRD kernels sharing an excess is refused by every node in every state — whatever
the relative heights, whether or not the excess occurred before, wherever the two kernels sit —
with head, stored blocks and reported unspent set unchanged -/
theorem refused_of_nrdDup (p : Params) (n : Node) (b : Blk) (h : nrdDupInBody b = true) :
    Refused p n b.withNrdDupCheck := by
  apply refused_of_body_fault
  intro hv
  have ht := ((validateBody_none_iff p n.outs _ _).mp hv).1
  unfold Blk.withNrdDupCheck at ht
  rw [if_pos h] at ht
  simp [hasTag] at ht

/-- the membership form: two positions of the kernel list hold NRD kernels with the same excess -/
theorem nrdDupInBody_of_two (b : Blk) (pre mid post : List Ker) (f1 r1 f2 r2 : Nat) (ex : String)
    (hk : b.kers = pre ++ Ker.nrd f1 r1 ex :: mid ++ Ker.nrd f2 r2 ex :: post) :
    nrdDupInBody b = true := by
  unfold nrdDupInBody nrdExcesses
  rw [hk]
  simp only [List.filterMap_append, List.filterMap_cons, Bool.not_eq_eq_eq_not, Bool.not_true,
    decide_eq_false_iff_not]
  intro hnd
  rw [List.nodup_append] at hnd
  exact hnd.2.2 ex (by simp) ex (by simp) rfl

end GV.Chain
