import GrinVerif.Lemmas.PowCirc
/-! First loop and circularisation of the undirected engine (Cuckatoo / Cuckaroo / Cuckarooz) in
closed form, and the meaning of one step of its outer loop. -/
namespace GV.Pow

theorem xor_one_eq (j : Nat) : j ^^^ 1 = if j % 2 = 0 then j + 1 else j - 1 := by
  have h1 : (j ^^^ 1) / 2 = j / 2 := by simp [Nat.xor_div_two]
  have h2 := @Nat.xor_mod_two_eq_one j 1
  have h3 : (1:Nat) % 2 = 1 := rfl
  simp only [h3, iff_true] at h2
  split <;> omega

theorem shr_one (a : Nat) : a >>> 1 = a / 2 := by simp [Nat.shiftRight_eq_div_pow]

/-- bucket lists after the slots `< m` were pushed, in closed form -/
structure SlotInv (keyOf uv : Nat → Nat) (nil m : Nat) (uvs head prev : Nat → Nat) : Prop where
  uvs : ∀ t, t < m → uvs t = uv t
  head : ∀ b, head b = lastBelow (fun t => keyOf t == b) nil m
  prev : ∀ t, t < m → prev t = lastBelow (fun t' => keyOf t' == keyOf t) nil t

theorem slotInv_push {keyOf uv : Nat → Nat} {nil m : Nat} {uvs head prev : Nat → Nat}
    (h : SlotInv keyOf uv nil m uvs head prev) {x kx : Nat} (hx : uv m = x) (hk : keyOf m = kx) :
    SlotInv keyOf uv nil (m+1) (upd uvs m x) (upd head kx m) (upd prev m (head kx)) := by
  constructor
  · intro t ht
    by_cases e : t = m
    · subst e; simp [upd, hx]
    · simp only [upd, e, if_false]; exact h.uvs t (by omega)
  · intro b
    simp only [upd, lastBelow, hk]
    by_cases e : b = kx
    · subst e; simp
    · have e' : ¬ (kx = b) := fun h => e h.symm
      simp only [e, if_false, beq_iff_eq, e']
      exact h.head b
  · intro t ht
    by_cases e : t = m
    · subst e
      simp only [upd, if_true, hk]
      exact h.head _
    · simp only [upd, e, if_false]; exact h.prev t (by omega)

/-- node value at slot `t` of the proof's edges -/
def uvF (ep : Nat → Nat × Nat) (ns : List Nat) (t : Nat) : Nat := slotNode (ns.map ep) t

/-- list key of slot `t` -/
def keyF (C : UCfg) (P : Params) (ep : Nat → Nat × Nat) (ns : List Nat) (t : Nat) : Nat :=
  C.key P.bk (t % 2) (uvF ep ns t)

theorem uvF_even (ep : Nat → Nat × Nat) (ns : List Nat) (n : Nat) (hn : n < ns.length) :
    uvF ep ns (2*n) = (ep (ns.getD n 0)).1 := by
  have h1 : 2 * n % 2 = 0 := by omega
  have h2 : 2 * n / 2 = n := by omega
  simp [uvF, slotNode, h1, h2, List.getD_eq_getElem?_getD, hn]

theorem uvF_odd (ep : Nat → Nat × Nat) (ns : List Nat) (n : Nat) (hn : n < ns.length) :
    uvF ep ns (2*n+1) = (ep (ns.getD n 0)).2 := by
  have h1 : (2 * n + 1) % 2 = 1 := by omega
  have h2 : (2 * n + 1) / 2 = n := by omega
  simp [uvF, slotNode, h1, h2, List.getD_eq_getElem?_getD, hn]

theorem uBuild_spec (C : UCfg) (P : Params) (ep : Nat → Nat × Nat) (ns : List Nat) :
    ∀ xs pre last s s', ns = pre ++ xs →
      SlotInv (keyF C P ep ns) (uvF ep ns) (2 * ns.length) (2 * pre.length) s.uvs s.head s.prev →
      uBuild C P ep xs pre.length last s = .ok s' →
      SlotInv (keyF C P ep ns) (uvF ep ns) (2 * ns.length) (2 * ns.length) s'.uvs s'.head s'.prev ∧
        (∀ x ∈ xs, x ≤ P.edgeMask) ∧ ascChain last xs := by
  intro xs
  induction xs with
  | nil =>
    intro pre last s s' hns inv h
    simp only [uBuild] at h
    injection h with h
    subst h
    have e : pre.length = ns.length := by simp [hns]
    rw [e] at inv
    exact ⟨inv, by simp, trivial⟩
  | cons x xs ih =>
    intro pre last s s' hns inv h
    unfold uBuild at h
    by_cases h1 : x > P.edgeMask
    · simp [h1] at h
    · by_cases h2 : notAsc last x = true
      · simp [h1, h2] at h
      · have h2' : notAsc last x = false := by simpa using h2
        simp only [h1, h2', if_false, Bool.false_eq_true] at h
        have hx : ns.getD pre.length 0 = x := by rw [hns]; exact getD_append_cons pre xs x
        have hns' : ns = (pre ++ [x]) ++ xs := by simp [hns]
        have hlen : (pre ++ [x]).length = pre.length + 1 := by simp
        have hpl : pre.length < ns.length := by simp [hns]
        have hu : uvF ep ns (2 * pre.length) = (ep x).1 := by rw [uvF_even ep ns _ hpl, hx]
        have hv : uvF ep ns (2 * pre.length + 1) = (ep x).2 := by rw [uvF_odd ep ns _ hpl, hx]
        have hku : keyF C P ep ns (2 * pre.length) = C.key P.bk 0 (ep x).1 := by
          have : 2 * pre.length % 2 = 0 := by omega
          simp only [keyF, this, hu]
        have hkv : keyF C P ep ns (2 * pre.length + 1) = C.key P.bk 1 (ep x).2 := by
          have : (2 * pre.length + 1) % 2 = 1 := by omega
          simp only [keyF, this, hv]
        have i1 := slotInv_push inv hu hku
        have i2 := slotInv_push i1 hv hkv
        rw [← hlen] at h
        have e2 : 2 * pre.length + 1 + 1 = 2 * (pre ++ [x]).length := by rw [hlen]; omega
        rw [e2] at i2
        obtain ⟨r1, r2, r3⟩ := ih (pre ++ [x]) (some x) _ s' hns' i2 h
        refine ⟨r1, ?_, ⟨h2', r3⟩⟩
        intro y hy
        rcases List.mem_cons.mp hy with rfl | hy
        · omega
        · exact r2 y hy

theorem circ1_apply (nil : Nat) (prev : Nat → Nat) (a v t : Nat) :
    upd prev a (circVal nil prev a v) t = if t = a ∧ prev a = nil then v else prev t := by
  unfold circVal upd
  by_cases e : t = a
  · subst e
    by_cases h : prev t = nil <;> simp [h]
  · simp [e]

theorem uCirc_spec (C : UCfg) (P : Params) (size : Nat) (s : USt) :
    ∀ m prev, m ≤ size → ∀ t, uCirc C P size s m prev t =
      if 2 * (size - m) ≤ t ∧ t < 2 * size ∧ prev t = 2 * size
      then s.head (C.key P.bk (t % 2) (s.uvs t)) else prev t := by
  intro m
  induction m with
  | zero =>
    intro prev _ t
    simp only [uCirc]
    have : ¬ (2 * (size - 0) ≤ t ∧ t < 2 * size ∧ prev t = 2 * size) := by omega
    rw [if_neg this]
  | succ m ih =>
    intro prev hm t
    unfold uCirc
    rw [ih _ (by omega) t]
    simp only [circ1_apply]
    have hn : 2 * (size - m) = 2 * (size - (m+1)) + 2 := by omega
    have e0 : 2 * (size - (m+1)) % 2 = 0 := by omega
    have e1 : (2 * (size - (m+1)) + 1) % 2 = 1 := by omega
    have hlt : 2 * (size - (m+1)) + 1 < 2 * size := by omega
    generalize size - (m+1) = n at *
    by_cases ha : t = 2 * n
    · subst ha
      by_cases hp : prev (2 * n) = 2 * size
      · simp [hp, e0]; omega
      · simp [hp]
    · by_cases hb : t = 2 * n + 1
      · subst hb
        by_cases hp : prev (2 * n + 1) = 2 * size
        · simp [hp, e1]; omega
        · simp [hp]
      · simp only [ha, hb, false_and, if_false]
        by_cases hc : 2 * (size - m) ≤ t ∧ t < 2 * size ∧ prev t = 2 * size
        · have : 2 * n ≤ t ∧ t < 2 * size ∧ prev t = 2 * size := ⟨by omega, hc.2.1, hc.2.2⟩
          rw [if_pos hc, if_pos this]
        · have : ¬ (2 * n ≤ t ∧ t < 2 * size ∧ prev t = 2 * size) := by
            intro h; apply hc; exact ⟨by omega, h.2.1, h.2.2⟩
          rw [if_neg hc, if_neg this]

end GV.Pow
