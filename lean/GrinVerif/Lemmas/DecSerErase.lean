import GrinVerif.Lemmas.DecSerHdr
import GrinVerif.Lemmas.DecSerAgree
/-! # The instrumented decoders of C11 erase to the plain decoders of C10

`Model/DecSer.lean` (value | error | panic site, allocation counter, both `Reader` implementations) and
`Model/Ser*.lean` (`Except`) are two transliterations of the same Rust readers. `Erases p q` says:
for every input the instrumented reader `p` never panics and, forgetting the allocation counter,
returns exactly what the plain reader `q` returns — same value, same unread rest, same error kind.
Proved for `TxKernel`, `Input`, `OutputIdentifier`, `RangeProof`, `Output`, `ShortId`, `read_multi`,
`Inputs`, `TransactionBody`, `Proof`, `ProofOfWork`, `BlockHeader`, `CompactBlockBody`, for BOTH
readers: every C10 theorem about a plain decoder (round trip, accepted ⇒ canonical, refusals) holds
for the `BinReader` and for the `BufReader` path. -/
namespace GV.DecSer
open GV GV.Ser GV.Dec

variable {α β : Type}

def Erases (p : Dec α) (q : Parser α) : Prop := ∀ bs, (p bs).toExcept = some (q bs)

theorem Erases.noPanic {p : Dec α} {q : Parser α} (h : Erases p q) : NoPanic p := by
  intro bs
  have := h bs
  cases hp : p bs <;> simp [hp, Outcome.toExcept, Outcome.isPanic] at this ⊢

theorem erases_lift (q : Parser α) : Erases (fun bs => lift (q bs)) q := by
  intro bs
  show (lift (q bs)).toExcept = some (q bs)
  cases h : q bs with
  | error e => rfl
  | ok v => obtain ⟨a, r⟩ := v; rfl

theorem erases_pure (a : α) : Erases (fun bs => (.ok a bs 0 : Outcome α)) (fun bs => .ok (a, bs)) := fun _ => rfl

theorem erases_err (e : SerErr) : Erases (fun _ => (.err e 0 : Outcome α)) (fun _ => .error e) := fun _ => rfl

theorem Erases.bind {p : Dec α} {q : Parser α} {f : α → Dec β} {g : α → Parser β}
    (hp : Erases p q) (hf : ∀ a, Erases (f a) (g a)) :
    Erases (fun bs => Dec.bind (p bs) f) (fun bs => andThen (q bs) g) := by
  intro bs
  show (Dec.bind (p bs) f).toExcept = some (andThen (q bs) g)
  have h := hp bs
  cases hpb : p bs with
  | ok a r n =>
    rw [hpb] at h
    simp only [Outcome.toExcept, Option.some.injEq] at h
    rw [← h]
    simp only [Dec.bind, andThen_ok, toExcept_addAlloc]
    exact hf a r
  | err e n =>
    rw [hpb] at h
    simp only [Outcome.toExcept, Option.some.injEq] at h
    rw [← h]; rfl
  | panic s n => rw [hpb] at h; simp [Outcome.toExcept] at h

theorem Erases.ite {p p' : Dec α} {q q' : Parser α} (b : Prop) [Decidable b] (h1 : Erases p q) (h2 : Erases p' q') :
    Erases (fun bs => if b then p bs else p' bs) (fun bs => if b then q bs else q' bs) := by
  intro bs; by_cases hb : b <;> simp [hb, h1 bs, h2 bs]

theorem Erases.charge {p : Dec α} {q : Parser α} (h : Erases p q) (n : Nat) :
    Erases (fun bs => charge n (p bs)) q := by
  intro bs; show ((p bs).addAlloc n).toExcept = _; rw [toExcept_addAlloc]; exact h bs

theorem Erases.withCapacity {p : Dec α} {q : Parser α} (h : Erases p q) (n sz : Nat) (hn : n * sz ≤ ISIZE_MAX) :
    Erases (fun bs => withCapacity n sz (p bs)) q := by
  intro bs
  show (Dec.withCapacity n sz (p bs)).toExcept = some (q bs)
  unfold Dec.withCapacity
  rw [if_neg (by omega), toExcept_addAlloc]; exact h bs

theorem Erases.congr {p : Dec α} {q q' : Parser α} (h : Erases p q) (hq : ∀ bs, q bs = q' bs) : Erases p q' := by
  intro bs; rw [← hq bs]; exact h bs

/-! ### primitives -/

theorem erases_rU8 : Erases rU8 readU8 := erases_lift _
theorem erases_rU16 : Erases rU16 readU16 := erases_lift _
theorem erases_rU32 : Erases rU32 readU32 := erases_lift _
theorem erases_rU64 : Erases rU64 readU64 := erases_lift _
theorem erases_rI64 : Erases rI64 readI64 := erases_lift _
theorem erases_rEmpty (n : Nat) : Erases (rEmpty n) (readEmpty n) := erases_lift _

theorem erases_rFixed (rd : Rdr) (len : Nat) : Erases (rFixed rd len) (readFixed len) := by
  intro bs
  unfold rFixed readFixed
  by_cases h : len > MAX_FIXED_READ
  · simp [h, Outcome.toExcept]
  · simp only [h, if_false]
    cases splitExact len bs with
    | none => rfl
    | some v => obtain ⟨x, r⟩ := v; rfl

theorem erases_rFixedArr (rd : Rdr) (n : Nat) : Erases (rFixedArr rd n) (readFixed n) := by
  intro bs
  unfold rFixedArr
  have h := erases_rFixed rd n bs
  cases hp : rFixed rd n bs with
  | ok a r m =>
    rw [hp] at h
    simp only [Outcome.toExcept, Option.some.injEq] at h
    have hl := (readFixed_ok h.symm).2
    simp only [Dec.bind, hl, ne_eq, not_true_eq_false, if_false, Outcome.addAlloc, Outcome.toExcept]
    rw [h]
  | err e m => rw [hp] at h; simpa [Dec.bind] using h
  | panic s m => rw [hp] at h; simp [Outcome.toExcept] at h

theorem erases_rCommit (rd : Rdr) : Erases (rCommit rd) decCommit := erases_rFixedArr rd _
theorem erases_rSig (rd : Rdr) : Erases (rSig rd) decSig := erases_rFixedArr rd _
theorem erases_rShortId (rd : Rdr) : Erases (rShortId rd) decShortId := erases_rFixedArr rd _
theorem erases_rBlind (rd : Rdr) : Erases (rBlind rd) decBlind := erases_rFixed rd _
theorem erases_rHash (rd : Rdr) : Erases (rHash rd) decHash := erases_rFixed rd _

/-! ### kernel features, kernels -/

theorem nrdMax_fits : ¬ (NRD_MAX > 65535) := by unfold NRD_MAX GV.Gen.WEEK_HEIGHT; decide

theorem erases_rNrdHeight : Erases rNrdHeight decNrdHeight := by
  intro bs
  simp only [rNrdHeight, decNrdHeight, rU16, lift, Dec.bind]
  cases h : readU16 bs with
  | error e => rfl
  | ok v =>
    obtain ⟨x, r⟩ := v
    simp only [if_neg nrdMax_fits]
    by_cases hx : x = 0 ∨ x > NRD_MAX <;> simp [hx, Outcome.addAlloc, Outcome.toExcept]

/-- the plain v1 reader as an if-chain over `andThen` -/
theorem decKernelFeaturesV1_eq (nrd : Bool) (bs : Bytes) :
    decKernelFeaturesV1 nrd bs = andThen (readU8 bs) fun fb r =>
      if fb = 0 then andThen (readU64 r) fun fee r => andThen (readEmpty 8 r) fun _ r => .ok (.plain fee, r)
      else if fb = 1 then andThen (readEmpty 16 r) fun _ r => .ok (.coinbase, r)
      else if fb = 2 then andThen (readU64 r) fun fee r => andThen (readU64 r) fun lock r => .ok (.heightLocked fee lock, r)
      else if fb = 3 then
        (if nrd = false then .error .corrupted else
         andThen (readU64 r) fun fee r => andThen (readEmpty 6 r) fun _ r => andThen (decNrdHeight r) fun rel r =>
           .ok (.noRecentDuplicate fee rel, r))
      else .error .corrupted := by
  unfold decKernelFeaturesV1
  cases h8 : readU8 bs with
  | error e => rfl
  | ok v =>
    obtain ⟨fb, r⟩ := v
    match fb with
    | 0 =>
      simp only [andThen_ok, if_true]
      cases h1 : readU64 r with
      | error e => rfl
      | ok v1 => obtain ⟨fee, r1⟩ := v1; simp only [andThen_ok]; cases h2 : readEmpty 8 r1 with
        | error e => rfl
        | ok v2 => obtain ⟨u, r2⟩ := v2; rfl
    | 1 =>
      simp only [andThen_ok]
      cases h1 : readEmpty 16 r with
      | error e => rfl
      | ok v1 => obtain ⟨u, r1⟩ := v1; rfl
    | 2 =>
      simp only [andThen_ok]
      cases h1 : readU64 r with
      | error e => rfl
      | ok v1 => obtain ⟨fee, r1⟩ := v1; simp only [andThen_ok]; cases h2 : readU64 r1 with
        | error e => rfl
        | ok v2 => obtain ⟨lock, r2⟩ := v2; rfl
    | 3 =>
      simp only [andThen_ok]
      cases nrd with
      | false => rfl
      | true =>
        simp only [Bool.not_true, Bool.false_eq_true, if_false, reduceCtorEq]
        cases h1 : readU64 r with
        | error e => rfl
        | ok v1 => obtain ⟨fee, r1⟩ := v1; simp only [andThen_ok]; cases h2 : readEmpty 6 r1 with
          | error e => rfl
          | ok v2 => obtain ⟨u, r2⟩ := v2; simp only [andThen_ok]; cases h3 : decNrdHeight r2 with
            | error e => rfl
            | ok v3 => obtain ⟨rel, r3⟩ := v3; rfl
    | n+4 => simp [andThen]

theorem erases_rKernelFeaturesV1 (nrd : Bool) : Erases (rKernelFeaturesV1 nrd) (decKernelFeaturesV1 nrd) := by
  refine Erases.congr ?_ (fun bs => (decKernelFeaturesV1_eq nrd bs).symm)
  unfold rKernelFeaturesV1
  refine Erases.bind erases_rU8 (fun fb => ?_)
  refine Erases.ite _ (Erases.bind erases_rU64 fun fee => Erases.bind (erases_rEmpty 8) fun _ => erases_pure _) ?_
  refine Erases.ite _ (Erases.bind (erases_rEmpty 16) fun _ => erases_pure _) ?_
  refine Erases.ite _ (Erases.bind erases_rU64 fun fee => Erases.bind erases_rU64 fun lock => erases_pure _) ?_
  refine Erases.ite _ ?_ (erases_err _)
  exact Erases.ite _ (erases_err _)
    (Erases.bind erases_rU64 fun fee => Erases.bind (erases_rEmpty 6) fun _ => Erases.bind erases_rNrdHeight fun rel => erases_pure _)

theorem decKernelFeaturesV2_eq (nrd : Bool) (bs : Bytes) :
    decKernelFeaturesV2 nrd bs = andThen (readU8 bs) fun fb r =>
      if fb = 0 then andThen (readU64 r) fun fee r => .ok (.plain fee, r)
      else if fb = 1 then .ok (.coinbase, r)
      else if fb = 2 then andThen (readU64 r) fun fee r => andThen (readU64 r) fun lock r => .ok (.heightLocked fee lock, r)
      else if fb = 3 then
        (if nrd = false then .error .corrupted else
         andThen (readU64 r) fun fee r => andThen (decNrdHeight r) fun rel r => .ok (.noRecentDuplicate fee rel, r))
      else .error .corrupted := by
  unfold decKernelFeaturesV2
  cases h8 : readU8 bs with
  | error e => rfl
  | ok v =>
    obtain ⟨fb, r⟩ := v
    match fb with
    | 0 =>
      simp only [andThen_ok, if_true]
      cases h1 : readU64 r with
      | error e => rfl
      | ok v1 => obtain ⟨fee, r1⟩ := v1; rfl
    | 1 => rfl
    | 2 =>
      simp only [andThen_ok]
      cases h1 : readU64 r with
      | error e => rfl
      | ok v1 => obtain ⟨fee, r1⟩ := v1; simp only [andThen_ok]; cases h2 : readU64 r1 with
        | error e => rfl
        | ok v2 => obtain ⟨lock, r2⟩ := v2; rfl
    | 3 =>
      simp only [andThen_ok]
      cases nrd with
      | false => rfl
      | true =>
        simp only [Bool.not_true, Bool.false_eq_true, if_false, reduceCtorEq]
        cases h1 : readU64 r with
        | error e => rfl
        | ok v1 => obtain ⟨fee, r1⟩ := v1; simp only [andThen_ok]; cases h3 : decNrdHeight r1 with
          | error e => rfl
          | ok v3 => obtain ⟨rel, r3⟩ := v3; rfl
    | n+4 => simp [andThen]

theorem erases_rKernelFeaturesV2 (nrd : Bool) : Erases (rKernelFeaturesV2 nrd) (decKernelFeaturesV2 nrd) := by
  refine Erases.congr ?_ (fun bs => (decKernelFeaturesV2_eq nrd bs).symm)
  unfold rKernelFeaturesV2
  refine Erases.bind erases_rU8 (fun fb => ?_)
  refine Erases.ite _ (Erases.bind erases_rU64 fun fee => erases_pure _) ?_
  refine Erases.ite _ (erases_pure _) ?_
  refine Erases.ite _ (Erases.bind erases_rU64 fun fee => Erases.bind erases_rU64 fun lock => erases_pure _) ?_
  refine Erases.ite _ ?_ (erases_err _)
  exact Erases.ite _ (erases_err _)
    (Erases.bind erases_rU64 fun fee => Erases.bind erases_rNrdHeight fun rel => erases_pure _)

theorem erases_rKernelFeatures (c : Cfg) : Erases (rKernelFeatures c) (decKernelFeatures c) := by
  unfold rKernelFeatures decKernelFeatures
  by_cases h : c.ver ≤ 1
  · simp only [h, if_true]; exact erases_rKernelFeaturesV1 _
  · simp only [h, if_false]; exact erases_rKernelFeaturesV2 _

theorem erases_rTxKernel (rd : Rdr) (c : Cfg) : Erases (rTxKernel rd c) (decTxKernel c) :=
  Erases.bind (erases_rKernelFeatures c) fun _ => Erases.bind (erases_rCommit rd) fun _ =>
    Erases.bind (erases_rSig rd) fun _ => erases_pure _

theorem decOutputFeatures_eq (bs : Bytes) :
    decOutputFeatures bs = andThen (readU8 bs) fun b r =>
      if b = 0 then .ok (.plain, r) else if b = 1 then .ok (.coinbase, r) else .error .corrupted := by
  unfold decOutputFeatures
  cases h8 : readU8 bs with
  | error e => rfl
  | ok v =>
    obtain ⟨fb, r⟩ := v
    match fb with
    | 0 => rfl
    | 1 => rfl
    | n+2 => simp [andThen]

theorem erases_rOutputFeatures : Erases rOutputFeatures decOutputFeatures := by
  refine Erases.congr ?_ (fun bs => (decOutputFeatures_eq bs).symm)
  unfold rOutputFeatures
  exact Erases.bind erases_rU8 fun b => Erases.ite _ (erases_pure _) (Erases.ite _ (erases_pure _) (erases_err _))

theorem erases_rInput (rd : Rdr) : Erases (rInput rd) decInput :=
  Erases.bind erases_rOutputFeatures fun _ => Erases.bind (erases_rCommit rd) fun _ => erases_pure _

theorem erases_rOutputId (rd : Rdr) : Erases (rOutputId rd) decOutputId :=
  Erases.bind erases_rOutputFeatures fun _ => Erases.bind (erases_rCommit rd) fun _ => erases_pure _

theorem erases_rCommitWrapper (rd : Rdr) : Erases (rCommitWrapper rd) decCommitWrapper := erases_rCommit rd

theorem erases_rRangeProof (rd : Rdr) : Erases (rRangeProof rd) decRangeProof := by
  intro bs
  show (Dec.bind (rU64 bs) _).toExcept = some (andThen (readU64 bs) _)
  have h := erases_rU64 bs
  cases hp : rU64 bs with
  | ok len r n =>
    rw [hp] at h
    simp only [Outcome.toExcept, Option.some.injEq] at h
    rw [← h]
    simp only [Dec.bind, andThen_ok, toExcept_addAlloc]
    have h2 := erases_rFixed rd (min len MAX_PROOF_SIZE) r
    cases hq : rFixed rd (min len MAX_PROOF_SIZE) r with
    | ok p r2 m =>
      rw [hq] at h2
      simp only [Outcome.toExcept, Option.some.injEq] at h2
      have hl := (readFixed_ok h2.symm).2
      rw [← h2]
      have : ¬ p.length > MAX_PROOF_SIZE := by omega
      simp only [this, if_false, andThen_ok, Outcome.toExcept, Outcome.addAlloc]
    | err e m =>
      rw [hq] at h2
      simp only [Outcome.toExcept, Option.some.injEq] at h2
      rw [← h2]; rfl
    | panic s m => rw [hq] at h2; simp [Outcome.toExcept] at h2
  | err e n =>
    rw [hp] at h
    simp only [Outcome.toExcept, Option.some.injEq] at h
    rw [← h]; rfl
  | panic s n => rw [hp] at h; simp [Outcome.toExcept] at h

theorem erases_rOutput (rd : Rdr) : Erases (rOutput rd) decOutput :=
  Erases.bind (erases_rOutputId rd) fun _ => Erases.bind (erases_rRangeProof rd) fun _ => erases_pure _

end GV.DecSer
