import GrinVerif.Lemmas.DecSerHdr
import GrinVerif.Lemmas.DecSerAgree
/-! # The instrumented decoders of C11 erase to the plain decoders of C10

`Model/DecSer.lean` (value | error | panic site, allocation counter, both `Reader` implementations) and
`Model/Ser*.lean` (`Except`) are two transliterations of the same Rust readers. `Erases p q` says:
for every input the instrumented reader `p` never panics and, forgetting the allocation counter,
returns exactly what the plain reader `q` returns — same value, same unread rest, same error kind.
Proved for `TxKernel`, `Input`, `OutputIdentifier`, `RangeProof`, `Output`, `ShortId`, `read_multi`,
`Inputs`, `TransactionBody`, `Proof`, `ProofOfWork`, `BlockHeader`, `CompactBlockBody`, for BOTH
readers: every C10 theorem about a plain decoder (round trip, accepted ⇒ canonical, refusals) holds
for the `BinReader` and for the `BufReader` path. -/
namespace GV.DecSer
open GV GV.Ser GV.Dec

variable {α β : Type}

def Erases (p : Dec α) (q : Parser α) : Prop := ∀ bs, (p bs).toExcept = some (q bs)

theorem Erases.noPanic {p : Dec α} {q : Parser α} (h : Erases p q) : NoPanic p := by
  intro bs
  have := h bs
  cases hp : p bs <;> simp [hp, Outcome.toExcept, Outcome.isPanic] at this ⊢

theorem erases_lift (q : Parser α) : Erases (fun bs => lift (q bs)) q := by
  intro bs
  show (lift (q bs)).toExcept = some (q bs)
  cases h : q bs with
  | error e => rfl
  | ok v => obtain ⟨a, r⟩ := v; rfl

theorem erases_pure (a : α) : Erases (fun bs => (.ok a bs 0 : Outcome α)) (fun bs => .ok (a, bs)) := fun _ => rfl

theorem erases_err (e : SerErr) : Erases (fun _ => (.err e 0 : Outcome α)) (fun _ => .error e) := fun _ => rfl

theorem Erases.bind {p : Dec α} {q : Parser α} {f : α → Dec β} {g : α → Parser β}
    (hp : Erases p q) (hf : ∀ a, Erases (f a) (g a)) :
    Erases (fun bs => Dec.bind (p bs) f) (fun bs => andThen (q bs) g) := by
  intro bs
  show (Dec.bind (p bs) f).toExcept = some (andThen (q bs) g)
  have h := hp bs
  cases hpb : p bs with
  | ok a r n =>
    rw [hpb] at h
    simp only [Outcome.toExcept, Option.some.injEq] at h
    rw [← h]
    simp only [Dec.bind, andThen_ok, toExcept_addAlloc]
    exact hf a r
  | err e n =>
    rw [hpb] at h
    simp only [Outcome.toExcept, Option.some.injEq] at h
    rw [← h]; rfl
  | panic s n => rw [hpb] at h; simp [Outcome.toExcept] at h

theorem Erases.ite {p p' : Dec α} {q q' : Parser α} (b : Prop) [Decidable b] (h1 : Erases p q) (h2 : Erases p' q') :
    Erases (fun bs => if b then p bs else p' bs) (fun bs => if b then q bs else q' bs) := by
  intro bs; by_cases hb : b <;> simp [hb, h1 bs, h2 bs]

theorem Erases.charge {p : Dec α} {q : Parser α} (h : Erases p q) (n : Nat) :
    Erases (fun bs => charge n (p bs)) q := by
  intro bs; show ((p bs).addAlloc n).toExcept = _; rw [toExcept_addAlloc]; exact h bs

theorem Erases.withCapacity {p : Dec α} {q : Parser α} (h : Erases p q) (n sz : Nat) (hn : n * sz ≤ ISIZE_MAX) :
    Erases (fun bs => withCapacity n sz (p bs)) q := by
  intro bs
  show (Dec.withCapacity n sz (p bs)).toExcept = some (q bs)
  unfold Dec.withCapacity
  rw [if_neg (by omega), toExcept_addAlloc]; exact h bs

theorem Erases.congr {p : Dec α} {q q' : Parser α} (h : Erases p q) (hq : ∀ bs, q bs = q' bs) : Erases p q' := by
  intro bs; rw [← hq bs]; exact h bs

/-! ### primitives -/

theorem erases_rU8 : Erases rU8 readU8 := erases_lift _
theorem erases_rU16 : Erases rU16 readU16 := erases_lift _
theorem erases_rU32 : Erases rU32 readU32 := erases_lift _
theorem erases_rU64 : Erases rU64 readU64 := erases_lift _
theorem erases_rI64 : Erases rI64 readI64 := erases_lift _
theorem erases_rEmpty (n : Nat) : Erases (rEmpty n) (readEmpty n) := erases_lift _

theorem erases_rFixed (rd : Rdr) (len : Nat) : Erases (rFixed rd len) (readFixed len) := by
  intro bs
  unfold rFixed readFixed
  by_cases h : len > MAX_FIXED_READ
  · simp [h, Outcome.toExcept]
  · simp only [h, if_false]
    cases splitExact len bs with
    | none => rfl
    | some v => obtain ⟨x, r⟩ := v; rfl

theorem erases_rFixedArr (rd : Rdr) (n : Nat) : Erases (rFixedArr rd n) (readFixed n) := by
  intro bs
  unfold rFixedArr
  have h := erases_rFixed rd n bs
  cases hp : rFixed rd n bs with
  | ok a r m =>
    rw [hp] at h
    simp only [Outcome.toExcept, Option.some.injEq] at h
    have hl := (readFixed_ok h.symm).2
    simp only [Dec.bind, hl, ne_eq, not_true_eq_false, if_false, Outcome.addAlloc, Outcome.toExcept]
    rw [h]
  | err e m => rw [hp] at h; simpa [Dec.bind] using h
  | panic s m => rw [hp] at h; simp [Outcome.toExcept] at h

theorem erases_rCommit (rd : Rdr) : Erases (rCommit rd) decCommit := erases_rFixedArr rd _
theorem erases_rSig (rd : Rdr) : Erases (rSig rd) decSig := erases_rFixedArr rd _
theorem erases_rShortId (rd : Rdr) : Erases (rShortId rd) decShortId := erases_rFixedArr rd _
theorem erases_rBlind (rd : Rdr) : Erases (rBlind rd) decBlind := erases_rFixed rd _
theorem erases_rHash (rd : Rdr) : Erases (rHash rd) decHash := erases_rFixed rd _

/-! ### kernel features, kernels -/

theorem nrdMax_fits : ¬ (NRD_MAX > 65535) := by unfold NRD_MAX GV.Gen.WEEK_HEIGHT; decide

theorem erases_rNrdHeight : Erases rNrdHeight decNrdHeight := by
  intro bs
  simp only [rNrdHeight, decNrdHeight, rU16, lift, Dec.bind]
  cases h : readU16 bs with
  | error e => rfl
  | ok v =>
    obtain ⟨x, r⟩ := v
    simp only [if_neg nrdMax_fits]
    by_cases hx : x = 0 ∨ x > NRD_MAX <;> simp [hx, Outcome.addAlloc, Outcome.toExcept]

/-- the plain v1 reader as an if-chain over `andThen` -/
theorem decKernelFeaturesV1_eq (nrd : Bool) (bs : Bytes) :
    decKernelFeaturesV1 nrd bs = andThen (readU8 bs) fun fb r =>
      if fb = 0 then andThen (readU64 r) fun fee r => andThen (readEmpty 8 r) fun _ r => .ok (.plain fee, r)
      else if fb = 1 then andThen (readEmpty 16 r) fun _ r => .ok (.coinbase, r)
      else if fb = 2 then andThen (readU64 r) fun fee r => andThen (readU64 r) fun lock r => .ok (.heightLocked fee lock, r)
      else if fb = 3 then
        (if nrd = false then .error .corrupted else
         andThen (readU64 r) fun fee r => andThen (readEmpty 6 r) fun _ r => andThen (decNrdHeight r) fun rel r =>
           .ok (.noRecentDuplicate fee rel, r))
      else .error .corrupted := by
  unfold decKernelFeaturesV1
  cases h8 : readU8 bs with
  | error e => rfl
  | ok v =>
    obtain ⟨fb, r⟩ := v
    match fb with
    | 0 =>
      simp only [andThen_ok, if_true]
      cases h1 : readU64 r with
      | error e => rfl
      | ok v1 => obtain ⟨fee, r1⟩ := v1; simp only [andThen_ok]; cases h2 : readEmpty 8 r1 with
        | error e => rfl
        | ok v2 => obtain ⟨u, r2⟩ := v2; rfl
    | 1 =>
      simp only [andThen_ok]
      cases h1 : readEmpty 16 r with
      | error e => rfl
      | ok v1 => obtain ⟨u, r1⟩ := v1; rfl
    | 2 =>
      simp only [andThen_ok]
      cases h1 : readU64 r with
      | error e => rfl
      | ok v1 => obtain ⟨fee, r1⟩ := v1; simp only [andThen_ok]; cases h2 : readU64 r1 with
        | error e => rfl
        | ok v2 => obtain ⟨lock, r2⟩ := v2; rfl
    | 3 =>
      simp only [andThen_ok]
      cases nrd with
      | false => rfl
      | true =>
        simp only [Bool.not_true, Bool.false_eq_true, if_false, reduceCtorEq]
        cases h1 : readU64 r with
        | error e => rfl
        | ok v1 => obtain ⟨fee, r1⟩ := v1; simp only [andThen_ok]; cases h2 : readEmpty 6 r1 with
          | error e => rfl
          | ok v2 => obtain ⟨u, r2⟩ := v2; simp only [andThen_ok]; cases h3 : decNrdHeight r2 with
            | error e => rfl
            | ok v3 => obtain ⟨rel, r3⟩ := v3; rfl
    | n+4 => simp [andThen]

theorem erases_rKernelFeaturesV1 (nrd : Bool) : Erases (rKernelFeaturesV1 nrd) (decKernelFeaturesV1 nrd) := by
  refine Erases.congr ?_ (fun bs => (decKernelFeaturesV1_eq nrd bs).symm)
  unfold rKernelFeaturesV1
  refine Erases.bind erases_rU8 (fun fb => ?_)
  refine Erases.ite _ (Erases.bind erases_rU64 fun fee => Erases.bind (erases_rEmpty 8) fun _ => erases_pure _) ?_
  refine Erases.ite _ (Erases.bind (erases_rEmpty 16) fun _ => erases_pure _) ?_
  refine Erases.ite _ (Erases.bind erases_rU64 fun fee => Erases.bind erases_rU64 fun lock => erases_pure _) ?_
  refine Erases.ite _ ?_ (erases_err _)
  exact Erases.ite _ (erases_err _)
    (Erases.bind erases_rU64 fun fee => Erases.bind (erases_rEmpty 6) fun _ => Erases.bind erases_rNrdHeight fun rel => erases_pure _)

theorem decKernelFeaturesV2_eq (nrd : Bool) (bs : Bytes) :
    decKernelFeaturesV2 nrd bs = andThen (readU8 bs) fun fb r =>
      if fb = 0 then andThen (readU64 r) fun fee r => .ok (.plain fee, r)
      else if fb = 1 then .ok (.coinbase, r)
      else if fb = 2 then andThen (readU64 r) fun fee r => andThen (readU64 r) fun lock r => .ok (.heightLocked fee lock, r)
      else if fb = 3 then
        (if nrd = false then .error .corrupted else
         andThen (readU64 r) fun fee r => andThen (decNrdHeight r) fun rel r => .ok (.noRecentDuplicate fee rel, r))
      else .error .corrupted := by
  unfold decKernelFeaturesV2
  cases h8 : readU8 bs with
  | error e => rfl
  | ok v =>
    obtain ⟨fb, r⟩ := v
    match fb with
    | 0 =>
      simp only [andThen_ok, if_true]
      cases h1 : readU64 r with
      | error e => rfl
      | ok v1 => obtain ⟨fee, r1⟩ := v1; rfl
    | 1 => rfl
    | 2 =>
      simp only [andThen_ok]
      cases h1 : readU64 r with
      | error e => rfl
      | ok v1 => obtain ⟨fee, r1⟩ := v1; simp only [andThen_ok]; cases h2 : readU64 r1 with
        | error e => rfl
        | ok v2 => obtain ⟨lock, r2⟩ := v2; rfl
    | 3 =>
      simp only [andThen_ok]
      cases nrd with
      | false => rfl
      | true =>
        simp only [Bool.not_true, Bool.false_eq_true, if_false, reduceCtorEq]
        cases h1 : readU64 r with
        | error e => rfl
        | ok v1 => obtain ⟨fee, r1⟩ := v1; simp only [andThen_ok]; cases h3 : decNrdHeight r1 with
          | error e => rfl
          | ok v3 => obtain ⟨rel, r3⟩ := v3; rfl
    | n+4 => simp [andThen]

theorem erases_rKernelFeaturesV2 (nrd : Bool) : Erases (rKernelFeaturesV2 nrd) (decKernelFeaturesV2 nrd) := by
  refine Erases.congr ?_ (fun bs => (decKernelFeaturesV2_eq nrd bs).symm)
  unfold rKernelFeaturesV2
  refine Erases.bind erases_rU8 (fun fb => ?_)
  refine Erases.ite _ (Erases.bind erases_rU64 fun fee => erases_pure _) ?_
  refine Erases.ite _ (erases_pure _) ?_
  refine Erases.ite _ (Erases.bind erases_rU64 fun fee => Erases.bind erases_rU64 fun lock => erases_pure _) ?_
  refine Erases.ite _ ?_ (erases_err _)
  exact Erases.ite _ (erases_err _)
    (Erases.bind erases_rU64 fun fee => Erases.bind erases_rNrdHeight fun rel => erases_pure _)

theorem erases_rKernelFeatures (c : Cfg) : Erases (rKernelFeatures c) (decKernelFeatures c) := by
  unfold rKernelFeatures decKernelFeatures
  by_cases h : c.ver ≤ 1
  · simp only [h, if_true]; exact erases_rKernelFeaturesV1 _
  · simp only [h, if_false]; exact erases_rKernelFeaturesV2 _

theorem erases_rTxKernel (rd : Rdr) (c : Cfg) : Erases (rTxKernel rd c) (decTxKernel c) :=
  Erases.bind (erases_rKernelFeatures c) fun _ => Erases.bind (erases_rCommit rd) fun _ =>
    Erases.bind (erases_rSig rd) fun _ => erases_pure _

theorem decOutputFeatures_eq (bs : Bytes) :
    decOutputFeatures bs = andThen (readU8 bs) fun b r =>
      if b = 0 then .ok (.plain, r) else if b = 1 then .ok (.coinbase, r) else .error .corrupted := by
  unfold decOutputFeatures
  cases h8 : readU8 bs with
  | error e => rfl
  | ok v =>
    obtain ⟨fb, r⟩ := v
    match fb with
    | 0 => rfl
    | 1 => rfl
    | n+2 => simp [andThen]

theorem erases_rOutputFeatures : Erases rOutputFeatures decOutputFeatures := by
  refine Erases.congr ?_ (fun bs => (decOutputFeatures_eq bs).symm)
  unfold rOutputFeatures
  exact Erases.bind erases_rU8 fun b => Erases.ite _ (erases_pure _) (Erases.ite _ (erases_pure _) (erases_err _))

theorem erases_rInput (rd : Rdr) : Erases (rInput rd) decInput :=
  Erases.bind erases_rOutputFeatures fun _ => Erases.bind (erases_rCommit rd) fun _ => erases_pure _

theorem erases_rOutputId (rd : Rdr) : Erases (rOutputId rd) decOutputId :=
  Erases.bind erases_rOutputFeatures fun _ => Erases.bind (erases_rCommit rd) fun _ => erases_pure _

theorem erases_rCommitWrapper (rd : Rdr) : Erases (rCommitWrapper rd) decCommitWrapper := erases_rCommit rd

theorem erases_rRangeProof (rd : Rdr) : Erases (rRangeProof rd) decRangeProof := by
  intro bs
  show (Dec.bind (rU64 bs) _).toExcept = some (andThen (readU64 bs) _)
  have h := erases_rU64 bs
  cases hp : rU64 bs with
  | ok len r n =>
    rw [hp] at h
    simp only [Outcome.toExcept, Option.some.injEq] at h
    rw [← h]
    simp only [Dec.bind, andThen_ok, toExcept_addAlloc]
    have h2 := erases_rFixed rd (min len MAX_PROOF_SIZE) r
    cases hq : rFixed rd (min len MAX_PROOF_SIZE) r with
    | ok p r2 m =>
      rw [hq] at h2
      simp only [Outcome.toExcept, Option.some.injEq] at h2
      have hl := (readFixed_ok h2.symm).2
      rw [← h2]
      have : ¬ p.length > MAX_PROOF_SIZE := by omega
      simp only [this, if_false, andThen_ok, Outcome.toExcept, Outcome.addAlloc]
    | err e m =>
      rw [hq] at h2
      simp only [Outcome.toExcept, Option.some.injEq] at h2
      rw [← h2]; rfl
    | panic s m => rw [hq] at h2; simp [Outcome.toExcept] at h2
  | err e n =>
    rw [hp] at h
    simp only [Outcome.toExcept, Option.some.injEq] at h
    rw [← h]; rfl
  | panic s n => rw [hp] at h; simp [Outcome.toExcept] at h

theorem erases_rOutput (rd : Rdr) : Erases (rOutput rd) decOutput :=
  Erases.bind (erases_rOutputId rd) fun _ => Erases.bind (erases_rRangeProof rd) fun _ => erases_pure _

/-! ### `read_multi` -/

theorem readN_multiItem_erase {p : Dec α} {q : Parser α} (h : Erases p q) (sz : Nat) :
    ∀ (n : Nat) (bs : Bytes),
      (GV.Dec.readN (multiItem p sz) n bs).toExcept
        = some (if (readMultiLoop q n bs).1.length ≠ n then .error .count else .ok (readMultiLoop q n bs)) := by
  intro n
  induction n with
  | zero => intro bs; simp [GV.Dec.readN, readMultiLoop, Outcome.toExcept]
  | succ n ih =>
    intro bs
    have hb := h bs
    simp only [GV.Dec.readN, multiItem, readMultiLoop]
    cases hp : p bs with
    | panic s a => rw [hp] at hb; simp [Outcome.toExcept] at hb
    | err e a =>
      rw [hp] at hb
      simp only [Outcome.toExcept, Option.some.injEq] at hb
      simp only [← hb]
      simp [Dec.bind, Outcome.toExcept]
    | ok x r a =>
      rw [hp] at hb
      simp only [Outcome.toExcept, Option.some.injEq] at hb
      simp only [← hb]
      have ih' := ih r
      have hle := readMultiLoop_length_le q n r
      simp only [Dec.bind, toExcept_addAlloc]
      cases hr : GV.Dec.readN (multiItem p sz) n r with
      | panic s b => rw [hr] at ih'; simp [Outcome.toExcept] at ih'
      | err e b =>
        rw [hr] at ih'
        simp only [Outcome.toExcept, Option.some.injEq] at ih'
        by_cases hl : (readMultiLoop q n r).1.length ≠ n
        · rw [if_pos hl] at ih'
          simp only [Except.error.injEq] at ih'
          have : ((x :: (readMultiLoop q n r).1, (readMultiLoop q n r).2) : List α × Bytes).1.length ≠ n + 1 := by
            simp; omega
          simp [Outcome.toExcept, Outcome.addAlloc, ih', hl]
        · rw [if_neg hl] at ih'; simp at ih'
      | ok xs r' b =>
        rw [hr] at ih'
        simp only [Outcome.toExcept, Option.some.injEq] at ih'
        by_cases hl : (readMultiLoop q n r).1.length ≠ n
        · rw [if_pos hl] at ih'; simp at ih'
        · rw [if_neg hl] at ih'
          simp only [Except.ok.injEq] at ih'
          have hl' : (readMultiLoop q n r).1.length = n := by omega
          have hx : xs.length = n := by rw [← ih'] at hl'; exact hl'
          simp [Outcome.toExcept, Outcome.addAlloc, ← ih', hx]

theorem erases_readMulti {p : Dec α} {q : Parser α} (h : Erases p q) (sz count : Nat) :
    Erases (readMulti p sz count) (Ser.readMulti q count) := by
  intro bs
  unfold readMulti Ser.readMulti
  by_cases hc : count > MAX_MULTI_COUNT
  · simp [hc, Outcome.toExcept]
  · simp only [hc, if_false]
    exact readN_multiItem_erase h sz count bs

/-! ### sortedness checks, `Inputs`, `TransactionBody` -/

/-- a `Chk` without panic as an `Except` -/
def chkOf : Except SerErr Unit → Chk
  | .ok _ => .ok
  | .error e => .err e

theorem verifySortedP_eq : ∀ (l : List Nat), verifySortedP l = chkOf (verifySortedUnique l)
  | [] => rfl
  | [_] => rfl
  | a :: b :: r => by
    have ih := verifySortedP_eq (b :: r)
    unfold verifySortedP at ih ⊢
    simp only [windows2, sortedLoop, verifySortedUnique, List.getElem?_cons_zero, List.getElem?_cons_succ]
    by_cases h1 : a > b
    · simp [h1, chkOf]
    · by_cases h2 : a = b
      · simp [h2, chkOf]
      · simp only [h1, h2, if_false]; exact ih

theorem chkOf_andThen (x y : Except SerErr Unit) :
    (chkOf x).andThen (chkOf y) = chkOf (match x with | .error e => .error e | .ok _ => y) := by
  cases x <;> rfl

theorem bodyVerifySortedP_eq (key : Bytes → Nat) (b : TxBody) :
    bodyVerifySortedP key b = chkOf (b.verifySorted key) := by
  unfold bodyVerifySortedP TxBody.verifySorted
  rw [verifySortedP_eq, verifySortedP_eq, verifySortedP_eq, chkOf_andThen, chkOf_andThen]
  cases verifySortedUnique (b.inputs.keys key) <;> rfl

theorem compactVerifySortedP_eq (key : Bytes → Nat) (b : CompactBlockBody) :
    compactVerifySortedP key b = chkOf (b.verifySorted key) := by
  unfold compactVerifySortedP CompactBlockBody.verifySorted
  rw [verifySortedP_eq, verifySortedP_eq, verifySortedP_eq, chkOf_andThen, chkOf_andThen]
  cases verifySortedUnique (b.outFull.map fun o => key o.hashBytes) <;> rfl

theorem erases_corrupt (x : Except SerErr Unit) (a : α) :
    Erases (fun r => (chkOf x).corrupt (.ok a r 0))
      (fun r => match x with | .error _ => .error .corrupted | .ok _ => .ok (a, r)) := by
  intro r; cases x <;> rfl

theorem erases_rInputs (rd : Rdr) (ver ni : Nat) : Erases (rInputs rd ver ni) (decInputs ver ni) := by
  unfold rInputs decInputs
  by_cases h : ver ≤ 2
  · simp only [h, if_true]
    exact Erases.bind (erases_readMulti (erases_rInput rd) _ _) fun l => Erases.charge (erases_pure _) _
  · simp only [h, if_false]
    exact Erases.bind (erases_readMulti (erases_rCommitWrapper rd) _ _) fun l => Erases.charge (erases_pure _) _

theorem erases_rTxBody (rd : Rdr) (c : Cfg) : Erases (rTxBody rd c) (decTxBody c) := by
  unfold rTxBody decTxBody
  refine Erases.bind erases_rU64 fun ni => Erases.bind erases_rU64 fun no => Erases.bind erases_rU64 fun nk => ?_
  refine Erases.ite _ (erases_err _) ?_
  refine Erases.bind (erases_rInputs rd c.ver ni) fun ins => ?_
  refine Erases.bind (erases_readMulti (erases_rOutput rd) _ _) fun outs => ?_
  refine Erases.bind (erases_readMulti (erases_rTxKernel rd c) _ _) fun kers => ?_
  refine Erases.charge ?_ _
  rw [bodyVerifySortedP_eq]
  exact erases_corrupt _ _

theorem erases_rCompactBody (rd : Rdr) (c : Cfg) : Erases (rCompactBody rd c) (decCompactBody c) := by
  unfold rCompactBody decCompactBody
  refine Erases.bind erases_rU64 fun no => Erases.bind erases_rU64 fun nk => Erases.bind erases_rU64 fun ni => ?_
  refine Erases.bind (erases_readMulti (erases_rOutput rd) _ _) fun outs => ?_
  refine Erases.bind (erases_readMulti (erases_rTxKernel rd c) _ _) fun kers => ?_
  refine Erases.bind (erases_readMulti (erases_rShortId rd) _ _) fun ids => ?_
  rw [compactVerifySortedP_eq]
  exact erases_corrupt _ _

/-! ### `Proof`, `ProofOfWork`, `BlockHeader` -/

theorem extractBitsP_eq {bits : Bytes} {s c rf v : Nat} (h : extractBitsP bits s c rf = .ok v) :
    v = extractBits bits s c rf := by
  unfold extractBitsP at h
  unfold extractBits
  split at h
  · simp at h
  · split at h
    · rename_i hc; simp only [Except.ok.injEq] at h; simp [hc, h]
    · rename_i hc
      split at h
      · simp at h
      · split at h
        · simp at h
        · split at h
          · simp at h
          · simp only [Except.ok.injEq] at h
            rw [← h]; unfold extractBits; simp [hc]

theorem readNumberP_eq {bits : Bytes} {s c v : Nat} (h : readNumberP bits s c = .ok v) :
    v = readNumber bits s c := by
  unfold readNumberP at h
  unfold readNumber
  by_cases h0 : c = 0
  · simp only [h0, if_true, Except.ok.injEq] at h ⊢; exact h.symm
  · simp only [h0, if_false] at h ⊢
    by_cases hbad : s / 8 + 8 > bits.length ∧ bits.length < 8
    · simp [hbad] at h
    · simp only [hbad, if_false] at h
      generalize hrf : (if s / 8 + 8 > bits.length then bits.length - 8 else s / 8) = rf at h ⊢
      by_cases hone : s + c ≤ (rf + 8) * 8
      · simp only [hone, if_true] at h ⊢; exact extractBitsP_eq h
      · simp only [hone, if_false] at h ⊢
        by_cases h8 : c < 8
        · simp [h8] at h
        · simp only [h8, if_false] at h
          cases hlo : extractBitsP bits s 8 rf with
          | error e => simp [hlo] at h
          | ok lo =>
            cases hhi : extractBitsP bits (s + 8) (c - 8) (rf + 1) with
            | error e => simp [hlo, hhi] at h
            | ok hi =>
              simp only [hlo, hhi, Except.ok.injEq] at h
              rw [← h, extractBitsP_eq hlo, extractBitsP_eq hhi]

theorem nonceLoop_eq {bits : Bytes} {eb : Nat} :
    ∀ (k n : Nat) (vs : List Nat), nonceLoop bits eb k n = .ok vs →
      vs = (List.range k).map fun i => readNumber bits ((n + i) * eb) eb := by
  intro k
  induction k with
  | zero => intro n vs h; simp only [nonceLoop, Except.ok.injEq] at h; simp [← h]
  | succ k ih =>
    intro n vs h
    simp only [nonceLoop] at h
    split at h
    · simp at h
    · rename_i v hv
      split at h
      · simp at h
      · rename_i ws hws
        simp only [Except.ok.injEq] at h
        rw [← h, readNumberP_eq hv, ih (n + 1) ws hws, List.range_succ_eq_map]
        simp only [List.map_cons, List.map_map, Nat.add_zero]
        congr 1
        apply List.map_congr_left
        intro i _
        simp only [Function.comp]
        congr 2
        omega

theorem erases_proofFromBits (c : Cfg) {eb : Nat} (heb : eb ≤ 63) (hpl : 8 ≤ packLen c.proofSize eb)
    {bits : Bytes} (hb : bits.length = packLen c.proofSize eb) :
    Erases (proofFromBits c eb bits) (fun r =>
      if readNumber bits (c.proofSize * eb) (packLen c.proofSize eb * 8 - c.proofSize * eb) ≠ 0 then .error .corrupted
      else .ok ({ edgeBits := eb, nonces := (List.range c.proofSize).map fun n => readNumber bits (n * eb) eb }, r)) := by
  intro r
  have hm := packLen_mul8 c.proofSize eb
  obtain ⟨vs, hvs⟩ := nonceLoop_ok (bits := bits) (eb := eb) (by omega) heb c.proofSize 0
    (by rw [Nat.zero_add, hb]; exact hm)
  obtain ⟨pad, hpad⟩ := readNumberP_ok (bits := bits) (s := c.proofSize * eb)
    (c := packLen c.proofSize eb * 8 - c.proofSize * eb) (by omega) (by rw [hb]; omega)
    (by unfold packLen at hm ⊢; rw [Nat.mul_comm c.proofSize eb]; omega)
  have e1 := nonceLoop_eq _ _ _ hvs
  have e2 := readNumberP_eq hpad
  simp only [Nat.zero_add] at e1
  unfold proofFromBits
  simp only [hvs, hpad]
  rw [if_neg (by omega), ← e2, ← e1]
  by_cases hp : pad ≠ 0 <;> simp [hp, Outcome.toExcept]

theorem erases_rProof (rd : Rdr) (c : Cfg) (hps : c.proofSize * 8 ≤ ISIZE_MAX) : Erases (rProof rd c) (decProof c) := by
  intro bs
  show (Dec.bind (rU8 bs) _).toExcept = some (andThen (readU8 bs) _)
  have h := erases_rU8 bs
  cases hp : rU8 bs with
  | panic s n => rw [hp] at h; simp [Outcome.toExcept] at h
  | err e n =>
    rw [hp] at h
    simp only [Outcome.toExcept, Option.some.injEq] at h
    rw [← h]; rfl
  | ok eb r n =>
    rw [hp] at h
    simp only [Outcome.toExcept, Option.some.injEq] at h
    rw [← h]
    simp only [Dec.bind, andThen_ok, toExcept_addAlloc]
    by_cases hbad : eb = 0 ∨ eb > 63
    · simp [hbad, Outcome.toExcept]
    · simp only [hbad, if_false]
      unfold Dec.withCapacity
      rw [if_neg (by omega), toExcept_addAlloc]
      by_cases hpl : packLen c.proofSize eb < 8
      · simp [hpl, Outcome.toExcept]
      · simp only [hpl, if_false]
        have h2 := erases_rFixed rd (packLen c.proofSize eb) r
        cases hq : rFixed rd (packLen c.proofSize eb) r with
        | panic s m => rw [hq] at h2; simp [Outcome.toExcept] at h2
        | err e m =>
          rw [hq] at h2
          simp only [Outcome.toExcept, Option.some.injEq] at h2
          rw [← h2]; rfl
        | ok bits r2 m =>
          rw [hq] at h2
          simp only [Outcome.toExcept, Option.some.injEq] at h2
          have hl := (readFixed_ok h2.symm).2
          rw [← h2]
          simp only [andThen_ok, toExcept_addAlloc]
          exact erases_proofFromBits c (by omega) (by omega) hl r2

theorem erases_rProofOfWork (rd : Rdr) (c : Cfg) (hps : c.proofSize * 8 ≤ ISIZE_MAX) :
    Erases (rProofOfWork rd c) (decProofOfWork c) :=
  Erases.bind erases_rU64 fun _ => Erases.bind erases_rU32 fun _ => Erases.bind erases_rU64 fun _ =>
    Erases.bind (erases_rProof rd c hps) fun _ => erases_pure _

theorem erases_rBlockHeader (rd : Rdr) (c : Cfg) (hps : c.proofSize * 8 ≤ ISIZE_MAX) :
    Erases (rBlockHeader rd c) (decBlockHeader c) := by
  unfold rBlockHeader decBlockHeader
  refine Erases.bind erases_rU16 fun _ => Erases.bind erases_rU64 fun _ => Erases.bind erases_rI64 fun ts => ?_
  refine Erases.bind (erases_rHash rd) fun _ => Erases.bind (erases_rHash rd) fun _ => Erases.bind (erases_rHash rd) fun _ => ?_
  refine Erases.bind (erases_rHash rd) fun _ => Erases.bind (erases_rHash rd) fun _ => Erases.bind (erases_rBlind rd) fun _ => ?_
  refine Erases.bind erases_rU64 fun _ => Erases.bind erases_rU64 fun _ => Erases.bind (erases_rProofOfWork rd c hps) fun _ => ?_
  exact Erases.ite _ (erases_err _) (erases_pure _)

/-! ### from an accepted instrumented read to the plain decoder -/

theorem Erases.ok {p : Dec α} {q : Parser α} (h : Erases p q) {bs : Bytes} {a : α} {r : Bytes} {n : Nat}
    (hp : p bs = .ok a r n) : q bs = .ok (a, r) := by
  have := h bs
  rw [hp] at this
  simp only [Outcome.toExcept, Option.some.injEq] at this
  exact this.symm

theorem untrustedChecks_ok {e : Env} {h h' : BlockHeader} {r r' : Bytes} {n : Nat}
    (hc : untrustedChecks e h r = .ok h' r' n) : h' = h ∧ r' = r := by
  unfold untrustedChecks at hc
  simp only at hc
  cases hx : GV.Cons.untrustedHeaderCheck e.ct e.now e.ftl (e.powOk h) (toHdr h) with
  | error x => rw [hx] at hc; cases x <;> simp [charge, Outcome.addAlloc] at hc
  | ok u =>
    rw [hx] at hc
    simp only [charge, Outcome.addAlloc, Outcome.ok.injEq] at hc
    exact ⟨hc.1.symm, hc.2.1.symm⟩

/-- `UntrustedBlockHeader::read` only adds checks: what it accepts, `read_block_header` accepts with the
same value and the same unread rest -/
theorem rUntrustedHeader_ok (rd : Rdr) (e : Env) (hps : e.cfg.proofSize * 8 ≤ ISIZE_MAX)
    {bs : Bytes} {h : BlockHeader} {r : Bytes} {n : Nat} (hr : rUntrustedHeader rd e bs = .ok h r n) :
    decBlockHeader e.cfg bs = .ok (h, r) := by
  unfold rUntrustedHeader at hr
  obtain ⟨h0, r0, n1, n2, h1, h2, _⟩ := bind_ok_inv hr
  obtain ⟨rfl, rfl⟩ := untrustedChecks_ok h2
  exact (erases_rBlockHeader rd e.cfg hps).ok h1

theorem corrupt_ok {ch : Chk} {k : Outcome α} {a : α} {r : Bytes} {n : Nat} (h : ch.corrupt k = .ok a r n) :
    k = .ok a r n := by
  cases ch <;> simp [Chk.corrupt] at h; exact h

/-- an outcome that, when it is a success, leaves exactly `r` unread -/
def RestIs (r : Bytes) (o : Outcome α) : Prop := ∀ a r' n, o = .ok a r' n → r' = r

theorem RestIs.ok (a : α) (r : Bytes) (n : Nat) : RestIs r (.ok a r n : Outcome α) := by
  intro a' r' n' h; simp only [Outcome.ok.injEq] at h; exact h.2.1.symm
theorem RestIs.err (r : Bytes) (e : SerErr) (n : Nat) : RestIs r (.err e n : Outcome α) := by
  intro a' r' n' h; simp at h
theorem RestIs.addAlloc {r : Bytes} {o : Outcome α} (h : RestIs r o) (k : Nat) : RestIs r (o.addAlloc k) := by
  intro a' r' n' hh
  cases o with
  | ok a r0 n0 => simp only [Outcome.addAlloc, Outcome.ok.injEq] at hh; rw [← hh.2.1]; exact h a r0 n0 rfl
  | err e n0 => simp [Outcome.addAlloc] at hh
  | panic s n0 => simp [Outcome.addAlloc] at hh
theorem RestIs.corrupt {r : Bytes} {o : Outcome α} (h : RestIs r o) (ch : Chk) : RestIs r (ch.corrupt o) := by
  cases ch with
  | ok => exact h
  | err e => exact RestIs.err r _ _
  | panic s => intro a' r' n' hh; simp [Chk.corrupt] at hh

theorem validateReadBody_ok {c : Cfg} {maxW : Nat} {b : TxBody} {r r' : Bytes} {n : Nat}
    (h : validateReadBody c maxW b r = .ok () r' n) : r' = r := by
  have key : RestIs r (validateReadBody c maxW b r) := by
    unfold validateReadBody
    split
    · exact RestIs.err _ _ _
    · simp only [charge]
      refine RestIs.addAlloc ?_ _
      split
      · exact RestIs.err _ _ _
      · exact RestIs.corrupt (RestIs.addAlloc (RestIs.corrupt (RestIs.ok _ _ _) _) _) _
  exact key _ _ _ h

/-- `UntrustedBlock::read` only adds checks to `Block::read` -/
theorem rUntrustedBlock_ok (rd : Rdr) (e : Env) (hps : e.cfg.proofSize * 8 ≤ ISIZE_MAX)
    {bs : Bytes} {b : Block} {r : Bytes} {n : Nat} (hr : rUntrustedBlock rd e bs = .ok b r n) :
    decBlock e.cfg bs = .ok (b, r) := by
  unfold rUntrustedBlock at hr
  obtain ⟨h0, r0, n1, n2, h1, h2, _⟩ := bind_ok_inv hr
  obtain ⟨body, r1, n3, n4, h3, h4, _⟩ := bind_ok_inv h2
  obtain ⟨u, r2, n5, n6, h5, h6, _⟩ := bind_ok_inv h4
  have hr2 := validateReadBody_ok h5
  simp only [Outcome.ok.injEq] at h6
  obtain ⟨rfl, rfl, _⟩ := h6
  subst hr2
  have hh := rUntrustedHeader_ok rd e hps h1
  have hb := (erases_rTxBody rd e.cfg).ok h3
  unfold decBlock
  rw [hh, andThen_ok, hb, andThen_ok]

/-- `UntrustedCompactBlock::read` only adds checks to `CompactBlock::read` -/
theorem rUntrustedCompactBlock_ok (rd : Rdr) (e : Env) (hps : e.cfg.proofSize * 8 ≤ ISIZE_MAX)
    {bs : Bytes} {b : CompactBlock} {r : Bytes} {n : Nat} (hr : rUntrustedCompactBlock rd e bs = .ok b r n) :
    decCompactBlock e.cfg bs = .ok (b, r) := by
  unfold rUntrustedCompactBlock at hr
  obtain ⟨h0, r0, n1, n2, h1, h2, _⟩ := bind_ok_inv hr
  obtain ⟨nonce, r1, n3, n4, h3, h4, _⟩ := bind_ok_inv h2
  obtain ⟨body, r2, n5, n6, h5, h6, _⟩ := bind_ok_inv h4
  have h7 := corrupt_ok h6
  simp only [Outcome.ok.injEq] at h7
  obtain ⟨rfl, rfl, _⟩ := h7
  have hh := rUntrustedHeader_ok rd e hps h1
  have hn := erases_rU64.ok h3
  have hb := (erases_rCompactBody rd e.cfg).ok h5
  unfold decCompactBlock
  rw [hh, andThen_ok, hn, andThen_ok, hb, andThen_ok]

end GV.DecSer
