import GrinVerif.Lemmas.DecSerErase
/-! `Transaction::read`: the instrumented reader (with `verify_cut_through` as the code does it — sort
all commitments, compare neighbours) erases to the plain one (no commitment occurs twice). -/
namespace GV.DecSer
open GV GV.Ser GV.Dec

/-! ### the lexicographic order of `Commitment([u8; 33])` -/

theorem bytesLt_irrefl : ∀ x : Bytes, bytesLt x x = false
  | [] => rfl
  | a :: r => by simp [bytesLt, bytesLt_irrefl r]

theorem bytesLt_antisymm : ∀ x y : Bytes, bytesLt x y = false → bytesLt y x = false → x = y
  | [], [], _, _ => rfl
  | [], _ :: _, h, _ => by simp [bytesLt] at h
  | _ :: _, [], _, h => by simp [bytesLt] at h
  | a :: r, b :: s, h1, h2 => by
    simp only [bytesLt] at h1 h2
    by_cases hab : a < b
    · simp [hab] at h1
    · by_cases hba : b < a
      · simp [hba] at h2
      · have : a = b := by omega
        subst this
        simp only [Nat.lt_irrefl, if_false, gt_iff_lt] at h1 h2
        rw [bytesLt_antisymm r s h1 h2]

theorem bytesLt_trans : ∀ x y z : Bytes, bytesLt x y = true → bytesLt y z = true → bytesLt x z = true
  | [], [], _, h, _ => by simp [bytesLt] at h
  | [], _ :: _, [], _, h => by simp [bytesLt] at h
  | [], _ :: _, _ :: _, _, _ => rfl
  | _ :: _, [], _, h, _ => by simp [bytesLt] at h
  | _ :: _, _ :: _, [], _, h => by simp [bytesLt] at h
  | a :: r, b :: s, c :: t, h1, h2 => by
    simp only [bytesLt] at h1 h2 ⊢
    by_cases hab : a < b
    · by_cases hbc : b < c
      · have : a < c := by omega
        simp [this]
      · by_cases hcb : b > c
        · simp [hbc, hcb] at h2
        · have : b = c := by omega
          subst this; simp [hab]
    · by_cases hba : a > b
      · simp [hab, hba] at h1
      · have : a = b := by omega
        subst this
        simp only [Nat.lt_irrefl, if_false, gt_iff_lt] at h1
        by_cases hac : a < c
        · simp [hac]
        · by_cases hca : a > c
          · simp [hac, hca] at h2
          · have : a = c := by omega
            subst this
            simp only [Nat.lt_irrefl, if_false, gt_iff_lt] at h2 ⊢
            exact bytesLt_trans r s t h1 h2

/-- `x ≤ y` -/
def bytesLe (x y : Bytes) : Prop := bytesLt y x = false

theorem bytesLe_total (x y : Bytes) : bytesLe x y ∨ bytesLe y x := by
  unfold bytesLe
  cases h : bytesLt y x with
  | false => exact Or.inl rfl
  | true =>
    right
    cases h2 : bytesLt x y with
    | false => rfl
    | true => have := bytesLt_trans _ _ _ h h2; rw [bytesLt_irrefl] at this; simp at this

theorem bytesLe_trans {x y z : Bytes} (h1 : bytesLe x y) (h2 : bytesLe y z) : bytesLe x z := by
  unfold bytesLe at *
  cases h : bytesLt z x with
  | false => rfl
  | true =>
    -- z < x ≤ y gives z < y or ..., contradiction with y ≤ z
    cases hxy : bytesLt x y with
    | true => have := bytesLt_trans _ _ _ h hxy; rw [h2] at this; simp at this
    | false =>
      have := bytesLt_antisymm x y hxy h1
      subst this; rw [h2] at h; simp at h

/-! ### insertion sort: sorted, a permutation -/

theorem insertBytes_perm (x : Bytes) : ∀ l : List Bytes, (insertBytes x l).Perm (x :: l)
  | [] => List.Perm.refl _
  | y :: r => by
    simp only [insertBytes]
    split
    · exact List.Perm.refl _
    · exact ((insertBytes_perm x r).cons y).trans (List.Perm.swap x y r)

theorem sortBytes_perm : ∀ l : List Bytes, (sortBytes l).Perm l
  | [] => List.Perm.refl _
  | x :: r => (insertBytes_perm x (sortBytes r)).trans ((sortBytes_perm r).cons x)

theorem insertBytes_sorted (x : Bytes) : ∀ l : List Bytes, l.Pairwise bytesLe → (insertBytes x l).Pairwise bytesLe
  | [], _ => by simp [insertBytes]
  | y :: r, h => by
    have hp := List.pairwise_cons.mp h
    simp only [insertBytes]
    split
    · rename_i hlt
      refine List.pairwise_cons.mpr ⟨?_, h⟩
      intro z hz
      have hxy : bytesLe x y := by
        unfold bytesLe
        cases hh : bytesLt y x with
        | false => rfl
        | true => have := bytesLt_trans _ _ _ hlt hh; rw [bytesLt_irrefl] at this; simp at this
      rcases List.mem_cons.mp hz with rfl | hz
      · exact hxy
      · exact bytesLe_trans hxy (hp.1 z hz)
    · rename_i hnlt
      refine List.pairwise_cons.mpr ⟨?_, insertBytes_sorted x r hp.2⟩
      intro z hz
      have hz' := (insertBytes_perm x r).subset hz
      rcases List.mem_cons.mp hz' with rfl | hz'
      · unfold bytesLe; simpa using hnlt
      · exact hp.1 z hz'

theorem sortBytes_sorted : ∀ l : List Bytes, (sortBytes l).Pairwise bytesLe
  | [] => List.Pairwise.nil
  | x :: r => insertBytes_sorted x _ (sortBytes_sorted r)

/-! ### `windows(2)` over a sorted list finds a duplicate iff there is one -/

theorem cutThroughLoop_sorted : ∀ l : List Bytes, l.Pairwise bytesLe →
    cutThroughLoop (windows2 l) = if l.Nodup then .ok else .err .corrupted
  | [], _ => rfl
  | [_], _ => by simp [windows2, cutThroughLoop]
  | a :: b :: r, h => by
    have hp := List.pairwise_cons.mp h
    have ih := cutThroughLoop_sorted (b :: r) hp.2
    simp only [windows2, cutThroughLoop, List.getElem?_cons_zero, List.getElem?_cons_succ]
    by_cases hab : a = b
    · subst hab; simp
    · simp only [hab, if_false, ih]
      have hnot : a ∉ b :: r := by
        intro hmem
        -- every later element is ≥ b ≥ a and a ≤ it; an equal one would force a = b
        have hb := hp.1 b (by simp)
        rcases List.mem_cons.mp hmem with rfl | hr
        · exact hab rfl
        · have hpb := List.pairwise_cons.mp hp.2
          have h1 : bytesLe b a := hpb.1 a hr
          exact hab (bytesLt_antisymm a b h1 hb)
      simp [List.nodup_cons, hnot]

theorem allDistinct_iff_nodup : ∀ l : List Bytes, allDistinct l = true ↔ l.Nodup
  | [] => by simp [allDistinct]
  | x :: r => by
    simp only [allDistinct, Bool.and_eq_true, Bool.not_eq_true', List.nodup_cons, allDistinct_iff_nodup r]
    constructor
    · rintro ⟨h1, h2⟩; exact ⟨by simpa using h1, h2⟩
    · rintro ⟨h1, h2⟩; exact ⟨by simpa using h1, h2⟩

theorem cutThrough_eq (l : List Bytes) :
    cutThroughLoop (windows2 (sortBytes l)) = if allDistinct l then .ok else .err .corrupted := by
  rw [cutThroughLoop_sorted _ (sortBytes_sorted l)]
  have : (sortBytes l).Nodup ↔ l.Nodup := (sortBytes_perm l).nodup_iff
  by_cases h : l.Nodup
  · simp [this.mpr h, (allDistinct_iff_nodup l).mpr h]
  · have h2 : ¬ allDistinct l = true := fun hh => h ((allDistinct_iff_nodup l).mp hh)
    simp [mt this.mp h, h2]

/-! ### `validate_read`, `Transaction::read` -/

theorem erases_validateReadBody (c : Cfg) (maxW : Nat) (b : TxBody) :
    Erases (validateReadBody c maxW b)
      (fun r => if b.validateRead c maxW then .ok ((), r) else .error .corrupted) := by
  intro r
  unfold validateReadBody TxBody.validateRead
  by_cases hw : b.weight > maxW
  · have : ¬ b.weight ≤ maxW := by omega
    simp [hw, this, Outcome.toExcept]
  · have hw' : b.weight ≤ maxW := by omega
    simp only [hw, if_false, charge, toExcept_addAlloc, hw', decide_true, Bool.true_and]
    by_cases hn : (c.nrd && !allDistinct ((b.kernels.filter (·.features.isNrd)).map (·.excess))) = true
    · have : (!c.nrd || allDistinct ((b.kernels.filter (·.features.isNrd)).map (·.excess))) = false := by
        cases hc : c.nrd <;> simp_all
      simp [hn, this, Outcome.toExcept]
    · have hn' : (!c.nrd || allDistinct ((b.kernels.filter (·.features.isNrd)).map (·.excess))) = true := by
        cases hc : c.nrd <;> simp_all
      simp only [hn, hn', Bool.true_and, bodyVerifySortedP_eq, cutThrough_eq, Bool.false_eq_true, if_false]
      cases hs : b.verifySorted c.key with
      | error e => simp [chkOf, Chk.corrupt, Outcome.toExcept]
      | ok u =>
        simp only [chkOf, Chk.corrupt, toExcept_addAlloc, Bool.true_and]
        by_cases hd : allDistinct (b.inputs.commits ++ b.outputs.map (·.id.commit)) = true
        · simp [hd, Chk.corrupt, Outcome.toExcept]
        · simp [hd, Chk.corrupt, Outcome.toExcept]

theorem erases_rTransaction (rd : Rdr) (c : Cfg) : Erases (rTransaction rd c) (decTransaction c) := by
  have key : ∀ bs, decTransaction c bs =
      andThen (decBlind bs) fun off r => andThen (decTxBody c r) fun body r =>
        andThen ((fun r => if body.validateRead c (maxTxWeight c.maxWeight) then .ok ((), r) else .error .corrupted) r)
          fun _ r => if body.verifyFeatures then .ok ({ offset := off, body := body }, r) else .error .corrupted := by
    intro bs
    unfold decTransaction
    congr 1; funext off r; congr 1; funext body r
    by_cases h1 : body.validateRead c (maxTxWeight c.maxWeight) = true <;>
      by_cases h2 : body.verifyFeatures = true <;> simp [h1, h2, andThen]
  refine Erases.congr ?_ (fun bs => (key bs).symm)
  unfold rTransaction
  refine Erases.bind (erases_rBlind rd) fun off => Erases.bind (erases_rTxBody rd c) fun body => ?_
  refine Erases.bind (erases_validateReadBody c _ body) fun _ => ?_
  exact Erases.ite _ (erases_pure _) (erases_err _)

end GV.DecSer
