import GrinVerif.Model.Kv
/-! Helper lemmas for C18 (database batches): the key order is a strict total order, table
operations against `tget`, sortedness is preserved, the paging loop of `DatabaseIterator`. -/
namespace GV.Kv

/-! ### the key order -/

theorem bytesLt_irrefl (a : Bytes) : bytesLt a a = false := by
  induction a with
  | nil => rfl
  | cons x xs ih => simp [bytesLt, ih]

theorem bytesLt_trans : ∀ (a b c : Bytes), bytesLt a b = true → bytesLt b c = true → bytesLt a c = true
  | [], [], _, h, _ => by simp [bytesLt] at h
  | [], _ :: _, [], _, h => by simp [bytesLt] at h
  | [], _ :: _, _ :: _, _, _ => by simp [bytesLt]
  | _ :: _, [], _, h, _ => by simp [bytesLt] at h
  | _ :: _, _ :: _, [], _, h => by simp [bytesLt] at h
  | x :: xs, y :: ys, z :: zs, h1, h2 => by
    simp only [bytesLt] at h1 h2 ⊢
    by_cases hxy : x < y
    · by_cases hyz : y < z
      · have : x < z := by omega
        simp [this]
      · by_cases hzy : z < y
        · simp [hyz, hzy] at h2
        · have : y = z := by omega
          subst this; simp [hxy]
    · by_cases hyx : y < x
      · simp [hxy, hyx] at h1
      · have hxy' : x = y := by omega
        subst hxy'
        simp only [hxy, if_false] at h1
        by_cases hyz : x < z
        · simp [hyz]
        · by_cases hzy : z < x
          · simp [hyz, hzy] at h2
          · simp only [hyz, hzy, if_false] at h2 ⊢
            exact bytesLt_trans xs ys zs h1 h2

theorem bytesLt_total : ∀ (a b : Bytes), bytesLt a b = false → bytesLt b a = false → a = b
  | [], [], _, _ => rfl
  | [], _ :: _, h, _ => by simp [bytesLt] at h
  | _ :: _, [], _, h => by simp [bytesLt] at h
  | x :: xs, y :: ys, h1, h2 => by
    simp only [bytesLt] at h1 h2
    by_cases hxy : x < y
    · simp [hxy] at h1
    · by_cases hyx : y < x
      · simp [hyx] at h2
      · have : x = y := by omega
        subst this
        simp only [hxy, if_false] at h1 h2
        rw [bytesLt_total xs ys h1 h2]

theorem keyLt_irrefl (a : Key) : keyLt a a = false := by
  simp [keyLt, bytesLt_irrefl]

theorem keyLt_trans (a b c : Key) (h1 : keyLt a b = true) (h2 : keyLt b c = true) :
    keyLt a c = true := by
  obtain ⟨a1, a2⟩ := a
  obtain ⟨b1, b2⟩ := b
  obtain ⟨c1, c2⟩ := c
  simp only [keyLt] at h1 h2 ⊢
  by_cases hab : a1 < b1
  · by_cases hbc : b1 < c1
    · have : a1 < c1 := by omega
      simp [this]
    · by_cases hcb : c1 < b1
      · simp [hbc, hcb] at h2
      · have : b1 = c1 := by omega
        subst this; simp [hab]
  · by_cases hba : b1 < a1
    · simp [hab, hba] at h1
    · have : a1 = b1 := by omega
      subst this
      simp only [hab, if_false] at h1
      by_cases hac : a1 < c1
      · simp [hac]
      · by_cases hca : c1 < a1
        · simp [hac, hca] at h2
        · simp only [hac, hca, if_false] at h2 ⊢
          exact bytesLt_trans _ _ _ h1 h2

theorem keyLt_total (a b : Key) (h1 : keyLt a b = false) (h2 : keyLt b a = false) : a = b := by
  obtain ⟨a1, a2⟩ := a
  obtain ⟨b1, b2⟩ := b
  simp only [keyLt] at h1 h2
  by_cases hab : a1 < b1
  · simp [hab] at h1
  · by_cases hba : b1 < a1
    · simp [hba] at h2
    · have : a1 = b1 := by omega
      subst this
      simp only [hab, if_false] at h1 h2
      rw [bytesLt_total _ _ h1 h2]

theorem keyLt_ne (a b : Key) (h : keyLt a b = true) : a ≠ b := by
  intro e; subst e; simp [keyLt_irrefl] at h

/-- within one database the key order is the byte order -/
theorem keyLt_same_db (d : Nat) (a b : Bytes) : keyLt (d, a) (d, b) = bytesLt a b := by
  simp [keyLt]

/-! ### tables against `tget` -/

theorem tget_tput (k : Key) (v : Val) (t : Tbl) (k' : Key) :
    tget (tput k v t) k' = if k = k' then some v else tget t k' := by
  induction t with
  | nil => simp [tput, tget]
  | cons e r ih =>
    obtain ⟨ke, ve⟩ := e
    simp only [tput]
    by_cases h1 : keyLt k ke = true
    · simp [h1, tget]
    · simp only [h1, if_false, Bool.false_eq_true]
      by_cases h2 : k = ke
      · subst h2
        by_cases h3 : k = k' <;> simp [tget, h3]
      · simp only [h2, if_false, tget, ih]
        by_cases h3 : ke = k'
        · have : ¬ k = k' := by intro e; exact h2 (e.trans h3.symm)
          simp [h3, this]
        · simp [h3]

theorem tget_tdel (k : Key) (t : Tbl) (k' : Key) :
    tget (tdel k t) k' = if k = k' then none else tget t k' := by
  induction t with
  | nil => simp [tdel, tget]
  | cons e r ih =>
    obtain ⟨ke, ve⟩ := e
    simp only [tdel] at ih ⊢
    by_cases h1 : ke = k
    · subst h1
      simp only [List.filter, decide_true, Bool.not_true, ih, tget]
      by_cases h3 : ke = k' <;> simp [h3]
    · have hd : (!decide (ke = k)) = true := by simp [h1]
      simp only [List.filter, hd, tget, ih]
      by_cases h3 : ke = k'
      · have : ¬ k = k' := by intro e; exact h1 (h3.trans e.symm)
        simp [h3, this]
      · simp [h3]

theorem tget_applyW (w : W) (t : Tbl) (k : Key) :
    tget (applyW w t) k = if w.1 = k then w.2 else tget t k := by
  obtain ⟨kw, vw⟩ := w
  cases vw with
  | none => simp [applyW, tget_tdel]
  | some v => simp [applyW, tget_tput]

/-- reading an applied overlay = newest pending write, else the table below -/
theorem tget_applyOv (o : Ov) (t : Tbl) (k : Key) :
    tget (applyOv o t) k = match ovGet o k with
      | some r => r
      | none => tget t k := by
  induction o with
  | nil => simp [applyOv, ovGet]
  | cons w r ih =>
    obtain ⟨kw, vw⟩ := w
    have : applyOv ((kw, vw) :: r) t = applyW (kw, vw) (applyOv r t) := rfl
    rw [this, tget_applyW]
    by_cases h : kw = k
    · simp [ovGet, h]
    · simp [ovGet, h, ih]

theorem applyOv_append (a b : Ov) (t : Tbl) : applyOv (a ++ b) t = applyOv a (applyOv b t) := by
  simp [applyOv, List.foldr_append]

theorem ovGet_append (a b : Ov) (k : Key) :
    ovGet (a ++ b) k = match ovGet a k with
      | some r => some r
      | none => ovGet b k := by
  induction a with
  | nil => simp [ovGet]
  | cons w r ih =>
    obtain ⟨kw, vw⟩ := w
    by_cases h : kw = k <;> simp [ovGet, h, ih]

/-! ### sortedness -/

/-- strictly increasing keys (hence every key at most once) -/
def Sorted (t : Tbl) : Prop := t.Pairwise (fun a b => keyLt a.1 b.1 = true)

theorem sorted_nil : Sorted [] := List.Pairwise.nil

theorem mem_tput (k : Key) (v : Val) (t : Tbl) (e : Key × Val) (h : e ∈ tput k v t) :
    e = (k, v) ∨ e ∈ t := by
  induction t with
  | nil => simp [tput] at h; exact Or.inl h
  | cons x r ih =>
    obtain ⟨kx, vx⟩ := x
    simp only [tput] at h
    by_cases h1 : keyLt k kx = true
    · simp only [h1, if_true, List.mem_cons] at h
      rcases h with h | h | h
      · exact Or.inl h
      · exact Or.inr (by simp [h])
      · exact Or.inr (by simp [h])
    · simp only [h1, if_false, Bool.false_eq_true] at h
      by_cases h2 : k = kx
      · simp only [h2, if_true, List.mem_cons] at h
        rcases h with h | h
        · exact Or.inl (by rw [h, h2])
        · exact Or.inr (by simp [h])
      · simp only [h2, if_false, List.mem_cons] at h
        rcases h with h | h
        · exact Or.inr (by simp [h])
        · rcases ih h with h | h
          · exact Or.inl h
          · exact Or.inr (by simp [h])

theorem sorted_tput (k : Key) (v : Val) (t : Tbl) (hs : Sorted t) : Sorted (tput k v t) := by
  induction t with
  | nil => simp [tput, Sorted]
  | cons x r ih =>
    obtain ⟨kx, vx⟩ := x
    have hs' := hs
    unfold Sorted at hs
    rw [List.pairwise_cons] at hs
    obtain ⟨hx, hr⟩ := hs
    simp only [tput]
    by_cases h1 : keyLt k kx = true
    · simp only [h1, if_true]
      unfold Sorted
      rw [List.pairwise_cons]
      refine ⟨?_, hs'⟩
      intro e he
      rcases List.mem_cons.mp he with he | he
      · rw [he]; exact h1
      · exact keyLt_trans _ _ _ h1 (hx e he)
    · simp only [h1, if_false, Bool.false_eq_true]
      by_cases h2 : k = kx
      · subst h2
        simp only [if_true]
        unfold Sorted
        rw [List.pairwise_cons]
        exact ⟨hx, hr⟩
      · simp only [h2, if_false]
        unfold Sorted
        rw [List.pairwise_cons]
        refine ⟨?_, ih hr⟩
        intro e he
        rcases mem_tput k v r e he with he | he
        · rw [he]
          have h1' : keyLt k kx = false := by simpa using h1
          cases hlt : keyLt kx k with
          | true => rfl
          | false => exact absurd (keyLt_total _ _ h1' hlt) h2
        · exact hx e he

theorem sorted_tdel (k : Key) (t : Tbl) (hs : Sorted t) : Sorted (tdel k t) :=
  List.Pairwise.filter _ hs

theorem sorted_applyW (w : W) (t : Tbl) (hs : Sorted t) : Sorted (applyW w t) := by
  obtain ⟨kw, vw⟩ := w
  cases vw with
  | none => exact sorted_tdel _ _ hs
  | some v => exact sorted_tput _ _ _ hs

theorem sorted_applyOv (o : Ov) (t : Tbl) (hs : Sorted t) : Sorted (applyOv o t) := by
  induction o with
  | nil => exact hs
  | cons w r ih => exact sorted_applyW w _ ih

/-- in a sorted table every entry is what `tget` returns for its key -/
theorem tget_of_mem (t : Tbl) (hs : Sorted t) (e : Key × Val) (he : e ∈ t) : tget t e.1 = some e.2 := by
  induction t with
  | nil => simp at he
  | cons x r ih =>
    obtain ⟨kx, vx⟩ := x
    unfold Sorted at hs
    rw [List.pairwise_cons] at hs
    obtain ⟨hx, hr⟩ := hs
    rcases List.mem_cons.mp he with he | he
    · subst he; simp [tget]
    · have hne : kx ≠ e.1 := keyLt_ne _ _ (hx e he)
      simp [tget, hne, ih hr he]

theorem mem_of_tget (t : Tbl) (k : Key) (v : Val) (h : tget t k = some v) : (k, v) ∈ t := by
  induction t with
  | nil => simp [tget] at h
  | cons x r ih =>
    obtain ⟨kx, vx⟩ := x
    simp only [tget] at h
    by_cases hk : kx = k
    · simp only [hk, if_true, Option.some.injEq] at h
      subst hk; subst h; simp
    · simp only [hk, if_false] at h
      exact List.mem_cons_of_mem _ (ih h)

/-! ### iterators -/

/-- membership in the specified iteration = the table holds that value under that key -/
theorem mem_iterSpec (t : Tbl) (hs : Sorted t) (db : Nat) (kb : Bytes) (v : Val) :
    (kb, v) ∈ iterSpec t db ↔ tget t (db, kb) = some v := by
  constructor
  · intro h
    simp only [iterSpec, List.mem_map, List.mem_filter, beq_iff_eq] at h
    obtain ⟨e, ⟨he, hdb⟩, heq⟩ := h
    have := tget_of_mem t hs e he
    obtain ⟨⟨d, k⟩, ve⟩ := e
    simp only [Prod.mk.injEq] at heq hdb
    obtain ⟨h1, h2⟩ := heq
    subst h1; subst h2; subst hdb
    exact this
  · intro h
    have := mem_of_tget t _ _ h
    simp only [iterSpec, List.mem_map, List.mem_filter, beq_iff_eq]
    exact ⟨((db, kb), v), ⟨this, rfl⟩, rfl⟩

/-- the specified iteration is strictly increasing in LMDB's byte order -/
theorem iterSpec_sorted (t : Tbl) (hs : Sorted t) (db : Nat) :
    (iterSpec t db).Pairwise (fun a b => bytesLt a.1 b.1 = true) := by
  unfold iterSpec
  rw [List.pairwise_map]
  have hf : (t.filter (fun e => e.1.1 == db)).Pairwise (fun a b => keyLt a.1 b.1 = true) :=
    List.Pairwise.filter _ hs
  refine List.Pairwise.imp_of_mem ?_ hf
  intro a b ha hb hab
  have ha' := (List.mem_filter.mp ha).2
  have hb' := (List.mem_filter.mp hb).2
  simp only [beq_iff_eq] at ha' hb'
  obtain ⟨⟨da, ka⟩, va⟩ := a
  obtain ⟨⟨db', kb⟩, vb⟩ := b
  simp only at ha' hb' hab ⊢
  subst ha'; subst hb'
  simpa [keyLt] using hab

/-- the page loop visits exactly the key list, whatever the page size (> 0) -/
theorem iterLoop_eq (page : Nat) (hp : 0 < page) (keys : List Bytes) (lookup : Bytes → Option Val) :
    ∀ (fuel skip : Nat), keys.length < skip + fuel →
      iterLoop page keys lookup fuel skip
        = (keys.drop skip).filterMap (fun k => (lookup k).map (fun v => (k, v))) := by
  intro fuel
  induction fuel with
  | zero =>
    intro skip h
    have : keys.drop skip = [] := List.drop_eq_nil_of_le (by omega)
    simp [iterLoop, this]
  | succ n ih =>
    intro skip h
    simp only [iterLoop]
    by_cases he : ((keys.drop skip).take page).isEmpty = true
    · have hnil : (keys.drop skip).take page = [] := by simpa using he
      have : keys.drop skip = [] := by
        cases hd : keys.drop skip with
        | nil => rfl
        | cons a r =>
          rw [hd] at hnil
          cases page with
          | zero => omega
          | succ p => simp at hnil
      simp [this]
    · simp only [he, if_false, Bool.false_eq_true]
      have hlen : 0 < ((keys.drop skip).take page).length := by
        cases hd : (keys.drop skip).take page with
        | nil => simp [hd] at he
        | cons a r => simp
      rw [ih (skip + ((keys.drop skip).take page).length) (by omega)]
      rw [← List.filterMap_append]
      congr 1
      have hl : ((keys.drop skip).take page).length = min page (keys.drop skip).length := by
        simp [List.length_take]
      rw [← List.drop_drop]
      rw [hl]
      by_cases hc : page ≤ (keys.drop skip).length
      · rw [Nat.min_eq_left hc]; exact List.take_append_drop page _
      · have hc' : (keys.drop skip).length ≤ page := by omega
        rw [Nat.min_eq_right hc']
        rw [List.take_of_length_le hc', List.drop_length, List.append_nil]

theorem filterMap_congr_mem {α β : Type} (f g : α → Option β) (l : List α)
    (h : ∀ a ∈ l, f a = g a) : l.filterMap f = l.filterMap g := by
  induction l with
  | nil => rfl
  | cons x r ih =>
    have hx := h x (by simp)
    have hr := ih (fun a ha => h a (by simp [ha]))
    simp [List.filterMap_cons, hx, hr]

/-- `DatabaseIterator` over a sorted table yields exactly the specified iteration -/
theorem iterPaged_eq_spec (page : Nat) (hp : 0 < page) (t : Tbl) (hs : Sorted t) (db : Nat) :
    iterPaged page t db = iterSpec t db := by
  unfold iterPaged
  simp only
  rw [iterLoop_eq page hp _ _ _ 0 (by omega)]
  simp only [List.drop_zero, keysOf, iterSpec, List.filterMap_map]
  rw [← List.filterMap_eq_map]
  apply filterMap_congr_mem
  intro e he
  have hm := (List.mem_filter.mp he)
  have hdb : e.1.1 = db := by simpa using hm.2
  have := tget_of_mem t hs e hm.1
  obtain ⟨⟨d, k⟩, ve⟩ := e
  simp only at hdb this ⊢
  subst hdb
  simp [this]

end GV.Kv
