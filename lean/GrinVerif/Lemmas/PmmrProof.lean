import GrinVerif.Lemmas.PmmrBranch
import GrinVerif.Lemmas.PmmrSpec
/-! `merkle_proof` and `MerkleProof::verify` along the coordinate path of a leaf (C07):
the canonical path, completeness (the produced proof verifies) — soundness is in
`Lemmas/PmmrSound.lean`.  Core Lean only. -/
namespace GV.Pmmr.Co
open GV GV.Pmmr

variable {α H : Type}

/-- hash of the node with coordinates `c` -/
@[reducible] def nh (hf : HashFn α H) (f : Nat → α) (c : Nat × Nat) : H := nodeHash hf f c.1 c.2

/-- sibling hashes of levels `j … j+d-1` on the way up from leaf `i` -/
def treePath (hf : HashFn α H) (f : Nat → α) (i j d : Nat) : List H :=
  (List.range' j d).map fun j => nh hf f (sibCo i j)

/-- total version of `bag` for a non-empty list -/
def bagNE (hf : HashFn α H) (size : Nat) : H → List H → H
  | p, [] => p
  | p, q :: qs => hf.node size p (bagNE hf size q qs)

theorem bag_cons (hf : HashFn α H) (size : Nat) : ∀ ps p, bag hf size (p :: ps) = some (bagNE hf size p ps) := by
  intro ps
  induction ps with
  | nil => intro p; simp [bag, bagNE]
  | cons q qs ih => intro p; rw [bag, ih q]; rfl

theorem bag_append_cons (hf : HashFn α H) (size : Nat) (p : H) (B : List H) :
    ∀ A, bag hf size (A ++ p :: B) = some (A.foldr (fun x acc => hf.node size x acc) (bagNE hf size p B)) := by
  intro A
  induction A with
  | nil => simpa using bag_cons hf size B p
  | cons a A ih => simp [bag, ih]

/-- the part of the path above the peak: the bagged peaks to the right (if any), then the peaks to
the left from right to left -/
def peakPart (hf : HashFn α H) (f : Nat → α) (size : Nat) (L R : List (Nat × Nat)) : List H :=
  (match bag hf size (R.map (nh hf f)) with
    | some r => [r]
    | none => []) ++ (L.map (nh hf f)).reverse

/-- the root in terms of the split forest -/
def rootAt (hf : HashFn α H) (f : Nat → α) (size : Nat) (L : List (Nat × Nat)) (p : Nat × Nat)
    (R : List (Nat × Nat)) : H :=
  (L.map (nh hf f)).foldr (fun x acc => hf.node size x acc) (bagNE hf size (nh hf f p) (R.map (nh hf f)))

theorem bag_forest {N i k : Nat} {L R : List (Nat × Nat)} (c : PeakCtx N i k L R)
    (hf : HashFn α H) (f : Nat → α) (size : Nat) :
    bag hf size ((forest N).map (nh hf f)) = some (rootAt hf f size L (up i k, k) R) := by
  rw [c.split, List.map_append, List.map_cons, bag_append_cons]; rfl

/-! ### `merkle_proof` -/

theorem filterMap_branchCo {N i k : Nat} {L R : List (Nat × Nat)} (c : PeakCtx N i k L R)
    (hf : HashFn α H) (f : Nat → α) : ∀ d j, j + d ≤ k →
      (branchCo i j d).filterMap (fun x => (allHashes hf f N)[x.2]?) = treePath hf f i j d := by
  intro d
  induction d with
  | zero => intro j _; simp [branchCo, treePath]
  | succ d ih =>
    intro j hj
    have hs := allHashes_getElem? hf f N (sibCo i j).1 (sibCo i j).2 (c.sib_lt (by omega)) (sibCo_valid i j)
    have := ih (j+1) (by omega)
    simp only [branchCo, treePath, List.range'_succ, List.map_cons, List.filterMap_cons] at this ⊢
    simp only [cpos] at hs ⊢
    rw [hs]
    simp only [List.cons.injEq, true_and]
    exact this

theorem branchCo_getLast? (i k : Nat) :
    (branchCo i 0 (k+1)).getLast? = some (cpos (up i (k+1), k+1), cpos (sibCo i k)) := by
  simp only [branchCo, List.range'_1_concat, List.map_append, List.map_cons, List.map_nil,
    List.getLast?_concat, Nat.zero_add]

theorem peakPath_coord {N i k : Nat} {L R : List (Nat × Nat)} (c : PeakCtx N i k L R)
    (hf : HashFn α H) (f : Nat → α) :
    peakPath hf (allHashes hf f N) (cpos (up i k, k)) = peakPart hf f (mmr N) L R := by
  simp only [peakPath, bagTheRhs, allHashes_length, c.filter_lt, c.filter_gt,
    filterMap_forest hf f N L c.left_valid, filterMap_forest hf f N R c.right_valid]
  simp only [peakPart]
  cases bag hf (mmr N) (R.map fun c => nodeHash hf f c.1 c.2) with
  | none => simp
  | some r => simp

theorem merkleProof_coord {N i k : Nat} {L R : List (Nat × Nat)} (c : PeakCtx N i k L R)
    (hf : HashFn α H) (f : Nat → α) :
    merkleProof hf (allHashes hf f N) (mmr i)
      = some (mmr N, treePath hf f i 0 k ++ peakPart hf f (mmr N) L R) := by
  have hleaf : isLeaf (mmr i) = true := by
    have := height_co i 0 (Nat.zero_le _)
    simp only [Nat.add_zero] at this
    simp [isLeaf, this]
  have hget := allHashes_getElem? hf f N i 0 c.i_lt (Nat.zero_le _)
  simp only [Nat.add_zero] at hget
  have hpp := peakPath_coord c hf f
  simp only [merkleProof, hleaf, Bool.not_true, Bool.false_eq_true, if_false, hget,
    allHashes_length, familyBranch_leaf c, filterMap_branchCo c hf f k 0 (by omega)]
  cases k with
  | zero =>
    simp only [cpos, up_zero, Nat.add_zero] at hpp
    simp only [branchCo, List.range'_zero, List.map_nil, List.getLast?_nil, hpp]
  | succ k =>
    simp only [branchCo_getLast?, hpp]

/-! ### `verify_consume`, one step at a time -/

section verify
variable [DecidableEq H]

theorem va_nil (hf : HashFn α H) (root : H) (size : Nat) (pks : List Nat) (eh : Nat → H) (pos : Nat)
    (hlt : pos < size) : verifyAux hf root size pks [] eh pos = (root == eh pos) := by
  rw [verifyAux, if_neg (by omega)]

/-- once past the size, every remaining path hash is bagged onto the left -/
theorem va_beyond (hf : HashFn α H) (root : H) (N : Nat) :
    ∀ (path : List H) (eh : Nat → H) (pos : Nat), mmr N ≤ pos →
      verifyAux hf root (mmr N) (peaks (mmr N)) path eh pos
        = (root == path.foldl (fun acc s => hf.node (mmr N) s acc) (eh (mmr N))) := by
  intro path
  induction path with
  | nil => intro eh pos hge; rw [verifyAux, if_pos hge]; rfl
  | cons sib rest ih =>
    intro eh pos hge
    rw [verifyAux]
    have hnone : findIdx (peaks (mmr N)) pos = none :=
      findIdx_none _ _ (fun h => by have := peaks_lt_size h; omega)
    have hfam := family_fst_gt pos
    simp only [hnone, if_pos hge]
    rw [if_pos (by omega), ih _ _ (by omega)]
    rfl

variable {N i k : Nat} {L R : List (Nat × Nat)}

/-- below the peak: hash with the sibling on the side the tree says -/
theorem va_tree (c : PeakCtx N i k L R) (hf : HashFn α H) (root : H) {j : Nat} (hj : j < k)
    (sib : H) (rest : List H) (eh : Nat → H) :
    verifyAux hf root (mmr N) (peaks (mmr N)) (sib :: rest) eh (cpos (up i j, j))
      = verifyAux hf root (mmr N) (peaks (mmr N)) rest
          (if bitSet i j then (fun t => hf.node t sib (eh (cpos (up i j, j))))
            else (fun t => hf.node t (eh (cpos (up i j, j))) sib))
          (cpos (up i (j+1), j+1)) := by
  have h1 := c.cpos_lt (show j ≤ k by omega)
  have h2 := c.cpos_lt (show j + 1 ≤ k from hj)
  have n1 : ¬ (cpos (up i j, j) ≥ mmr N) := by omega
  have n2 : ¬ (cpos (up i (j+1), j+1) ≥ mmr N) := by omega
  rw [verifyAux]
  simp only [family_up, c.findIdx_below hj, isLeftSibling_sibCo, n1, n2, if_false]
  cases bitSet i j <;> simp

/-- at the last peak: the first path hash is the peak to the left -/
theorem va_peak_last (c : PeakCtx N i k L R) (hR : R = []) (hf : HashFn α H) (root : H)
    (sib : H) (rest : List H) (eh : Nat → H) :
    verifyAux hf root (mmr N) (peaks (mmr N)) (sib :: rest) eh (cpos (up i k, k))
      = verifyAux hf root (mmr N) (peaks (mmr N)) rest
          (fun t => hf.node t sib (eh (cpos (up i k, k)))) (cpos (up i (k+1), k+1)) := by
  have h1 := c.cpos_lt (Nat.le_refl k)
  have hlen := c.peaks_length
  subst hR
  have n1 : ¬ (cpos (up i k, k) ≥ mmr N) := by omega
  have n2 : L.length + 1 = (peaks (mmr N)).length := by simp at hlen; omega
  rw [verifyAux]
  simp only [family_up, c.findIdx_peak, n1, n2, if_false, if_true]

/-- at any other peak: the first path hash is the bag of the peaks to the right -/
theorem va_peak_mid (c : PeakCtx N i k L R) (hR : R ≠ []) (hf : HashFn α H) (root : H)
    (sib : H) (rest : List H) (eh : Nat → H) :
    verifyAux hf root (mmr N) (peaks (mmr N)) (sib :: rest) eh (cpos (up i k, k))
      = verifyAux hf root (mmr N) (peaks (mmr N)) rest
          (fun t => hf.node t (eh (cpos (up i k, k))) sib) (cpos (up i (k+1), k+1)) := by
  have h1 := c.cpos_lt (Nat.le_refl k)
  have hlen := c.peaks_length
  have hRl : 0 < R.length := List.length_pos_iff.2 hR
  have n1 : ¬ (cpos (up i k, k) ≥ mmr N) := by omega
  have n2 : ¬ (L.length + 1 = (peaks (mmr N)).length) := by omega
  rw [verifyAux]
  simp only [family_up, c.findIdx_peak, n1, n2, if_false]

/-! ### Completeness -/

theorem complete_peak (c : PeakCtx N i k L R) (hf : HashFn α H) (f : Nat → α) (eh : Nat → H)
    (heh : eh (cpos (up i k, k)) = nodeHash hf f (up i k) k) :
    verifyAux hf (rootAt hf f (mmr N) L (up i k, k) R) (mmr N) (peaks (mmr N))
      (peakPart hf f (mmr N) L R) eh (cpos (up i k, k)) = true := by
  have hlt := c.cpos_lt (Nat.le_refl k)
  have hge := c.parent_ge
  cases R with
  | nil =>
    simp only [peakPart, List.map_nil, bag, List.nil_append, rootAt, bagNE]
    rcases List.eq_nil_or_concat L with rfl | ⟨L', l, rfl⟩
    · simp only [List.map_nil, List.reverse_nil, List.foldr_nil]
      rw [va_nil hf _ _ _ _ _ hlt, heh]; simp
    · rw [List.concat_eq_append, List.map_append, List.reverse_append]
      simp only [List.map_cons, List.map_nil, List.reverse_cons, List.reverse_nil, List.nil_append,
        List.singleton_append, List.foldr_append, List.foldr_cons, List.foldr_nil]
      rw [va_peak_last c rfl, va_beyond hf _ N _ _ _ hge, List.foldl_reverse, heh]
      simp
  | cons r R' =>
    simp only [peakPart, List.map_cons, bag_cons, List.singleton_append, rootAt, bagNE]
    rw [va_peak_mid c (by simp), va_beyond hf _ N _ _ _ hge, List.foldl_reverse, heh]
    simp

theorem complete_tree (c : PeakCtx N i k L R) (hf : HashFn α H) (f : Nat → α) :
    ∀ d j (eh : Nat → H), j + d = k → eh (cpos (up i j, j)) = nodeHash hf f (up i j) j →
      verifyAux hf (rootAt hf f (mmr N) L (up i k, k) R) (mmr N) (peaks (mmr N))
        (treePath hf f i j d ++ peakPart hf f (mmr N) L R) eh (cpos (up i j, j)) = true := by
  intro d
  induction d with
  | zero =>
    intro j eh hj heh
    have : j = k := by omega
    subst this
    simpa [treePath] using complete_peak c hf f eh heh
  | succ d ih =>
    intro j eh hj heh
    simp only [treePath, List.range'_succ, List.map_cons, List.cons_append]
    rw [va_tree c hf _ (by omega)]
    apply ih (j+1) _ (by omega)
    have hpos := two_pow_pos j
    cases hb : bitSet i j with
    | true =>
      obtain ⟨hu, hs, _⟩ := step_right hb
      simp only [if_true, heh, nh, hs, hu]
      rfl
    | false =>
      obtain ⟨hu, hs, _⟩ := step_left hb
      simp only [Bool.false_eq_true, if_false, heh, nh, hs]
      have : up i (j+1) - 2^j = up i j := by omega
      conv => rhs; rw [nodeHash, this]
      rfl

/-- the proof produced for leaf `i` verifies against the root, for the element `f i` -/
theorem verify_complete (c : PeakCtx N i k L R) (hf : HashFn α H) (f : Nat → α) :
    verify hf (rootAt hf f (mmr N) L (up i k, k) R) (mmr N)
      (treePath hf f i 0 k ++ peakPart hf f (mmr N) L R) (f i) (mmr i) = true := by
  have := complete_tree c hf f k 0 (fun t => hf.leaf t (f i)) (by omega)
    (by simp [cpos, up_zero, nodeHash])
  simpa [verify, cpos, up_zero] using this

end verify

end GV.Pmmr.Co
