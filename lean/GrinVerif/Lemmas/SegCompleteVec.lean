import GrinVerif.Lemmas.SegProof
/-! **Completeness of segments of an unpruned MMR** (C16): for every identifier whose range
intersects the MMR, `Segment::from_pmmr` over the Vec-backed view of the hash vector `PMMR::push`
builds yields the expected leaf list, its `root` is the committed subtree hash (or the bagged peaks
of the final segment), its `SegmentProof` re-bags to the MMR root, hence `validate` and
`validate_with` accept.  Core Lean only. -/
namespace GV.Seg
open GV GV.Pmmr

variable {α H : Type}

/-! ### position facts around a node `(n, g)` below its peak -/

theorem forestFrom_gap (k : Nat) : ∀ a m, m < 2 ^ k →
    (Co.forestFrom k (a * 2 ^ k) m).Pairwise (fun c d => c.1 + 2 ^ d.2 ≤ d.1) := by
  induction k with
  | zero => intro a m _; simp [Co.forestFrom]
  | succ k ih =>
    intro a m hm
    have hp := two_pow_succ k
    have hpos : 0 < 2 ^ k := Nat.pow_pos (by omega)
    have hA : a * 2 ^ (k + 1) = (2 * a) * 2 ^ k := by rw [hp]; ac_rfl
    rw [Co.forestFrom]
    by_cases hb : 2 ^ k ≤ m
    · rw [if_pos hb]
      have hbase : a * 2 ^ (k + 1) + 2 ^ k = (2 * a + 1) * 2 ^ k := by rw [Nat.add_mul]; omega
      rw [hbase]
      refine List.Pairwise.cons ?_ (ih (2 * a + 1) (m - 2 ^ k) (by omega))
      intro d hd
      have := Co.forestFrom_mem k (2 * a + 1) (m - 2 ^ k) (by omega) d hd
      simp only; omega
    · rw [if_neg hb, hA]
      exact ih (2 * a) m (by omega)

theorem forest_gap (N : Nat) : (Co.forest N).Pairwise (fun c d => c.1 + 2 ^ d.2 ≤ d.1) := by
  have := forestFrom_gap N 0 N Nat.lt_two_pow_self
  simpa [Co.forest] using this

/-- the leftmost leaf below the level-`j` ancestor moves left (or stays) when going up -/
theorem up_leftmost_mono (n : Nat) : ∀ (d j : Nat),
    Co.up n (j + d) + 1 - 2 ^ (j + d) ≤ Co.up n j + 1 - 2 ^ j := by
  intro d
  induction d with
  | zero => intro j; exact Nat.le_refl _
  | succ d ih =>
    intro j
    have h1 := ih (j + 1)
    have e : j + 1 + d = j + (d + 1) := by omega
    rw [e] at h1
    refine Nat.le_trans h1 ?_
    have hp := two_pow_succ j
    have hle := Co.two_pow_le_of_le_trailingOnes (Co.up_valid n j)
    cases hb : bitSet n j with
    | true =>
      obtain ⟨hu, _, _, _, _, _, _⟩ := Co.step_right hb
      rw [hu]; omega
    | false =>
      obtain ⟨hu, _⟩ := Co.step_left hb
      rw [hu]; omega

theorem cpos_up_mono (n : Nat) : ∀ (d j : Nat), Co.cpos (Co.up n j, j) ≤ Co.cpos (Co.up n (j + d), j + d) := by
  intro d
  induction d with
  | zero => intro j; exact Nat.le_refl _
  | succ d ih =>
    intro j
    have h1 := ih (j + 1)
    have e : j + 1 + d = j + (d + 1) := by omega
    rw [e] at h1
    have := Co.cpos_up_lt_succ n j
    omega

/-- every entry of the coordinate branch lies above its starting node -/
theorem branchCo_fst_gt (n j d : Nat) : ∀ x ∈ Co.branchCo n j d, Co.cpos (Co.up n j, j) < x.1 := by
  intro x hx
  simp only [Co.branchCo, List.mem_map, List.mem_range'_1] at hx
  obtain ⟨j', ⟨h1, _⟩, rfl⟩ := hx
  obtain ⟨e, rfl⟩ := Nat.exists_eq_add_of_le h1
  have := cpos_up_mono n e j
  have := Co.cpos_up_lt_succ n (j + e)
  simp only
  omega

/-! ### climbing the family branch with the genuine sibling hashes -/

theorem climb_tree (hf : HashFn α H) (f : Nat → α) (i : Nat) : ∀ (d j : Nat) (rest : List H),
    climb hf (Co.nodeHash hf f (Co.up i j) j) (Co.treePath hf f i j d ++ rest) (Co.branchCo i j d)
      = .ok (Co.nodeHash hf f (Co.up i (j + d)) (j + d), rest) := by
  intro d
  induction d with
  | zero => intro j rest; simp [Co.treePath, Co.branchCo, climb]
  | succ d ih =>
    intro j rest
    simp only [Co.treePath, Co.branchCo, List.range'_succ, List.map_cons, List.cons_append, climb,
      Co.isLeftSibling_sibCo]
    have e : j + (d + 1) = j + 1 + d := by omega
    rw [e]
    have key : (if bitSet i j = true then
          hf.node (Co.cpos (Co.up i (j + 1), j + 1)) (Co.nh hf f (Co.sibCo i j)) (Co.nodeHash hf f (Co.up i j) j)
        else hf.node (Co.cpos (Co.up i (j + 1), j + 1)) (Co.nodeHash hf f (Co.up i j) j) (Co.nh hf f (Co.sibCo i j)))
        = Co.nodeHash hf f (Co.up i (j + 1)) (j + 1) := by
      have hpos : 0 < 2 ^ j := Nat.pow_pos (by omega)
      cases hb : bitSet i j with
      | true =>
        obtain ⟨hu, hs, _⟩ := Co.step_right hb
        simp only [if_true, Co.nh, hs, hu]
        rfl
      | false =>
        obtain ⟨hu, hs, _⟩ := Co.step_left hb
        simp only [Bool.false_eq_true, if_false, Co.nh, hs]
        have : Co.up i (j + 1) - 2 ^ j = Co.up i j := by omega
        conv => rhs; rw [Co.nodeHash, this]
        rfl
    rw [key]
    exact ih (j + 1) rest

/-! ### the context of a full segment: its subtree root `(n, g)` below the peak `(up n k, k)` -/

/-- last leaf of the full segment `id` -/
def lastLeaf (id : Ident) : Nat := id.idx * 2 ^ id.height + (2 ^ id.height - 1)

theorem lastOf_eq (id : Ident) : lastOf id = Co.cpos (lastLeaf id, id.height) := rfl

theorem lastLeaf_valid (id : Ident) : id.height ≤ trailingOnes (lastLeaf id) :=
  trailingOnes_full id.height id.idx

theorem lastLeaf_lt (id : Ident) (N : Nat) (v : FullId id (mmr N)) : lastLeaf id < N := by
  have := v.fit
  rw [GV.Props.C07.nLeaves_at_leaf_boundary, Nat.add_mul, Nat.one_mul] at this
  have hpos : 0 < 2 ^ id.height := Nat.pow_pos (by omega)
  unfold lastLeaf; omega

section FullCtx
variable {N k : Nat} {L R : List (Nat × Nat)} {id : Ident}

theorem full_height_le (c : Co.PeakCtx N (lastLeaf id) k L R) : id.height ≤ k := by
  apply Classical.byContradiction
  intro hlt
  have hk : k ≤ trailingOnes (lastLeaf id) := by have := lastLeaf_valid id; omega
  have hu := Co.up_of_valid hk
  have := c.peak_facts.1
  rw [hu] at this
  have := lastLeaf_valid id
  omega

theorem full_up (id : Ident) : Co.up (lastLeaf id) id.height = lastLeaf id :=
  Co.up_of_valid (lastLeaf_valid id)

theorem full_familyBranch (c : Co.PeakCtx N (lastLeaf id) k L R) :
    familyBranch (lastOf id) (mmr N) = Co.branchCo (lastLeaf id) id.height (k - id.height) := by
  have hle := full_height_le c
  have h := Co.familyBranchLoop_coord c (k - id.height) id.height (mmr N + 1) (by omega) (by omega)
  rw [full_up] at h
  simp only [familyBranch, lastOf_eq, Co.cpos, Co.peakMapHeight_co _ _ (lastLeaf_valid id)]
  exact h

theorem full_branchFrom (c : Co.PeakCtx N (lastLeaf id) k L R) :
    branchFrom (lastOf id) (mmr N) (1 + lastOf id) =
      Co.branchCo (lastLeaf id) id.height (k - id.height) := by
  unfold branchFrom
  rw [full_familyBranch c, List.filter_eq_self]
  intro x hx
  have := branchCo_fst_gt _ _ _ x hx
  rw [full_up, ← lastOf_eq] at this
  simp only [decide_eq_true_eq]; omega

theorem full_branchPeak (c : Co.PeakCtx N (lastLeaf id) k L R) :
    branchPeak (lastOf id) (mmr N) = Co.cpos (Co.up (lastLeaf id) k, k) := by
  have hle := full_height_le c
  unfold branchPeak
  rw [full_familyBranch c]
  obtain ⟨e, he⟩ := Nat.exists_eq_add_of_le hle
  cases e with
  | zero =>
    have : k = id.height := by omega
    subst this
    simp only [Nat.sub_self, Co.branchCo, List.range'_zero, List.map_nil, List.getLast?_nil]
    rw [full_up, lastOf_eq]
  | succ e =>
    have hk : k - id.height = e + 1 := by omega
    rw [hk]
    simp only [Co.branchCo, List.range'_1_concat, List.map_append, List.map_cons, List.map_nil,
      List.getLast?_concat]
    have : id.height + e + 1 = k := by omega
    rw [this]

/-- the peaks to the left of a full segment's range are the peaks to the left of its peak -/
theorem full_filter_left (c : Co.PeakCtx N (lastLeaf id) k L R) :
    (peaks (mmr N)).filter (· < mmr (id.idx * 2 ^ id.height)) = L.map Co.cpos := by
  have hle := full_height_le c
  obtain ⟨e, he⟩ := Nat.exists_eq_add_of_le hle
  have hmono := up_leftmost_mono (lastLeaf id) e id.height
  rw [← he, full_up] at hmono
  have hpos : 0 < 2 ^ id.height := Nat.pow_pos (by omega)
  have hfirst : lastLeaf id + 1 - 2 ^ id.height = id.idx * 2 ^ id.height := by unfold lastLeaf; omega
  rw [hfirst] at hmono
  have hgap := forest_gap N
  rw [c.split, List.pairwise_append] at hgap
  have hpk := Co.two_pow_le_of_le_trailingOnes (Co.up_valid (lastLeaf id) k)
  rw [c.peaks_eq, List.filter_append, List.filter_cons]
  have h1 : (L.map Co.cpos).filter (· < mmr (id.idx * 2 ^ id.height)) = L.map Co.cpos := by
    rw [List.filter_eq_self]
    intro p hp
    obtain ⟨d, hd, rfl⟩ := List.mem_map.1 hp
    have hg := hgap.2.2 d hd (Co.up (lastLeaf id) k, k) (List.mem_cons_self ..)
    simp only at hg
    have hv := (c.left_valid d hd).1
    have hd1 : d.1 < id.idx * 2 ^ id.height := by omega
    have := (Co.coord_lt_iff hv (N := id.idx * 2 ^ id.height)).2 hd1
    exact decide_eq_true (by simp only [Co.cpos]; omega)
  have hge : mmr (id.idx * 2 ^ id.height) ≤ Co.cpos (Co.up (lastLeaf id) k, k) := by
    have h0 := cpos_up_mono (lastLeaf id) e id.height
    rw [← he, full_up] at h0
    have hb := mmr_block id.idx id.height
    simp only [Co.cpos] at h0 ⊢
    have hl : lastLeaf id = id.idx * 2 ^ id.height + (2 ^ id.height - 1) := rfl
    rw [← hl] at hb
    omega
  have h2 : (R.map Co.cpos).filter (· < mmr (id.idx * 2 ^ id.height)) = [] := by
    rw [List.filter_eq_nil_iff]
    intro p hp
    have := c.right_gt p hp
    intro hc
    have := of_decide_eq_true hc
    omega
  rw [h1, h2]
  have : ¬ (Co.cpos (Co.up (lastLeaf id) k, k) < mmr (id.idx * 2 ^ id.height)) := by omega
  simp [this]

end FullCtx

/-! ### positions of any segment that intersects the MMR -/

theorem fit_range (id : Ident) (N : Nat) (v : FitId id N) :
    (id.posRange (mmr N)).1 = mmr (id.idx * 2 ^ id.height) ∧
    (id.posRange (mmr N)).2 < mmr N ∧
    (id.posRange (mmr N)).1 ≤ (id.posRange (mmr N)).2 ∧
    id.unprunedSize (mmr N) ≠ 0 := by
  have hpos : 0 < 2 ^ id.height := Nat.pow_pos (by omega)
  rcases fit_cases id N v with h | h
  · obtain ⟨hcap, hoff, _, hr⟩ := full_arith id (mmr N) h
    have hn := lastLeaf_lt id N h
    have hlt := (Co.coord_lt_iff (lastLeaf_valid id) (N := N)).2 hn
    have hb := mmr_block id.idx id.height
    rw [hr]
    refine ⟨rfl, hlt, ?_, ?_⟩
    · show mmr (id.idx * 2 ^ id.height) ≤ mmr (id.idx * 2 ^ id.height + (2 ^ id.height - 1)) + id.height
      omega
    · have hf := (full_arith id (mmr N) h).2.2.1
      unfold Ident.full at hf
      have : id.unprunedSize (mmr N) = id.capacity := by simpa using hf
      rw [this, hcap]; omega
  · obtain ⟨_, _, hus, _, hr⟩ := final_arith id N h
    obtain ⟨_, _, _, _, hgt, hN⟩ := final_forest id N h
    have hm := Co.mmr_lt_mmr h.lo
    rw [hr, hus]
    exact ⟨rfl, by simp only; omega, by simp only; omega, by omega⟩

theorem fit_positions (id : Ident) (N : Nat) (v : FitId id N) :
    (∀ p ∈ id.positions (mmr N), p < mmr N) ∧
    ∃ ps, id.positions (mmr N) = mmr (id.idx * 2 ^ id.height) :: ps := by
  obtain ⟨h1, h2, h3, _⟩ := fit_range id N v
  have hpos : id.positions (mmr N) = List.range' (id.posRange (mmr N)).1
      ((id.posRange (mmr N)).2 + 1 - (id.posRange (mmr N)).1) := rfl
  rw [hpos]
  generalize (id.posRange (mmr N)).1 = a at *
  generalize (id.posRange (mmr N)).2 = b at *
  constructor
  · intro p hp
    simp only [List.mem_range'_1] at hp
    omega
  · have : b + 1 - a = (b - a) + 1 := by omega
    rw [this, List.range'_succ, h1]
    exact ⟨_, rfl⟩

/-! ### `validate` from its parts -/

theorem validateAt_ok (hf : HashFn α H) [DecidableEq H] (proof : List H) (size first last : Nat)
    (segRoot r : H) (upos : Nat) (rest : List H)
    (hrec : reconstructRoot hf proof size first last segRoot upos = .ok (r, rest)) :
    validateAt hf proof size r first last (.ok (segRoot, upos)) = .ok () := by
  simp only [validateAt, proofValidate, hrec, if_true]

theorem validateWithAt_ok (hf : HashFn α H) [DecidableEq H] (proof : List H) (size first last : Nat)
    (segRoot r : H) (upos : Nat) (rest : List H)
    (hrec : reconstructRoot hf proof size first last segRoot upos = .ok (r, rest))
    (hlp : Nat) (other : H) (left : Bool) :
    validateWithAt hf proof size (if left then hf.node hlp other r else hf.node hlp r other)
      first last (.ok (segRoot, upos)) hlp other left = .ok () := by
  simp only [validateWithAt, proofValidateWith, hrec]
  cases left <;> simp

theorem validate_of_parts (hf : HashFn α H) [DecidableEq H] (s : Segment α H) (size : Nat)
    (bm : Option (Nat → Bool)) (segRoot r : H) (upos : Nat) (rest : List H)
    (hfup : s.firstUnprunedParent hf size bm = .ok (segRoot, upos))
    (hrec : reconstructRoot hf s.proof size (s.id.posRange size).1 (s.id.posRange size).2 segRoot upos
      = .ok (r, rest)) :
    s.validate hf size bm r = .ok () ∧
    ∀ hlp other left, s.validateWith hf size bm
      (if left then hf.node hlp other r else hf.node hlp r other) hlp other left = .ok () := by
  constructor
  · unfold Segment.validate
    rw [hfup]
    exact validateAt_ok hf _ _ _ _ _ _ _ _ hrec
  · intro hlp other left
    unfold Segment.validateWith
    rw [hfup]
    exact validateWithAt_ok hf _ _ _ _ _ _ _ _ hrec hlp other left

/-! ### the honest segment of an unpruned view -/

theorem fromPmmrWith_unpruned (hf : HashFn α H) (v : View α H) (id : Ident) (ps : List Nat)
    (first last : Nat) (dataAt : Nat → α) (p0 : Nat) (ps' : List Nat) (hps : ps = p0 :: ps')
    (hleaf : height p0 = 0)
    (hdata : ∀ p ∈ ps, height p = 0 → v.dataFromFile p = some (dataAt p))
    (proof : List H) (hgen : generate hf v (1 + first) (1 + last) none = .ok proof) :
    fromPmmrWith hf v id false ps first last = .ok
      { id := id, hashPos := [], hashes := [],
        leafPos := (leavesOf dataAt ps).map (·.1),
        leafData := (leavesOf dataAt ps).map (·.2), proof := proof } := by
  have hfill := fill_unpruned v dataAt ps hdata
  have hnil : (leavesOf dataAt ps).isEmpty = false := by
    rw [hps, leavesOf_cons_leaf dataAt _ ps' hleaf]; rfl
  unfold fromPmmrWith
  rw [hfill]
  simp only [hnil, Bool.false_and, Bool.false_eq_true, if_false, hgen, List.map_nil]

/-- what `from_pmmr(.., prunable = false)` returns over a view that holds the data of every leaf
of the range -/
theorem fromPmmr_unpruned (hf : HashFn α H) (v : View α H) (id : Ident) (N : Nat) (fit : FitId id N)
    (dataAt : Nat → α) (hsize : v.size = mmr N)
    (hdata : ∀ p, p < mmr N → height p = 0 → v.dataFromFile p = some (dataAt p))
    (proof : List H)
    (hgen : generate hf v (1 + (id.posRange (mmr N)).1) (1 + (id.posRange (mmr N)).2) none = .ok proof) :
    fromPmmr hf v id false = .ok
      { id := id, hashPos := [], hashes := [],
        leafPos := (leavesOf dataAt (id.positions (mmr N))).map (·.1),
        leafData := (leavesOf dataAt (id.positions (mmr N))).map (·.2), proof := proof } := by
  obtain ⟨hlt, ps, hps⟩ := fit_positions id N fit
  obtain ⟨_, _, _, hne⟩ := fit_range id N fit
  have hleaf : height (mmr (id.idx * 2 ^ id.height)) = 0 := by
    have := GV.Props.C07.height_coord (id.idx * 2 ^ id.height) 0 (Nat.zero_le _)
    simpa using this
  unfold fromPmmr
  rw [hsize, if_neg hne]
  exact fromPmmrWith_unpruned hf v id _ _ _ dataAt _ ps hps hleaf
    (fun p hp hl => hdata p (hlt p hp) hl) proof hgen

/-! ### the proof of a full segment re-bags to the MMR root -/

theorem map_hAt_cpos (hf : HashFn α H) (f : Nat → α) : ∀ (l : List (Nat × Nat)),
    (∀ c ∈ l, c.2 ≤ trailingOnes c.1) → (l.map Co.cpos).map (hAt hf f) = l.map (Co.nh hf f) := by
  intro l
  induction l with
  | nil => intro _; rfl
  | cons c l ih =>
    intro h
    simp only [List.map_cons, hAt_cpos hf f c (h c (List.mem_cons_self ..)),
      ih (fun d hd => h d (List.mem_cons_of_mem _ hd))]

/-- the MMR root in terms of a split forest -/
theorem bag_split (hf : HashFn α H) (f : Nat → α) (S : Nat) (L R : List (Nat × Nat)) (P : Nat × Nat) :
    bag hf S ((L ++ P :: R).map (Co.nh hf f)) =
      some ((L.map (Co.nh hf f)).foldr (fun x acc => hf.node S x acc)
        (bagOnto hf S (Co.nh hf f P) (bag hf S (R.map (Co.nh hf f))))) := by
  rw [List.map_append, List.map_cons]
  exact bag_append hf S _ _ (bag_cons_match hf S _ _) _

/-- **full segment: generate, then reconstruct = the MMR root.**  `V` is any view that holds the
sibling hashes of the family branch (`get_hash`), the peaks to the right (`get_from_file`) and the
peaks to the left (`get_hash`). -/
theorem full_generate_reconstruct (hf : HashFn α H) (f : Nat → α) (N : Nat) (id : Ident)
    (v : FullId id (mmr N)) (V : View α H) (hsize : V.size = mmr N)
    (hsibs : ∀ x ∈ familyBranch (lastOf id) (mmr N), V.hash x.2 = some (hAt hf f x.2))
    (hfile : ∀ p ∈ peaks (mmr N), V.fromFile p = some (hAt hf f p))
    (hleft : ∀ p ∈ peaks (mmr N), p < mmr (id.idx * 2 ^ id.height) → V.hash p = some (hAt hf f p)) :
    ∃ proof r, generate hf V (1 + mmr (id.idx * 2 ^ id.height)) (1 + lastOf id) none = .ok proof ∧
      bag hf (mmr N) ((Co.forest N).map (Co.nh hf f)) = some r ∧
      reconstructRoot hf proof (mmr N) (mmr (id.idx * 2 ^ id.height)) (lastOf id)
        (hAt hf f (lastOf id)) (1 + lastOf id) = .ok (r, []) := by
  obtain ⟨k, L, R, c⟩ := Co.exists_peakCtx (lastLeaf_lt id N v)
  have hle := full_height_le c
  have hfb := full_familyBranch c
  have hbf := full_branchFrom c
  have hpk := full_branchPeak c
  have hk : id.height + (k - id.height) = k := by omega
  -- the sibling hashes
  have hsibmap : ((Co.branchCo (lastLeaf id) id.height (k - id.height)).map (·.2)).map (hAt hf f)
      = Co.treePath hf f (lastLeaf id) id.height (k - id.height) := by
    simp only [Co.branchCo, Co.treePath, List.map_map]
    apply List.map_congr_left
    intro j _
    exact hAt_cpos hf f _ (Co.sibCo_valid _ j)
  have hsib : collectHashes V.hash ((branchFrom (lastOf id) (mmr N) (1 + lastOf id)).map (·.2))
      = .ok (Co.treePath hf f (lastLeaf id) id.height (k - id.height)) := by
    rw [hbf, ← hsibmap]
    apply collectHashes_map
    intro q hq
    obtain ⟨x, hx, rfl⟩ := List.mem_map.1 hq
    exact hsibs x (by rw [hfb]; exact hx)
  have hclimb : ∀ rest, climb hf (hAt hf f (lastOf id))
      (Co.treePath hf f (lastLeaf id) id.height (k - id.height) ++ rest)
      (branchFrom (lastOf id) (mmr N) (1 + lastOf id))
      = .ok (Co.nodeHash hf f (Co.up (lastLeaf id) k) k, rest) := by
    intro rest
    have := climb_tree hf f (lastLeaf id) (k - id.height) id.height rest
    rw [full_up, hk] at this
    rw [hbf, lastOf_eq, hAt_cpos hf f _ (lastLeaf_valid id)]
    exact this
  obtain ⟨proof, hgen, hrec⟩ := generate_reconstruct hf V (mmr N) (mmr (id.idx * 2 ^ id.height))
    (lastOf id) (1 + lastOf id) none (hAt hf f (lastOf id)) (Co.nodeHash hf f (Co.up (lastLeaf id) k) k)
    (hAt hf f) _ hsize (by simp only; rw [hbf, hfb]) hsib hclimb
    (fun p hp => hfile p (List.mem_filter.1 hp).1)
    (fun p hp => hleft p (List.mem_filter.1 hp).1 (of_decide_eq_true (List.mem_filter.1 hp).2))
  refine ⟨proof, (L.map (Co.nh hf f)).foldr (fun x acc => hf.node (mmr N) x acc)
    (bagOnto hf (mmr N) (Co.nh hf f (Co.up (lastLeaf id) k, k)) (bag hf (mmr N) (R.map (Co.nh hf f)))),
    hgen, ?_, ?_⟩
  · rw [c.split]; exact bag_split hf f (mmr N) L R _
  · rw [hrec, full_filter_left c, hpk, c.filter_gt, map_hAt_cpos hf f L (fun d hd => (c.left_valid d hd).1),
      map_hAt_cpos hf f R (fun d hd => (c.right_valid d hd).1)]

/-! ### the final segment -/

theorem familyBranch_last (S : Nat) (hS : 1 ≤ S) : familyBranch (S - 1) S = [] := by
  have : ¬ (S - 1 + 1 < S) := by omega
  simp [familyBranch, familyBranchLoop, this]

theorem final_filter_left (id : Ident) (N : Nat) (v : FinalId id N) (Lh : List (Nat × Nat))
    (hL : Co.forest N = Lh ++ Co.forestFrom id.height (id.idx * 2 ^ id.height) (finalLeaves id N))
    (hlt : ∀ c ∈ Lh, c.1 < id.idx * 2 ^ id.height) :
    (peaks (mmr N)).filter (· < mmr (id.idx * 2 ^ id.height)) = Lh.map Co.cpos := by
  rw [Co.peaks_forest, hL, List.map_append, List.filter_append]
  have h1 : (Lh.map Co.cpos).filter (· < mmr (id.idx * 2 ^ id.height)) = Lh.map Co.cpos := by
    rw [List.filter_eq_self]
    intro p hp
    obtain ⟨c, hc, rfl⟩ := List.mem_map.1 hp
    have hm := Co.forest_mem (show c ∈ Co.forest N by rw [hL]; exact List.mem_append_left _ hc)
    have := (Co.coord_lt_iff (show c.2 ≤ trailingOnes c.1 by omega)
      (N := id.idx * 2 ^ id.height)).2 (hlt c hc)
    exact decide_eq_true (by simp only [Co.cpos]; omega)
  have h2 : ((Co.forestFrom id.height (id.idx * 2 ^ id.height) (finalLeaves id N)).map Co.cpos).filter
      (· < mmr (id.idx * 2 ^ id.height)) = [] := by
    rw [List.filter_eq_nil_iff]
    intro p hp
    obtain ⟨c, hc, rfl⟩ := List.mem_map.1 hp
    obtain ⟨_, h2, _⟩ := final_trees_mem id N v c hc
    have := Co.mmr_le_mmr h2
    intro hcontra
    have := of_decide_eq_true hcontra
    simp only [Co.cpos] at this
    omega
  rw [h1, h2, List.append_nil]

/-- **final segment: generate, then reconstruct = the MMR root** (`sr` = the bagged peaks inside
the segment) -/
theorem final_generate_reconstruct (hf : HashFn α H) (f : Nat → α) (N : Nat) (id : Ident)
    (v : FinalId id N) (V : View α H) (hsize : V.size = mmr N)
    (hleft : ∀ p ∈ peaks (mmr N), p < mmr (id.idx * 2 ^ id.height) → V.hash p = some (hAt hf f p))
    (sr : H)
    (hsr : bag hf (mmr N) ((Co.forestFrom id.height (id.idx * 2 ^ id.height) (finalLeaves id N)).map
      (Co.nh hf f)) = some sr) :
    ∃ proof r, generate hf V (1 + mmr (id.idx * 2 ^ id.height)) (1 + (mmr N - 1)) none = .ok proof ∧
      bag hf (mmr N) ((Co.forest N).map (Co.nh hf f)) = some r ∧
      reconstructRoot hf proof (mmr N) (mmr (id.idx * 2 ^ id.height)) (mmr N - 1) sr
        (1 + (mmr N - 1)) = .ok (r, []) := by
  obtain ⟨Lh, hL, hlt, _, _, _⟩ := final_forest id N v
  have hS : 1 ≤ mmr N := by have := le_mmr N; have := v.lo; omega
  have hfb := familyBranch_last (mmr N) hS
  have hbf : branchFrom (mmr N - 1) (mmr N) (1 + (mmr N - 1)) = [] := by
    unfold branchFrom; rw [hfb]; rfl
  have hpk : branchPeak (mmr N - 1) (mmr N) = mmr N - 1 := by
    unfold branchPeak; rw [hfb]; rfl
  have hright : (peaks (mmr N)).filter (· > branchPeak (mmr N - 1) (mmr N)) = [] := by
    rw [hpk, List.filter_eq_nil_iff]
    intro p hp hc
    have := Co.peaks_lt_size hp
    have := of_decide_eq_true hc
    omega
  obtain ⟨proof, hgen, hrec⟩ := generate_reconstruct hf V (mmr N) (mmr (id.idx * 2 ^ id.height))
    (mmr N - 1) (1 + (mmr N - 1)) none sr sr (hAt hf f) [] hsize (by simp only; rw [hbf, hfb])
    (by rw [hbf]; rfl) (by intro rest; rw [hbf]; simp [climb])
    (fun p hp => by rw [hright] at hp; cases hp)
    (fun p hp => hleft p (List.mem_filter.1 hp).1 (of_decide_eq_true (List.mem_filter.1 hp).2))
  refine ⟨proof, (Lh.map (Co.nh hf f)).foldr (fun x acc => hf.node (mmr N) x acc) sr, hgen, ?_, ?_⟩
  · rw [hL, List.map_append]; exact bag_append hf (mmr N) _ sr hsr _
  · have hv : ∀ d ∈ Lh, d.2 ≤ trailingOnes d.1 := by
      intro d hd
      have := Co.forest_mem (show d ∈ Co.forest N by rw [hL]; exact List.mem_append_left _ hd)
      omega
    rw [hrec, hright, final_filter_left id N v Lh hL hlt, map_hAt_cpos hf f Lh hv]
    rfl

/-- the root of a segment over a list of complete subtrees, not full: the bagged subtree roots -/
theorem rootWith_tiles (hf : HashFn α H) (s : Segment α H) (size : Nat) (f : Nat → α)
    (l : List (Nat × Nat)) (hv : ∀ c ∈ l, c.2 ≤ trailingOnes c.1) (hne : l ≠ [])
    (pks : List Nat) (hlen : pks.length = l.length) (rest : List (Nat × α))
    (hleaves : s.leafPos.zip s.leafData = leavesOf (dAt f) (tiles l) ++ rest) :
    ∃ sr, bag hf size (l.map (Co.nh hf f)) = some sr ∧
      rootWith hf s size none (tiles l) false pks = .ok (some sr) := by
  have hne' : l.map (Co.nh hf f) ≠ [] := by simpa using hne
  cases hb : bag hf size (l.map (Co.nh hf f)) with
  | none => exact absurd hb (Co.bag_ne_none hf size _ hne')
  | some sr =>
    refine ⟨sr, rfl, ?_⟩
    unfold rootWith
    rw [hleaves, rootLoop_tiles_complete hf s size f l [] rest hv]
    have hstk : (l.map fun c => some (Co.nh hf f c)).reverse ++ []
        = ((l.map (Co.nh hf f)).reverse).map some ++ [] := by
      simp [List.map_reverse]
    simp only [rootFinish, Bool.false_eq_true, if_false]
    rw [hstk, bagPeaks_all_some hf s none size _ pks none [] (by simpa using hlen), ← bag_eq_foldl, hb]

theorem final_root (hf : HashFn α H) (f : Nat → α) (N : Nat) (s : Segment α H) (v : FinalId s.id N)
    (rest : List (Nat × α))
    (hleaves : s.leafPos.zip s.leafData = leavesOf (dAt f) (s.id.positions (mmr N)) ++ rest) :
    ∃ sr, bag hf (mmr N) ((Co.forestFrom s.id.height (s.id.idx * 2 ^ s.id.height)
        (finalLeaves s.id N)).map (Co.nh hf f)) = some sr ∧
      s.root hf (mmr N) none = .ok (some sr) := by
  obtain ⟨_, _, _, hfl, hgt, _⟩ := final_forest s.id N v
  have hne : Co.forestFrom s.id.height (s.id.idx * 2 ^ s.id.height) (finalLeaves s.id N) ≠ [] := by
    intro h
    have ht := forestFrom_tiles s.id.height s.id.idx (finalLeaves s.id N) hfl
    rw [h, tiles_nil] at ht
    have := congrArg List.length ht
    simp only [List.length_range', List.length_nil] at this
    have := le_mmr (finalLeaves s.id N)
    omega
  have hex : s.id.unprunedSize (mmr N) ≠ 0 := by
    rw [(final_arith s.id N v).2.2.1]; unfold finalLeaves; have := v.lo; omega
  rw [root_of_nonempty hf s (mmr N) none hex]
  rw [final_positions s.id N v] at hleaves ⊢
  rw [(final_arith s.id N v).2.2.2.1, final_peaksIn s.id N v]
  exact rootWith_tiles hf s (mmr N) f _
    (fun c hc => by have := final_trees_mem s.id N v c hc; omega) hne _ (by simp) rest hleaves

/-! ### assembly: an honest segment of an unpruned view validates -/

theorem familyBranchLoop_bound (pm size : Nat) : ∀ (fuel cur h : Nat),
    ∀ x ∈ familyBranchLoop pm size fuel cur h, x.1 < size ∧ x.2 ≤ x.1 := by
  intro fuel
  induction fuel with
  | zero => intro cur h x hx; simp [familyBranchLoop] at hx
  | succ fuel ih =>
    intro cur h x hx
    rw [familyBranchLoop] at hx
    by_cases h1 : cur + 1 < size
    · rw [if_pos h1] at hx
      simp only at hx
      by_cases hb : bitSet pm h = true
      · simp only [hb, if_true] at hx
        by_cases h2 : cur + 1 ≥ size
        · rw [if_pos h2] at hx; cases hx
        · rw [if_neg h2] at hx
          rcases List.mem_cons.1 hx with rfl | hx'
          · exact ⟨by simp only; omega, by simp only; omega⟩
          · exact ih _ _ x hx'
      · simp only [hb, Bool.false_eq_true, if_false] at hx
        by_cases h2 : cur + 2 * 2 ^ h ≥ size
        · rw [if_pos h2] at hx; cases hx
        · rw [if_neg h2] at hx
          rcases List.mem_cons.1 hx with rfl | hx'
          · exact ⟨by simp only; omega, by simp only; omega⟩
          · exact ih _ _ x hx'
    · rw [if_neg h1] at hx; cases hx

theorem familyBranch_snd_lt (pos size : Nat) : ∀ x ∈ familyBranch pos size, x.2 < size := by
  intro x hx
  have := familyBranchLoop_bound _ _ _ _ _ x hx
  omega

/-- an unpruned, readable view of the MMR of `f 0 … f (N-1)`: everything on file, nothing removed -/
structure UnprunedView (hf : HashFn α H) (f : Nat → α) (N : Nat) (V : View α H) : Prop where
  size : V.size = mmr N
  data : ∀ p, p < mmr N → height p = 0 → V.dataFromFile p = some (dAt f p)
  hash : ∀ p, p < mmr N → V.hash p = some (hAt hf f p)
  file : ∀ p, p < mmr N → V.fromFile p = some (hAt hf f p)

/-- the segment `from_pmmr(.., prunable = false)` builds: every leaf of the range, no hashes -/
def honestSeg (id : Ident) (dataAt : Nat → α) (ps : List Nat) (proof : List H) : Segment α H :=
  { id := id, hashPos := [], hashes := [],
    leafPos := (leavesOf dataAt ps).map (·.1), leafData := (leavesOf dataAt ps).map (·.2),
    proof := proof }

theorem honestSeg_leaves (id : Ident) (dataAt : Nat → α) (ps : List Nat) (proof : List H) :
    (honestSeg id dataAt ps proof).leafPos.zip (honestSeg id dataAt ps proof).leafData
      = leavesOf dataAt ps := leavesOf_zip dataAt ps

/-- the root of the MMR of `f 0 … f (N-1)`: its peaks bagged right to left -/
def rootOf (hf : HashFn α H) (f : Nat → α) (N : Nat) : Option H :=
  bag hf (mmr N) ((Co.forest N).map (Co.nh hf f))

/-- the expected segment root: the committed hash of the subtree root for a full segment, the
bagged peaks inside the range for the final one -/
def segRootOf (hf : HashFn α H) (f : Nat → α) (N : Nat) (id : Ident) : Option H :=
  if (id.idx + 1) * 2 ^ id.height ≤ N then some (hAt hf f (lastOf id))
  else bag hf (mmr N) ((Co.forestFrom id.height (id.idx * 2 ^ id.height) (finalLeaves id N)).map (Co.nh hf f))

/-- **segment_complete, function form.**  For every identifier whose range intersects the MMR:
`from_pmmr` succeeds with the segment that carries exactly the leaves of the range; its `root` is
the expected segment root; its proof reconstructs the MMR root; `validate` / `validate_with`
accept. -/
theorem segment_complete_view (hf : HashFn α H) [DecidableEq H] (f : Nat → α) (N : Nat) (V : View α H)
    (uv : UnprunedView hf f N V) (id : Ident) (fit : FitId id N) :
    ∃ proof r sr, fromPmmr hf V id false = .ok (honestSeg id (dAt f) (id.positions (mmr N)) proof) ∧
      rootOf hf f N = some r ∧ segRootOf hf f N id = some sr ∧
      (honestSeg id (dAt f) (id.positions (mmr N)) proof).root hf (mmr N) none = .ok (some sr) ∧
      reconstructRoot hf proof (mmr N) (id.posRange (mmr N)).1 (id.posRange (mmr N)).2 sr
        (1 + (id.posRange (mmr N)).2) = .ok (r, []) ∧
      (honestSeg id (dAt f) (id.positions (mmr N)) proof).validate hf (mmr N) none r = .ok () ∧
      ∀ hlp other left, (honestSeg id (dAt f) (id.positions (mmr N)) proof).validateWith hf (mmr N) none
        (if left then hf.node hlp other r else hf.node hlp r other) hlp other left = .ok () := by
  have hleft : ∀ p ∈ peaks (mmr N), p < mmr (id.idx * 2 ^ id.height) → V.hash p = some (hAt hf f p) :=
    fun p hp _ => uv.hash p (Co.peaks_lt_size hp)
  -- the parts that differ between the full and the final segment
  have key : ∃ proof r sr,
      generate hf V (1 + (id.posRange (mmr N)).1) (1 + (id.posRange (mmr N)).2) none = .ok proof ∧
      rootOf hf f N = some r ∧ segRootOf hf f N id = some sr ∧
      (∀ s : Segment α H, s.id = id →
        s.leafPos.zip s.leafData = leavesOf (dAt f) (id.positions (mmr N)) →
        s.root hf (mmr N) none = .ok (some sr)) ∧
      reconstructRoot hf proof (mmr N) (id.posRange (mmr N)).1 (id.posRange (mmr N)).2 sr
        (1 + (id.posRange (mmr N)).2) = .ok (r, []) := by
    rcases fit_cases id N fit with h | h
    · obtain ⟨_, _, _, hr⟩ := full_arith id (mmr N) h
      obtain ⟨proof, r, hgen, hroot, hrec⟩ := full_generate_reconstruct hf f N id h V uv.size
        (fun x hx => uv.hash x.2 (familyBranch_snd_lt _ _ x hx))
        (fun p hp => uv.file p (Co.peaks_lt_size hp)) hleft
      have hfit : (id.idx + 1) * 2 ^ id.height ≤ N := by
        have := h.fit; rwa [GV.Props.C07.nLeaves_at_leaf_boundary] at this
      refine ⟨proof, r, hAt hf f (lastOf id), by rw [hr]; exact hgen, hroot, ?_, ?_, by rw [hr]; exact hrec⟩
      · unfold segRootOf; rw [if_pos hfit]
      · intro s hid hl
        subst hid
        exact root_complete_full hf s (mmr N) (hAt hf f) (dAt f) (hAt_leafLaw hf f) (hAt_nodeLaw hf f)
          h [] (by rw [hl, List.append_nil])
    · obtain ⟨_, _, _, _, hr⟩ := final_arith id N h
      have hnfit : ¬ (id.idx + 1) * 2 ^ id.height ≤ N := by have := h.hi; omega
      -- the bagged peaks inside
      have hne : (Co.forestFrom id.height (id.idx * 2 ^ id.height) (finalLeaves id N)).map (Co.nh hf f) ≠ [] := by
        obtain ⟨_, _, _, hfl, hgt, _⟩ := final_forest id N h
        intro hc
        have hc' := List.map_eq_nil_iff.1 hc
        have ht := forestFrom_tiles id.height id.idx (finalLeaves id N) hfl
        rw [hc', tiles_nil] at ht
        have := congrArg List.length ht
        simp only [List.length_range', List.length_nil] at this
        have := le_mmr (finalLeaves id N)
        omega
      cases hb : bag hf (mmr N) ((Co.forestFrom id.height (id.idx * 2 ^ id.height)
          (finalLeaves id N)).map (Co.nh hf f)) with
      | none => exact absurd hb (Co.bag_ne_none hf (mmr N) _ hne)
      | some sr =>
        obtain ⟨proof, r, hgen, hroot, hrec⟩ := final_generate_reconstruct hf f N id h V uv.size hleft sr hb
        refine ⟨proof, r, sr, by rw [hr]; exact hgen, hroot, ?_, ?_, by rw [hr]; exact hrec⟩
        · unfold segRootOf; rw [if_neg hnfit, hb]
        · intro s hid hl
          subst hid
          obtain ⟨sr', hsr', hroot'⟩ := final_root hf f N s h [] (by rw [hl, List.append_nil])
          rw [hb] at hsr'
          injection hsr' with hsr'
          rw [hsr']; exact hroot'
  obtain ⟨proof, r, sr, hgen, hroot, hsr, hsroot, hrec⟩ := key
  have hfrom := fromPmmr_unpruned hf V id N fit (dAt f) uv.size uv.data proof hgen
  have hroot' := hsroot (honestSeg id (dAt f) (id.positions (mmr N)) proof) rfl (honestSeg_leaves ..)
  have hfup := fup_of_root_some hf _ (mmr N) none sr hroot'
  obtain ⟨hv, hvw⟩ := validate_of_parts hf (honestSeg id (dAt f) (id.positions (mmr N)) proof) (mmr N)
    none sr r _ [] hfup hrec
  exact ⟨proof, r, sr, hfrom, hroot, hsr, hroot', hrec, hv, hvw⟩

/-- the Vec-backed view of the vector `PMMR::push` builds is an unpruned view -/
theorem vecView_unpruned (hf : HashFn α H) (f : Nat → α) (N : Nat) :
    UnprunedView hf f N (vecView (Co.allHashes hf f N) ((List.range N).map f)) where
  size := Co.allHashes_length hf f N
  data := fun p hp hl => vecView_data hf f N p hp hl
  hash := fun p hp => (vecView_hash hf f N p hp _).1
  file := fun p hp => (vecView_hash hf f N p hp _).2

end GV.Seg
