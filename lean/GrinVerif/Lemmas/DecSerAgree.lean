import GrinVerif.Lemmas.DecSerSeg
/-! Reader independence: the two `Reader` implementations that see untrusted bytes (`BinReader` =
`ser::deserialize`, `BufReader` = the codec) differ, in the instrumented models, only in *when*
`read_fixed_bytes` allocates.  `Agree p q` says two decoders have the same outcome once the allocation
ghost is forgotten (same value and rest, same error kind, or both panic); it is compositional, and every
decoder of `Model/DecSer.lean` — and every body of `decode_message` except `BanReason`, whose reader
swallows a failed `read_i32` and therefore leaves reader-dependent rests — agrees with itself across
readers, on every input (in particular on every prefix of a valid encoding). -/
namespace GV.DecSer
open GV GV.Ser GV.Dec GV.Msg

variable {α β : Type}

/-- same outcome up to the allocation ghost -/
def Agree (p q : Dec α) : Prop := ∀ bs, (p bs).toExcept = (q bs).toExcept

theorem Agree.refl (p : Dec α) : Agree p p := fun _ => rfl

theorem toExcept_addAlloc (o : Outcome α) (n : Nat) : (o.addAlloc n).toExcept = o.toExcept := by
  cases o <;> rfl

theorem toExcept_bind {p q : Outcome α} {f g : α → Bytes → Outcome β} (h : p.toExcept = q.toExcept)
    (hf : ∀ a r, (f a r).toExcept = (g a r).toExcept) : (Dec.bind p f).toExcept = (Dec.bind q g).toExcept := by
  cases p with
  | ok a r n =>
    cases q with
    | ok a' r' n' =>
      simp only [Outcome.toExcept, Option.some.injEq, Except.ok.injEq, Prod.mk.injEq] at h
      obtain ⟨h1, h2⟩ := h
      subst h1; subst h2
      rw [bind_ok, bind_ok, toExcept_addAlloc, toExcept_addAlloc]; exact hf a r
    | err e n' => simp [Outcome.toExcept] at h
    | panic s n' => simp [Outcome.toExcept] at h
  | err e n =>
    cases q with
    | ok a' r' n' => simp [Outcome.toExcept] at h
    | err e' n' =>
      simp only [Outcome.toExcept, Option.some.injEq, Except.error.injEq] at h
      subst h; rfl
    | panic s n' => simp [Outcome.toExcept] at h
  | panic s n =>
    cases q with
    | ok a' r' n' => simp [Outcome.toExcept] at h
    | err e' n' => simp [Outcome.toExcept] at h
    | panic s' n' => rfl

theorem Agree.bind {p q : Dec α} {f g : α → Dec β} (hp : Agree p q) (hf : ∀ a, Agree (f a) (g a)) :
    Agree (fun bs => Dec.bind (p bs) f) (fun bs => Dec.bind (q bs) g) :=
  fun bs => toExcept_bind (hp bs) (fun a r => hf a r)

theorem Agree.ite {p q p' q' : Dec α} (b : Prop) [Decidable b] (hp : Agree p p') (hq : Agree q q') :
    Agree (fun bs => if b then p bs else q bs) (fun bs => if b then p' bs else q' bs) := by
  intro bs
  show (if b then p bs else q bs).toExcept = (if b then p' bs else q' bs).toExcept
  split
  · exact hp bs
  · exact hq bs

theorem Agree.withCapacity {p q : Dec α} (hp : Agree p q) (n sz : Nat) :
    Agree (fun bs => GV.Dec.withCapacity n sz (p bs)) (fun bs => GV.Dec.withCapacity n sz (q bs)) := by
  intro bs
  show (GV.Dec.withCapacity n sz (p bs)).toExcept = (GV.Dec.withCapacity n sz (q bs)).toExcept
  unfold GV.Dec.withCapacity
  split
  · rfl
  · rw [toExcept_addAlloc, toExcept_addAlloc]; exact hp bs

theorem Agree.charge {p q : Dec α} (hp : Agree p q) (n m : Nat) :
    Agree (fun bs => GV.DecSer.charge n (p bs)) (fun bs => GV.DecSer.charge m (q bs)) := by
  intro bs
  show (GV.DecSer.charge n (p bs)).toExcept = (GV.DecSer.charge m (q bs)).toExcept
  unfold GV.DecSer.charge
  rw [toExcept_addAlloc, toExcept_addAlloc]; exact hp bs

theorem Agree.map {p q : Dec α} (hp : Agree p q) (f : α → β) :
    Agree (fun bs => (p bs).map f) (fun bs => (q bs).map f) := by
  intro bs
  have := hp bs
  show ((p bs).map f).toExcept = ((q bs).map f).toExcept
  cases h1 : p bs <;> cases h2 : q bs <;> rw [h1, h2] at this <;>
    simp_all [Outcome.toExcept, Outcome.map]

theorem Agree.corrupt {p q : Dec α} (ch : Chk) (hp : Agree p q) :
    Agree (fun bs => ch.corrupt (p bs)) (fun bs => ch.corrupt (q bs)) := by
  intro bs
  show (ch.corrupt (p bs)).toExcept = (ch.corrupt (q bs)).toExcept
  cases ch
  · exact hp bs
  · rfl
  · rfl

theorem Agree.pass {p q : Dec α} (ch : Chk) (hp : Agree p q) :
    Agree (fun bs => ch.pass (p bs)) (fun bs => ch.pass (q bs)) := by
  intro bs
  show (ch.pass (p bs)).toExcept = (ch.pass (q bs)).toExcept
  cases ch
  · exact hp bs
  · rfl
  · rfl

theorem Agree.readN {p q : Dec α} (hp : Agree p q) (n : Nat) : Agree (GV.Dec.readN p n) (GV.Dec.readN q n) := by
  induction n with
  | zero => intro bs; rfl
  | succ n ih =>
    have h := Agree.bind hp (fun x => Agree.bind ih (fun xs => Agree.refl (fun r => (.ok (x :: xs) r 0 : Outcome (List α)))))
    intro bs
    simpa [GV.Dec.readN] using h bs

/-- the one place where the readers differ: a failing `read_fixed_bytes` has allocated (`BinReader`)
or not (`BufReader`) — the outcome is the same -/
theorem agree_rFixed (a b : Rdr) (len : Nat) : Agree (rFixed a len) (rFixed b len) := by
  intro bs
  unfold rFixed
  split
  · rfl
  · cases splitExact len bs <;> rfl

theorem agree_rHash (a b : Rdr) : Agree (rHash a) (rHash b) := agree_rFixed a b 32

theorem agree_rFixedArr (a b : Rdr) (n : Nat) : Agree (rFixedArr a n) (rFixedArr b n) :=
  Agree.bind (agree_rFixed a b n) fun _ => Agree.refl _

theorem agree_rCommit (a b : Rdr) : Agree (rCommit a) (rCommit b) := agree_rFixedArr a b _
theorem agree_rSig (a b : Rdr) : Agree (rSig a) (rSig b) := agree_rFixedArr a b _
theorem agree_rShortId (a b : Rdr) : Agree (rShortId a) (rShortId b) := agree_rFixedArr a b _
theorem agree_rBlind (a b : Rdr) : Agree (rBlind a) (rBlind b) := agree_rFixed a b _

theorem agree_multiItem {p q : Dec α} (hp : Agree p q) (sz : Nat) : Agree (multiItem p sz) (multiItem q sz) := by
  intro bs
  have := hp bs
  unfold multiItem
  cases h1 : p bs <;> cases h2 : q bs <;> rw [h1, h2] at this <;> simp_all [Outcome.toExcept]

theorem agree_readMulti {p q : Dec α} (hp : Agree p q) (sz count : Nat) :
    Agree (readMulti p sz count) (readMulti q sz count) := by
  intro bs
  unfold readMulti
  split
  · rfl
  · exact Agree.readN (agree_multiItem hp sz) count bs

theorem agree_rTxKernel (a b : Rdr) (c : Cfg) : Agree (rTxKernel a c) (rTxKernel b c) :=
  Agree.bind (Agree.refl _) fun _ => Agree.bind (agree_rCommit a b) fun _ =>
    Agree.bind (agree_rSig a b) fun _ => Agree.refl _

theorem agree_rInput (a b : Rdr) : Agree (rInput a) (rInput b) :=
  Agree.bind (Agree.refl _) fun _ => Agree.bind (agree_rCommit a b) fun _ => Agree.refl _

theorem agree_rOutputId (a b : Rdr) : Agree (rOutputId a) (rOutputId b) :=
  Agree.bind (Agree.refl _) fun _ => Agree.bind (agree_rCommit a b) fun _ => Agree.refl _

theorem agree_rRangeProof (a b : Rdr) : Agree (rRangeProof a) (rRangeProof b) :=
  Agree.bind (Agree.refl _) fun _ => Agree.bind (agree_rFixed a b _) fun _ => Agree.refl _

theorem agree_rOutput (a b : Rdr) : Agree (rOutput a) (rOutput b) :=
  Agree.bind (agree_rOutputId a b) fun _ => Agree.bind (agree_rRangeProof a b) fun _ => Agree.refl _

theorem agree_rInputs (a b : Rdr) (ver ni : Nat) : Agree (rInputs a ver ni) (rInputs b ver ni) :=
  Agree.ite (ver ≤ 2)
    (Agree.bind (agree_readMulti (agree_rInput a b) _ ni) fun _ => Agree.refl _)
    (Agree.bind (agree_readMulti (agree_rCommit a b) _ ni) fun _ => Agree.refl _)

theorem agree_rTxBody (a b : Rdr) (c : Cfg) : Agree (rTxBody a c) (rTxBody b c) :=
  Agree.bind (Agree.refl _) fun ni => Agree.bind (Agree.refl _) fun no => Agree.bind (Agree.refl _) fun nk =>
    Agree.ite _ (Agree.refl _)
      (Agree.bind (agree_rInputs a b c.ver ni) fun _ =>
       Agree.bind (agree_readMulti (agree_rOutput a b) _ no) fun _ =>
       Agree.bind (agree_readMulti (agree_rTxKernel a b c) _ nk) fun _ => Agree.refl _)

theorem agree_rTransaction (a b : Rdr) (c : Cfg) : Agree (rTransaction a c) (rTransaction b c) :=
  Agree.bind (agree_rBlind a b) fun _ => Agree.bind (agree_rTxBody a b c) fun _ => Agree.refl _

theorem agree_rProof (a b : Rdr) (c : Cfg) : Agree (rProof a c) (rProof b c) :=
  Agree.bind (Agree.refl _) fun _ =>
    Agree.ite _ (Agree.refl _)
      (Agree.withCapacity (Agree.ite _ (Agree.refl _) (Agree.bind (agree_rFixed a b _) fun _ => Agree.refl _)) _ _)

theorem agree_rProofOfWork (a b : Rdr) (c : Cfg) : Agree (rProofOfWork a c) (rProofOfWork b c) :=
  Agree.bind (Agree.refl _) fun _ => Agree.bind (Agree.refl _) fun _ => Agree.bind (Agree.refl _) fun _ =>
    Agree.bind (agree_rProof a b c) fun _ => Agree.refl _

theorem agree_rBlockHeader (a b : Rdr) (c : Cfg) : Agree (rBlockHeader a c) (rBlockHeader b c) :=
  Agree.bind (Agree.refl _) fun _ => Agree.bind (Agree.refl _) fun _ => Agree.bind (Agree.refl _) fun _ =>
  Agree.bind (agree_rHash a b) fun _ => Agree.bind (agree_rHash a b) fun _ => Agree.bind (agree_rHash a b) fun _ =>
  Agree.bind (agree_rHash a b) fun _ => Agree.bind (agree_rHash a b) fun _ => Agree.bind (agree_rBlind a b) fun _ =>
  Agree.bind (Agree.refl _) fun _ => Agree.bind (Agree.refl _) fun _ =>
  Agree.bind (agree_rProofOfWork a b c) fun _ => Agree.refl _

theorem agree_rUntrustedHeader (a b : Rdr) (e : Env) : Agree (rUntrustedHeader a e) (rUntrustedHeader b e) :=
  Agree.bind (agree_rBlockHeader a b e.cfg) fun _ => Agree.refl _

theorem agree_rUntrustedBlock (a b : Rdr) (e : Env) : Agree (rUntrustedBlock a e) (rUntrustedBlock b e) :=
  Agree.bind (agree_rUntrustedHeader a b e) fun _ => Agree.bind (agree_rTxBody a b e.cfg) fun _ => Agree.refl _

theorem agree_rCompactBody (a b : Rdr) (c : Cfg) : Agree (rCompactBody a c) (rCompactBody b c) :=
  Agree.bind (Agree.refl _) fun no => Agree.bind (Agree.refl _) fun nk => Agree.bind (Agree.refl _) fun ni =>
    Agree.bind (agree_readMulti (agree_rOutput a b) _ no) fun _ =>
    Agree.bind (agree_readMulti (agree_rTxKernel a b c) _ nk) fun _ =>
    Agree.bind (agree_readMulti (agree_rShortId a b) _ ni) fun _ => Agree.refl _

theorem agree_rUntrustedCompactBlock (a b : Rdr) (e : Env) :
    Agree (rUntrustedCompactBlock a e) (rUntrustedCompactBlock b e) :=
  Agree.bind (agree_rUntrustedHeader a b e) fun _ => Agree.bind (Agree.refl _) fun _ =>
    Agree.bind (agree_rCompactBody a b e.cfg) fun _ => Agree.refl _

/-! ### segments -/

theorem agree_segItems {p q : Dec α} (hp : Agree p q) (sz count : Nat) :
    Agree (segItems p sz count) (segItems q sz count) :=
  Agree.withCapacity (Agree.readN hp count) _ _

theorem agree_segmentProof (a b : Rdr) : Agree (segmentProof a) (segmentProof b) :=
  Agree.bind (Agree.refl _) fun n => agree_segItems (agree_rHash a b) 32 n

theorem agree_segment (a b : Rdr) {p q : Dec α} (hp : Agree p q) (sz : Nat) :
    Agree (segment a p sz) (segment b q sz) :=
  Agree.bind (Agree.refl _) fun _ => Agree.bind (Agree.refl _) fun nh => Agree.bind (Agree.refl _) fun _ =>
  Agree.bind (agree_segItems (agree_rHash a b) 32 nh) fun _ => Agree.bind (Agree.refl _) fun nl =>
  Agree.bind (Agree.refl _) fun _ => Agree.bind (agree_segItems hp sz nl) fun _ =>
  Agree.bind (agree_segmentProof a b) fun _ => Agree.refl _

theorem agree_rSegmentResponse (a b : Rdr) {p q : Dec α} (hp : Agree p q) (sz : Nat) :
    Agree (rSegmentResponse a p sz) (rSegmentResponse b q sz) :=
  Agree.bind (agree_rHash a b) fun _ => Agree.bind (agree_segment a b hp sz) fun _ => Agree.refl _

theorem agree_rOutputSegmentResponse (a b : Rdr) : Agree (rOutputSegmentResponse a) (rOutputSegmentResponse b) :=
  Agree.bind (agree_rSegmentResponse a b (agree_rOutputId a b) _) fun _ =>
    Agree.bind (agree_rHash a b) fun _ => Agree.refl _

theorem agree_rBitmapBlockBody (a b : Rdr) (nChunks mode : Nat) :
    Agree (rBitmapBlockBody a nChunks mode) (rBitmapBlockBody b nChunks mode) :=
  Agree.ite _ (Agree.bind (agree_rFixed a b _) fun _ => Agree.refl _) (Agree.refl _)

theorem agree_rBitmapBlock (a b : Rdr) : Agree (rBitmapBlock a) (rBitmapBlock b) :=
  Agree.bind (Agree.refl _) fun nChunks => Agree.ite _ (Agree.refl _)
    (Agree.bind (Agree.refl _) fun mode => agree_rBitmapBlockBody a b nChunks mode)

theorem agree_rBitmapBlocks (a b : Rdr) (id : SegmentId) (nBlocks : Nat) :
    Agree (rBitmapBlocks a id nBlocks) (rBitmapBlocks b id nBlocks) :=
  Agree.withCapacity
    (Agree.bind (Agree.readN (agree_rBitmapBlock a b) nBlocks) fun _ =>
      Agree.pass _ (Agree.bind (agree_segmentProof a b) fun _ => Agree.refl _)) _ _

theorem agree_rBitmapAfterCount (a b : Rdr) (id : SegmentId) (nBlocks : Nat) :
    Agree (rBitmapAfterCount a id nBlocks) (rBitmapAfterCount b id nBlocks) := by
  intro r
  unfold rBitmapAfterCount
  split
  · rfl
  · cases maxChunks id.height with
    | error e => rfl
    | ok mx =>
      simp only
      split
      · rfl
      · cases leafOffset id with
        | error e => rfl
        | ok off => exact agree_rBitmapBlocks a b id nBlocks r

theorem agree_rBitmapSegment (a b : Rdr) : Agree (rBitmapSegment a) (rBitmapSegment b) :=
  Agree.bind (Agree.refl _) fun id => Agree.bind (Agree.refl _) fun nBlocks => agree_rBitmapAfterCount a b id nBlocks

theorem agree_rBitmapSegmentResponse (a b : Rdr) : Agree (rBitmapSegmentResponse a) (rBitmapSegmentResponse b) :=
  Agree.bind (agree_rHash a b) fun _ => Agree.bind (agree_rBitmapSegment a b) fun _ =>
    Agree.bind (agree_rHash a b) fun _ => Agree.refl _

/-! ### the payload of `decode_message`, and its native bodies -/

theorem agree_payload (a b : Rdr) (e : Env) (t : Nat) : Agree (payload a e t) (payload b e t) := by
  unfold payload
  split
  · exact Agree.map (agree_rTransaction a b e.cfg) _
  split
  · exact Agree.map (agree_rUntrustedBlock a b e) _
  split
  · exact Agree.map (agree_rUntrustedCompactBlock a b e) _
  split
  · exact Agree.map (agree_rUntrustedHeader a b e) _
  split
  · exact Agree.map (agree_rBitmapSegmentResponse a b) _
  split
  · exact Agree.map (agree_rOutputSegmentResponse a b) _
  split
  · exact Agree.map (agree_rSegmentResponse a b (agree_rRangeProof a b) _) _
  split
  · exact Agree.map (agree_rSegmentResponse a b (agree_rTxKernel a b e.cfg) _) _
  · exact Agree.refl _

theorem agree_decPeerAddr (a b : Rdr) : Agree (decPeerAddr a) (decPeerAddr b) :=
  Agree.bind (Agree.refl _) fun _ =>
    Agree.ite _ (Agree.bind (agree_rFixed a b 4) fun _ => Agree.refl _) (Agree.refl _)

/-- every body of `decode_message` other than `BanReason` -/
theorem agree_decBody {P : Type} {pl pl' : Payload P} (a b : Rdr) (hpl : ∀ t, Agree (pl t) (pl' t)) (t : Nat)
    (ht : t ≠ GV.Gen.Msg.T_BanReason) : Agree (decBody pl a t) (decBody pl' b t) := by
  unfold decBody
  split
  · exact Agree.refl _
  split
  · exact Agree.bind (agree_rHash a b) fun _ => Agree.refl _
  split
  · exact Agree.bind (Agree.refl _) fun len => Agree.ite _ (Agree.refl _)
      (Agree.withCapacity (Agree.bind (Agree.readN (agree_rHash a b) len) fun _ => Agree.refl _) _ _)
  split
  · exact Agree.refl _
  split
  · exact Agree.bind (Agree.refl _) fun count => Agree.ite _ (Agree.refl _) (Agree.ite _ (Agree.refl _)
      (Agree.withCapacity (Agree.bind (Agree.readN (agree_decPeerAddr a b) count) fun _ => Agree.refl _) _ _))
  split
  · exact Agree.bind (agree_rHash a b) fun _ => Agree.refl _
  split
  · exact Agree.bind (agree_rHash a b) fun _ => Agree.refl _
  split
  · exact Agree.bind (agree_rHash a b) fun _ => Agree.refl _
  · exact Agree.map (hpl t) Body.payload

end GV.DecSer
