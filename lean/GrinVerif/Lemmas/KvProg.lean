import GrinVerif.Lemmas.Kv
import GrinVerif.Model.KvSpec
/-! Lemmas for C18: running batch bodies on the stack machine, the no-outer-commit predicate,
the resize gate invariant, `needs_resize`. -/
namespace GV.Kv

theorem run_nil (st : St) : run st [] = st := rfl
theorem run_cons (st : St) (op : Op) (r : List Op) : run st (op :: r) = run (step st op) r := rfl
theorem run_append (st : St) (a b : List Op) : run st (a ++ b) = run (run st a) b := by
  simp [run, List.foldl_append]

/-! ### spec maps against overlays -/

theorem ovF_eq (o : Ov) (m : Map) (k : Key) :
    ovF o m k = match ovGet o k with
      | some r => r
      | none => m k := by
  induction o with
  | nil => simp [ovF, ovGet]
  | cons w r ih =>
    obtain ⟨kw, vw⟩ := w
    have : ovF ((kw, vw) :: r) m = writeF (kw, vw) (ovF r m) := rfl
    rw [this]
    by_cases h : kw = k
    · simp [writeF, ovGet, h]
    · simp [writeF, ovGet, h, ih]

/-- applying an overlay to a table denotes composing its writes onto the table's map -/
theorem den_applyOv (o : Ov) (t : Tbl) : den (applyOv o t) = ovF o (den t) := by
  funext k
  simp only [den]
  rw [tget_applyOv, ovF_eq]
  rfl

theorem ovF_append (a b : Ov) (m : Map) : ovF (a ++ b) m = ovF a (ovF b m) := by
  simp [ovF, List.foldr_append]

/-- the surviving writes of a body compose to its textbook semantics -/
theorem ovF_writes (p : Prog) : ∀ m : Map, ovF p.writes m = p.sem m := by
  induction p with
  | done => intro m; rfl
  | put k v rest ih => intro m; simp only [Prog.writes, Prog.sem, ovF_append, ih]; rfl
  | del k rest ih => intro m; simp only [Prog.writes, Prog.sem, ovF_append, ih]; rfl
  | child b c rest ihb ihr =>
    intro m
    simp only [Prog.writes, Prog.sem, ovF_append, ihr]
    cases c with
    | true => simp [ihb]
    | false => simp [ovF]

/-- the batch view as a map -/
theorem bget_eq_view (st : St) (k : Key) : bget st k = tget (view st) k := by
  rw [view, tget_applyOv]
  rfl

theorem bget_eq_ovF (st : St) : (fun k => bget st k) = ovF st.stack.flatten (den st.committed) := by
  funext k
  rw [ovF_eq]
  rfl

/-! ### running a batch body -/

/-- Running the body `p` in a state whose innermost open batch has overlay `o` pushes exactly the
surviving writes of `p` onto `o` and changes nothing else — for every nesting depth. -/
theorem run_flat (p : Prog) : ∀ (st : St) (o : Ov) (s : List Ov), st.stack = o :: s →
    run st p.flat = { st with stack := (p.writes ++ o) :: s } := by
  induction p with
  | done =>
    intro st o s h
    cases st; simp_all [Prog.flat, Prog.writes, run]
  | put k v rest ih =>
    intro st o s h
    simp only [Prog.flat, run_cons]
    have hs : step st (Op.put k v) = { st with stack := ((k, some v) :: o) :: s } := by
      simp [step, h]
    rw [hs, ih _ ((k, some v) :: o) s rfl]
    simp [Prog.writes]
  | del k rest ih =>
    intro st o s h
    simp only [Prog.flat, run_cons]
    have hs : step st (Op.del k) = { st with stack := ((k, none) :: o) :: s } := by
      simp [step, h]
    rw [hs, ih _ ((k, none) :: o) s rfl]
    simp [Prog.writes]
  | child b c rest ihb ihr =>
    intro st o s h
    simp only [Prog.flat, run_cons, run_append]
    have hs : step st Op.child = { st with stack := [] :: o :: s } := by
      simp [step, h]
    rw [hs, ihb _ [] (o :: s) rfl]
    cases c with
    | true =>
      simp only [if_true, step, List.append_nil]
      rw [ihr _ (b.writes ++ o) s rfl]
      simp [Prog.writes]
    | false =>
      simp only [step, Bool.false_eq_true, if_false]
      rw [ihr _ o s rfl]
      simp [Prog.writes]

/-! ### no outermost commit ⇒ committed tables untouched -/

theorem step_committed (st : St) (op : Op) (h : ¬ (op = Op.commit ∧ st.stack.length = 1)) :
    (step st op).committed = st.committed := by
  cases op with
  | begin => simp only [step]; split <;> rfl
  | put k v => simp only [step]; split <;> rfl
  | del k => simp only [step]; split <;> rfl
  | child => simp only [step]; split <;> rfl
  | drop => simp only [step]; split <;> rfl
  | commit =>
    simp only [step]
    split
    · rfl
    · rename_i o heq
      exact absurd ⟨rfl, by simp [heq]⟩ h
    · rfl

theorem run_committed (ops : List Op) : ∀ st : St, NoOuterCommit st ops →
    (run st ops).committed = st.committed := by
  induction ops with
  | nil => intro st _; rfl
  | cons op r ih =>
    intro st h
    obtain ⟨h1, h2⟩ := h
    rw [run_cons, ih _ h2, step_committed st op h1]

theorem noOuter_append (a b : List Op) : ∀ st : St,
    NoOuterCommit st (a ++ b) ↔ NoOuterCommit st a ∧ NoOuterCommit (run st a) b := by
  induction a with
  | nil => intro st; simp [NoOuterCommit, run]
  | cons op r ih =>
    intro st
    simp only [List.cons_append, NoOuterCommit, run_cons, ih, and_assoc]

/-- a batch body never performs an outermost commit: all its commits are child commits -/
theorem noOuter_flat (p : Prog) : ∀ (st : St) (o : Ov) (s : List Ov), st.stack = o :: s →
    NoOuterCommit st p.flat := by
  induction p with
  | done => intro st o s h; trivial
  | put k v rest ih =>
    intro st o s h
    refine ⟨by simp, ?_⟩
    exact ih _ ((k, some v) :: o) s (by simp [step, h])
  | del k rest ih =>
    intro st o s h
    refine ⟨by simp, ?_⟩
    exact ih _ ((k, none) :: o) s (by simp [step, h])
  | child b c rest ihb ihr =>
    intro st o s h
    refine ⟨by simp, ?_⟩
    have hs : step st Op.child = { st with stack := [] :: o :: s } := by simp [step, h]
    rw [hs]
    have hcons : ∀ (x : Op) (l1 l2 : List Op), l1 ++ x :: l2 = l1 ++ ([x] ++ l2) := by
      intro x l1 l2; simp
    rw [hcons, noOuter_append, noOuter_append]
    refine ⟨ihb _ [] (o :: s) rfl, ?_, ?_⟩
    · rw [run_flat b _ [] (o :: s) rfl]
      refine ⟨?_, trivial⟩
      intro hh
      simp at hh
    · rw [run_flat b _ [] (o :: s) rfl]
      cases c with
      | true =>
        simp only [if_true, run, List.foldl, step, List.append_nil]
        exact ihr _ (b.writes ++ o) s rfl
      | false =>
        simp only [Bool.false_eq_true, if_false, run, List.foldl, step]
        exact ihr _ o s rfl

/-- sortedness of the committed tables is an invariant of every operation -/
theorem sorted_step (st : St) (op : Op) (h : Sorted st.committed) : Sorted (step st op).committed := by
  cases op with
  | begin => simp only [step]; split <;> exact h
  | put k v => simp only [step]; split <;> exact h
  | del k => simp only [step]; split <;> exact h
  | child => simp only [step]; split <;> exact h
  | drop => simp only [step]; split <;> exact h
  | commit =>
    simp only [step]
    split
    · exact h
    · exact sorted_applyOv _ _ h
    · exact h

theorem sorted_run (ops : List Op) : ∀ st : St, Sorted st.committed → Sorted (run st ops).committed := by
  induction ops with
  | nil => intro st h; exact h
  | cons op r ih => intro st h; exact ih _ (sorted_step st op h)

/-! ### write occurrences -/

theorem mem_writes_iff (p : Prog) : ∀ w : W, w ∈ p.writes ↔ (w, true) ∈ p.occs := by
  induction p with
  | done => intro w; simp [Prog.writes, Prog.occs]
  | put k v rest ih => intro w; simp [Prog.writes, Prog.occs, ih]
  | del k rest ih => intro w; simp [Prog.writes, Prog.occs, ih]
  | child b c rest ihb ihr =>
    intro w
    cases c with
    | true =>
      simp only [Prog.writes, Prog.occs, if_true, List.mem_append, ihr, ihb, List.mem_map,
        Bool.and_true]
      constructor
      · rintro (h | h)
        · exact Or.inl h
        · exact Or.inr ⟨(w, true), h, rfl⟩
      · rintro (h | ⟨e, he, heq⟩)
        · exact Or.inl h
        · right
          obtain ⟨e1, e2⟩ := e
          simp only [Prod.mk.injEq] at heq
          obtain ⟨h1, h2⟩ := heq
          subst h1; subst h2
          exact he
    | false =>
      simp only [Prog.writes, Prog.occs, Bool.false_eq_true, if_false, List.mem_append, ihr,
        List.mem_map, Bool.and_false, List.not_mem_nil, or_false]
      constructor
      · intro h; exact Or.inl h
      · rintro (h | ⟨e, _, heq⟩)
        · exact h
        · simp at heq

/-! ### the resize gate -/

theorem cntOf_le_sum : ∀ (t : Nat) (l : List Nat), cntOf t l ≤ l.sum
  | _, [] => by simp [cntOf]
  | 0, c :: r => by simp [cntOf]
  | t+1, c :: r => by
    have := cntOf_le_sum t r
    simp only [cntOf, List.sum_cons]
    omega

theorem sum_incAt : ∀ (t : Nat) (l : List Nat), t < l.length → (incAt t l).sum = l.sum + 1
  | _, [], h => by simp at h
  | 0, c :: r, _ => by simp only [incAt, List.sum_cons]; omega
  | t+1, c :: r, h => by
    have := sum_incAt t r (by simpa using h)
    simp only [incAt, List.sum_cons, this]
    omega

theorem sum_decAt : ∀ (t : Nat) (l : List Nat), 0 < cntOf t l → (decAt t l).sum + 1 = l.sum
  | _, [], h => by simp [cntOf] at h
  | 0, c :: r, h => by
    simp only [cntOf] at h
    simp only [decAt, List.sum_cons]; omega
  | t+1, c :: r, h => by
    have := sum_decAt t r (by simpa [cntOf] using h)
    simp only [decAt, List.sum_cons]
    omega

theorem cntOf_eq_zero_of_sum (t : Nat) (l : List Nat) (h : l.sum = 0) : cntOf t l = 0 := by
  have := cntOf_le_sum t l; omega

/-- the invariant behind `resize_gate_safe` -/
structure GateInv (g : Gate) : Prop where
  /-- the global counter is the sum of the per-thread counters -/
  sum : g.openTxs = g.cnt.sum
  /-- a resize in flight holds both flags -/
  flags : g.phase ≠ .idle → g.resizing = true ∧ g.checking = true
  /-- `env.resize` runs only with no transaction open -/
  quiet : ∀ n, g.phase = .running n → g.openTxs = 0

theorem gateInv_init (threads mapSize : Nat) : GateInv (gateInit threads mapSize) := by
  refine ⟨?_, ?_, ?_⟩
  · simp [gateInit]
  · intro h; simp [gateInit] at h
  · intro n h; simp [gateInit] at h

theorem gateInv_step (g : Gate) (a : GAct) (inv : GateInv g) : GateInv (gateStep g a) := by
  unfold gateStep
  by_cases hen : gateEnabled g a = true
  · simp only [hen, Bool.not_true, Bool.false_eq_true, if_false]
    cases a with
    | enter t =>
      simp only [gateEnabled, Bool.and_eq_true, decide_eq_true_eq, Bool.or_eq_true,
        Bool.not_eq_true'] at hen
      obtain ⟨hlt, hg⟩ := hen
      refine ⟨?_, inv.flags, ?_⟩
      · simp only [sum_incAt t g.cnt hlt, inv.sum]
      · intro n hn
        -- impossible: a running resize has resizing = true and no thread holds a tx
        have h0 := inv.quiet n hn
        have hr := (inv.flags (by rw [hn]; simp)).1
        have hz : cntOf t g.cnt = 0 := cntOf_eq_zero_of_sum t g.cnt (by rw [← inv.sum]; exact h0)
        rcases hg with hg | hg
        · rw [hr] at hg; simp at hg
        · omega
    | exit t =>
      simp only [gateEnabled, decide_eq_true_eq] at hen
      have hs := sum_decAt t g.cnt hen
      refine ⟨?_, inv.flags, ?_⟩
      · have := inv.sum
        simp only
        omega
      · intro n hn
        have := inv.quiet n hn
        simp only
        omega
    | request n =>
      refine ⟨inv.sum, ?_, ?_⟩
      · intro _; exact ⟨rfl, rfl⟩
      · intro m hm; simp at hm
    | beginResize =>
      simp only [gateEnabled, Bool.and_eq_true, beq_iff_eq] at hen
      obtain ⟨hp, h0⟩ := hen
      cases hph : g.phase with
      | idle => rw [hph] at hp; simp at hp
      | running m => rw [hph] at hp; simp at hp
      | pending m =>
        simp only
        have hfl := inv.flags (by rw [hph]; simp)
        refine ⟨inv.sum, ?_, ?_⟩
        · intro _; exact hfl
        · intro n _; exact h0
    | endResize =>
      cases hph : g.phase with
      | idle => exact inv
      | pending m => exact inv
      | running m =>
        simp only
        refine ⟨inv.sum, ?_, ?_⟩
        · intro h; simp at h
        · intro n h; simp at h
  · have : (!gateEnabled g a) = true := by simpa using hen
    simp only [this, if_true]
    exact inv

theorem gateInv_run (as : List GAct) : ∀ g : Gate, GateInv g → GateInv (gateRun g as) := by
  induction as with
  | nil => intro g h; exact h
  | cons a r ih => intro g h; exact ih _ (gateInv_step g a h)

/-! ### `needs_resize` -/

theorem growLoop_ge (used chunk : Nat) : ∀ (fuel tot : Nat), tot ≤ growLoop used chunk fuel tot := by
  intro fuel
  induction fuel with
  | zero => intro tot; simp [growLoop]
  | succ n ih =>
    intro tot
    simp only [growLoop]
    split
    · have := ih (tot + chunk); omega
    · omega

theorem growLoop_target (used chunk : Nat) : ∀ (fuel tot : Nat),
    used * 100 ≤ 65 * (tot + fuel * chunk) → used * 100 ≤ 65 * growLoop used chunk fuel tot := by
  intro fuel
  induction fuel with
  | zero => intro tot h; simpa [growLoop] using h
  | succ n ih =>
    intro tot h
    simp only [growLoop]
    split
    · apply ih
      have : tot + chunk + n * chunk = tot + (n + 1) * chunk := by
        rw [Nat.add_mul]; omega
      rw [this]; exact h
    · omega

end GV.Kv
