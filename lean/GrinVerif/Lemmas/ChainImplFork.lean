import GrinVerif.Lemmas.ChainImplRewind
/-! Congruence of apply / rewind with respect to observable equivalence, and the fork switch. -/
namespace GV.Chain
open TxHS

/-- pairs with the same first components whose second components are a function of the first -/
theorem pairs_eq_of {β : Type} (f : Nat → Option β) : ∀ (l m : List (Nat × β)),
    l.map (·.1) = m.map (·.1) → (∀ x ∈ l, f x.1 = some x.2) → (∀ x ∈ m, f x.1 = some x.2) → l = m := by
  intro l
  induction l with
  | nil => intro m h _ _; cases m with
    | nil => rfl
    | cons y ys => simp at h
  | cons x xs ih =>
    intro m h hl hm
    cases m with
    | nil => simp at h
    | cons y ys =>
      simp only [List.map_cons, List.cons.injEq] at h
      have h1 := hl x (List.mem_cons_self ..)
      have h2 := hm y (List.mem_cons_self ..)
      rw [h.1] at h1
      rw [h1] at h2
      injection h2 with h2
      have : x = y := Prod.ext h.1 h2
      rw [this, ih ys h.2 (fun z hz => hl z (List.mem_cons_of_mem _ hz))
        (fun z hz => hm z (List.mem_cons_of_mem _ hz))]

/-- **apply respects observable equivalence**: on equivalent txhashsets `apply_block` succeeds
alike, leaves equivalent txhashsets and records the same spent index for the block -/
theorem applyBlockImpl_equiv {S T S' : TxHS} {b : Blk} (he : S.Equiv T) (hi : RInv S)
    (hct : cutThroughViolation b = false) (hr : applyBlockImpl S b = .ok S') :
    ∃ T', applyBlockImpl T b = .ok T' ∧ S'.Equiv T' ∧
      T'.getSpentIndex b.id = S'.getSpentIndex b.id := by
  obtain ⟨sp, A⟩ := applyBlockImpl_ok hi hct hr
  have hiT := he.rinv hi
  obtain ⟨T', hT'⟩ := applyBlockImpl_of hiT hct A.insNodup A.outsNodup
    (fun c hc => (he.index c) ▸ A.fresh c hc)
    (fun c hc => by
      rw [← he.index c, ← A.spIns] at *
      obtain ⟨x, hx, hxc⟩ := List.mem_map.mp hc
      rw [← hxc, A.wasUnspent x hx]; rfl)
  obtain ⟨sp', B⟩ := applyBlockImpl_ok hiT hct hT'
  have hsp : sp' = sp := pairs_eq_of T.getOutputPos sp' sp (B.spIns.trans A.spIns.symm) B.wasUnspent
    (fun x hx => (he.index x.1) ▸ A.wasUnspent x hx)
  subst hsp
  have hls : ∀ i, i ∈ S'.leafSet ↔ i ∈ T'.leafSet := by
    intro i
    rw [A.leafSet i, B.leafSet i, he.leafSet i, he.leaves]
  have hlv : S'.leaves = T'.leaves := by rw [A.leaves, B.leaves, he.leaves]
  refine ⟨T', hT', ⟨hlv, hls, ?_⟩, by rw [A.spentHere, B.spentHere]⟩
  intro c
  by_cases hc : c ∈ b.ins
  · rw [A.idxIn c hc, B.idxIn c hc]
  · by_cases ho : c ∈ b.outs.map (·.1)
    · obtain ⟨i, e1, _⟩ := A.idxOut c ho
      obtain ⟨j, e2, _⟩ := B.idxOut c ho
      obtain ⟨a1, a2⟩ := A.rinv.points c _ e1
      obtain ⟨b1, b2⟩ := B.rinv.points c _ e2
      have : i = j := A.rinv.unspent_distinct i j c a1 ((hls j).mpr b1) a2 (hlv ▸ b2)
      rw [e1, e2, this]
    · rw [A.idxOther c hc ho, B.idxOther c hc ho, he.index c]

/-! ### rewind respects observable equivalence -/

theorem foldl_resave_equiv (l : List CommitPos) : ∀ {S T : TxHS}, S.Equiv T →
    (l.foldl resave S).Equiv (l.foldl resave T) := by
  induction l with
  | nil => intro S T h; exact h
  | cons cp l ih =>
    intro S T h
    simp only [List.foldl_cons]
    apply ih
    unfold resave
    rw [h.getData cp.pos]
    cases T.getData cp.pos with
    | none => exact h
    | some c =>
      exact ⟨h.leaves, h.leafSet, fun c' => by
        rw [getOutputPos_save, getOutputPos_save, h.index c']⟩

theorem rewindSingleBlock_equiv {S T : TxHS} (b : Blk) (n : Nat) (he : S.Equiv T)
    (hs : S.getSpentIndex b.id = T.getSpentIndex b.id) :
    (rewindSingleBlock S b n).Equiv (rewindSingleBlock T b n) := by
  rw [rewindSingleBlock_eq, rewindSingleBlock_eq, hs]
  apply foldl_resave_equiv
  obtain ⟨a1, a2, _, a4⟩ := foldl_delete b.outs (rewindMmrs S n ((T.getSpentIndex b.id).getD []))
  obtain ⟨b1, b2, _, b4⟩ := foldl_delete b.outs (rewindMmrs T n ((T.getSpentIndex b.id).getD []))
  refine ⟨?_, ?_, ?_⟩
  · rw [a1, b1]; show S.leaves.take n = T.leaves.take n; rw [he.leaves]
  · intro i
    rw [a2, b2]
    show i ∈ S.leafSet.filter (· < n) ++ _ ↔ i ∈ T.leafSet.filter (· < n) ++ _
    simp only [List.mem_append, List.mem_filter, he.leafSet i]
  · intro c
    rw [a4 c, b4 c]
    show (if _ then none else S.getOutputPos c) = (if _ then none else T.getOutputPos c)
    rw [he.index c]

/-! ### sequences of blocks -/

theorem applyBlocks_append (S : TxHS) (xs ys : List Blk) :
    applyBlocks S (xs ++ ys) =
      match applyBlocks S xs with
      | .error e => .error e
      | .ok S' => applyBlocks S' ys := by
  induction xs generalizing S with
  | nil => rfl
  | cons x xs ih =>
    simp only [List.cons_append, applyBlocks]
    cases applyBlockImpl S x with
    | error e => rfl
    | ok S1 => exact ih S1

theorem rewindBlocks_append (S : TxHS) (xs ys : List (Blk × Nat)) :
    rewindBlocks S (xs ++ ys) = rewindBlocks (rewindBlocks S xs) ys := by
  induction xs generalizing S with
  | nil => rfl
  | cons x xs ih => simp only [List.cons_append, rewindBlocks]; exact ih _

theorem rewindBlocks_spentIdx (S : TxHS) (xs : List (Blk × Nat)) :
    (rewindBlocks S xs).spentIdx = S.spentIdx := by
  induction xs generalizing S with
  | nil => rfl
  | cons x xs ih => simp only [rewindBlocks]; rw [ih, rewindSingleBlock_spentIdx]

/-- applying a branch keeps the invariant, and does not touch the spent index of other blocks -/
theorem applyBlocks_ok (bs : List Blk) : ∀ {S T : TxHS}, RInv S →
    (∀ b ∈ bs, cutThroughViolation b = false) → applyBlocks S bs = .ok T →
    RInv T ∧ ∀ id, id ∉ bs.map (·.id) → T.getSpentIndex id = S.getSpentIndex id := by
  induction bs with
  | nil =>
    intro S T hi _ h
    simp only [applyBlocks] at h
    injection h with h
    subst h
    exact ⟨hi, fun _ _ => rfl⟩
  | cons b bs ih =>
    intro S T hi hct h
    simp only [applyBlocks] at h
    cases h1 : applyBlockImpl S b with
    | error e => simp only [h1] at h; cases h
    | ok S1 =>
      simp only [h1] at h
      obtain ⟨sp, A⟩ := applyBlockImpl_ok hi (hct b (List.mem_cons_self ..)) h1
      obtain ⟨r, s⟩ := ih A.rinv (fun b' hb' => hct b' (List.mem_cons_of_mem _ hb')) h
      refine ⟨r, ?_⟩
      intro id hid
      simp only [List.map_cons, List.mem_cons, not_or] at hid
      rw [s id hid.2, A.spentOther id hid.1]

/-- **rewinding a branch block by block, tip first, leads back to the fork point** (observably),
from any txhashset equivalent to the branch tip that still has the branch's spent index -/
theorem rewindBlocks_applyBlocks (d : List Blk) : ∀ {P S S₁ : TxHS}, RInv P →
    (∀ b ∈ d, cutThroughViolation b = false) → (d.map (·.id)).Nodup →
    applyBlocks P d = .ok S → S₁.Equiv S →
    (∀ b ∈ d, S₁.getSpentIndex b.id = S.getSpentIndex b.id) →
    (rewindBlocks S₁ (withPrevSizes P.leaves.length d).reverse).Equiv P := by
  induction d with
  | nil =>
    intro P S S₁ _ _ _ h he _
    simp only [applyBlocks] at h
    injection h with h
    subst h
    exact he
  | cons b d ih =>
    intro P S S₁ hi hct hnd h he hsp
    simp only [applyBlocks] at h
    cases h1 : applyBlockImpl P b with
    | error e => simp only [h1] at h; cases h
    | ok P1 =>
      simp only [h1] at h
      simp only [List.map_cons, List.nodup_cons] at hnd
      obtain ⟨sp, A⟩ := applyBlockImpl_ok hi (hct b (List.mem_cons_self ..)) h1
      have hct' : ∀ b' ∈ d, cutThroughViolation b' = false :=
        fun b' hb' => hct b' (List.mem_cons_of_mem _ hb')
      have hlen : P1.leaves.length = P.leaves.length + b.outs.length := by
        rw [A.leaves]; simp
      have IH := ih A.rinv hct' hnd.2 h he (fun b' hb' => hsp b' (List.mem_cons_of_mem _ hb'))
      simp only [withPrevSizes, List.reverse_cons, rewindBlocks_append, rewindBlocks]
      rw [← hlen]
      have hspb : (rewindBlocks S₁ (withPrevSizes P1.leaves.length d).reverse).getSpentIndex b.id =
          P1.getSpentIndex b.id := by
        unfold getSpentIndex
        rw [rewindBlocks_spentIdx]
        have := hsp b (List.mem_cons_self ..)
        unfold getSpentIndex at this
        rw [this]
        exact (applyBlocks_ok d A.rinv hct' h).2 b.id hnd.1
      exact (rewindSingleBlock_equiv b P.leaves.length IH hspb).trans (rewind_apply_equiv hi A)

/-- applying a branch respects observable equivalence -/
theorem applyBlocks_equiv (u : List Blk) : ∀ {S T S' : TxHS}, S.Equiv T → RInv S →
    (∀ b ∈ u, cutThroughViolation b = false) → applyBlocks S u = .ok S' →
    ∃ T', applyBlocks T u = .ok T' ∧ S'.Equiv T' := by
  induction u with
  | nil =>
    intro S T S' he _ _ h
    simp only [applyBlocks] at h
    injection h with h
    subst h
    exact ⟨T, rfl, he⟩
  | cons b u ih =>
    intro S T S' he hi hct h
    simp only [applyBlocks] at h
    cases h1 : applyBlockImpl S b with
    | error e => simp only [h1] at h; cases h
    | ok S1 =>
      simp only [h1] at h
      have hcb := hct b (List.mem_cons_self ..)
      obtain ⟨T1, hT1, he1, _⟩ := applyBlockImpl_equiv he hi hcb h1
      obtain ⟨sp, A⟩ := applyBlockImpl_ok hi hcb h1
      obtain ⟨T', hT', he'⟩ := ih he1 A.rinv (fun b' hb' => hct b' (List.mem_cons_of_mem _ hb')) h
      exact ⟨T', by simp only [applyBlocks, hT1, hT'], he'⟩

/-- **fork switch**: from the tip `S` of one branch `d` (any txhashset observably equal to it that
kept the branch's spent index), rewinding to the fork point `P` and applying the other branch `u`
gives — observably — the txhashset `T` of the other branch's own path. -/
theorem fork_switch_equiv {P S S₁ T : TxHS} (d u : List Blk) (hi : RInv P)
    (hctd : ∀ b ∈ d, cutThroughViolation b = false) (hctu : ∀ b ∈ u, cutThroughViolation b = false)
    (hnd : (d.map (·.id)).Nodup)
    (hd : applyBlocks P d = .ok S) (hu : applyBlocks P u = .ok T) (he : S₁.Equiv S)
    (hsp : ∀ b ∈ d, S₁.getSpentIndex b.id = S.getSpentIndex b.id) :
    ∃ T', rewindAndApplyFork S₁ (withPrevSizes P.leaves.length d).reverse u = .ok T' ∧ T'.Equiv T := by
  have hR := rewindBlocks_applyBlocks d hi hctd hnd hd he hsp
  obtain ⟨T', hT', heq⟩ := applyBlocks_equiv u hR.symm hi hctu hu
  exact ⟨T', hT', heq.symm⟩

end GV.Chain

namespace GV.Chain
open TxHS

/-- number of output leaves a list of blocks appends -/
def outsLen (bs : List Blk) : Nat := (bs.map (·.outs.length)).sum

theorem applyBlocks_leaves_length (bs : List Blk) : ∀ {S T : TxHS}, RInv S →
    (∀ b ∈ bs, cutThroughViolation b = false) → applyBlocks S bs = .ok T →
    T.leaves.length = S.leaves.length + outsLen bs := by
  induction bs with
  | nil =>
    intro S T _ _ h
    simp only [applyBlocks] at h
    injection h with h
    subst h
    simp [outsLen]
  | cons b bs ih =>
    intro S T hi hct h
    simp only [applyBlocks] at h
    cases h1 : applyBlockImpl S b with
    | error e => simp only [h1] at h; cases h
    | ok S1 =>
      simp only [h1] at h
      obtain ⟨sp, A⟩ := applyBlockImpl_ok hi (hct b (List.mem_cons_self ..)) h1
      have := ih A.rinv (fun b' hb' => hct b' (List.mem_cons_of_mem _ hb')) h
      rw [this, A.leaves]
      simp [outsLen]
      omega

theorem splitCommon_prefix (pre d u : List Blk) (n : Nat) :
    splitCommon (pre ++ d) (pre ++ u) n = splitCommon d u (n + outsLen pre) := by
  induction pre generalizing n with
  | nil => simp [outsLen]
  | cons a pre ih =>
    simp only [List.cons_append, splitCommon, beq_self_eq_true, if_true]
    rw [ih]
    have : n + a.outs.length + outsLen pre = n + outsLen (a :: pre) := by
      simp only [outsLen, List.map_cons, List.sum_cons]; omega
    rw [this]

theorem splitCommon_diverge (d u : List Blk) (n : Nat)
    (hdiff : ∀ x y, d.head? = some x → u.head? = some y → x.id ≠ y.id) :
    splitCommon d u n = (n, d, u) := by
  cases d with
  | nil => cases u <;> rfl
  | cons x d =>
    cases u with
    | nil => rfl
    | cons y u =>
      have : (x.id == y.id) = false := by simpa using hdiff x y rfl rfl
      simp [splitCommon, this]

/-- `switchTo` on two root-first paths that share the prefix `pre` and then diverge is the fork
switch at the tip of `pre` -/
theorem switchTo_eq {P : TxHS} (S : TxHS) (pre d u : List Blk)
    (hct : ∀ b ∈ pre, cutThroughViolation b = false) (hP : applyBlocks {} pre = .ok P)
    (hdiff : ∀ x y, d.head? = some x → u.head? = some y → x.id ≠ y.id) :
    switchTo S (pre ++ d) (pre ++ u) =
      rewindAndApplyFork S (withPrevSizes P.leaves.length d).reverse u := by
  have hlen := applyBlocks_leaves_length pre RInv.empty hct hP
  unfold switchTo
  rw [splitCommon_prefix, splitCommon_diverge d u _ hdiff]
  simp only [Nat.zero_add]
  rw [hlen]
  simp

end GV.Chain
