import GrinVerif.Model.ConcNode
import GrinVerif.Lemmas.ConcDeadlock
/-! Lemmas for C17 (node level): the order graph of a set of programs, the rank discipline of
`checkFrom` as "every edge of the order graph goes upwards", the acyclicity certificate. -/
namespace GV.Conc
set_option linter.unusedSectionVars false
variable {L : Type} [DecidableEq L]

/-- **The discipline is a property of the order graph.**  A program passes `checkFrom rank` iff it is
well bracketed and every edge it contributes to the order graph goes strictly upwards in `rank`. -/
theorem checkFrom_iff_edges (rank : L → Nat) (p : List (Ev L)) :
    ∀ held, checkFrom rank held p = true ↔
      (bracketedFrom held p = true ∧ ∀ e ∈ edgesFrom held p, rank e.1 < rank e.2) := by
  induction p with
  | nil => intro held; simp [checkFrom, bracketedFrom, edgesFrom]
  | cons ev p ih =>
    intro held
    cases ev with
    | acq l m =>
      simp only [checkFrom, bracketedFrom, edgesFrom, Bool.and_eq_true, List.all_eq_true, decide_eq_true_eq,
        List.mem_append, List.mem_map, ih]
      constructor
      · rintro ⟨h1, h2, h3⟩
        refine ⟨h2, ?_⟩
        rintro e (⟨h, hh, rfl⟩ | he)
        · exact h1 h hh
        · exact h3 e he
      · rintro ⟨h2, h3⟩
        exact ⟨fun h hh => h3 (h.1, l) (Or.inl ⟨h, hh, rfl⟩), h2, fun e he => h3 e (Or.inr he)⟩
    | rel l =>
      simp only [checkFrom, bracketedFrom, edgesFrom, Bool.and_eq_true, ih]
      constructor
      · rintro ⟨h1, h2, h3⟩; exact ⟨⟨h1, h2⟩, h3⟩
      · rintro ⟨⟨h1, h2⟩, h3⟩; exact ⟨h1, h2, h3⟩
    | mark k =>
      simp only [checkFrom, bracketedFrom, edgesFrom, ih]

theorem mem_insertNew {α : Type} [DecidableEq α] (a x : α) (l : List α) :
    x ∈ insertNew a l ↔ x = a ∨ x ∈ l := by
  induction l with
  | nil => simp [insertNew]
  | cons b r ih =>
    simp only [insertNew]
    split
    · rename_i h; subst h; simp
    · simp only [List.mem_cons, ih]
      constructor
      · rintro (h | h | h)
        · exact Or.inr (Or.inl h)
        · exact Or.inl h
        · exact Or.inr (Or.inr h)
      · rintro (h | h | h)
        · exact Or.inr (Or.inl h)
        · exact Or.inl h
        · exact Or.inr (Or.inr h)

theorem mem_dedup {α : Type} [DecidableEq α] (x : α) (l : List α) : x ∈ dedup l ↔ x ∈ l := by
  induction l with
  | nil => simp [dedup]
  | cons a r ih => simp only [dedup, mem_insertNew, ih, List.mem_cons]

theorem mem_foldl_insertNew {α : Type} [DecidableEq α] (x : α) (l : List α) :
    ∀ acc : List α, x ∈ l.foldl (fun a y => insertNew y a) acc ↔ x ∈ acc ∨ x ∈ l := by
  induction l with
  | nil => intro acc; simp
  | cons b r ih =>
    intro acc
    simp only [List.foldl_cons, ih, mem_insertNew, List.mem_cons]
    constructor
    · rintro ((h | h) | h)
      · exact Or.inr (Or.inl h)
      · exact Or.inl h
      · exact Or.inr (Or.inr h)
    · rintro (h | h | h)
      · exact Or.inl (Or.inr h)
      · exact Or.inl (Or.inl h)
      · exact Or.inr h

theorem mem_orderGraph_foldl (tbl : List (String × List (Ev L))) (e : L × L) :
    ∀ acc : List (L × L),
      e ∈ tbl.foldl (fun acc t => (edgesFrom [] t.2).foldl (fun a x => insertNew x a) acc) acc ↔
        e ∈ acc ∨ ∃ t ∈ tbl, e ∈ edgesFrom [] t.2 := by
  induction tbl with
  | nil => intro acc; simp
  | cons t r ih =>
    intro acc
    simp only [List.foldl_cons, ih, mem_foldl_insertNew, List.mem_cons, exists_eq_or_imp]
    constructor
    · rintro ((h | h) | h)
      · exact Or.inl h
      · exact Or.inr (Or.inl h)
      · exact Or.inr (Or.inr h)
    · rintro (h | h | h)
      · exact Or.inl (Or.inl h)
      · exact Or.inl (Or.inr h)
      · exact Or.inr h

/-- the order graph is exactly the set of edges the entries contribute -/
theorem mem_orderGraph (tbl : List (String × List (Ev L))) (e : L × L) :
    e ∈ orderGraph tbl ↔ ∃ t ∈ tbl, e ∈ edgesFrom [] t.2 := by
  simp [orderGraph, mem_orderGraph_foldl]

/-- every edge a table entry contributes is in the table's order graph -/
theorem edge_mem_orderGraph (tbl : List (String × List (Ev L))) (n : String) (p : List (Ev L))
    (hm : (n, p) ∈ tbl) (e : L × L) (he : e ∈ edgesFrom [] p) : e ∈ orderGraph tbl :=
  (mem_orderGraph tbl e).2 ⟨(n, p), hm, he⟩

/-- the certificate is a rank function -/
theorem acyclicB_rank (es : List (L × L)) (h : acyclicB es = true) :
    ∀ e ∈ es, rankOf (computeRank es) e.1 < rankOf (computeRank es) e.2 := by
  simpa [acyclicB] using h

/-- along a path ranks strictly increase -/
theorem path_rank_lt (es : List (L × L)) (rank : L → Nat) (h : ∀ e ∈ es, rank e.1 < rank e.2) :
    ∀ a b, Path es a b → rank a < rank b := by
  intro a b hp
  induction hp with
  | single hab => exact h _ hab
  | cons hab _ ih => exact Nat.lt_trans (h _ hab) ih

/-- a certified graph has no cycle (in particular no self-loop = no re-acquisition of a held lock, no
inversion = no 2-cycle, and no longer cycle through several ops) -/
theorem acyclicB_no_cycle (es : List (L × L)) (h : acyclicB es = true) : ∀ a, ¬ Path es a a := by
  intro a hp
  exact Nat.lt_irrefl _ (path_rank_lt es _ (acyclicB_rank es h) a a hp)

/-- programs whose edges lie in a certified graph pass the rank discipline for the computed ranks -/
theorem checkFrom_of_graph (G : List (L × L)) (hG : acyclicB G = true) (p : List (Ev L))
    (hb : bracketedFrom [] p = true) (hsub : ∀ e ∈ edgesFrom [] p, e ∈ G) :
    checkFrom (rankOf (computeRank G)) [] p = true :=
  (checkFrom_iff_edges _ p []).2 ⟨hb, fun e he => acyclicB_rank G hG e (hsub e he)⟩

theorem wantsW_iff (u : Thread L) (l : L) :
    (match u.prog with | .acq l' .W :: _ => decide (l' = l) | _ => false) = true ↔
      u.prog.head? = some (.acq l .W) := by
  obtain ⟨uprog, uheld⟩ := u
  cases uprog with
  | nil => simp
  | cons e r =>
    cases e with
    | acq l' m' =>
      cases m' with
      | R => simp
      | W => simp
    | rel _ => simp
    | mark _ => simp

theorem enabledG_iff (s : State L) (i : Nat) : enabledG s i = true ↔ Enabled strictWP s i := by
  unfold enabledG Enabled
  cases hs : s[i]? with
  | none => simp
  | some t =>
    obtain ⟨prog, held⟩ := t
    cases prog with
    | nil => simp
    | cons e rest =>
      cases e with
      | acq l m =>
        cases m with
        | R =>
          simp only [Bool.and_eq_true, List.all_eq_true, Bool.not_eq_true', decide_eq_false_iff_not,
            List.any_eq_false, strictWP, not_exists, not_and]
          constructor
          · rintro ⟨h1, h2⟩
            exact ⟨fun u hu hm => h1 u hu _ hm rfl, fun u hu hh => h2 u hu ((wantsW_iff u l).2 hh)⟩
          · rintro ⟨h1, h2⟩
            exact ⟨fun u hu h hh heq => h1 u hu (heq ▸ hh), fun u hu hh => h2 u hu ((wantsW_iff u l).1 hh)⟩
        | W =>
          simp only [List.all_eq_true, Bool.not_eq_true', decide_eq_false_iff_not]
      | rel l => simp
      | mark k => simp

end GV.Conc
