import GrinVerif.Lemmas.SegFupComplete
/-! Views in which a whole subtree was compacted (C16): `compactBelow V n0 h0` takes every position
strictly below the node `(n0, h0)` off both files (the pruned root stays).  It satisfies
`PrunedView` when no leaf below the node is marked; list-level completeness over such sources.
Also: why `PrunedView` has the field `data_compacted` — the record without it (`PrunedViewWeak`)
admits a view that still answers the *data* of a compacted leaf, for which `from_pmmr` fails
(`keepData_fails`, kernel-evaluated on the 4-leaf MMR).  Core Lean only. -/
namespace GV.Seg
open GV GV.Pmmr

variable {α H : Type}

/-! ### ancestors in coordinates -/

theorem up_div_ge (x : Nat) {j h : Nat} (hjh : j ≤ h) : Co.up x j / 2 ^ h = x / 2 ^ h := by
  obtain ⟨d, rfl⟩ := Nat.exists_eq_add_of_le hjh
  rw [Nat.pow_add, ← Nat.div_div_eq_div_mul, ← Nat.div_div_eq_div_mul, Co.up_div]

/-- the level-`h` ancestor of the level-`j` ancestor is the level-`h` ancestor -/
theorem up_up (x : Nat) {j h : Nat} (hjh : j ≤ h) : Co.up (Co.up x j) h = Co.up x h := by
  show Co.up x j / 2 ^ h * 2 ^ h + (2 ^ h - 1) = x / 2 ^ h * 2 ^ h + (2 ^ h - 1)
  rw [up_div_ge x hjh]

/-- the parent of the left child `(n − 2^k, k)` of `(n, k+1)` -/
theorem up_left_child {n k : Nat} (hk : k < trailingOnes n) : Co.up (n - 2 ^ k) (k + 1) = n := by
  obtain ⟨c1, c2, _, c4⟩ := Co.left_sibling_coord hk
  have hb : bitSet (n - 2 ^ k) k = false := by
    rw [Co.bitSet_coord c1, c4]; simp
  rw [Co.up_succ, hb, Co.up_of_valid c1]
  simp only [Bool.false_eq_true, if_false]
  omega

/-- `q` lies strictly below the node `(n0, h0)` -/
def below (n0 h0 q : Nat) : Bool :=
  decide ((peakMapHeight q).2 < h0) && decide (Co.up (peakMapHeight q).1 h0 = n0)

theorem below_co {n0 h0 n h : Nat} (hh : h ≤ trailingOnes n) :
    below n0 h0 (mmr n + h) = true ↔ h < h0 ∧ Co.up n h0 = n0 := by
  simp [below, Co.peakMapHeight_co n h hh]

/-- the three positions around an inner node `(n, k+1)`: one of them lies below `(n0, h0)` iff the
node is `(n0, h0)` or lies below it — and then both children lie below it and the node covers
leaves of `(n0, h0)` only -/
theorem below_family {n0 h0 n k : Nat} (hk : k + 1 ≤ trailingOnes n)
    (h : below n0 h0 (mmr n + (k + 1)) = true ∨ below n0 h0 (mmr (n - 2 ^ k) + k) = true ∨
      below n0 h0 (mmr n + k) = true) :
    below n0 h0 (mmr (n - 2 ^ k) + k) = true ∧ below n0 h0 (mmr n + k) = true ∧
      ∀ j, n + 1 - 2 ^ (k + 1) ≤ j → j ≤ n → n0 + 1 - 2 ^ h0 ≤ j ∧ j ≤ n0 := by
  obtain ⟨c1, _, _, _⟩ := Co.left_sibling_coord (show k < trailingOnes n from hk)
  have hL : ∀ h0', k + 1 ≤ h0' → Co.up (n - 2 ^ k) h0' = Co.up n h0' := by
    intro h0' hle
    rw [← up_up (n - 2 ^ k) hle, up_left_child (show k < trailingOnes n from hk)]
  have key : k + 1 ≤ h0 ∧ Co.up n h0 = n0 := by
    rcases h with h | h | h
    · obtain ⟨h1, h2⟩ := (below_co hk).1 h
      exact ⟨by omega, h2⟩
    · obtain ⟨h1, h2⟩ := (below_co c1).1 h
      exact ⟨h1, by rw [← hL h0 h1]; exact h2⟩
    · obtain ⟨h1, h2⟩ := (below_co (show k ≤ trailingOnes n by omega)).1 h
      exact ⟨h1, h2⟩
  obtain ⟨hle, hup⟩ := key
  refine ⟨(below_co c1).2 ⟨hle, by rw [hL h0 hle]; exact hup⟩,
    (below_co (show k ≤ trailingOnes n by omega)).2 ⟨hle, hup⟩, ?_⟩
  intro j h1 h2
  have hmono := up_leftmost_mono n (h0 - (k + 1)) (k + 1)
  rw [show k + 1 + (h0 - (k + 1)) = h0 by omega, hup, Co.up_of_valid hk] at hmono
  have := Co.le_up n h0
  rw [hup] at this
  exact ⟨by omega, by omega⟩

/-- a peak of the MMR with `N` leaves does not lie strictly below a node of that MMR -/
theorem peak_not_below {N n0 h0 : Nat} (hn0 : n0 < N) (c : Nat × Nat) (hc : c ∈ Co.forest N) :
    below n0 h0 (Co.cpos c) = false := by
  obtain ⟨h1, h2, h3⟩ := Co.forest_mem hc
  cases hb : below n0 h0 (Co.cpos c) with
  | false => rfl
  | true =>
    exfalso
    obtain ⟨hlt, hup⟩ := (below_co (show c.2 ≤ trailingOnes c.1 by omega)).1 hb
    have hbit : bitSet c.1 c.2 = false := by
      rw [Co.bitSet_coord (show c.2 ≤ trailingOnes c.1 by omega)]; simp; omega
    have hs := Co.up_succ c.1 c.2
    rw [hbit, Co.up_of_valid (show c.2 ≤ trailingOnes c.1 by omega)] at hs
    simp only [Bool.false_eq_true, if_false] at hs
    have := Co.up_mono c.1 (show c.2 + 1 ≤ h0 from hlt)
    omega

/-! ### the view after a whole subtree was compacted -/

/-- every position strictly below `(n0, h0)` is gone from the hash file and the data file; the
pruned root `(n0, h0)` stays -/
def compactBelow (V : View α H) (n0 h0 : Nat) : View α H where
  size := V.size
  dataFromFile := fun q => if below n0 h0 q then none else V.dataFromFile q
  fromFile := fun q => if below n0 h0 q then none else V.fromFile q
  hash := fun q => if below n0 h0 q then none else V.hash q

section Views
variable {hf : HashFn α H} {f : Nat → α} {N : Nat}

/-- **a genuinely compacted state**: the whole subtree below `(n0, h0)` compacted, none of its
leaves marked in the bitmap -/
theorem prunedView_compactBelow (V : View α H) (b : Nat → Bool) (hN : N < 2 ^ 32) (n0 h0 : Nat)
    (hn0 : n0 < N) (hun : ∀ j, n0 + 1 - 2 ^ h0 ≤ j → j ≤ n0 → b j = false)
    (hsize : V.size = mmr N)
    (hfile : ∀ q, q < mmr N → V.fromFile q = some (hAt hf f q))
    (hdata : ∀ q, q < mmr N → height q = 0 → V.dataFromFile q = some (dAt f q))
    (hinner : ∀ q, q < mmr N → height q ≠ 0 → V.hash q = V.fromFile q) :
    PrunedView hf f N b (compactBelow V n0 h0) := by
  refine
    { size := hsize, small := hN, file_genuine := ?_, data_genuine := ?_, data_of_file := ?_,
      data_compacted := ?_, hash_inner := ?_, peaks_on_file := ?_, compacted := ?_ }
  · intro q h hq hx
    simp only [compactBelow] at hx
    split at hx
    · cases hx
    · rw [hfile q hq] at hx; injection hx with hx; exact hx.symm
  · intro q d hq hl hx
    simp only [compactBelow] at hx
    split at hx
    · cases hx
    · rw [hdata q hq hl] at hx; injection hx with hx; exact hx.symm
  · intro q hq hl hd
    simp only [compactBelow] at hd ⊢
    split
    · rfl
    · rename_i hc
      rw [if_neg hc, hdata q hq hl] at hd; cases hd
  · intro q hq _ hx
    simp only [compactBelow] at hx ⊢
    split at hx
    · rename_i hc; rw [if_pos hc]
    · rw [hfile q hq] at hx; cases hx
  · intro q hq hh
    simp only [compactBelow]
    split
    · rfl
    · exact hinner q hq hh
  · intro p hp
    have hlt := Co.peaks_lt_size hp
    rw [Co.peaks_forest] at hp
    obtain ⟨c, hc, rfl⟩ := List.mem_map.1 hp
    simp only [compactBelow, peak_not_below hn0 c hc, Bool.false_eq_true, if_false]
    rw [hfile _ hlt]; simp
  · intro n k hk hn hoff
    obtain ⟨h1, h2, h3, _⟩ := Co.left_sibling_coord (show k < trailingOnes n from hk)
    have hp1 := two_pow_succ k
    have hpos : 0 < 2 ^ k := Nat.pow_pos (by omega)
    have l1 : mmr n + (k + 1) < mmr N := (Co.coord_lt_iff hk).2 hn
    have l2 : mmr (n - 2 ^ k) + k < mmr N := (Co.coord_lt_iff h1).2 (by omega)
    have l3 : mmr n + k < mmr N := by omega
    have conv : ∀ q, q < mmr N → (compactBelow V n0 h0).fromFile q = none → below n0 h0 q = true := by
      intro q hq hx
      simp only [compactBelow] at hx
      split at hx
      · assumption
      · rw [hfile q hq] at hx; cases hx
    obtain ⟨b1, b2, b3⟩ := below_family (n0 := n0) (h0 := h0) hk (by
      rcases hoff with h | h | h
      · exact Or.inl (conv _ l1 h)
      · exact Or.inr (Or.inl (conv _ l2 h))
      · exact Or.inr (Or.inr (conv _ l3 h)))
    refine ⟨by simp [compactBelow, b1], by simp [compactBelow, b2], ?_⟩
    intro j hj1 hj2
    obtain ⟨g1, g2⟩ := b3 j hj1 hj2
    exact hun j g1 g2

end Views

/-! ### list level -/

theorem spentView_compactBelow_pruned (hf : HashFn α H) (f : Nat → α) (N : Nat) (b removed : Nat → Bool)
    (hN : N < 2 ^ 32) (n0 h0 : Nat) (hn0 : n0 < N)
    (hun : ∀ j, n0 + 1 - 2 ^ h0 ≤ j → j ≤ n0 → b j = false) :
    PrunedView hf f N b
      (compactBelow (spentView (Co.allHashes hf f N) ((List.range N).map f) removed) n0 h0) := by
  apply prunedView_compactBelow _ b hN n0 h0 hn0 hun (Co.allHashes_length hf f N)
  · intro q hq; exact allHashes_hAt hf f N q hq
  · intro q hq hl; exact vecView_data hf f N q hq hl
  · intro q _ hh
    have : isLeaf q = false := by simp [isLeaf, hh]
    simp [spentView, this]

/-- **on lists, for sources in which a whole subtree was compacted**: leaves spent in any pattern
(`removed`), everything strictly below the node `(n0, h0)` compacted, no leaf below it marked in
the bitmap — every segment of height ≥ 1 that intersects the MMR is generated and validates,
the completely compacted ones (one hash: the first ancestor on file) included -/
theorem complete_pruned_list_subtree (hf : HashFn α H) [DecidableEq H] (xs : List α)
    (b removed : Nat → Bool) (id : Ident) (fit : FitId id xs.length) (hN : xs.length < 2 ^ 32)
    (hg : 1 ≤ id.height) (n0 h0 : Nat) (hn0 : n0 < xs.length)
    (hun : ∀ j, n0 + 1 - 2 ^ h0 ≤ j → j ≤ n0 → b j = false) :
    ∃ s r, fromPmmr hf (compactBelow (spentView (Spec.Mmr.hashes hf xs) xs removed) n0 h0) id true = .ok s ∧
      Spec.Mmr.root hf xs = some r ∧ s.id = id ∧ s.validate hf (mmr xs.length) (some b) r = .ok () ∧
      ∀ hlp other left, s.validateWith hf (mmr xs.length) (some b)
        (if left then hf.node hlp other r else hf.node hlp r other) hlp other left = .ok () := by
  have hne : xs ≠ [] := by
    intro h; have := fit.lo; rw [h] at this; simp at this
  obtain ⟨f, hxs, _⟩ := Co.list_as_fn xs hne
  have hhashes : Spec.Mmr.hashes hf xs = Co.allHashes hf f xs.length := by
    conv => lhs; rw [hxs]
    exact Co.spec_hashes hf f xs.length
  have hroot : Spec.Mmr.root hf xs = rootOf hf f xs.length := by
    conv => lhs; rw [hxs]
    exact Co.spec_root hf f xs.length
  have hv : PrunedView hf f xs.length b
      (compactBelow (spentView (Spec.Mmr.hashes hf xs) xs removed) n0 h0) := by
    rw [hhashes]
    have := spentView_compactBelow_pruned hf f xs.length b removed hN n0 h0 hn0 hun
    rwa [← hxs] at this
  obtain ⟨s, r, h1, h2, h3, h4, h5⟩ := complete_pruned_all hf f xs.length b _ hv id fit hg
  exact ⟨s, r, h1, by rw [hroot]; exact h2, h3, h4, h5⟩

/-! ### why `data_compacted` is a field of `PrunedView` -/

/-- `PrunedView` without its field `data_compacted` -/
structure PrunedViewWeak (hf : HashFn α H) (f : Nat → α) (N : Nat) (b : Nat → Bool) (V : View α H) : Prop where
  size : V.size = mmr N
  small : N < 2 ^ 32
  file_genuine : ∀ q h, q < mmr N → V.fromFile q = some h → h = hAt hf f q
  data_genuine : ∀ q d, q < mmr N → height q = 0 → V.dataFromFile q = some d → d = dAt f q
  data_of_file : ∀ q, q < mmr N → height q = 0 → V.dataFromFile q = none → V.fromFile q = none
  hash_inner : ∀ q, q < mmr N → height q ≠ 0 → V.hash q = V.fromFile q
  peaks_on_file : ∀ p ∈ peaks (mmr N), V.fromFile p ≠ none
  compacted : ∀ n k, k + 1 ≤ trailingOnes n → n < N →
    (V.fromFile (mmr n + (k + 1)) = none ∨ V.fromFile (mmr (n - 2 ^ k) + k) = none ∨
      V.fromFile (mmr n + k) = none) →
    V.fromFile (mmr (n - 2 ^ k) + k) = none ∧ V.fromFile (mmr n + k) = none ∧
      ∀ j, n + 1 - 2 ^ (k + 1) ≤ j → j ≤ n → b j = false

theorem PrunedView.weak {hf : HashFn α H} {f : Nat → α} {N : Nat} {b : Nat → Bool} {V : View α H}
    (pv : PrunedView hf f N b V) : PrunedViewWeak hf f N b V :=
  ⟨pv.size, pv.small, pv.file_genuine, pv.data_genuine, pv.data_of_file, pv.hash_inner,
    pv.peaks_on_file, pv.compacted⟩

/-- the weak record says nothing about the data of a position that is off the hash file: the same
view with the data of every leaf still answered satisfies it too -/
theorem prunedViewWeak_keepData {hf : HashFn α H} {f : Nat → α} {N : Nat} {b : Nat → Bool}
    {V : View α H} (pv : PrunedViewWeak hf f N b V)
    (d : Nat → Option α) (hd : ∀ q, q < mmr N → height q = 0 → d q = some (dAt f q)) :
    PrunedViewWeak hf f N b { V with dataFromFile := d } where
  size := pv.size
  small := pv.small
  file_genuine := pv.file_genuine
  data_genuine := fun q x hq hl hx => by
    rw [show ({ V with dataFromFile := d } : View α H).dataFromFile q = d q from rfl, hd q hq hl] at hx
    injection hx with hx; exact hx.symm
  data_of_file := fun q hq hl hx => by
    rw [show ({ V with dataFromFile := d } : View α H).dataFromFile q = d q from rfl, hd q hq hl] at hx
    cases hx
  hash_inner := pv.hash_inner
  peaks_on_file := pv.peaks_on_file
  compacted := pv.compacted

def isMissingHash {β : Type} : Res β → Nat → Bool
  | .err (.missingHash p), q => p == q
  | _, _ => false

theorem eq_of_isMissingHash {β : Type} (r : Res β) (q : Nat) (h : isMissingHash r q = true) :
    r = .err (.missingHash q) := by
  cases r with
  | ok v => simp [isMissingHash] at h
  | panic => simp [isMissingHash] at h
  | err e =>
    cases e with
    | missingHash p => simp only [isMissingHash, beq_iff_eq] at h; rw [h]
    | missingLeaf p => simp [isMissingHash] at h
    | nonExistent => simp [isMissingHash] at h
    | mismatch => simp [isMissingHash] at h

/-- the 4-leaf MMR (size 7) over free terms, elements 10..13, every leaf spent, the whole tree
below the peak 6 compacted (positions 0..5 off the hash file) — but the data file still answers
every leaf -/
def keepDataView : View Nat (Co.HTerm Nat) :=
  { compactBelow (spentView (Co.allHashes (Co.termHF Nat) (fun i => 10 + i) 4)
      ((List.range 4).map fun i => 10 + i) (fun _ => true)) 3 2 with
    dataFromFile := (vecView (Co.allHashes (Co.termHF Nat) (fun i => 10 + i) 4)
      ((List.range 4).map fun i => 10 + i)).dataFromFile }

/-- **without `data_compacted` completeness fails** (for the model; no store state answers like
this): `keepDataView` satisfies every other field of `PrunedView` with the empty bitmap, the
identifier (height 1, idx 0) fits, and `from_pmmr` finds leaf data in the range, does not take its
"fully pruned segment" branch, asks `get_hash` for the sibling 5 of the segment root 2 and fails
with `MissingHash(5)`. -/
theorem keepData_fails :
    PrunedViewWeak (Co.termHF Nat) (fun i => 10 + i) 4 (fun _ => false) keepDataView ∧
    FitId ⟨1, 0⟩ 4 ∧
    fromPmmr (Co.termHF Nat) keepDataView ⟨1, 0⟩ true = .err (.missingHash 5) := by
  refine ⟨?_, ⟨by decide, by decide, by decide⟩, ?_⟩
  · exact prunedViewWeak_keepData
      (spentView_compactBelow_pruned (Co.termHF Nat) (fun i => 10 + i) 4 (fun _ => false)
        (fun _ => true) (by decide) 3 2 (by decide) (fun _ _ _ => rfl)).weak _
      (fun q hq hl => vecView_data (Co.termHF Nat) (fun i => 10 + i) 4 q hq hl)
  · exact eq_of_isMissingHash _ _ (by decide +kernel)

end GV.Seg
