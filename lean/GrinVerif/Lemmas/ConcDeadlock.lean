import GrinVerif.Model.Conc
/-! Lemmas for C17: invariant preservation, progress (no deadlock), step counting, mutual exclusion
for the lock transition system of `Model/Conc.lean`. Generic in the lock alphabet. -/
namespace GV.Conc
set_option linter.unusedSectionVars false
variable {L : Type} [DecidableEq L]

theorem exists_max {α : Type} (f : α → Nat) : ∀ (l : List α), l ≠ [] → ∃ x ∈ l, ∀ y ∈ l, f y ≤ f x
  | [], h => absurd rfl h
  | [a], _ => ⟨a, by simp, by simp⟩
  | a :: b :: r, _ => by
    obtain ⟨x, hx, hmax⟩ := exists_max f (b :: r) (by simp)
    by_cases hc : f x ≤ f a
    · refine ⟨a, by simp, ?_⟩
      intro y hy
      rcases List.mem_cons.mp hy with rfl | hy
      · exact Nat.le_refl _
      · exact Nat.le_trans (hmax y hy) hc
    · refine ⟨x, List.mem_cons_of_mem _ hx, ?_⟩
      intro y hy
      rcases List.mem_cons.mp hy with rfl | hy
      · omega
      · exact hmax y hy

theorem mem_release {l : L} {held : List (L × Mode)} {h : L × Mode} :
    h ∈ release l held ↔ h ∈ held ∧ h.1 ≠ l := by
  simp [release]

/-- the rank of the lock a thread is about to acquire (0 when it is not about to acquire) -/
def want (rank : L → Nat) (t : Thread L) : Nat :=
  match t.prog with
  | .acq l _ :: _ => rank l
  | _ => 0

/-! ### the invariant is preserved -/

theorem checkFrom_fire (rank : L → Nat) (t : Thread L) :
    checkFrom rank t.held t.prog = true →
    (∀ l m rest, t.prog = .acq l m :: rest → checkFrom rank ((l, m) :: t.held) rest = true) ∧
    (∀ l rest, t.prog = .rel l :: rest → checkFrom rank (release l t.held) rest = true) ∧
    (∀ k rest, t.prog = .mark k :: rest → checkFrom rank t.held rest = true) := by
  intro h
  refine ⟨?_, ?_, ?_⟩
  · intro l m rest e; rw [e] at h; simp only [checkFrom, Bool.and_eq_true] at h; exact h.2
  · intro l rest e; rw [e] at h; simp only [checkFrom, Bool.and_eq_true] at h; exact h.2
  · intro k rest e; rw [e] at h; simpa only [checkFrom] using h

theorem inv_fire (rank : L → Nat) (s : State L) (i : Nat) (hinv : Inv rank s) : Inv rank (fire s i) := by
  unfold fire
  cases hsi : s[i]? with
  | none => simpa using hinv
  | some t =>
    have ht : t ∈ s := List.mem_of_getElem? hsi
    have hc := checkFrom_fire rank t (hinv t ht)
    simp only
    cases hp : t.prog with
    | nil => simpa using hinv
    | cons e rest =>
      cases e with
      | acq l m =>
        simp only
        intro t' ht'
        rcases List.mem_or_eq_of_mem_set ht' with h | h
        · exact hinv t' h
        · subst h; exact hc.1 l m rest hp
      | rel l =>
        simp only
        intro t' ht'
        rcases List.mem_or_eq_of_mem_set ht' with h | h
        · exact hinv t' h
        · subst h; exact hc.2.1 l rest hp
      | mark k =>
        simp only
        intro t' ht'
        rcases List.mem_or_eq_of_mem_set ht' with h | h
        · exact hinv t' h
        · subst h; exact hc.2.2 k rest hp

theorem inv_init (rank : L → Nat) (progs : List (List (Ev L)))
    (h : ∀ p ∈ progs, checkFrom rank [] p = true) : Inv rank (init progs) := by
  intro t ht
  simp only [init, List.mem_map] at ht
  obtain ⟨p, hp, rfl⟩ := ht
  exact h p hp

theorem inv_reach (rank : L → Nat) (P : Policy L) (s0 s : State L) (h0 : Inv rank s0)
    (hr : Reach P s0 s) : Inv rank s := by
  induction hr with
  | refl => exact h0
  | step _ hs ih =>
    obtain ⟨i, _, rfl⟩ := hs
    exact inv_fire rank _ i ih

/-! ### progress -/

/-- a thread that is done holds nothing; a thread about to acquire `l'` holds only lower locks -/
theorem held_lt_of_inv (rank : L → Nat) (t : Thread L) (hc : checkFrom rank t.held t.prog = true) :
    (t.prog = [] → t.held = []) ∧
    (∀ l' m' rest, t.prog = .acq l' m' :: rest → ∀ h ∈ t.held, rank h.1 < rank l') := by
  constructor
  · intro e; rw [e] at hc; simpa [checkFrom] using hc
  · intro l' m' rest e h hh
    rw [e] at hc
    simp only [checkFrom, Bool.and_eq_true, List.all_eq_true, decide_eq_true_eq] at hc
    exact hc.1 h hh

theorem enabled_of_index {P : Policy L} {s : State L} {t : Thread L} (ht : t ∈ s)
    (hE : ∀ i, s[i]? = some t → Enabled P s i) : ∃ i, Enabled P s i := by
  obtain ⟨i, hi, hget⟩ := List.mem_iff_getElem.mp ht
  refine ⟨i, hE i ?_⟩
  simp [hget, hi]

/-- **Progress**: in a state satisfying the invariant, if some thread is unfinished then some thread
is enabled — for every admissible reader-blocking policy. -/
theorem progress (rank : L → Nat) (P : Policy L) (hP : PolicyOK P) (s : State L) (hinv : Inv rank s)
    (hun : ∃ t ∈ s, t.prog ≠ []) : ∃ i, Enabled P s i := by
  -- case A: some thread's next event is a release or a mark
  by_cases hA : ∃ t ∈ s, ∃ e rest, t.prog = e :: rest ∧ (∀ l m, e ≠ .acq l m)
  · obtain ⟨t, ht, e, rest, hp, hne⟩ := hA
    apply enabled_of_index ht
    intro i hi
    unfold Enabled
    rw [hi]
    simp only
    rw [hp]
    cases e with
    | acq l m => exact absurd rfl (hne l m)
    | rel l => trivial
    | mark k => trivial
  -- case B: every unfinished thread is about to acquire
  · have hB : ∀ t ∈ s, t.prog ≠ [] → ∃ l m rest, t.prog = .acq l m :: rest := by
      intro t ht hne
      cases hp : t.prog with
      | nil => exact absurd hp hne
      | cons e rest =>
        cases e with
        | acq l m => exact ⟨l, m, rest, rfl⟩
        | rel l => exact absurd ⟨t, ht, .rel l, rest, hp, by intro _ _ h; cases h⟩ hA
        | mark k => exact absurd ⟨t, ht, .mark k, rest, hp, by intro _ _ h; cases h⟩ hA
    let U := s.filter (fun t => !t.prog.isEmpty)
    have hU : U ≠ [] := by
      obtain ⟨t, ht, hne⟩ := hun
      intro hnil
      have : t ∈ U := by
        simp only [U, List.mem_filter]
        refine ⟨ht, ?_⟩
        cases hp : t.prog with
        | nil => exact absurd hp hne
        | cons _ _ => rfl
      rw [hnil] at this; cases this
    obtain ⟨t, htU, hmax⟩ := exists_max (want rank) U hU
    have hts : t ∈ s := (List.mem_filter.mp htU).1
    have htne : t.prog ≠ [] := by
      have := (List.mem_filter.mp htU).2
      intro e; rw [e] at this; simp at this
    obtain ⟨l, m, rest, hp⟩ := hB t hts htne
    have hwt : want rank t = rank l := by simp [want, hp]
    -- the lock `l` wanted by the maximal thread is held by nobody
    have hfree : ∀ u ∈ s, ∀ h ∈ u.held, h.1 ≠ l := by
      intro u hu h hh heq
      have hcu := held_lt_of_inv rank u (hinv u hu)
      by_cases hue : u.prog = []
      · have := hcu.1 hue
        rw [this] at hh; cases hh
      · obtain ⟨l', m', rest', hp'⟩ := hB u hu hue
        have hlt := hcu.2 l' m' rest' hp' h hh
        have huU : u ∈ U := by
          simp only [U, List.mem_filter]
          exact ⟨hu, by rw [hp']; rfl⟩
        have hle := hmax u huU
        have hwu : want rank u = rank l' := by simp [want, hp']
        rw [hwu, hwt] at hle
        rw [heq] at hlt
        omega
    cases m with
    | W =>
      apply enabled_of_index hts
      intro i hi
      unfold Enabled
      rw [hi]; simp only; rw [hp]
      exact hfree
    | R =>
      by_cases hpol : ∃ i, s[i]? = some t ∧ P s i l
      · -- refused because a writer waits for `l`: that writer is enabled, `l` being free
        obtain ⟨i, _, hPi⟩ := hpol
        obtain ⟨w, hw, hwh⟩ := hP s i l hPi
        obtain ⟨rest', hwp⟩ := List.head?_eq_some_iff.mp hwh
        apply enabled_of_index hw
        intro j hj
        unfold Enabled
        rw [hj]; simp only; rw [hwp]
        exact hfree
      · apply enabled_of_index hts
        intro i hi
        unfold Enabled
        rw [hi]; simp only; rw [hp]
        refine ⟨?_, ?_⟩
        · intro u hu hmem
          exact hfree u hu (l, Mode.W) hmem rfl
        · intro hPi
          exact hpol ⟨i, hi, hPi⟩

/-! ### every step consumes one event -/

theorem remaining_set (s : State L) (i : Nat) (t t' : Thread L) (hsi : s[i]? = some t) :
    remaining (s.set i t') + t.prog.length = remaining s + t'.prog.length := by
  induction s generalizing i with
  | nil => simp at hsi
  | cons a s ih =>
    cases i with
    | zero =>
      simp at hsi; subst hsi
      simp only [List.set_cons_zero, remaining]; omega
    | succ i =>
      simp only [List.getElem?_cons_succ] at hsi
      have := ih i hsi
      simp only [List.set_cons_succ, remaining]; omega

theorem remaining_fire (P : Policy L) (s : State L) (i : Nat) (hE : Enabled P s i) :
    remaining (fire s i) + 1 = remaining s := by
  unfold Enabled at hE
  unfold fire
  cases hsi : s[i]? with
  | none => rw [hsi] at hE; exact hE.elim
  | some t =>
    rw [hsi] at hE
    simp only at hE ⊢
    cases hp : t.prog with
    | nil => rw [hp] at hE; exact hE.elim
    | cons e rest =>
      cases e with
      | acq l m => simp only; have := remaining_set s i t ⟨rest, (l, m) :: t.held⟩ hsi; rw [hp] at this; simp at this; omega
      | rel l => simp only; have := remaining_set s i t ⟨rest, release l t.held⟩ hsi; rw [hp] at this; simp at this; omega
      | mark k => simp only; have := remaining_set s i t ⟨rest, t.held⟩ hsi; rw [hp] at this; simp at this; omega

/-- runs of exactly `n` steps -/
inductive RunN (P : Policy L) : Nat → State L → State L → Prop where
  | zero (s) : RunN P 0 s s
  | succ {n s s' s''} : RunN P n s s' → Step P s' s'' → RunN P (n + 1) s s''

theorem runN_remaining (P : Policy L) {n : Nat} {s s' : State L} (h : RunN P n s s') :
    n + remaining s' = remaining s := by
  induction h with
  | zero => simp
  | succ _ hs ih =>
    obtain ⟨i, hE, rfl⟩ := hs
    have := remaining_fire P _ i hE
    omega

theorem runN_reach (P : Policy L) {n : Nat} {s s' : State L} (h : RunN P n s s') : Reach P s s' := by
  induction h with
  | zero => exact .refl
  | succ _ hs ih => exact .step ih hs

/-! ### the locks really exclude -/

/-- thread `i` write-holds `l` ⇒ no other thread holds `l` in any mode -/
def Excl (s : State L) : Prop :=
  ∀ (i j : Nat) (ti tj : Thread L), s[i]? = some ti → s[j]? = some tj → i ≠ j →
    ∀ l, (l, Mode.W) ∈ ti.held → ∀ m, (l, m) ∉ tj.held

theorem getElem?_set_cases (s : State L) (i j : Nat) (t' tj : Thread L)
    (h : (s.set i t')[j]? = some tj) : (j = i ∧ tj = t') ∨ (j ≠ i ∧ s[j]? = some tj) := by
  by_cases hji : i = j
  · subst hji
    left
    rw [List.getElem?_set_self'] at h
    cases hs : s[i]? with
    | none => simp [hs] at h
    | some x => simp [hs] at h; exact ⟨rfl, h.symm⟩
  · right
    rw [List.getElem?_set_ne hji] at h
    exact ⟨fun e => hji e.symm, h⟩

theorem excl_fire (P : Policy L) (s : State L) (i : Nat) (hx : Excl s) (hE : Enabled P s i) :
    Excl (fire s i) := by
  unfold Enabled at hE
  unfold fire
  cases hsi : s[i]? with
  | none => rw [hsi] at hE; exact hE.elim
  | some t =>
    rw [hsi] at hE
    simp only at hE ⊢
    have htm : t ∈ s := List.mem_of_getElem? hsi
    cases hp : t.prog with
    | nil => rw [hp] at hE; exact hE.elim
    | cons e rest =>
      rw [hp] at hE
      -- generic argument: the new thread record holds `held'`; show exclusion given facts about held'
      have key : ∀ held' : List (L × Mode),
          (∀ l, (l, Mode.W) ∈ held' → (l, Mode.W) ∈ t.held ∨ ∀ u ∈ s, ∀ h ∈ u.held, h.1 ≠ l) →
          (∀ l m, (l, m) ∈ held' → (l, m) ∈ t.held ∨ ∀ u ∈ s, (l, Mode.W) ∉ u.held) →
          Excl (s.set i ⟨rest, held'⟩) := by
        intro held' hW hA a b ta tb ha hb hab l hl m hm
        rcases getElem?_set_cases s i a _ ta ha with ⟨rfl, rfl⟩ | ⟨hai, ha'⟩
        · rcases getElem?_set_cases s a b _ tb hb with ⟨rfl, _⟩ | ⟨_, hb'⟩
          · exact hab rfl
          · have hbm : tb ∈ s := List.mem_of_getElem? hb'
            rcases hW l hl with h | h
            · exact hx a b t tb hsi hb' hab l h m hm
            · exact h tb hbm (l, m) hm rfl
        · rcases getElem?_set_cases s i b _ tb hb with ⟨rfl, rfl⟩ | ⟨_, hb'⟩
          · have ham : ta ∈ s := List.mem_of_getElem? ha'
            rcases hA l m hm with h | h
            · exact hx a b ta t ha' hsi hab l hl m h
            · exact h ta ham hl
          · exact hx a b ta tb ha' hb' hab l hl m hm
      cases e with
      | acq l m =>
        simp only
        cases m with
        | W =>
          simp only at hE
          apply key
          · intro l' hl'
            rcases List.mem_cons.mp hl' with h | h
            · right; injection h with h1 _; subst h1; exact hE
            · left; exact h
          · intro l' m' hl'
            rcases List.mem_cons.mp hl' with h | h
            · right; injection h with h1 _; subst h1
              intro u hu hmem; exact hE u hu _ hmem rfl
            · left; exact h
        | R =>
          simp only at hE
          apply key
          · intro l' hl'
            rcases List.mem_cons.mp hl' with h | h
            · injection h with _ h2; cases h2
            · left; exact h
          · intro l' m' hl'
            rcases List.mem_cons.mp hl' with h | h
            · right; injection h with h1 _; subst h1; exact hE.1
            · left; exact h
      | rel l =>
        simp only
        apply key
        · intro l' hl'; left; exact (mem_release.mp hl').1
        · intro l' m' hl'; left; exact (mem_release.mp hl').1
      | mark k =>
        simp only
        apply key
        · intro l' hl'; left; exact hl'
        · intro l' m' hl'; left; exact hl'

theorem excl_init (progs : List (List (Ev L))) : Excl (init progs) := by
  intro i j ti tj hi _ _ l hl
  have : ti ∈ init progs := List.mem_of_getElem? hi
  simp only [init, List.mem_map] at this
  obtain ⟨p, _, rfl⟩ := this
  cases hl

theorem excl_reach (P : Policy L) (s0 s : State L) (h0 : Excl s0) (hr : Reach P s0 s) : Excl s := by
  induction hr with
  | refl => exact h0
  | step _ hs ih =>
    obtain ⟨i, hE, rfl⟩ := hs
    exact excl_fire P _ i ih hE

/-! ### sequencing ops -/

theorem checkFrom_append (rank : L → Nat) (p q : List (Ev L)) (hq : checkFrom rank [] q = true) :
    ∀ held, checkFrom rank held p = true → checkFrom rank held (p ++ q) = true := by
  induction p with
  | nil =>
    intro held h
    simp only [checkFrom, List.isEmpty_iff] at h
    subst h; simpa using hq
  | cons e p ih =>
    intro held h
    cases e with
    | acq l m =>
      simp only [checkFrom, Bool.and_eq_true, List.cons_append] at h ⊢
      exact ⟨h.1, ih _ h.2⟩
    | rel l =>
      simp only [checkFrom, Bool.and_eq_true, List.cons_append] at h ⊢
      exact ⟨h.1, ih _ h.2⟩
    | mark k =>
      simp only [checkFrom, List.cons_append] at h ⊢
      exact ih _ h

theorem checkFrom_flatten (rank : L → Nat) (ps : List (List (Ev L)))
    (h : ∀ p ∈ ps, checkFrom rank [] p = true) : checkFrom rank [] ps.flatten = true := by
  induction ps with
  | nil => rfl
  | cons p ps ih =>
    simp only [List.flatten_cons]
    exact checkFrom_append rank p _ (ih (fun q hq => h q (List.mem_cons_of_mem _ hq))) [] (h p (by simp))

theorem lookup_mem {α β : Type} [BEq α] [LawfulBEq α] {l : List (α × β)} {a : α} {b : β}
    (h : l.lookup a = some b) : (a, b) ∈ l := by
  induction l with
  | nil => simp [List.lookup] at h
  | cons x l ih =>
    obtain ⟨k, v⟩ := x
    simp only [List.lookup] at h
    split at h
    · rename_i heq
      have : a = k := by simpa using heq
      subst this
      injection h with h; subst h; simp
    · exact List.mem_cons_of_mem _ (ih h)

/-! ### the driver's executable scheduler is the transition system -/

/-- `enabledB` (what the driver's `simulate` / `deadlockReachable` use) decides `Enabled strictWP` -/
theorem enabledB_iff (s : State Lock) (i : Nat) : enabledB s i = true ↔ Enabled strictWP s i := by
  unfold enabledB Enabled
  cases hsi : s[i]? with
  | none => simp
  | some t =>
    simp only
    cases hp : t.prog with
    | nil => simp
    | cons e rest =>
      cases e with
      | acq l m =>
        cases m with
        | R =>
          simp only [Bool.and_eq_true, List.all_eq_true, Bool.not_eq_true', List.any_eq_false, strictWP]
          constructor
          · rintro ⟨h1, h2⟩
            refine ⟨fun u hu => ?_, ?_⟩
            · have := h1 u hu
              simpa using this
            · rintro ⟨u, hu, hh⟩
              have := h2 u hu
              rw [hh] at this
              simp at this
          · rintro ⟨h1, h2⟩
            refine ⟨fun u hu => ?_, fun u hu => ?_⟩
            · have := h1 u hu
              simpa using this
            · intro hh
              apply h2
              exact ⟨u, hu, by simpa using hh⟩
        | W =>
          simp [List.all_eq_true]
      | rel l => simp
      | mark k => simp

/-! ### the model can deadlock when the discipline is broken (non-vacuity) -/

theorem deadlock_example_inversion : ∃ s, Reach (strictWP (L := Lock))
      (init [[.acq .hp .W, .acq .ts .W, .rel .ts, .rel .hp], [.acq .ts .W, .acq .hp .W, .rel .hp, .rel .ts]]) s
    ∧ Deadlocked strictWP s := by
  refine ⟨[⟨[.acq .ts .W, .rel .ts, .rel .hp], [(.hp, .W)]⟩, ⟨[.acq .hp .W, .rel .hp, .rel .ts], [(.ts, .W)]⟩], ?_, ?_⟩
  · refine .step (s := [⟨[.acq .ts .W, .rel .ts, .rel .hp], [(.hp, .W)]⟩, ⟨[.acq .ts .W, .acq .hp .W, .rel .hp, .rel .ts], []⟩])
      (.step .refl ⟨0, ?_, ?_⟩) ⟨1, ?_, ?_⟩
    · simp [Enabled, init]
    · simp [fire, init]
    · simp [Enabled]
    · simp [fire]
  · refine ⟨⟨_, List.mem_cons_self, by simp⟩, ?_⟩
    intro i
    match i with
    | 0 => simp [Enabled]
    | 1 => simp [Enabled]
    | n + 2 => simp [Enabled]

theorem deadlock_example_reentrant_read : ∃ s, Reach (strictWP (L := Lock))
      (init [[.acq .ts .R, .acq .ts .R, .rel .ts], [.mark .callback, .acq .ts .W, .rel .ts]]) s
    ∧ Deadlocked strictWP s := by
  refine ⟨[⟨[.acq .ts .R, .rel .ts], [(.ts, .R)]⟩, ⟨[.acq .ts .W, .rel .ts], []⟩], ?_, ?_⟩
  · refine .step (s := [⟨[.acq .ts .R, .rel .ts], [(.ts, .R)]⟩, ⟨[.mark .callback, .acq .ts .W, .rel .ts], []⟩])
      (.step .refl ⟨0, ?_, ?_⟩) ⟨1, ?_, ?_⟩
    · simp [Enabled, init, strictWP]
    · simp [fire, init]
    · simp [Enabled]
    · simp [fire]
  · refine ⟨⟨_, List.mem_cons_self, by simp⟩, ?_⟩
    intro i
    match i with
    | 0 => simp [Enabled, strictWP]
    | 1 => simp [Enabled]
    | n + 2 => simp [Enabled]

end GV.Conc
