import GrinVerif.Lemmas.ChainOrder
/-! Order independence through the orphan pool: blocks may arrive before their parents
(headers known first). The model's pool has no capacity eviction and no age-out. -/
namespace GV.Chain

theorem pbs_headers_mono (p : Params) (n : Node) (b : Blk) (h : Nat) (hm : h ∈ n.headers) :
    h ∈ (processBlockSingle p n b).1.headers := by
  have key : ∀ n1, processHeader p n b = .ok n1 → h ∈ n1.headers := by
    intro n1 h1
    rcases processHeader_ok_cases p n n1 b h1 with ⟨e, _⟩ | ⟨_, _, e⟩
    · rw [e]; exact hm
    · rw [e]; exact (hdrUpdate_headers_mem n b h).mpr (Or.inl hm)
  rcases processBlockSingle_spec p n b with ⟨e, _, hr⟩ | ⟨n1, h1, hr⟩
  · rw [hr]; exact hm
  · have := key n1 h1
    rcases hr with ⟨e, _, hr⟩ | ⟨_, hr⟩ | ⟨par, _, ⟨e, _, hr⟩ | ⟨s', _, hr⟩⟩
    · rw [hr]; exact this
    · rw [hr]; exact this
    · rw [hr]; exact this
    · rw [hr]
      have e : (storeBlock n1 b).1.headers = n1.headers := by unfold storeBlock; split <;> rfl
      rw [e]; exact this

theorem pbs_pool_mono (p : Params) (n : Node) (b : Blk) (o : Nat) (hm : o ∈ n.orphans) :
    o ∈ (processBlockSingle p n b).1.orphans := by
  rcases processBlockSingle_spec p n b with ⟨e, _, hr⟩ | ⟨n1, h1, hr⟩
  · rw [hr]; exact hm
  · have hf := processHeader_frame p n n1 b h1
    have hm1 : o ∈ n1.orphans := hf.2.2.2.1 ▸ hm
    rcases hr with ⟨e, _, hr⟩ | ⟨_, hr⟩ | ⟨par, _, ⟨e, _, hr⟩ | ⟨s', _, hr⟩⟩
    · rw [hr]; exact hm1
    · rw [hr]; exact (addOrphan_mem n1 b o).mpr (Or.inl hm1)
    · rw [hr]; exact hm1
    · rw [hr]
      have e : (storeBlock n1 b).1.orphans = n1.orphans := by unfold storeBlock; split <;> rfl
      rw [e]; exact hm1

/-- a block passes its own step: header rules and `checkBlock` against its parent's replayed state -/
def ValidStep (p : Params) (n : Node) (b : Blk) (par : Nat) : Prop :=
  n.blk b.id = some b ∧ b.parent = some par ∧ HdrOk p n b ∧ ∃ s', checkBlock p n b par = .ok s'

theorem ValidStep_congr {n m : Node} (ho : n.outs = m.outs) (hb : n.blks = m.blks) (p : Params)
    (b : Blk) (par : Nat) : ValidStep p n b par ↔ ValidStep p m b par := by
  simp only [ValidStep, blk_congr hb, HdrOk_congr hb, checkBlock_congr ho hb]

/-- **a valid step is never dropped**: processing a block that passes its own step and whose
header is known either stores it (parent stored) or keeps it in the orphan pool (parent not
stored) -/
theorem pbs_validStep (p : Params) (n : Node) (b : Blk) (par : Nat) (hi : Inv p n)
    (hv : ValidStep p n b par) (hh : b.id ∈ n.headers) :
    b.id ∈ (processBlockSingle p n b).1.stored ∨
    (b.id ∈ (processBlockSingle p n b).1.orphans ∧ par ∉ (processBlockSingle p n b).1.stored) := by
  obtain ⟨hb, hpar, hok, s', hc⟩ := hv
  by_cases hin : b.id ∈ n.stored
  · exact Or.inl (pbs_stored_mono p n b b.id hin)
  · have hk := not_knownFull n b hi.2.closed hin
    have hph : par ∈ n.headers := by
      rcases hi.2.hdr.valid b.id hh with h0 | ⟨b', par', hb', _, hp', hm'⟩
      · exact absurd (h0 ▸ hi.2.closed.zero) hin
      · rw [hb] at hb'; cases hb'
        rw [hpar] at hp'; cases hp'
        exact hm'
    by_cases hps : par ∈ n.stored
    · obtain ⟨n1, _, hr⟩ := processBlockSingle_stores p n b par s' hk hpar hps hph hok hc
      left
      rw [hr, storeBlock_stored]; simp
    · have hne : par ≠ n.head := fun h => hps (h ▸ hi.2.closed.head)
      obtain ⟨n1, h1, hr⟩ := processBlockSingle_pools p n b par hk hpar hps hne hph hok
      have hf := processHeader_frame p n n1 b h1
      right
      rw [hr]
      refine ⟨(addOrphan_mem n1 b b.id).mpr (Or.inr rfl), ?_⟩
      show par ∉ (addOrphan n1 b).stored
      unfold addOrphan
      simp only
      rw [hf.2.1]; exact hps

end GV.Chain
