import GrinVerif.Lemmas.ChainOrder
/-! Order independence through the orphan pool: blocks may arrive before their parents
(headers known first). The model's pool has no capacity eviction and no age-out. -/
namespace GV.Chain

theorem pbs_headers_mono (p : Params) (n : Node) (b : Blk) (h : Nat) (hm : h ∈ n.headers) :
    h ∈ (processBlockSingle p n b).1.headers := by
  have key : ∀ n1, processHeader p n b = .ok n1 → h ∈ n1.headers := by
    intro n1 h1
    rcases processHeader_ok_cases p n n1 b h1 with ⟨e, _⟩ | ⟨_, _, e⟩
    · rw [e]; exact hm
    · rw [e]; exact (hdrUpdate_headers_mem n b h).mpr (Or.inl hm)
  rcases processBlockSingle_spec p n b with ⟨e, _, hr⟩ | ⟨n1, h1, hr⟩
  · rw [hr]; exact hm
  · have := key n1 h1
    rcases hr with ⟨e, _, hr⟩ | ⟨_, hr⟩ | ⟨par, _, ⟨e, _, hr⟩ | ⟨s', _, hr⟩⟩
    · rw [hr]; exact this
    · rw [hr]; exact this
    · rw [hr]; exact this
    · rw [hr]
      have e : (storeBlock n1 b).1.headers = n1.headers := by unfold storeBlock; split <;> rfl
      rw [e]; exact this

theorem pbs_pool_mono (p : Params) (n : Node) (b : Blk) (o : Nat) (hm : o ∈ n.orphans) :
    o ∈ (processBlockSingle p n b).1.orphans := by
  rcases processBlockSingle_spec p n b with ⟨e, _, hr⟩ | ⟨n1, h1, hr⟩
  · rw [hr]; exact hm
  · have hf := processHeader_frame p n n1 b h1
    have hm1 : o ∈ n1.orphans := hf.2.2.2.1 ▸ hm
    rcases hr with ⟨e, _, hr⟩ | ⟨_, hr⟩ | ⟨par, _, ⟨e, _, hr⟩ | ⟨s', _, hr⟩⟩
    · rw [hr]; exact hm1
    · rw [hr]; exact (addOrphan_mem n1 b o).mpr (Or.inl hm1)
    · rw [hr]; exact hm1
    · rw [hr]
      have e : (storeBlock n1 b).1.orphans = n1.orphans := by unfold storeBlock; split <;> rfl
      rw [e]; exact hm1

/-- a block passes its own step: header rules and `checkBlock` against its parent's replayed state -/
def ValidStep (p : Params) (n : Node) (b : Blk) (par : Nat) : Prop :=
  n.blk b.id = some b ∧ b.parent = some par ∧ HdrOk p n b ∧ ∃ s', checkBlock p n b par = .ok s'

theorem ValidStep_congr {n m : Node} (ho : n.outs = m.outs) (hb : n.blks = m.blks) (p : Params)
    (b : Blk) (par : Nat) : ValidStep p n b par ↔ ValidStep p m b par := by
  simp only [ValidStep, blk_congr hb, HdrOk_congr hb, checkBlock_congr ho hb]

/-- **a valid step is never dropped**: processing a block that passes its own step and whose
header is known either stores it (parent stored) or keeps it in the orphan pool (parent not
stored) -/
theorem pbs_validStep (p : Params) (n : Node) (b : Blk) (par : Nat) (hi : Inv p n)
    (hv : ValidStep p n b par) (hh : b.id ∈ n.headers) :
    b.id ∈ (processBlockSingle p n b).1.stored ∨
    (b.id ∈ (processBlockSingle p n b).1.orphans ∧ par ∉ (processBlockSingle p n b).1.stored) := by
  obtain ⟨hb, hpar, hok, s', hc⟩ := hv
  by_cases hin : b.id ∈ n.stored
  · exact Or.inl (pbs_stored_mono p n b b.id hin)
  · have hk := not_knownFull n b hi.2.closed hin
    have hph : par ∈ n.headers := by
      rcases hi.2.hdr.valid b.id hh with h0 | ⟨b', par', hb', _, hp', hm'⟩
      · exact absurd (h0 ▸ hi.2.closed.zero) hin
      · rw [hb] at hb'; cases hb'
        rw [hpar] at hp'; cases hp'
        exact hm'
    by_cases hps : par ∈ n.stored
    · obtain ⟨n1, _, hr⟩ := processBlockSingle_stores p n b par s' hk hpar hps hph hok hc
      left
      rw [hr, storeBlock_stored]; simp
    · have hne : par ≠ n.head := fun h => hps (h ▸ hi.2.closed.head)
      obtain ⟨n1, h1, hr⟩ := processBlockSingle_pools p n b par hk hpar hps hne hph hok
      have hf := processHeader_frame p n n1 b h1
      right
      rw [hr]
      refine ⟨(addOrphan_mem n1 b b.id).mpr (Or.inr rfl), ?_⟩
      show par ∉ (addOrphan n1 b).stored
      unfold addOrphan
      simp only
      rw [hf.2.1]; exact hps


/-- *reachable within `D`*: the block and all its ancestors down to the genesis pass their own
step and have been delivered -/
inductive Reach (p : Params) (N : Node) (D : List Nat) : Nat → Prop
  | genesis : Reach p N D 0
  | child (b : Blk) (par : Nat) : ValidStep p N b par → Reach p N D par → b.id ∈ D → Reach p N D b.id

theorem Reach.mono {p : Params} {N : Node} {D D' : List Nat} (hsub : ∀ d ∈ D, d ∈ D') {id : Nat}
    (h : Reach p N D id) : Reach p N D' id := by
  induction h with
  | genesis => exact .genesis
  | child b par hv _ hd ih => exact .child b par hv ih (hsub _ hd)

theorem Reach.vop {p : Params} {N : Node} {D : List Nat} {id : Nat} (h : Reach p N D id) :
    VOP p N id := by
  induction h with
  | genesis => exact .genesis
  | child b par hv _ _ ih =>
    obtain ⟨hb, hpar, hok, s', hc⟩ := hv
    exact .child b par s' hb hpar ih hok hc

/-- the standing facts about a node `n` during a history over the definitions of `N` with
delivered ids `D`: same definitions, all node invariants, pool ⊆ delivered, delivered headers
known, stored blocks reachable within `D` -/
structure Ctx (p : Params) (N n : Node) (D : List Nat) : Prop where
  blks : n.blks = N.blks
  outs : n.outs = N.outs
  inv : Inv p n
  pool : ∀ o ∈ n.orphans, o ∈ D
  hdrs : ∀ d ∈ D, d ∈ n.headers
  sound : ∀ s ∈ n.stored, Reach p N D s

theorem Ctx.single {p : Params} {N n : Node} {D : List Nat} (hc : Ctx p N n D) (b : Blk)
    (hb : n.blk b.id = some b) (hd : b.id ∈ D) : Ctx p N (processBlockSingle p n b).1 D := by
  have hdf := processBlockSingle_defs p n b
  have hi' := (preserved_inv p).single n b hb hc.inv
  refine ⟨hdf.1.trans hc.blks, hdf.2.trans hc.outs, hi', ?_, ?_, ?_⟩
  · intro o ho
    rcases pbs_orphans_sub p n b o ho with h | h
    · exact hc.pool o h
    · exact h ▸ hd
  · intro d hd'
    exact pbs_headers_mono p n b d (hc.hdrs d hd')
  · intro s hs
    rcases pbs_stored_sub p n b s hs with h | h
    · exact hc.sound s h
    · subst h
      by_cases h0 : b.id = 0
      · rw [h0]; exact .genesis
      · have hbN : N.blk b.id = some b := by rw [← blk_congr hc.blks]; exact hb
        have hv : VOP p N b.id :=
          (VOP_congr (hdf.2.trans hc.outs) (hdf.1.trans hc.blks) p b.id).mp (hi'.2.valid b.id hs)
        obtain ⟨par, s', hpar, _, hok, hck⟩ := hv.inv hbN h0
        have hps : par ∈ n.stored := by
          by_cases hin : b.id ∈ n.stored
          · exact hc.inv.2.closed.parent b.id hin b par hb hpar
          · rcases processBlockSingle_core p n b with ⟨_, hst, _⟩ | ⟨par', _, hpar', hp, _, _, _, _⟩
            · rw [hst] at hs; exact absurd hs hin
            · rw [hpar] at hpar'; cases hpar'
              rcases hp with h | h
              · exact h ▸ hc.inv.2.closed.head
              · exact h
        exact .child b par ⟨hbN, hpar, hok, s', hck⟩ (hc.sound par hps) hd

theorem Ctx.shrink {p : Params} {N n : Node} {D : List Nat} (hc : Ctx p N n D) (os : List Nat)
    (hsub : ∀ o ∈ os, o ∈ n.orphans) : Ctx p N { n with orphans := os } D :=
  ⟨hc.blks, hc.outs, (preserved_inv p).orphans n os hc.inv, fun o ho => hc.pool o (hsub o ho),
    hc.hdrs, hc.sound⟩

/-- the number of stored blocks is bounded by the number of definitions (plus the genesis) -/
theorem Ctx.stored_le {p : Params} {N n : Node} {D : List Nat} (hc : Ctx p N n D) :
    n.stored.length ≤ n.blks.length + 1 := by
  have hsub : n.stored ⊆ 0 :: n.blks.map (·.id) := by
    intro s hs
    have hr := hc.sound s hs
    cases hr with
    | genesis => exact List.mem_cons_self ..
    | child b par hv _ _ =>
      have := blk_mem hv.1
      rw [← hc.blks] at this
      exact List.mem_cons_of_mem _ (List.mem_map.mpr ⟨b, this, rfl⟩)
  have := hc.inv.2.nodup.length_le_of_subset hsub
  simpa using this

/-- every delivered block that passes its own step is stored, or waits in the pool — and then its
parent is not stored, unless the exception `X` applies (a round of `checkOrphans` is due) -/
def Pending (p : Params) (N n : Node) (D : List Nat) (X : Blk → Prop) : Prop :=
  ∀ c par, ValidStep p N c par → c.id ∈ D →
    c.id ∈ n.stored ∨ (c.id ∈ n.orphans ∧ (par ∉ n.stored ∨ X c))

theorem orphanStep_none {p : Params} {acc : Node × Option Nat} {o : Nat}
    (h : acc.1.blk o = none) : orphanStep p acc o = acc := by
  unfold orphanStep; rw [h]

theorem orphanStep_some {p : Params} {acc : Node × Option Nat} {o : Nat} {b : Blk}
    (h : acc.1.blk o = some b) :
    orphanStep p acc o = ((processBlockSingle p acc.1 b).1,
      match (processBlockSingle p acc.1 b).2 with
      | .err _ => acc.2
      | _ => some b.h) := by
  unfold orphanStep; rw [h]
  simp only
  generalize processBlockSingle p acc.1 b = x
  obtain ⟨m, r⟩ := x
  cases r <;> rfl

/-- the invariant of the loop over the orphans of one height `h` -/
structure FoldInv (p : Params) (N : Node) (D : List Nat) (h L0 : Nat) (l : List Nat)
    (acc : Node × Option Nat) : Prop where
  ctx : Ctx p N acc.1 D
  pend : ∀ c par, ValidStep p N c par → c.id ∈ D →
    c.id ∈ acc.1.stored ∨
    (c.id ∈ acc.1.orphans ∧ (par ∉ acc.1.stored ∨ (acc.2 ≠ none ∧ c.h = h + 1))) ∨ c.id ∈ l
  acc2 : ∀ x, acc.2 = some x → x = h
  len : L0 ≤ acc.1.stored.length ∧ (acc.2 ≠ none → L0 < acc.1.stored.length)
  heights : ∀ o ∈ l, N.heightOf o = h
  inD : ∀ o ∈ l, o ∈ D

theorem FoldInv.step {p : Params} {N : Node} {D : List Nat} {h L0 : Nat} {o : Nat} {l : List Nat}
    {acc : Node × Option Nat} (hf : FoldInv p N D h L0 (o :: l) acc) :
    FoldInv p N D h L0 l (orphanStep p acc o) := by
  have hho := hf.heights o (List.mem_cons_self ..)
  have hhl : ∀ o' ∈ l, N.heightOf o' = h := fun o' ho' => hf.heights o' (List.mem_cons_of_mem _ ho')
  have hdl : ∀ o' ∈ l, o' ∈ D := fun o' ho' => hf.inD o' (List.mem_cons_of_mem _ ho')
  cases hbo : acc.1.blk o with
  | none =>
    rw [orphanStep_none hbo]
    refine ⟨hf.ctx, ?_, hf.acc2, hf.len, hhl, hdl⟩
    intro c par hv hd
    rcases hf.pend c par hv hd with h1 | h1 | h1
    · exact Or.inl h1
    · exact Or.inr (Or.inl h1)
    · rcases List.mem_cons.mp h1 with h2 | h2
      · exfalso
        have : acc.1.blk c.id = some c := by rw [blk_congr hf.ctx.blks]; exact hv.1
        rw [h2, hbo] at this; cases this
      · exact Or.inr (Or.inr h2)
  | some b =>
    rw [orphanStep_some hbo]
    have hid : b.id = o := blk_id hbo
    have hb : acc.1.blk b.id = some b := by rw [hid]; exact hbo
    have hbN : N.blk b.id = some b := by rw [← blk_congr hf.ctx.blks]; exact hb
    have hbh : b.h = h := by
      have : N.heightOf o = b.h := by simp [Node.heightOf, ← hid, hbN]
      rw [← this]; exact hho
    have hdo : b.id ∈ D := hid ▸ hf.inD o (List.mem_cons_self ..)
    have hctx' := hf.ctx.single b hb hdo
    -- the two outcomes of the step
    have hcore : ((processBlockSingle p acc.1 b).1.stored = acc.1.stored ∧
          ∃ e, (processBlockSingle p acc.1 b).2 = .err e) ∨
        ((processBlockSingle p acc.1 b).1.stored = acc.1.stored ++ [b.id] ∧
          ((processBlockSingle p acc.1 b).2 = .okFork ∨ (processBlockSingle p acc.1 b).2 = .okHead)) := by
      rcases processBlockSingle_core p acc.1 b with ⟨_, hst, he⟩ | ⟨_, _, _, _, _, _, hst, hd⟩
      · exact Or.inl ⟨hst, he⟩
      · right
        refine ⟨hst, ?_⟩
        rcases hd with ⟨_, _, r⟩ | ⟨_, _, r⟩
        · exact Or.inl r
        · exact Or.inr r
    refine ⟨hctx', ?_, ?_, ?_, hhl, hdl⟩
    · intro c par hv hd
      by_cases hcb : c.id = b.id
      · have hcb' : c = b := by
          have := hv.1; rw [hcb, hbN] at this; exact (Option.some.inj this).symm
        subst hcb'
        have hv' : ValidStep p acc.1 c par := (ValidStep_congr hf.ctx.outs hf.ctx.blks p c par).mpr hv
        rcases pbs_validStep p acc.1 c par hf.ctx.inv hv' (hf.ctx.hdrs c.id hd) with h1 | ⟨h1, h2⟩
        · exact Or.inl h1
        · exact Or.inr (Or.inl ⟨h1, Or.inl h2⟩)
      · rcases hf.pend c par hv hd with h1 | ⟨h1, h2⟩ | h1
        · exact Or.inl (pbs_stored_mono p acc.1 b c.id h1)
        · refine Or.inr (Or.inl ⟨pbs_pool_mono p acc.1 b c.id h1, ?_⟩)
          rcases h2 with h2 | ⟨h2, h3⟩
          · by_cases hps : par ∈ (processBlockSingle p acc.1 b).1.stored
            · right
              rcases pbs_stored_sub p acc.1 b par hps with h4 | h4
              · exact absurd h4 h2
              · -- the parent is the block just stored
                rcases hcore with ⟨hst, _⟩ | ⟨_, hr⟩
                · rw [hst] at hps; exact absurd hps h2
                · constructor
                  · rcases hr with hr | hr <;> rw [hr] <;> simp
                  · obtain ⟨_, hcp, hok, _⟩ := hv
                    obtain ⟨par', pb, hp', hpb, hh, _⟩ := hok
                    rw [hcp] at hp'; cases hp'
                    rw [h4, hbN] at hpb; cases hpb
                    rw [hh, hbh]
            · exact Or.inl hps
          · right
            refine ⟨?_, h3⟩
            rcases hcore with ⟨_, e, he⟩ | ⟨_, hr⟩
            · rw [he]; exact h2
            · rcases hr with hr | hr <;> rw [hr] <;> simp
        · rcases List.mem_cons.mp h1 with h2 | h2
          · exact absurd (h2.trans hid.symm) hcb
          · exact Or.inr (Or.inr h2)
    · intro x hx
      rcases hcore with ⟨_, e, he⟩ | ⟨_, hr⟩
      · rw [he] at hx; exact hf.acc2 x hx
      · rcases hr with hr | hr <;> rw [hr] at hx <;> simp at hx <;> omega
    · rcases hcore with ⟨hst, e, he⟩ | ⟨hst, hr⟩
      · rw [hst, he]; exact hf.len
      · rw [hst]
        simp only [List.length_append, List.length_singleton]
        exact ⟨by have := hf.len.1; omega, fun _ => by have := hf.len.1; omega⟩

theorem FoldInv.fold {p : Params} {N : Node} {D : List Nat} {h L0 : Nat} (l : List Nat) :
    ∀ {acc : Node × Option Nat}, FoldInv p N D h L0 l acc →
      FoldInv p N D h L0 [] (l.foldl (orphanStep p) acc) := by
  induction l with
  | nil => intro acc hf; exact hf
  | cons o l ih => intro acc hf; exact ih hf.step


/-- one round of `checkOrphans`: the loop over the pooled blocks of one height -/
def orphanRound (p : Params) (n : Node) (height : Nat) : Node × Option Nat :=
  (n.orphans.filter (fun o => n.heightOf o == height)).foldl (orphanStep p)
    ({ n with orphans := n.orphans.filter (fun o => !(n.heightOf o == height)) }, none)

theorem checkOrphans_round (p : Params) (fuel : Nat) (n : Node) (height : Nat) :
    checkOrphans p (fuel + 1) n height =
      if (n.orphans.filter (fun o => n.heightOf o == height)).isEmpty then n else
      match (orphanRound p n height).2 with
      | some hAcc => checkOrphans p fuel (orphanRound p n height).1 (hAcc + 1)
      | none => (orphanRound p n height).1 := by
  rw [checkOrphans_succ]; rfl

theorem orphanRound_inv {p : Params} {N n : Node} {D : List Nat} {h : Nat} (hc : Ctx p N n D)
    (hp : Pending p N n D (fun c => c.h = h)) :
    FoldInv p N D h n.stored.length [] (orphanRound p n h) := by
  unfold orphanRound
  apply FoldInv.fold
  refine ⟨hc.shrink _ (fun o ho => (List.mem_filter.mp ho).1), ?_, fun x hx => (by cases hx),
    ⟨Nat.le_refl _, fun hne => absurd rfl hne⟩, ?_, ?_⟩
  · intro c par hv hd
    have hreg : n.heightOf c.id = c.h := by
      have : n.blk c.id = some c := by rw [blk_congr hc.blks]; exact hv.1
      simp [Node.heightOf, this]
    rcases hp c par hv hd with h1 | ⟨h1, h2⟩
    · exact Or.inl h1
    · by_cases hh : c.h = h
      · right; right
        exact List.mem_filter.mpr ⟨h1, by simp [hreg, hh]⟩
      · right; left
        refine ⟨List.mem_filter.mpr ⟨h1, by simp [hreg, hh]⟩, Or.inl ?_⟩
        rcases h2 with h2 | h2
        · exact h2
        · exact absurd h2 hh
  · intro o ho
    have := (List.mem_filter.mp ho).2
    rw [← heightOf_congr hc.blks]
    simpa using this
  · intro o ho
    exact hc.pool o (List.mem_filter.mp ho).1

/-- **`checkOrphans` settles the pool**: started at the height where pooled blocks with a stored
parent may wait, with enough fuel, it ends with every delivered block that passes its own step
either stored or pooled under a parent that is not stored -/
theorem checkOrphans_quiescent (p : Params) (N : Node) (D : List Nat) (fuel : Nat) :
    ∀ (n : Node) (h : Nat), Ctx p N n D → Pending p N n D (fun c => c.h = h) →
      n.blks.length + 2 ≤ fuel + n.stored.length →
      Ctx p N (checkOrphans p fuel n h) D ∧ Pending p N (checkOrphans p fuel n h) D (fun _ => False) := by
  induction fuel with
  | zero =>
    intro n h hc _ hfuel
    have := hc.stored_le
    omega
  | succ k ih =>
    intro n h hc hp hfuel
    rw [checkOrphans_round]
    split
    · rename_i hemp
      refine ⟨hc, ?_⟩
      intro c par hv hd
      rcases hp c par hv hd with h1 | ⟨h1, h2⟩
      · exact Or.inl h1
      · rcases h2 with h2 | h2
        · exact Or.inr ⟨h1, Or.inl h2⟩
        · exfalso
          have hreg : n.heightOf c.id = c.h := by
            have : n.blk c.id = some c := by rw [blk_congr hc.blks]; exact hv.1
            simp [Node.heightOf, this]
          have : c.id ∈ n.orphans.filter (fun o => n.heightOf o == h) :=
            List.mem_filter.mpr ⟨h1, by simp [hreg, h2]⟩
          rw [List.isEmpty_iff.mp hemp] at this
          cases this
    · have F := orphanRound_inv hc hp
      cases hst : (orphanRound p n h).2 with
      | none =>
        simp only
        refine ⟨F.ctx, ?_⟩
        intro c par hv hd
        rcases F.pend c par hv hd with h1 | ⟨h1, h2⟩ | h1
        · exact Or.inl h1
        · rcases h2 with h2 | ⟨h2, _⟩
          · exact Or.inr ⟨h1, Or.inl h2⟩
          · exact absurd hst h2
        · cases h1
      | some hAcc =>
        simp only
        have hh : hAcc = h := F.acc2 hAcc hst
        subst hh
        apply ih _ _ F.ctx
        · intro c par hv hd
          rcases F.pend c par hv hd with h1 | ⟨h1, h2⟩ | h1
          · exact Or.inl h1
          · rcases h2 with h2 | ⟨_, h2⟩
            · exact Or.inr ⟨h1, Or.inl h2⟩
            · exact Or.inr ⟨h1, Or.inr h2⟩
          · cases h1
        · have hl := F.len.2 (by rw [hst]; simp)
          have hb : (orphanRound p n hAcc).1.blks.length = n.blks.length := by
            rw [F.ctx.blks, hc.blks]
          omega


theorem Ctx.grow {p : Params} {N n : Node} {D : List Nat} (hc : Ctx p N n D) (d : Nat)
    (hh : d ∈ n.headers) : Ctx p N n (d :: D) :=
  ⟨hc.blks, hc.outs, hc.inv, fun o ho => List.mem_cons_of_mem _ (hc.pool o ho),
   fun x hx => by
     rcases List.mem_cons.mp hx with h | h
     · exact h ▸ hh
     · exact hc.hdrs x h,
   fun s hs => (hc.sound s hs).mono (fun x hx => List.mem_cons_of_mem _ hx)⟩

/-- **one block delivery keeps the node quiescent** (with respect to the delivered set extended by
the block), provided the block's header is known -/
theorem deliverBlock_quiescent {p : Params} {N n : Node} {D : List Nat} (b : Blk)
    (hc : Ctx p N n D) (hq : Pending p N n D (fun _ => False)) (hb : n.blk b.id = some b)
    (hh : b.id ∈ n.headers) :
    Ctx p N (deliverBlock p n b).1 (b.id :: D) ∧
    Pending p N (deliverBlock p n b).1 (b.id :: D) (fun _ => False) := by
  have hbN : N.blk b.id = some b := by rw [← blk_congr hc.blks]; exact hb
  have F0 : FoldInv p N (b.id :: D) b.h n.stored.length [b.id] (n, none) := by
    refine ⟨hc.grow b.id hh, ?_, fun x hx => (by cases hx),
      ⟨Nat.le_refl _, fun hne => absurd rfl hne⟩, ?_, ?_⟩
    · intro c par hv hd
      rcases List.mem_cons.mp hd with h | h
      · right; right; rw [h]; exact List.mem_cons_self ..
      · rcases hq c par hv h with h1 | ⟨h1, h2⟩
        · exact Or.inl h1
        · rcases h2 with h2 | h2
          · exact Or.inr (Or.inl ⟨h1, Or.inl h2⟩)
          · exact absurd h2 id
    · intro o ho
      have : o = b.id := by simpa using ho
      subst this
      simp [Node.heightOf, hbN]
    · intro o ho
      have : o = b.id := by simpa using ho
      subst this
      exact List.mem_cons_self ..
  have F := F0.step
  rw [orphanStep_some (acc := (n, none)) hb] at F
  unfold deliverBlock
  cases hr : processBlockSingle p n b with
  | mk n1 r =>
    rw [hr] at F
    have hctx : Ctx p N n1 (b.id :: D) := F.ctx
    cases r with
    | err e =>
      simp only
      refine ⟨hctx, ?_⟩
      intro c par hv hd
      rcases F.pend c par hv hd with h1 | ⟨h1, h2⟩ | h1
      · exact Or.inl h1
      · rcases h2 with h2 | ⟨h2, _⟩
        · exact Or.inr ⟨h1, Or.inl h2⟩
        · exact absurd rfl h2
      · cases h1
    | okHead =>
      simp only
      apply checkOrphans_quiescent p N (b.id :: D) _ n1 (b.h + 1) hctx
      · intro c par hv hd
        rcases F.pend c par hv hd with h1 | ⟨h1, h2⟩ | h1
        · exact Or.inl h1
        · rcases h2 with h2 | ⟨_, h2⟩
          · exact Or.inr ⟨h1, Or.inl h2⟩
          · exact Or.inr ⟨h1, Or.inr h2⟩
        · cases h1
      · omega
    | okFork =>
      simp only
      apply checkOrphans_quiescent p N (b.id :: D) _ n1 (b.h + 1) hctx
      · intro c par hv hd
        rcases F.pend c par hv hd with h1 | ⟨h1, h2⟩ | h1
        · exact Or.inl h1
        · rcases h2 with h2 | ⟨_, h2⟩
          · exact Or.inr ⟨h1, Or.inl h2⟩
          · exact Or.inr ⟨h1, Or.inr h2⟩
        · cases h1
      · omega

theorem processHeader_headers_mono {p : Params} {n n' : Node} {b : Blk}
    (h1 : processHeader p n b = .ok n') (h : Nat) (hm : h ∈ n.headers) : h ∈ n'.headers := by
  rcases processHeader_ok_cases p n n' b h1 with ⟨e, _⟩ | ⟨_, _, e⟩
  · rw [e]; exact hm
  · rw [e]; exact (hdrUpdate_headers_mem n b h).mpr (Or.inl hm)

theorem deliverHeader_headers_mono (p : Params) (n : Node) (b : Blk) (h : Nat) (hm : h ∈ n.headers) :
    h ∈ (deliverHeader p n b).1.headers := by
  unfold deliverHeader
  split
  · exact hm
  · rename_i n' hn; exact processHeader_headers_mono hn h hm

theorem deliverHeader_quiescent {p : Params} {N n : Node} {D : List Nat} (b : Blk)
    (hc : Ctx p N n D) (hq : Pending p N n D (fun _ => False)) (hb : n.blk b.id = some b) :
    Ctx p N (deliverHeader p n b).1 D ∧ Pending p N (deliverHeader p n b).1 D (fun _ => False) := by
  have hmono := deliverHeader_headers_mono p n b
  have hinv := deliverHeader_preserved (preserved_inv p) n b hb hc.inv
  have hdf := deliverHeader_defs p n b
  unfold deliverHeader at *
  split
  · exact ⟨hc, hq⟩
  · rename_i n' hn
    simp only [hn] at hinv hmono hdf
    have hf := processHeader_frame p n n' b hn
    refine ⟨⟨hf.2.2.1.trans hc.blks, hf.2.2.2.2.trans hc.outs, hinv,
      fun o ho => hc.pool o (hf.2.2.2.1 ▸ ho), fun d hd => hmono d (hc.hdrs d hd),
      fun s hs => hc.sound s (hf.2.1 ▸ hs)⟩, ?_⟩
    intro c par hv hd
    rw [hf.2.1, hf.2.2.2.1]
    exact hq c par hv hd

theorem step_headers_mono (p : Params) (n : Node) (e : Event) (h : Nat) (hm : h ∈ n.headers) :
    h ∈ (step p n e).headers := by
  cases e with
  | header b => exact deliverHeader_headers_mono p n b h hm
  | block b =>
    show h ∈ (deliverBlock p n b).1.headers
    -- headers only grow: `Preserved` with the predicate "h is known"
    have hP : Preserved p (fun m => h ∈ m.headers) :=
      ⟨fun m b' _ hm' => pbs_headers_mono p m b' h hm', fun _ _ hm' => hm',
       fun _ _ _ _ hn hm' => processHeader_headers_mono hn h hm'⟩
    unfold deliverBlock
    have h1 := pbs_headers_mono p n b h hm
    cases hr : processBlockSingle p n b with
    | mk n1 r =>
      rw [hr] at h1
      cases r with
      | err e => exact h1
      | okHead => exact checkOrphans_preserved hP _ _ _ h1
      | okFork => exact checkOrphans_preserved hP _ _ _ h1

/-- **any delivery order**: after a history of registered blocks whose headers were all known
beforehand, the node is quiescent with respect to the delivered set -/
theorem run_quiescent (p : Params) (N : Node) (es : List Event) : ∀ (n : Node) (D : List Nat),
    Registered n es → (∀ id ∈ blockIds es, id ∈ n.headers) → Ctx p N n D →
    Pending p N n D (fun _ => False) →
    ∃ D', (∀ id, id ∈ D' ↔ id ∈ blockIds es ∨ id ∈ D) ∧ Ctx p N (run p n es) D' ∧
      Pending p N (run p n es) D' (fun _ => False) := by
  induction es with
  | nil => intro n D _ _ hc hq; exact ⟨D, by simp [blockIds], hc, hq⟩
  | cons e es ih =>
    intro n D hreg hk hc hq
    rw [run_cons]
    have hreg' := hreg.tail p
    have hb := hreg e (List.mem_cons_self ..)
    cases e with
    | header b =>
      obtain ⟨hc', hq'⟩ := deliverHeader_quiescent b hc hq hb
      obtain ⟨D', hD', h⟩ := ih (step p n (.header b)) D hreg'
        (fun id hid => step_headers_mono p n _ id (hk id hid)) hc' hq'
      exact ⟨D', by simpa [blockIds] using hD', h⟩
    | block b =>
      have hh : b.id ∈ n.headers := hk b.id (by simp [blockIds])
      obtain ⟨hc', hq'⟩ := deliverBlock_quiescent b hc hq hb hh
      obtain ⟨D', hD', h⟩ := ih (step p n (.block b)) (b.id :: D) hreg'
        (fun id hid => step_headers_mono p n _ id (hk id (by simp [blockIds, hid]))) hc' hq'
      refine ⟨D', ?_, h⟩
      intro id
      rw [hD' id]
      simp only [blockIds, List.mem_cons]
      constructor
      · rintro (h | h | h)
        · exact Or.inl (Or.inr h)
        · exact Or.inl (Or.inl h)
        · exact Or.inr h
      · rintro ((h | h) | h)
        · exact Or.inr (Or.inl h)
        · exact Or.inl h
        · exact Or.inr (Or.inr h)

/-- a node that has seen headers only: nothing but the genesis stored, empty pool, invariants hold -/
structure HeadersOnly (p : Params) (n : Node) : Prop where
  stored : n.stored = [0]
  head : n.head = 0
  orphans : n.orphans = []
  inv : Inv p n

theorem Fresh.headersOnly {n : Node} (p : Params) (h : Fresh n) : HeadersOnly p n :=
  ⟨h.stored, h.head, h.orphans, h.inv p⟩

/-- delivering headers (only) to such a node keeps it such a node -/
theorem HeadersOnly.deliverHeader {p : Params} {n : Node} (h : HeadersOnly p n) (b : Blk)
    (hb : n.blk b.id = some b) : HeadersOnly p (deliverHeader p n b).1 := by
  have hinv := deliverHeader_preserved (preserved_inv p) n b hb h.inv
  unfold GV.Chain.deliverHeader at *
  split
  · exact h
  · rename_i n' hn
    simp only [hn] at hinv
    have hf := processHeader_frame p n n' b hn
    exact ⟨hf.2.1 ▸ h.stored, hf.1 ▸ h.head, hf.2.2.2.1 ▸ h.orphans, hinv⟩

/-- the state "headers first" is reached from a fresh node by header deliveries -/
theorem HeadersOnly.after_headers (p : Params) (n : Node) (bs : List Blk) (hf : Fresh n)
    (hreg : Registered n (bs.map Event.header)) : HeadersOnly p (run p n (bs.map Event.header)) := by
  have : ∀ (bs : List Blk) (m : Node), HeadersOnly p m → Registered m (bs.map Event.header) →
      HeadersOnly p (run p m (bs.map Event.header)) := by
    intro bs
    induction bs with
    | nil => intro m hm _; exact hm
    | cons b bs ih =>
      intro m hm hr
      simp only [List.map_cons, run_cons]
      exact ih _ (hm.deliverHeader b (hr (.header b) (List.mem_cons_self ..))) (hr.tail p)
  exact this bs n (hf.headersOnly p) hreg

/-- **the store after any delivery order** (headers known first, children before parents allowed,
duplicates and invalid blocks anywhere): exactly the blocks reachable within the delivered set —
the block and all its ancestors delivered and passing their own step -/
theorem stored_after_any_order (p : Params) (n : Node) (es : List Event) (hn : HeadersOnly p n)
    (hreg : Registered n es) (hk : ∀ id ∈ blockIds es, id ∈ n.headers) (id : Nat) :
    id ∈ (run p n es).stored ↔ Reach p n (blockIds es) id := by
  have hc0 : Ctx p n n [] := by
    refine ⟨rfl, rfl, hn.inv, ?_, ?_, ?_⟩
    · intro o ho
      rw [hn.orphans] at ho
      cases ho
    · intro d hd
      cases hd
    · intro s hs
      rw [hn.stored] at hs
      have : s = 0 := by simpa using hs
      rw [this]; exact .genesis
  have hq0 : Pending p n n [] (fun _ => False) := fun c par _ hd => by cases hd
  obtain ⟨D', hD', hc, hq⟩ := run_quiescent p n es n [] hreg hk hc0 hq0
  constructor
  · intro h
    exact (hc.sound id h).mono (fun x hx => by
      rcases (hD' x).mp hx with h | h
      · exact h
      · cases h)
  · intro h
    induction h with
    | genesis => exact hc.inv.2.closed.zero
    | child b par hv _ hd ih =>
      rcases hq b par hv ((hD' b.id).mpr (Or.inl hd)) with h1 | ⟨_, h2 | h2⟩
      · exact h1
      · exact absurd ih h2
      · exact h2.elim

end GV.Chain
