import GrinVerif.Model.Seg
/-! The number of 1024-bit chunks `BitmapAccumulator::init` builds (`Dsg.accLoop`) in closed form,
and its agreement with what `Desegmenter::calc_bitmap_mmr_sizes` expects.  Core Lean only. -/
namespace GV.Seg.Dsg
open GV GV.Seg

theorem le_lmax : ∀ (l : List Nat) (x : Nat), x ∈ l → x ≤ lmax l := by
  intro l
  induction l with
  | nil => intro x hx; cases hx
  | cons y ys ih =>
    intro x hx
    simp only [lmax]
    rcases List.mem_cons.mp hx with h | h
    · subst h; omega
    · have := ih x h; omega

theorem lmax_le : ∀ (l : List Nat) (b : Nat), (∀ x ∈ l, x ≤ b) → lmax l ≤ b := by
  intro l
  induction l with
  | nil => intro b _; simp [lmax]
  | cons y ys ih =>
    intro b h
    simp only [lmax]
    have h1 := h y List.mem_cons_self
    have h2 := ih b (fun x hx => h x (List.mem_cons_of_mem _ hx))
    omega

/-- the loop in closed form, whatever the order of the indices: if some index lies at or beyond
the current chunk, the accumulator ends with chunk `max / 1024` as its last one -/
theorem accLoop_eq : ∀ (f ci : Nat) (any : Bool) (n : Nat) (l : List Nat),
    l.length + (lmax l / 1024 + 1 - ci) + 1 ≤ f →
    accLoop f ci any n l =
      if (l.any fun x => decide (ci * 1024 ≤ x)) = true then n + (lmax l / 1024 - ci) + 1
      else if any = true then n + 1 else n := by
  intro f
  induction f with
  | zero => intro ci any n l h; omega
  | succ f ih =>
    intro ci any n l h
    cases l with
    | nil => simp [accLoop]
    | cons x xs =>
      simp only [accLoop]
      simp only [List.length_cons, lmax] at h
      by_cases h1 : x < ci * 1024
      · rw [if_pos h1, ih ci any n xs (by omega)]
        have hx : decide (ci * 1024 ≤ x) = false := by simp; omega
        simp only [List.any_cons, hx, Bool.false_or, lmax]
        split
        · rename_i hany
          obtain ⟨y, hy, hyc⟩ := List.any_eq_true.mp hany
          have := le_lmax xs y hy
          simp only [decide_eq_true_eq] at hyc
          have : max x (lmax xs) = lmax xs := by omega
          rw [this]
        · rfl
      · rw [if_neg h1]
        have hx : decide (ci * 1024 ≤ x) = true := by simp; omega
        simp only [List.any_cons, hx, Bool.true_or, if_true, lmax]
        by_cases h2 : x < (ci + 1) * 1024
        · rw [if_pos h2, ih ci true n xs (by omega)]
          split
          · rename_i hany
            obtain ⟨y, hy, hyc⟩ := List.any_eq_true.mp hany
            have := le_lmax xs y hy
            simp only [decide_eq_true_eq] at hyc
            omega
          · rename_i hany
            have hall : ∀ y ∈ xs, y ≤ ci * 1024 := by
              intro y hy
              have hq : ∀ z ∈ xs, z < ci * 1024 := by simpa using hany
              have := hq y hy
              omega
            have := lmax_le xs (ci * 1024) hall
            simp only [if_true]
            omega
        · rw [if_neg h2]
          have hm : (ci + 1) * 1024 ≤ max x (lmax xs) := by omega
          rw [ih (ci + 1) false (n + 1) (x :: xs) (by simp only [List.length_cons, lmax]; omega)]
          have hx' : decide ((ci + 1) * 1024 ≤ x) = true := by simp; omega
          simp only [List.any_cons, hx', Bool.true_or, if_true, lmax]
          omega

/-- **the accumulator over `n` leaf positions whose last leaf is unspent has exactly
`⌈n / 1024⌉` chunks** — what the receiving side expects (`expectedChunks`) -/
theorem accChunkCount_eq (idxs : List Nat) (n : Nat) (hn : 1 ≤ n) (hlast : n - 1 ∈ idxs) :
    accChunkCount idxs n = expectedChunks n := by
  unfold accChunkCount expectedChunks
  simp only
  have hmem : n - 1 ∈ idxs.filter (· < n) := by
    rw [List.mem_filter]; exact ⟨hlast, by simp; omega⟩
  have hle : lmax (idxs.filter (· < n)) ≤ n - 1 :=
    lmax_le _ _ (fun x hx => by
      have := (List.mem_filter.mp hx).2
      simp only [decide_eq_true_eq] at this
      omega)
  have hge := le_lmax _ _ hmem
  have hm : lmax (idxs.filter (· < n)) = n - 1 := by omega
  rw [accLoop_eq _ 0 false 0 _ (by omega)]
  have hany : ((idxs.filter (· < n)).any fun x => decide (0 * 1024 ≤ x)) = true :=
    List.any_eq_true.mpr ⟨n - 1, hmem, by simp⟩
  rw [if_pos hany, hm]
  omega

/-- … and in general: `0` chunks for an empty leaf set, otherwise `max index / 1024 + 1` — fewer
than the receiving side expects when the whole last chunk is spent (unreachable for an archive
header: its last leaves are the outputs of the archive block itself, unspent at that header). -/
theorem accChunkCount_general (idxs : List Nat) (n : Nat) :
    accChunkCount idxs n =
      if idxs.filter (· < n) = [] then 0 else lmax (idxs.filter (· < n)) / 1024 + 1 := by
  unfold accChunkCount
  simp only
  rw [accLoop_eq _ 0 false 0 _ (by omega)]
  cases hl : idxs.filter (· < n) with
  | nil => simp
  | cons x xs => simp

theorem expectedChunks_mul (k : Nat) : expectedChunks (1024 * k) = k := by
  unfold expectedChunks; omega

theorem expectedChunks_mul_succ (k : Nat) : expectedChunks (1024 * k + 1) = k + 1 := by
  unfold expectedChunks; omega

theorem expectedChunks_spec (n : Nat) :
    1024 * (expectedChunks n) ≥ n ∧ (n ≥ 1 → 1024 * (expectedChunks n - 1) < n) := by
  unfold expectedChunks; omega

end GV.Seg.Dsg
