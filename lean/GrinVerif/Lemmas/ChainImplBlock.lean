import GrinVerif.Lemmas.ChainImplApply
/-! `applyBlockImpl` as a whole: its effect when it succeeds, and when it succeeds. -/
namespace GV.Chain
open TxHS

theorem cutThrough_false_iff (b : Blk) :
    cutThroughViolation b = false ↔ ∀ c ∈ b.ins, c ∉ b.outs.map (·.1) := by
  unfold cutThroughViolation
  constructor
  · intro h c hc hm
    obtain ⟨o, ho, hoc⟩ := List.mem_map.mp hm
    have : (b.ins.any fun i => b.outs.any (·.1 == i)) = true :=
      List.any_eq_true.mpr ⟨c, hc, List.any_eq_true.mpr ⟨o, ho, by simp [hoc]⟩⟩
    rw [this] at h; cases h
  · intro h
    apply Bool.eq_false_iff.mpr
    intro ht
    obtain ⟨c, hc, hany⟩ := List.any_eq_true.mp ht
    obtain ⟨o, ho, hoc⟩ := List.any_eq_true.mp hany
    exact h c hc (List.mem_map.mpr ⟨o, ho, by simpa using hoc⟩)

/-- what a successful `applyBlockImpl` did; `sp` = the (commitment, position) pairs it spent -/
structure BlockApplied (S S' : TxHS) (b : Blk) (sp : List (Nat × CommitPos)) : Prop where
  rinv : RInv S'
  spIns : sp.map (·.1) = b.ins
  wasUnspent : ∀ x ∈ sp, S.getOutputPos x.1 = some x.2
  insNodup : b.ins.Nodup
  outsNodup : (b.outs.map (·.1)).Nodup
  fresh : ∀ c ∈ b.outs.map (·.1), S.getOutputPos c = none
  leaves : S'.leaves = S.leaves ++ b.outs.map (·.1)
  leafSet : ∀ i, i ∈ S'.leafSet ↔ (i ∈ S.leafSet ∧ i ∉ sp.map (·.2.pos)) ∨
    (S.leaves.length ≤ i ∧ i < S.leaves.length + b.outs.length)
  idxIn : ∀ c ∈ b.ins, S'.getOutputPos c = none
  idxOut : ∀ c ∈ b.outs.map (·.1), ∃ i, S'.getOutputPos c = some ⟨i, b.h⟩ ∧ S.leaves.length ≤ i
  idxOther : ∀ c, c ∉ b.ins → c ∉ b.outs.map (·.1) → S'.getOutputPos c = S.getOutputPos c
  spentHere : S'.getSpentIndex b.id = some (sp.map (·.2))
  spentOther : ∀ id, id ≠ b.id → S'.getSpentIndex id = S.getSpentIndex id

theorem applyBlockImpl_ok {S S' : TxHS} {b : Blk} (hi : RInv S) (hct : cutThroughViolation b = false)
    (hr : applyBlockImpl S b = .ok S') : ∃ sp, BlockApplied S S' b sp := by
  have hcut := (cutThrough_false_iff b).mp hct
  unfold applyBlockImpl at hr
  cases h1 : S.applyOutputs b.outs b.h with
  | error e => rw [h1] at hr; cases hr
  | ok S1 =>
    simp only [h1] at hr
    have A := applyOutputs_ok b.outs b.h hi h1
    cases h2 : S1.validateInputs b.ins with
    | error e => simp only [h2] at hr; cases hr
    | ok sp =>
      simp only [h2] at hr
      obtain ⟨hsp, hv⟩ := validateInputs_ok b.ins sp h2
      cases h3 : S1.applyInputs sp with
      | error e => simp only [h3] at hr; cases hr
      | ok S2 =>
        simp only [h3] at hr
        injection hr with hr
        have B := applyInputs_ok sp A.rinv (fun x hx => Or.inl (hv x hx).1) h3
        have hin : ∀ x ∈ sp, x.1 ∈ b.ins := by
          intro x hx; rw [← hsp]; exact List.mem_map.mpr ⟨x, hx, rfl⟩
        have hwas : ∀ x ∈ sp, S.getOutputPos x.1 = some x.2 := by
          intro x hx
          rw [← A.other x.1 (hcut x.1 (hin x hx))]
          exact (hv x hx).1
        have hposlt : ∀ x ∈ sp, x.2.pos ∈ S.leafSet := fun x hx => (hi.points x.1 x.2 (hwas x hx)).1
        refine ⟨sp, ?_⟩
        subst hr
        refine ⟨?_, hsp, hwas, hsp ▸ B.nodup, A.nodup, A.fresh, ?_, ?_, ?_, ?_, ?_, ?_, ?_⟩
        · exact ⟨B.rinv.bound, B.rinv.indexed, B.rinv.points⟩
        · show S2.leaves = _
          rw [B.leaves, A.leaves]
        · intro i
          show i ∈ S2.leafSet ↔ _
          rw [B.leafSet i, A.leafSet i]
          simp only [List.length_map]
          constructor
          · rintro ⟨h | h, hn⟩
            · exact Or.inl ⟨h, hn⟩
            · exact Or.inr h
          · rintro (⟨h, hn⟩ | h)
            · exact ⟨Or.inl h, hn⟩
            · refine ⟨Or.inr h, ?_⟩
              intro hm
              obtain ⟨x, hx, hxi⟩ := List.mem_map.mp hm
              have := hi.bound _ (hposlt x hx)
              rw [hxi] at this
              omega
        · intro c hc
          show S2.getOutputPos c = none
          rw [B.index c, hsp, if_pos hc]
        · intro c hc
          show ∃ i, S2.getOutputPos c = _ ∧ _
          have hnin : c ∉ b.ins := fun h => hcut c h hc
          rw [B.index c, hsp, if_neg hnin]
          exact A.created c hc
        · intro c h1 h2
          show S2.getOutputPos c = _
          rw [B.index c, hsp, if_neg h1, A.other c h2]
        · rw [getSpentIndex_save, if_pos rfl]
        · intro id hid
          rw [getSpentIndex_save, if_neg hid]
          unfold getSpentIndex
          rw [B.spentIdx, A.spentIdx]

/-! ### when it succeeds -/

theorem applyOutputs_of (os : List (Nat × Bool)) (h : Nat) : ∀ {S : TxHS},
    (os.map (·.1)).Nodup → (∀ c ∈ os.map (·.1), S.getOutputPos c = none) →
    ∃ S1, S.applyOutputs os h = .ok S1 := by
  induction os with
  | nil => intro S _ _; exact ⟨S, rfl⟩
  | cons o os ih =>
    intro S hnd hfresh
    simp only [List.map_cons, List.nodup_cons] at hnd
    have h0 := hfresh o.1 (by simp)
    have : ∀ c ∈ os.map (·.1), (S.pushLeaf o.1 h).getOutputPos c = none := by
      intro c hc
      unfold pushLeaf
      rw [getOutputPos_save]
      have hne : c ≠ o.1 := fun he => hnd.1 (he ▸ hc)
      rw [if_neg hne]
      exact hfresh c (by simp [hc])
    obtain ⟨S1, h1⟩ := ih hnd.2 this
    exact ⟨S1, by simp only [applyOutputs, applyOutput_of_none S o.1 h h0, h1]⟩

theorem applyInputs_of (sp : List (Nat × CommitPos)) : ∀ {S : TxHS}, RInv S →
    (sp.map (·.1)).Nodup → (∀ x ∈ sp, S.getOutputPos x.1 = some x.2) →
    ∃ S2, S.applyInputs sp = .ok S2 := by
  induction sp with
  | nil => intro S _ _ _; exact ⟨S, rfl⟩
  | cons x xs ih =>
    intro S hi hnd hyp
    simp only [List.map_cons, List.nodup_cons] at hnd
    have hx := hyp x (List.mem_cons_self ..)
    have hm := (hi.points x.1 x.2 hx).1
    have hi' := dropLeaf_rinv hi hx
    have hyp' : ∀ y ∈ xs, (S.dropLeaf x.1 x.2.pos).getOutputPos y.1 = some y.2 := by
      intro y hy
      rw [dropLeaf_index]
      have hne : y.1 ≠ x.1 := fun he => hnd.1 (he ▸ List.mem_map.mpr ⟨y, hy, rfl⟩)
      rw [if_neg hne]
      exact hyp y (List.mem_cons_of_mem _ hy)
    obtain ⟨S2, h2⟩ := ih hi' hnd.2 hyp'
    exact ⟨S2, by simp only [applyInputs, applyInput_of hm, h2]⟩

/-- `apply_block` succeeds on a block with distinct inputs and distinct outputs, none of whose
outputs is currently unspent, all of whose inputs are, and which spends none of its own outputs -/
theorem applyBlockImpl_of {S : TxHS} {b : Blk} (hi : RInv S) (hct : cutThroughViolation b = false)
    (hin : b.ins.Nodup) (hon : (b.outs.map (·.1)).Nodup)
    (hfresh : ∀ c ∈ b.outs.map (·.1), S.getOutputPos c = none)
    (hunspent : ∀ c ∈ b.ins, (S.getOutputPos c).isSome) : ∃ S', applyBlockImpl S b = .ok S' := by
  have hcut := (cutThrough_false_iff b).mp hct
  obtain ⟨S1, h1⟩ := applyOutputs_of b.outs b.h hon hfresh
  have A := applyOutputs_ok b.outs b.h hi h1
  have hu1 : ∀ c ∈ b.ins, (S1.getOutputPos c).isSome := by
    intro c hc; rw [A.other c (hcut c hc)]; exact hunspent c hc
  obtain ⟨sp, h2⟩ := validateInputs_of A.rinv b.ins hu1
  obtain ⟨hsp, hv⟩ := validateInputs_ok b.ins sp h2
  obtain ⟨S2, h3⟩ := applyInputs_of sp A.rinv (hsp ▸ hin) (fun x hx => (hv x hx).1)
  exact ⟨S2.saveSpentIndex b.id (sp.map (·.2)), by simp only [applyBlockImpl, h1, h2, h3]⟩

end GV.Chain
