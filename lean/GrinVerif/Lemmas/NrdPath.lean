import GrinVerif.Lemmas.NrdSim
/-! Specification-level facts about block paths: what applying blocks builds, that rewinding a
block undoes its application, forks, and the rebuild over a window.  Pure list reasoning; the
store-level statements follow through `Lemmas/NrdSim.lean`. -/
namespace GV.Nrd
variable {ε : Type} [DecidableEq ε]
set_option linter.unusedSectionVars false

/-- kernel `kp` is an NRD kernel with excess `e` -/
def isNrdOf (e : ε) (kp : Kernel ε × Nat) : Bool := kp.1.nrd.isSome && decide (kp.1.excess = e)

/-- occurrences of `e` among the NRD kernels `ks` of a block at `height`, most recent first -/
def kernelsEntries (height : Nat) (ks : List (Kernel ε × Nat)) (e : ε) : List CommitPos :=
  ((ks.filter (isNrdOf e)).map fun kp => (⟨kp.2, height⟩ : CommitPos)).reverse

def blockEntries (b : Blk ε) (e : ε) : List CommitPos := kernelsEntries b.height b.kernels e

/-- **the path-search specification**: the occurrences of `e` in NRD kernels along the path `bs`
(oldest block first), most recent first -/
def pathEntries : List (Blk ε) → ε → List CommitPos
  | [], _ => []
  | b :: bs, e => pathEntries bs e ++ blockEntries b e

theorem kernelsEntries_cons (h : Nat) (kp : Kernel ε × Nat) (ks : List (Kernel ε × Nat)) (e : ε) :
    kernelsEntries h (kp :: ks) e =
      kernelsEntries h ks e ++ (if isNrdOf e kp then [(⟨kp.2, h⟩ : CommitPos)] else []) := by
  unfold kernelsEntries
  by_cases hk : isNrdOf e kp = true
  · simp [hk]
  · simp [hk]

theorem pathEntries_append (a b : List (Blk ε)) (e : ε) :
    pathEntries (a ++ b) e = pathEntries b e ++ pathEntries a e := by
  induction a with
  | nil => simp [pathEntries]
  | cons x a ih => simp [pathEntries, ih]

theorem kernelsEntries_pos {h : Nat} {ks : List (Kernel ε × Nat)} {e : ε} {x : CommitPos}
    (hx : x ∈ kernelsEntries h ks e) : ∃ kp ∈ ks, x.pos = kp.2 := by
  unfold kernelsEntries at hx
  simp only [List.mem_reverse, List.mem_map, List.mem_filter] at hx
  obtain ⟨kp, ⟨hm, _⟩, rfl⟩ := hx
  exact ⟨kp, hm, rfl⟩

theorem kernelsEntries_eq_nil {h : Nat} {ks : List (Kernel ε × Nat)} {e : ε}
    (hn : ks.any (isNrdOf e) = false) : kernelsEntries h ks e = [] := by
  unfold kernelsEntries
  have : ks.filter (isNrdOf e) = [] := by
    rw [List.filter_eq_nil_iff]
    intro a ha
    have := List.any_eq_false.mp hn a ha
    simpa using this
  simp [this]

/-! ### applying kernels and blocks -/

theorem sApplyKernelRules_ok {S S' : Spec ε} {k : Kernel ε} {p : CommitPos}
    (h : sApplyKernelRules S k p = ⟨S', .ok ()⟩) :
    S' = if k.nrd.isSome then upd S k.excess (p :: S k.excess) else S := by
  unfold sApplyKernelRules at h
  cases hn : k.nrd with
  | none => simp only [hn] at h; simp; injection h with h1; exact h1.symm
  | some rel =>
    simp only [hn, sPush] at h
    by_cases h1 : specNrdOk (S k.excess) p.height rel = true
    · by_cases h2 : specPushOk (S k.excess) p = true
      · simp only [h1, h2, if_true] at h; simp; injection h with h3; exact h3.symm
      · simp [h1, h2] at h
    · simp [h1] at h

theorem sApplyKernels_cons_ok {S S' : Spec ε} {h : Nat} {kp : Kernel ε × Nat}
    {ks : List (Kernel ε × Nat)} (hok : sApplyKernels S h (kp :: ks) = ⟨S', .ok ()⟩) :
    ∃ S1, sApplyKernelRules S kp.1 ⟨kp.2, h⟩ = ⟨S1, .ok ()⟩ ∧ sApplyKernels S1 h ks = ⟨S', .ok ()⟩ := by
  obtain ⟨k, pos⟩ := kp
  simp only [sApplyKernels] at hok
  generalize sApplyKernelRules S k ⟨pos, h⟩ = o at hok ⊢
  obtain ⟨S1, r1⟩ := o
  cases r1 with
  | error err => simp at hok
  | ok u => exact ⟨S1, rfl, hok⟩

theorem sApplyKernels_ok {S S' : Spec ε} {h : Nat} {ks : List (Kernel ε × Nat)}
    (hok : sApplyKernels S h ks = ⟨S', .ok ()⟩) : ∀ e, S' e = kernelsEntries h ks e ++ S e := by
  induction ks generalizing S with
  | nil =>
    simp only [sApplyKernels] at hok
    injection hok with h1; subst h1
    intro e; simp [kernelsEntries]
  | cons kp ks ih =>
    obtain ⟨S1, h1, h2⟩ := sApplyKernels_cons_ok hok
    have hS1 := sApplyKernelRules_ok h1
    intro e
    rw [ih h2 e, kernelsEntries_cons, List.append_assoc, hS1]
    congr 1
    unfold isNrdOf
    cases hn : kp.1.nrd with
    | none => simp
    | some rel =>
      by_cases he : kp.1.excess = e
      · subst he; simp
      · have he' : ¬ e = kp.1.excess := fun h => he h.symm
        simp [he, upd, he']

theorem sApplyBlocks_cons_ok {S S' : Spec ε} {b : Blk ε} {bs : List (Blk ε)}
    (hok : sApplyBlocks S (b :: bs) = ⟨S', .ok ()⟩) :
    ∃ S1, sApplyBlock S b = ⟨S1, .ok ()⟩ ∧ sApplyBlocks S1 bs = ⟨S', .ok ()⟩ := by
  simp only [sApplyBlocks] at hok
  generalize sApplyBlock S b = o at hok ⊢
  obtain ⟨S1, r1⟩ := o
  cases r1 with
  | error err => simp at hok
  | ok u => exact ⟨S1, rfl, hok⟩

theorem sApplyBlocks_ok {S S' : Spec ε} {bs : List (Blk ε)}
    (hok : sApplyBlocks S bs = ⟨S', .ok ()⟩) : ∀ e, S' e = pathEntries bs e ++ S e := by
  induction bs generalizing S with
  | nil =>
    simp only [sApplyBlocks] at hok
    injection hok with h1; subst h1
    intro e; simp [pathEntries]
  | cons b bs ih =>
    obtain ⟨S1, h1, h2⟩ := sApplyBlocks_cons_ok hok
    intro e
    rw [ih h2 e, sApplyKernels_ok h1 e, pathEntries, blockEntries, List.append_assoc]

theorem sApplyBlocks_append (S : Spec ε) (a b : List (Blk ε)) :
    sApplyBlocks S (a ++ b) =
      match sApplyBlocks S a with
      | ⟨S', .error err⟩ => ⟨S', .error err⟩
      | ⟨S', .ok _⟩ => sApplyBlocks S' b := by
  induction a generalizing S with
  | nil => simp [sApplyBlocks]
  | cons x a ih =>
    simp only [List.cons_append, sApplyBlocks]
    generalize sApplyBlock S x = o
    obtain ⟨S1, r1⟩ := o
    cases r1 with
    | error err => rfl
    | ok u => exact ih S1

theorem sApplyBlocks_append_ok {S S' : Spec ε} {a b : List (Blk ε)}
    (hok : sApplyBlocks S (a ++ b) = ⟨S', .ok ()⟩) :
    ∃ S1, sApplyBlocks S a = ⟨S1, .ok ()⟩ ∧ sApplyBlocks S1 b = ⟨S', .ok ()⟩ := by
  rw [sApplyBlocks_append] at hok
  generalize sApplyBlocks S a = o at hok ⊢
  obtain ⟨S1, r1⟩ := o
  cases r1 with
  | error err => simp at hok
  | ok u => exact ⟨S1, rfl, hok⟩

/-! ### rewinding -/

theorem specRewind_idem (l : List CommitPos) (c : Nat) : specRewind (specRewind l c) c = specRewind l c := by
  unfold specRewind
  induction l with
  | nil => rfl
  | cons p t ih =>
    by_cases h : p.pos > c
    · simp [h, ih]
    · simp [h]

theorem sRewindKernels_eq (c : Nat) (ks : List (Kernel ε × Nat)) (S : Spec ε) (e : ε) :
    sRewindKernels S c ks e = if ks.any (isNrdOf e) then specRewind (S e) c else S e := by
  induction ks generalizing S with
  | nil => simp [sRewindKernels]
  | cons kp ks ih =>
    obtain ⟨k, pos⟩ := kp
    cases hn : k.nrd with
    | none =>
      have h0 : isNrdOf e (k, pos) = false := by simp [isNrdOf, hn]
      simp only [sRewindKernels, hn, ih, List.any_cons, h0, Bool.false_or]
    | some rel =>
      by_cases he : k.excess = e
      · have h0 : isNrdOf e (k, pos) = true := by simp [isNrdOf, hn, he]
        simp only [sRewindKernels, hn, ih, sRewind, List.any_cons, h0, Bool.true_or, if_true]
        subst he; simp [specRewind_idem]
      · have he' : ¬ e = k.excess := fun h => he h.symm
        have h0 : isNrdOf e (k, pos) = false := by simp [isNrdOf, hn, he]
        simp only [sRewindKernels, hn, ih, sRewind, List.any_cons, h0, Bool.false_or]
        simp [upd, he']

/-- every position recorded in `S` is at most `c` -/
def Below (S : Spec ε) (c : Nat) : Prop := ∀ e, ∀ x ∈ S e, x.pos ≤ c

theorem specRewind_append {ent l : List CommitPos} {c : Nat} (h1 : ∀ x ∈ ent, c < x.pos)
    (h2 : ∀ x ∈ l, x.pos ≤ c) : specRewind (ent ++ l) c = l := by
  unfold specRewind
  induction ent with
  | nil =>
    cases l with
    | nil => rfl
    | cons p t =>
      have := h2 p (by simp)
      have hp : ¬ p.pos > c := by omega
      simp [hp]
  | cons p t ih =>
    have hp : p.pos > c := h1 p (by simp)
    simp only [List.cons_append, List.dropWhile_cons, hp, decide_true, if_true]
    exact ih (fun x hx => h1 x (List.mem_cons_of_mem _ hx))

/-- `rewind_single_block` undoes `apply_block` (on the index) -/
theorem sRewindSingleBlock_apply {S S' : Spec ε} {b : Blk ε} (hb : Below S b.prevSize)
    (hk : ∀ kp ∈ b.kernels, b.prevSize < kp.2) (hok : sApplyBlock S b = ⟨S', .ok ()⟩) :
    sRewindSingleBlock S' b = S := by
  funext e
  have hS' := sApplyKernels_ok hok e
  unfold sRewindSingleBlock
  rw [sRewindKernels_eq]
  cases ha : b.kernels.any (isNrdOf e) with
  | true =>
    simp only [if_true, hS']
    refine specRewind_append (fun x hx => ?_) (hb e)
    obtain ⟨kp, hm, hp⟩ := kernelsEntries_pos hx
    rw [hp]; exact hk kp hm
  | false =>
    simp [hS', kernelsEntries_eq_nil ha]

theorem sRewindBlocks_append (S : Spec ε) (a b : List (Blk ε)) :
    sRewindBlocks S (a ++ b) = sRewindBlocks (sRewindBlocks S a) b := by
  induction a generalizing S with
  | nil => rfl
  | cons x a ih => simp [sRewindBlocks, ih]

/-- positions along a path: every block's kernels lie above the kernel MMR size of its
predecessor (`prevSize`) and within its own (`size`); `c` = size before the first block -/
def PathOK : Nat → List (Blk ε) → Prop
  | _, [] => True
  | c, b :: bs => b.prevSize = c ∧ (∀ kp ∈ b.kernels, c < kp.2 ∧ kp.2 ≤ b.size) ∧ c ≤ b.size ∧
      PathOK b.size bs

instance decPathOK : (c : Nat) → (bs : List (Blk ε)) → Decidable (PathOK c bs)
  | _, [] => isTrue trivial
  | c, b :: bs =>
    have := decPathOK b.size bs
    (inferInstance : Decidable (b.prevSize = c ∧ (∀ kp ∈ b.kernels, c < kp.2 ∧ kp.2 ≤ b.size) ∧
      c ≤ b.size ∧ PathOK b.size bs))

/-- kernel MMR size at the end of the path -/
def endSize : Nat → List (Blk ε) → Nat
  | c, [] => c
  | _, b :: bs => endSize b.size bs

theorem PathOK.append {c : Nat} {a b : List (Blk ε)} (h : PathOK c (a ++ b)) :
    PathOK c a ∧ PathOK (endSize c a) b := by
  induction a generalizing c with
  | nil => exact ⟨trivial, h⟩
  | cons x a ih =>
    obtain ⟨h1, h2, h3, h4⟩ := h
    obtain ⟨g1, g2⟩ := ih h4
    exact ⟨⟨h1, h2, h3, g1⟩, g2⟩

theorem PathOK.of_append {c : Nat} {a b : List (Blk ε)} (ha : PathOK c a) (hb : PathOK (endSize c a) b) :
    PathOK c (a ++ b) := by
  induction a generalizing c with
  | nil => exact hb
  | cons x a ih => exact ⟨ha.1, ha.2.1, ha.2.2.1, ih ha.2.2.2 hb⟩

theorem Below.mono {S : Spec ε} {c c' : Nat} (h : Below S c) (hc : c ≤ c') : Below S c' :=
  fun e x hx => Nat.le_trans (h e x hx) hc

theorem Below.applyBlock {S S' : Spec ε} {b : Blk ε} (hb : Below S b.prevSize)
    (hk : ∀ kp ∈ b.kernels, b.prevSize < kp.2 ∧ kp.2 ≤ b.size) (hs : b.prevSize ≤ b.size)
    (hok : sApplyBlock S b = ⟨S', .ok ()⟩) : Below S' b.size := by
  intro e x hx
  rw [sApplyKernels_ok hok e] at hx
  rcases List.mem_append.mp hx with hx | hx
  · obtain ⟨kp, hm, hp⟩ := kernelsEntries_pos hx
    rw [hp]; exact (hk kp hm).2
  · exact Nat.le_trans (hb e x hx) hs

theorem Below.applyBlocks {S S' : Spec ε} {c : Nat} {bs : List (Blk ε)} (hb : Below S c)
    (hp : PathOK c bs) (hok : sApplyBlocks S bs = ⟨S', .ok ()⟩) : Below S' (endSize c bs) := by
  induction bs generalizing S c with
  | nil =>
    simp only [sApplyBlocks] at hok
    injection hok with h1; subst h1; exact hb
  | cons b bs ih =>
    obtain ⟨S1, h1, h2⟩ := sApplyBlocks_cons_ok hok
    obtain ⟨p1, p2, p3, p4⟩ := hp
    subst p1
    exact ih (hb.applyBlock p2 p3 h1) p4 h2

/-- rewinding the blocks just applied, newest first, restores the state exactly -/
theorem sRewindBlocks_apply {S S' : Spec ε} {c : Nat} {a : List (Blk ε)} (hb : Below S c)
    (hp : PathOK c a) (hok : sApplyBlocks S a = ⟨S', .ok ()⟩) : sRewindBlocks S' a.reverse = S := by
  induction a generalizing S c with
  | nil =>
    simp only [sApplyBlocks] at hok
    injection hok with h1; subst h1; rfl
  | cons b a ih =>
    obtain ⟨S1, h1, h2⟩ := sApplyBlocks_cons_ok hok
    obtain ⟨p1, p2, p3, p4⟩ := hp
    subst p1
    rw [List.reverse_cons, sRewindBlocks_append, ih (hb.applyBlock p2 p3 h1) p4 h2]
    simp only [sRewindBlocks]
    exact sRewindSingleBlock_apply hb (fun kp hm => (p2 kp hm).1) h1

theorem below_empty (c : Nat) : Below (fun _ => [] : Spec ε) c := fun _ _ hx => by cases hx

/-! ### rebuild over a window -/

/-- the part of a list above the cutoff position -/
def aboveCut (l : List CommitPos) (c : Nat) : List CommitPos := l.takeWhile fun p => decide (p.pos > c)

theorem aboveCut_below {l : List CommitPos} {c : Nat} (h : ∀ x ∈ l, x.pos ≤ c) : aboveCut l c = [] := by
  cases l with
  | nil => rfl
  | cons p t =>
    have := h p (by simp)
    have hp : ¬ p.pos > c := by omega
    simp [aboveCut, hp]

theorem aboveCut_cons {l : List CommitPos} {p : CommitPos} {c : Nat} (h : c < p.pos) :
    aboveCut (p :: l) c = p :: aboveCut l c := by
  simp [aboveCut, h]

theorem specNrdOk_aboveCut {l : List CommitPos} {c h rel : Nat} (hok : specNrdOk l h rel = true) :
    specNrdOk (aboveCut l c) h rel = true := by
  cases l with
  | nil => rfl
  | cons p t =>
    by_cases hp : p.pos > c
    · rw [aboveCut_cons hp]; exact hok
    · simp [aboveCut, hp, specNrdOk]

theorem specPushOk_aboveCut {l : List CommitPos} {c : Nat} {np : CommitPos}
    (hok : specPushOk l np = true) : specPushOk (aboveCut l c) np = true := by
  cases l with
  | nil => rfl
  | cons p t =>
    by_cases hp : p.pos > c
    · rw [aboveCut_cons hp]; exact hok
    · simp [aboveCut, hp, specPushOk]

/-- windowed state: every list cut at `c` -/
def cutSpec (S : Spec ε) (c : Nat) : Spec ε := fun e => aboveCut (S e) c

theorem sApplyKernelRules_cut {S S' : Spec ε} {k : Kernel ε} {p : CommitPos} {c : Nat} (hc : c < p.pos)
    (hok : sApplyKernelRules S k p = ⟨S', .ok ()⟩) :
    sApplyKernelRules (cutSpec S c) k p = ⟨cutSpec S' c, .ok ()⟩ := by
  have hS' := sApplyKernelRules_ok hok
  unfold sApplyKernelRules at hok ⊢
  cases hn : k.nrd with
  | none => simp [hn] at hS'; rw [hS']
  | some rel =>
    simp only [hn, sPush] at hok ⊢
    simp only [hn, Option.isSome_some, if_true] at hS'
    by_cases h1 : specNrdOk (S k.excess) p.height rel = true
    · by_cases h2 : specPushOk (S k.excess) p = true
      · have g1 : specNrdOk (cutSpec S c k.excess) p.height rel = true := specNrdOk_aboveCut h1
        have g2 : specPushOk (cutSpec S c k.excess) p = true := specPushOk_aboveCut h2
        simp only [g1, g2, if_true]
        congr 1
        funext e
        rw [hS']
        by_cases he : e = k.excess
        · subst he; simp [cutSpec, aboveCut_cons hc]
        · simp [cutSpec, upd, he]
      · simp [h1, h2] at hok
    · simp [h1] at hok

theorem sApplyKernels_cut {S S' : Spec ε} {h c : Nat} {ks : List (Kernel ε × Nat)}
    (hc : ∀ kp ∈ ks, c < kp.2) (hok : sApplyKernels S h ks = ⟨S', .ok ()⟩) :
    sApplyKernels (cutSpec S c) h ks = ⟨cutSpec S' c, .ok ()⟩ := by
  induction ks generalizing S with
  | nil =>
    simp only [sApplyKernels] at hok ⊢
    injection hok with h1; subst h1; rfl
  | cons kp ks ih =>
    obtain ⟨S1, h1, h2⟩ := sApplyKernels_cons_ok hok
    obtain ⟨k, pos⟩ := kp
    have g1 := sApplyKernelRules_cut (c := c) (hc (k, pos) (by simp)) h1
    simp only [sApplyKernels, g1]
    exact ih (fun kp hm => hc kp (List.mem_cons_of_mem _ hm)) h2

theorem PathOK.above {c c' : Nat} {bs : List (Blk ε)} (hp : PathOK c bs) (hc : c' ≤ c) :
    ∀ b ∈ bs, ∀ kp ∈ b.kernels, c' < kp.2 := by
  induction bs generalizing c with
  | nil => intro b hb; cases hb
  | cons x bs ih =>
    obtain ⟨p1, p2, p3, p4⟩ := hp
    intro b hb kp hk
    rcases List.mem_cons.mp hb with rfl | hb
    · have := (p2 kp hk).1; omega
    · exact ih p4 (by omega) b hb kp hk

theorem sApplyBlocks_cut {S S' : Spec ε} {c : Nat} {bs : List (Blk ε)}
    (hc : ∀ b ∈ bs, ∀ kp ∈ b.kernels, c < kp.2) (hok : sApplyBlocks S bs = ⟨S', .ok ()⟩) :
    sApplyBlocks (cutSpec S c) bs = ⟨cutSpec S' c, .ok ()⟩ := by
  induction bs generalizing S with
  | nil =>
    simp only [sApplyBlocks] at hok ⊢
    injection hok with h1; subst h1; rfl
  | cons b bs ih =>
    obtain ⟨S1, h1, h2⟩ := sApplyBlocks_cons_ok hok
    have g1 : sApplyBlock (cutSpec S c) b = ⟨cutSpec S1 c, .ok ()⟩ :=
      sApplyKernels_cut (hc b (by simp)) h1
    simp only [sApplyBlocks, g1]
    exact ih (fun b' hm => hc b' (List.mem_cons_of_mem _ hm)) h2

theorem cutSpec_below {S : Spec ε} {c : Nat} (h : Below S c) : cutSpec S c = fun _ => [] := by
  funext e; exact aboveCut_below (h e)

end GV.Nrd
