import GrinVerif.Model.Tx
/-! Lemmas about `sortBy` (merge sort by a natural-number key) and `adjDup` used by C12. -/
namespace GV.Tx
open List

/-- key order as a Prop -/
def KeyLe (key : Nat → Nat) (a b : Nat) : Prop := key a ≤ key b

/-- `key` does not identify two different elements of `l` -/
def InjOn (key : Nat → Nat) (l : List Nat) : Prop :=
  ∀ a b, a ∈ l → b ∈ l → key a = key b → a = b

theorem InjOn.of_perm {key l₁ l₂} (h : InjOn key l₁) (p : l₁ ~ l₂) : InjOn key l₂ :=
  fun a b ha hb => h a b (p.mem_iff.2 ha) (p.mem_iff.2 hb)

theorem InjOn.of_subset {key l₁ l₂} (h : InjOn key l₁) (s : ∀ a, a ∈ l₂ → a ∈ l₁) : InjOn key l₂ :=
  fun a b ha hb => h a b (s a ha) (s b hb)

theorem injOn_id (l : List Nat) : InjOn id l := fun _ _ _ _ h => h

theorem sortBy_perm (key : Nat → Nat) (l : List Nat) : sortBy key l ~ l :=
  mergeSort_perm l _

theorem mem_sortBy {key : Nat → Nat} {l : List Nat} {a : Nat} : a ∈ sortBy key l ↔ a ∈ l :=
  (sortBy_perm key l).mem_iff

theorem sortBy_sorted (key : Nat → Nat) (l : List Nat) : (sortBy key l).Pairwise (KeyLe key) := by
  have := pairwise_mergeSort (le := fun a b => decide (key a ≤ key b))
    (by intro a b c; simp only [decide_eq_true_eq]; omega)
    (by intro a b; simp only [Bool.or_eq_true, decide_eq_true_eq]; omega) l
  exact this.imp (by intro a b h; simpa [KeyLe] using h)

theorem sortBy_of_sorted {key : Nat → Nat} {l : List Nat} (h : l.Pairwise (KeyLe key)) :
    sortBy key l = l := by
  apply mergeSort_of_pairwise
  exact h.imp (by intro a b h; simpa [KeyLe] using h)

/-- two sorted permutations of each other are equal when the key is injective on them -/
theorem eq_of_sorted_perm {key : Nat → Nat} {l₁ l₂ : List Nat} (inj : InjOn key l₁)
    (s₁ : l₁.Pairwise (KeyLe key)) (s₂ : l₂.Pairwise (KeyLe key)) (p : l₁ ~ l₂) : l₁ = l₂ := by
  apply Perm.eq_of_pairwise (le := KeyLe key) _ s₁ s₂ p
  intro a b ha hb h1 h2
  exact inj a b ha (p.mem_iff.2 hb) (Nat.le_antisymm h1 h2)

theorem sortBy_congr {key : Nat → Nat} {l₁ l₂ : List Nat} (inj : InjOn key l₁) (p : l₁ ~ l₂) :
    sortBy key l₁ = sortBy key l₂ := by
  apply eq_of_sorted_perm (inj.of_perm (sortBy_perm key l₁).symm) (sortBy_sorted _ _) (sortBy_sorted _ _)
  exact (sortBy_perm key l₁).trans (p.trans (sortBy_perm key l₂).symm)

theorem sortBy_idem (key : Nat → Nat) (l : List Nat) : sortBy key (sortBy key l) = sortBy key l :=
  sortBy_of_sorted (sortBy_sorted key l)

theorem sortBy_nil (key : Nat → Nat) : sortBy key [] = [] := by simp [sortBy]

theorem count_sortBy (key : Nat → Nat) (l : List Nat) (a : Nat) : (sortBy key l).count a = l.count a :=
  (sortBy_perm key l).count_eq a

/-- on a list sorted by an injective key, "two adjacent equal elements" is "not duplicate-free" -/
theorem adjDup_false_iff {key : Nat → Nat} : ∀ {l : List Nat}, InjOn key l → l.Pairwise (KeyLe key) →
    (adjDup l = false ↔ l.Nodup)
  | [], _, _ => by simp [adjDup]
  | [a], _, _ => by simp [adjDup]
  | a :: b :: t, inj, s => by
    have inj' : InjOn key (b :: t) := inj.of_subset (fun x hx => mem_cons_of_mem _ hx)
    have s' : (b :: t).Pairwise (KeyLe key) := (pairwise_cons.1 s).2
    have ih := adjDup_false_iff inj' s'
    simp only [adjDup, Bool.or_eq_false_iff, beq_eq_false_iff_ne, ne_eq]
    rw [ih, nodup_cons (a := a) (l := b :: t)]
    constructor
    · rintro ⟨hab, nd⟩
      refine ⟨?_, nd⟩
      intro hm
      rcases mem_cons.1 hm with h | h
      · exact hab h
      · -- a ∈ t: key b ≤ key a (b before a) and key a ≤ key b
        have h1 : KeyLe key a b := (pairwise_cons.1 s).1 b mem_cons_self
        have h2 : KeyLe key b a := (pairwise_cons.1 s').1 a h
        have := inj a b mem_cons_self (mem_cons_of_mem _ mem_cons_self) (Nat.le_antisymm h1 h2)
        exact hab this
    · rintro ⟨hm, nd⟩
      exact ⟨fun h => hm (h ▸ mem_cons_self), nd⟩

theorem adjDup_sortBy {key : Nat → Nat} {l : List Nat} (inj : InjOn key l) :
    adjDup (sortBy key l) = false ↔ l.Nodup := by
  rw [adjDup_false_iff (inj.of_perm (sortBy_perm key l).symm) (sortBy_sorted key l)]
  exact (sortBy_perm key l).nodup_iff

theorem count_map_of_injOn {f : Nat → Nat} {l : List Nat} {x : Nat} (hx : x ∈ l) (inj : InjOn f l) :
    (l.map f).count (f x) = l.count x := by
  induction l with
  | nil => simp at hx
  | cons a t ih =>
    by_cases hxt : x ∈ t
    · have ih' := ih hxt (inj.of_subset (fun y hy => mem_cons_of_mem _ hy))
      simp only [map_cons, count_cons, ih']
      congr 1
      by_cases h : a = x
      · simp [h]
      · have : f a ≠ f x := fun e => h (inj a x mem_cons_self (mem_cons_of_mem _ hxt) e)
        simp [h, this]
    · have hax : a = x := by
        rcases mem_cons.1 hx with h | h
        · exact h.symm
        · exact absurd h hxt
      subst hax
      have h1 : t.count a = 0 := count_eq_zero.2 hxt
      have h2 : (t.map f).count (f a) = 0 := by
        apply count_eq_zero.2
        intro hm
        obtain ⟨y, hy, e⟩ := mem_map.1 hm
        exact hxt (inj y a (mem_cons_of_mem _ hy) mem_cons_self e ▸ hy)
      simp [h1, h2]

end GV.Tx
