import GrinVerif.Lemmas.PowWalk
/-! Cuckaroom verifier: the bucket lists built by the first loop, the inner search, the walk. -/
namespace GV.Pow

/-- largest `k < n` with `p k`, else `nil` -/
def lastBelow (p : Nat → Bool) (nil : Nat) : Nat → Nat
  | 0 => nil
  | n+1 => if p n then n else lastBelow p nil n

theorem lastBelow_spec (p : Nat → Bool) (nil : Nat) : ∀ n,
    (lastBelow p nil n = nil ∧ ∀ k, k < n → p k = false) ∨
    (lastBelow p nil n < n ∧ p (lastBelow p nil n) = true ∧
      ∀ k, k < n → p k = true → k ≤ lastBelow p nil n) := by
  intro n
  induction n with
  | zero => left; exact ⟨rfl, fun k hk => absurd hk (Nat.not_lt_zero k)⟩
  | succ n ih =>
    unfold lastBelow
    by_cases hp : p n = true
    · right
      rw [if_pos hp]
      exact ⟨Nat.lt_succ_self n, hp, fun k hk _ => Nat.lt_succ_iff.mp hk⟩
    · rw [if_neg hp]
      rcases ih with ⟨h1, h2⟩ | ⟨h1, h2, h3⟩
      · left
        refine ⟨h1, fun k hk => ?_⟩
        rcases Nat.lt_succ_iff_lt_or_eq.mp hk with hk | rfl
        · exact h2 k hk
        · simpa using hp
      · right
        refine ⟨Nat.lt_succ_of_lt h1, h2, fun k hk hpk => ?_⟩
        rcases Nat.lt_succ_iff_lt_or_eq.mp hk with hk | rfl
        · exact h3 k hk hpk
        · exact absurd hpk hp

/-- endpoints of the `k`-th edge of the proof -/
def frmF (ep : Nat → Nat × Nat) (ns : List Nat) (k : Nat) : Nat := (ep (ns.getD k 0)).1
def toF (ep : Nat → Nat × Nat) (ns : List Nat) (k : Nat) : Nat := (ep (ns.getD k 0)).2

theorem map_getD_fst (ep : Nat → Nat × Nat) (ns : List Nat) (k : Nat) (hk : k < ns.length) :
    ((ns.map ep).getD k (0, 0)).1 = frmF ep ns k := by
  simp [frmF, List.getD_eq_getElem?_getD, hk]

theorem map_getD_snd (ep : Nat → Nat × Nat) (ns : List Nat) (k : Nat) (hk : k < ns.length) :
    ((ns.map ep).getD k (0, 0)).2 = toF ep ns k := by
  simp [toF, List.getD_eq_getElem?_getD, hk]

/-- state of the first loop after `n` iterations, in closed form -/
structure RoomInv (P : Params) (ep : Nat → Nat × Nat) (ns : List Nat) (n : Nat) (s : RoomSt) : Prop where
  frm : ∀ k, k < n → s.frm k = frmF ep ns k
  to : ∀ k, k < n → s.to k = toF ep ns k
  head : ∀ b, s.head b = lastBelow (fun k => P.bk (frmF ep ns k) == b) ns.length n
  prev : ∀ k, k < n → s.prev k =
    lastBelow (fun k' => P.bk (frmF ep ns k') == P.bk (frmF ep ns k)) ns.length k

theorem roomInv_init (P : Params) (ep : Nat → Nat × Nat) (ns : List Nat) :
    RoomInv P ep ns 0 (RoomSt.init ns.length) :=
  ⟨fun k hk => absurd hk (Nat.not_lt_zero k), fun k hk => absurd hk (Nat.not_lt_zero k),
   fun _ => rfl, fun k hk => absurd hk (Nat.not_lt_zero k)⟩

theorem getD_append_cons (pre xs : List Nat) (x : Nat) :
    (pre ++ x :: xs).getD pre.length 0 = x := by
  simp [List.getD_eq_getElem?_getD]

theorem roomBuild_spec (P : Params) (ep : Nat → Nat × Nat) (ns : List Nat) :
    ∀ xs pre last s s', ns = pre ++ xs → RoomInv P ep ns pre.length s →
      roomBuild P ep xs pre.length last s = .ok s' →
      RoomInv P ep ns ns.length s' ∧ (∀ x ∈ xs, x ≤ P.edgeMask) ∧ ascChain last xs := by
  intro xs
  induction xs with
  | nil =>
    intro pre last s s' hns inv h
    simp only [roomBuild] at h
    injection h with h
    subst h
    have : ns.length = pre.length := by simp [hns]
    rw [this]
    exact ⟨inv, by simp, trivial⟩
  | cons x xs ih =>
    intro pre last s s' hns inv h
    unfold roomBuild at h
    by_cases h1 : x > P.edgeMask
    · simp [h1] at h
    · by_cases h2 : notAsc last x = true
      · simp [h1, h2] at h
      · have h2' : notAsc last x = false := by simpa using h2
        simp only [h1, h2', if_false, Bool.false_eq_true] at h
        have hx : ns.getD pre.length 0 = x := by rw [hns]; exact getD_append_cons pre xs x
        have hns' : ns = (pre ++ [x]) ++ xs := by simp [hns]
        have hlen : (pre ++ [x]).length = pre.length + 1 := by simp
        have hfn : frmF ep ns pre.length = (ep x).1 := by unfold frmF; rw [hx]
        have htn : toF ep ns pre.length = (ep x).2 := by unfold toF; rw [hx]
        rw [← hlen] at h
        have inv' : RoomInv P ep ns (pre ++ [x]).length
            { frm := upd s.frm pre.length (ep x).1,
              prev := upd s.prev pre.length (s.head (P.bk (ep x).1)),
              head := upd s.head (P.bk (ep x).1) pre.length,
              to := upd s.to pre.length (ep x).2,
              xf := s.xf ^^^ (ep x).1, xt := s.xt ^^^ (ep x).2 } := by
          rw [hlen]
          constructor
          · intro k hk
            by_cases e : k = pre.length
            · subst e; simp [upd, hfn]
            · simp only [upd, e, if_false]; exact inv.frm k (by omega)
          · intro k hk
            by_cases e : k = pre.length
            · subst e; simp [upd, htn]
            · simp only [upd, e, if_false]; exact inv.to k (by omega)
          · intro b
            simp only [upd, lastBelow, hfn]
            by_cases e : b = P.bk (ep x).1
            · subst e; simp
            · have e' : ¬ (P.bk (ep x).1 = b) := fun h => e h.symm
              simp only [e, if_false, beq_iff_eq, e']
              exact inv.head b
          · intro k hk
            by_cases e : k = pre.length
            · subst e
              simp only [upd, if_true, hfn]
              exact inv.head _
            · simp only [upd, e, if_false]; exact inv.prev k (by omega)
        obtain ⟨r1, r2, r3⟩ := ih (pre ++ [x]) (some x) _ s' hns' inv' h
        refine ⟨r1, ?_, ?_⟩
        · intro y hy
          rcases List.mem_cons.mp hy with rfl | hy
          · omega
          · exact r2 y hy
        · exact ⟨h2', r3⟩

/-- the inner search returns the *largest* edge index whose `from` is the target -/
theorem roomFind_ok (P : Params) (ep : Nat → Nat × Nat) (ns : List Nat) (s : RoomSt)
    (inv : RoomInv P ep ns ns.length s) (target : Nat) :
    ∀ f k r, k ≤ ns.length →
      (k < ns.length → P.bk (frmF ep ns k) = P.bk target) →
      (∀ k', k' < ns.length → frmF ep ns k' = target → k ≠ ns.length ∧ k' ≤ k) →
      roomFind ns.length s target f k = .ok r →
      r < ns.length ∧ frmF ep ns r = target ∧
        ∀ k', k' < ns.length → frmF ep ns k' = target → k' ≤ r := by
  intro f
  induction f with
  | zero => intro k r _ _ _ h; simp [roomFind] at h
  | succ f ih =>
    intro k r hk hb hm h
    unfold roomFind at h
    by_cases e : k = ns.length
    · simp [e] at h
    · have hkl : k < ns.length := by omega
      simp only [e, if_false] at h
      by_cases e2 : s.frm k = target
      · simp only [e2, if_true] at h
        injection h with h
        subst h
        rw [inv.frm k hkl] at e2
        exact ⟨hkl, e2, fun k' hk' hf => (hm k' hk' hf).2⟩
      · simp only [e2, if_false] at h
        rw [inv.frm k hkl] at e2
        rw [inv.prev k hkl] at h
        have sp := lastBelow_spec (fun k' => P.bk (frmF ep ns k') == P.bk (frmF ep ns k)) ns.length k
        refine ih _ r ?_ ?_ ?_ h
        · rcases sp with ⟨h1, _⟩ | ⟨h1, _, _⟩
          · omega
          · omega
        · intro hlt
          rcases sp with ⟨h1, _⟩ | ⟨_, h2, _⟩
          · omega
          · rw [← hb hkl]; simpa using h2
        · intro k' hk' hf
          have hle := (hm k' hk' hf).2
          have hne : k' ≠ k := fun h => e2 (h ▸ hf)
          have hlt : k' < k := by omega
          have hbk : P.bk (frmF ep ns k') = P.bk (frmF ep ns k) := by rw [hf, hb hkl]
          rcases sp with ⟨_, h2⟩ | ⟨h1, _, h3⟩
          · have := h2 k' hlt
            simp [hbk] at this
          · exact ⟨by omega, h3 k' hlt (by simp [hbk])⟩

/-- one iteration of the outer loop as a function of the current edge -/
def roomStep (P : Params) (size : Nat) (s : RoomSt) (i : Nat) : Except Err Nat :=
  roomFind size s (s.to i) (size+1) (s.head (P.bk (s.to i)))

theorem roomStep_ok (P : Params) (ep : Nat → Nat × Nat) (ns : List Nat) (s : RoomSt)
    (inv : RoomInv P ep ns ns.length s) (i r : Nat)
    (h : roomStep P ns.length s i = .ok r) :
    r < ns.length ∧ frmF ep ns r = s.to i ∧
      ∀ k', k' < ns.length → frmF ep ns k' = s.to i → k' ≤ r := by
  unfold roomStep at h
  rw [inv.head] at h
  have sp := lastBelow_spec (fun k => P.bk (frmF ep ns k) == P.bk (s.to i)) ns.length ns.length
  refine roomFind_ok P ep ns s inv (s.to i) _ _ r ?_ ?_ ?_ h
  · rcases sp with ⟨h1, _⟩ | ⟨h1, _, _⟩ <;> omega
  · intro hlt
    rcases sp with ⟨h1, _⟩ | ⟨_, h2, _⟩
    · omega
    · simpa using h2
  · intro k' hk' hf
    rcases sp with ⟨_, h2⟩ | ⟨h1, _, h3⟩
    · have := h2 k' hk'
      simp [hf] at this
    · exact ⟨by omega, h3 k' hk' (by simp [hf])⟩

theorem roomWalk_trace (P : Params) (size : Nat) (s : RoomSt) :
    ∀ f vis i n m, roomWalk P size s f vis i n = .ok m →
      ∃ tr, Trace (roomStep P size s) i tr ∧ m = n + tr.length := by
  intro f
  induction f with
  | zero => intro vis i n m h; simp [roomWalk] at h
  | succ f ih =>
    intro vis i n m h
    unfold roomWalk at h
    by_cases hv : vis i = true
    · simp [hv] at h
    · simp only [hv] at h
      have hstep : roomStep P size s i =
          roomFind size s (s.to i) (size+1) (s.head (P.bk (s.to i))) := rfl
      cases hs : roomFind size s (s.to i) (size+1) (s.head (P.bk (s.to i))) with
      | error e => simp [hs] at h
      | ok k =>
        simp only [hs] at h
        by_cases h0 : k = 0
        · simp only [h0, if_true] at h
          injection h with h
          refine ⟨[i], ⟨by simp, by simp, ?_, ?_⟩, by simp [← h]⟩
          · intro t ht; simp at ht
          · simp [hstep, hs, h0]
        · simp only [h0, if_false] at h
          obtain ⟨tr, htr, hm⟩ := ih _ k (n+1) m h
          refine ⟨i :: tr, ⟨by simp, by simp, ?_, ?_⟩, by simp [hm]; omega⟩
          · intro t ht
            cases t with
            | zero =>
              simp only [List.getD_cons_zero, List.getD_cons_succ, htr.head]
              exact ⟨by rw [hstep, hs], h0⟩
            | succ t =>
              simp only [List.getD_cons_succ]
              exact htr.chain t (by simpa using ht)
          · have hp := htr.pos
            have : (i :: tr).length - 1 = (tr.length - 1) + 1 := by simp; omega
            rw [this, List.getD_cons_succ]
            exact htr.last



/-- an accepted Cuckaroom walk of full length is a simple directed cycle through all edges -/
theorem room_cycle (P : Params) (ep : Nat → Nat × Nat) (ns : List Nat) (s : RoomSt)
    (inv : RoomInv P ep ns ns.length s) (tr : List Nat)
    (htr : Trace (roomStep P ns.length s) 0 tr) (hlen : tr.length = ns.length) :
    IsDirCycle (ns.map ep) tr := by
  have hL : 0 < ns.length := hlen ▸ htr.pos
  -- every trace element is an edge index, and the largest one with its `from` value
  have hel : ∀ a, a < ns.length → tr.getD a 0 < ns.length ∧
      ∀ k', k' < ns.length → frmF ep ns k' = frmF ep ns (tr.getD a 0) → k' ≤ tr.getD a 0 := by
    intro a ha
    cases a with
    | zero =>
      have hl := htr.last
      have := roomStep_ok P ep ns s inv _ _ hl
      rw [htr.head]
      exact ⟨hL, fun k' hk' hf => this.2.2 k' hk' (by rw [hf, this.2.1])⟩
    | succ a =>
      have hc := (htr.chain a (by omega)).1
      have := roomStep_ok P ep ns s inv _ _ hc
      exact ⟨this.1, fun k' hk' hf => this.2.2 k' hk' (by rw [hf, this.2.1])⟩
  have hmem : ∀ x ∈ tr, x < ns.length := by
    intro x hx
    obtain ⟨a, ha, rfl⟩ := List.getElem_of_mem hx
    have := (hel a (hlen ▸ ha)).1
    simpa [List.getD_eq_getElem?_getD, ha] using this
  have hlenm : (ns.map ep).length = ns.length := by simp
  constructor
  · rw [hlenm]; exact perm_range_of_nodup htr.nodup hmem hlen
  · intro t ht
    rw [hlenm] at ht ⊢
    have ht1 := (hel t ht).1
    by_cases hlast : t + 1 < ns.length
    · have hc := (htr.chain t (by omega)).1
      have r := roomStep_ok P ep ns s inv _ _ hc
      rw [Nat.mod_eq_of_lt hlast, map_getD_snd ep ns _ ht1, map_getD_fst ep ns _ r.1, r.2.1,
        inv.to _ ht1]
    · have e : t + 1 = ns.length := by omega
      have hl := htr.last
      rw [hlen] at hl
      have e2 : ns.length - 1 = t := by omega
      rw [e2] at hl
      have r := roomStep_ok P ep ns s inv _ _ hl
      rw [e, Nat.mod_self, htr.head, map_getD_snd ep ns _ ht1, map_getD_fst ep ns _ hL, r.2.1,
        inv.to _ ht1]
  · intro a b ha hb hab heq
    rw [hlenm] at ha hb
    rw [map_getD_fst ep ns _ (hel a ha).1, map_getD_fst ep ns _ (hel b hb).1] at heq
    have h1 := (hel a ha).2 _ (hel b hb).1 heq.symm
    have h2 := (hel b hb).2 _ (hel a ha).1 heq
    exact hab (htr.inj (by omega) (by omega) (Nat.le_antisymm h2 h1))

end GV.Pow
