import GrinVerif.Lemmas.StoreFiles
import GrinVerif.Lemmas.PruneListCount
/-! Backend-level consequences: the read law of a compacted hash file, reopen identities,
what `check_compact` keeps, the rewrite loop of `write_tmp_pruned`. Core Lean only. -/
namespace GV.Store
open GV GV.Pmmr

/-! ### `write_tmp_pruned` -/

/-- keep the elements whose index (counted from `cur`) satisfies `keep` -/
def keepIdx {E : Type} (keep : Nat → Bool) : List E → Nat → List E
  | [], _ => []
  | e :: es, cur => if keep cur then e :: keepIdx keep es (cur + 1) else keepIdx keep es (cur + 1)

theorem keepIdx_congr {E : Type} (k1 k2 : Nat → Bool) (es : List E) (cur : Nat)
    (h : ∀ i, cur ≤ i → k1 i = k2 i) : keepIdx k1 es cur = keepIdx k2 es cur := by
  induction es generalizing cur with
  | nil => rfl
  | cons e es ih =>
    simp only [keepIdx, h cur (Nat.le_refl _)]
    rw [ih (cur + 1) (fun i hi => h i (by omega))]

/-- the loop of `write_tmp_pruned` (test `contains`, then drop the *first* entry of the list) is
correct for an ascending list of indices: it removes exactly the listed indices -/
theorem writeTmpLoop_spec {E : Type} (es : List E) (cur : Nat) (pp : List Nat) (hs : Sorted pp)
    (hge : ∀ x ∈ pp, cur ≤ x) :
    AOF.writeTmpLoop es cur pp = keepIdx (fun i => !pp.elem i) es cur := by
  induction es generalizing cur pp with
  | nil => rfl
  | cons e es ih =>
    simp only [AOF.writeTmpLoop, keepIdx]
    by_cases hc : pp.elem cur = true
    · -- `cur` is the head of `pp`
      cases pp with
      | nil => simp at hc
      | cons a t =>
        have hs' := List.pairwise_cons.1 hs
        have ha : a = cur := by
          have hmem : cur ∈ a :: t := by simpa using hc
          rcases List.mem_cons.1 hmem with h | h
          · exact h.symm
          · have := hs'.1 cur h; have := hge a (by simp); omega
        subst ha
        rw [if_pos hc]
        simp only [hc, Bool.not_true, List.drop_succ_cons, List.drop_zero]
        rw [ih (a + 1) t hs'.2 (fun x hx => by have := hs'.1 x hx; omega)]
        apply keepIdx_congr
        intro i hi
        have : i ≠ a := by omega
        simp [this]
    · have hc' : pp.elem cur = false := by simpa using hc
      rw [if_neg hc]
      simp only [hc', Bool.not_false, if_true]
      rw [ih (cur + 1) pp hs (fun x hx => by
        have := hge x hx
        have : x ≠ cur := by intro h; subst h; simp [hx] at hc'
        omega)]

/-! ### reading a compacted hash file -/

namespace Backend
variable {H : Type}

/-- **read law**: if the hash file holds the reference hashes of exactly the positions that
survive compaction (in order), then for every position that is not compacted away the shifted
read `hash_file.read(1 + pos0 − get_shift(pos0))` returns the reference hash of that position -/
theorem getPeakFromFile_of_layout {b : Backend H} (ref : Nat → H) (size : Nat)
    (hinv : b.pruneList.Inv) (hclean : b.hashFile.Clean)
    (hlay : b.hashFile.disk = (layout b.pruneList.bitmap size).map ref)
    (pos : Nat) (hpos : pos < size) (hnc : compactedP b.pruneList.bitmap pos = false) :
    b.getPeakFromFile pos = some (ref pos) := by
  unfold getPeakFromFile AOF.read1
  have hle := PruneList.getShift_le hinv pos hnc
  rw [if_neg (by omega)]
  have : 1 + pos - b.pruneList.getShift pos - 1 = pos - b.pruneList.getShift pos := by omega
  rw [this, AOF.read_clean hclean, hlay, List.getElem?_map, layout_index hinv size pos hpos hnc]
  rfl

/-- `get_from_file` is the same read unless `is_compacted` says the position is gone -/
theorem getFromFile_eq (b : Backend H) (pos : Nat) :
    b.getFromFile pos = if b.isCompacted pos then none else b.getPeakFromFile pos := rfl

/-- **read law for `get_from_file`**: for a position outside the leaf set that `is_compacted`
does not report as gone, `get_from_file` returns the reference hash -/
theorem getFromFile_of_layout {b : Backend H} (ref : Nat → H) (size : Nat)
    (hinv : b.pruneList.Inv) (hclean : b.hashFile.Clean)
    (hlay : b.hashFile.disk = (layout b.pruneList.bitmap size).map ref)
    (pos : Nat) (hpos : pos < size) (hl : b.leafSet.includes pos = false)
    (hnc : b.isCompacted pos = false) :
    b.getFromFile pos = some (ref pos) := by
  rw [getFromFile_eq, hnc]
  simp only [Bool.false_eq_true, if_false]
  apply getPeakFromFile_of_layout ref size hinv hclean hlay pos hpos
  rw [PruneList.isCompacted_iff hinv pos hl] at hnc
  by_cases hr : b.pruneList.isPrunedRoot pos = true
  · have hm : (1 + pos) ∈ b.pruneList.bitmap := contains_iff.1 hr
    have := PruneList.root_not_compacted hinv (1 + pos) hm
    simpa using this
  · have hr' : b.pruneList.isPrunedRoot pos = false := by simpa using hr
    simpa [hr'] using hnc

/-- positions at or beyond the last pruned root are never compacted -/
theorem not_compacted_of_ge_max {bm : Bitmap} (hs : Sorted bm) (q : Nat)
    (hq : (Bm.maximum bm).getD 0 ≤ q + 1) : compactedP bm q = false := by
  unfold compactedP
  rw [List.any_eq_false]
  intro x hx
  have := le_maximum_of_sorted hs x hx
  unfold interior; simp; omega

theorem countP_range_split (p : Nat → Bool) (a n : Nat) (han : a ≤ n)
    (h : ∀ q, a ≤ q → p q = false) : (List.range n).countP p = (List.range a).countP p := by
  induction n with
  | zero => have : a = 0 := by omega
            subst this; rfl
  | succ n ih =>
    by_cases hn : a = n + 1
    · subst hn; rfl
    · rw [List.range_succ, List.countP_append, ih (by omega)]
      simp [h n (by omega)]

/-- **`unpruned_size` is the reference size**: hash-file length plus the total shift gives back
the size of the unpruned MMR whenever the file holds exactly the surviving positions `< size` and
every pruned root is a position of that MMR -/
theorem unprunedSize_of_layout {b : Backend H} (size : Nat) (hinv : b.pruneList.Inv)
    (hlen : b.hashFile.disk.length = (layout b.pruneList.bitmap size).length)
    (hroots : ∀ x ∈ b.pruneList.bitmap, x ≤ size) : b.unprunedSize = size := by
  unfold unprunedSize hashSize AOF.sizeInElmts PruneList.getTotalShift
  rw [hlen]
  have hlay : (layout b.pruneList.bitmap size).length + (List.range size).countP (compactedP b.pruneList.bitmap) = size := by
    unfold layout
    rw [← List.countP_eq_length_filter]
    have := countP_not_add (compactedP b.pruneList.bitmap) (List.range size)
    simpa using this
  cases hm : Bm.maximum b.pruneList.bitmap with
  | none =>
    have hnil : b.pruneList.bitmap = [] := by
      unfold Bm.maximum at hm; simpa using hm
    have hz : b.pruneList.getShift (Option.getD none 1 - 1) = 0 := by
      rw [PruneList.getShift_spec hinv, hnil]; rfl
    have hc : (List.range size).countP (compactedP b.pruneList.bitmap) = 0 := by
      rw [hnil]; simp [compactedP]
    rw [hz]; omega
  | some m =>
    have hmem := maximum_mem hm
    have hm1 := hinv.pos m hmem
    have hms := hroots m hmem
    have hnc := PruneList.root_not_compacted hinv m hmem
    simp only [Option.getD_some]
    rw [PruneList.getShift_counts hinv (m - 1) hnc]
    rw [← countP_range_split (compactedP b.pruneList.bitmap) (m - 1) size (by omega)
      (fun q hq => not_compacted_of_ge_max hinv.sorted q (by rw [hm]; simp; omega))]
    exact hlay

/-! ### reopen -/

/-- **`sync` then drop + reopen is the identity** (fixed-size data file; the prune list satisfies
the invariant, which every list built by `append`s does) -/
theorem reopen_sync (el : Bytes → Option Nat) {b : Backend H} {df : AOF Bytes}
    (hd : b.dataFile = .fixed df) (hinv : b.pruneList.Inv) : b.sync.reopen el = b.sync := by
  unfold reopen sync
  simp only [hd, DFile.flush, DFile.reopen, AOF.reopen_flush, LeafSet.flush, LeafSet.reopen,
    PruneList.openBm_of_inv hinv]

/-- `check_compact` does not touch the unspent-leaf set -/
theorem checkCompact_leafSet (el : Bytes → Option Nat) (b : Backend H) (cutoff : Nat) (rm : Bitmap) :
    (b.checkCompact el cutoff rm).leafSet.bitmap = b.leafSet.bitmap := rfl

theorem checkCompact_leafPosIter (el : Bytes → Option Nat) (b : Backend H) (cutoff : Nat) (rm : Bitmap) :
    (b.checkCompact el cutoff rm).leafPosIter = b.leafPosIter := rfl

theorem checkCompact_nUnprunedLeaves (el : Bytes → Option Nat) (b : Backend H) (cutoff : Nat) (rm : Bitmap) :
    (b.checkCompact el cutoff rm).nUnprunedLeaves = b.nUnprunedLeaves := rfl

/-- the prune list written by `check_compact` satisfies the invariant, whatever was removed -/
theorem checkCompact_inv (el : Bytes → Option Nat) (b : Backend H) (cutoff : Nat) (rm : Bitmap) :
    (b.checkCompact el cutoff rm).pruneList.Inv := PruneList.new_inv _

/-- a compacted backend survives drop + reopen unchanged (fixed-size data file, synced before) -/
theorem reopen_checkCompact (el : Bytes → Option Nat) {b : Backend H} {df : AOF Bytes}
    (hc : CleanFixed b df) (cutoff : Nat) (rm : Bitmap) :
    (b.checkCompact el cutoff rm).reopen el = b.checkCompact el cutoff rm := by
  have hinv := checkCompact_inv el b cutoff rm
  obtain ⟨⟨hb1, hb2, hb3⟩, hdata, ⟨hd1, hd2, hd3⟩, hl⟩ := hc
  unfold reopen
  unfold checkCompact at hinv ⊢
  simp only [hdata, DFile.compact, DFile.reopen, LeafSet.flush, LeafSet.reopen] at hinv ⊢
  rw [PruneList.openBm_of_inv hinv]
  simp only [AOF.replaceWith, AOF.init, AOF.ofDisk, hb1, hb2, hd1, hd2]

end Backend
end GV.Store
