import GrinVerif.Model.Crash
import GrinVerif.Lemmas.CrashBasic
import GrinVerif.Lemmas.CrashPath
import GrinVerif.Lemmas.CrashRecover
import GrinVerif.Lemmas.CrashSteps
/-! The unspent set along a path, at the level of membership: it is a duplicate-free sublist of the
created leaves; spending removes exactly the leaves the spent index records; and **rewinding with
the spent index is exact**: for a leaf created on the prefix `Q` of `Q ++ R`,
`l ∈ unspentOf Q ↔ l ∈ unspentOf (Q ++ R) ∨ l ∈ undo Q R`. -/
namespace GV.Crash

/-! ### created leaves -/

theorem mem_leavesOf (P : List BlkInfo) (l : Leaf) :
    l ∈ leavesOf P ↔ ∃ x ∈ P, x.id = l.1 ∧ l.2 ∈ x.outs := by
  simp only [leavesOf, List.mem_flatMap, List.mem_map]
  constructor
  · rintro ⟨x, hx, o, ho, rfl⟩; exact ⟨x, hx, rfl, ho⟩
  · rintro ⟨x, hx, h1, h2⟩; exact ⟨x, hx, l.2, h2, by rw [h1]⟩

/-- well-formed blocks: no block lists an output or an input twice -/
structure BlocksWF (P : List BlkInfo) : Prop where
  outs : ∀ x ∈ P, x.outs.Nodup
  ins : ∀ x ∈ P, x.ins.Nodup

theorem BlocksWF.of_append_left {P Q : List BlkInfo} (h : BlocksWF (P ++ Q)) : BlocksWF P :=
  ⟨fun x hx => h.outs x (List.mem_append_left _ hx), fun x hx => h.ins x (List.mem_append_left _ hx)⟩

theorem nodup_map_pair (i : Nat) (outs : List Nat) (h : outs.Nodup) :
    (outs.map fun o => (i, o)).Nodup := by
  rw [List.nodup_iff_pairwise_ne] at h ⊢
  rw [List.pairwise_map]
  exact h.imp (fun hab heq => hab (by simpa using heq))

/-- distinct block ids and duplicate-free output lists: every leaf is created once -/
theorem leavesOf_nodup (P : List BlkInfo) (hid : (P.map (·.id)).Nodup) (ho : ∀ x ∈ P, x.outs.Nodup) :
    (leavesOf P).Nodup := by
  induction P with
  | nil => simp [leavesOf]
  | cons x P ih =>
    have e : leavesOf (x :: P) = (x.outs.map fun o => (x.id, o)) ++ leavesOf P := by simp [leavesOf]
    rw [e, List.nodup_append]
    rw [List.map_cons, List.nodup_cons] at hid
    refine ⟨nodup_map_pair _ _ (ho x (by simp)), ih hid.2 (fun y hy => ho y (by simp [hy])), ?_⟩
    intro a ha c hc hac
    subst hac
    obtain ⟨y, hy, h1, _⟩ := (mem_leavesOf P a).1 hc
    have : a.1 = x.id := by
      simp only [List.mem_map] at ha
      obtain ⟨o, _, rfl⟩ := ha; rfl
    apply hid.1
    rw [List.mem_map]
    exact ⟨y, hy, by rw [h1, this]⟩

theorem leavesOf_disjoint_of_nodup (P Q : List BlkInfo) (h : (leavesOf (P ++ Q)).Nodup) (l : Leaf)
    (h1 : l ∈ leavesOf P) (h2 : l ∈ leavesOf Q) : False := by
  rw [leavesOf_append, List.nodup_append] at h
  exact h.2.2 l h1 l h2 rfl

/-! ### the unspent set is a duplicate-free sublist of the created leaves -/

theorem spendOne_sublist (u : List Leaf) (o : Nat) : (spendOne u o).Sublist u := by
  unfold spendOne
  split
  · exact List.erase_sublist
  · exact List.Sublist.refl _

theorem foldl_spendOne_sublist (ins : List Nat) : ∀ u : List Leaf, (ins.foldl spendOne u).Sublist u := by
  induction ins with
  | nil => intro u; exact List.Sublist.refl _
  | cons o os ih => intro u; exact (ih _).trans (spendOne_sublist u o)

theorem foldl_applyU_sublist (P : List BlkInfo) :
    ∀ u : List Leaf, (P.foldl applyU u).Sublist (u ++ leavesOf P) := by
  induction P with
  | nil => intro u; simp [leavesOf]
  | cons b bs ih =>
    intro u
    have e : leavesOf (b :: bs) = (b.outs.map fun o => (b.id, o)) ++ leavesOf bs := by simp [leavesOf]
    rw [List.foldl_cons, e, ← List.append_assoc]
    refine (ih _).trans (List.Sublist.append ?_ (List.Sublist.refl _))
    exact List.Sublist.append (foldl_spendOne_sublist _ _) (List.Sublist.refl _)

theorem unspentOf_sublist (P : List BlkInfo) : (unspentOf P).Sublist (leavesOf P) := by
  have := foldl_applyU_sublist P []
  simpa [unspentOf] using this

theorem unspentOf_nodup (P : List BlkInfo) (h : (leavesOf P).Nodup) : (unspentOf P).Nodup :=
  (unspentOf_sublist P).nodup h

theorem unspentOf_append (Q R : List BlkInfo) : unspentOf (Q ++ R) = R.foldl applyU (unspentOf Q) := by
  simp [unspentOf]

/-- a leaf created on `Q` that is not unspent at `Q` is not unspent at any extension of `Q`
(created once, so it never comes back) -/
theorem not_unspent_later (Q R : List BlkInfo) (hn : (leavesOf (Q ++ R)).Nodup) (l : Leaf)
    (hl : l ∈ leavesOf Q) (hu : l ∉ unspentOf Q) : l ∉ unspentOf (Q ++ R) := by
  intro h
  rw [unspentOf_append] at h
  rcases foldl_applyU_subset R _ l h with h' | h'
  · exact hu h'
  · exact leavesOf_disjoint_of_nodup Q R hn l hl h'

/-! ### spending: `foldl spendOne` removes exactly the recorded spent leaves -/

theorem find?_filter_of_imp {α : Type} (p q : α → Bool) (h : ∀ x, p x = true → q x = true) :
    ∀ xs : List α, (xs.filter q).find? p = xs.find? p := by
  intro xs
  induction xs with
  | nil => rfl
  | cons x xs ih =>
    by_cases hq : q x = true
    · rw [List.filter_cons_of_pos hq]
      simp only [List.find?_cons]
      rw [ih]
    · have hp : p x = false := by
        cases hpx : p x with
        | true => exact absurd (h x hpx) hq
        | false => rfl
      rw [List.filter_cons_of_neg hq, ih]
      simp [hp]

theorem filterMap_congr_mem {α β : Type} (f g : α → Option β) :
    ∀ l : List α, (∀ a ∈ l, f a = g a) → l.filterMap f = l.filterMap g := by
  intro l
  induction l with
  | nil => intro _; rfl
  | cons a l ih =>
    intro h
    rw [List.filterMap_cons, List.filterMap_cons, h a (by simp), ih (fun b hb => h b (by simp [hb]))]

/-- erasing a leaf that does not carry output id `o` does not change which leaf `o` resolves to -/
theorem find?_reverse_erase (u : List Leaf) (hu : u.Nodup) (l0 : Leaf) (o : Nat) (h : l0.2 ≠ o) :
    (u.erase l0).reverse.find? (·.2 == o) = u.reverse.find? (·.2 == o) := by
  rw [hu.erase_eq_filter, ← List.filter_reverse]
  apply find?_filter_of_imp
  intro x hx
  have : x.2 = o := by simpa using hx
  simp only [bne_iff_ne, ne_eq]
  intro hxl
  rw [hxl] at this
  exact h this

theorem spentLeaves_subset (u : List Leaf) (b : BlkInfo) : ∀ l ∈ spentLeaves u b, l ∈ u := by
  intro l hl
  simp only [spentLeaves, List.mem_filterMap] at hl
  obtain ⟨o, _, ho⟩ := hl
  have := List.mem_of_find?_eq_some ho
  simpa using this

/-- list form of `spentLeaves`, for induction over the input list -/
def resolveAll (u : List Leaf) (ins : List Nat) : List Leaf :=
  ins.filterMap fun o => u.reverse.find? (·.2 == o)

theorem spentLeaves_eq (u : List Leaf) (b : BlkInfo) : spentLeaves u b = resolveAll u b.ins := rfl

/-- with pairwise distinct inputs, sequential spending removes exactly the leaves the inputs
resolve to in the state the block is applied to (what the spent index records) -/
theorem mem_foldl_spendOne (ins : List Nat) : ∀ (u : List Leaf), u.Nodup → ins.Nodup → ∀ l,
    (l ∈ ins.foldl spendOne u ↔ l ∈ u ∧ l ∉ resolveAll u ins) := by
  induction ins with
  | nil => intro u _ _ l; simp [resolveAll]
  | cons o os ih =>
    intro u hu hins l
    rw [List.nodup_cons] at hins
    rw [List.foldl_cons]
    cases hf : u.reverse.find? (·.2 == o) with
    | none =>
      have e : spendOne u o = u := by simp [spendOne, hf]
      rw [e, ih u hu hins.2 l]
      simp [resolveAll, hf]
    | some l0 =>
      have e : spendOne u o = u.erase l0 := by simp [spendOne, hf]
      have hl0 : l0.2 = o := by simpa using List.find?_some hf
      have hu' : (u.erase l0).Nodup := List.Sublist.nodup List.erase_sublist hu
      rw [e, ih (u.erase l0) hu' hins.2 l]
      have hres : resolveAll (u.erase l0) os = resolveAll u os := by
        simp only [resolveAll]
        apply filterMap_congr_mem
        intro o' ho'
        apply find?_reverse_erase u hu l0 o'
        rw [hl0]; intro h; rw [h] at hins; exact hins.1 ho'
      rw [hres, hu.mem_erase_iff]
      have e2 : resolveAll u (o :: os) = l0 :: resolveAll u os := by
        simp [resolveAll, hf]
      rw [e2, List.mem_cons]
      constructor
      · rintro ⟨⟨h1, h2⟩, h3⟩; exact ⟨h2, fun h => h.elim h1 h3⟩
      · rintro ⟨h1, h2⟩; exact ⟨⟨fun h => h2 (Or.inl h), h1⟩, fun h => h2 (Or.inr h)⟩

/-- one block, for a leaf that the block does not create: unspent before ⟺ unspent after or
recorded as spent by the block -/
theorem applyU_rewind_one (u : List Leaf) (x : BlkInfo) (hu : u.Nodup) (hi : x.ins.Nodup) (l : Leaf)
    (hnew : l ∉ x.outs.map (fun o => (x.id, o))) :
    (l ∈ u ↔ l ∈ applyU u x ∨ l ∈ spentLeaves u x) := by
  unfold applyU
  rw [List.mem_append, mem_foldl_spendOne x.ins u hu hi l, spentLeaves_eq]
  constructor
  · intro h
    by_cases hs : l ∈ resolveAll u x.ins
    · exact Or.inr hs
    · exact Or.inl (Or.inl ⟨h, hs⟩)
  · rintro ((⟨h, _⟩ | h) | h)
    · exact h
    · exact absurd h hnew
    · exact spentLeaves_subset u x l h

theorem spent_not_in_applyU (u : List Leaf) (x : BlkInfo) (hu : u.Nodup) (hi : x.ins.Nodup) (l : Leaf)
    (hnew : l ∉ x.outs.map (fun o => (x.id, o))) (hs : l ∈ spentLeaves u x) : l ∉ applyU u x := by
  unfold applyU
  rw [List.mem_append, mem_foldl_spendOne x.ins u hu hi l]
  rintro (⟨_, h⟩ | h)
  · exact h hs
  · exact hnew h

/-! ### rewinding with the spent index is exact -/

theorem leavesOf_single (x : BlkInfo) : leavesOf [x] = x.outs.map (fun o => (x.id, o)) := by
  simp [leavesOf]

/-- a leaf recorded as undone is not unspent at the top -/
theorem undo_not_unspent : ∀ (R Q : List BlkInfo), (leavesOf (Q ++ R)).Nodup → BlocksWF (Q ++ R) →
    ∀ l, l ∈ undo Q R → l ∉ unspentOf (Q ++ R) := by
  intro R
  induction R with
  | nil => intro Q _ _ l hl; simp [undo] at hl
  | cons x R ih =>
    intro Q hn hw l hl
    have eqr : Q ++ x :: R = (Q ++ [x]) ++ R := by simp
    simp only [undo, List.mem_append] at hl
    rcases hl with hl | hl
    · rw [eqr]; exact ih (Q ++ [x]) (by rw [← eqr]; exact hn) (by rw [← eqr]; exact hw) l hl
    · -- l is spent by x in state unspentOf Q
      have hnQx : (leavesOf (Q ++ [x])).Nodup := by
        rw [eqr, leavesOf_append] at hn; exact (List.nodup_append.1 hn).1
      have hnQ : (leavesOf Q).Nodup := by
        rw [leavesOf_append] at hnQx; exact (List.nodup_append.1 hnQx).1
      have hlu : l ∈ unspentOf Q := spentLeaves_subset _ _ l hl
      have hlQ : l ∈ leavesOf Q := unspentOf_subset_leaves Q l hlu
      have hnew : l ∉ x.outs.map (fun o => (x.id, o)) := by
        intro h
        exact leavesOf_disjoint_of_nodup Q [x] hnQx l hlQ (by rw [leavesOf_single]; exact h)
      have h1 : l ∉ unspentOf (Q ++ [x]) := by
        rw [unspentOf_snoc]
        exact spent_not_in_applyU _ x (unspentOf_nodup Q hnQ) (hw.ins x (by simp)) l hnew hl
      rw [eqr]
      apply not_unspent_later (Q ++ [x]) R (by rw [← eqr]; exact hn) l _ h1
      rw [leavesOf_append]; exact List.mem_append_left _ hlQ

/-- **Rewinding with the spent index is exact.** For a leaf created on `Q`: it is unspent at `Q`
iff it is unspent at `Q ++ R` or the spent index of one of the blocks of `R` lists it. -/
theorem rewind_exact : ∀ (R Q : List BlkInfo), (leavesOf (Q ++ R)).Nodup → BlocksWF (Q ++ R) →
    ∀ l, l ∈ leavesOf Q → (l ∈ unspentOf Q ↔ (l ∈ unspentOf (Q ++ R) ∨ l ∈ undo Q R)) := by
  intro R
  induction R with
  | nil => intro Q _ _ l _; simp [undo]
  | cons x R ih =>
    intro Q hn hw l hlQ
    have eqr : Q ++ x :: R = (Q ++ [x]) ++ R := by simp
    have hnQx : (leavesOf (Q ++ [x])).Nodup := by
      rw [eqr, leavesOf_append] at hn; exact (List.nodup_append.1 hn).1
    have hnQ : (leavesOf Q).Nodup := by
      rw [leavesOf_append] at hnQx; exact (List.nodup_append.1 hnQx).1
    have hnew : l ∉ x.outs.map (fun o => (x.id, o)) := by
      intro h
      exact leavesOf_disjoint_of_nodup Q [x] hnQx l hlQ (by rw [leavesOf_single]; exact h)
    have step := applyU_rewind_one (unspentOf Q) x (unspentOf_nodup Q hnQ) (hw.ins x (by simp)) l hnew
    rw [← unspentOf_snoc] at step
    have hlQx : l ∈ leavesOf (Q ++ [x]) := by rw [leavesOf_append]; exact List.mem_append_left _ hlQ
    have := ih (Q ++ [x]) (by rw [← eqr]; exact hn) (by rw [← eqr]; exact hw) l hlQx
    rw [step, this, eqr]
    simp only [undo, List.mem_append]
    constructor
    · rintro ((h | h) | h)
      · exact Or.inl h
      · exact Or.inr (Or.inl h)
      · exact Or.inr (Or.inr h)
    · rintro (h | h | h)
      · exact Or.inl (Or.inl h)
      · exact Or.inl (Or.inr h)
      · exact Or.inr h

end GV.Crash
