import GrinVerif.Lemmas.SerMsgRt
/-! Canonical form of segments, decoder side: for every byte string, whatever `Segment<T>::read` /
`SegmentProof::read` accept is byte for byte the encoding of the value returned (given that the leaf
decoder has that property), and the value is well formed: counts equal to the contents, positions
strictly increasing. -/
-- decoder results of concrete inputs are compared by evaluation in the witnesses of `Props/C10Msg.lean`
deriving instance DecidableEq for Except

namespace GV.SerSeg
open GV GV.Ser

theorem allBytes_of_append {a b : Bytes} (h : AllBytes (a ++ b)) : AllBytes b := allBytes_append_right h

theorem readItemCount_inv {bs : Bytes} {n : Nat} {r : Bytes} (hb : AllBytes bs)
    (h : readItemCount bs = .ok (n, r)) : bs = writeU64 n ++ r ∧ n ≤ MAX_SEGMENT_READ_ITEMS := by
  rw [readItemCount] at h
  obtain ⟨c, r1, h1, h2⟩ := andThen_inv h
  split at h2
  · simp at h2
  · rename_i hc
    simp only [Except.ok.injEq, Prod.mk.injEq] at h2
    obtain ⟨rfl, rfl⟩ := h2
    exact ⟨(readU64_inv hb h1).1, by omega⟩

/-- items: if the item reader only accepts canonical encodings (and establishes `P`), so does the loop -/
theorem readItems_inv {α : Type} {p : Parser α} {w : α → Bytes} {P : α → Prop}
    (hp : ∀ bs x r, AllBytes bs → p bs = .ok (x, r) → bs = w x ++ r ∧ P x)
    {n : Nat} {bs : Bytes} {l : List α} {r : Bytes} (hb : AllBytes bs) (h : readItems p n bs = .ok (l, r)) :
    bs = writeMulti w l ++ r ∧ l.length = n ∧ ∀ x ∈ l, P x := by
  induction n generalizing bs l r with
  | zero =>
    simp only [readItems, Except.ok.injEq, Prod.mk.injEq] at h
    obtain ⟨rfl, rfl⟩ := h
    exact ⟨by simp [writeMulti], rfl, by simp⟩
  | succ n ih =>
    rw [readItems] at h
    obtain ⟨x, r1, h1, h2⟩ := andThen_inv h
    obtain ⟨xs, r2, h3, h4⟩ := andThen_inv h2
    simp only [Except.ok.injEq, Prod.mk.injEq] at h4
    obtain ⟨rfl, rfl⟩ := h4
    obtain ⟨e1, px⟩ := hp bs x r1 hb h1
    have hr1 : AllBytes r1 := by rw [e1] at hb; exact allBytes_of_append hb
    obtain ⟨e2, l2, p2⟩ := ih hr1 h3
    refine ⟨by rw [writeMulti_cons, e1, e2], by simp [l2], ?_⟩
    intro y hy
    rcases List.mem_cons.mp hy with rfl | hy
    · exact px
    · exact p2 y hy

theorem decHash_canon : ∀ bs x r, AllBytes bs → decHash bs = .ok (x, r) → bs = writeFixed x ++ r ∧ x.length = HASH_SIZE :=
  fun _ _ _ _ h => GV.SerMsg.decHash_inv h

theorem decSegProof_inv {bs : Bytes} {hs : List Bytes} {r : Bytes} (hb : AllBytes bs)
    (h : decSegProof bs = .ok (hs, r)) : bs = encSegProof hs ++ r ∧ HashesWF hs := by
  rw [decSegProof] at h
  obtain ⟨n, r1, h1, h2⟩ := andThen_inv h
  obtain ⟨e1, c1⟩ := readItemCount_inv hb h1
  have hr1 : AllBytes r1 := by rw [e1] at hb; exact allBytes_of_append hb
  obtain ⟨e2, l2, p2⟩ := readItems_inv decHash_canon hr1 h2
  exact ⟨by rw [e1, e2, encSegProof, l2, List.append_assoc], p2, by omega⟩

/-- `Segment<T>::read`: accepted ⇒ canonical and well formed, whenever `T::read` is canonical -/
theorem decSegment_inv {α : Type} {p : Parser α} {w : α → Bytes} {P : α → Prop}
    (hp : ∀ bs x r, AllBytes bs → p bs = .ok (x, r) → bs = w x ++ r ∧ P x)
    {bs : Bytes} {s : Segment α} {r : Bytes} (hb : AllBytes bs) (h : decSegment p bs = .ok (s, r)) :
    bs = encSegment w s ++ r ∧ s.WF ∧ ∀ x ∈ s.leafData, P x := by
  rw [decSegment] at h
  obtain ⟨id, r1, h1, h⟩ := andThen_inv h
  obtain ⟨nH, r2, h2, h⟩ := andThen_inv h
  obtain ⟨hp', r3, h3, h⟩ := andThen_inv h
  obtain ⟨hs, r4, h4, h⟩ := andThen_inv h
  obtain ⟨nL, r5, h5, h⟩ := andThen_inv h
  obtain ⟨lp, r6, h6, h⟩ := andThen_inv h
  obtain ⟨ld, r7, h7, h⟩ := andThen_inv h
  obtain ⟨pf, r8, h8, h⟩ := andThen_inv h
  simp only [Except.ok.injEq, Prod.mk.injEq] at h
  obtain ⟨rfl, rfl⟩ := h
  obtain ⟨e1, w1⟩ := decSegId_inv hb h1
  have b1 : AllBytes r1 := by rw [e1] at hb; exact allBytes_of_append hb
  obtain ⟨e2, c2⟩ := readItemCount_inv b1 h2
  have b2 : AllBytes r2 := by rw [e2] at b1; exact allBytes_of_append b1
  obtain ⟨ok3, e3⟩ := readPositionsLoop_posOK b2 h3
  have l3 := readPositionsLoop_length h3
  have b3 : AllBytes r3 := by rw [e3] at b2; exact allBytes_of_append b2
  obtain ⟨e4, l4, p4⟩ := readItems_inv decHash_canon b3 h4
  have b4 : AllBytes r4 := by rw [e4] at b3; exact allBytes_of_append b3
  obtain ⟨e5, c5⟩ := readItemCount_inv b4 h5
  have b5 : AllBytes r5 := by rw [e5] at b4; exact allBytes_of_append b4
  obtain ⟨ok6, e6⟩ := readPositionsLoop_posOK b5 h6
  have l6 := readPositionsLoop_length h6
  have b6 : AllBytes r6 := by rw [e6] at b5; exact allBytes_of_append b5
  obtain ⟨e7, l7, p7⟩ := readItems_inv hp b6 h7
  have b7 : AllBytes r7 := by rw [e7] at b6; exact allBytes_of_append b6
  obtain ⟨e8, w8⟩ := decSegProof_inv b7 h8
  refine ⟨?_, ⟨w1, by simp only; omega, ok3, ⟨p4, by show hs.length ≤ MAX_SEGMENT_READ_ITEMS; omega⟩, by simp only; omega, ok6, by simp only; omega, w8⟩, p7⟩
  rw [e1, e2, e3, e4, e5, e6, e7, e8, encSegment, l4, l7]
  simp only [List.append_assoc]

end GV.SerSeg
