import GrinVerif.Lemmas.XlateVerify

/-! # Helper lemmas for `Props/XlateVerifyD.lean`: translated Cuckaroom / Cuckarood verifiers
(`Gen/FnsVerify.lean`) = hand model (`Model/Pow.lean`: `verifyCuckaroom`, `verifyCuckarood`)

Same method as `Lemmas/XlateVerify.lean` (Cuckaroo): every loop of the translation is tied to the
model's recursive function by simultaneous induction over the loop and its `_ok` / `_exits`
companion, which supplies every index-in-range fact.  `R l f` relates a `Vec<u64>` (list) to the
model's function array, `RB` does the same for `visited : Vec<bool>`.
-/

namespace GV.Lemmas.XlateVerifyD
open GV GV.Gen GV.Gen.Fns GV.Pow GV.Lemmas.XlateVerify

/-! ## `Vec<bool>` -/

/-- list array of booleans and function array agree on the indices of the list -/
def RB (l : List Bool) (f : Nat → Bool) : Prop := ∀ i, i < l.length → idx l i = f i

theorem idxB_set (l : List Bool) (i : Nat) (v : Bool) (j : Nat) (hj : j < l.length) :
    idx (l.set i v) j = if j = i then v else idx l j := by
  unfold idx
  rw [List.getD_eq_getElem?_getD, List.getD_eq_getElem?_getD, List.getElem?_set]
  by_cases h : i = j
  · subst h; simp [hj]
  · have h' : ¬ j = i := fun e => h e.symm
    simp [h, h']

theorem RB_set {l : List Bool} {f : Nat → Bool} (h : RB l f) (i : Nat) :
    RB (l.set i true) (fun x => decide (x = i) || f x) := by
  intro j hj
  rw [List.length_set] at hj
  rw [idxB_set l i true j hj]
  by_cases e : j = i
  · simp [e]
  · simp [e, h j hj]

theorem RB_replicate (n : Nat) : RB (List.replicate n false) (fun _ => false) := by
  intro i hi
  rw [List.length_replicate] at hi
  unfold idx
  rw [List.getD_eq_getElem?_getD, List.getElem?_replicate]
  simp [hi]

theorem idx_set_self (l : List Nat) (i v : Nat) (hi : i < l.length) : idx (l.set i v) i = v := by
  rw [idx_set l i v i hi, if_pos rfl]

/-! ## Cuckaroom (`core/src/pow/cuckaroom.rs`) -/

theorem m1_nil (p : CuckooParams) (nonces : List Nat) (mask : Nat) (frm to : List Nat) (xf xt : Nat)
    (head prev : List Nat) :
    Cuckaroom_verify_loop1 p nonces mask [] frm to xf xt head prev
      = .go (frm, to, xf, xt, head, prev) := by
  conv => lhs; unfold Cuckaroom_verify_loop1

theorem m1_cons (p : CuckooParams) (nonces : List Nat) (mask n : Nat) (rest frm to : List Nat)
    (xf xt : Nat) (head prev : List Nat) :
    Cuckaroom_verify_loop1 p nonces mask (n :: rest) frm to xf xt head prev =
      if decide (idx nonces n > p.edge_mask) then .ret none
      else if (decide (n > 0)) && (decide (idx nonces n ≤ idx nonces (subW n 1))) then .ret none
      else
        let edge := siphash_block p.siphash_keys (idx nonces n) 21 true
        let u := edge &&& p.node_mask
        let v := (shrW edge 32) &&& p.node_mask
        Cuckaroom_verify_loop1 p nonces mask rest (List.set frm n u) (List.set to n v)
          (xf ^^^ idx (List.set frm n u) n) (xt ^^^ idx (List.set to n v) n)
          (List.set head (u &&& mask) n) (List.set prev n (idx head (u &&& mask))) := by
  conv => lhs; unfold Cuckaroom_verify_loop1

theorem m1_ok_cons (p : CuckooParams) (nonces : List Nat) (mask n : Nat) (rest frm to : List Nat)
    (xf xt : Nat) (head prev : List Nat)
    (h : Cuckaroom_verify_loop1_ok p nonces mask (n :: rest) frm to xf xt head prev = true) :
    n < nonces.length ∧
    (¬ idx nonces n > p.edge_mask →
     ¬ (n > 0 ∧ idx nonces n ≤ idx nonces (subW n 1)) →
        let edge := siphash_block p.siphash_keys (idx nonces n) 21 true
        let u := edge &&& p.node_mask
        let v := (shrW edge 32) &&& p.node_mask
        n < frm.length ∧ u &&& mask < head.length ∧ n < prev.length ∧ n < to.length ∧
        Cuckaroom_verify_loop1_ok p nonces mask rest (List.set frm n u) (List.set to n v)
          (xf ^^^ idx (List.set frm n u) n) (xt ^^^ idx (List.set to n v) n)
          (List.set head (u &&& mask) n) (List.set prev n (idx head (u &&& mask))) = true) := by
  conv at h => lhs; unfold Cuckaroom_verify_loop1_ok
  simp only [Bool.and_eq_true, decide_eq_true_eq] at h
  refine ⟨h.1, ?_⟩
  intro h1 h2
  have h' := h.2
  rw [if_neg h1, Bool.and_eq_true] at h'
  have h'' := h'.2
  rw [if_neg h2] at h''
  simp only [Bool.and_eq_true, decide_eq_true_eq, List.length_set] at h''
  obtain ⟨_, a1, ⟨a2, a3⟩, _, a4, _, _, a5⟩ := h''
  exact ⟨a1, a2, a3, a4, a5⟩

/-- state of the translated first loop vs. the model's `RoomSt` -/
def RelM (st : List Nat × List Nat × Nat × Nat × List Nat × List Nat) (s : RoomSt) : Prop :=
  R st.1 s.frm ∧ R st.2.1 s.to ∧ st.2.2.1 = s.xf ∧ st.2.2.2.1 = s.xt ∧ R st.2.2.2.2.1 s.head ∧
    R st.2.2.2.2.2 s.prev

theorem m1_eq (p : CuckooParams) (nonces : List Nat) (mask : Nat) (P : Params) (ep : Nat → Nat × Nat)
    (hsz : nonces.length < 2^62) (hP2 : P.edgeMask = p.edge_mask) (hbk : ∀ u, P.bk u = u &&& mask)
    (hep : ∀ x, ep x = (siphash_block p.siphash_keys x 21 true &&& p.node_mask,
        shrW (siphash_block p.siphash_keys x 21 true) 32 &&& p.node_mask)) :
    ∀ (k a : Nat) (frm to : List Nat) (xf xt : Nat) (head prev : List Nat) (s : RoomSt),
      a + k = nonces.length → RelM (frm, to, xf, xt, head, prev) s →
      Cuckaroom_verify_loop1_ok p nonces mask (List.range' a k) frm to xf xt head prev = true →
      (Cuckaroom_verify_loop1 p nonces mask (List.range' a k) frm to xf xt head prev = .ret none ∧
        ∃ e, roomBuild P ep (nonces.drop a) a (lastOf nonces a) s = .error e) ∨
      (∃ st s', Cuckaroom_verify_loop1 p nonces mask (List.range' a k) frm to xf xt head prev = .go st ∧
        roomBuild P ep (nonces.drop a) a (lastOf nonces a) s = .ok s' ∧ RelM st s') := by
  intro k
  induction k with
  | zero =>
    intro a frm to xf xt head prev s hak hrel _
    right
    refine ⟨_, s, ?_, ?_, hrel⟩
    · rw [List.range'_zero, m1_nil]
    · rw [List.drop_of_length_le (by omega), roomBuild]
  | succ k ih =>
    intro a frm to xf xt head prev s hak hrel hok
    rw [List.range'_succ] at hok ⊢
    obtain ⟨han, hrest⟩ := m1_ok_cons _ _ _ _ _ _ _ _ _ _ _ hok
    rw [m1_cons, drop_eq_cons nonces a han, roomBuild]
    by_cases h1 : idx nonces a > p.edge_mask
    · left
      rw [if_pos (by simpa using h1), if_pos (by rw [hP2]; exact h1)]
      exact ⟨rfl, _, rfl⟩
    · by_cases h2 : a > 0 ∧ idx nonces a ≤ idx nonces (subW a 1)
      · left
        rw [if_neg (by simpa using h1), if_pos (by simpa using h2), if_neg (by rw [hP2]; exact h1),
          if_pos ((notAsc_lastOf nonces a _ (by omega)).2 h2)]
        exact ⟨rfl, _, rfl⟩
      · obtain ⟨hfl, hub, hpl, htl, hok'⟩ := hrest h1 h2
        rw [if_neg (by simpa using h1), if_neg (by simpa using h2), if_neg (by rw [hP2]; exact h1),
          if_neg (fun h => h2 ((notAsc_lastOf nonces a _ (by omega)).1 h))]
        rw [← lastOf_succ]
        obtain ⟨r1, r2, r3, r4, r5, r6⟩ := hrel
        simp only [hep, hbk]
        try dsimp only at hok'
        rw [idx_set_self _ _ _ hfl, idx_set_self _ _ _ htl] at hok' ⊢
        refine ih (a + 1) _ _ _ _ _ _ _ (by omega) ?_ hok'
        generalize siphash_block p.siphash_keys (idx nonces a) 21 true &&& p.node_mask = U at hub ⊢
        generalize shrW (siphash_block p.siphash_keys (idx nonces a) 21 true) 32 &&& p.node_mask = V
        have e1 : idx head (U &&& mask) = s.head (U &&& mask) := r5 _ hub
        rw [e1]
        refine ⟨R_set r1 _ _, R_set r2 _ _, ?_, ?_, R_set r5 _ _, R_set r6 _ _⟩
        · show xf ^^^ U = s.xf ^^^ U
          rw [show xf = s.xf from r3]
        · show xt ^^^ V = s.xt ^^^ V
          rw [show xt = s.xt from r4]

/-! ### loop 3 (inner `loop`) = `roomFind`, loop 2 (outer `loop`) = `roomWalk` -/

theorem m3_succ (size : Nat) (frm to prev : List Nat) (i f k : Nat) :
    Cuckaroom_verify_loop3 size frm to prev i (f + 1) k =
      if (k == size) = true then .ret none
      else if (idx frm k == idx to i) = true then .go k
      else Cuckaroom_verify_loop3 size frm to prev i f (idx prev k) := by
  conv => lhs; unfold Cuckaroom_verify_loop3
  rw [if_pos rfl]

theorem m3_exits_zero (size : Nat) (frm to prev : List Nat) (i k : Nat) :
    Cuckaroom_verify_loop3_exits size frm to prev i 0 k = false := by
  conv => lhs; unfold Cuckaroom_verify_loop3_exits
  rfl

theorem m3_exits_succ (size : Nat) (frm to prev : List Nat) (i f k : Nat)
    (h : Cuckaroom_verify_loop3_exits size frm to prev i (f + 1) k = true) :
    k ≠ size → k < frm.length ∧ i < to.length ∧
      (idx frm k ≠ idx to i → k < prev.length ∧
        Cuckaroom_verify_loop3_exits size frm to prev i f (idx prev k) = true) := by
  conv at h => lhs; unfold Cuckaroom_verify_loop3_exits
  rw [if_pos rfl] at h
  intro hk
  rw [if_neg (by simpa using hk)] at h
  simp only [Bool.and_eq_true, decide_eq_true_eq] at h
  refine ⟨h.1.1, h.1.2, fun hne => ?_⟩
  have h2 := h.2
  rw [if_neg (by simpa using hne)] at h2
  simp only [Bool.and_eq_true, decide_eq_true_eq] at h2
  exact h2

theorem m3_eq (size : Nat) (frm to prev : List Nat) (s : RoomSt) (i t : Nat)
    (r1 : R frm s.frm) (r6 : R prev s.prev) (ht : i < to.length → idx to i = t) :
    ∀ (f k : Nat), Cuckaroom_verify_loop3_exits size frm to prev i f k = true →
      (Cuckaroom_verify_loop3 size frm to prev i f k = .ret none ∧
        roomFind size s t f k = .error .deadEnd) ∨
      (∃ k', Cuckaroom_verify_loop3 size frm to prev i f k = .go k' ∧
        roomFind size s t f k = .ok k') := by
  intro f
  induction f with
  | zero => intro k h; rw [m3_exits_zero] at h; cases h
  | succ f ih =>
    intro k h
    have hrest := m3_exits_succ _ _ _ _ _ _ _ h
    rw [m3_succ, roomFind]
    by_cases e1 : k = size
    · left
      rw [if_pos (by simpa using e1), if_pos e1]
      exact ⟨rfl, rfl⟩
    · obtain ⟨hk, hi, hrec⟩ := hrest e1
      rw [if_neg (by simpa using e1), if_neg e1, ← r1 k hk, ← ht hi]
      by_cases e2 : idx frm k = idx to i
      · right
        rw [if_pos (by simpa using e2), if_pos e2]
        exact ⟨_, rfl, rfl⟩
      · obtain ⟨hkp, hex⟩ := hrec e2
        rw [if_neg (by simpa using e2), if_neg e2, ← r6 k hkp, ht hi]
        exact ih _ hex

theorem m2_succ (size : Nat) (frm to : List Nat) (mask : Nat) (head prev : List Nat) (f : Nat)
    (vis : List Bool) (n i : Nat) :
    Cuckaroom_verify_loop2 size frm to mask head prev (f + 1) vis n i =
      if idx vis i = true then .ret none
      else
        match Cuckaroom_verify_loop3 size frm to prev i (size + 1) (idx head (idx to i &&& mask)) with
        | .ret r3 => .ret r3
        | .go k =>
          if (k == 0) = true then .go (List.set vis i true, addW n 1, k)
          else Cuckaroom_verify_loop2 size frm to mask head prev f (List.set vis i true) (addW n 1) k := by
  conv => lhs; unfold Cuckaroom_verify_loop2
  rw [if_pos rfl]
  rfl

theorem m2_exits_zero (size : Nat) (frm to : List Nat) (mask : Nat) (head prev : List Nat)
    (vis : List Bool) (n i : Nat) :
    Cuckaroom_verify_loop2_exits size frm to mask head prev 0 vis n i = false := by
  conv => lhs; unfold Cuckaroom_verify_loop2_exits
  rfl

theorem m2_exits_succ (size : Nat) (frm to : List Nat) (mask : Nat) (head prev : List Nat) (f : Nat)
    (vis : List Bool) (n i : Nat)
    (h : Cuckaroom_verify_loop2_exits size frm to mask head prev (f + 1) vis n i = true) :
    i < vis.length ∧ (¬ idx vis i = true → i < to.length ∧ idx to i &&& mask < head.length ∧
      Cuckaroom_verify_loop3_exits size frm to prev i (size + 1) (idx head (idx to i &&& mask)) = true ∧
      (∀ k, Cuckaroom_verify_loop3 size frm to prev i (size + 1) (idx head (idx to i &&& mask)) = .go k →
        k ≠ 0 →
        Cuckaroom_verify_loop2_exits size frm to mask head prev f (List.set vis i true) (addW n 1) k
          = true)) := by
  conv at h => lhs; unfold Cuckaroom_verify_loop2_exits
  rw [if_pos rfl, Bool.and_eq_true, decide_eq_true_eq] at h
  refine ⟨h.1, fun hv => ?_⟩
  have h2 := h.2
  rw [if_neg hv] at h2
  simp only [Bool.and_eq_true, decide_eq_true_eq] at h2
  obtain ⟨_, ⟨a1, a2⟩, a3, a4⟩ := h2
  refine ⟨a1, a2, a3, fun k e hk => ?_⟩
  rw [e] at a4
  dsimp only at a4
  rw [if_neg (by simpa using hk)] at a4
  exact a4

theorem m2_eq (size : Nat) (frm to : List Nat) (mask : Nat) (head prev : List Nat) (P : Params)
    (s : RoomSt) (hbk : ∀ u, P.bk u = u &&& mask)
    (r1 : R frm s.frm) (r2 : R to s.to) (r5 : R head s.head) (r6 : R prev s.prev) :
    ∀ (f : Nat) (vis : List Bool) (visf : Nat → Bool) (n i : Nat), n + f < 2^63 → RB vis visf →
      Cuckaroom_verify_loop2_exits size frm to mask head prev f vis n i = true →
      (Cuckaroom_verify_loop2 size frm to mask head prev f vis n i = .ret none ∧
        ∃ e, roomWalk P size s f visf i n = .error e) ∨
      (∃ vis' n' i', Cuckaroom_verify_loop2 size frm to mask head prev f vis n i = .go (vis', n', i') ∧
        roomWalk P size s f visf i n = .ok n') := by
  intro f
  induction f with
  | zero => intro vis visf n i _ _ h; rw [m2_exits_zero] at h; cases h
  | succ f ih =>
    intro vis visf n i hn hvis h
    obtain ⟨hiv, hrest⟩ := m2_exits_succ _ _ _ _ _ _ _ _ _ _ h
    rw [m2_succ, roomWalk, ← hvis i hiv]
    by_cases c0 : idx vis i = true
    · left
      rw [if_pos c0, if_pos c0]
      exact ⟨rfl, _, rfl⟩
    · obtain ⟨hit, hhd, h3, hnext⟩ := hrest c0
      rw [if_neg c0, if_neg c0, hbk, ← r2 i hit, ← r5 _ hhd]
      rcases m3_eq size frm to prev s i (idx to i) r1 r6 (fun _ => rfl) _ _ h3 with
        ⟨e1, e2⟩ | ⟨k', e1, e2⟩
      · left
        rw [e1, e2]
        exact ⟨rfl, _, rfl⟩
      · rw [e1, e2]
        dsimp only
        rw [addW_one n (by omega)]
        by_cases c2 : k' = 0
        · right
          rw [if_pos (by simpa using c2), if_pos c2]
          exact ⟨_, _, _, rfl, rfl⟩
        · rw [if_neg (by simpa using c2), if_neg c2]
          have := hnext k' e1 c2
          rw [addW_one n (by omega)] at this
          exact ih _ _ _ _ (by omega) (RB_set hvis i) this

/-! ## Cuckarood (`core/src/pow/cuckarood.rs`) -/

theorem and_mask_mod (x mask : Nat) (hm : mask < 2^64) : (x % 2^64) &&& mask = x &&& mask := by
  rw [← Nat.and_two_pow_sub_one_eq_mod x 64, Nat.and_assoc]
  congr 1
  rw [Nat.and_comm, Nat.and_two_pow_sub_one_eq_mod, Nat.mod_eq_of_lt hm]

/-- the bucket key `((u << 1) | dir) & mask` of the code (wrapping shift) is the model's
`(2*u + dir) & mask`, for every `u` (the mask has at most 64 bits) -/
theorem key_eq (u d mask : Nat) (hd : d < 2) (hm : mask < 2^64) :
    ((shlW u 1) ||| d) &&& mask = (2 * u + d) &&& mask := by
  unfold shlW
  have e0 : u * 2^(1 % 64) = 2 * u := by rw [show (1 % 64) = 1 from rfl]; omega
  have e : (u * 2^(1 % 64)) % 2^64 = 2^1 * ((u % 2^63)) := by rw [e0]; omega
  rw [e, ← Nat.two_pow_add_eq_or_of_lt (by omega : d < 2^1)]
  have e2 : 2^1 * (u % 2^63) + d = (2 * u + d) % 2^64 := by omega
  rw [e2, and_mask_mod _ _ hm]

theorem mask_lt (k : Nat) : shrW (2^64-1) k < 2^64 := by
  unfold shrW
  exact Nat.lt_of_le_of_lt (Nat.div_le_self _ _) (by omega)

theorem i1_eq (nd d : Nat) (h : nd < 2^60) (hd : d < 2) :
    addW (mulW 4 nd) (mulW 2 d) = 4 * nd + 2 * d := by
  unfold addW mulW; omega

theorem d1_nil (p : CuckooParams) (size : Nat) (nonces : List Nat) (mask : Nat) (uvs ndir : List Nat)
    (x0 x1 : Nat) (hu hv prev : List Nat) :
    Cuckarood_verify_loop1 p size nonces mask [] uvs ndir x0 x1 hu hv prev
      = .go (uvs, ndir, x0, x1, hu, hv, prev) := by
  conv => lhs; unfold Cuckarood_verify_loop1

theorem d1_cons (p : CuckooParams) (size : Nat) (nonces : List Nat) (mask n : Nat)
    (rest uvs ndir : List Nat) (x0 x1 : Nat) (hu hv prev : List Nat) :
    Cuckarood_verify_loop1 p size nonces mask (n :: rest) uvs ndir x0 x1 hu hv prev =
      if decide (idx ndir (idx nonces n &&& 1) ≥ size / 2) then .ret none
      else if decide (idx nonces n > p.edge_mask) then .ret none
      else if (decide (n > 0)) && (decide (idx nonces n ≤ idx nonces (subW n 1))) then .ret none
      else
        let dir := idx nonces n &&& 1
        let edge := siphash_block p.siphash_keys (idx nonces n) 25 false
        let i1 := addW (mulW 4 (idx ndir dir)) (mulW 2 dir)
        let u := edge &&& p.node_mask
        let v := (shrW edge 32) &&& p.node_mask
        let ubits := ((shlW u 1) ||| dir) &&& mask
        let vbits := ((shlW v 1) ||| dir) &&& mask
        Cuckarood_verify_loop1 p size nonces mask rest
          (List.set (List.set uvs i1 u) (addW i1 1) v)
          (List.set ndir dir (addW (idx ndir dir) 1)) (x0 ^^^ u) (x1 ^^^ v)
          (List.set hu ubits i1) (List.set hv vbits (addW i1 1))
          (List.set (List.set prev i1 (idx hu ubits)) (addW i1 1) (idx hv vbits)) := by
  conv => lhs; unfold Cuckarood_verify_loop1

theorem d1_ok_cons (p : CuckooParams) (size : Nat) (nonces : List Nat) (mask n : Nat)
    (rest uvs ndir : List Nat) (x0 x1 : Nat) (hu hv prev : List Nat)
    (h : Cuckarood_verify_loop1_ok p size nonces mask (n :: rest) uvs ndir x0 x1 hu hv prev = true) :
    n < nonces.length ∧
    (¬ idx ndir (idx nonces n &&& 1) ≥ size / 2 → ¬ idx nonces n > p.edge_mask →
     ¬ (n > 0 ∧ idx nonces n ≤ idx nonces (subW n 1)) →
        let dir := idx nonces n &&& 1
        let edge := siphash_block p.siphash_keys (idx nonces n) 25 false
        let i1 := addW (mulW 4 (idx ndir dir)) (mulW 2 dir)
        let u := edge &&& p.node_mask
        let v := (shrW edge 32) &&& p.node_mask
        let ubits := ((shlW u 1) ||| dir) &&& mask
        let vbits := ((shlW v 1) ||| dir) &&& mask
        ubits < hu.length ∧ vbits < hv.length ∧
        Cuckarood_verify_loop1_ok p size nonces mask rest
          (List.set (List.set uvs i1 u) (addW i1 1) v)
          (List.set ndir dir (addW (idx ndir dir) 1)) (x0 ^^^ u) (x1 ^^^ v)
          (List.set hu ubits i1) (List.set hv vbits (addW i1 1))
          (List.set (List.set prev i1 (idx hu ubits)) (addW i1 1) (idx hv vbits)) = true) := by
  conv at h => lhs; unfold Cuckarood_verify_loop1_ok
  simp only [Bool.and_eq_true, decide_eq_true_eq] at h
  refine ⟨h.1, ?_⟩
  intro h0 h1 h2
  have h' := h.2.2
  rw [if_neg h0, Bool.and_eq_true] at h'
  have h'' := h'.2
  rw [if_neg h1, Bool.and_eq_true] at h''
  have h3 := h''.2
  rw [if_neg h2] at h3
  simp only [Bool.and_eq_true, decide_eq_true_eq, List.length_set] at h3
  obtain ⟨_, _, _, ⟨a1, _⟩, _, _, ⟨a2, _⟩, _, _, a3⟩ := h3
  exact ⟨a1, a2, a3⟩

/-- state of the translated first loop vs. the model's `RoodSt` (`ndir` is the 2-element vector) -/
def RelD (st : List Nat × List Nat × Nat × Nat × List Nat × List Nat × List Nat) (s : RoodSt) : Prop :=
  R st.1 s.uvs ∧ st.2.1 = [s.nd0, s.nd1] ∧ st.2.2.1 = s.x0 ∧ st.2.2.2.1 = s.x1 ∧
    R st.2.2.2.2.1 s.headu ∧ R st.2.2.2.2.2.1 s.headv ∧ R st.2.2.2.2.2.2 s.prev

theorem d1_eq (p : CuckooParams) (size : Nat) (nonces : List Nat) (mask : Nat) (P : Params)
    (ep : Nat → Nat × Nat)
    (hsz : nonces.length < 2^60) (hsize : size < 2^60) (hm : mask < 2^64)
    (hP2 : P.edgeMask = p.edge_mask) (hbk : ∀ u, P.bk u = u &&& mask)
    (hep : ∀ x, ep x = (siphash_block p.siphash_keys x 25 false &&& p.node_mask,
        shrW (siphash_block p.siphash_keys x 25 false) 32 &&& p.node_mask)) :
    ∀ (k a : Nat) (uvs ndir : List Nat) (x0 x1 : Nat) (hu hv prev : List Nat) (s : RoodSt),
      a + k = nonces.length → RelD (uvs, ndir, x0, x1, hu, hv, prev) s →
      Cuckarood_verify_loop1_ok p size nonces mask (List.range' a k) uvs ndir x0 x1 hu hv prev = true →
      (Cuckarood_verify_loop1 p size nonces mask (List.range' a k) uvs ndir x0 x1 hu hv prev
          = .ret none ∧
        ∃ e, roodBuild P ep size (nonces.drop a) (lastOf nonces a) s = .error e) ∨
      (∃ st s', Cuckarood_verify_loop1 p size nonces mask (List.range' a k) uvs ndir x0 x1 hu hv prev
          = .go st ∧
        roodBuild P ep size (nonces.drop a) (lastOf nonces a) s = .ok s' ∧ RelD st s') := by
  intro k
  induction k with
  | zero =>
    intro a uvs ndir x0 x1 hu hv prev s hak hrel _
    right
    refine ⟨_, s, ?_, ?_, hrel⟩
    · rw [List.range'_zero, d1_nil]
    · rw [List.drop_of_length_le (by omega), roodBuild]
  | succ k ih =>
    intro a uvs ndir x0 x1 hu hv prev s hak hrel hok
    rw [List.range'_succ] at hok ⊢
    obtain ⟨han, hrest⟩ := d1_ok_cons _ _ _ _ _ _ _ _ _ _ _ _ _ hok
    obtain ⟨r1, r2, r3, r4, r5, r6, r7⟩ := hrel
    have r2' : ndir = [s.nd0, s.nd1] := r2
    subst r2'
    rw [d1_cons, drop_eq_cons nonces a han, roodBuild]
    rw [Nat.and_one_is_mod] at hrest ⊢
    have hnd : idx [s.nd0, s.nd1] (idx nonces a % 2)
        = if idx nonces a % 2 = 0 then s.nd0 else s.nd1 := by
      rcases Nat.mod_two_eq_zero_or_one (idx nonces a) with h | h <;> rw [h] <;> rfl
    rw [hnd] at hrest ⊢
    dsimp only
    by_cases h0 : (if idx nonces a % 2 = 0 then s.nd0 else s.nd1) ≥ size / 2
    · left
      rw [if_pos (by simpa using h0), if_pos h0]
      exact ⟨rfl, _, rfl⟩
    · rw [if_neg (by simpa using h0), if_neg h0]
      by_cases h1 : idx nonces a > p.edge_mask
      · left
        rw [if_pos (by simpa using h1), if_pos (by rw [hP2]; exact h1)]
        exact ⟨rfl, _, rfl⟩
      · by_cases h2 : a > 0 ∧ idx nonces a ≤ idx nonces (subW a 1)
        · left
          rw [if_neg (by simpa using h1), if_pos (by simpa using h2), if_neg (by rw [hP2]; exact h1),
            if_pos ((notAsc_lastOf nonces a _ (by omega)).2 h2)]
          exact ⟨rfl, _, rfl⟩
        · obtain ⟨hub, hvb, hok'⟩ := hrest h0 h1 h2
          rw [if_neg (by simpa using h1), if_neg (by simpa using h2), if_neg (by rw [hP2]; exact h1),
            if_neg (fun h => h2 ((notAsc_lastOf nonces a _ (by omega)).1 h))]
          rw [← lastOf_succ]
          simp only [hep, hbk]
          try dsimp only at hub hvb hok'
          have hdl : idx nonces a % 2 < 2 := Nat.mod_lt _ (by omega)
          simp only [hnd, key_eq _ _ mask hdl hm] at hub hvb hok' ⊢
          generalize siphash_block p.siphash_keys (idx nonces a) 25 false &&& p.node_mask = U
            at hub hok' ⊢
          generalize shrW (siphash_block p.siphash_keys (idx nonces a) 25 false) 32 &&& p.node_mask = V
            at hvb hok' ⊢
          generalize idx nonces a % 2 = d at hdl h0 hub hvb hok' ⊢
          generalize hN : (if d = 0 then s.nd0 else s.nd1) = nd at h0 hok' ⊢
          have e1 : addW (mulW 4 nd) (mulW 2 d) = 4 * nd + 2 * d := i1_eq nd d (by omega) hdl
          have e2 : addW (4 * nd + 2 * d) 1 = 4 * nd + 2 * d + 1 := addW_one _ (by omega)
          have e3 : addW nd 1 = nd + 1 := addW_one _ (by omega)
          simp only [e1, e2, e3] at hok' ⊢
          have f1 : idx hu ((2 * U + d) &&& mask) = s.headu ((2 * U + d) &&& mask) := r5 _ hub
          have f2 : idx hv ((2 * V + d) &&& mask) = s.headv ((2 * V + d) &&& mask) := r6 _ hvb
          rw [f1, f2] at hok' ⊢
          refine ih (a + 1) _ _ _ _ _ _ _ _ (by omega) ?_ hok'
          refine ⟨R_set (R_set r1 _ _) _ _, ?_, ?_, ?_, R_set r5 _ _, R_set r6 _ _,
            R_set (R_set r7 _ _) _ _⟩
          · show List.set [s.nd0, s.nd1] d (nd + 1)
              = [if d = 0 then s.nd0 + 1 else s.nd0, if d = 0 then s.nd1 else s.nd1 + 1]
            rcases (by omega : d = 0 ∨ d = 1) with rfl | rfl <;> simp at hN <;> subst hN <;> simp
          · show x0 ^^^ U = s.x0 ^^^ U
            rw [show x0 = s.x0 from r3]
          · show x1 ^^^ V = s.x1 ^^^ V
            rw [show x1 = s.x1 from r4]

/-! ### loop 3 (inner `while k != 2*size`) = `roodFind`, loop 2 (outer `loop`) = `roodWalk (roodStep …)`

The translated `while` with fuel `f` may run `f` iterations and then find its condition false
(`_exits … 0 … = !(k != 2*size)`), the model's `roodFind` with fuel `f` reports `hang` in that
boundary case; hence the third alternative below.  At the top level it is excluded by
`verifyCuckarood_no_hang` (the bucket chains have at most `2*size` elements). -/

theorem d3_zero (size : Nat) (uvs prev : List Nat) (i j k : Nat) :
    Cuckarood_verify_loop3 size uvs prev i 0 j k = .go (j, k) := by
  conv => lhs; unfold Cuckarood_verify_loop3

theorem d3_succ (size : Nat) (uvs prev : List Nat) (i f j k : Nat) :
    Cuckarood_verify_loop3 size uvs prev i (f + 1) j k =
      if (k != mulW 2 size) = true then
        (if (idx uvs k == idx uvs i) = true then
          (if (j != i) = true then .ret none
           else Cuckarood_verify_loop3 size uvs prev i f k (idx prev k))
         else Cuckarood_verify_loop3 size uvs prev i f j (idx prev k))
      else .go (j, k) := by
  conv => lhs; unfold Cuckarood_verify_loop3

theorem d3_exits_zero (size : Nat) (uvs prev : List Nat) (i j k : Nat)
    (h : Cuckarood_verify_loop3_exits size uvs prev i 0 j k = true) : k = mulW 2 size := by
  conv at h => lhs; unfold Cuckarood_verify_loop3_exits
  simpa using h

theorem d3_exits_succ (size : Nat) (uvs prev : List Nat) (i f j k : Nat)
    (h : Cuckarood_verify_loop3_exits size uvs prev i (f + 1) j k = true) :
    k ≠ mulW 2 size → k < uvs.length ∧ i < uvs.length ∧
      (if (idx uvs k == idx uvs i) = true then
        (j = i → k < prev.length ∧
          Cuckarood_verify_loop3_exits size uvs prev i f k (idx prev k) = true)
       else k < prev.length ∧
          Cuckarood_verify_loop3_exits size uvs prev i f j (idx prev k) = true) := by
  conv at h => lhs; unfold Cuckarood_verify_loop3_exits
  intro hk
  rw [if_pos (by simpa using hk)] at h
  simp only [Bool.and_eq_true, decide_eq_true_eq] at h
  refine ⟨h.1.1, h.1.2, ?_⟩
  have h3 := h.2
  by_cases e : (idx uvs k == idx uvs i) = true
  · rw [if_pos e] at h3 ⊢
    intro hj
    rw [if_neg (by simpa using hj)] at h3
    simp only [Bool.and_eq_true, decide_eq_true_eq] at h3
    exact h3
  · rw [if_neg e] at h3 ⊢
    simp only [Bool.and_eq_true, decide_eq_true_eq] at h3
    exact h3

theorem d3_eq (size : Nat) (uvs prev : List Nat) (s : RoodSt) (i : Nat) (hsz : size < 2^62)
    (r1 : R uvs s.uvs) (r7 : R prev s.prev) :
    ∀ (f j k : Nat), Cuckarood_verify_loop3_exits size uvs prev i f j k = true →
      (Cuckarood_verify_loop3 size uvs prev i f j k = .ret none ∧
        roodFind size s i f k j = .error .branch) ∨
      (∃ j' k', Cuckarood_verify_loop3 size uvs prev i f j k = .go (j', k') ∧
        roodFind size s i f k j = .ok j') ∨
      roodFind size s i f k j = .error .hang := by
  intro f
  induction f with
  | zero => intro j k _; right; right; rw [roodFind]
  | succ f ih =>
    intro j k h
    have hrest := d3_exits_succ _ _ _ _ _ _ _ h
    rw [mulW_two size hsz] at hrest
    rw [d3_succ, roodFind, mulW_two size hsz]
    by_cases e1 : k = 2 * size
    · right; left
      rw [if_neg (by simpa using e1), if_pos e1]
      exact ⟨_, _, rfl, rfl⟩
    · obtain ⟨hk, hi, hrec⟩ := hrest e1
      rw [if_pos (by simpa using e1), if_neg e1, ← r1 _ hk, ← r1 _ hi]
      by_cases e2 : (idx uvs k == idx uvs i) = true
      · rw [if_pos e2] at hrec
        rw [if_pos e2, if_pos (show idx uvs k = idx uvs i by simpa using e2)]
        by_cases e3 : j = i
        · obtain ⟨hkp, hex⟩ := hrec e3
          rw [if_neg (by simpa using e3), if_neg (by simpa using e3), ← r7 _ hkp]
          exact ih _ _ hex
        · left
          rw [if_pos (by simpa using e3), if_pos (by simpa using e3)]
          exact ⟨rfl, rfl⟩
      · rw [if_neg e2] at hrec
        obtain ⟨hkp, hex⟩ := hrec
        rw [if_neg e2, if_neg (show ¬ idx uvs k = idx uvs i by simpa using e2), ← r7 _ hkp]
        exact ih _ _ hex

/-- start of the inner search: `if i & 1 == 0 { headu[((uvs[i] << 1) | 1) & mask] } else
{ headv[((uvs[i] << 1) | 0) & mask] }` -/
def kOf (uvs : List Nat) (mask : Nat) (hu hv : List Nat) (i : Nat) : Nat :=
  if (i &&& 1) == 0 then (idx hu (((shlW (idx uvs i) 1) ||| 1) &&& mask))
  else (idx hv (((shlW (idx uvs i) 1) ||| 0) &&& mask))

theorem d2_succ (size : Nat) (uvs : List Nat) (mask : Nat) (hu hv prev : List Nat) (f n i j : Nat) :
    Cuckarood_verify_loop2 size uvs mask hu hv prev (f + 1) n i j =
      match Cuckarood_verify_loop3 size uvs prev i (2 * size + 1) i (kOf uvs mask hu hv i) with
      | .ret r3 => .ret r3
      | .go st4 =>
        if (st4.1 == i) = true then .ret none
        else if (st4.1 ^^^ 1 == 0) = true then .go (addW n 1, st4.1 ^^^ 1, st4.1)
        else if decide (addW n 1 ≥ size) then .ret none
        else Cuckarood_verify_loop2 size uvs mask hu hv prev f (addW n 1) (st4.1 ^^^ 1) st4.1 := by
  conv => lhs; unfold Cuckarood_verify_loop2
  rw [if_pos rfl]
  rfl

theorem d2_exits_zero (size : Nat) (uvs : List Nat) (mask : Nat) (hu hv prev : List Nat) (n i j : Nat) :
    Cuckarood_verify_loop2_exits size uvs mask hu hv prev 0 n i j = false := by
  conv => lhs; unfold Cuckarood_verify_loop2_exits
  rfl

theorem d2_exits_succ (size : Nat) (uvs : List Nat) (mask : Nat) (hu hv prev : List Nat) (f n i j : Nat)
    (h : Cuckarood_verify_loop2_exits size uvs mask hu hv prev (f + 1) n i j = true) :
    i < uvs.length ∧
    (if (i &&& 1 == 0) = true then ((shlW (idx uvs i) 1) ||| 1) &&& mask < hu.length
      else ((shlW (idx uvs i) 1) ||| 0) &&& mask < hv.length) ∧
    Cuckarood_verify_loop3_exits size uvs prev i (2 * size + 1) i (kOf uvs mask hu hv i) = true ∧
    (∀ j' k', Cuckarood_verify_loop3 size uvs prev i (2 * size + 1) i (kOf uvs mask hu hv i)
        = .go (j', k') → j' ≠ i → j' ^^^ 1 ≠ 0 → ¬ addW n 1 ≥ size →
      Cuckarood_verify_loop2_exits size uvs mask hu hv prev f (addW n 1) (j' ^^^ 1) j' = true) := by
  conv at h => lhs; unfold Cuckarood_verify_loop2_exits
  rw [if_pos rfl, Bool.and_eq_true, Bool.and_eq_true] at h
  obtain ⟨ha, hb, hc⟩ := h
  refine ⟨?_, ?_, hb, fun j' k' e h1 h2 h3 => ?_⟩
  · by_cases c : (i &&& 1 == 0) = true
    · rw [if_pos c] at ha; simp only [Bool.and_eq_true, decide_eq_true_eq] at ha; exact ha.1
    · rw [if_neg c] at ha; simp only [Bool.and_eq_true, decide_eq_true_eq] at ha; exact ha.1
  · by_cases c : (i &&& 1 == 0) = true
    · rw [if_pos c] at ha ⊢; simp only [Bool.and_eq_true, decide_eq_true_eq] at ha; exact ha.2
    · rw [if_neg c] at ha ⊢; simp only [Bool.and_eq_true, decide_eq_true_eq] at ha; exact ha.2
  · have hc' : (match Cuckarood_verify_loop3 size uvs prev i (2 * size + 1) i (kOf uvs mask hu hv i) with
        | .ret _ => true
        | .go st6 =>
          if (st6.1 == i) = true then true
          else if (st6.1 ^^^ 1 == 0) = true then true
          else if decide (addW n 1 ≥ size) then true
          else Cuckarood_verify_loop2_exits size uvs mask hu hv prev f (addW n 1) (st6.1 ^^^ 1) st6.1)
        = true := hc
    rw [e] at hc'
    dsimp only at hc'
    rw [if_neg (by simpa using h1), if_neg (by simpa using h2), if_neg (by simpa using h3)] at hc'
    exact hc'

theorem kOf_eq (uvs : List Nat) (mask : Nat) (hu hv : List Nat) (P : Params) (s : RoodSt)
    (hm : mask < 2^64) (hbk : ∀ u, P.bk u = u &&& mask)
    (r1 : R uvs s.uvs) (r5 : R hu s.headu) (r6 : R hv s.headv) (i : Nat) (hi : i < uvs.length)
    (hb : if (i &&& 1 == 0) = true then ((shlW (idx uvs i) 1) ||| 1) &&& mask < hu.length
      else ((shlW (idx uvs i) 1) ||| 0) &&& mask < hv.length) :
    kOf uvs mask hu hv i =
      if i % 2 = 0 then s.headu (P.bk (2 * s.uvs i + 1)) else s.headv (P.bk (2 * s.uvs i)) := by
  unfold kOf
  rw [Nat.and_one_is_mod] at hb ⊢
  rw [← r1 i hi, hbk, hbk]
  by_cases c : i % 2 = 0
  · rw [if_pos (by simpa using c)] at hb
    rw [if_pos (by simpa using c), if_pos c]
    rw [key_eq _ 1 mask (by omega) hm] at hb ⊢
    exact r5 _ hb
  · rw [if_neg (by simpa using c)] at hb
    rw [if_neg (by simpa using c), if_neg c]
    rw [key_eq _ 0 mask (by omega) hm, Nat.add_zero] at hb ⊢
    exact r6 _ hb

theorem d2_eq (size : Nat) (uvs : List Nat) (mask : Nat) (hu hv prev : List Nat) (P : Params)
    (s : RoodSt) (hsz : size < 2^62) (hm : mask < 2^64) (hbk : ∀ u, P.bk u = u &&& mask)
    (r1 : R uvs s.uvs) (r5 : R hu s.headu) (r6 : R hv s.headv) (r7 : R prev s.prev) :
    ∀ (f n i j : Nat), n + f < 2^63 →
      Cuckarood_verify_loop2_exits size uvs mask hu hv prev f n i j = true →
      (Cuckarood_verify_loop2 size uvs mask hu hv prev f n i j = .ret none ∧
        ∃ e, roodWalk (roodStep P size s) size f i n = .error e) ∨
      (∃ n' i' j', Cuckarood_verify_loop2 size uvs mask hu hv prev f n i j = .go (n', i', j') ∧
        roodWalk (roodStep P size s) size f i n = .ok n') ∨
      roodWalk (roodStep P size s) size f i n = .error .hang := by
  intro f
  induction f with
  | zero => intro n i j _ h; rw [d2_exits_zero] at h; cases h
  | succ f ih =>
    intro n i j hn h
    obtain ⟨hi, hb, h3, hnext⟩ := d2_exits_succ _ _ _ _ _ _ _ _ _ _ h
    rw [d2_succ, roodWalk, roodStep]
    rw [kOf_eq uvs mask hu hv P s hm hbk r1 r5 r6 i hi hb] at h3 hnext ⊢
    rcases d3_eq size uvs prev s i hsz r1 r7 _ _ _ h3 with ⟨e1, e2⟩ | ⟨j', k', e1, e2⟩ | e2
    · left
      rw [e1, e2]
      exact ⟨rfl, _, rfl⟩
    · rw [e1, e2]
      dsimp only
      by_cases c1 : j' = i
      · left
        rw [if_pos (by simpa using c1), if_pos c1]
        exact ⟨rfl, _, rfl⟩
      · rw [if_neg (by simpa using c1), if_neg c1]
        dsimp only
        rw [addW_one n (by omega)]
        by_cases c2 : j' ^^^ 1 = 0
        · right; left
          rw [if_pos (by simpa using c2), if_pos c2]
          exact ⟨_, _, _, rfl, rfl⟩
        · rw [if_neg (by simpa using c2), if_neg c2]
          by_cases c3 : n + 1 ≥ size
          · left
            rw [if_pos (by simpa using c3), if_pos c3]
            exact ⟨rfl, _, rfl⟩
          · rw [if_neg (by simpa using c3), if_neg c3]
            have := hnext j' k' e1 c1 c2 (by rw [addW_one n (by omega)]; exact c3)
            rw [addW_one n (by omega)] at this
            exact ih _ _ _ (by omega) this
    · right; right
      rw [e2]

end GV.Lemmas.XlateVerifyD
