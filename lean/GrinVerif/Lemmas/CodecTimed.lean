import GrinVerif.Lemmas.CodecFaith
/-! The codec over a stream with a clock (`readT` / `runT` of `Model/Codec.lean`): as long as every
wait is shorter than the read timeout of the state the codec is in while it waits, the timed machine
does exactly what the untimed one does on the flat byte stream.  The per-state condition is
discharged from a condition on the sender's schedule (`DelaysOK`) by following the chain of reads:
a read that starts in state `None` pulls the 11 frame-header bytes first and is in a body state for
every later fill; all other reads of a message start in a body state. -/
namespace GV.Codec
open GV GV.Ser GV.Dec GV.Msg GV.Gen.Msg GV.Gen.CodecTimeouts

variable {B H : Type}

/-! ### the timeout table -/

theorem ioTimeout_none : ioTimeout (State.none : State H) = HEADER_IO_TIMEOUT_MS := rfl

/-- every state but `None` reads with `BODY_IO_TIMEOUT` -/
theorem ioTimeout_body (st : State H) (h : st ≠ .none) : ioTimeout st = BODY_IO_TIMEOUT_MS := by
  cases st with
  | none => exact absurd rfl h
  | header _ => rfl
  | blockHeaders _ _ _ => rfl
  | attachment _ => rfl

theorem header_lt_body : HEADER_IO_TIMEOUT_MS < BODY_IO_TIMEOUT_MS := by decide

/-- the loop continues (`inr`) only into `Header` / `BlockHeaders`: never into `None` -/
theorem stepState_inr_state (env : Env B H) (c : Codec H) (nl : Nat) (c2 : Codec H) (a : Nat)
    (h : stepState env c nl = .inr (c2, a)) : c2.state ≠ .none := by
  unfold stepState at h
  simp only [] at h
  repeat' (split at h)
  all_goals (first | (simp at h; done) | (simp only [Sum.inr.injEq, Prod.mk.injEq] at h; rw [← h.1]; simp))

/-! ### `read_exact` with a timeout that is never reached -/

theorem waitsBelow_take {lim : Nat} {ts : TStream} (h : WaitsBelow lim ts) (n : Nat) : WaitsBelow lim (ts.take n) :=
  fun p hp => h p (List.mem_of_mem_take hp)

theorem waitsBelow_drop {lim : Nat} {ts : TStream} (h : WaitsBelow lim ts) (n : Nat) : WaitsBelow lim (ts.drop n) :=
  fun p hp => h p (List.mem_of_mem_drop hp)

theorem waitsBelow_mono {a b : Nat} (hab : a ≤ b) {ts : TStream} (h : WaitsBelow a ts) : WaitsBelow b ts :=
  fun p hp => Nat.lt_of_lt_of_le (h p hp) hab

theorem tbytes_take (ts : TStream) (n : Nat) : tbytes (ts.take n) = (tbytes ts).take n := by
  simp [tbytes, List.map_take]

theorem tbytes_drop (ts : TStream) (n : Nat) : tbytes (ts.drop n) = (tbytes ts).drop n := by
  simp [tbytes, List.map_drop]

theorem tbytes_length (ts : TStream) : (tbytes ts).length = ts.length := by simp [tbytes]

/-- when no wait among the next `n` bytes reaches `T`, `read_exact(n)` is `take` / `drop` -/
theorem rxT_ok (T : Nat) : ∀ (n : Nat) (ts : TStream), WaitsBelow T (ts.take n) →
    rxT T n ts = if n ≤ ts.length then .got (tbytes (ts.take n)) (ts.drop n) else .eof
  | 0, ts, _ => by simp [rxT, tbytes]
  | n+1, [], _ => by simp [rxT]
  | n+1, (w, b) :: s, h => by
    have hw : w < T := h (w, b) (by simp)
    have ih := rxT_ok T n s (fun p hp => h p (by simp [hp]))
    have hnw : ¬ T ≤ w := by omega
    simp only [rxT, hnw, if_false, ih]
    by_cases hn : n ≤ s.length
    · simp [hn, tbytes]
    · simp [hn]

/-- a wait that reaches the timeout on the very first byte: nothing is pulled, nothing is lost -/
theorem rxT_first_timeout (T n w b : Nat) (s : TStream) (h : T ≤ w) :
    rxT T (n + 1) ((w, b) :: s) = .timeout ((w - T, b) :: s) := by
  simp [rxT, h]

/-- the fill of the timed machine = the fill on the flat stream -/
theorem fillT_flat (c : Codec H) (ts : TStream) (nl : Nat)
    (hw : WaitsBelow (ioTimeout c.state) (ts.take (nl - c.buffer.length))) :
    (fill flatOps c (tbytes ts) nl = none ∧ fillT c ts nl = .eof) ∨
    (∃ c1, fill flatOps c (tbytes ts) nl = some (c1, tbytes (ts.drop (nl - c.buffer.length))) ∧
      fillT c ts nl = .ok c1 (ts.drop (nl - c.buffer.length)) ∧ nl - c.buffer.length ≤ ts.length) := by
  unfold fill fillT
  by_cases h : nl - c.buffer.length > 0
  · simp only [h, if_true]
    have hrx : flatOps.rx (nl - c.buffer.length) (tbytes ts) = splitExact (nl - c.buffer.length) (tbytes ts) := rfl
    rw [hrx, splitExact_eq, rxT_ok _ _ _ hw, tbytes_length]
    by_cases hn : nl - c.buffer.length ≤ ts.length
    · right
      rw [if_pos hn, if_pos hn]
      exact ⟨{ c with buffer := c.buffer ++ tbytes (ts.take (nl - c.buffer.length)) },
        by rw [tbytes_take, tbytes_drop], rfl, hn⟩
    · left
      rw [if_neg hn, if_neg hn]
      exact ⟨rfl, rfl⟩
  · right
    simp only [h, if_false]
    have h0 : nl - c.buffer.length = 0 := by omega
    exact ⟨c, by rw [h0]; rfl, by rw [h0]; rfl, by omega⟩

/-- **one `Codec::read` with tolerated waits** = the read on the flat stream: if no wait reaches
`BODY_IO_TIMEOUT` and, when the read starts in state `None`, the missing bytes of the frame header
wait less than `HEADER_IO_TIMEOUT`, the timed machine returns the same result, counters and codec,
and has consumed the same bytes -/
theorem readLoopT_flat (env : Env B H) : ∀ (fuel : Nat) (c : Codec H) (ts : TStream) (br al : Nat),
    WaitsBelow BODY_IO_TIMEOUT_MS ts →
    (c.state = .none → WaitsBelow HEADER_IO_TIMEOUT_MS (ts.take (MSG_HEADER_LEN - c.buffer.length))) →
    ∃ j, readLoopT env fuel c ts br al =
        { res := (readLoop env flatOps fuel c (tbytes ts) br al).res,
          bytesRead := (readLoop env flatOps fuel c (tbytes ts) br al).bytesRead,
          alloc := (readLoop env flatOps fuel c (tbytes ts) br al).alloc,
          codec := (readLoop env flatOps fuel c (tbytes ts) br al).codec, sock := ts.drop j } ∧
      (readLoop env flatOps fuel c (tbytes ts) br al).sock = tbytes (ts.drop j) := by
  intro fuel
  induction fuel with
  | zero => intro c ts br al _ _; exact ⟨0, rfl, rfl⟩
  | succ fuel ih =>
    intro c ts br al hb hh
    have hw : WaitsBelow (ioTimeout c.state) (ts.take (nextLen env c.state - c.buffer.length)) := by
      by_cases hs : c.state = .none
      · have := hh hs
        rw [hs]
        exact this
      · rw [ioTimeout_body _ hs]
        exact waitsBelow_take hb _
    rcases fillT_flat c ts (nextLen env c.state) hw with ⟨e1, e2⟩ | ⟨c1, e1, e2, _⟩
    · refine ⟨ts.length, ?_, ?_⟩
      · simp only [readLoop, readLoopT, e1, e2, List.drop_length]
      · simp only [readLoop, e1, List.drop_length]
        rfl
    · simp only [readLoop, readLoopT, e1, e2]
      cases hst : stepState env c1 (nextLen env c.state) with
      | inl r =>
        obtain ⟨r, c2, a⟩ := r
        exact ⟨nextLen env c.state - c.buffer.length, rfl, rfl⟩
      | inr r =>
        obtain ⟨c2, a⟩ := r
        obtain ⟨j, q1, q2⟩ := ih c2 (ts.drop (nextLen env c.state - c.buffer.length))
          (br + (nextLen env c.state - c.buffer.length)) (al + (nextLen env c.state - c.buffer.length) + a)
          (waitsBelow_drop hb _) (fun hn => absurd hn (stepState_inr_state env c1 _ c2 a hst))
        refine ⟨nextLen env c.state - c.buffer.length + j, ?_, ?_⟩
        · simp only [q1, List.drop_drop]
        · simp only [q2, List.drop_drop]

theorem readT_flat (env : Env B H) (c : Codec H) (ts : TStream)
    (hb : WaitsBelow BODY_IO_TIMEOUT_MS ts)
    (hh : c.state = .none → WaitsBelow HEADER_IO_TIMEOUT_MS (ts.take (MSG_HEADER_LEN - c.buffer.length))) :
    ∃ j, readT env c ts =
        { res := (read env flatOps c (tbytes ts)).res, bytesRead := (read env flatOps c (tbytes ts)).bytesRead,
          alloc := (read env flatOps c (tbytes ts)).alloc, codec := (read env flatOps c (tbytes ts)).codec,
          sock := ts.drop j } ∧
      (read env flatOps c (tbytes ts)).sock = tbytes (ts.drop j) :=
  readLoopT_flat env READ_FUEL c ts 0 0 hb hh

/-! ### which messages leave the codec in the middle of a message -/

/-- after `m` the codec is still inside the sent message: a header batch with more to come, an
attachment chunk with more to come, a body the handler answers with `Consumed::Attachment` -/
def continues (attach : Message B H → Option Nat) : Message B H → Prop
  | .unknown _ => False
  | .body t v => attach (.body t v) ≠ none
  | .headers _ rem => rem ≠ 0
  | .attachment _ left _ => left ≠ 0

/-- what the state after a returned message is, per kind of message -/
def MsgState (m : Message B H) (c : Codec H) : Prop :=
  match m with
  | .headers _ rem => rem ≠ 0 → c.state ≠ .none
  | .attachment _ left _ => left ≠ 0 → c.state ≠ .none
  | _ => True

theorem decodeMessage_body (env : Env B H) (t : Nat) (raw : Bytes) (m : Message B H)
    (h : decodeMessage env t raw = .ok m) : ∃ v, m = .body t v := by
  unfold decodeMessage at h
  split at h
  · split at h
    · cases h; exact ⟨_, rfl⟩
    · cases h
  · cases h

theorem stepState_msg_state (env : Env B H) (c : Codec H) (nl : Nat) (m : Message B H) (c2 : Codec H) (a : Nat)
    (h : stepState env c nl = .inl (.msg m, c2, a)) : MsgState m c2 := by
  unfold stepState at h
  simp only [] at h
  repeat' (split at h)
  all_goals (try (simp at h; done))
  · -- the empty `Headers` list
    simp only [Sum.inl.injEq, Prod.mk.injEq, Res.msg.injEq] at h
    obtain ⟨rfl, rfl, _⟩ := h
    intro hne
    exact absurd rfl hne
  · rename_i hm
    simp only [Sum.inl.injEq, Prod.mk.injEq, Res.msg.injEq] at h
    obtain ⟨rfl, rfl, _⟩ := h
    obtain ⟨v, rfl⟩ := decodeMessage_body env _ _ _ hm
    trivial
  · simp only [Sum.inl.injEq, Prod.mk.injEq, Res.msg.injEq] at h
    obtain ⟨rfl, rfl, _⟩ := h
    trivial
  · rename_i hz _
    simp only [Sum.inl.injEq, Prod.mk.injEq, Res.msg.injEq] at h
    obtain ⟨rfl, rfl, _⟩ := h
    intro hne
    exact absurd hz hne
  · simp only [Sum.inl.injEq, Prod.mk.injEq, Res.msg.injEq] at h
    obtain ⟨rfl, rfl, _⟩ := h
    intro _
    simp
  · rename_i hz
    simp only [Sum.inl.injEq, Prod.mk.injEq, Res.msg.injEq] at h
    obtain ⟨rfl, rfl, _⟩ := h
    intro hne
    exact absurd hz hne
  · simp only [Sum.inl.injEq, Prod.mk.injEq, Res.msg.injEq] at h
    obtain ⟨rfl, rfl, _⟩ := h
    intro _
    simp

theorem readLoop_msg_state {σ : Type} (env : Env B H) (ops : SockOps σ) :
    ∀ (fuel : Nat) (c : Codec H) (s : σ) (br al : Nat) (m : Message B H),
      (readLoop env ops fuel c s br al).res = .msg m → MsgState m (readLoop env ops fuel c s br al).codec := by
  intro fuel
  induction fuel with
  | zero => intro c s br al m h; simp [readLoop] at h
  | succ fuel ih =>
    intro c s br al m h
    simp only [readLoop] at h ⊢
    cases hf : fill ops c s (nextLen env c.state) with
    | none => rw [hf] at h; simp at h
    | some p =>
      obtain ⟨c1, s1⟩ := p
      rw [hf] at h
      simp only [] at h ⊢
      cases hst : stepState env c1 (nextLen env c.state) with
      | inl r =>
        obtain ⟨r, c2, a⟩ := r
        rw [hst] at h
        simp only [] at h ⊢
        subst h
        exact stepState_msg_state env c1 _ m c2 a hst
      | inr r =>
        obtain ⟨c2, a⟩ := r
        rw [hst] at h
        exact ih c2 s1 _ _ m h

theorem expectAttachment_state (c c2 : Codec H) (size : Nat) (h : expectAttachment c size = some c2) :
    c2.state ≠ .none := by
  unfold expectAttachment at h
  split at h
  · cases h; simp
  · cases h

/-- after a message that `continues`, the next read starts in a body state -/
theorem next_state_ne_none (env : Env B H) (attach : Message B H → Option Nat) (c : Codec H) (s : Bytes)
    (m : Message B H) (c1 : Codec H) (s1 : Bytes) (c2 : Codec H)
    (hr : ReadsTo env c s m c1 s1) (hn : nextCodec attach c1 m = some c2) (hc : continues attach m) :
    c2.state ≠ .none := by
  obtain ⟨r1, r2, _⟩ := hr
  have hms := readLoop_msg_state env flatOps READ_FUEL c s 0 0 m r1
  have hcod : (readLoop env flatOps READ_FUEL c s 0 0).codec = c1 := r2
  rw [hcod] at hms
  unfold nextCodec at hn
  cases ha : attach m with
  | some size =>
    rw [ha] at hn
    exact expectAttachment_state c1 c2 size hn
  | none =>
    rw [ha] at hn
    cases hn
    cases m with
    | unknown t => exact absurd hc (by simp [continues])
    | body t v => exact absurd ha hc
    | headers hs rem => exact hms hc
    | attachment rd left bytes => exact hms hc

/-- all messages of the list but the last one `continue` -/
def AllButLastContinue (attach : Message B H → Option Nat) : List (Message B H) → Prop
  | [] => True
  | [_] => True
  | m :: m' :: r => continues attach m ∧ AllButLastContinue attach (m' :: r)

theorem abl_cons (attach : Message B H → Option Nat) (m : Message B H) (rest : List (Message B H))
    (h1 : rest ≠ [] → continues attach m) (h2 : AllButLastContinue attach rest) :
    AllButLastContinue attach (m :: rest) := by
  cases rest with
  | nil => trivial
  | cons m' r => exact ⟨h1 (by simp), h2⟩

theorem batches_nil (f : Nat) : (batches f ([] : List H) : List (Message B H)) = [] := by
  cases f <;> simp [batches]

theorem abl_batches (attach : Message B H → Option Nat) : ∀ (f : Nat) (hs : List H),
    AllButLastContinue attach (batches f hs : List (Message B H)) := by
  intro f
  induction f with
  | zero => intro hs; simp [batches, AllButLastContinue]
  | succ f ih =>
    intro hs
    simp only [batches]
    split
    · trivial
    · apply abl_cons _ _ _ _ (ih _)
      intro hne
      show hs.length - HEADER_BATCH_SIZE ≠ 0
      intro hz
      apply hne
      have : hs.drop HEADER_BATCH_SIZE = [] := List.drop_eq_nil_of_le (by omega)
      rw [this]
      exact batches_nil f

theorem abl_attEvents (attach : Message B H → Option Nat) : ∀ (f : Nat) (data : Bytes),
    AllButLastContinue attach (attEvents f data : List (Message B H)) := by
  intro f
  induction f with
  | zero => intro data; simp [attEvents, AllButLastContinue]
  | succ f ih =>
    intro data
    simp only [attEvents]
    apply abl_cons
    · intro hne
      show data.length - min data.length ATTACHMENT_CHUNK ≠ 0
      intro hz
      apply hne
      simp [hz]
    · split
      · trivial
      · exact ih _

theorem abl_expected (env : Env B H) (attach : Message B H → Option Nat) (m : Sent B H)
    (hwf : SentWF env attach m) : AllButLastContinue attach (expected m) := by
  cases m with
  | plain t v raw => trivial
  | unknown t raw => trivial
  | headers items =>
    simp only [expected]
    split
    · trivial
    · exact abl_batches attach _ _
  | archive t v raw att =>
    obtain ⟨_, _, _, _, ha⟩ := hwf
    apply abl_cons _ _ _ _ (abl_attEvents attach _ _)
    intro _
    show attach (.body t v) ≠ none
    rw [ha]; simp

/-! ### the reader loop over a timed stream follows the chain of the flat stream -/

theorem runT_msg (env : Env B H) (attach : Message B H → Option Nat) (fuel : Nat) (c : Codec H) (ts : TStream)
    (m : Message B H) (c1 c2 : Codec H) (s1 : TStream) (br al : Nat)
    (hr : readT env c ts = { res := .msg m, bytesRead := br, alloc := al, codec := c1, sock := s1 })
    (hn : nextCodec attach c1 m = some c2) :
    runT env attach (fuel + 1) c ts =
      (m :: (runT env attach fuel c2 s1).1, (runT env attach fuel c2 s1).2.1,
       (runT env attach fuel c2 s1).2.2.1, (runT env attach fuel c2 s1).2.2.2) := by
  simp only [runT, hr, hn]

theorem runT_chain {env : Env B H} {attach : Message B H → Option Nat} {c c' : Codec H} {s s' : Bytes}
    {ms : List (Message B H)} (h : Chain env attach c s ms c' s') :
    AllButLastContinue attach ms → ∀ ts : TStream, tbytes ts = s → WaitsBelow BODY_IO_TIMEOUT_MS ts →
      (c.state = .none → WaitsBelow HEADER_IO_TIMEOUT_MS (ts.take (MSG_HEADER_LEN - c.buffer.length))) →
      ∃ j, tbytes (ts.drop j) = s' ∧ ∀ fuel, runT env attach (ms.length + fuel) c ts =
        (ms ++ (runT env attach fuel c' (ts.drop j)).1, (runT env attach fuel c' (ts.drop j)).2.1,
         (runT env attach fuel c' (ts.drop j)).2.2.1, (runT env attach fuel c' (ts.drop j)).2.2.2) := by
  induction h with
  | nil c s =>
    intro _ ts hts _ _
    exact ⟨0, by simpa using hts, fun fuel => by simp⟩
  | @cons c s m c1 s1 c2 ms c3 s3 hr hn htail ih =>
    intro habl ts hts hb hh
    subst hts
    obtain ⟨j1, e1, e2⟩ := readT_flat env c ts hb hh
    obtain ⟨r1, r2, r3⟩ := hr
    rw [r1, r2] at e1
    rw [r3] at e2
    cases ms with
    | nil =>
      cases htail
      refine ⟨j1, e2.symm, fun fuel => ?_⟩
      have := runT_msg env attach fuel c ts m c1 c2 _ _ _ e1 hn
      simpa [Nat.add_comm] using this
    | cons m' r =>
      obtain ⟨hcont, habl'⟩ := habl
      have hne := next_state_ne_none env attach c (tbytes ts) m c1 s1 c2 ⟨r1, r2, r3⟩ hn hcont
      obtain ⟨j2, q1, q2⟩ := ih habl' (ts.drop j1) e2.symm (waitsBelow_drop hb _) (fun h0 => absurd h0 hne)
      refine ⟨j1 + j2, by rw [← List.drop_drop]; exact q1, fun fuel => ?_⟩
      have e : (m :: m' :: r).length + fuel = ((m' :: r).length + fuel) + 1 := by
        simp only [List.length_cons]; omega
      rw [e, runT_msg env attach _ c ts m c1 c2 _ _ _ e1 hn, q2 fuel, List.drop_drop]
      simp

/-! ### a whole conversation under a schedule that respects the timeouts -/

theorem encodeSent_length_ge (net : NetCfg) (m : Sent B H) : MSG_HEADER_LEN ≤ (encodeSent net m).length := by
  cases m <;> simp [encodeSent, writeMessage, encHeader_length, MSG_HEADER_LEN] <;> omega

theorem delaysOK_body (net : NetCfg) : ∀ (msgs : List (Sent B H)) (ts : TStream),
    DelaysOK net msgs ts → WaitsBelow BODY_IO_TIMEOUT_MS ts := by
  intro msgs
  induction msgs with
  | nil => intro ts h; cases h; intro p hp; cases hp
  | cons m ms ih =>
    intro ts h
    obtain ⟨_, h2, h3⟩ := h
    intro p hp
    rw [← List.take_append_drop (encodeSent net m).length ts, List.mem_append] at hp
    rcases hp with hp | hp
    · exact h2 p hp
    · exact ih _ h3 p hp

theorem drop_eq_of_length {α : Type} (l : List α) (j L : Nat) (hL : L ≤ l.length)
    (h : (l.drop j).length = l.length - L) : l.drop j = l.drop L := by
  rw [List.length_drop] at h
  by_cases hj : j ≤ l.length
  · have : j = L := by omega
    rw [this]
  · rw [List.drop_eq_nil_of_le (by omega), List.drop_eq_nil_of_le (by omega)]

theorem readT_idle_eof (env : Env B H) :
    readT env (idle : Codec H) [] = { res := .err .conn, bytesRead := 0, alloc := 0 + 11, codec := idle, sock := [] } := rfl

theorem runT_idle_eof (env : Env B H) (attach : Message B H → Option Nat) (fuel : Nat) :
    runT env attach (fuel + 1) (idle : Codec H) [] = ([], .err .conn, idle, []) := by
  simp only [runT, readT_idle_eof]
  rfl

/-- the reader loop over any schedule that respects the timeouts delivers the expected events of the
whole conversation, then continues on the empty stream -/
theorem runT_all (env : Env B H) (attach : Message B H → Option Nat) (hat : AttachOK attach) :
    ∀ (msgs : List (Sent B H)), (∀ m ∈ msgs, SentWF env attach m) → ∀ ts : TStream,
      tbytes ts = (msgs.map (encodeSent env.net)).flatten → DelaysOK env.net msgs ts → ∀ fuel,
      runT env attach ((msgs.map expected).flatten.length + fuel) idle ts =
        ((msgs.map expected).flatten ++ (runT env attach fuel (idle : Codec H) []).1,
         (runT env attach fuel (idle : Codec H) []).2.1, (runT env attach fuel (idle : Codec H) []).2.2.1,
         (runT env attach fuel (idle : Codec H) []).2.2.2) := by
  intro msgs
  induction msgs with
  | nil =>
    intro _ ts _ hd fuel
    cases hd
    simp
  | cons m ms ih =>
    intro hwf ts hts hd fuel
    have hbody := delaysOK_body env.net (m :: ms) ts hd
    obtain ⟨hhead, _, htail⟩ := hd
    have hts' : tbytes ts = encodeSent env.net m ++ (ms.map (encodeSent env.net)).flatten := by
      simpa using hts
    have hc := chain_sent env attach hat (ms.map (encodeSent env.net)).flatten m (hwf m (by simp))
    obtain ⟨j, ej, hrun⟩ := runT_chain hc (abl_expected env attach m (hwf m (by simp))) ts hts' hbody
      (fun _ => by simpa [idle] using hhead)
    have hlen : ts.length = (encodeSent env.net m).length + ((ms.map (encodeSent env.net)).flatten).length := by
      rw [← tbytes_length, hts', List.length_append]
    have hdrop : ts.drop j = ts.drop (encodeSent env.net m).length := by
      apply drop_eq_of_length _ _ _ (by omega)
      rw [← tbytes_length, ej]; omega
    rw [hdrop] at ej hrun
    have := ih (fun x hx => hwf x (by simp [hx])) _ ej htail fuel
    simp only [List.map_cons, List.flatten_cons, List.length_append, Nat.add_assoc]
    rw [hrun, this]
    simp

/-! ### a pause while the codec is idle -/

/-- the read timeout expires while the codec waits, idle, for the first byte of a frame header:
`TimedOut`, nothing pulled, nothing lost, the awaited byte is `HEADER_IO_TIMEOUT` closer -/
theorem readT_idle_timeout (env : Env B H) (w b : Nat) (s : TStream) (h : HEADER_IO_TIMEOUT_MS ≤ w) :
    readT env (idle : Codec H) ((w, b) :: s) =
      { res := .err .timedOut, bytesRead := 0, alloc := 0 + 11, codec := idle,
        sock := (w - HEADER_IO_TIMEOUT_MS, b) :: s } := by
  have hf : fillT (idle : Codec H) ((w, b) :: s) (nextLen env (idle : Codec H).state) =
      .timeout ((w - HEADER_IO_TIMEOUT_MS, b) :: s) := by
    have : nextLen env (idle : Codec H).state - (idle : Codec H).buffer.length = 10 + 1 := rfl
    unfold fillT
    rw [this, if_pos (by omega), show ioTimeout (idle : Codec H).state = HEADER_IO_TIMEOUT_MS from rfl,
      rxT_first_timeout _ _ _ _ _ h]
  show readLoopT env (35 + 1) idle ((w, b) :: s) 0 0 = _
  simp only [readLoopT, hf]
  rfl

/-- **an idle pause of any length is absorbed**: the reader thread retries (`try_break!`: `TimedOut`
⇒ nothing yet) until the byte is there; after `w / HEADER_IO_TIMEOUT` retries it continues exactly as
if the wait had been `w % HEADER_IO_TIMEOUT` -/
theorem runT_idle_wait (env : Env B H) (attach : Message B H → Option Nat) (b : Nat) (s : TStream) :
    ∀ (k w' : Nat) (fuel : Nat),
      runT env attach (k + fuel) (idle : Codec H) ((k * HEADER_IO_TIMEOUT_MS + w', b) :: s) =
        runT env attach fuel (idle : Codec H) ((w', b) :: s) := by
  intro k
  induction k with
  | zero => intro w' fuel; simp
  | succ k ih =>
    intro w' fuel
    have hge : HEADER_IO_TIMEOUT_MS ≤ (k + 1) * HEADER_IO_TIMEOUT_MS + w' := by
      rw [Nat.succ_mul]; omega
    have hsub : (k + 1) * HEADER_IO_TIMEOUT_MS + w' - HEADER_IO_TIMEOUT_MS = k * HEADER_IO_TIMEOUT_MS + w' := by
      rw [Nat.succ_mul]; omega
    have e : k + 1 + fuel = (k + fuel) + 1 := by omega
    rw [e, ← ih w' fuel]
    simp only [runT, readT_idle_timeout env _ b s hge, hsub]
    rfl

/-- the same with the pause given as a number: `w / HEADER_IO_TIMEOUT` retries, then as if the wait
had been `w % HEADER_IO_TIMEOUT` -/
theorem runT_idle_wait' (env : Env B H) (attach : Message B H → Option Nat) (w b : Nat) (s : TStream) (fuel : Nat) :
    runT env attach (w / HEADER_IO_TIMEOUT_MS + fuel) (idle : Codec H) ((w, b) :: s) =
      runT env attach fuel (idle : Codec H) ((w % HEADER_IO_TIMEOUT_MS, b) :: s) := by
  have := runT_idle_wait env attach b s (w / HEADER_IO_TIMEOUT_MS) (w % HEADER_IO_TIMEOUT_MS) fuel
  rw [Nat.mul_comm, Nat.div_add_mod] at this
  exact this

/-! ### schedules of fragments -/

theorem tbytes_tagFrag (d : Nat) (f : Bytes) : tbytes (tagFrag d f) = f := by
  cases f with
  | nil => rfl
  | cons b r => simp [tagFrag, tbytes, Function.comp_def]

theorem tbytes_tagSched (sched : Sched) : tbytes (tagSched sched) = (sched.map (·.2)).flatten := by
  induction sched with
  | nil => rfl
  | cons p s ih =>
    obtain ⟨d, f⟩ := p
    have : tbytes (tagFrag d f ++ tagSched s) = tbytes (tagFrag d f) ++ tbytes (tagSched s) := by
      simp [tbytes]
    simp only [tagSched, this, tbytes_tagFrag, ih, List.map_cons, List.flatten_cons]

theorem waitsBelow_tagFrag (lim d : Nat) (f : Bytes) (h0 : 0 < lim) (hd : d < lim) : WaitsBelow lim (tagFrag d f) := by
  cases f with
  | nil => intro p hp; cases hp
  | cons b r =>
    intro p hp
    simp only [tagFrag, List.mem_cons, List.mem_map] at hp
    rcases hp with rfl | ⟨x, _, rfl⟩
    · exact hd
    · exact h0

theorem waitsBelow_tagSched (lim : Nat) (h0 : 0 < lim) (sched : Sched) (h : ∀ p ∈ sched, p.1 < lim) :
    WaitsBelow lim (tagSched sched) := by
  induction sched with
  | nil => intro p hp; cases hp
  | cons q s ih =>
    obtain ⟨d, f⟩ := q
    intro p hp
    simp only [tagSched, List.mem_append] at hp
    rcases hp with hp | hp
    · exact waitsBelow_tagFrag lim d f h0 (h (d, f) (by simp)) p hp
    · exact ih (fun x hx => h x (by simp [hx])) p hp

/-- pauses that are all shorter than `HEADER_IO_TIMEOUT` respect every state's timeout -/
theorem delaysOK_of_small (net : NetCfg) : ∀ (msgs : List (Sent B H)) (ts : TStream),
    tbytes ts = (msgs.map (encodeSent net)).flatten → WaitsBelow HEADER_IO_TIMEOUT_MS ts → DelaysOK net msgs ts := by
  intro msgs
  induction msgs with
  | nil =>
    intro ts hts _
    have : ts.length = 0 := by rw [← tbytes_length, hts]; rfl
    exact List.eq_nil_of_length_eq_zero this
  | cons m ms ih =>
    intro ts hts hw
    refine ⟨waitsBelow_take hw _, waitsBelow_mono (Nat.le_of_lt header_lt_body) (waitsBelow_take hw _), ?_⟩
    apply ih _ _ (waitsBelow_drop hw _)
    rw [tbytes_drop, hts]
    simp

/-! ### idle pauses of any length between messages

The hypothesis on the waits is needed only for the bytes a read / a chain of reads actually consumes
(`readLoopT_flat_local`, `runT_chain_local`); the wait for the first byte of a frame is absorbed by
`runT_idle_wait'`. -/

theorem readLoop_bytesRead_ge {σ : Type} (env : Env B H) (ops : SockOps σ) :
    ∀ (fuel : Nat) (c : Codec H) (s : σ) (br al : Nat), br ≤ (readLoop env ops fuel c s br al).bytesRead := by
  intro fuel
  induction fuel with
  | zero => intro c s br al; simp [readLoop]
  | succ fuel ih =>
    intro c s br al
    simp only [readLoop]
    cases hf : fill ops c s (nextLen env c.state) with
    | none => simp
    | some p =>
      obtain ⟨c1, s1⟩ := p
      simp only []
      cases hst : stepState env c1 (nextLen env c.state) with
      | inl r => obtain ⟨r, c2, a⟩ := r; simp
      | inr r =>
        obtain ⟨c2, a⟩ := r
        exact Nat.le_trans (Nat.le_add_right _ _) (ih c2 s1 _ _)

theorem waitsBelow_take_le {lim : Nat} {ts : TStream} {a b : Nat} (hab : a ≤ b)
    (h : WaitsBelow lim (ts.take b)) : WaitsBelow lim (ts.take a) := by
  have : ts.take a = (ts.take b).take a := by rw [List.take_take, Nat.min_eq_left hab]
  rw [this]
  exact waitsBelow_take h a

/-- as `readLoopT_flat`, for a read that returns a message, with the hypothesis on the waits only for
the `K` bytes the read consumes at most -/
theorem readLoopT_flat_local (env : Env B H) : ∀ (fuel : Nat) (c : Codec H) (ts : TStream) (br al K : Nat)
    (m : Message B H),
    (readLoop env flatOps fuel c (tbytes ts) br al).res = .msg m →
    (readLoop env flatOps fuel c (tbytes ts) br al).bytesRead ≤ br + K →
    WaitsBelow BODY_IO_TIMEOUT_MS (ts.take K) →
    (c.state = .none → WaitsBelow HEADER_IO_TIMEOUT_MS (ts.take (MSG_HEADER_LEN - c.buffer.length))) →
    ∃ j, j ≤ K ∧ j ≤ ts.length ∧ readLoopT env fuel c ts br al =
        { res := (readLoop env flatOps fuel c (tbytes ts) br al).res,
          bytesRead := (readLoop env flatOps fuel c (tbytes ts) br al).bytesRead,
          alloc := (readLoop env flatOps fuel c (tbytes ts) br al).alloc,
          codec := (readLoop env flatOps fuel c (tbytes ts) br al).codec, sock := ts.drop j } ∧
      (readLoop env flatOps fuel c (tbytes ts) br al).sock = tbytes (ts.drop j) ∧
      (readLoop env flatOps fuel c (tbytes ts) br al).bytesRead = br + j := by
  intro fuel
  induction fuel with
  | zero => intro c ts br al K m h; simp [readLoop] at h
  | succ fuel ih =>
    intro c ts br al K m hres hbr hb hh
    -- the flat fill succeeds (otherwise the read ends with `Connection`)
    cases hfl : fill flatOps c (tbytes ts) (nextLen env c.state) with
    | none => simp [readLoop, hfl] at hres
    | some p =>
      obtain ⟨c1', s1'⟩ := p
      have hge : br + (nextLen env c.state - c.buffer.length) ≤
          (readLoop env flatOps (fuel + 1) c (tbytes ts) br al).bytesRead := by
        simp only [readLoop, hfl]
        cases hst : stepState env c1' (nextLen env c.state) with
        | inl r => obtain ⟨r, c2, a⟩ := r; simp
        | inr r => obtain ⟨c2, a⟩ := r; exact readLoop_bytesRead_ge env flatOps fuel c2 s1' _ _
      have hK : nextLen env c.state - c.buffer.length ≤ K := by omega
      have hw : WaitsBelow (ioTimeout c.state) (ts.take (nextLen env c.state - c.buffer.length)) := by
        by_cases hs : c.state = .none
        · have := hh hs
          rw [hs]
          exact this
        · rw [ioTimeout_body _ hs]
          exact waitsBelow_take_le hK hb
      rcases fillT_flat c ts (nextLen env c.state) hw with ⟨e1, _⟩ | ⟨c1, e1, e2, hlen⟩
      · rw [e1] at hfl; cases hfl
      · simp only [readLoop, readLoopT, e1, e2] at hres hbr ⊢
        cases hst : stepState env c1 (nextLen env c.state) with
        | inl r =>
          obtain ⟨r, c2, a⟩ := r
          exact ⟨nextLen env c.state - c.buffer.length, hK, hlen, rfl, rfl, rfl⟩
        | inr r =>
          obtain ⟨c2, a⟩ := r
          rw [hst] at hres hbr
          simp only [] at hres hbr
          obtain ⟨j, hj, hjl, q1, q2, q3⟩ := ih c2 (ts.drop (nextLen env c.state - c.buffer.length))
            (br + (nextLen env c.state - c.buffer.length)) (al + (nextLen env c.state - c.buffer.length) + a)
            (K - (nextLen env c.state - c.buffer.length)) m hres (by omega)
            (by rw [← List.drop_take]; exact waitsBelow_drop hb _)
            (fun hn => absurd hn (stepState_inr_state env c1 _ c2 a hst))
          rw [List.length_drop] at hjl
          refine ⟨nextLen env c.state - c.buffer.length + j, by omega, by omega, ?_, ?_, ?_⟩
          · simp only [q1, List.drop_drop]
          · simp only [q2, List.drop_drop]
          · rw [q3]; omega


/-- the flat stream with no waits -/
def tag0 (s : Bytes) : TStream := s.map fun b => (0, b)

theorem tbytes_tag0 (s : Bytes) : tbytes (tag0 s) = s := by
  simp [tag0, tbytes, Function.comp_def]

theorem waitsBelow_tag0 (lim : Nat) (h : 0 < lim) (s : Bytes) : WaitsBelow lim (tag0 s) := by
  intro p hp
  simp only [tag0, List.mem_map] at hp
  obtain ⟨_, _, rfl⟩ := hp
  exact h

/-- a read on the flat stream that returns a message has consumed exactly `bytes_read` bytes -/
theorem read_flat_consumes (env : Env B H) (c : Codec H) (s : Bytes) (m : Message B H)
    (h : (read env flatOps c s).res = .msg m) :
    ∃ j, j ≤ s.length ∧ (read env flatOps c s).sock = s.drop j ∧ (read env flatOps c s).bytesRead = j := by
  have h' : (readLoop env flatOps READ_FUEL c (tbytes (tag0 s)) 0 0).res = .msg m := by
    rw [tbytes_tag0]; exact h
  obtain ⟨j, _, hjl, _, q2, q3⟩ := readLoopT_flat_local env READ_FUEL c (tag0 s) 0 0
    (readLoop env flatOps READ_FUEL c (tbytes (tag0 s)) 0 0).bytesRead m h' (by omega)
    (waitsBelow_take (waitsBelow_tag0 _ (by decide) s) _)
    (fun _ => waitsBelow_take (waitsBelow_tag0 _ (by decide) s) _)
  rw [tbytes_tag0] at q2 q3
  have q3' : (read env flatOps c s).bytesRead = j := by
    show (readLoop env flatOps READ_FUEL c s 0 0).bytesRead = j
    omega
  refine ⟨j, by simpa [tag0] using hjl, ?_, q3'⟩
  rw [show read env flatOps c s = readLoop env flatOps READ_FUEL c s 0 0 from rfl, q2, tbytes_drop, tbytes_tag0]

theorem chain_length {env : Env B H} {attach : Message B H → Option Nat} {c c' : Codec H} {s s' : Bytes}
    {ms : List (Message B H)} (h : Chain env attach c s ms c' s') : s'.length ≤ s.length := by
  induction h with
  | nil c s => exact Nat.le_refl _
  | @cons c s m c1 s1 c2 ms c3 s3 hr _ _ ih =>
    obtain ⟨r1, _, r3⟩ := hr
    obtain ⟨j, _, e, _⟩ := read_flat_consumes env c s m r1
    rw [r3] at e
    have : s1.length ≤ s.length := by rw [e, List.length_drop]; omega
    omega

/-- `runT_chain` with the hypothesis on the waits only for the bytes the chain consumes -/
theorem runT_chain_local {env : Env B H} {attach : Message B H → Option Nat} {c c' : Codec H} {s s' : Bytes}
    {ms : List (Message B H)} (h : Chain env attach c s ms c' s') :
    AllButLastContinue attach ms → ∀ ts : TStream, tbytes ts = s →
      WaitsBelow BODY_IO_TIMEOUT_MS (ts.take (s.length - s'.length)) →
      (c.state = .none → WaitsBelow HEADER_IO_TIMEOUT_MS (ts.take (MSG_HEADER_LEN - c.buffer.length))) →
      tbytes (ts.drop (s.length - s'.length)) = s' ∧ ∀ fuel, runT env attach (ms.length + fuel) c ts =
        (ms ++ (runT env attach fuel c' (ts.drop (s.length - s'.length))).1,
         (runT env attach fuel c' (ts.drop (s.length - s'.length))).2.1,
         (runT env attach fuel c' (ts.drop (s.length - s'.length))).2.2.1,
         (runT env attach fuel c' (ts.drop (s.length - s'.length))).2.2.2) := by
  induction h with
  | nil c s =>
    intro _ ts hts _ _
    rw [Nat.sub_self]
    exact ⟨by simpa using hts, fun fuel => by simp⟩
  | @cons c s m c1 s1 c2 ms c3 s3 hr hn htail ih =>
    intro habl ts hts hb hh
    subst hts
    obtain ⟨r1, r2, r3⟩ := hr
    obtain ⟨j0, hj0, e0, eb0⟩ := read_flat_consumes env c (tbytes ts) m r1
    rw [r3] at e0
    have hl3 := chain_length htail
    have hl1 : s1.length = (tbytes ts).length - j0 := by rw [e0, List.length_drop]
    obtain ⟨j, _, _, q1, q2, q3⟩ := readLoopT_flat_local env READ_FUEL c ts 0 0
      ((tbytes ts).length - s3.length) m r1
      (by rw [show (readLoop env flatOps READ_FUEL c (tbytes ts) 0 0).bytesRead = j0 from eb0]; omega) hb hh
    have hj : j = j0 := by
      have : (readLoop env flatOps READ_FUEL c (tbytes ts) 0 0).bytesRead = j0 := eb0
      omega
    subst hj
    have hread : readT env c ts =
        { res := .msg m, bytesRead := (read env flatOps c (tbytes ts)).bytesRead,
          alloc := (read env flatOps c (tbytes ts)).alloc, codec := c1, sock := ts.drop j } := by
      show readLoopT env READ_FUEL c ts 0 0 = _
      rw [q1]
      have a1 : (readLoop env flatOps READ_FUEL c (tbytes ts) 0 0).res = .msg m := r1
      have a2 : (readLoop env flatOps READ_FUEL c (tbytes ts) 0 0).codec = c1 := r2
      rw [a1, a2]; rfl
    have hs1 : tbytes (ts.drop j) = s1 := by rw [tbytes_drop, e0]
    cases ms with
    | nil =>
      cases htail
      have hk : (tbytes ts).length - s1.length = j := by omega
      rw [hk]
      refine ⟨hs1, fun fuel => ?_⟩
      have := runT_msg env attach fuel c ts m c1 c2 _ _ _ hread hn
      simpa [Nat.add_comm] using this
    | cons m' r =>
      obtain ⟨hcont, habl'⟩ := habl
      have hne := next_state_ne_none env attach c (tbytes ts) m c1 s1 c2 ⟨r1, r2, r3⟩ hn hcont
      have hk : s1.length - s3.length = ((tbytes ts).length - s3.length) - j := by omega
      have hb' : WaitsBelow BODY_IO_TIMEOUT_MS ((ts.drop j).take (s1.length - s3.length)) := by
        rw [hk, ← List.drop_take]
        exact waitsBelow_drop hb _
      obtain ⟨p1, p2⟩ := ih habl' (ts.drop j) hs1 hb' (fun h0 => absurd h0 hne)
      have hsum : j + (s1.length - s3.length) = (tbytes ts).length - s3.length := by omega
      rw [List.drop_drop, hsum] at p1
      refine ⟨p1, fun fuel => ?_⟩
      have e : (m :: m' :: r).length + fuel = ((m' :: r).length + fuel) + 1 := by
        simp only [List.length_cons]; omega
      rw [e, runT_msg env attach _ c ts m c1 c2 _ _ _ hread hn, p2 fuel, List.drop_drop, hsum]
      simp

theorem take_succ_drop_one {α : Type} (x : α) (tl : List α) (n : Nat) : ((x :: tl).take (n + 1)).drop 1 = tl.take n := by
  simp

/-- the reader loop over a schedule with arbitrarily long idle pauses between messages -/
theorem runT_all_idle (env : Env B H) (attach : Message B H → Option Nat) (hat : AttachOK attach) :
    ∀ (msgs : List (Sent B H)), (∀ m ∈ msgs, SentWF env attach m) → ∀ ts : TStream,
      tbytes ts = (msgs.map (encodeSent env.net)).flatten → DelaysOKIdle env.net msgs ts → ∀ fuel,
      runT env attach (idleRetries env.net msgs ts + ((msgs.map expected).flatten.length + fuel)) idle ts =
        ((msgs.map expected).flatten ++ (runT env attach fuel (idle : Codec H) []).1,
         (runT env attach fuel (idle : Codec H) []).2.1, (runT env attach fuel (idle : Codec H) []).2.2.1,
         (runT env attach fuel (idle : Codec H) []).2.2.2) := by
  intro msgs
  induction msgs with
  | nil =>
    intro _ ts _ hd fuel
    cases hd
    simp [idleRetries]
  | cons m ms ih =>
    intro hwf ts hts hd fuel
    obtain ⟨hhead, hbody, htail⟩ := hd
    have hts' : tbytes ts = encodeSent env.net m ++ (ms.map (encodeSent env.net)).flatten := by
      simpa using hts
    have hL := encodeSent_length_ge env.net m
    have hlen : ts.length = (encodeSent env.net m).length + ((ms.map (encodeSent env.net)).flatten).length := by
      rw [← tbytes_length, hts', List.length_append]
    -- the stream starts with the first byte of the frame header
    obtain ⟨L', hL'⟩ : ∃ L', (encodeSent env.net m).length = L' + 1 := ⟨(encodeSent env.net m).length - 1, by
      have : MSG_HEADER_LEN = 11 := rfl
      omega⟩
    cases ts with
    | nil => simp at hlen; omega
    | cons p tl =>
      obtain ⟨w, b⟩ := p
      have hc := chain_sent env attach hat (ms.map (encodeSent env.net)).flatten m (hwf m (by simp))
      -- the stream after the idle wait was absorbed
      have hbytes : tbytes ((w % HEADER_IO_TIMEOUT_MS, b) :: tl) =
          encodeSent env.net m ++ (ms.map (encodeSent env.net)).flatten := by
        rw [← hts']; rfl
      have hpos : w % HEADER_IO_TIMEOUT_MS < HEADER_IO_TIMEOUT_MS := Nat.mod_lt _ (by decide)
      have hK : (encodeSent env.net m ++ (ms.map (encodeSent env.net)).flatten).length -
          ((ms.map (encodeSent env.net)).flatten).length = L' + 1 := by
        rw [List.length_append]; omega
      have hb2 : WaitsBelow BODY_IO_TIMEOUT_MS (((w % HEADER_IO_TIMEOUT_MS, b) :: tl).take (L' + 1)) := by
        rw [hL', take_succ_drop_one] at hbody
        intro q hq
        rw [List.take_succ_cons, List.mem_cons] at hq
        rcases hq with rfl | hq
        · exact Nat.lt_trans hpos header_lt_body
        · exact hbody q hq
      have hh2 : WaitsBelow HEADER_IO_TIMEOUT_MS (((w % HEADER_IO_TIMEOUT_MS, b) :: tl).take (10 + 1)) := by
        have h11 : MSG_HEADER_LEN = 10 + 1 := rfl
        rw [h11, take_succ_drop_one] at hhead
        intro q hq
        rw [List.take_succ_cons, List.mem_cons] at hq
        rcases hq with rfl | hq
        · exact hpos
        · exact hhead q hq
      obtain ⟨p1, p2⟩ := runT_chain_local hc (abl_expected env attach m (hwf m (by simp)))
        ((w % HEADER_IO_TIMEOUT_MS, b) :: tl) hbytes (by rw [hK]; exact hb2) (fun _ => hh2)
      rw [hK] at p1 p2
      have hdrop : ((w % HEADER_IO_TIMEOUT_MS, b) :: tl).drop (L' + 1) =
          ((w, b) :: tl).drop (encodeSent env.net m).length := by
        rw [hL']; rfl
      rw [hdrop] at p1 p2
      have ihr := ih (fun x hx => hwf x (by simp [hx])) _ p1 htail fuel
      -- fuel bookkeeping
      have hfuel : idleRetries env.net (m :: ms) ((w, b) :: tl) +
          (((m :: ms).map expected).flatten.length + fuel) =
          w / HEADER_IO_TIMEOUT_MS + ((expected m).length +
            (idleRetries env.net ms (((w, b) :: tl).drop (encodeSent env.net m).length) +
              ((ms.map expected).flatten.length + fuel))) := by
        simp only [idleRetries, List.map_cons, List.flatten_cons, List.length_append]
        omega
      rw [hfuel, runT_idle_wait' env attach w b tl, p2, ihr]
      simp

end GV.Codec
