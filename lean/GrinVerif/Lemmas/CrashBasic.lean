import GrinVerif.Model.Crash
/-! Lemmas for the crash model: a consistent durable state recovers to its own head. -/
namespace GV.Crash

theorem spendOne_subset (u : List Leaf) (o : Nat) : ∀ l ∈ spendOne u o, l ∈ u := by
  intro l hl
  unfold spendOne at hl
  split at hl
  · exact List.mem_of_mem_erase hl
  · exact hl

theorem foldl_spendOne_subset (ins : List Nat) : ∀ (u : List Leaf), ∀ l ∈ ins.foldl spendOne u, l ∈ u := by
  induction ins with
  | nil => intro u l hl; exact hl
  | cons o os ih =>
    intro u l hl
    simp only [List.foldl_cons] at hl
    exact spendOne_subset u o l (ih _ l hl)

theorem applyU_subset (u : List Leaf) (b : BlkInfo) :
    ∀ l ∈ applyU u b, l ∈ u ∨ l ∈ b.outs.map (fun o => (b.id, o)) := by
  intro l hl
  unfold applyU at hl
  rcases List.mem_append.mp hl with h | h
  · exact Or.inl (foldl_spendOne_subset b.ins u l h)
  · exact Or.inr h

theorem foldl_applyU_subset (path : List BlkInfo) :
    ∀ (u : List Leaf), ∀ l ∈ path.foldl applyU u, l ∈ u ∨ l ∈ leavesOf path := by
  induction path with
  | nil => intro u l hl; exact Or.inl hl
  | cons b bs ih =>
    intro u l hl
    simp only [List.foldl_cons] at hl
    rcases ih _ l hl with h | h
    · rcases applyU_subset u b l h with h' | h'
      · exact Or.inl h'
      · right
        simp only [leavesOf, List.flatMap_cons, List.mem_append]
        exact Or.inl h'
    · right
      simp only [leavesOf, List.flatMap_cons, List.mem_append]
      exact Or.inr h

/-- every unspent leaf of a path is one of the leaves the path created -/
theorem unspentOf_subset_leaves (path : List BlkInfo) : ∀ l ∈ unspentOf path, l ∈ leavesOf path := by
  intro l hl
  rcases foldl_applyU_subset path [] l hl with h | h
  · simp at h
  · exact h

theorem validAt_consistent (bc : Nat → Bool) (path : List BlkInfo) :
    validAt bc (consistent path) [] path = true := by
  unfold validAt consistent
  simp only [List.take_length, List.filter_nil, List.append_nil, BEq.rfl, Bool.true_and, Bool.and_true]
  have hsub := unspentOf_subset_leaves path
  have e : (unspentOf path).filter (fun l => (leavesOf path).contains l) = unspentOf path := by
    apply List.filter_eq_self.mpr
    intro l hl
    simpa using hsub l hl
  simp only [e]
  have t : List.take path.length (List.map (fun x => x.id) path) = List.map (fun x => x.id) path := by
    rw [← List.length_map (f := fun (x : BlkInfo) => x.id)]; exact List.take_length
  cases bc (path.length - 1) <;> simp [t]

end GV.Crash
