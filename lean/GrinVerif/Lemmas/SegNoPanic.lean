import GrinVerif.Lemmas.SegInj
/-! After the repair of `Segment::root` (commit 22ca8fd14) no call of `root`,
`first_unpruned_parent`, `validate`, `validate_with` panics, whatever the segment, identifier,
size and bitmap: the one remaining `unwrap` (`bitmap.unwrap()` in `first_unpruned_parent`) is
only reached when `root` returned `None`, which needs a bitmap.  Core Lean only. -/
namespace GV.Seg
open GV GV.Pmmr

variable {α H : Type}

theorem getHash_no_panic (s : Segment α H) (q : Nat) : s.getHash q ≠ .panic := by
  unfold Segment.getHash; split <;> simp

theorem bagPeaks_no_panic (hf : HashFn α H) (s : Segment α H) (bm : Option (Nat → Bool)) (size : Nat) :
    ∀ (pks : List Nat) (stk : List (Option H)) (acc : Option H),
      bagPeaks hf s bm size stk acc pks ≠ .panic := by
  intro pks
  induction pks with
  | nil => intro stk acc; simp [bagPeaks]
  | cons p ps ih =>
    intro stk acc
    cases stk with
    | nil => simp [bagPeaks]
    | cons lh stk' =>
      simp only [bagPeaks]
      by_cases hc : (lh.isNone && bm.isSome) = true
      · simp only [hc, if_true]
        cases hg : s.getHash p with
        | ok h => exact ih _ _
        | err e => simp
        | panic => exact absurd hg (getHash_no_panic s p)
      · simp only [hc]
        cases lh with
        | none => simp
        | some l => exact ih _ _

/-- with no bitmap the bagging loop only ever produces `some` -/
theorem bagPeaks_none_some (hf : HashFn α H) (s : Segment α H) (size : Nat) :
    ∀ (pks : List Nat) (stk : List (Option H)) (acc : Option H) (o : Option H),
      bagPeaks hf s none size stk acc pks = .ok o → acc ≠ none ∨ pks ≠ [] → o ≠ none := by
  intro pks
  induction pks with
  | nil =>
    intro stk acc o h hne
    simp only [bagPeaks, Res.ok.injEq] at h
    subst h
    rcases hne with h | h
    · exact h
    · exact absurd rfl h
  | cons p ps ih =>
    intro stk acc o h _
    cases stk with
    | nil => simp [bagPeaks] at h
    | cons lh stk' =>
      simp only [bagPeaks, Option.isSome_none, Bool.and_false, Bool.false_eq_true, if_false] at h
      cases lh with
      | none => simp at h
      | some l =>
        simp only at h
        refine ih _ _ o h (Or.inl ?_)
        cases acc <;> simp

theorem rootFinish_no_panic (hf : HashFn α H) (s : Segment α H) (bm : Option (Nat → Bool)) (size : Nat)
    (full : Bool) (pks : List Nat) (stk : List (Option H)) :
    rootFinish hf s bm size full pks stk ≠ .panic := by
  unfold rootFinish
  split
  · split <;> simp
  · have := bagPeaks_no_panic hf s bm size pks stk none
    split <;> simp_all

theorem rootWith_no_panic (hf : HashFn α H) (s : Segment α H) (bm : Option (Nat → Bool)) (size : Nat)
    (ps : List Nat) (full : Bool) (pks : List Nat) : rootWith hf s size bm ps full pks ≠ .panic := by
  unfold rootWith
  cases hl : rootLoop hf s bm size ([], s.leafPos.zip s.leafData) ps with
  | ok st => exact rootFinish_no_panic hf s bm size full pks st.1
  | err e => simp
  | panic => exact absurd hl (rootLoop_no_panic hf s bm size ps _)

/-- without a bitmap `root` never returns `Ok(None)` -/
theorem rootWith_none_some (hf : HashFn α H) (s : Segment α H) (size : Nat)
    (ps : List Nat) (full : Bool) (pks : List Nat) : rootWith hf s size none ps full pks ≠ .ok none := by
  unfold rootWith
  cases hl : rootLoop hf s none size ([], s.leafPos.zip s.leafData) ps with
  | err e => simp
  | panic => simp
  | ok st =>
    have ha : allSome st.1 := rootLoop_allSome hf s size ps _ st hl (by intro o ho; cases ho)
    simp only
    unfold rootFinish
    by_cases hfull : full = true
    · simp only [hfull, if_true]
      cases hst : st.1 with
      | nil => simp
      | cons v rest =>
        intro he
        exact ha v (by rw [hst]; exact List.mem_cons_self) (Res.ok.inj he)
    · simp only [hfull, Bool.false_eq_true, if_false]
      cases hb : bagPeaks hf s none size st.1 none pks with
      | err e => simp
      | panic => simp
      | ok o =>
        cases o with
        | none => simp
        | some h => simp

theorem fupLoop_no_panic (s : Segment α H) (b : Nat → Bool) (nl : Nat) :
    ∀ (fb : List (Nat × Nat)) (pos0 : Nat), fupLoop s b nl pos0 fb ≠ .panic := by
  intro fb
  induction fb with
  | nil =>
    intro pos0
    simp only [fupLoop]
    cases hg : s.getHash pos0 with
    | ok h => simp
    | err e => simp
    | panic => exact absurd hg (getHash_no_panic s pos0)
  | cons x rest ih =>
    intro pos0
    obtain ⟨p0, s0⟩ := x
    simp only [fupLoop]
    cases hg : s.getHash pos0 with
    | ok h => simp
    | panic => exact absurd hg (getHash_no_panic s pos0)
    | err e =>
      simp only
      split
      · exact ih p0
      · simp

theorem fupWith_no_panic (s : Segment α H) (size : Nat) (bm : Option (Nat → Bool))
    (rootRes : Res (Option H)) (last : Nat) (h1 : rootRes ≠ .panic)
    (h2 : bm = none → rootRes ≠ .ok none) : fupWith s size bm rootRes last ≠ .panic := by
  unfold fupWith
  cases rootRes with
  | panic => exact absurd rfl h1
  | err e => simp
  | ok o =>
    cases o with
    | some v => simp
    | none =>
      cases bm with
      | none => exact absurd rfl (h2 rfl)
      | some b => exact fupLoop_no_panic s b _ _ _

theorem firstUnprunedParent_no_panic (hf : HashFn α H) (s : Segment α H) (size : Nat)
    (bm : Option (Nat → Bool)) : s.firstUnprunedParent hf size bm ≠ .panic := by
  unfold Segment.firstUnprunedParent
  by_cases hz : s.id.unprunedSize size = 0
  · rw [root_of_empty hf s size bm hz]; simp [fupWith]
  · rw [root_of_nonempty hf s size bm hz]
    refine fupWith_no_panic s size bm _ _ (rootWith_no_panic hf s bm size _ _ _) ?_
    intro hb
    subst hb
    exact rootWith_none_some hf s size _ _ _

theorem climb_no_panic (hf : HashFn α H) : ∀ (br : List (Nat × Nat)) (root : H) (it : List H),
    climb hf root it br ≠ .panic := by
  intro br
  induction br with
  | nil => intro root it; simp [climb]
  | cons x rest ih =>
    intro root it
    obtain ⟨p0, s0⟩ := x
    cases it with
    | nil => simp [climb]
    | cons a t => simp only [climb]; exact ih _ _

theorem bagLeft_no_panic (hf : HashFn α H) (lastPos : Nat) : ∀ (ps : List Nat) (root : H) (it : List H),
    bagLeft hf lastPos root it ps ≠ .panic := by
  intro ps
  induction ps with
  | nil => intro root it; simp [bagLeft]
  | cons p rest ih =>
    intro root it
    cases it with
    | nil => simp [bagLeft]
    | cons a t => simp only [bagLeft]; exact ih _ _

theorem reconstructRoot_no_panic (hf : HashFn α H) (proof : List H) (lastPos first0 last0 : Nat)
    (segRoot : H) (upos : Nat) :
    reconstructRoot hf proof lastPos first0 last0 segRoot upos ≠ .panic := by
  unfold reconstructRoot
  cases hc : climb hf segRoot proof (branchFrom last0 lastPos upos) with
  | panic => exact absurd hc (climb_no_panic hf _ _ _)
  | err e => simp
  | ok x =>
    obtain ⟨root, it⟩ := x
    simp only
    cases ((peaks lastPos).filter (· > branchPeak last0 lastPos)).head? with
    | none => exact bagLeft_no_panic hf lastPos _ _ _
    | some q =>
      cases it with
      | nil => simp
      | cons a t => exact bagLeft_no_panic hf lastPos _ _ _

theorem validateAt_no_panic (hf : HashFn α H) [DecidableEq H] (proof : List H) (size : Nat)
    (mmrRoot : H) (first last : Nat) (fup : Res (H × Nat)) (h : fup ≠ .panic) :
    validateAt hf proof size mmrRoot first last fup ≠ .panic := by
  unfold validateAt
  cases fup with
  | panic => exact absurd rfl h
  | err e => simp
  | ok x =>
    obtain ⟨v, u⟩ := x
    simp only
    unfold proofValidate
    cases hr : reconstructRoot hf proof size first last v u with
    | panic => exact absurd hr (reconstructRoot_no_panic hf _ _ _ _ _ _)
    | err e => simp
    | ok y => simp only; split <;> simp

theorem validateWithAt_no_panic (hf : HashFn α H) [DecidableEq H] (proof : List H) (size : Nat)
    (mmrRoot : H) (first last : Nat) (fup : Res (H × Nat)) (hlp : Nat) (other : H) (left : Bool)
    (h : fup ≠ .panic) :
    validateWithAt hf proof size mmrRoot first last fup hlp other left ≠ .panic := by
  unfold validateWithAt
  cases fup with
  | panic => exact absurd rfl h
  | err e => simp
  | ok x =>
    obtain ⟨v, u⟩ := x
    simp only
    unfold proofValidateWith
    cases hr : reconstructRoot hf proof size first last v u with
    | panic => exact absurd hr (reconstructRoot_no_panic hf _ _ _ _ _ _)
    | err e => simp
    | ok y => simp only; split <;> split <;> simp

/-- `Segment::validate` never panics -/
theorem validate_no_panic (hf : HashFn α H) [DecidableEq H] (s : Segment α H) (size : Nat)
    (bm : Option (Nat → Bool)) (mmrRoot : H) : s.validate hf size bm mmrRoot ≠ .panic := by
  unfold Segment.validate
  exact validateAt_no_panic hf _ _ _ _ _ _ (firstUnprunedParent_no_panic hf s size bm)

/-- `Segment::validate_with` never panics -/
theorem validateWith_no_panic (hf : HashFn α H) [DecidableEq H] (s : Segment α H) (size : Nat)
    (bm : Option (Nat → Bool)) (mmrRoot : H) (hlp : Nat) (other : H) (left : Bool) :
    s.validateWith hf size bm mmrRoot hlp other left ≠ .panic := by
  unfold Segment.validateWith
  exact validateWithAt_no_panic hf _ _ _ _ _ _ _ _ _ (firstUnprunedParent_no_panic hf s size bm)

end GV.Seg
