import GrinVerif.Model.SerStore
import GrinVerif.Lemmas.SerCanonHdr
/-! Lemmas about the store-side encodings of `Model/SerStore.lean`: round trips, inversion
("accepted ⇒ these were the bytes"), element sizes, the `Vec<T>` reader, `SkipPow`. -/
namespace GV.Ser
open GV

/-! ## HeaderEntry -/

def HeaderEntry.WF (e : HeaderEntry) : Prop :=
  e.hash.length = HASH_SIZE ∧ e.timestamp < 2^64 ∧ e.totalDifficulty < 2^64 ∧ e.secondaryScaling < 2^32

instance (e : HeaderEntry) : Decidable e.WF := by unfold HeaderEntry.WF; infer_instance

/-- everything before the flag byte -/
def encHeaderEntryHead (e : HeaderEntry) : Bytes :=
  writeFixed e.hash ++ writeU64 e.timestamp ++ writeU64 e.totalDifficulty ++ writeU32 e.secondaryScaling

theorem encHeaderEntry_eq (e : HeaderEntry) :
    encHeaderEntry e = encHeaderEntryHead e ++ [if e.isSecondary then 1 else 0] := by
  simp [encHeaderEntry, encHeaderEntryHead, writeU8]

/-- the reader on `head ++ [flag] ++ rest`, for any flag byte -/
theorem decHeaderEntry_head (e : HeaderEntry) (h : e.WF) (b : Nat) (rest : Bytes) :
    decHeaderEntry (encHeaderEntryHead e ++ b :: rest) = .ok ({ e with isSecondary := b != 0 }, rest) := by
  obtain ⟨h1, h2, h3, h4⟩ := h
  rw [decHeaderEntry, encHeaderEntryHead]
  simp only [List.append_assoc]
  rw [decHash_write _ h1, andThen_ok, readU64_write _ h2, andThen_ok, readU64_write _ h3, andThen_ok,
    readU32_write _ h4, andThen_ok]
  simp [readU8]

theorem decHeaderEntry_enc (e : HeaderEntry) (h : e.WF) (rest : Bytes) :
    decHeaderEntry (encHeaderEntry e ++ rest) = .ok (e, rest) := by
  rw [encHeaderEntry_eq, List.append_assoc, List.singleton_append, decHeaderEntry_head e h]
  cases e with
  | mk hash ts td ss sec => cases sec <;> simp

theorem encHeaderEntry_length (e : HeaderEntry) (h : e.WF) : (encHeaderEntry e).length = HEADER_ENTRY_SIZE := by
  obtain ⟨h1, _⟩ := h
  simp [encHeaderEntry, writeFixed, writeU64, writeU32, writeU8, h1, HEADER_ENTRY_SIZE, HASH_SIZE]

/-- whatever `HeaderEntry::read` accepts: the bytes are the head of the returned entry, one flag
byte `b`, and the rest; the flag is `b != 0` -/
theorem decHeaderEntry_inv {bs : Bytes} {e : HeaderEntry} {r : Bytes} (hb : AllBytes bs)
    (h : decHeaderEntry bs = .ok (e, r)) :
    ∃ b, bs = encHeaderEntryHead e ++ b :: r ∧ e.isSecondary = (b != 0) ∧ e.WF := by
  rw [decHeaderEntry] at h
  obtain ⟨hash, r1, h1, k1⟩ := andThen_inv h
  obtain ⟨ts, r2, h2, k2⟩ := andThen_inv k1
  obtain ⟨td, r3, h3, k3⟩ := andThen_inv k2
  obtain ⟨ss, r4, h4, k4⟩ := andThen_inv k3
  obtain ⟨flag, r5, h5, k5⟩ := andThen_inv k4
  clear h k1 k2 k3 k4
  simp only [Except.ok.injEq, Prod.mk.injEq] at k5
  obtain ⟨rfl, rfl⟩ := k5
  obtain ⟨e1, l1⟩ := readFixed_ok h1
  subst e1
  have b1 := allBytes_append_right hb
  obtain ⟨e2, l2⟩ := readU64_inv b1 h2
  subst e2
  have b2 := allBytes_append_right b1
  obtain ⟨e3, l3⟩ := readU64_inv b2 h3
  subst e3
  have b3 := allBytes_append_right b2
  obtain ⟨e4, l4⟩ := readU32_inv b3 h4
  subst e4
  have e5 := readU8_inv h5
  subst e5
  exact ⟨flag, by simp [encHeaderEntryHead, writeFixed, writeU8], rfl, l1, l2, l3, l4⟩

/-! ## as_elmt -/

theorem i64AsU64_lt (z : Int) : i64AsU64 z < 2^64 := by
  unfold i64AsU64
  have h1 : (0 : Int) ≤ z % 2^64 := Int.emod_nonneg z (by decide)
  have h2 : z % 2^64 < 2^64 := Int.emod_lt_of_pos z (by decide)
  omega

/-- the cast loses nothing: reading the u64 back as i64 gives the timestamp -/
theorem toI64_i64AsU64 (z : Int) (h1 : -(2^63 : Int) ≤ z) (h2 : z < (2^63 : Int)) : toI64 (i64AsU64 z) = z := by
  unfold toI64 i64AsU64
  split <;> omega

theorem asElmt_wf (H : Bytes → Bytes) (hH : ∀ b, (H b).length = HASH_SIZE) (proofSize : Nat)
    (h : BlockHeader) (hwf : h.WF proofSize) : (h.asElmt H proofSize).WF := by
  obtain ⟨_, _, _, _, _, _, _, _, _, _, _, _, hpow⟩ := hwf
  obtain ⟨h1, h2, _, _⟩ := hpow
  exact ⟨hH _, i64AsU64_lt _, h1, h2⟩

/-! ## CommitPos -/

def CommitPos.WF (c : CommitPos) : Prop := c.pos < 2^64 ∧ c.height < 2^64
instance (c : CommitPos) : Decidable c.WF := by unfold CommitPos.WF; infer_instance

theorem decCommitPos_enc (c : CommitPos) (h : c.WF) (rest : Bytes) :
    decCommitPos (encCommitPos c ++ rest) = .ok (c, rest) := by
  obtain ⟨h1, h2⟩ := h
  rw [decCommitPos, encCommitPos]
  simp only [List.append_assoc]
  rw [readU64_write _ h1, andThen_ok, readU64_write _ h2, andThen_ok]

theorem encCommitPos_length (c : CommitPos) : (encCommitPos c).length = COMMIT_POS_SIZE := rfl

theorem decCommitPos_inv {bs : Bytes} {c : CommitPos} {r : Bytes} (hb : AllBytes bs)
    (h : decCommitPos bs = .ok (c, r)) : bs = encCommitPos c ++ r ∧ c.WF := by
  rw [decCommitPos] at h
  obtain ⟨pos, r1, h1, k1⟩ := andThen_inv h
  obtain ⟨height, r2, h2, k2⟩ := andThen_inv k1
  clear h k1
  simp only [Except.ok.injEq, Prod.mk.injEq] at k2
  obtain ⟨rfl, rfl⟩ := k2
  obtain ⟨e1, l1⟩ := readU64_inv hb h1
  subst e1
  obtain ⟨e2, l2⟩ := readU64_inv (allBytes_append_right hb) h2
  subst e2
  exact ⟨by simp [encCommitPos], l1, l2⟩

/-- `CommitPos::read` fails only by running out of bytes, and exactly when fewer than 16 are left -/
theorem decCommitPos_short (bs : Bytes) (h : bs.length < COMMIT_POS_SIZE) : decCommitPos bs = .error .ioEof := by
  unfold COMMIT_POS_SIZE at h
  match bs, h with
  | [], _ => rfl
  | [_], _ => rfl
  | [_, _], _ => rfl
  | [_, _, _], _ => rfl
  | [_, _, _, _], _ => rfl
  | [_, _, _, _, _], _ => rfl
  | [_, _, _, _, _, _], _ => rfl
  | [_, _, _, _, _, _, _], _ => rfl
  | [_, _, _, _, _, _, _, _], _ => rfl
  | [_, _, _, _, _, _, _, _, _], _ => rfl
  | [_, _, _, _, _, _, _, _, _, _], _ => rfl
  | [_, _, _, _, _, _, _, _, _, _, _], _ => rfl
  | [_, _, _, _, _, _, _, _, _, _, _, _], _ => rfl
  | [_, _, _, _, _, _, _, _, _, _, _, _, _], _ => rfl
  | [_, _, _, _, _, _, _, _, _, _, _, _, _, _], _ => rfl
  | [_, _, _, _, _, _, _, _, _, _, _, _, _, _, _], _ => rfl
  | _ :: _ :: _ :: _ :: _ :: _ :: _ :: _ :: _ :: _ :: _ :: _ :: _ :: _ :: _ :: _ :: _, h =>
    simp at h; omega

theorem decCommitPos_long (b0 b1 b2 b3 b4 b5 b6 b7 c0 c1 c2 c3 c4 c5 c6 c7 : Nat) (r : Bytes) :
    ∃ c, decCommitPos (b0 :: b1 :: b2 :: b3 :: b4 :: b5 :: b6 :: b7 :: c0 :: c1 :: c2 :: c3 :: c4 :: c5 :: c6 :: c7 :: r)
      = .ok (c, r) := ⟨_, rfl⟩

/-! ## element sizes -/

theorem encOutputId_length (o : OutputId) (h : o.WF) : (encOutputId o).length = OUTPUT_ID_SIZE := by
  unfold OutputId.WF at h
  cases hf : o.features <;> simp [encOutputId, encOutputFeatures, writeFixed, writeU8, h, hf, OUTPUT_ID_SIZE] <;> omega

theorem encRangeProof_length (p : RangeProof) (h : p.WF) : (encRangeProof p).length = RANGE_PROOF_ELMT_SIZE := by
  obtain ⟨h1, h2⟩ := h
  simp [encRangeProof, writeBytes, writeU64, h1, h2, RANGE_PROOF_ELMT_SIZE]; omega

/-! ## `Vec<T>::read` -/

theorem writeMulti_cons' {α : Type} (w : α → Bytes) (x : α) (l : List α) (rest : Bytes) :
    writeMulti w (x :: l) ++ rest = w x ++ (writeMulti w l ++ rest) := by
  simp [writeMulti]

theorem readU64_progress {bs : Bytes} {n : Nat} {r : Bytes} (h : readU64 bs = .ok (n, r)) :
    r.length + 8 = bs.length := by
  match bs, h with
  | b0 :: b1 :: b2 :: b3 :: b4 :: b5 :: b6 :: b7 :: r', h =>
    simp only [readU64, Except.ok.injEq, Prod.mk.injEq] at h
    obtain ⟨_, rfl⟩ := h
    simp
  | [], h => simp [readU64] at h
  | [_], h => simp [readU64] at h
  | [_, _], h => simp [readU64] at h
  | [_, _, _], h => simp [readU64] at h
  | [_, _, _, _], h => simp [readU64] at h
  | [_, _, _, _, _], h => simp [readU64] at h
  | [_, _, _, _, _, _], h => simp [readU64] at h
  | [_, _, _, _, _, _, _], h => simp [readU64] at h

theorem readU64_ok_of_long (bs : Bytes) (h : 8 ≤ bs.length) : ∃ n r, readU64 bs = .ok (n, r) := by
  match bs, h with
  | b0 :: b1 :: b2 :: b3 :: b4 :: b5 :: b6 :: b7 :: r', _ => exact ⟨_, _, rfl⟩
  | [], h => simp at h
  | [_], h => simp at h
  | [_, _], h => simp at h
  | [_, _, _], h => simp at h
  | [_, _, _, _], h => simp at h
  | [_, _, _, _, _], h => simp at h
  | [_, _, _, _, _, _], h => simp at h
  | [_, _, _, _, _, _, _], h => simp at h

/-- the loop never runs out of fuel when every successful item read consumes at least one byte -/
theorem readVecFuel_some {α : Type} (p : Parser α)
    (hprog : ∀ bs x r, p bs = .ok (x, r) → r.length < bs.length) :
    ∀ (f : Nat) (bs : Bytes), bs.length < f → readVecFuel p f bs ≠ none := by
  intro f
  induction f with
  | zero => intro bs h; omega
  | succ f ih =>
    intro bs h
    unfold readVecFuel
    cases hp : p bs with
    | error e => cases e <;> simp
    | ok v =>
      obtain ⟨x, r⟩ := v
      have hr := hprog bs x r hp
      have := ih r (by omega)
      simp only
      cases hq : readVecFuel p f r with
      | none => exact absurd hq this
      | some y => cases y <;> simp

/-- more fuel does not change a result -/
theorem readVecFuel_mono {α : Type} (p : Parser α) :
    ∀ (f : Nat) (bs : Bytes) (y : Except SerErr (List α)), readVecFuel p f bs = some y →
      readVecFuel p (f + 1) bs = some y := by
  intro f
  induction f with
  | zero => intro bs y h; simp [readVecFuel] at h
  | succ f ih =>
    intro bs y h
    rw [readVecFuel] at h ⊢
    cases hp : p bs with
    | error e => rw [hp] at h; cases e <;> simpa using h
    | ok v =>
      obtain ⟨x, r⟩ := v
      rw [hp] at h
      simp only at h ⊢
      cases hq : readVecFuel p f r with
      | none => rw [hq] at h; simp at h
      | some z => rw [ih r z hq]; rw [hq] at h; exact h

theorem readVecFuel_mono' {α : Type} (p : Parser α) (f g : Nat) (hfg : f ≤ g) (bs : Bytes)
    (y : Except SerErr (List α)) (h : readVecFuel p f bs = some y) : readVecFuel p g bs = some y := by
  induction hfg with
  | refl => exact h
  | step _ ih => exact readVecFuel_mono p _ bs y ih

/-- items that round-trip, written back to back and followed by a tail on which the item reader
runs out of bytes: the items come back and the tail is dropped; `tail = []` is the plain round trip -/
theorem readVec_write_tail {α : Type} (p : Parser α) (w : α → Bytes) (l : List α) (tail : Bytes)
    (hrt : ∀ x ∈ l, ∀ rest, p (w x ++ rest) = .ok (x, rest)) (hne : ∀ x ∈ l, 0 < (w x).length)
    (htail : p tail = .error .ioEof) :
    readVec p (writeMulti w l ++ tail) = some (.ok l) := by
  unfold readVec
  induction l with
  | nil =>
    simp only [writeMulti_nil, List.nil_append]
    rw [readVecFuel, htail]
  | cons x l ih =>
    have hx := hrt x (by simp) (writeMulti w l ++ tail)
    rw [writeMulti_cons', readVecFuel, hx]
    have ih' := ih (fun y hy => hrt y (by simp [hy])) (fun y hy => hne y (by simp [hy]))
    have hx0 := hne x (by simp)
    have := readVecFuel_mono' p _ ((w x ++ (writeMulti w l ++ tail)).length) (by simp; omega) _ _ ih'
    simp only [this]

/-- an item that fails with anything but `UnexpectedEof` fails the whole vector, wherever it sits -/
theorem readVec_write_error {α : Type} (p : Parser α) (w : α → Bytes) (l : List α) (tail : Bytes) (e : SerErr)
    (hrt : ∀ x ∈ l, ∀ rest, p (w x ++ rest) = .ok (x, rest)) (hne : ∀ x ∈ l, 0 < (w x).length)
    (htail : p tail = .error e) (he : e ≠ .ioEof) :
    readVec p (writeMulti w l ++ tail) = some (.error e) := by
  unfold readVec
  induction l with
  | nil =>
    simp only [writeMulti_nil, List.nil_append]
    rw [readVecFuel, htail]
    cases e <;> simp at he ⊢
  | cons x l ih =>
    have hx := hrt x (by simp) (writeMulti w l ++ tail)
    rw [writeMulti_cons', readVecFuel, hx]
    have ih' := ih (fun y hy => hrt y (by simp [hy])) (fun y hy => hne y (by simp [hy]))
    have hx0 := hne x (by simp)
    have := readVecFuel_mono' p _ ((w x ++ (writeMulti w l ++ tail)).length) (by simp; omega) _ _ ih'
    simp only [this]

theorem decCommitPos_progress (bs : Bytes) (x : CommitPos) (r : Bytes) (h : decCommitPos bs = .ok (x, r)) :
    r.length + COMMIT_POS_SIZE = bs.length := by
  rw [decCommitPos] at h
  obtain ⟨pos, r1, h1, k1⟩ := andThen_inv h
  obtain ⟨height, r2, h2, k2⟩ := andThen_inv k1
  simp only [Except.ok.injEq, Prod.mk.injEq] at k2
  obtain ⟨_, rfl⟩ := k2
  have := readU64_progress h1
  have := readU64_progress h2
  simp only [COMMIT_POS_SIZE]; omega

theorem decCommitPos_ok_of_long (bs : Bytes) (h : COMMIT_POS_SIZE ≤ bs.length) :
    ∃ c r, decCommitPos bs = .ok (c, r) := by
  simp only [COMMIT_POS_SIZE] at h
  obtain ⟨n1, r1, h1⟩ := readU64_ok_of_long bs (by omega)
  have := readU64_progress h1
  obtain ⟨n2, r2, h2⟩ := readU64_ok_of_long r1 (by omega)
  exact ⟨_, r2, by rw [decCommitPos, h1, andThen_ok, h2, andThen_ok]⟩

/-- the spent-index reader accepts EVERY byte string: it returns ⌊len/16⌋ entries whose encodings
are the first 16·⌊len/16⌋ bytes; the remaining `len % 16` bytes are ignored -/
theorem readVec_commitPos_total : ∀ (n : Nat) (bs : Bytes), bs.length = n → AllBytes bs →
    ∃ l tail, readVec decCommitPos bs = some (.ok l) ∧ bs = encSpentIndex l ++ tail
      ∧ tail.length < COMMIT_POS_SIZE ∧ l.length = bs.length / COMMIT_POS_SIZE ∧ ∀ c ∈ l, c.WF := by
  intro n
  induction n using Nat.strongRecOn with
  | _ n ih =>
    intro bs hn hb
    by_cases hl : bs.length < COMMIT_POS_SIZE
    · refine ⟨[], bs, ?_, by simp [encSpentIndex, writeMulti], hl, ?_, by simp⟩
      · unfold readVec; rw [readVecFuel, decCommitPos_short bs hl]
      · simp only [List.length_nil]; exact (Nat.div_eq_of_lt hl).symm
    · obtain ⟨c, r, hc⟩ := decCommitPos_ok_of_long bs (by omega)
      obtain ⟨henc, hwf⟩ := decCommitPos_inv hb hc
      have hprog := decCommitPos_progress bs c r hc
      have hbr : AllBytes r := by rw [henc] at hb; exact allBytes_append_right hb
      have hlen : r.length < n := by rw [← hn]; simp only [COMMIT_POS_SIZE] at hprog; omega
      obtain ⟨l, tail, h1, h2, h3, h4, h5⟩ := ih r.length hlen r rfl hbr
      refine ⟨c :: l, tail, ?_, ?_, h3, ?_, ?_⟩
      · unfold readVec at h1 ⊢
        rw [readVecFuel, hc]
        have := readVecFuel_mono' decCommitPos _ bs.length (by omega) _ _ h1
        simp only [this]
      · rw [henc]
        simp only [encSpentIndex] at h2 ⊢
        rw [writeMulti_cons', ← h2]
      · simp only [List.length_cons, h4, COMMIT_POS_SIZE] at hprog ⊢; omega
      · intro x hx
        rcases List.mem_cons.mp hx with rfl | hx
        · exact hwf
        · exact h5 x hx

/-! ## SkipPow -/

theorem decProofSkip_of_full {c : Cfg} {bs : Bytes} {p : Proof} {r : Bytes} (h : decProof c bs = .ok (p, r)) :
    ∃ r', decProofSkip bs = .ok ({ p with nonces := [] }, r') := by
  rw [decProof] at h
  obtain ⟨eb, r1, h1, k1⟩ := andThen_inv h
  rw [decProofSkip, h1, andThen_ok]
  split at k1
  · simp at k1
  rename_i heb
  split at k1
  · simp at k1
  obtain ⟨bits, r2, h2, k2⟩ := andThen_inv k1
  dsimp only at k2
  split at k2
  · simp at k2
  simp only [Except.ok.injEq, Prod.mk.injEq] at k2
  obtain ⟨rfl, rfl⟩ := k2
  exact ⟨r1, by rw [if_neg heb]⟩

theorem decProofOfWorkSkip_of_full {c : Cfg} {bs : Bytes} {p : ProofOfWork} {r : Bytes}
    (h : decProofOfWork c bs = .ok (p, r)) :
    ∃ r', decProofOfWorkSkip bs = .ok ({ p with proof := { p.proof with nonces := [] } }, r') := by
  rw [decProofOfWork] at h
  obtain ⟨td, r1, h1, k1⟩ := andThen_inv h
  obtain ⟨ss, r2, h2, k2⟩ := andThen_inv k1
  obtain ⟨nonce, r3, h3, k3⟩ := andThen_inv k2
  obtain ⟨pf, r4, h4, k4⟩ := andThen_inv k3
  simp only [Except.ok.injEq, Prod.mk.injEq] at k4
  obtain ⟨rfl, rfl⟩ := k4
  obtain ⟨r', hs⟩ := decProofSkip_of_full h4
  exact ⟨r', by rw [decProofOfWorkSkip, h1, andThen_ok, h2, andThen_ok, h3, andThen_ok, hs, andThen_ok]⟩

/-- whatever the full header reader accepts, the `SkipPow` reader accepts too, with the same value
apart from the nonces -/
theorem decBlockHeaderSkip_of_full {c : Cfg} {bs : Bytes} {hd : BlockHeader} {r : Bytes}
    (h : decBlockHeader c bs = .ok (hd, r)) :
    ∃ r', decBlockHeaderSkip bs = .ok (hd.withoutNonces, r') := by
  rw [decBlockHeader] at h
  obtain ⟨version, r1, h1, k1⟩ := andThen_inv h
  obtain ⟨height, r2, h2, k2⟩ := andThen_inv k1
  obtain ⟨ts, r3, h3, k3⟩ := andThen_inv k2
  obtain ⟨ph, r4, h4, k4⟩ := andThen_inv k3
  obtain ⟨pr, r5, h5, k5⟩ := andThen_inv k4
  obtain ⟨orr, r6, h6, k6⟩ := andThen_inv k5
  obtain ⟨rr, r7, h7, k7⟩ := andThen_inv k6
  obtain ⟨kr, r8, h8, k8⟩ := andThen_inv k7
  obtain ⟨tko, r9, h9, k9⟩ := andThen_inv k8
  obtain ⟨oms, r10, h10, k10⟩ := andThen_inv k9
  obtain ⟨kms, r11, h11, k11⟩ := andThen_inv k10
  obtain ⟨pow, r12, h12, k12⟩ := andThen_inv k11
  clear h k1 k2 k3 k4 k5 k6 k7 k8 k9 k10 k11
  split at k12
  · simp at k12
  rename_i hts
  simp only [Except.ok.injEq, Prod.mk.injEq] at k12
  obtain ⟨rfl, rfl⟩ := k12
  obtain ⟨r', hs⟩ := decProofOfWorkSkip_of_full h12
  refine ⟨r', ?_⟩
  rw [decBlockHeaderSkip, h1, andThen_ok, h2, andThen_ok, h3, andThen_ok, h4, andThen_ok, h5, andThen_ok,
    h6, andThen_ok, h7, andThen_ok, h8, andThen_ok, h9, andThen_ok, h10, andThen_ok, h11, andThen_ok,
    hs, andThen_ok, if_neg hts]
  rfl

/-- the bytes of a header up to and including the `edge_bits` byte -/
def encHeaderToEdgeBits (h : BlockHeader) : Bytes :=
  encHeaderPrePow h ++ writeU64 h.pow.totalDifficulty ++ writeU32 h.pow.secondaryScaling
  ++ writeU64 h.pow.nonce ++ writeU8 h.pow.proof.edgeBits

theorem encBlockHeader_split (proofSize : Nat) (h : BlockHeader) :
    encBlockHeader proofSize .full h = encHeaderToEdgeBits h ++ h.pow.proof.packNonces proofSize := by
  simp [encBlockHeader, encProofOfWork, encProof, encHeaderToEdgeBits]

/-- field ranges of everything a `SkipPow` read looks at -/
def BlockHeader.WFSkip (h : BlockHeader) : Prop :=
  h.version < 2^16 ∧ h.height < 2^64 ∧ TS_MIN ≤ h.timestamp ∧ h.timestamp ≤ TS_MAX
  ∧ h.prevHash.length = HASH_SIZE ∧ h.prevRoot.length = HASH_SIZE ∧ h.outputRoot.length = HASH_SIZE
  ∧ h.rangeProofRoot.length = HASH_SIZE ∧ h.kernelRoot.length = HASH_SIZE
  ∧ h.totalKernelOffset.length = BLIND_SIZE
  ∧ h.outputMmrSize < 2^64 ∧ h.kernelMmrSize < 2^64
  ∧ h.pow.totalDifficulty < 2^64 ∧ h.pow.secondaryScaling < 2^32 ∧ h.pow.nonce < 2^64
  ∧ 1 ≤ h.pow.proof.edgeBits ∧ h.pow.proof.edgeBits ≤ 63

theorem BlockHeader.WF.toSkip {proofSize : Nat} {h : BlockHeader} (hwf : h.WF proofSize) : h.WFSkip := by
  obtain ⟨a1, a2, a3, a4, a5, a6, a7, a8, a9, a10, a11, a12, b1, b2, b3, c1, c2, _⟩ := hwf
  exact ⟨a1, a2, a3, a4, a5, a6, a7, a8, a9, a10, a11, a12, b1, b2, b3, c1, c2⟩

/-- a `SkipPow` read stops right after the `edge_bits` byte, whatever follows it -/
theorem decBlockHeaderSkip_toEdgeBits (h : BlockHeader) (hwf : h.WFSkip) (rest : Bytes) :
    decBlockHeaderSkip (encHeaderToEdgeBits h ++ rest) = .ok (h.withoutNonces, rest) := by
  obtain ⟨hv, hh, ht1, ht2, l1, l2, l3, l4, l5, l6, ho, hk, hd, hs, hn, he1, he2⟩ := hwf
  have hts := ts_bounds
  have hti : ¬ (h.timestamp > TS_MAX ∨ h.timestamp < TS_MIN) := by omega
  have heb : ¬ (h.pow.proof.edgeBits = 0 ∨ h.pow.proof.edgeBits > 63) := by omega
  rw [decBlockHeaderSkip, encHeaderToEdgeBits]
  simp only [encHeaderPrePow, List.append_assoc]
  rw [readU16_write _ hv, andThen_ok, readU64_write _ hh, andThen_ok,
    readI64_write _ (by omega) (by omega), andThen_ok,
    decHash_write _ l1, andThen_ok, decHash_write _ l2, andThen_ok, decHash_write _ l3, andThen_ok,
    decHash_write _ l4, andThen_ok, decHash_write _ l5, andThen_ok, decBlind_write _ l6, andThen_ok,
    readU64_write _ ho, andThen_ok, readU64_write _ hk, andThen_ok]
  rw [decProofOfWorkSkip, readU64_write _ hd, andThen_ok, readU32_write _ hs, andThen_ok,
    readU64_write _ hn, andThen_ok, decProofSkip, readU8_write, andThen_ok, if_neg heb, andThen_ok,
    andThen_ok, if_neg hti]
  rfl

/-! ## MerkleProof -/

def MerkleProof.WF (p : MerkleProof) : Prop :=
  p.mmrSize < 2^64 ∧ p.path.length < 2^64 ∧ ∀ h ∈ p.path, h.length = HASH_SIZE

theorem readHashes_write (l : List Bytes) (hl : ∀ h ∈ l, h.length = HASH_SIZE) (rest : Bytes) :
    readHashes l.length (writeMulti writeFixed l ++ rest) = .ok (l, rest) := by
  induction l with
  | nil => simp [readHashes, writeMulti]
  | cons x l ih =>
    rw [List.length_cons, readHashes, writeMulti_cons']
    have hx := decHash_write x (hl x (by simp)) (writeMulti writeFixed l ++ rest)
    simp only [writeFixed] at hx ⊢
    rw [hx, andThen_ok, ih (fun y hy => hl y (by simp [hy])), andThen_ok]

theorem decMerkleProof_enc (p : MerkleProof) (h : p.WF) (rest : Bytes) :
    decMerkleProof (encMerkleProof p ++ rest) = .ok (p, rest) := by
  obtain ⟨h1, h2, h3⟩ := h
  rw [decMerkleProof, encMerkleProof]
  simp only [List.append_assoc]
  rw [readU64_write _ h1, andThen_ok, readU64_write _ h2, andThen_ok, readHashes_write _ h3, andThen_ok]

theorem readHashes_inv : ∀ (n : Nat) {bs : Bytes} {l : List Bytes} {r : Bytes},
    readHashes n bs = .ok (l, r) →
    bs = writeMulti writeFixed l ++ r ∧ l.length = n ∧ ∀ h ∈ l, h.length = HASH_SIZE := by
  intro n
  induction n with
  | zero =>
    intro bs l r h
    simp only [readHashes, Except.ok.injEq, Prod.mk.injEq] at h
    obtain ⟨rfl, rfl⟩ := h
    simp [writeMulti]
  | succ n ih =>
    intro bs l r h
    rw [readHashes] at h
    obtain ⟨x, r1, h1, k1⟩ := andThen_inv h
    obtain ⟨xs, r2, h2, k2⟩ := andThen_inv k1
    simp only [Except.ok.injEq, Prod.mk.injEq] at k2
    obtain ⟨rfl, rfl⟩ := k2
    obtain ⟨e1, l1⟩ := readFixed_ok h1
    obtain ⟨e2, l2, l3⟩ := ih h2
    subst e1; subst e2
    refine ⟨by rw [writeMulti_cons']; rfl, by simp [l2], ?_⟩
    intro y hy
    rcases List.mem_cons.mp hy with rfl | hy
    · exact l1
    · exact l3 y hy

theorem decMerkleProof_inv {bs : Bytes} {p : MerkleProof} {r : Bytes} (hb : AllBytes bs)
    (h : decMerkleProof bs = .ok (p, r)) : bs = encMerkleProof p ++ r ∧ p.WF := by
  rw [decMerkleProof] at h
  obtain ⟨size, r1, h1, k1⟩ := andThen_inv h
  obtain ⟨n, r2, h2, k2⟩ := andThen_inv k1
  obtain ⟨path, r3, h3, k3⟩ := andThen_inv k2
  clear h k1 k2
  simp only [Except.ok.injEq, Prod.mk.injEq] at k3
  obtain ⟨rfl, rfl⟩ := k3
  obtain ⟨e1, l1⟩ := readU64_inv hb h1
  subst e1
  obtain ⟨e2, l2⟩ := readU64_inv (allBytes_append_right hb) h2
  subst e2
  obtain ⟨e3, l3, l4⟩ := readHashes_inv n h3
  subst e3
  subst l3
  exact ⟨by simp [encMerkleProof], l1, l2, l4⟩

/-- a path count that the bytes do not cover is refused -/
theorem readHashes_short : ∀ (n : Nat) (bs : Bytes), bs.length < HASH_SIZE * n → readHashes n bs = .error .ioEof := by
  intro n
  induction n with
  | zero => intro bs h; simp at h
  | succ n ih =>
    intro bs h
    rw [readHashes]
    cases h1 : decHash bs with
    | error e =>
      simp only [andThen_error]
      rw [decHash, readFixed, if_neg (by decide)] at h1
      split at h1
      · simp at h1
      · simp only [Except.error.injEq] at h1
        rw [← h1]
    | ok v =>
      obtain ⟨x, r⟩ := v
      obtain ⟨e1, l1⟩ := readFixed_ok h1
      rw [andThen_ok, ih r (by rw [e1] at h; simp at h; simp only [HASH_SIZE] at *; omega), andThen_error]

/-! ## Hash::from_vec -/

theorem hashFromVec_length (v : Bytes) : (hashFromVec v).length = HASH_SIZE := by
  simp [hashFromVec, HASH_SIZE]; omega

theorem hashFromVec_id (v : Bytes) (h : v.length = HASH_SIZE) : hashFromVec v = v := by
  unfold hashFromVec
  rw [List.take_of_length_le (by omega), h]; simp

end GV.Ser
