import GrinVerif.Lemmas.StoreTree
import GrinVerif.Lemmas.PruneListCount
/-! Set-level correctness of the prune-list roll-up (C08, gap (1)): which positions a prune list
prunes, as a set.  `PrunedBy bm q` = `q` lies in the subtree of a root of `bm`.  Under the
roll-up invariant the list is *canonical*: a position is pruned iff every leaf below it is
(`canon`).  `append` adds exactly the leaves below the appended position (`appendFuel_leaves`),
`PruneList::new` of a sorted antichain prunes exactly the leaves below its elements
(`new_leaves`).  Core Lean only. -/
namespace GV.Store
open GV GV.Pmmr

/-- `q` lies in the subtree of one of the (1-based) roots of `bm` -/
def PrunedBy (bm : List Nat) (q : Nat) : Prop := ∃ x ∈ bm, Sub (x - 1) q

/-- every leaf below `q` satisfies `S` -/
def Full (S : Nat → Prop) (q : Nat) : Prop := ∀ l, height l = 0 → Sub q l → S l

theorem full_leaf {S : Nat → Prop} {q : Nat} (hq : height q = 0) : Full S q ↔ S q := by
  constructor
  · intro h; exact h q hq (sub_refl q)
  · intro h l _ hs; rw [sub_leaf hq hs]; exact h

theorem full_of_sub {S : Nat → Prop} {a b : Nat} (hs : Sub a b) (h : Full S a) : Full S b :=
  fun l hl hb => h l hl (sub_trans hs hb)

theorem full_congr {S T : Nat → Prop} (h : ∀ l, height l = 0 → (S l ↔ T l)) (q : Nat) :
    Full S q ↔ Full T q :=
  ⟨fun hf l hl hs => (h l hl).1 (hf l hl hs), fun hf l hl hs => (h l hl).2 (hf l hl hs)⟩

theorem full_parent (S : Nat → Prop) (p : Nat) :
    Full S (family p).1 ↔ Full S p ∧ Full S (family p).2 := by
  constructor
  · intro h
    exact ⟨fun l hl hs => h l hl ((sub_family p l).2 (Or.inr (Or.inl hs))),
           fun l hl hs => h l hl ((sub_family p l).2 (Or.inr (Or.inr hs)))⟩
  · rintro ⟨h1, h2⟩ l hl hs
    rcases (sub_family p l).1 hs with rfl | h | h
    · have := height_parent p; omega
    · exact h1 l hl h
    · exact h2 l hl h

theorem full_children {S : Nat → Prop} {p h : Nat} (hp : height p = h + 1) :
    Full S p ↔ Full S (p - 2 * 2 ^ h) ∧ Full S (p - 1) := by
  obtain ⟨_, _, _, c3, _⟩ := children p h hp
  have := full_parent S (p - 1)
  rw [c3] at this
  simp only at this
  rw [this]; exact And.comm

/-- every subtree contains a leaf (its leftmost position) -/
theorem exists_leaf (q : Nat) : ∃ l, height l = 0 ∧ Sub q l :=
  ⟨bintreeLeftmost q, leftmost_isLeaf _ q rfl, Nat.le_refl _, PruneList.leftmost_le q⟩

theorem prunedBy_of_sub {bm : List Nat} {a b : Nat} (h : PrunedBy bm a) (hs : Sub a b) :
    PrunedBy bm b := by
  obtain ⟨x, hx, h1⟩ := h
  exact ⟨x, hx, sub_trans h1 hs⟩

theorem prunedBy_append {l r : List Nat} {q : Nat} :
    PrunedBy (l ++ r) q ↔ PrunedBy l q ∨ PrunedBy r q := by
  unfold PrunedBy
  constructor
  · rintro ⟨x, hx, h⟩
    rcases List.mem_append.1 hx with h1 | h1
    · exact Or.inl ⟨x, h1, h⟩
    · exact Or.inr ⟨x, h1, h⟩
  · rintro (⟨x, hx, h⟩ | ⟨x, hx, h⟩)
    · exact ⟨x, List.mem_append.2 (Or.inl hx), h⟩
    · exact ⟨x, List.mem_append.2 (Or.inr hx), h⟩

theorem compactedP_iff {bm : List Nat} {q : Nat} :
    compactedP bm q = true ↔ ∃ x ∈ bm, Sub (x - 1) q ∧ q ≠ x - 1 := by
  unfold compactedP interior Sub
  simp only [List.any_eq_true, Bool.and_eq_true, decide_eq_true_eq]
  constructor
  · rintro ⟨x, hx, h1, h2⟩; exact ⟨x, hx, ⟨h1, by omega⟩, by omega⟩
  · rintro ⟨x, hx, ⟨h1, h2⟩, h3⟩; exact ⟨x, hx, h1, by omega⟩

theorem compactedP_false_iff {bm : List Nat} {q : Nat} :
    compactedP bm q = false ↔ ¬ ∃ x ∈ bm, Sub (x - 1) q ∧ q ≠ x - 1 := by
  rw [← compactedP_iff]; simp

/-- strictly inside a pruned subtree iff the parent is pruned -/
theorem compactedP_iff_parent {bm : List Nat} {q : Nat} :
    compactedP bm q = true ↔ PrunedBy bm (family q).1 := by
  rw [compactedP_iff]
  unfold PrunedBy
  constructor
  · rintro ⟨x, hx, h⟩; exact ⟨x, hx, (sub_parent_iff _ _).1 h⟩
  · rintro ⟨x, hx, h⟩; exact ⟨x, hx, (sub_parent_iff _ _).2 h⟩

namespace PruneList

theorem isPruned_iff_prunedBy {pl : PruneList} (h : Inv pl) (p : Nat) :
    isPruned pl p = true ↔ PrunedBy pl.bitmap p := by
  rw [isPruned_iff h, Bool.or_eq_true, compactedP_iff]
  unfold isPrunedRoot PrunedBy
  rw [contains_iff]
  constructor
  · rintro (h1 | ⟨x, hx, h2, _⟩)
    · exact ⟨1 + p, h1, by rw [Nat.add_sub_cancel_left]; exact sub_refl p⟩
    · exact ⟨x, hx, h2⟩
  · rintro ⟨x, hx, h2⟩
    by_cases he : p = x - 1
    · left
      have := h.pos x hx
      have : 1 + p = x := by omega
      rw [this]; exact hx
    · right; exact ⟨x, hx, h2, he⟩

theorem mem_take_of_lt {l : List Nat} (hs : Sorted l) {k : Nat} (hk : k < l.length) {x : Nat}
    (hx : x ∈ l) (hlt : x < l[k]) : x ∈ l.take k := by
  obtain ⟨i, hi, rfl⟩ := List.mem_iff_getElem.1 hx
  have hik : i < k := by
    apply Classical.byContradiction
    intro hc
    rcases Nat.lt_or_ge k i with h1 | h1
    · have := List.pairwise_iff_getElem.1 hs k i hk hi h1; omega
    · have : i = k := by omega
      subst this; omega
  exact List.mem_iff_getElem.2 ⟨i, by simp [List.length_take]; omega, by simp⟩

/-- **canonical form**: under the roll-up invariant a position all of whose leaves are pruned
is pruned itself (two pruned siblings never coexist as roots) -/
theorem canon {pl : PruneList} (h : Inv pl) : ∀ (hq q : Nat), height q = hq →
    Full (PrunedBy pl.bitmap) q → PrunedBy pl.bitmap q := by
  intro hq
  induction hq with
  | zero => intro q hq hf; exact (full_leaf hq).1 hf
  | succ n ih =>
    intro q hq hf
    obtain ⟨c0, c1, c2, c3, c4⟩ := children q n hq
    obtain ⟨f1, f2⟩ := (full_children hq).1 hf
    obtain ⟨x1, hx1, s1⟩ := ih _ c2 f1
    obtain ⟨x2, hx2, s2⟩ := ih _ c1 f2
    by_cases e1 : q - 2 * 2 ^ n = x1 - 1
    · by_cases e2 : q - 1 = x2 - 1
      · -- both children are roots: impossible
        exfalso
        have hp1 := h.pos x1 hx1
        have hp2 := h.pos x2 hx2
        have hpos : 0 < 2 ^ n := Nat.pow_pos (by omega)
        obtain ⟨k, hk, hk2⟩ := List.mem_iff_getElem.1 hx2
        have hcl := h.closed k hk
        rw [hk2, ← e2, c3] at hcl
        simp only at hcl
        have hmem : x1 ∈ pl.bitmap.take k := mem_take_of_lt h.sorted hk hx1 (by rw [hk2]; omega)
        have : isPrunedBm (pl.bitmap.take k) (q - 2 * 2 ^ n) = true := by
          unfold isPrunedBm isPruned isPrunedRoot
          have : 1 + (q - 2 * 2 ^ n) = x1 := by omega
          simp only [this, contains_iff.2 hmem, if_true]
        rw [this] at hcl; exact absurd hcl (by simp)
      · have := (sub_parent_iff (x2 - 1) (q - 1)).1 ⟨s2, e2⟩
        rw [c3] at this
        exact ⟨x2, hx2, this⟩
    · have := (sub_parent_iff (x1 - 1) (q - 2 * 2 ^ n)).1 ⟨s1, e1⟩
      rw [c4] at this
      exact ⟨x1, hx1, this⟩

/-- pruned iff all leaves below are pruned -/
theorem prunedBy_iff_full {pl : PruneList} (h : Inv pl) (q : Nat) :
    PrunedBy pl.bitmap q ↔ Full (PrunedBy pl.bitmap) q :=
  ⟨fun hp l _ hs => prunedBy_of_sub hp hs, canon h _ q rfl⟩

/-- two lists satisfying the invariant that prune the same leaves prune the same positions -/
theorem prunedBy_of_leaves {pl : PruneList} (h : Inv pl) (S : Nat → Prop)
    (hl : ∀ l, height l = 0 → (PrunedBy pl.bitmap l ↔ S l)) (q : Nat) :
    PrunedBy pl.bitmap q ↔ Full S q := by
  rw [prunedBy_iff_full h, full_congr hl]

theorem mem_cleanup {pl : PruneList} (h : Inv pl) (p x : Nat) :
    x ∈ (cleanupSubtree pl p).bitmap ↔ x ∈ pl.bitmap ∧ x ≤ bintreeLeftmost p := by
  unfold cleanupSubtree
  simp only
  split
  · rename_i hge
    constructor
    · intro hx
      have := le_maximum_of_sorted h.sorted x hx
      exact ⟨hx, by omega⟩
    · exact fun hx => hx.1
  · rw [removeRange_to_max _ h.sorted (le_maximum_of_sorted h.sorted)]
    simp only [Bm.rank]
    rw [← filter_le_eq_take _ h.sorted]
    simp [List.mem_filter]

/-- the step of `append` when the sibling is not pruned: clean up, then append the root -/
theorem append_nosib {pl : PruneList} (h : Inv pl) (pos0 : Nat)
    (hnp : isPruned pl (family pos0).2 = false) :
    Inv (appendSingle (cleanupSubtree pl pos0) pos0) ∧
    (appendSingle (cleanupSubtree pl pos0) pos0).bitmap = (cleanupSubtree pl pos0).bitmap ++ [1 + pos0] := by
  obtain ⟨hc, hall, hsub⟩ := cleanup_inv h pos0
  have hsibroot : Bm.contains pl.bitmap (1 + (family pos0).2) = false := by
    unfold isPruned at hnp
    by_cases hr : isPrunedRoot pl (family pos0).2 = true
    · simp [hr] at hnp
    · simpa [isPrunedRoot] using hr
  have hsib' : Bm.contains (cleanupSubtree pl pos0).bitmap (1 + (family pos0).2) = false := by
    cases hcc : Bm.contains (cleanupSubtree pl pos0).bitmap (1 + (family pos0).2) with
    | false => rfl
    | true =>
      have := hsub _ (contains_iff.1 hcc)
      rw [contains_iff.2 this] at hsibroot; exact absurd hsibroot (by simp)
  have hsibpos : ∀ x ∈ (cleanupSubtree pl pos0).bitmap, x ≤ 1 + (family pos0).2 := by
    intro x hx
    have h1 := hall x hx
    have h2 := hc.pos x hx
    have h3 := leftmost_le pos0
    rcases family_sibling_cases pos0 with (h4 | h4) | h4 <;> omega
  exact appendSingle_inv hc pos0 hall hsib' hsibpos

theorem pow_le_of_height {p : Nat} (hp : 64 ≤ height p) : 2 ^ 64 ≤ p := by
  have hb := height_bound p
  have : 2 ^ 64 ≤ 2 ^ height p := Nat.pow_le_pow_right (by omega) hp
  omega

/-- **set-level correctness of `append`** (gap (1)): appending `p` to a list all of whose roots
are at or before `p` (the "prune list append only" precondition) prunes exactly the leaves
pruned before plus the leaves below `p`.  `p'` is the root the roll-up ended at. -/
theorem appendFuel_leaves : ∀ (fuel : Nat) (pl : PruneList) (p : Nat), Inv pl →
    (∀ x ∈ pl.bitmap, x ≤ 1 + p) → 64 ≤ height p + fuel → p + fuel < 2 ^ 64 →
    ∃ p', p ≤ p' ∧ (∀ q, p ≤ q → q ≤ p' → Sub q p) ∧
      (∀ y ∈ (appendFuel fuel pl p).bitmap, y ≤ 1 + p') ∧
      (∀ l, height l = 0 → (PrunedBy (appendFuel fuel pl p).bitmap l ↔ PrunedBy pl.bitmap l ∨ Sub p l)) := by
  intro fuel
  induction fuel with
  | zero =>
    intro pl p _ _ h1 h2
    have := pow_le_of_height (show 64 ≤ height p by omega)
    omega
  | succ n ih =>
    intro pl p hinv hall h1 h2
    unfold appendFuel
    simp only
    split
    · rename_i hsp
      -- the sibling is pruned, hence left of `p`: `p` is a right child, the parent is `p + 1`
      have hsb := (isPruned_iff_prunedBy hinv _).1 hsp
      obtain ⟨x, hx, hxs⟩ := hsb
      have hxp := hall x hx
      have hne := (family_sibling p).2.2
      have hfam : family p = (p + 1, p + 1 - 2 * 2 ^ height p) := by
        rcases family_cases p with ⟨hf, _⟩ | hf
        · exact hf
        · exfalso
          have hpos : 0 < 2 ^ height p := Nat.pow_pos (by omega)
          rw [hf] at hxs; simp only at hxs
          have := hxs.2; omega
      have hpar := height_parent p
      rw [hfam] at hpar hsp hxs ⊢
      simp only at hpar hsp hxs ⊢
      obtain ⟨p', hp1, hp2, hp3, hp4⟩ := ih pl (p + 1) hinv (fun y hy => by have := hall y hy; omega)
        (by omega) (by omega)
      have hsubp : Sub (p + 1) p := by
        have := (sub_family p p).2 (Or.inr (Or.inl (sub_refl p)))
        rw [hfam] at this; exact this
      refine ⟨p', by omega, ?_, hp3, ?_⟩
      · intro q hq1 hq2
        by_cases hq : q = p
        · rw [hq]; exact sub_refl p
        · exact sub_trans (hp2 q (by omega) hq2) hsubp
      · intro l hl
        rw [hp4 l hl]
        have hsf := sub_family p l
        rw [hfam] at hsf; simp only at hsf
        constructor
        · rintro (h | h)
          · exact Or.inl h
          · rcases hsf.1 h with rfl | h | h
            · omega
            · exact Or.inr h
            · exact Or.inl ⟨x, hx, sub_trans hxs h⟩
        · rintro (h | h)
          · exact Or.inl h
          · exact Or.inr (hsf.2 (Or.inr (Or.inl h)))
    · rename_i hnp
      have hnp' : isPruned pl (family p).2 = false := by simpa using hnp
      obtain ⟨hi, hb⟩ := append_nosib hinv p hnp'
      have hlm := leftmost_le p
      refine ⟨p, Nat.le_refl _, ?_, ?_, ?_⟩
      · intro q hq1 hq2
        have : q = p := by omega
        rw [this]; exact sub_refl p
      · intro y hy
        rw [hb] at hy
        rcases List.mem_append.1 hy with hy | hy
        · have := ((mem_cleanup hinv p y).1 hy).2; omega
        · simp at hy; omega
      · intro l hl
        rw [hb, prunedBy_append]
        constructor
        · rintro (⟨x, hx, hs⟩ | ⟨x, hx, hs⟩)
          · exact Or.inl ⟨x, ((mem_cleanup hinv p x).1 hx).1, hs⟩
          · simp at hx; subst hx
            rw [Nat.add_sub_cancel_left] at hs; exact Or.inr hs
        · rintro (⟨x, hx, hs⟩ | hs)
          · by_cases hle : x ≤ bintreeLeftmost p
            · exact Or.inl ⟨x, (mem_cleanup hinv p x).2 ⟨hx, hle⟩, hs⟩
            · right
              have := hall x hx
              refine ⟨1 + p, by simp, ?_⟩
              rw [Nat.add_sub_cancel_left]
              exact sub_trans (show Sub p (x - 1) from ⟨by omega, by omega⟩) hs
          · exact Or.inr ⟨1 + p, by simp, by rw [Nat.add_sub_cancel_left]; exact hs⟩

/-- **set-level correctness of `PruneList::new`**: re-appending a strictly ascending list of
1-based positions whose subtrees are pairwise not nested prunes exactly the leaves below them -/
theorem foldl_append_leaves : ∀ (rest : List Nat) (pl : PruneList) (S : Nat → Prop), Inv pl →
    (∀ l, height l = 0 → (PrunedBy pl.bitmap l ↔ S l)) →
    (∀ y ∈ pl.bitmap, ∀ e ∈ rest, y < e) →
    Sorted rest → (∀ e ∈ rest, 1 ≤ e ∧ e + 64 < 2 ^ 64) →
    List.Pairwise (fun a b => ¬ Sub (b - 1) (a - 1)) rest →
    ∀ l, height l = 0 →
      (PrunedBy (rest.foldl (fun pl pos1 => append pl (pos1 - 1)) pl).bitmap l ↔ S l ∨ PrunedBy rest l) := by
  intro rest
  induction rest with
  | nil =>
    intro pl S _ hS _ _ _ _ l hl
    simp only [List.foldl_nil]
    rw [hS l hl]
    constructor
    · exact Or.inl
    · rintro (h | ⟨x, hx, _⟩)
      · exact h
      · simp at hx
  | cons e rest ih =>
    intro pl S hinv hS hlt hsorted hbound hanti l hl
    simp only [List.foldl_cons]
    have hs' := List.pairwise_cons.1 hsorted
    have ha' := List.pairwise_cons.1 hanti
    obtain ⟨he1, he2⟩ := hbound e (by simp)
    obtain ⟨p', hp1, hp2, hp3, hp4⟩ := appendFuel_leaves 64 pl (e - 1) hinv
      (fun y hy => by have := hlt y hy e (by simp); omega) (by omega) (by omega)
    have := ih (append pl (e - 1)) (fun l => S l ∨ Sub (e - 1) l) (append_inv hinv _)
      (fun l hl => by
        show PrunedBy (appendFuel 64 pl (e - 1)).bitmap l ↔ _
        rw [hp4 l hl, hS l hl])
      (fun y hy e' he' => by
        have h1 := hp3 y hy
        have h2 := hs'.1 e' he'
        have h3 := ha'.1 e' he'
        apply Classical.byContradiction
        intro hc
        exact h3 (hp2 (e' - 1) (by omega) (by omega)))
      hs'.2 (fun e' he' => hbound e' (by simp [he'])) ha'.2 l hl
    rw [this]
    constructor
    · rintro ((h | h) | ⟨x, hx, h⟩)
      · exact Or.inl h
      · exact Or.inr ⟨e, by simp, h⟩
      · exact Or.inr ⟨x, by simp [hx], h⟩
    · rintro (h | ⟨x, hx, h⟩)
      · exact Or.inl (Or.inl h)
      · rcases List.mem_cons.1 hx with rfl | hx
        · exact Or.inl (Or.inr h)
        · exact Or.inr ⟨x, hx, h⟩

theorem new_leaves (l : List Nat) (hs : Sorted l) (hb : ∀ e ∈ l, 1 ≤ e ∧ e + 64 < 2 ^ 64)
    (hanti : List.Pairwise (fun a b => ¬ Sub (b - 1) (a - 1)) l) (q : Nat) (hq : height q = 0) :
    PrunedBy (PruneList.new l).bitmap q ↔ PrunedBy l q := by
  have := foldl_append_leaves l {} (fun _ => False) inv_empty
    (fun l _ => by simp [PrunedBy]) (fun y hy => by simp at hy) hs hb hanti q hq
  unfold PruneList.new
  rw [this]; simp

end PruneList
end GV.Store
