import GrinVerif.Lemmas.SegPruned
import GrinVerif.Lemmas.SegCompleteList
/-! Completeness of segments of a pruned MMR against the bitmap, assembled: every identifier of
height ≥ 1 that intersects the MMR, and the list-level instances (leaves spent but nothing
compacted; one compacted sibling pair).  Core Lean only. -/
namespace GV.Seg
open GV GV.Pmmr

variable {α H : Type}

/-- full segments whose subtree root is on file and the final segment, in one statement -/
theorem complete_pruned (hf : HashFn α H) [DecidableEq H] (f : Nat → α) (N : Nat) (b : Nat → Bool)
    (V : View α H) (pv : PrunedView hf f N b V) (id : Ident) (fit : FitId id N) (hg : 1 ≤ id.height)
    (hon : FullId id (mmr N) → V.fromFile (lastOf id) ≠ none) :
    ∃ s r, fromPmmr hf V id true = .ok s ∧ rootOf hf f N = some r ∧ s.id = id ∧
      s.validate hf (mmr N) (some b) r = .ok () ∧
      ∀ hlp other left, s.validateWith hf (mmr N) (some b)
        (if left then hf.node hlp other r else hf.node hlp r other) hlp other left = .ok () := by
  rcases fit_cases id N fit with h | h
  · obtain ⟨proof, r, h1, h2, _, _, h5, h6⟩ := full_complete_pruned pv id h hg (hon h)
    exact ⟨_, r, h1, h2, rfl, h5, h6⟩
  · obtain ⟨proof, r, sr, h1, h2, _, _, h5, h6⟩ := final_complete_pruned pv id h
    exact ⟨_, r, h1, h2, rfl, h5, h6⟩

/-- the `ReadonlyPMMR` of a backend whose leaves in `removed` are spent (`get_hash` hides them;
`get_from_file` / `get_data_from_file` still answer) and nothing is compacted -/
def spentView (hashes : List H) (d : List α) (removed : Nat → Bool) : View α H where
  size := hashes.length
  dataFromFile := (vecView hashes d).dataFromFile
  fromFile := fun p => hashes[p]?
  hash := fun p => if isLeaf p && removed p then none else hashes[p]?

theorem spentView_pruned (hf : HashFn α H) (f : Nat → α) (N : Nat) (b removed : Nat → Bool)
    (hN : N < 2 ^ 32) :
    PrunedView hf f N b (spentView (Co.allHashes hf f N) ((List.range N).map f) removed) := by
  apply prunedView_of_all_on_file _ b hN (Co.allHashes_length hf f N)
  · intro q hq; exact allHashes_hAt hf f N q hq
  · intro q hq hl; exact vecView_data hf f N q hq hl
  · intro q _ hh
    have : isLeaf q = false := by simp [isLeaf, hh]
    simp [spentView, this]

theorem spentView_compact_pruned (hf : HashFn α H) (f : Nat → α) (N : Nat) (b removed : Nat → Bool)
    (hN : N < 2 ^ 32) (n0 : Nat) (hodd : 1 ≤ trailingOnes n0) (hn0 : n0 < N)
    (hb1 : b (n0 - 1) = false) (hb2 : b n0 = false) :
    PrunedView hf f N b
      (compactPair (spentView (Co.allHashes hf f N) ((List.range N).map f) removed) n0) := by
  apply prunedView_compactPair _ b hN n0 hodd hn0 hb1 hb2 (Co.allHashes_length hf f N)
  · intro q hq; exact allHashes_hAt hf f N q hq
  · intro q hq hl; exact vecView_data hf f N q hq hl
  · intro q _ hh
    have : isLeaf q = false := by simp [isLeaf, hh]
    simp [spentView, this]

/-- list form: leaves spent in any pattern, optionally one compacted sibling pair `n0 - 1, n0` -/
theorem complete_pruned_list (hf : HashFn α H) [DecidableEq H] (xs : List α) (b removed : Nat → Bool)
    (id : Ident) (fit : FitId id xs.length) (hN : xs.length < 2 ^ 32) (hg : 1 ≤ id.height) :
    (∃ s r, fromPmmr hf (spentView (Spec.Mmr.hashes hf xs) xs removed) id true = .ok s ∧
      Spec.Mmr.root hf xs = some r ∧ s.validate hf (mmr xs.length) (some b) r = .ok () ∧
      ∀ hlp other left, s.validateWith hf (mmr xs.length) (some b)
        (if left then hf.node hlp other r else hf.node hlp r other) hlp other left = .ok ()) ∧
    (∀ n0, 1 ≤ trailingOnes n0 → n0 < xs.length → b (n0 - 1) = false → b n0 = false →
      ∃ s r, fromPmmr hf (compactPair (spentView (Spec.Mmr.hashes hf xs) xs removed) n0) id true = .ok s ∧
        Spec.Mmr.root hf xs = some r ∧ s.validate hf (mmr xs.length) (some b) r = .ok () ∧
        ∀ hlp other left, s.validateWith hf (mmr xs.length) (some b)
          (if left then hf.node hlp other r else hf.node hlp r other) hlp other left = .ok ()) := by
  have hne : xs ≠ [] := by
    intro h; have := fit.lo; rw [h] at this; simp at this
  obtain ⟨f, hxs, _⟩ := Co.list_as_fn xs hne
  have hhashes : Spec.Mmr.hashes hf xs = Co.allHashes hf f xs.length := by
    conv => lhs; rw [hxs]
    exact Co.spec_hashes hf f xs.length
  have hroot : Spec.Mmr.root hf xs = rootOf hf f xs.length := by
    conv => lhs; rw [hxs]
    exact Co.spec_root hf f xs.length
  have hv1 : PrunedView hf f xs.length b (spentView (Spec.Mmr.hashes hf xs) xs removed) := by
    rw [hhashes]
    have := spentView_pruned hf f xs.length b removed hN
    rwa [← hxs] at this
  constructor
  · obtain ⟨s, r, h1, h2, _, h4, h5⟩ := complete_pruned hf f xs.length b _ hv1 id fit hg (by
      intro hfull
      have hlt : lastOf id < mmr xs.length :=
        (Co.coord_lt_iff (lastLeaf_valid id)).2 (lastLeaf_lt id xs.length hfull)
      show (Spec.Mmr.hashes hf xs)[lastOf id]? ≠ none
      rw [hhashes, allHashes_hAt hf f _ _ hlt]
      simp)
    exact ⟨s, r, h1, by rw [hroot]; exact h2, h4, h5⟩
  · intro n0 hodd hn0 hb1 hb2
    have hv2 : PrunedView hf f xs.length b
        (compactPair (spentView (Spec.Mmr.hashes hf xs) xs removed) n0) := by
      rw [hhashes]
      have := spentView_compact_pruned hf f xs.length b removed hN n0 hodd hn0 hb1 hb2
      rwa [← hxs] at this
    obtain ⟨s, r, h1, h2, _, h4, h5⟩ := complete_pruned hf f xs.length b _ hv2 id fit hg (by
      intro hfull
      have hlt : lastOf id < mmr xs.length :=
        (Co.coord_lt_iff (lastLeaf_valid id)).2 (lastLeaf_lt id xs.length hfull)
      have hh : height (lastOf id) = id.height := height_lastOf id
      have hne1 : lastOf id ≠ mmr (n0 - 1) := by
        intro hc
        have := Co.height_co (n0 - 1) 0 (Nat.zero_le _)
        rw [Nat.add_zero, ← hc, hh] at this; omega
      have hne2 : lastOf id ≠ mmr n0 := by
        intro hc
        have := Co.height_co n0 0 (Nat.zero_le _)
        rw [Nat.add_zero, ← hc, hh] at this; omega
      have hc : ¬ (lastOf id = mmr (n0 - 1) ∨ lastOf id = mmr n0) := by
        intro h; rcases h with h | h
        · exact hne1 h
        · exact hne2 h
      simp only [compactPair, if_neg hc]
      show (Spec.Mmr.hashes hf xs)[lastOf id]? ≠ none
      rw [hhashes, allHashes_hAt hf f _ _ hlt]
      simp)
    exact ⟨s, r, h1, by rw [hroot]; exact h2, h4, h5⟩

end GV.Seg
