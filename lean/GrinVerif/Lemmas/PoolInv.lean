import GrinVerif.Lemmas.PoolNet
/-! The representation invariant of the transaction pool and its preservation by
`Pool::add_to_pool`, `Pool::reconcile`, `add_to_txpool`. -/
namespace GV.Pool

/-- the txpool is empty or its aggregate passes `validate_raw_tx` against the head -/
def TxpoolOK (c : Ctx) (p : Pool) : Prop :=
  p = [] ∨ ∃ a, aggregate p.txs = .ok a ∧ validateRawTx c .noLimit a = none

/-- every entry (txpool, stempool, reorg cache) passed standalone validation as a transaction -/
def AllValid (c : Ctx) (s : TxPool) : Prop :=
  ∀ e, (e ∈ s.txpool ∨ e ∈ s.stempool ∨ e ∈ s.cache) → e.tx.validate c .asTransaction = none

structure Inv (c : Ctx) (s : TxPool) : Prop where
  valid : AllValid c s
  txOK : TxpoolOK c s.txpool
  stem : NetOK (utxoIds c) (s.stempool.txs ++ s.txpool.txs)

@[simp] theorem txs_nil : Pool.txs [] = [] := rfl
@[simp] theorem txs_append (p q : Pool) : Pool.txs (p ++ q) = Pool.txs p ++ Pool.txs q := by
  simp [Pool.txs]
@[simp] theorem txs_single (e : Entry) : Pool.txs [e] = [e.tx] := rfl

theorem netOK_of_txpoolOK {c : Ctx} {p : Pool} (h : TxpoolOK c p) : NetOK (utxoIds c) p.txs := by
  rcases h with h | ⟨a, ha, hv⟩
  · subst h; exact netOK_nil _
  · exact netOK_of_aggregate ha hv

/-- a successful `Pool::add_to_pool` appends the entry, and the aggregate of everything passed
`validate_raw_tx` -/
theorem addToPool_ok {c : Ctx} {p p' : Pool} {e : Entry} {extra : Option Tx}
    (h : Pool.addToPool c p e extra = .ok p') :
    p' = p ++ [e] ∧ ∃ a, aggregate (p.txs ++ extra.toList ++ [e.tx]) = .ok a ∧ validateRawTx c .noLimit a = none := by
  unfold Pool.addToPool at h
  split at h
  · simp at h
  · split at h
    · simp at h
    · rename_i agg hagg
      split at h
      · simp at h
      · rename_i hv
        simp only [Except.ok.injEq] at h
        exact ⟨h.symm, agg, hagg, hv⟩

theorem txpoolOK_of_add {c : Ctx} {p p' : Pool} {e : Entry} (h : Pool.addToPool c p e none = .ok p') :
    p' = p ++ [e] ∧ TxpoolOK c p' := by
  obtain ⟨hp, a, ha, hv⟩ := addToPool_ok h
  refine ⟨hp, Or.inr ⟨a, ?_, hv⟩⟩
  subst hp
  simpa using ha

theorem netOK_of_add {c : Ctx} {p p' : Pool} {e : Entry} {extra : Option Tx}
    (h : Pool.addToPool c p e extra = .ok p') :
    p' = p ++ [e] ∧ NetOK (utxoIds c) (p'.txs ++ extra.toList) := by
  obtain ⟨hp, a, ha, hv⟩ := addToPool_ok h
  refine ⟨hp, ?_⟩
  subst hp
  have := netOK_of_aggregate ha hv
  simpa using netOK_perm3 _ _ _ this

theorem reconcileStep_cases (c : Ctx) (extra : Option Tx) (acc : Pool) (e : Entry) :
    reconcileStep c extra acc e = acc ∨
    (reconcileStep c extra acc e = acc ++ [e] ∧ Pool.addToPool c acc e extra = .ok (acc ++ [e])) := by
  unfold reconcileStep
  split
  · rename_i acc' h
    have := (addToPool_ok h).1
    subst this
    exact Or.inr ⟨rfl, h⟩
  · exact Or.inl rfl

theorem foldl_reconcile_txpoolOK (c : Ctx) (p acc : Pool) (h : TxpoolOK c acc) :
    TxpoolOK c (p.foldl (reconcileStep c none) acc) := by
  induction p generalizing acc with
  | nil => exact h
  | cons e rest ih =>
    simp only [List.foldl_cons]
    apply ih
    rcases reconcileStep_cases c none acc e with h1 | ⟨h1, h2⟩
    · rw [h1]; exact h
    · rw [h1]; exact (txpoolOK_of_add h2).2

theorem reconcile_txpoolOK (c : Ctx) (p : Pool) : TxpoolOK c (Pool.reconcile c p none) :=
  foldl_reconcile_txpoolOK c p [] (Or.inl rfl)

theorem foldl_reconcile_netOK (c : Ctx) (extra : Option Tx) (p acc : Pool)
    (h : acc = [] ∨ NetOK (utxoIds c) (acc.txs ++ extra.toList)) :
    (p.foldl (reconcileStep c extra) acc) = [] ∨
      NetOK (utxoIds c) ((p.foldl (reconcileStep c extra) acc).txs ++ extra.toList) := by
  induction p generalizing acc with
  | nil => exact h
  | cons e rest ih =>
    simp only [List.foldl_cons]
    apply ih
    rcases reconcileStep_cases c extra acc e with h1 | ⟨h1, h2⟩
    · rw [h1]; exact h
    · rw [h1]; exact Or.inr (netOK_of_add h2).2

theorem reconcile_netOK (c : Ctx) (extra : Option Tx) (p : Pool) :
    Pool.reconcile c p extra = [] ∨ NetOK (utxoIds c) ((Pool.reconcile c p extra).txs ++ extra.toList) :=
  foldl_reconcile_netOK c extra p [] (Or.inl rfl)

theorem foldl_reconcile_subset (c : Ctx) (extra : Option Tx) (p acc : Pool) :
    ∀ e ∈ p.foldl (reconcileStep c extra) acc, e ∈ acc ∨ e ∈ p := by
  induction p generalizing acc with
  | nil => intro e he; exact Or.inl he
  | cons x rest ih =>
    intro e he
    simp only [List.foldl_cons] at he
    rcases ih _ e he with h | h
    · rcases reconcileStep_cases c extra acc x with h1 | ⟨h1, _⟩
      · rw [h1] at h; exact Or.inl h
      · rw [h1] at h
        rcases List.mem_append.mp h with h | h
        · exact Or.inl h
        · right; simp at h; simp [h]
    · right; simp [h]

theorem reconcile_subset (c : Ctx) (extra : Option Tx) (p : Pool) : ∀ e ∈ Pool.reconcile c p extra, e ∈ p := by
  intro e he
  rcases foldl_reconcile_subset c extra p [] e he with h | h
  · simp at h
  · exact h

theorem validateRawTx_validate {c : Ctx} {w : Weighting} {a : Tx} (h : validateRawTx c w a = none) :
    a.validate c w = none := by
  unfold validateRawTx at h
  split at h
  · simp at h
  · assumption

/-- on a txpool satisfying `TxpoolOK`, `all_transactions_aggregate` succeeds -/
theorem allAggregate_txpoolOK {c : Ctx} {p : Pool} (h : TxpoolOK c p) :
    (p = [] ∧ Pool.allAggregate c p none = .ok none) ∨
    (∃ a, aggregate p.txs = .ok a ∧ Pool.allAggregate c p none = .ok (some a)) := by
  rcases h with h | ⟨a, ha, hv⟩
  · subst h; left; simp [Pool.allAggregate]
  · by_cases hp : p = []
    · subst hp; left; simp [Pool.allAggregate]
    · right
      refine ⟨a, ha, ?_⟩
      have hne : p.isEmpty = false := by cases p <;> simp_all
      simp [Pool.allAggregate, hne, ha, validateRawTx_validate hv]

/-- the stempool reconciled against the txpool aggregate is `NetOK` together with the txpool -/
theorem stem_reconciled {c : Ctx} {tp sp : Pool} {x : Option Tx} (htp : TxpoolOK c tp)
    (hx : Pool.allAggregate c tp none = .ok x) :
    NetOK (utxoIds c) ((Pool.reconcile c sp x).txs ++ tp.txs) := by
  have hx' : (tp = [] ∧ x = none) ∨ (∃ a, aggregate tp.txs = .ok a ∧ x = some a) := by
    rcases allAggregate_txpoolOK htp with ⟨h1, h2⟩ | ⟨a, h1, h2⟩
    · left; rw [h2] at hx; simp at hx; exact ⟨h1, hx.symm⟩
    · right; rw [h2] at hx; simp at hx; exact ⟨a, h1, hx.symm⟩
  rcases reconcile_netOK c x sp with h | h
  · rw [h]; simpa using netOK_of_txpoolOK htp
  · rcases hx' with ⟨h1, h2⟩ | ⟨a, h1, h2⟩
    · subst h1; subst h2; simpa using h
    · subst h2
      exact netOK_unfold_aggregate h1 (by simpa using h)

/-- `add_to_txpool`: either nothing changed, or the entry was appended to the txpool and the
invariant's state part holds from scratch -/
theorem addToTxpool_cases (c : Ctx) (s : TxPool) (e : Entry) :
    (∃ er, s.addToTxpool c e = (s, some er)) ∨
    (∃ s', s.addToTxpool c e = (s', none) ∧ s'.txpool = s.txpool ++ [e] ∧ TxpoolOK c s'.txpool ∧
      NetOK (utxoIds c) (s'.stempool.txs ++ s'.txpool.txs) ∧ (∀ x ∈ s'.stempool, x ∈ s.stempool) ∧
      s'.cache = s.cache) := by
  unfold TxPool.addToTxpool
  split
  · rename_i er _; exact Or.inl ⟨er, rfl⟩
  · rename_i tp hadd
    obtain ⟨htp, hok⟩ := txpoolOK_of_add hadd
    split
    · rename_i er hagg
      rcases allAggregate_txpoolOK hok with ⟨_, h2⟩ | ⟨a, _, h2⟩ <;> rw [h2] at hagg <;> simp at hagg
    · rename_i agg hagg
      right
      refine ⟨_, rfl, htp, hok, ?_, ?_, rfl⟩
      · exact stem_reconciled hok hagg
      · intro x hx; exact reconcile_subset c agg s.stempool x hx

end GV.Pool
