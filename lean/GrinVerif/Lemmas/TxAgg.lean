import GrinVerif.Lemmas.TxCut
/-! Lemmas about `aggregate` / `aggregateFull`, kernel-offset sums and grouping (C12). -/
namespace GV.Tx
open List

/-! ### the pieces of a list of transactions -/

def allIns (K : Keys) (txs : List Tx) : List Nat := txs.flatMap (Tx.inputsCO K)
def allOuts (txs : List Tx) : List Nat := txs.flatMap (·.outputs)
def allKers (txs : List Tx) : List Nat := txs.flatMap (·.kernels)
def allOffs (txs : List Tx) : List Nat := txs.map (·.offset)

theorem allIns_append (K : Keys) (a b : List Tx) : allIns K (a ++ b) = allIns K a ++ allIns K b := by
  simp [allIns]
theorem allOuts_append (a b : List Tx) : allOuts (a ++ b) = allOuts a ++ allOuts b := by
  simp [allOuts]
theorem allKers_append (a b : List Tx) : allKers (a ++ b) = allKers a ++ allKers b := by
  simp [allKers]
theorem allOffs_append (a b : List Tx) : allOffs (a ++ b) = allOffs a ++ allOffs b := by
  simp [allOffs]
theorem allIns_cons (K : Keys) (t : Tx) (ts : List Tx) : allIns K (t :: ts) = t.inputsCO K ++ allIns K ts := by
  simp [allIns]
theorem allOuts_cons (t : Tx) (ts : List Tx) : allOuts (t :: ts) = t.outputs ++ allOuts ts := by
  simp [allOuts]
theorem allKers_cons (t : Tx) (ts : List Tx) : allKers (t :: ts) = t.kernels ++ allKers ts := by
  simp [allKers]
theorem allOffs_cons (t : Tx) (ts : List Tx) : allOffs (t :: ts) = t.offset :: allOffs ts := by
  simp [allOffs]

theorem allIns_perm (K : Keys) {a b : List Tx} (p : a ~ b) : allIns K a ~ allIns K b := p.flatMap_right _
theorem allOuts_perm {a b : List Tx} (p : a ~ b) : allOuts a ~ allOuts b := p.flatMap_right _
theorem allKers_perm {a b : List Tx} (p : a ~ b) : allKers a ~ allKers b := p.flatMap_right _
theorem allOffs_perm {a b : List Tx} (p : a ~ b) : allOffs a ~ allOffs b := p.map _

/-! ### kernel offsets -/

theorem toSecrets_append (a b : List Nat) : toSecrets (a ++ b) = toSecrets a ++ toSecrets b := by
  simp [toSecrets]

theorem mem_toSecrets {l : List Nat} {x : Nat} : x ∈ toSecrets l ↔ x ∈ l ∧ x ≠ 0 ∧ x < N := by
  simp [toSecrets]

theorem toSecrets_sum_of_lt {l : List Nat} (h : ∀ x ∈ l, x < N) : (toSecrets l).sum = l.sum := by
  induction l with
  | nil => simp [toSecrets]
  | cons a t ih =>
    have ha : a < N := h a mem_cons_self
    have ih' := ih (fun x hx => h x (mem_cons_of_mem _ hx))
    unfold toSecrets at ih' ⊢
    by_cases h0 : a = 0
    · subst h0; simp [ih']
    · simp [h0, ha, ih']

/-- **`blind_sum_or_zero` never fails**: for all lists of scalars it is the sum modulo the group
order, zero included — the second `blind_sum` (with `ONE_KEY`) gives exactly `ONE_KEY` whenever the
first one failed, so the `Err(e)` branch of the code is unreachable. -/
theorem blindSumOrZero_eq (pos neg : List Nat) : blindSumOrZero pos neg = .ok (scalarSum pos neg) := by
  unfold blindSumOrZero secpBlindSum
  by_cases z : scalarSum pos neg = 0
  · have h1 : scalarSum (pos ++ [1]) neg = 1 := by
      unfold scalarSum at z ⊢
      simp only [sum_append, sum_cons, sum_nil, Nat.add_zero]
      simp only [N] at *
      omega
    simp [z, h1]
  · simp [z]

theorem scalarSum_nil (pos : List Nat) : scalarSum pos [] = pos.sum % N := by
  simp [scalarSum]

/-- `sum_kernel_offsets(positive, vec![])` in closed form: never an error; the "positive empty ⇒
zero" shortcut is not observable (the empty sum is zero) -/
theorem sumKernelOffsets_nil (l : List Nat) :
    sumKernelOffsets l [] = .ok ((toSecrets l).sum % N) := by
  have e : toSecrets ([] : List Nat) = [] := rfl
  simp only [sumKernelOffsets, e, blindSumOrZero_eq, scalarSum_nil, isEmpty_iff]
  by_cases h : toSecrets l = []
  · simp [h]
  · simp [h]

theorem sumKernelOffsets_perm {l₁ l₂ : List Nat} (p : l₁ ~ l₂) :
    sumKernelOffsets l₁ [] = sumKernelOffsets l₂ [] := by
  have q : toSecrets l₁ ~ toSecrets l₂ := p.filter _
  rw [sumKernelOffsets_nil, sumKernelOffsets_nil, q.sum_nat]

/-- what an offset sum looks like -/
theorem sumKernelOffsets_ok {l : List Nat} {s : Nat} (h : sumKernelOffsets l [] = .ok s) :
    s < N ∧ s = (toSecrets l).sum % N := by
  rw [sumKernelOffsets_nil] at h
  have hN : 0 < N := by decide
  cases h
  exact ⟨Nat.mod_lt _ hN, rfl⟩

theorem toSecrets_singleton_of_lt {s : Nat} (h : s < N) : toSecrets [s] = if s = 0 then [] else [s] := by
  by_cases z : s = 0
  · subst z; simp [toSecrets]
  · simp [toSecrets, z, h]

/-- a simple two-list relation (core has no `Forall₂`) -/
inductive AllRel {α β : Type} (R : α → β → Prop) : List α → List β → Prop
  | nil : AllRel R [] []
  | cons {a b as bs} : R a b → AllRel R as bs → AllRel R (a :: as) (b :: bs)

theorem AllRel.of_map {α β : Type} {R : α → β → Prop} (f : α → β) :
    ∀ (l : List α), (∀ a ∈ l, R a (f a)) → AllRel R l (l.map f)
  | [], _ => .nil
  | a :: t, h => .cons (h a mem_cons_self) (AllRel.of_map f t (fun x hx => h x (mem_cons_of_mem _ hx)))

theorem AllRel.length_eq {α β : Type} {R : α → β → Prop} {l₁ : List α} {l₂ : List β}
    (h : AllRel R l₁ l₂) : l₁.length = l₂.length := by
  induction h with
  | nil => rfl
  | cons _ _ ih => simp [ih]

/-- **offset sums nest**: summing group sums is summing everything (including the zero shortcuts
and groups whose offsets cancel to zero) -/
theorem sumKernelOffsets_groups {gs : List (List Nat)} {ss : List Nat}
    (h : AllRel (fun g s => sumKernelOffsets g [] = .ok s) gs ss) :
    sumKernelOffsets ss [] = sumKernelOffsets gs.flatten [] := by
  have key : (toSecrets ss).sum % N = (toSecrets gs.flatten).sum % N := by
    induction h with
    | nil => simp [toSecrets]
    | @cons g s gs ss hg _ ih =>
      obtain ⟨hlt, hs⟩ := sumKernelOffsets_ok hg
      have e1 : toSecrets (s :: ss) = toSecrets [s] ++ toSecrets ss := toSecrets_append [s] ss
      have e2 : toSecrets (g :: gs).flatten = toSecrets g ++ toSecrets gs.flatten := by
        rw [flatten_cons, toSecrets_append]
      rw [e1, e2, toSecrets_singleton_of_lt hlt]
      rw [sum_append, sum_append, Nat.add_mod, ih, Nat.add_mod (toSecrets g).sum]
      congr 2
      by_cases z : s = 0
      · rw [if_pos z]; rw [z] at hs; simp [← hs]
      · rw [if_neg z]; simp only [sum_cons, sum_nil, Nat.add_zero]; rw [← hs, Nat.mod_eq_of_lt hlt]
  rw [sumKernelOffsets_nil, sumKernelOffsets_nil, key]

/-! ### `aggregate` -/

theorem aggregate_of_two_le (K : Keys) {txs : List Tx} (h : 2 ≤ txs.length) :
    aggregate K txs = aggregateFull K txs := by
  match txs, h with
  | _ :: _ :: _, _ => rfl

/-- `aggregateFull` with `cut_through` opened up -/
theorem aggregateFull_eq (K : Keys) (txs : List Tx) :
    aggregateFull K txs =
      if adjDup (sortBy K.ik (merged id outCommit (allIns K txs) (allOuts txs)).ins) then .error .cutThrough
      else if adjDup (sortBy K.ok (merged id outCommit (allIns K txs) (allOuts txs)).outs) then .error .cutThrough
      else match sumKernelOffsets (allOffs txs) [] with
        | .error e => .error e
        | .ok off => .ok ⟨off, false,
            sortBy K.ik (sortBy K.ik (merged id outCommit (allIns K txs) (allOuts txs)).ins),
            sortBy K.ok (sortBy K.ok (merged id outCommit (allIns K txs) (allOuts txs)).outs),
            sortBy K.kk (allKers txs)⟩ := by
  simp only [aggregateFull, cutThrough_eq, allIns, allOuts, allKers, allOffs]
  by_cases h1 : adjDup (sortBy K.ik (merged id outCommit (flatMap (Tx.inputsCO K) txs)
      (flatMap (fun x => x.outputs) txs)).ins) = true
  · simp only [h1, if_true]
  · by_cases h2 : adjDup (sortBy K.ok (merged id outCommit (flatMap (Tx.inputsCO K) txs)
        (flatMap (fun x => x.outputs) txs)).outs) = true
    · simp [h1, h2]
    · simp [h1, h2]
      cases sumKernelOffsets (map (fun x => x.offset) txs) [] <;> rfl

/-- shape of a successful `aggregateFull` -/
theorem aggregateFull_ok {K : Keys} {txs : List Tx} {t : Tx} (h : aggregateFull K txs = .ok t) :
    adjDup (sortBy K.ik (merged id outCommit (allIns K txs) (allOuts txs)).ins) = false ∧
    adjDup (sortBy K.ok (merged id outCommit (allIns K txs) (allOuts txs)).outs) = false ∧
    sumKernelOffsets (allOffs txs) [] = .ok t.offset ∧ t.v2 = false ∧
    t.inputs = sortBy K.ik (merged id outCommit (allIns K txs) (allOuts txs)).ins ∧
    t.outputs = sortBy K.ok (merged id outCommit (allIns K txs) (allOuts txs)).outs ∧
    t.kernels = sortBy K.kk (allKers txs) := by
  rw [aggregateFull_eq] at h
  split at h; · cases h
  rename_i h1
  split at h; · cases h
  rename_i h2
  split at h
  · cases h
  · rename_i off ho
    cases h
    simp only [Bool.not_eq_true] at h1 h2
    refine ⟨h1, h2, ho, rfl, ?_, ?_, rfl⟩
    · exact sortBy_idem _ _
    · exact sortBy_idem _ _

theorem Tx.inputsCO_of_not_v2 (K : Keys) {t : Tx} (h : t.v2 = false) : t.inputsCO K = t.inputs := by
  simp [Tx.inputsCO, h]

/-- per-commitment bookkeeping of one successfully aggregated group -/
theorem aggregateFull_counts {K : Keys} {g : List Tx} {t : Tx} (h : aggregateFull K g = .ok t) (c : Nat) :
    (t.inputsCO K).count c = (allIns K g).count c - ((allOuts g).map outCommit).count c ∧
    (t.outputs.map outCommit).count c = ((allOuts g).map outCommit).count c - (allIns K g).count c := by
  obtain ⟨_, _, _, hv, hi, ho, _⟩ := aggregateFull_ok h
  rw [Tx.inputsCO_of_not_v2 K hv, hi, ho, count_sortBy,
    ((sortBy_perm K.ok _).map outCommit).count_eq]
  have m := merged_count id outCommit (allIns K g) (allOuts g) c
  simp only [map_id] at m
  exact ⟨m.1, m.2.1⟩

/-- **grouping invariant**: after aggregating every group, per commitment
`#I' + #O = #O' + #I` (primed = concatenation of the group results), i.e. the signed balance
`#I − #O` of every commitment is untouched. -/
theorem group_invariant {K : Keys} {groups : List (List Tx)} {ts : List Tx}
    (h : AllRel (fun g t => aggregateFull K g = .ok t) groups ts) (c : Nat) :
    (allIns K ts).count c + ((allOuts groups.flatten).map outCommit).count c =
      ((allOuts ts).map outCommit).count c + (allIns K groups.flatten).count c := by
  induction h with
  | nil => simp [allIns, allOuts]
  | @cons g t gs ts hg _ ih =>
    obtain ⟨h1, h2⟩ := aggregateFull_counts hg c
    rw [flatten_cons, allIns_cons, allOuts_cons, allIns_append, allOuts_append]
    simp only [map_append, count_append]
    omega

theorem group_kernels {K : Keys} {groups : List (List Tx)} {ts : List Tx}
    (h : AllRel (fun g t => aggregateFull K g = .ok t) groups ts) :
    allKers ts ~ allKers groups.flatten := by
  induction h with
  | nil => simp [allKers]
  | @cons g t gs ts hg _ ih =>
    obtain ⟨_, _, _, _, _, _, hk⟩ := aggregateFull_ok hg
    rw [flatten_cons, allKers_cons, allKers_append, hk]
    exact (sortBy_perm _ _).append ih

theorem group_offsets {K : Keys} {groups : List (List Tx)} {ts : List Tx}
    (h : AllRel (fun g t => aggregateFull K g = .ok t) groups ts) :
    AllRel (fun g s => sumKernelOffsets g [] = .ok s) (groups.map allOffs) (allOffs ts) := by
  induction h with
  | nil => exact .nil
  | @cons g t gs ts hg _ ih =>
    obtain ⟨_, _, ho, _⟩ := aggregateFull_ok hg
    exact .cons ho ih

theorem allOffs_flatten (groups : List (List Tx)) : allOffs groups.flatten = (groups.map allOffs).flatten := by
  induction groups with
  | nil => rfl
  | cons g gs ih => rw [flatten_cons, allOffs_append, ih, map_cons, flatten_cons]

theorem mem_group_outs {K : Keys} {groups : List (List Tx)} {ts : List Tx}
    (h : AllRel (fun g t => aggregateFull K g = .ok t) groups ts) {o : Nat} (ho : o ∈ allOuts ts) :
    o ∈ allOuts groups.flatten := by
  induction h with
  | nil => simp [allOuts] at ho
  | @cons g t gs ts hg _ ih =>
    obtain ⟨_, _, _, _, _, hout, _⟩ := aggregateFull_ok hg
    rw [allOuts_cons, mem_append] at ho
    rw [flatten_cons, allOuts_append, mem_append]
    rcases ho with ho | ho
    · left; rw [hout, mem_sortBy] at ho; exact mem_merged_outs ho
    · right; exact ih ho

theorem count_map_inj {f : Nat → Nat} {L l : List Nat} {x : Nat} (inj : InjOn f L)
    (hl : ∀ a ∈ l, a ∈ L) (hx : x ∈ L) : (l.map f).count (f x) = l.count x := by
  induction l with
  | nil => rfl
  | cons a t ih =>
    have ih' := ih (fun b hb => hl b (mem_cons_of_mem _ hb))
    simp only [map_cons, count_cons, ih']
    congr 1
    by_cases h : a = x
    · simp [h]
    · have : f a ≠ f x := fun e => h (inj a x (hl a mem_cons_self) hx e)
      simp [h, this]

/-- **grouped aggregation = flat aggregation** on the level of `aggregateFull` (no shortcuts):
if every group aggregates, aggregating the results gives exactly what aggregating everything at
once gives — same value or same error. Needs injective hash orders and that no two outputs share
a commitment. -/
theorem aggregateFull_groups {K : Keys} {groups : List (List Tx)} {ts : List Tx}
    (h : AllRel (fun g t => aggregateFull K g = .ok t) groups ts)
    (iI : InjOn K.ik (allIns K groups.flatten)) (iO : InjOn K.ok (allOuts groups.flatten))
    (iK : InjOn K.kk (allKers groups.flatten)) (iC : InjOn outCommit (allOuts groups.flatten)) :
    aggregateFull K ts = aggregateFull K groups.flatten := by
  have inv := group_invariant h
  have sub : ∀ o ∈ allOuts ts, o ∈ allOuts groups.flatten := fun o ho => mem_group_outs h ho
  -- kept inputs agree as multisets
  have pI : (merged id outCommit (allIns K ts) (allOuts ts)).ins ~
      (merged id outCommit (allIns K groups.flatten) (allOuts groups.flatten)).ins := by
    rw [perm_iff_count]
    intro x
    rw [merged_ins_count, merged_ins_count]
    have := inv x
    omega
  -- kept outputs agree as multisets
  have pO : (merged id outCommit (allIns K ts) (allOuts ts)).outs ~
      (merged id outCommit (allIns K groups.flatten) (allOuts groups.flatten)).outs := by
    rw [perm_iff_count]
    intro o
    rw [merged_outs_count _ _ _ (iC.of_subset sub), merged_outs_count _ _ _ iC]
    by_cases ho : o ∈ allOuts groups.flatten
    · have := inv (outCommit o)
      rw [count_map_inj iC (fun a ha => ha) ho, count_map_inj iC sub ho] at this
      omega
    · have h1 : (allOuts groups.flatten).count o = 0 := count_eq_zero.2 ho
      have h2 : (allOuts ts).count o = 0 := count_eq_zero.2 (fun hm => ho (sub o hm))
      omega
  have eI := sortBy_congr (key := K.ik) (iI.of_subset (fun a ha => mem_merged_ins ha) |>.of_perm pI.symm) pI
  have eO := sortBy_congr (key := K.ok) (iO.of_subset (fun a ha => mem_merged_outs ha) |>.of_perm pO.symm) pO
  have eK : sortBy K.kk (allKers ts) = sortBy K.kk (allKers groups.flatten) :=
    sortBy_congr (iK.of_perm (group_kernels h).symm) (group_kernels h)
  have eF : sumKernelOffsets (allOffs ts) [] = sumKernelOffsets (allOffs groups.flatten) [] := by
    rw [allOffs_flatten]
    exact sumKernelOffsets_groups (group_offsets h)
  rw [aggregateFull_eq, aggregateFull_eq, eI, eO, eK, eF]

end GV.Tx
