import GrinVerif.Model.NrdIndex
/-! Read-after-write facts of the key-value store of `Model/NrdIndex.lean`; everything else is
proved from these. -/
namespace GV.Nrd

section AL
variable {κ ν : Type} [DecidableEq κ]

theorem alGet_alDel (l : List (κ × ν)) (k k' : κ) :
    alGet (alDel l k) k' = if k = k' then none else alGet l k' := by
  induction l with
  | nil => simp [alDel, alGet]
  | cons a r ih =>
    obtain ⟨ka, va⟩ := a
    by_cases h : ka = k
    · subst h
      simp only [alDel, if_true, ih]
      by_cases h' : ka = k'
      · simp [h']
      · simp [h', alGet]
    · simp only [alDel, h, if_false, alGet, ih]
      by_cases h' : ka = k'
      · subst h'; simp; intro hk; exact absurd hk.symm h
      · simp [h']

theorem alGet_alPut (l : List (κ × ν)) (k k' : κ) (v : ν) :
    alGet (alPut l k v) k' = if k = k' then some v else alGet l k' := by
  unfold alPut
  by_cases h : k = k'
  · simp [alGet, h]
  · simp [alGet, h, alGet_alDel]

end AL

variable {ε : Type} [DecidableEq ε]

@[simp] theorem getList_putList (kv : KV ε) (e e' : ε) (w : ListWrapper) :
    (kv.putList e w).getList e' = if e = e' then some w else kv.getList e' := by
  simp [KV.putList, KV.getList, alGet_alPut]

@[simp] theorem getList_delList (kv : KV ε) (e e' : ε) :
    (kv.delList e).getList e' = if e = e' then none else kv.getList e' := by
  simp [KV.delList, KV.getList, alGet_alDel]

@[simp] theorem getList_putEntry (kv : KV ε) (e e' : ε) (p : Nat) (en : ListEntry) :
    (kv.putEntry e p en).getList e' = kv.getList e' := rfl

@[simp] theorem getList_delEntry (kv : KV ε) (e e' : ε) (p : Nat) :
    (kv.delEntry e p).getList e' = kv.getList e' := rfl

@[simp] theorem getEntry_putList (kv : KV ε) (e e' : ε) (w : ListWrapper) (p : Nat) :
    (kv.putList e w).getEntry e' p = kv.getEntry e' p := rfl

@[simp] theorem getEntry_delList (kv : KV ε) (e e' : ε) (p : Nat) :
    (kv.delList e).getEntry e' p = kv.getEntry e' p := rfl

@[simp] theorem getEntry_putEntry (kv : KV ε) (e e' : ε) (p p' : Nat) (en : ListEntry) :
    (kv.putEntry e p en).getEntry e' p' =
      if e = e' ∧ p = p' then some en else kv.getEntry e' p' := by
  simp [KV.putEntry, KV.getEntry, alGet_alPut]

@[simp] theorem getEntry_delEntry (kv : KV ε) (e e' : ε) (p p' : Nat) :
    (kv.delEntry e p).getEntry e' p' =
      if e = e' ∧ p = p' then none else kv.getEntry e' p' := by
  simp [KV.delEntry, KV.getEntry, alGet_alDel]

@[simp] theorem getList_empty (e : ε) : ({} : KV ε).getList e = none := rfl
@[simp] theorem getEntry_empty (e : ε) (p : Nat) : ({} : KV ε).getEntry e p = none := rfl

/-- the two stores hold the same records for excess `e` -/
def SameAt (kv kv' : KV ε) (e : ε) : Prop :=
  kv'.getList e = kv.getList e ∧ ∀ p, kv'.getEntry e p = kv.getEntry e p

theorem SameAt.refl (kv : KV ε) (e : ε) : SameAt kv kv e := ⟨rfl, fun _ => rfl⟩

theorem SameAt.trans {a b c : KV ε} {e : ε} (h1 : SameAt a b e) (h2 : SameAt b c e) : SameAt a c e :=
  ⟨h2.1.trans h1.1, fun p => (h2.2 p).trans (h1.2 p)⟩

/-- an operation on excess `e` leaves the records of every other excess alone -/
def Frame (kv kv' : KV ε) (e : ε) : Prop := ∀ e', e' ≠ e → SameAt kv kv' e'

theorem Frame.refl (kv : KV ε) (e : ε) : Frame kv kv e := fun e' _ => SameAt.refl kv e'

theorem Frame.trans {a b c : KV ε} {e : ε} (h1 : Frame a b e) (h2 : Frame b c e) : Frame a c e :=
  fun e' h => (h1 e' h).trans (h2 e' h)

end GV.Nrd
