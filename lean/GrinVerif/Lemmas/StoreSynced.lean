import GrinVerif.Lemmas.StoreCompactFiles
import GrinVerif.Lemmas.PmmrBranch
/-! The invariant `Synced` tying a synced prunable backend to its unpruned reference (C08): the
files hold the reference values of the surviving positions laid out by the prune list, the leaf
set is the reference's unspent set and no unspent leaf is pruned.  Under it every observable
reads the reference value (`synced_*`), and `check_compact` preserves it
(`Synced.checkCompact`).  Core Lean only. -/
namespace GV.Store
open GV GV.Pmmr GV.Pmmr.Co

/-- **the reference invariant of a synced backend.**  `N` = number of leaves of the reference
MMR (size `mmr N`), `ref p` = reference hash of position `p`, `dref p` = reference data of leaf
position `p`, `df` = the (fixed-size) data file. -/
structure Synced {H : Type} (b : Backend H) (N : Nat) (ref : Nat → H) (dref : Nat → Bytes)
    (df : AOF Bytes) : Prop where
  inv : b.pruneList.Inv
  hashClean : b.hashFile.Clean
  hashLay : b.hashFile.disk = (layout b.pruneList.bitmap (mmr N)).map ref
  data : b.dataFile = .fixed df
  dataClean : df.Clean
  dataLay : df.disk = (dataLayout b.pruneList.bitmap (mmr N)).map dref
  lsSorted : Sorted b.leafSet.bitmap
  lsClean : b.leafSet.Clean
  lsLeaf : ∀ x ∈ b.leafSet.bitmap, 1 ≤ x ∧ x ≤ mmr N ∧ height (x - 1) = 0
  unpruned : ∀ x ∈ b.leafSet.bitmap, ¬ PrunedBy b.pruneList.bitmap (x - 1)
  roots : ∀ x ∈ b.pruneList.bitmap, x ≤ mmr N
  bound : mmr N + 64 < 2 ^ 64
  pruneFile : b.pruneFile = b.pruneList.bitmap

namespace Synced
variable {H : Type} {b : Backend H} {N : Nat} {ref : Nat → H} {dref : Nat → Bytes} {df : AOF Bytes}

theorem compactPre (h : Synced b N ref dref df) {cutoff : Nat} (hc : cutoff ≤ mmr N) :
    Backend.CompactPre b (mmr N) cutoff :=
  ⟨h.inv, h.lsSorted, h.roots, hc, h.bound⟩

theorem cleanFixed (h : Synced b N ref dref df) : Backend.CleanFixed b df :=
  ⟨h.hashClean, h.data, h.dataClean, h.lsClean⟩

/-- **`check_compact` preserves the reference invariant** (same reference, same size) -/
theorem checkCompact (el : Bytes → Option Nat) (h : Synced b N ref dref df) {cutoff : Nat}
    (hc : cutoff ≤ mmr N) (rm : Bitmap) :
    ∃ df', Synced (b.checkCompact el cutoff rm) N ref dref df' := by
  have hp := h.compactPre hc
  obtain ⟨h1, h2⟩ := Backend.checkCompact_hash_layout el hp rm ref h.hashClean h.hashLay
  obtain ⟨df', d1, d2, d3⟩ := Backend.checkCompact_data_layout el hp rm dref h.data h.dataClean h.dataLay
  refine ⟨df', ⟨Backend.checkCompact_inv el b cutoff rm, h1, h2, d1, d2, d3, h.lsSorted,
    LeafSet.flush_clean _, h.lsLeaf, ?_, fun x hx => (Backend.newBm_roots hp rm x hx).2, h.bound, rfl⟩⟩
  intro x hx
  obtain ⟨x1, _, xl⟩ := h.lsLeaf x hx
  have e : x - 1 + 1 = x := by omega
  exact Backend.unspent_not_pruned hp rm h.unpruned (x - 1) (by rw [e]; exact hx) xl _ (sub_refl _)

end Synced

/-! ### reading a backend that satisfies the invariant -/

namespace Backend
variable {H : Type}

/-- `get_from_file` agrees with `get_peak_from_file` on positions that are not compacted away -/
theorem getFromFile_of_not_compacted {b : Backend H} (hinv : b.pruneList.Inv) (q : Nat)
    (hnc : compactedP b.pruneList.bitmap q = false) : b.isCompacted q = false := by
  unfold isCompacted isPruned isPrunedRoot
  split
  · rfl
  · rw [PruneList.isPruned_iff hinv, hnc]
    cases b.pruneList.isPrunedRoot q <;> rfl

end Backend

namespace Synced
variable {H : Type} {b : Backend H} {N : Nat} {ref : Nat → H} {dref : Nat → Bytes} {df : AOF Bytes}

/-- every position of the MMR that is not compacted away reads its reference hash, through
`get_peak_from_file` and through `get_from_file` -/
theorem read_hash (h : Synced b N ref dref df) (q : Nat) (hq : q < mmr N)
    (hnc : compactedP b.pruneList.bitmap q = false) :
    b.getPeakFromFile q = some (ref q) ∧ b.getFromFile q = some (ref q) := by
  have h1 := Backend.getPeakFromFile_of_layout ref (mmr N) h.inv h.hashClean h.hashLay q hq hnc
  refine ⟨h1, ?_⟩
  rw [Backend.getFromFile_eq, Backend.getFromFile_of_not_compacted h.inv q hnc]
  exact h1

/-- positions whose parent has an unspent leaf below it are not compacted away -/
theorem needed_kept (h : Synced b N ref dref df) (q : Nat) (hq : (q + 1) ∈ b.leafSet.bitmap)
    (a : Nat) (ha : Sub (family a).1 q) : compactedP b.pruneList.bitmap a = false := by
  cases hc : compactedP b.pruneList.bitmap a with
  | false => rfl
  | true =>
    have := h.unpruned (q + 1) hq
    rw [Nat.add_sub_cancel] at this
    exact absurd (prunedBy_of_sub (compactedP_iff_parent.1 hc) ha) this

theorem sub_parent_self (q : Nat) : Sub (family q).1 q :=
  (sub_family q q).2 (Or.inr (Or.inl (sub_refl q)))

theorem includes_iff {ls : LeafSet} {q : Nat} : ls.includes q = true ↔ (q + 1) ∈ ls.bitmap := by
  unfold LeafSet.includes; rw [contains_iff, Nat.add_comm]

/-- **every unspent leaf reads its reference hash and data** -/
theorem read_unspent (el : Bytes → Option Nat) (h : Synced b N ref dref df) (q : Nat)
    (hq : (q + 1) ∈ b.leafSet.bitmap) :
    b.getHash q = some (ref q) ∧ b.getData el q = some (dref q) := by
  obtain ⟨_, h2, h3⟩ := h.lsLeaf (q + 1) hq
  rw [Nat.add_sub_cancel] at h3
  have hlt : q < mmr N := by omega
  have hnc := h.needed_kept q hq q (sub_parent_self q)
  have hinc : b.leafSet.includes q = true := includes_iff.2 hq
  have hl : isLeaf q = true := (isLeaf_iff q).2 h3
  constructor
  · unfold Backend.getHash
    simp only [hl, hinc, Bool.not_true, Bool.and_false, Bool.false_eq_true, if_false]
    exact (h.read_hash q hlt hnc).2
  · unfold Backend.getData
    simp only [hl, hinc, Bool.not_true, Bool.false_eq_true, if_false]
    exact Backend.getDataFromFile_of_layout el dref (mmr N) h.inv h.data h.dataClean h.dataLay q hlt h3 hnc
      (Backend.getFromFile_of_not_compacted h.inv q hnc)

/-- **every hash on the Merkle path of an unspent leaf reads its reference value**: the leaf, its
ancestors inside the MMR and their siblings -/
theorem read_path (h : Synced b N ref dref df) (q : Nat) (hq : (q + 1) ∈ b.leafSet.bitmap)
    (a : Nat) (ha : Sub (family a).1 q) (hlt : a < mmr N) : b.getFromFile a = some (ref a) :=
  (h.read_hash a hlt (h.needed_kept q hq a ha)).2

/-- **every peak reads its reference hash** -/
theorem read_peak (h : Synced b N ref dref df) (p : Nat) (hp : p ∈ peaks (mmr N)) :
    b.getPeakFromFile p = some (ref p) ∧ b.getFromFile p = some (ref p) :=
  h.read_hash p (peaks_lt_size hp) (peak_not_compacted h.roots h.inv.pos p hp)

/-- **`unpruned_size` is the reference size** -/
theorem unprunedSize (h : Synced b N ref dref df) : b.unprunedSize = mmr N :=
  Backend.unprunedSize_of_layout (mmr N) h.inv (by rw [h.hashLay, List.length_map]) h.roots

theorem filterMap_congr_mem {α β : Type} (f g : α → Option β) (l : List α)
    (hfg : ∀ x ∈ l, f x = g x) : l.filterMap f = l.filterMap g := by
  induction l with
  | nil => rfl
  | cons a t ih =>
    simp only [List.filterMap_cons, hfg a (by simp), ih (fun x hx => hfg x (by simp [hx]))]

/-- **the root computed over the backend is the root of the unpruned reference** -/
theorem root_eq (hf : HashFn Bytes H) (h : Synced b N ref dref df) :
    PM.root hf { b := b, size := mmr N } = Pmmr.root hf ((List.range (mmr N)).map ref) := by
  unfold PM.root rootG Pmmr.root peakHashes
  simp only [List.length_map, List.length_range]
  have : (peaks (mmr N)).filterMap (PM.getPeak { b := b, size := mmr N }) =
      (peaks (mmr N)).filterMap (fun p => ((List.range (mmr N)).map ref)[p]?) := by
    apply filterMap_congr_mem
    intro p hp
    have hlt := peaks_lt_size hp
    unfold PM.getPeak guard
    simp only
    rw [if_neg (by omega), (h.read_peak p hp).1]
    simp [hlt]
  rw [this]
  split <;> rfl

end Synced
end GV.Store
