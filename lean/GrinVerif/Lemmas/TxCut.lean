import GrinVerif.Lemmas.TxSort
/-! Lemmas about the two-pointer merge `cutMerge` of `cut_through` (C12). -/
namespace GV.Tx
open List

/-- kept ++ cut is a permutation of what was handed in (no sortedness needed) -/
theorem cutMerge_perm (ca cb : Nat → Nat) (xs ys : List Nat) :
    ((cutMerge ca cb xs ys).ins ++ (cutMerge ca cb xs ys).cutIns ~ xs) ∧
    ((cutMerge ca cb xs ys).outs ++ (cutMerge ca cb xs ys).cutOuts ~ ys) := by
  fun_induction cutMerge ca cb xs ys with
  | case1 ys => simp
  | case2 x xs => simp
  | case3 x xs y ys h r ih => exact ⟨by simpa using ih.1, ih.2⟩
  | case4 x xs y ys h1 h2 r ih => exact ⟨ih.1, by simpa using ih.2⟩
  | case5 x xs y ys h1 h2 r ih =>
    constructor
    · exact (perm_middle).trans (ih.1.cons x)
    · exact (perm_middle).trans (ih.2.cons y)

/-- the two cut slices pair up: same commitments in the same order -/
theorem cutMerge_cut_keys (ca cb : Nat → Nat) (xs ys : List Nat) :
    (cutMerge ca cb xs ys).cutIns.map ca = (cutMerge ca cb xs ys).cutOuts.map cb := by
  fun_induction cutMerge ca cb xs ys with
  | case1 ys => simp
  | case2 x xs => simp
  | case3 x xs y ys h r ih => exact ih
  | case4 x xs y ys h1 h2 r ih => exact ih
  | case5 x xs y ys h1 h2 r ih =>
    have : ca x = cb y := by omega
    simp only [map_cons, this]
    exact congrArg _ ih

theorem mem_of_mem_cutMerge_ins {ca cb xs ys a} (h : a ∈ (cutMerge ca cb xs ys).ins) : a ∈ xs :=
  (cutMerge_perm ca cb xs ys).1.mem_iff.1 (mem_append_left _ h)

theorem mem_of_mem_cutMerge_outs {ca cb xs ys a} (h : a ∈ (cutMerge ca cb xs ys).outs) : a ∈ ys :=
  (cutMerge_perm ca cb xs ys).2.mem_iff.1 (mem_append_left _ h)

/-- on commitment-sorted slices nothing that is kept on one side has a partner kept on the other -/
theorem cutMerge_disjoint (ca cb : Nat → Nat) (xs ys : List Nat)
    (sx : xs.Pairwise (KeyLe ca)) (sy : ys.Pairwise (KeyLe cb)) :
    ∀ a ∈ (cutMerge ca cb xs ys).ins, ∀ b ∈ (cutMerge ca cb xs ys).outs, ca a ≠ cb b := by
  fun_induction cutMerge ca cb xs ys with
  | case1 ys => simp
  | case2 x xs => simp
  | case3 x xs y ys h r ih =>
    intro a ha b hb
    have hb' : b ∈ y :: ys := mem_of_mem_cutMerge_outs hb
    rcases mem_cons.1 ha with rfl | ha
    · have : cb y ≤ cb b := by
        rcases mem_cons.1 hb' with rfl | hb''
        · exact Nat.le_refl _
        · exact (pairwise_cons.1 sy).1 b hb''
      omega
    · exact ih (pairwise_cons.1 sx).2 sy a ha b hb
  | case4 x xs y ys h1 h2 r ih =>
    intro a ha b hb
    have ha' : a ∈ x :: xs := mem_of_mem_cutMerge_ins ha
    rcases mem_cons.1 hb with rfl | hb
    · have : ca x ≤ ca a := by
        rcases mem_cons.1 ha' with rfl | ha''
        · exact Nat.le_refl _
        · exact (pairwise_cons.1 sx).1 a ha''
      omega
    · exact ih sx (pairwise_cons.1 sy).2 a ha b hb
  | case5 x xs y ys h1 h2 r ih =>
    exact ih (pairwise_cons.1 sx).2 (pairwise_cons.1 sy).2

/-- count form of the merge: on commitment-sorted slices the kept inputs are `I − O`, the kept
outputs `O − I` (truncated multiset difference on commitments) and the cut ones `I ∩ O` -/
theorem cutMerge_count (ca cb : Nat → Nat) (xs ys : List Nat)
    (sx : xs.Pairwise (KeyLe ca)) (sy : ys.Pairwise (KeyLe cb)) (c : Nat) :
    ((cutMerge ca cb xs ys).ins.map ca).count c = (xs.map ca).count c - (ys.map cb).count c ∧
    ((cutMerge ca cb xs ys).outs.map cb).count c = (ys.map cb).count c - (xs.map ca).count c ∧
    ((cutMerge ca cb xs ys).cutIns.map ca).count c = min ((xs.map ca).count c) ((ys.map cb).count c) := by
  have p := cutMerge_perm ca cb xs ys
  have k := cutMerge_cut_keys ca cb xs ys
  have d := cutMerge_disjoint ca cb xs ys sx sy
  have e1 := (p.1.map ca).count_eq c
  have e2 := (p.2.map cb).count_eq c
  simp only [map_append, count_append] at e1 e2
  rw [k] at e1
  have dis : ((cutMerge ca cb xs ys).ins.map ca).count c = 0 ∨
      ((cutMerge ca cb xs ys).outs.map cb).count c = 0 := by
    by_cases h : c ∈ (cutMerge ca cb xs ys).ins.map ca
    · right
      apply count_eq_zero.2
      intro h'
      obtain ⟨a, ha, rfl⟩ := mem_map.1 h
      obtain ⟨b, hb, e⟩ := mem_map.1 h'
      exact d a ha b hb e.symm
    · left; exact count_eq_zero.2 h
  rw [k]
  omega


/-! ### `cut_through` as a whole -/

/-- the merge applied to the commitment-sorted slices -/
def merged (ca cb : Nat → Nat) (ins outs : List Nat) : Cut :=
  cutMerge ca cb (sortBy ca ins) (sortBy cb outs)

theorem cutThrough_eq (ca cb ka kb : Nat → Nat) (ins outs : List Nat) :
    cutThrough ca cb ka kb ins outs =
      if adjDup (sortBy ka (merged ca cb ins outs).ins) then .error .cutThrough
      else if adjDup (sortBy kb (merged ca cb ins outs).outs) then .error .cutThrough
      else .ok ⟨sortBy ka (merged ca cb ins outs).ins, sortBy kb (merged ca cb ins outs).outs,
                sortBy ka (merged ca cb ins outs).cutIns, sortBy kb (merged ca cb ins outs).cutOuts⟩ := rfl

theorem merged_perm (ca cb : Nat → Nat) (ins outs : List Nat) :
    ((merged ca cb ins outs).ins ++ (merged ca cb ins outs).cutIns ~ ins) ∧
    ((merged ca cb ins outs).outs ++ (merged ca cb ins outs).cutOuts ~ outs) :=
  ⟨(cutMerge_perm ca cb _ _).1.trans (sortBy_perm ca ins), (cutMerge_perm ca cb _ _).2.trans (sortBy_perm cb outs)⟩

theorem mem_merged_ins {ca cb ins outs a} (h : a ∈ (merged ca cb ins outs).ins) : a ∈ ins :=
  (merged_perm ca cb ins outs).1.mem_iff.1 (mem_append_left _ h)

theorem mem_merged_outs {ca cb ins outs a} (h : a ∈ (merged ca cb ins outs).outs) : a ∈ outs :=
  (merged_perm ca cb ins outs).2.mem_iff.1 (mem_append_left _ h)

theorem merged_count (ca cb : Nat → Nat) (ins outs : List Nat) (c : Nat) :
    ((merged ca cb ins outs).ins.map ca).count c = (ins.map ca).count c - (outs.map cb).count c ∧
    ((merged ca cb ins outs).outs.map cb).count c = (outs.map cb).count c - (ins.map ca).count c ∧
    ((merged ca cb ins outs).cutIns.map ca).count c = min ((ins.map ca).count c) ((outs.map cb).count c) := by
  have h := cutMerge_count ca cb (sortBy ca ins) (sortBy cb outs) (sortBy_sorted ca ins) (sortBy_sorted cb outs) c
  have e1 := ((sortBy_perm ca ins).map ca).count_eq c
  have e2 := ((sortBy_perm cb outs).map cb).count_eq c
  rw [e1, e2] at h
  exact h

/-- element-level count of the kept inputs when inputs are their own commitment (`ca = id`) -/
theorem merged_ins_count (cb : Nat → Nat) (ins outs : List Nat) (x : Nat) :
    (merged id cb ins outs).ins.count x = ins.count x - (outs.map cb).count x := by
  have := (merged_count id cb ins outs x).1
  simpa using this

/-- element-level count of the kept outputs when no two outputs share a commitment -/
theorem merged_outs_count (cb : Nat → Nat) (ins outs : List Nat) (inj : InjOn cb outs) (o : Nat) :
    (merged id cb ins outs).outs.count o = outs.count o - ins.count (cb o) := by
  have h := (merged_count id cb ins outs (cb o)).2.1
  simp only [map_id] at h
  have injK : InjOn cb (merged id cb ins outs).outs := inj.of_subset (fun a ha => mem_merged_outs ha)
  by_cases hk : o ∈ (merged id cb ins outs).outs
  · rw [count_map_of_injOn hk injK, count_map_of_injOn (mem_merged_outs hk) inj] at h
    exact h
  · rw [count_eq_zero.2 hk]
    by_cases ho : o ∈ outs
    · have hz : ((merged id cb ins outs).outs.map cb).count (cb o) = 0 := by
        apply count_eq_zero.2
        intro hm
        obtain ⟨o', ho', e⟩ := mem_map.1 hm
        exact hk (inj o' o (mem_merged_outs ho') ho e ▸ ho')
      rw [hz, count_map_of_injOn ho inj] at h
      omega
    · rw [count_eq_zero.2 ho]; omega

end GV.Tx
