import GrinVerif.Lemmas.NrdPath
/-! The header walk of `verify_kernel_pos_index` assigns every kernel the height of the block it
belongs to: `verifyWalk` over the flattened kernels = `applyBlocks` over the blocks. -/
namespace GV.Nrd
variable {ε : Type} [DecidableEq ε]
set_option linter.unusedSectionVars false

/-- state of the walk while the kernels of block `b` (first of the remaining path, sizes before it
at most `c`) are being read: either the current header is still at or below `c` with only headers
of size ≤ `c` between it and `b`'s, or it is `b`'s header -/
def WalkAt (b : Blk ε) (c : Nat) (rest : List (Nat × Nat)) (cur : Nat × Nat) (later : List (Nat × Nat)) : Prop :=
  (cur.2 ≤ c ∧ ∃ pre, later = pre ++ b.hdr :: rest ∧ ∀ h ∈ pre, h.2 ≤ c) ∨ (cur = b.hdr ∧ later = rest)

theorem advanceHeader_skip (cur : Nat × Nat) (pre : List (Nat × Nat)) (h : Nat × Nat)
    (rest : List (Nat × Nat)) (pos c : Nat) (hc : cur.2 ≤ c) (hpre : ∀ x ∈ pre, x.2 ≤ c) (hpos : c < pos)
    (hle : pos ≤ h.2) : advanceHeader cur (pre ++ h :: rest) pos = some (h, rest) := by
  induction pre generalizing cur with
  | nil =>
    have h1 : pos > cur.2 := by omega
    have h2 : ¬ pos > h.2 := by omega
    cases rest with
    | nil => simp [advanceHeader, h1, h2]
    | cons r rs => simp [advanceHeader, h1, h2]
  | cons p pre ih =>
    have h1 : pos > cur.2 := by omega
    simp only [List.cons_append, advanceHeader, h1, if_true]
    exact ih p (hpre p (by simp)) (fun x hx => hpre x (List.mem_cons_of_mem _ hx))

theorem advanceHeader_stay (cur : Nat × Nat) (later : List (Nat × Nat)) (pos : Nat) (hle : pos ≤ cur.2) :
    advanceHeader cur later pos = some (cur, later) := by
  have h2 : ¬ pos > cur.2 := by omega
  cases later <;> simp [advanceHeader, h2]

theorem WalkAt.advance {b : Blk ε} {c : Nat} {rest : List (Nat × Nat)} {cur : Nat × Nat}
    {later : List (Nat × Nat)} (h : WalkAt b c rest cur later) (pos : Nat) (hpos : c < pos)
    (hle : pos ≤ b.size) : advanceHeader cur later pos = some (b.hdr, rest) := by
  rcases h with ⟨hc, pre, rfl, hpre⟩ | ⟨rfl, rfl⟩
  · exact advanceHeader_skip cur pre b.hdr rest pos c hc hpre hpos hle
  · exact advanceHeader_stay _ _ _ hle

/-- reading the kernels `ks` of block `b` -/
theorem verifyWalk_block (b : Blk ε) (c : Nat) (rest : List (Nat × Nat)) (ks more : List (Kernel ε × Nat))
    (hk : ∀ kp ∈ ks, c < kp.2 ∧ kp.2 ≤ b.size) (kv : KV ε) (cur : Nat × Nat) (later : List (Nat × Nat))
    (hw : WalkAt b c rest cur later) :
    ∃ cur' later', WalkAt b c rest cur' later' ∧
      verifyWalk kv cur later (ks ++ more) =
        match applyKernels kv b.height ks with
        | ⟨kv', .error err⟩ => ⟨kv', .error err⟩
        | ⟨kv', .ok _⟩ => verifyWalk kv' cur' later' more := by
  induction ks generalizing kv cur later with
  | nil => exact ⟨cur, later, hw, rfl⟩
  | cons kp ks ih =>
    obtain ⟨k, pos⟩ := kp
    have hk' : ∀ kp ∈ ks, c < kp.2 ∧ kp.2 ≤ b.size := fun kp hm => hk kp (List.mem_cons_of_mem _ hm)
    cases hn : k.nrd with
    | none =>
      obtain ⟨cur', later', hw', heq⟩ := ih hk' kv cur later hw
      refine ⟨cur', later', hw', ?_⟩
      simp only [List.cons_append, verifyWalk, hn, applyKernels, applyKernelRules]
      exact heq
    | some rel =>
      have hp := hk (k, pos) (by simp)
      have hadv := hw.advance pos hp.1 hp.2
      simp only [List.cons_append, verifyWalk, hn, hadv, applyKernels]
      have hh : b.hdr.1 = b.height := rfl
      rw [hh]
      generalize applyKernelRules kv k ⟨pos, b.height⟩ = o
      obtain ⟨kv1, r1⟩ := o
      cases r1 with
      | error err => exact ⟨cur, later, hw, rfl⟩
      | ok u => exact ih hk' kv1 b.hdr rest (Or.inr ⟨rfl, rfl⟩)

/-- state of the walk between blocks: the current header's size is at most `c`, and so are the
sizes of the headers before those of the remaining path `bs` -/
def WalkInv (c : Nat) (cur : Nat × Nat) (later : List (Nat × Nat)) (bs : List (Blk ε)) : Prop :=
  cur.2 ≤ c ∧ ∃ pre, later = pre ++ bs.map Blk.hdr ∧ ∀ h ∈ pre, h.2 ≤ c

theorem verifyWalk_blocks (bs : List (Blk ε)) (c : Nat) (hp : PathOK c bs) (kv : KV ε) (cur : Nat × Nat)
    (later : List (Nat × Nat)) (hw : WalkInv c cur later bs) :
    verifyWalk kv cur later (bs.flatMap (·.kernels)) = applyBlocks kv bs := by
  induction bs generalizing kv cur later c with
  | nil => rfl
  | cons b bs ih =>
    obtain ⟨p1, p2, p3, p4⟩ := hp
    obtain ⟨hc, pre, hl, hpre⟩ := hw
    have hat : WalkAt b c (bs.map Blk.hdr) cur later := Or.inl ⟨hc, pre, by simpa using hl, hpre⟩
    obtain ⟨cur', later', hw', heq⟩ :=
      verifyWalk_block b c (bs.map Blk.hdr) b.kernels (bs.flatMap (·.kernels)) p2 kv cur later hat
    simp only [List.flatMap_cons, heq, applyBlocks, applyBlock]
    generalize applyKernels kv b.height b.kernels = o
    obtain ⟨kv1, r1⟩ := o
    cases r1 with
    | error err => rfl
    | ok u =>
      refine ih b.size p4 kv1 cur' later' ?_
      rcases hw' with ⟨hc', pre', hl', hpre'⟩ | ⟨rfl, rfl⟩
      · refine ⟨Nat.le_trans hc' p3, pre' ++ [b.hdr], by simp [hl'], ?_⟩
        intro h hh
        rcases List.mem_append.mp hh with hh | hh
        · exact Nat.le_trans (hpre' h hh) p3
        · simp at hh; subst hh; exact Nat.le_refl _
      · exact ⟨Nat.le_refl _, [], by simp, fun _ hh => by cases hh⟩

/-- **the header walk is the block membership**: `verify_kernel_pos_index` started at
`from_header` = header of the first block of `b :: bs`, over all kernels from there on, does what
`verifyKernelPosIndex` does on the blocks -/
theorem verifyKernelPosIndexWalk_eq (kv : KV ε) (b : Blk ε) (bs : List (Blk ε)) (c : Nat)
    (hp : PathOK c (b :: bs)) :
    verifyKernelPosIndexWalk kv b.hdr (bs.map Blk.hdr) ((b :: bs).flatMap (·.kernels)) =
      verifyKernelPosIndex kv (b :: bs) := by
  unfold verifyKernelPosIndexWalk verifyKernelPosIndex
  -- reading block `b` starts with the current header already `b`'s
  obtain ⟨p1, p2, p3, p4⟩ := hp
  obtain ⟨cur', later', hw', heq⟩ :=
    verifyWalk_block b c (bs.map Blk.hdr) b.kernels (bs.flatMap (·.kernels)) p2 (clear kv).kv b.hdr
      (bs.map Blk.hdr) (Or.inr ⟨rfl, rfl⟩)
  simp only [List.flatMap_cons, heq, applyBlocks, applyBlock]
  generalize applyKernels (clear kv).kv b.height b.kernels = o
  obtain ⟨kv1, r1⟩ := o
  cases r1 with
  | error err => rfl
  | ok u =>
    refine verifyWalk_blocks bs b.size p4 kv1 cur' later' ?_
    rcases hw' with ⟨hc', pre', hl', hpre'⟩ | ⟨rfl, rfl⟩
    · refine ⟨Nat.le_trans hc' p3, pre' ++ [b.hdr], by simp [hl'], ?_⟩
      intro h hh
      rcases List.mem_append.mp hh with hh | hh
      · exact Nat.le_trans (hpre' h hh) p3
      · simp at hh; subst hh; exact Nat.le_refl _
    · exact ⟨Nat.le_refl _, [], by simp, fun _ hh => by cases hh⟩

end GV.Nrd
