import GrinVerif.Lemmas.ChainRun
/-! Node invariants and their preservation: `HeadMax`, `StoredClosed`. -/
namespace GV.Chain

theorem KnownFull_congr {n m : Node} (hb : n.blks = m.blks) (hh : n.head = m.head)
    (hs : n.stored = m.stored) (b : Blk) : KnownFull n b ↔ KnownFull m b := by
  simp [KnownFull, parentOf_congr hb, hh, hs]

/-- the effect of one processing step on head and block store: nothing (an error), or the block
passed every check against the replayed state of its own parent — a function of the definitions
only — and was appended to the store, becoming head exactly when it has more work -/
theorem processBlockSingle_core (p : Params) (n : Node) (b : Blk) :
    ((processBlockSingle p n b).1.head = n.head ∧ (processBlockSingle p n b).1.stored = n.stored ∧
      ∃ e, (processBlockSingle p n b).2 = .err e) ∨
    (∃ par s', b.parent = some par ∧ (par = n.head ∨ par ∈ n.stored) ∧ ¬ KnownFull n b ∧
      checkBlock p n b par = .ok s' ∧
      (processBlockSingle p n b).1.stored = n.stored ++ [b.id] ∧
      (((processBlockSingle p n b).1.head = n.head ∧ ¬ b.work > n.workOf n.head ∧
          (processBlockSingle p n b).2 = .okFork) ∨
       ((processBlockSingle p n b).1.head = b.id ∧ b.work > n.workOf n.head ∧
          (processBlockSingle p n b).2 = .okHead))) := by
  rcases processBlockSingle_cases p n b with ⟨e, he, hh, hs⟩ | ⟨n1, par, s', h1, h2, h3, h4⟩
  · left; exact ⟨hh, hs, e, he⟩
  · right
    have hf := processHeader_frame p n n1 b h1
    obtain ⟨hpar, hp, hk⟩ := precheck_go n1 b par h2
    refine ⟨par, s', hpar, ?_, ?_, ?_, ?_, ?_⟩
    · rw [← hf.1, ← hf.2.1]; exact hp
    · exact fun h => hk ((KnownFull_congr hf.2.2.1 hf.1 hf.2.1 b).mpr h)
    · rw [← checkBlock_congr hf.2.2.2.2 hf.2.2.1]; exact h3
    · rw [h4, storeBlock_stored, hf.2.1]
    · rw [h4]
      have hw : n1.workOf n1.head = n.workOf n.head := by rw [workOf_congr hf.2.2.1, hf.1]
      rcases storeBlock_head n1 b with ⟨a, r, c⟩ | ⟨a, r, c⟩
      · left; exact ⟨a.trans hf.1, hw ▸ c, r⟩
      · right; exact ⟨a, hw ▸ c, r⟩

/-- the head has the greatest cumulative work among stored blocks -/
def HeadMax (n : Node) : Prop := ∀ s ∈ n.stored, n.workOf s ≤ n.workOf n.head

/-- genesis and head are stored, and every stored block's parent is stored -/
structure StoredClosed (n : Node) : Prop where
  zero : 0 ∈ n.stored
  head : n.head ∈ n.stored
  parent : ∀ s ∈ n.stored, ∀ b par, n.blk s = some b → b.parent = some par → par ∈ n.stored

theorem preserved_headMax (p : Params) : Preserved p HeadMax where
  single := by
    intro n b hb inv
    have hd := processBlockSingle_defs p n b
    have hbw : n.workOf b.id = b.work := by simp [Node.workOf, hb]
    intro s hs
    rw [workOf_congr hd.1, workOf_congr hd.1]
    rcases processBlockSingle_core p n b with ⟨hh, hst, _⟩ | ⟨par, s', _, _, _, _, hst, hc⟩
    · rw [hh]; rw [hst] at hs; exact inv s hs
    · rw [hst] at hs
      rcases List.mem_append.mp hs with h | h
      · have := inv s h
        rcases hc with ⟨a, c, _⟩ | ⟨a, c, _⟩
        · rw [a]; exact this
        · rw [a, hbw]; omega
      · have : s = b.id := by simpa using h
        subst this
        rcases hc with ⟨a, c, _⟩ | ⟨a, c, _⟩
        · rw [a, hbw]; omega
        · rw [a]; exact Nat.le_refl _
  orphans := by intro n os h; exact h
  header := by
    intro n b n' _ hn h
    have hf := processHeader_frame p n n' b hn
    intro s hs
    rw [workOf_congr hf.2.2.1, workOf_congr hf.2.2.1, hf.1]
    exact h s (hf.2.1 ▸ hs)

theorem preserved_storedClosed (p : Params) : Preserved p StoredClosed where
  single := by
    intro n b hb inv
    have hd := processBlockSingle_defs p n b
    rcases processBlockSingle_core p n b with ⟨hh, hst, _⟩ | ⟨par, s', hpar, hp, _, _, hst, hc⟩
    · exact ⟨hst ▸ inv.zero, by rw [hh, hst]; exact inv.head, by
        intro s hs b' par' hb' hp'
        rw [hst] at hs ⊢
        rw [blk_congr hd.1] at hb'
        exact inv.parent s hs b' par' hb' hp'⟩
    · have hps : par ∈ n.stored := by
        rcases hp with h | h
        · exact h ▸ inv.head
        · exact h
      refine ⟨?_, ?_, ?_⟩
      · rw [hst]; exact List.mem_append_left _ inv.zero
      · rw [hst]
        rcases hc with ⟨a, _, _⟩ | ⟨a, _, _⟩
        · rw [a]; exact List.mem_append_left _ inv.head
        · rw [a]; simp
      · intro s hs b' par' hb' hp'
        rw [hst] at hs ⊢
        rw [blk_congr hd.1] at hb'
        rcases List.mem_append.mp hs with h | h
        · exact List.mem_append_left _ (inv.parent s h b' par' hb' hp')
        · have : s = b.id := by simpa using h
          subst this
          rw [hb] at hb'
          cases hb'
          rw [hpar] at hp'
          cases hp'
          exact List.mem_append_left _ hps
  orphans := by intro n os h; exact ⟨h.zero, h.head, h.parent⟩
  header := by
    intro n b n' _ hn h
    have hf := processHeader_frame p n n' b hn
    refine ⟨hf.2.1 ▸ h.zero, by rw [hf.1, hf.2.1]; exact h.head, ?_⟩
    intro s hs b' par' hb' hp'
    rw [hf.2.1] at hs ⊢
    rw [blk_congr hf.2.2.1] at hb'
    exact h.parent s hs b' par' hb' hp'

/-- the initial node satisfies both invariants -/
theorem headMax_init (outs : List OutDef) (blks : List Blk) :
    HeadMax { outs := outs, blks := blks } := by
  intro s hs
  have : s = 0 := by simpa using hs
  subst this
  exact Nat.le_refl _

theorem storedClosed_init (outs : List OutDef) (blks : List Blk)
    (hg : ∀ g, ({ outs := outs, blks := blks } : Node).blk 0 = some g → g.parent = none) :
    StoredClosed { outs := outs, blks := blks } := by
  refine ⟨by simp, by simp, ?_⟩
  intro s hs b par hb hp
  have : s = 0 := by simpa using hs
  subst this
  rw [hg b hb] at hp
  cases hp

/-! ### the head only moves up -/

/-- the block registered under `id` passed `checkBlock` against its own parent's replayed state -/
def PassedCheck (p : Params) (n : Node) (id : Nat) : Prop :=
  ∃ b par s', n.blk id = some b ∧ b.parent = some par ∧ checkBlock p n b par = .ok s'

theorem PassedCheck_congr {n m : Node} (ho : n.outs = m.outs) (hb : n.blks = m.blks) (p : Params)
    (id : Nat) : PassedCheck p n id ↔ PassedCheck p m id := by
  simp [PassedCheck, blk_congr hb, checkBlock_congr ho hb]

/-- from `n` to `n'` the head's work did not decrease, and if the head changed it went to a block
with strictly more work that passed `checkBlock` -/
def HeadStep (p : Params) (n n' : Node) : Prop :=
  n.workOf n.head ≤ n.workOf n'.head ∧
  (n'.head ≠ n.head → n.workOf n.head < n.workOf n'.head ∧ PassedCheck p n n'.head)

theorem HeadStep.refl (p : Params) (n : Node) : HeadStep p n n :=
  ⟨Nat.le_refl _, fun h => absurd rfl h⟩

theorem HeadStep.trans {p : Params} {a b c : Node} (hbo : b.outs = a.outs) (hbb : b.blks = a.blks)
    (h1 : HeadStep p a b) (h2 : HeadStep p b c) : HeadStep p a c := by
  have hw : ∀ x, b.workOf x = a.workOf x := workOf_congr hbb
  obtain ⟨l1, c1⟩ := h1
  obtain ⟨l2, c2⟩ := h2
  rw [hw, hw] at l2
  refine ⟨Nat.le_trans l1 l2, ?_⟩
  intro hne
  by_cases hcb : c.head = b.head
  · rw [hcb] at hne ⊢
    exact c1 hne
  · obtain ⟨lt, pc⟩ := c2 hcb
    rw [hw, hw] at lt
    exact ⟨Nat.lt_of_le_of_lt l1 lt, (PassedCheck_congr hbo hbb p _).mp pc⟩

theorem processBlockSingle_headStep (p : Params) (n : Node) (b : Blk) (hb : n.blk b.id = some b) :
    HeadStep p n (processBlockSingle p n b).1 := by
  have hbw : n.workOf b.id = b.work := by simp [Node.workOf, hb]
  rcases processBlockSingle_core p n b with ⟨hh, _, _⟩ | ⟨par, s', hpar, _, _, hc, _, hd⟩
  · rw [HeadStep, hh]; exact ⟨Nat.le_refl _, fun h => absurd rfl h⟩
  · rcases hd with ⟨a, _, _⟩ | ⟨a, c, _⟩
    · rw [HeadStep, a]; exact ⟨Nat.le_refl _, fun h => absurd rfl h⟩
    · rw [HeadStep, a, hbw]
      exact ⟨by omega, fun _ => ⟨c, b, par, s', hb, hpar, hc⟩⟩

theorem preserved_headStep (p : Params) (n : Node) :
    Preserved p (fun m => (m.blks = n.blks ∧ m.outs = n.outs) ∧ HeadStep p n m) where
  single := by
    intro m b hb h
    have hd := processBlockSingle_defs p m b
    refine ⟨⟨hd.1.trans h.1.1, hd.2.trans h.1.2⟩, ?_⟩
    exact HeadStep.trans h.1.2 h.1.1 h.2 (processBlockSingle_headStep p m b hb)
  orphans := by intro m os h; exact h
  header := by
    intro m b m' _ hm h
    have hf := processHeader_frame p m m' b hm
    refine ⟨⟨hf.2.2.1.trans h.1.1, hf.2.2.2.2.trans h.1.2⟩, ?_⟩
    unfold HeadStep at *
    rw [hf.1]; exact h.2


end GV.Chain
