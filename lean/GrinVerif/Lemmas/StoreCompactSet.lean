import GrinVerif.Lemmas.PruneListSet
/-! What `pos_to_rm` computes (C08, gap (2)): the positions `check_compact` removes from the
hash file are exactly the positions that the new prune list compacts away and the old one did
not.  `P0` = leaves pruned once the leaves `M` are added; `NewP` = positions that become fully
pruned (all leaves pruned, not pruned before); `ESpec` = what the `expanded` bitmap of
`pos_to_rm` holds.  Core Lean only. -/
namespace GV.Store
open GV GV.Pmmr

/-- leaf `l` is pruned by the old roots `bm` or is one of the newly removed leaves (`M`, 1-based) -/
def P0 (bm : List Nat) (M : Nat → Prop) (l : Nat) : Prop := PrunedBy bm l ∨ M (l + 1)

/-- `q` becomes fully pruned: all its leaves are pruned now, and it was not pruned before -/
def NewP (bm : List Nat) (M : Nat → Prop) (q : Nat) : Prop := Full (P0 bm M) q ∧ ¬ PrunedBy bm q

/-- content of `expanded`: the newly fully pruned positions and the old roots whose parent is
newly fully pruned (1-based) -/
def ESpec (bm : List Nat) (N : Nat → Prop) (y : Nat) : Prop :=
  1 ≤ y ∧ (N (y - 1) ∨ (y ∈ bm ∧ N (family (y - 1)).1))

theorem espec_congr {bm : List Nat} {N N' : Nat → Prop} (h : ∀ q, N q ↔ N' q) (y : Nat) :
    ESpec bm N y ↔ ESpec bm N' y := by
  unfold ESpec; rw [h, h]

theorem newP_congr {bm : List Nat} {M M' : Nat → Prop} (h : ∀ x, M x ↔ M' x) (q : Nat) :
    NewP bm M q ↔ NewP bm M' q := by
  unfold NewP
  rw [full_congr (S := P0 bm M) (T := P0 bm M') (fun l _ => by unfold P0; rw [h])]

/-- the rightmost leaf of a subtree: `p - height p` -/
theorem rightmost_leaf : ∀ (h p : Nat), height p = h → height (p - h) = 0 ∧ Sub p (p - h) := by
  intro h
  induction h with
  | zero => intro p hp; exact ⟨by simpa using hp, sub_refl p⟩
  | succ n ih =>
    intro p hp
    obtain ⟨c0, c1, _, _, _⟩ := children p n hp
    have hpos : 0 < 2 ^ n := Nat.pow_pos (by omega)
    obtain ⟨i1, i2⟩ := ih (p - 1) c1
    have e : p - 1 - n = p - (n + 1) := by omega
    rw [e] at i1 i2
    exact ⟨i1, (sub_of_children hp (Or.inr i2)).1⟩

theorem add_lt_two_pow (h : Nat) (hh : 64 ≤ h) : 2 ^ 64 + h < 2 * 2 ^ h := by
  have h1 : 2 ^ 64 ≤ 2 ^ h := Nat.pow_le_pow_right (by omega) hh
  have h2 : h < 2 ^ h := Nat.lt_two_pow_self
  omega

/-- a position all of whose leaves are below `2^64 − 64` has height below 64 -/
theorem height_lt_of_leaf_bound {p : Nat} (hl : p - height p + 64 < 2 ^ 64) : height p < 64 := by
  apply Classical.byContradiction
  intro hc
  have h1 := add_lt_two_pow (height p) (by omega)
  have h2 := height_bound p
  omega

namespace Backend

/-- the loop invariant of `expandLoop` for the leaf `x` (1-based) at the ancestor `c`: what the
bitmap holds so far -/
def NAt (bm : List Nat) (M : Nat → Prop) (x c : Nat) (q : Nat) : Prop :=
  NewP bm M q ∨ (Sub q (x - 1) ∧ q ≤ c)

variable {pl : PruneList}

/-- **the inner loop of `pos_to_rm`** climbs from a newly removed leaf exactly as far as the
ancestors are fully pruned, adding them and their already pruned siblings -/
theorem expandLoop_spec (hinv : pl.Inv) (M : Nat → Prop) (x : Nat) (hx1 : 1 ≤ x)
    (hxM : ¬ M x) (hxl : height (x - 1) = 0) (hxp : ¬ PrunedBy pl.bitmap (x - 1))
    (hB : ∀ l, P0 pl.bitmap (fun y => M y ∨ y = x) l → l + 64 < 2 ^ 64) :
    ∀ (fuel : Nat) (E : Bitmap) (cur : Nat), 1 ≤ cur → Sub (cur - 1) (x - 1) →
      Full (P0 pl.bitmap (fun y => M y ∨ y = x)) (cur - 1) → 64 ≤ height (cur - 1) + fuel →
      (∀ y, y ∈ E ↔ ESpec pl.bitmap (NAt pl.bitmap M x (cur - 1)) y) →
      ∀ y, y ∈ expandLoop pl fuel E cur ↔ ESpec pl.bitmap (NewP pl.bitmap (fun y => M y ∨ y = x)) y := by
  -- facts about `x`
  have hx0 : ¬ P0 pl.bitmap M (x - 1) := by
    rintro (h | h)
    · exact hxp h
    · have : x - 1 + 1 = x := by omega
      rw [this] at h; exact hxM h
  have hxP : P0 pl.bitmap (fun y => M y ∨ y = x) (x - 1) := Or.inr (Or.inr (by omega))
  -- off the path to `x` nothing changes
  have hoff : ∀ q, ¬ Sub q (x - 1) →
      (Full (P0 pl.bitmap (fun y => M y ∨ y = x)) q ↔ Full (P0 pl.bitmap M) q) := by
    intro q hq
    constructor
    · intro hf l hl hs
      rcases hf l hl hs with h | h | h
      · exact Or.inl h
      · exact Or.inr h
      · exfalso; apply hq
        have : l = x - 1 := by omega
        rw [← this]; exact hs
    · intro hf l hl hs
      rcases hf l hl hs with h | h
      · exact Or.inl h
      · exact Or.inr (Or.inl h)
  have hnewoff : ∀ q, Sub q (x - 1) → ¬ NewP pl.bitmap M q := by
    intro q hq hn
    exact hx0 (hn.1 (x - 1) hxl hq)
  have hnotpr : ∀ q, Sub q (x - 1) → ¬ PrunedBy pl.bitmap q :=
    fun q hq hp => hxp (prunedBy_of_sub hp hq)
  intro fuel
  induction fuel with
  | zero =>
    intro E cur hc1 hsub hfull hfuel _
    exfalso
    obtain ⟨r1, r2⟩ := rightmost_leaf _ (cur - 1) rfl
    have := hB _ (hfull _ r1 r2)
    have := height_lt_of_leaf_bound this
    omega
  | succ n ih =>
    intro E cur hc1 hsub hfull hfuel hE y
    unfold expandLoop
    simp only
    -- names
    generalize hc : cur - 1 = c at *
    have hpar := height_parent c
    obtain ⟨hsh, hsf, hsne⟩ := family_sibling c
    have hcsub : Sub (family c).1 c := (sub_family c c).2 (Or.inr (Or.inl (sub_refl c)))
    have hssub : Sub (family c).1 (family c).2 := (sub_family c _).2 (Or.inr (Or.inr (sub_refl _)))
    have hsdis : ¬ Sub (family c).2 (x - 1) := fun h => sub_sibling_disjoint c (x - 1) hsub h
    have hcgt := family_parent_gt' c
    have hcroot : (1 + c) ∉ pl.bitmap := by
      intro hm
      exact hnotpr c hsub ⟨1 + c, hm, by rw [Nat.add_sub_cancel_left]; exact sub_refl c⟩
    -- the continuation test is "the parent is fully pruned"
    have hsibfull : Full (P0 pl.bitmap M) (family c).2 ↔
        ((1 + (family c).2) ∈ pl.bitmap ∨ NewP pl.bitmap M (family c).2) := by
      constructor
      · intro hf
        by_cases hp : PrunedBy pl.bitmap (family c).2
        · left
          obtain ⟨r, hr, hrs⟩ := hp
          by_cases he : (family c).2 = r - 1
          · have := hinv.pos r hr
            have : 1 + (family c).2 = r := by omega
            rw [this]; exact hr
          · exfalso
            have h1 := (sub_parent_iff (r - 1) (family c).2).1 ⟨hrs, he⟩
            rw [hsf] at h1; simp only at h1
            exact hnotpr c hsub ⟨r, hr, sub_trans h1 hcsub⟩
        · right; exact ⟨hf, hp⟩
      · rintro (h | h)
        · intro l _ hs
          exact Or.inl ⟨_, h, by rw [Nat.add_sub_cancel_left]; exact hs⟩
        · exact h.1
    have hrootiff : pl.isPrunedRoot (family c).2 = true ↔ (1 + (family c).2) ∈ pl.bitmap := by
      unfold PruneList.isPrunedRoot; exact contains_iff
    have hcond : Full (P0 pl.bitmap (fun y => M y ∨ y = x)) (family c).1 ↔
        ((1 + (family c).2) ∈ pl.bitmap ∨ (1 + (family c).2) ∈ E) := by
      rw [full_parent, hoff _ hsdis, hsibfull]
      simp only [hfull, true_and]
      constructor
      · rintro (h | h)
        · exact Or.inl h
        · exact Or.inr ((hE _).2 ⟨by omega, Or.inl (by rw [Nat.add_sub_cancel_left]; exact Or.inl h)⟩)
      · rintro (h | h)
        · exact Or.inl h
        · obtain ⟨_, h2 | ⟨h2, _⟩⟩ := (hE _).1 h
          · rw [Nat.add_sub_cancel_left] at h2
            rcases h2 with h2 | ⟨h2, _⟩
            · exact Or.inr h2
            · exact absurd h2 hsdis
          · exact Or.inl h2
    -- which ancestors of `x` are at or below the parent
    have hN : ∀ q, NAt pl.bitmap M x (family c).1 q ↔ (NAt pl.bitmap M x c q ∨ q = (family c).1) := by
      intro q
      unfold NAt
      constructor
      · rintro (h | ⟨h1, h2⟩)
        · exact Or.inl (Or.inl h)
        · by_cases hqc : q ≤ c
          · exact Or.inl (Or.inr ⟨h1, hqc⟩)
          · right
            have h3 : Sub q c := sub_of_common hsub h1 (by omega)
            have h4 := (sub_parent_iff q c).1 ⟨h3, by omega⟩
            have := h4.2; omega
      · rintro ((h | ⟨h1, h2⟩) | h)
        · exact Or.inl h
        · exact Or.inr ⟨h1, by omega⟩
        · right; rw [h]; exact ⟨sub_trans hcsub hsub, Nat.le_refl _⟩
    have e1 : 1 + (family c).1 - 1 = (family c).1 := by omega
    -- climbing to the parent
    have hclimb : ∀ E1 : Bitmap, (∀ z, z ∈ E1 ↔ (z ∈ E ∨ (z = 1 + (family c).2 ∧ z ∈ pl.bitmap))) →
        Full (P0 pl.bitmap (fun y => M y ∨ y = x)) (family c).1 →
        (y ∈ expandLoop pl n (Bm.add E1 (1 + (family c).1)) (1 + (family c).1) ↔
          ESpec pl.bitmap (NewP pl.bitmap (fun y => M y ∨ y = x)) y) := by
      intro E1 hE1 hfullpar
      apply ih _ (1 + (family c).1) (by omega)
      · rw [e1]; exact sub_trans hcsub hsub
      · rw [e1]; exact hfullpar
      · rw [e1]; omega
      · intro z
        rw [e1, mem_add, hE1]
        unfold ESpec
        rw [hN, hN]
        have hEz := hE z
        unfold ESpec at hEz
        constructor
        · rintro (h | h | ⟨h, h'⟩)
          · subst h
            exact ⟨by omega, Or.inl (Or.inr (by omega))⟩
          · obtain ⟨h1, h2 | ⟨h2, h3⟩⟩ := hEz.1 h
            · exact ⟨h1, Or.inl (Or.inl h2)⟩
            · exact ⟨h1, Or.inr ⟨h2, Or.inl h3⟩⟩
          · subst h
            refine ⟨by omega, Or.inr ⟨h', Or.inr ?_⟩⟩
            rw [Nat.add_sub_cancel_left, hsf]
        · rintro ⟨h1, (h2 | h2) | ⟨h2, h3 | h3⟩⟩
          · exact Or.inr (Or.inl (hEz.2 ⟨h1, Or.inl h2⟩))
          · left; omega
          · exact Or.inr (Or.inl (hEz.2 ⟨h1, Or.inr ⟨h2, h3⟩⟩))
          · -- `z - 1` is a root with parent `par`: it is the sibling
            right; right
            rcases same_parent (a := c) (b := z - 1) h3.symm with h4 | h4
            · exfalso; apply hcroot
              have : 1 + c = z := by omega
              rw [this]; exact h2
            · exact ⟨by omega, h2⟩
    -- stopping
    have hstopspec : ¬ Full (P0 pl.bitmap (fun y => M y ∨ y = x)) (family c).1 →
        (y ∈ E ↔ ESpec pl.bitmap (NewP pl.bitmap (fun y => M y ∨ y = x)) y) := by
      intro hnotfull
      rw [hE y]
      apply espec_congr
      intro q
      unfold NAt NewP
      by_cases hq : Sub q (x - 1)
      · constructor
        · rintro (h | ⟨_, h2⟩)
          · exact absurd h (hnewoff q hq)
          · exact ⟨full_of_sub (sub_of_common hq hsub h2) hfull, hnotpr q hq⟩
        · rintro ⟨h1, _⟩
          right
          refine ⟨hq, ?_⟩
          apply Classical.byContradiction
          intro hqc
          have h3 : Sub q c := sub_of_common hsub hq (by omega)
          have h4 := (sub_parent_iff q c).1 ⟨h3, by omega⟩
          exact hnotfull (full_of_sub h4 h1)
      · rw [hoff q hq]
        constructor
        · rintro (h | ⟨h, _⟩)
          · exact h
          · exact absurd h hq
        · exact Or.inl
    cases hr : pl.isPrunedRoot (family c).2 with
    | true =>
      have hm := hrootiff.1 hr
      simp only [if_true, Bool.true_or]
      exact hclimb _ (fun z => by
        rw [mem_add]
        constructor
        · rintro (h | h)
          · exact Or.inr ⟨h, by rw [h]; exact hm⟩
          · exact Or.inl h
        · rintro (h | ⟨h, _⟩)
          · exact Or.inr h
          · exact Or.inl h) (hcond.2 (Or.inl hm))
    | false =>
      have hm : (1 + (family c).2) ∉ pl.bitmap := fun h => by
        rw [hrootiff.2 h] at hr; exact absurd hr (by simp)
      simp only [Bool.false_eq_true, if_false, Bool.false_or]
      split
      · rename_i hgo
        exact hclimb E (fun z => by
          constructor
          · exact Or.inl
          · rintro (h | ⟨h, h'⟩)
            · exact h
            · rw [h] at h'; exact absurd h' hm) (hcond.2 (Or.inr (contains_iff.1 hgo)))
      · rename_i hstop
        apply hstopspec
        intro hf
        rcases hcond.1 hf with h | h
        · exact hm h
        · exact hstop (contains_iff.2 h)

/-- one step of the outer loop of `pos_to_rm` -/
theorem expand_step (hinv : pl.Inv) (M : Nat → Prop) (x : Nat) (hx1 : 1 ≤ x)
    (hxM : ¬ M x) (hxl : height (x - 1) = 0) (hxp : ¬ PrunedBy pl.bitmap (x - 1))
    (hB : ∀ l, P0 pl.bitmap (fun y => M y ∨ y = x) l → l + 64 < 2 ^ 64)
    (E : Bitmap) (hE : ∀ y, y ∈ E ↔ ESpec pl.bitmap (NewP pl.bitmap M) y) (y : Nat) :
    y ∈ expandLoop pl 64 (Bm.add E x) x ↔ ESpec pl.bitmap (NewP pl.bitmap (fun y => M y ∨ y = x)) y := by
  apply expandLoop_spec hinv M x hx1 hxM hxl hxp hB 64 (Bm.add E x) x hx1 (sub_refl _)
  · rw [full_leaf hxl]; exact Or.inr (Or.inr (by omega))
  · omega
  · intro z
    rw [mem_add, hE z]
    unfold ESpec NAt
    constructor
    · rintro (h | ⟨h1, h2 | ⟨h2, h3⟩⟩)
      · subst h; exact ⟨hx1, Or.inl (Or.inr ⟨sub_refl _, Nat.le_refl _⟩)⟩
      · exact ⟨h1, Or.inl (Or.inl h2)⟩
      · exact ⟨h1, Or.inr ⟨h2, Or.inl h3⟩⟩
    · rintro ⟨h1, (h2 | ⟨h2, h3⟩) | ⟨h2, h3 | ⟨h3, h4⟩⟩⟩
      · exact Or.inr ⟨h1, Or.inl h2⟩
      · left
        unfold Sub at h2
        omega
      · exact Or.inr ⟨h1, Or.inr ⟨h2, h3⟩⟩
      · exfalso
        have hh := height_parent (z - 1)
        unfold Sub at h3
        have : (family (z - 1)).1 = x - 1 := by omega
        rw [this] at hh; omega

/-- **the outer loop of `pos_to_rm`**: after all removed leaves are processed, `expanded` holds
the newly fully pruned positions and the old roots below them -/
theorem expand_fold (hinv : pl.Inv) : ∀ (rest : List Nat) (M : Nat → Prop) (E : Bitmap),
    (∀ y, y ∈ E ↔ ESpec pl.bitmap (NewP pl.bitmap M) y) →
    List.Pairwise (· ≠ ·) rest →
    (∀ x ∈ rest, 1 ≤ x ∧ ¬ M x ∧ height (x - 1) = 0 ∧ ¬ PrunedBy pl.bitmap (x - 1)) →
    (∀ l, P0 pl.bitmap (fun y => M y ∨ y ∈ rest) l → l + 64 < 2 ^ 64) →
    ∀ y, y ∈ rest.foldl (fun expanded x => expandLoop pl 64 (Bm.add expanded x) x) E ↔
      ESpec pl.bitmap (NewP pl.bitmap (fun y => M y ∨ y ∈ rest)) y := by
  intro rest
  induction rest with
  | nil =>
    intro M E hE _ _ _ y
    simp only [List.foldl_nil]
    rw [hE y]
    exact espec_congr (newP_congr (fun x => by simp)) y
  | cons x rest ih =>
    intro M E hE hnd hprops hB y
    simp only [List.foldl_cons]
    have hnd' := List.pairwise_cons.1 hnd
    obtain ⟨hx1, hxM, hxl, hxp⟩ := hprops x (by simp)
    have hB1 : ∀ l, P0 pl.bitmap (fun y => M y ∨ y = x) l → l + 64 < 2 ^ 64 := by
      intro l hl
      apply hB l
      rcases hl with h | h | h
      · exact Or.inl h
      · exact Or.inr (Or.inl h)
      · exact Or.inr (Or.inr (by rw [h]; simp))
    have := ih (fun y => M y ∨ y = x) _ (expand_step hinv M x hx1 hxM hxl hxp hB1 E hE) hnd'.2
      (fun z hz => by
        obtain ⟨h1, h2, h3, h4⟩ := hprops z (by simp [hz])
        refine ⟨h1, ?_, h3, h4⟩
        rintro (h | h)
        · exact h2 h
        · exact hnd'.1 z hz h.symm)
      (fun l hl => by
        apply hB l
        rcases hl with h | (h | h) | h
        · exact Or.inl h
        · exact Or.inr (Or.inl h)
        · exact Or.inr (Or.inr (by rw [h]; simp))
        · exact Or.inr (Or.inr (by simp [h])))
      y
    rw [this]
    apply espec_congr
    apply newP_congr
    intro z
    simp only [List.mem_cons]
    constructor
    · rintro ((h | h) | h)
      · exact Or.inl h
      · exact Or.inr (Or.inl h)
      · exact Or.inr (Or.inr h)
    · rintro (h | h | h)
      · exact Or.inl (Or.inl h)
      · exact Or.inl (Or.inr h)
      · exact Or.inr h

/-- nothing is newly pruned when no leaf is added -/
theorem newP_empty (hinv : pl.Inv) (q : Nat) : ¬ NewP pl.bitmap (fun _ => False) q := by
  rintro ⟨h1, h2⟩
  apply h2
  apply PruneList.canon hinv _ q rfl
  intro l hl hs
  rcases h1 l hl hs with h | h
  · exact h
  · exact absurd h (by simp)

/-- **`removed_excl_roots ∘ expand`**: a position is removed from the hash file iff its parent
becomes fully pruned -/
theorem exclRoots_spec (hinv : pl.Inv) (M : Nat → Prop) (E : Bitmap)
    (hE : ∀ y, y ∈ E ↔ ESpec pl.bitmap (NewP pl.bitmap M) y) (y : Nat) :
    y ∈ removedExclRoots E ↔ 1 ≤ y ∧ NewP pl.bitmap M (family (y - 1)).1 := by
  unfold removedExclRoots
  rw [List.mem_filter, contains_iff, hE, hE]
  have hsub : Sub (family (y - 1)).1 (y - 1) := (sub_family _ _).2 (Or.inr (Or.inl (sub_refl _)))
  constructor
  · rintro ⟨⟨h1, hy⟩, ⟨_, hp⟩⟩
    rw [Nat.add_sub_cancel_left] at hp
    refine ⟨h1, ?_⟩
    rcases hp with hp | ⟨hp, _⟩
    · exact hp
    · -- the parent is an old root: then `y - 1` was pruned already and is no root
      exfalso
      have hpr : PrunedBy pl.bitmap (family (y - 1)).1 :=
        ⟨_, hp, by rw [Nat.add_sub_cancel_left]; exact sub_refl _⟩
      rcases hy with hy | ⟨hy, _⟩
      · exact hy.2 (prunedBy_of_sub hpr hsub)
      · have h1 := PruneList.root_not_compacted hinv y hy
        have h2 := compactedP_iff_parent.2 hpr
        rw [h1] at h2; exact absurd h2 (by simp)
  · rintro ⟨h1, hn⟩
    refine ⟨⟨h1, ?_⟩, ⟨by omega, Or.inl (by rw [Nat.add_sub_cancel_left]; exact hn)⟩⟩
    by_cases hp : PrunedBy pl.bitmap (y - 1)
    · right
      obtain ⟨r, hr, hrs⟩ := hp
      by_cases he : y - 1 = r - 1
      · have := hinv.pos r hr
        have : y = r := by omega
        rw [this]; exact ⟨hr, by rw [← this]; exact hn⟩
      · exfalso
        exact hn.2 ⟨r, hr, (sub_parent_iff _ _).1 ⟨hrs, he⟩⟩
    · left; exact ⟨full_of_sub hsub hn.1, hp⟩

end Backend
end GV.Store
