import GrinVerif.Model.CrashMulti
import GrinVerif.Lemmas.CrashSteps
import GrinVerif.Lemmas.CrashRecover
import GrinVerif.Lemmas.CrashExt
/-! Closed forms of the durable state at every crash point of a header-first block acceptance and of
a head reset (`Model/CrashMulti.lean`). -/
namespace GV.Crash

/-- `k` steps into accepting block `b` on top of `O`, header chain `H` known in advance -/
def bodyState (O H : List BlkInfo) (b : BlkInfo) (mvH : Bool) (k : Nat) : Durable :=
  { dbHead := if 10 ≤ k ∧ mvH = true then b.id else tipOf O,
    dbHHead := tipOf H,
    hdrHash := H.map (·.id),
    hdrData := H.map (·.id),
    outHash := if 2 ≤ k then leavesOf (O ++ [b]) else leavesOf O,
    outData := if 4 ≤ k then leavesOf (O ++ [b]) else leavesOf O,
    leaf := if 5 ≤ k then unspentOf (O ++ [b]) else unspentOf O,
    kerHash := if 7 ≤ k then (O ++ [b]).map (·.id) else O.map (·.id),
    kerData := if 9 ≤ k then (O ++ [b]).map (·.id) else O.map (·.id) }

theorem crashAfter_body (t : Target) (O H : List BlkInfo) (b : BlkInfo)
    (hN : t.newPath = O ++ [b]) (hF : t.forkLen = O.length) (k : Nat) :
    crashAfter t (hdrFirst O H) bodySteps k = bodyState O H b t.movesHead k := by
  obtain ⟨np, fl, m1, m2⟩ := t
  simp only at hN hF
  subst hN hF
  have key : ∀ j, j ≤ 10 →
      crashAfter ⟨O ++ [b], O.length, m1, m2⟩ (hdrFirst O H) bodySteps j = bodyState O H b m2 j := by
    intro j hj
    have : j = 0 ∨ j = 1 ∨ j = 2 ∨ j = 3 ∨ j = 4 ∨ j = 5 ∨ j = 6 ∨ j = 7 ∨ j = 8 ∨ j = 9 ∨ j = 10 := by omega
    rcases this with h | h | h | h | h | h | h | h | h | h | h <;> subst h <;> cases m2 <;>
      simp [crashAfter, bodySteps, applyStep, consistent, hdrFirst, bodyState, Target.tip, Target.forkPath,
        take_map_len, tipOf]
  by_cases hk : k ≤ 10
  · exact key k hk
  · rw [crashAfter_ge _ _ _ _ (by simp [bodySteps]; omega)]
    have : bodySteps.length = 10 := rfl
    rw [this, key 10 (Nat.le_refl _)]
    simp only [bodyState]
    have e : ∀ n, n ≤ 10 → (n ≤ k) = (n ≤ 10) := by intro n hn; simp [hn]; omega
    simp [e]

theorem bodyState_files (O H : List BlkInfo) (b : BlkInfo) (m : Bool) (k : Nat) :
    FilesCover O (bodyState O H b m k) := by
  have a1 : leavesOf O <+: leavesOf O := List.prefix_refl _
  have a2 : leavesOf O <+: leavesOf (O ++ [b]) := leavesOf_prefix O _
  have b1 : O.map (·.id) <+: O.map (·.id) := List.prefix_refl _
  have b2 : O.map (·.id) <+: (O ++ [b]).map (·.id) := map_prefix_of_append _ O _
  constructor <;> simp only [bodyState] <;> split <;> assumption

/-- a completed header-first acceptance leaves the header-first state of the longer body -/
theorem bodyState_done (O H : List BlkInfo) (b : BlkInfo) (k : Nat) (hk : 10 ≤ k) :
    bodyState O H b true k = hdrFirst (O ++ [b]) H := by
  have e : ∀ n, n ≤ 10 → n ≤ k := by intro n hn; omega
  simp [bodyState, hdrFirst, consistent, e, tipOf]

/-- `k` steps into resetting a node on `T ++ R` to `T` -/
def resetState (T R : List BlkInfo) (k : Nat) : Durable :=
  { dbHead := if 14 ≤ k then tipOf T else tipOf (T ++ R),
    dbHHead := if 14 ≤ k then tipOf T else tipOf (T ++ R),
    hdrHash := if 10 ≤ k then T.map (·.id) else (T ++ R).map (·.id),
    hdrData := if 12 ≤ k then T.map (·.id) else (T ++ R).map (·.id),
    outHash := if 1 ≤ k then leavesOf T else leavesOf (T ++ R),
    outData := if 3 ≤ k then leavesOf T else leavesOf (T ++ R),
    leaf := if 5 ≤ k then unspentOf T else unspentOf (T ++ R),
    kerHash := if 6 ≤ k then T.map (·.id) else (T ++ R).map (·.id),
    kerData := if 8 ≤ k then T.map (·.id) else (T ++ R).map (·.id) }

theorem take_leaves_left (T R : List BlkInfo) :
    List.take (leavesOf T).length (leavesOf (T ++ R)) = leavesOf T := by
  rw [leavesOf_append]; exact List.take_left

theorem take_ids_left (T R : List BlkInfo) :
    List.take T.length ((T ++ R).map (·.id)) = T.map (·.id) := by
  rw [List.map_append, ← List.length_map (f := fun (x : BlkInfo) => x.id)]; exact List.take_left

theorem resetCrashAfter_eq (T R : List BlkInfo) (k : Nat) :
    resetCrashAfter (resetTarget T) (consistent (T ++ R)) k = resetState T R k := by
  have key : ∀ j, j ≤ 14 →
      resetCrashAfter (resetTarget T) (consistent (T ++ R)) j = resetState T R j := by
    intro j hj
    have : j = 0 ∨ j = 1 ∨ j = 2 ∨ j = 3 ∨ j = 4 ∨ j = 5 ∨ j = 6 ∨ j = 7 ∨ j = 8 ∨ j = 9 ∨ j = 10 ∨
        j = 11 ∨ j = 12 ∨ j = 13 ∨ j = 14 := by omega
    rcases this with h | h | h | h | h | h | h | h | h | h | h | h | h | h | h <;> subst h <;>
      simp [resetCrashAfter, resetTarget, crashAfter, resetFileSteps, applyStep, consistent, resetState,
        Target.tip, Target.forkPath, tipOf, take_leaves_left]
  by_cases hk : k ≤ 14
  · exact key k hk
  · have h14 := key 14 (Nat.le_refl _)
    have hge : resetCrashAfter (resetTarget T) (consistent (T ++ R)) k =
        resetCrashAfter (resetTarget T) (consistent (T ++ R)) 14 := by
      unfold resetCrashAfter
      have l : resetFileSteps.length = 13 := rfl
      rw [crashAfter_ge _ _ _ k (by rw [l]; omega), crashAfter_ge _ _ _ 14 (by rw [l]; omega)]
      simp [l]; omega
    rw [hge, h14]
    simp only [resetState]
    have e : ∀ n, n ≤ 14 → (n ≤ k) = (n ≤ 14) := by intro n hn; simp [hn]; omega
    simp [e]

end GV.Crash
