import GrinVerif.Lemmas.KeysArith
/-! Helper lemmas for the view-key path algebra of C20 (`viewCovers`, `viewCheckAt`) and a provably
collision-free key derivation (`termKD`) used as the non-vacuity instance of `DeriveInj`.
Core Lean only. -/
namespace GV.Keys

/-- Collision-freedom of the key derivation (BIP32 / HMAC-SHA512, a cryptographic assumption —
an explicit hypothesis of the view-key theorems, like `Inj hf` for hashes): two word lists that
derive the same secret scalar from the master key are the same list. -/
def DeriveInj {K : Type} (kd : KeyDeriv K) : Prop :=
  ∀ cs cs' k k', ckdAll kd kd.master cs = some k → ckdAll kd kd.master cs' = some k' →
    kd.secret k = kd.secret k' → cs = cs'

theorem Path.get?_eq_comps (p : Path) (i : Nat) : p.get? i = p.comps[i]? := by
  match i with
  | 0 => rfl
  | 1 => rfl
  | 2 => rfl
  | 3 => rfl
  | n + 4 => simp [Path.get?, Path.comps]

/-- `to_path` never returns a depth above 4 (repair cb1f5b25f) -/
theorem toPath_depth_le4 (id : Ident) : id.toPath.depth ≤ 4 := by
  unfold Ident.toPath
  split
  · exact Nat.min_le_right _ _
  · exact Nat.zero_le _

theorem clampId_WF (id : Ident) (h : IdWF id) : IdWF (clampId id) := by
  obtain ⟨hl, hb⟩ := h
  obtain ⟨d, a0, a1, a2, a3, b0, b1, b2, b3, e0, e1, e2, e3, f0, f1, f2, f3, rfl⟩ := list17 id hl
  refine ⟨by simp [clampId], ?_⟩
  intro b hm
  simp only [clampId, List.headD_cons, List.drop_succ_cons, List.drop_zero, List.mem_cons] at hm
  rcases hm with h | h
  · omega
  · exact hb b (List.mem_cons_of_mem _ (by simpa using h))

theorem clampId_depthByte (id : Ident) : (clampId id).depthByte ≤ 4 := by
  simp only [clampId, Ident.depthByte, List.headD_cons]; omega

/-- an identifier whose depth byte is at most 4 is its own clamped form -/
theorem clampId_of_le (id : Ident) (h : IdWF id) (hd : id.depthByte ≤ 4) : clampId id = id := by
  obtain ⟨hl, _⟩ := h
  obtain ⟨d, a0, a1, a2, a3, b0, b1, b2, b3, e0, e1, e2, e3, f0, f1, f2, f3, rfl⟩ := list17 id hl
  simp only [Ident.depthByte, List.headD_cons] at hd
  simp only [clampId, List.headD_cons, List.drop_succ_cons, List.drop_zero]
  congr 1; omega

/-- the depth byte beyond 4 is never looked at: `to_path` of an identifier and of its clamped form
are the same path -/
theorem toPath_clampId (id : Ident) (h : IdWF id) : (clampId id).toPath = id.toPath := by
  obtain ⟨hl, _⟩ := h
  obtain ⟨d, a0, a1, a2, a3, b0, b1, b2, b3, e0, e1, e2, e3, f0, f1, f2, f3, rfl⟩ := list17 id hl
  simp only [clampId, List.headD_cons, List.drop_succ_cons, List.drop_zero, Ident.toPath]
  congr 1; omega

theorem words_length (id : Ident) (h : id.toPath.depth ≤ 4) : id.words.length = id.toPath.depth := by
  simp only [Ident.words, Path.comps, List.length_take, List.length_cons, List.length_nil]
  omega

theorem prefix?_eq_words (id : Ident) (h : id.toPath.depth ≤ 4) : id.toPath.prefix? = some id.words := by
  simp [Path.prefix?, h, Ident.words]

/-- a successful `commit(amount, id, None)` is the opening `(amount, secret of the key at id.words)` -/
theorem commit_none_inv {K : Type} {kd : KeyDeriv K} {amount : Nat} {id : Ident} {c : Opening}
    (hd : id.toPath.depth ≤ 4) (h : commit kd amount id .none = .ok c) :
    ∃ k, ckdAll kd kd.master id.words = some k ∧ c = ⟨amount, kd.secret k⟩ := by
  unfold commit deriveKey at h
  rw [prefix?_eq_words id hd] at h
  simp only at h
  cases hk : ckdAll kd kd.master id.words with
  | none => rw [hk] at h; cases h
  | some k =>
    rw [hk] at h
    simp only at h
    injection h with h
    exact ⟨k, rfl, h.symm⟩

/-- `parseMessage (proofMessage id sw) = (id, sw)` for depth ≤ 4 (same as `Props.C20.parse_roundtrip`) -/
theorem parseMessage_proofMessage (id : Ident) (sw : Switch) (h : IdWF id) (hd : id.depthByte ≤ 4) :
    parseMessage (proofMessage id sw) = some (id, sw) := by
  obtain ⟨hl, hb⟩ := h
  obtain ⟨d, a0, a1, a2, a3, b0, b1, b2, b3, e0, e1, e2, e3, f0, f1, f2, f3, rfl⟩ := list17 id hl
  simp only [Ident.depthByte, List.headD_cons] at hd
  have hm : min d 4 % 256 = d := by omega
  simp [parseMessage, proofMessage, switch_roundtrip, Ident.fromSerializedPath, hm]

/-- for **every** 17-byte identifier: `check_output` reads back the clamped identifier -/
theorem parseMessage_proofMessage_clamp (id : Ident) (sw : Switch) (h : IdWF id) :
    parseMessage (proofMessage id sw) = some (clampId id, sw) := by
  obtain ⟨hl, hb⟩ := h
  obtain ⟨d, a0, a1, a2, a3, b0, b1, b2, b3, e0, e1, e2, e3, f0, f1, f2, f3, rfl⟩ := list17 id hl
  have hm : min d 4 % 256 = min d 4 := by omega
  simp [parseMessage, proofMessage, switch_roundtrip, Ident.fromSerializedPath, hm, clampId]

/-- the word the view key compares its `child_number` with -/
theorem covers_child (vk : List ChildNumber) (id : Ident) (hd : id.toPath.depth ≤ 4)
    (hn : vk.length ≤ id.toPath.depth) (h0 : 0 < vk.length) (ht : id.words.take vk.length = vk) :
    id.toPath.get? (vk.length - 1) = some (vkChildNumber vk) := by
  have hlt : vk.length - 1 < 4 := by omega
  have h1 : vk[vk.length - 1]? = id.toPath.comps[vk.length - 1]? := by
    have : (id.words.take vk.length)[vk.length - 1]? = id.toPath.comps[vk.length - 1]? := by
      rw [List.getElem?_take, if_pos (by omega)]
      simp only [Ident.words]
      rw [List.getElem?_take, if_pos (by omega)]
    rw [ht] at this
    exact this
  have hlen : id.toPath.comps.length = 4 := rfl
  obtain ⟨x, hx⟩ : ∃ x, id.toPath.comps[vk.length - 1]? = some x :=
    ⟨_, List.getElem?_eq_getElem (by omega)⟩
  rw [Path.get?_eq_comps, vkChildNumber, h1, hx]
  rfl

/-- the result of the view key's `check_output` on the honest message, exit by exit -/
theorem viewCheckAt_honest {K : Type} (kd : KeyDeriv K) (vk : List ChildNumber) (c : Opening)
    (amount : Nat) (id : Ident) (sw : Switch) (hid : IdWF id) (hd : id.depthByte ≤ 4) :
    viewCheckAt kd vk c amount (proofMessage id sw) =
      if vk.length > id.toPath.depth then .none
      else if (decide (vk.length > 0) && decide (id.toPath.depth > 0) &&
          (id.toPath.get? (vk.length - 1) != some (vkChildNumber vk))) = true then .none
      else if (id.words.drop vk.length).any ChildNumber.isHardened = true then .none
      else if amount = 0 then .err
      else match sw with
        | .regular => .err
        | .none => if viewPubMatches kd vk c amount id .none = true then .some id .none else .none := by
  simp only [viewCheckAt, viewCheckOutput, parseMessage_proofMessage id sw hid hd, Ident.words]
  cases sw <;> rfl

/-- the same for switch `None`, the `match` reduced -/
theorem viewCheckAt_honest_none {K : Type} (kd : KeyDeriv K) (vk : List ChildNumber) (c : Opening)
    (amount : Nat) (id : Ident) (hid : IdWF id) (hd : id.depthByte ≤ 4) :
    viewCheckAt kd vk c amount (proofMessage id .none) =
      if vk.length > id.toPath.depth then .none
      else if (decide (vk.length > 0) && decide (id.toPath.depth > 0) &&
          (id.toPath.get? (vk.length - 1) != some (vkChildNumber vk))) = true then .none
      else if (id.words.drop vk.length).any ChildNumber.isHardened = true then .none
      else if amount = 0 then .err
      else if viewPubMatches kd vk c amount id .none = true then .some id .none else .none :=
  viewCheckAt_honest kd vk c amount id .none hid hd

theorem viewCovers_iff (vk : List ChildNumber) (id : Ident) :
    viewCovers vk id = true ↔ id.toPath.depth ≤ 4 ∧ vk.length ≤ id.toPath.depth ∧
      id.words.take vk.length = vk ∧ (id.words.drop vk.length).any ChildNumber.isHardened = false := by
  simp only [viewCovers, Bool.and_eq_true, decide_eq_true_eq, beq_iff_eq, Bool.not_eq_true',
    and_assoc]

/-- when the view key covers the identifier, the public keys match (no assumption needed) -/
theorem pubMatches_of_covers {K : Type} (kd : KeyDeriv K) (vk : List ChildNumber) (amount : Nat)
    (id : Ident) (c : Opening) (hd : id.toPath.depth ≤ 4)
    (hc : commit kd amount id .none = .ok c) (ht : id.words.take vk.length = vk) :
    viewPubMatches kd vk c amount id .none = true := by
  obtain ⟨k, hk, rfl⟩ := commit_none_inv hd hc
  have : vk ++ id.words.drop vk.length = id.words := by
    conv => lhs; arg 1; rw [← ht]
    exact List.take_append_drop _ _
  simp [viewPubMatches, this, hk]

/-- when the public keys match, the view key's path is the prefix of the identifier's words
(collision-freedom of the derivation) -/
theorem covers_of_pubMatches {K : Type} (kd : KeyDeriv K) (hinj : DeriveInj kd) (vk : List ChildNumber)
    (amount : Nat) (id : Ident) (c : Opening) (hd : id.toPath.depth ≤ 4)
    (hc : commit kd amount id .none = .ok c)
    (hm : viewPubMatches kd vk c amount id .none = true) : id.words.take vk.length = vk := by
  obtain ⟨k, hk, rfl⟩ := commit_none_inv hd hc
  unfold viewPubMatches at hm
  cases hk' : ckdAll kd kd.master (vk ++ id.words.drop vk.length) with
  | none => rw [hk'] at hm; cases hm
  | some k' =>
    rw [hk'] at hm
    simp only [decide_eq_true_eq, Opening.mk.injEq, true_and] at hm
    have := hinj _ _ _ _ hk' hk hm.symm
    have h2 : (vk ++ id.words.drop vk.length).take vk.length = id.words.take vk.length := by rw [this]
    rw [List.take_left'] at h2
    · exact h2.symm
    · rfl

/-! ## a provably collision-free derivation (non-vacuity of `DeriveInj`) -/

/-- total injective code of a child number -/
def cnCode : ChildNumber → Nat
  | .normal i => 2 * i
  | .hardened i => 2 * i + 1

theorem cnCode_inj {a b : ChildNumber} (h : cnCode a = cnCode b) : a = b := by
  cases a <;> cases b <;> simp only [cnCode] at h <;> first | (congr 1; omega) | omega

/-- `2^a · (2x + 1)`: injective pairing -/
def pairCode (a x : Nat) : Nat := 2 ^ a * (2 * x + 1)

theorem pairCode_inj : ∀ (a b x y : Nat), pairCode a x = pairCode b y → a = b ∧ x = y := by
  intro a
  induction a with
  | zero =>
    intro b x y h
    cases b with
    | zero => simp only [pairCode, Nat.pow_zero, Nat.one_mul] at h; exact ⟨rfl, by omega⟩
    | succ b =>
      exfalso
      simp only [pairCode, Nat.pow_zero, Nat.one_mul, Nat.pow_succ] at h
      generalize 2 ^ b = m at h
      have : m * 2 * (2 * y + 1) = 2 * (m * (2 * y + 1)) := by
        rw [Nat.mul_comm m 2, Nat.mul_assoc]
      omega
  | succ a ih =>
    intro b x y h
    cases b with
    | zero =>
      exfalso
      simp only [pairCode, Nat.pow_zero, Nat.one_mul, Nat.pow_succ] at h
      generalize 2 ^ a = m at h
      have : m * 2 * (2 * x + 1) = 2 * (m * (2 * x + 1)) := by
        rw [Nat.mul_comm m 2, Nat.mul_assoc]
      omega
    | succ b =>
      have h' : pairCode a x = pairCode b y := by
        simp only [pairCode, Nat.pow_succ] at h ⊢
        have e1 : 2 ^ a * 2 * (2 * x + 1) = 2 * (2 ^ a * (2 * x + 1)) := by
          rw [Nat.mul_comm (2 ^ a) 2, Nat.mul_assoc]
        have e2 : 2 ^ b * 2 * (2 * y + 1) = 2 * (2 ^ b * (2 * y + 1)) := by
          rw [Nat.mul_comm (2 ^ b) 2, Nat.mul_assoc]
        omega
      obtain ⟨h1, h2⟩ := ih b x y h'
      exact ⟨by omega, h2⟩

/-- injective code of a word list -/
def wordsCode : List ChildNumber → Nat
  | [] => 0
  | c :: cs => pairCode (cnCode c) (wordsCode cs)

theorem pairCode_pos (a x : Nat) : 0 < pairCode a x := by
  unfold pairCode
  exact Nat.mul_pos (Nat.pow_pos (by omega)) (by omega)

theorem wordsCode_inj : ∀ (l l' : List ChildNumber), wordsCode l = wordsCode l' → l = l' := by
  intro l
  induction l with
  | nil =>
    intro l' h
    cases l' with
    | nil => rfl
    | cons c cs => have := pairCode_pos (cnCode c) (wordsCode cs); simp only [wordsCode] at h; omega
  | cons c cs ih =>
    intro l' h
    cases l' with
    | nil => have := pairCode_pos (cnCode c) (wordsCode cs); simp only [wordsCode] at h; omega
    | cons c' cs' =>
      simp only [wordsCode] at h
      obtain ⟨h1, h2⟩ := pairCode_inj _ _ _ _ h
      rw [cnCode_inj h1, ih cs' h2]

/-- the term model of key derivation: the key at a path *is* the path; its secret is the injective
code of the path (shifted by one: zero is not a secret key) -/
def termKD : KeyDeriv (List ChildNumber) where
  master := []
  ckd := fun k c => some (k ++ [c])
  secret := fun k => wordsCode k + 1
  blindSwitch := fun amount key => pairCode amount key

theorem termKD_ckdAll : ∀ (cs k : List ChildNumber), ckdAll termKD k cs = some (k ++ cs) := by
  intro cs
  induction cs with
  | nil => intro k; simp [ckdAll]
  | cons c cs ih =>
    intro k
    simp only [ckdAll]
    show ckdAll termKD (k ++ [c]) cs = _
    rw [ih]; simp

theorem termKD_inj : DeriveInj termKD := by
  intro cs cs' k k' h h' hs
  have e : termKD.master = [] := rfl
  rw [e, termKD_ckdAll] at h h'
  simp only [List.nil_append, Option.some.injEq] at h h'
  subst h; subst h'
  exact wordsCode_inj _ _ (by simpa [termKD] using hs)

/-- (for the non-vacuity examples) create with `ProofBuilder` on the term keychain under the toy
crypto, rewind with the view key made from the private key at `m/vk` -/
def toyViewRewind (vk : List ChildNumber) (amount : Nat) (id : Ident) : Rewound :=
  match commit termKD amount id .none,
    proofCreate termKD toyCrypto (newBuilder termKD (fun _ => 11) (fun _ => 12)) amount id .none with
  | .ok c, .ok p => proofRewind toyCrypto (viewBuilder termKD vk (fun _ => 11)) c p
  | _, _ => .panic

end GV.Keys
