import GrinVerif.Lemmas.DecSerEraseSeg
import GrinVerif.Model.Msg
import GrinVerif.Model.SerMsg
/-! The instrumented message bodies of `Model/Msg.lean` (property C11 / C19: both readers, allocation)
erase to the plain codecs of `Model/SerMsg.lean` (property C10), up to the renaming of the record types:
`PeerAddr`, strings, `Hand`, `Shake`, `Ping`/`Pong`, `GetPeerAddrs`, `PeerAddrs`, `PeerError`, `Locator`,
the hash bodies, `TxHashSetRequest`, `TxHashSetArchive`, `SegmentRequest`; `BanReason` through the
`BinReader` (through the `BufReader` the unread rest differs when the body is shorter than four
bytes: `payload_readers_agree` of C11 excludes it for that reason). -/
theorem cont_eq (b : Nat) : GV.Msg.cont b = GV.SerMsg.cont b := rfl
theorem validUtf8_eq : ∀ bs, GV.Msg.validUtf8 bs = GV.SerMsg.validUtf8 bs := by
  intro bs
  fun_induction GV.Msg.validUtf8 bs
  case case1 => rw [GV.SerMsg.validUtf8.eq_def]
  case case2 b0 r h ih => rw [GV.SerMsg.validUtf8.eq_def]; simp only []; rw [if_pos h]; exact ih
  case case3 b0 h1 h b1 r ih => rw [GV.SerMsg.validUtf8.eq_def]; simp only []; rw [if_neg h1, if_pos h, ih]; rfl
  case case4 b0 r h1 h x =>
    rw [GV.SerMsg.validUtf8.eq_def]; simp only []; rw [if_neg h1, if_pos h]
  case case5 b0 h2 h1 h b1 b2 r ih => rw [GV.SerMsg.validUtf8.eq_def]; simp only []; rw [if_neg h2, if_neg h1, if_pos h, ih]; rfl
  case case6 b0 r h2 h1 h x =>
    rw [GV.SerMsg.validUtf8.eq_def]; simp only []; rw [if_neg h2, if_neg h1, if_pos h]
  case case7 b0 h3 h2 h1 h b1 b2 b3 r ih =>
    rw [GV.SerMsg.validUtf8.eq_def]; simp only []; rw [if_neg h3, if_neg h2, if_neg h1, if_pos h, ih]; rfl
  case case8 b0 r h3 h2 h1 h x =>
    rw [GV.SerMsg.validUtf8.eq_def]; simp only []; rw [if_neg h3, if_neg h2, if_neg h1, if_pos h]
  case case9 b0 r h3 h2 h1 h => rw [GV.SerMsg.validUtf8.eq_def]; simp only []; rw [if_neg h3, if_neg h2, if_neg h1, if_neg h]

namespace GV.DecSer
open GV GV.Ser GV.Dec

variable {α β γ : Type}

theorem readBytesLenPrefix_eq (bs : Bytes) :
    readBytesLenPrefix bs = andThen (readU64 bs) fun len r => readFixed len r := by
  unfold readBytesLenPrefix
  cases readU64 bs with
  | error e => rfl
  | ok v => obtain ⟨len, r⟩ := v; rfl

theorem erases_rBytesLenPrefix (rd : Rdr) : Erases (rBytesLenPrefix rd) readBytesLenPrefix :=
  Erases.congr (Erases.bind erases_rU64 fun len => erases_rFixed rd len) (fun bs => (readBytesLenPrefix_eq bs).symm)

theorem erases_decString (rd : Rdr) : Erases (GV.Msg.decString rd) GV.SerMsg.decString := by
  unfold GV.Msg.decString GV.SerMsg.decString
  refine Erases.bind (erases_rBytesLenPrefix rd) fun ua => ?_
  rw [validUtf8_eq]
  exact Erases.ite _ (erases_pure _) (erases_err _)

/-! ### PeerAddr -/

def toAddr : GV.Msg.PeerAddr → GV.SerMsg.PeerAddr
  | .v4 ip port => .v4 ip port
  | .v6 segs port => .v6 segs port 0 0

theorem toIpv4_eq (segs : List Nat) : GV.Msg.toIpv4 segs = GV.SerMsg.toIpv4 segs := by
  unfold GV.Msg.toIpv4 GV.SerMsg.toIpv4
  split
  · rename_i f ab cd
    by_cases hf : f = 0xffff
    · subst hf; simp
    · simp only [hf, if_false]
      split
      · rename_i ab' cd' heq
        simp only [List.cons.injEq, true_and] at heq
        exact absurd heq.1 hf
      · rfl
  · rename_i hno
    split
    · rename_i ab cd
      exact absurd rfl (hno 0xffff ab cd)
    · rfl

theorem v6Result_eq (segs : List Nat) (port : Nat) :
    toAddr (GV.Msg.v6Result segs port) = GV.SerMsg.v6Result segs port := by
  unfold GV.Msg.v6Result GV.SerMsg.v6Result
  rw [toIpv4_eq]
  cases GV.SerMsg.toIpv4 segs <;> rfl

theorem erases_readN_u16 : ∀ n, Erases (GV.Dec.readN rU16 n) (GV.SerSeg.readItems readU16 n) :=
  erases_readN erases_rU16

theorem readN_length {p : Dec α} : ∀ (n : Nat) (bs : Bytes) (xs : List α) (r : Bytes) (m : Nat),
    GV.Dec.readN p n bs = .ok xs r m → xs.length = n := by
  intro n
  induction n with
  | zero => intro bs xs r m h; simp only [GV.Dec.readN, Outcome.ok.injEq] at h; simp [← h.1]
  | succ n ih =>
    intro bs xs r m h
    simp only [GV.Dec.readN] at h
    obtain ⟨x, r1, n1, n2, h1, h2, _⟩ := bind_ok_inv h
    obtain ⟨ys, r2, n3, n4, h3, h4, _⟩ := bind_ok_inv h2
    simp only [Outcome.ok.injEq] at h4
    rw [← h4.1, List.length_cons, ih r1 ys r2 n3 h3]

theorem erases_decPeerAddr (rd : Rdr) :
    Erases (fun bs => (GV.Msg.decPeerAddr rd bs).map toAddr) GV.SerMsg.decPeerAddr := by
  intro bs
  show ((GV.Msg.decPeerAddr rd bs).map toAddr).toExcept = some (GV.SerMsg.decPeerAddr bs)
  unfold GV.Msg.decPeerAddr GV.SerMsg.decPeerAddr
  have h8 := erases_rU8 bs
  cases hp : rU8 bs with
  | panic s n => rw [hp] at h8; simp [Outcome.toExcept] at h8
  | err e n =>
    rw [hp] at h8
    simp only [Outcome.toExcept, Option.some.injEq] at h8
    rw [← h8]; rfl
  | ok tag r n =>
    rw [hp] at h8
    simp only [Outcome.toExcept, Option.some.injEq] at h8
    rw [← h8]
    simp only [Dec.bind, andThen_ok, map_addAlloc, toExcept_addAlloc]
    by_cases h0 : tag = 0
    · simp only [h0, if_true]
      -- V4: four bytes, the port
      have h4 := erases_rFixed rd 4 r
      cases hq : rFixed rd 4 r with
      | panic s m => rw [hq] at h4; simp [Outcome.toExcept] at h4
      | err e m =>
        rw [hq] at h4
        simp only [Outcome.toExcept, Option.some.injEq] at h4
        rw [← h4]; rfl
      | ok ip r2 m =>
        rw [hq] at h4
        simp only [Outcome.toExcept, Option.some.injEq] at h4
        have hl := (readFixed_ok h4.symm).2
        rw [← h4]
        simp only [andThen_ok, map_addAlloc, toExcept_addAlloc]
        have hp16 := erases_rU16 r2
        cases hr : rU16 r2 with
        | panic s k => rw [hr] at hp16; simp [Outcome.toExcept] at hp16
        | err e k =>
          rw [hr] at hp16
          simp only [Outcome.toExcept, Option.some.injEq] at hp16
          rw [← hp16]; rfl
        | ok port r3 k =>
          rw [hr] at hp16
          simp only [Outcome.toExcept, Option.some.injEq] at hp16
          rw [← hp16]
          simp [hl, Outcome.addAlloc, Outcome.map, Outcome.toExcept, toAddr]
    · simp only [h0, if_false]
      by_cases h1 : tag = 1
      · simp only [h1, if_true]
        have hn := erases_readN_u16 8 r
        cases hq : GV.Dec.readN rU16 8 r with
        | panic s m => rw [hq] at hn; simp [Outcome.toExcept] at hn
        | err e m =>
          rw [hq] at hn
          simp only [Outcome.toExcept, Option.some.injEq] at hn
          rw [← hn]; rfl
        | ok segs r2 m =>
          have hl := readN_length 8 r segs r2 m hq
          rw [hq] at hn
          simp only [Outcome.toExcept, Option.some.injEq] at hn
          rw [← hn]
          simp only [andThen_ok, map_addAlloc, toExcept_addAlloc, hl, ne_eq, not_true_eq_false, if_false]
          have hp16 := erases_rU16 r2
          cases hr : rU16 r2 with
          | panic s k => rw [hr] at hp16; simp [Outcome.toExcept] at hp16
          | err e k =>
            rw [hr] at hp16
            simp only [Outcome.toExcept, Option.some.injEq] at hp16
            rw [← hp16]; rfl
          | ok port r3 k =>
            rw [hr] at hp16
            simp only [Outcome.toExcept, Option.some.injEq] at hp16
            rw [← hp16]
            simp [Outcome.addAlloc, Outcome.map, Outcome.toExcept, v6Result_eq]
      · simp [h1, Outcome.map, Outcome.toExcept]

/-! ### Hand, Shake -/

theorem Erases.iteH {p p' : Dec α} {q q' : Parser α} (b : Prop) [Decidable b] (h1 : b → Erases p q)
    (h2 : ¬ b → Erases p' q') :
    Erases (fun bs => if b then p bs else p' bs) (fun bs => if b then q bs else q' bs) := by
  intro bs; by_cases hb : b <;> simp [hb, h1, h2, (h1 · bs), (h2 · bs)]

def toHand (h : GV.Msg.Hand) : GV.SerMsg.Hand :=
  { version := h.version, capabilities := h.capabilities, nonce := h.nonce, genesis := h.genesis,
    totalDifficulty := h.totalDifficulty, senderAddr := toAddr h.senderAddr,
    receiverAddr := toAddr h.receiverAddr, userAgent := h.userAgent }

def toShake (s : GV.Msg.Shake) : GV.SerMsg.Shake :=
  { version := s.version, capabilities := s.capabilities, genesis := s.genesis,
    totalDifficulty := s.totalDifficulty, userAgent := s.userAgent }

theorem capsTruncate_eq (n : Nat) : GV.Msg.capsTruncate n = GV.SerMsg.capsTruncate n := rfl

theorem erases_decHand (rd : Rdr) : Erases (fun bs => (GV.Msg.decHand rd bs).map toHand) GV.SerMsg.decHand := by
  have hm : ∀ bs, (GV.Msg.decHand rd bs).map toHand =
      Dec.bind (rU32 bs) fun version r =>
      Dec.bind (rU32 r) fun capab r =>
      Dec.bind (rU64 r) fun nonce r =>
      Dec.bind (rU64 r) fun td r =>
      Dec.bind (GV.Msg.decPeerAddr rd r) fun sender r =>
      Dec.bind (GV.Msg.decPeerAddr rd r) fun receiver r =>
      Dec.bind (GV.Msg.decString rd r) fun ua r =>
      Dec.bind (rHash rd r) fun genesis r =>
        .ok ({ version := version, capabilities := GV.SerMsg.capsTruncate capab, nonce := nonce, genesis := genesis,
               totalDifficulty := td, senderAddr := toAddr sender, receiverAddr := toAddr receiver,
               userAgent := ua } : GV.SerMsg.Hand) r 0 := by
    intro bs; unfold GV.Msg.decHand; simp only [map_bind]; rfl
  intro bs
  show ((GV.Msg.decHand rd bs).map toHand).toExcept = some (GV.SerMsg.decHand bs)
  rw [hm]
  unfold GV.SerMsg.decHand
  refine (Erases.bind erases_rU32 fun version => Erases.bind erases_rU32 fun capab =>
    Erases.bind erases_rU64 fun nonce => Erases.bind erases_rU64 fun td => ?_) bs
  refine Erases.bindM (erases_decPeerAddr rd) fun sender => Erases.bindM (erases_decPeerAddr rd) fun receiver => ?_
  exact Erases.bind (erases_decString rd) fun ua => Erases.bind (erases_rHash rd) fun genesis => erases_pure _

theorem erases_decShake (rd : Rdr) : Erases (fun bs => (GV.Msg.decShake rd bs).map toShake) GV.SerMsg.decShake := by
  have hm : ∀ bs, (GV.Msg.decShake rd bs).map toShake =
      Dec.bind (rU32 bs) fun version r =>
      Dec.bind (rU32 r) fun capab r =>
      Dec.bind (rU64 r) fun td r =>
      Dec.bind (GV.Msg.decString rd r) fun ua r =>
      Dec.bind (rHash rd r) fun genesis r =>
        .ok ({ version := version, capabilities := GV.SerMsg.capsTruncate capab, genesis := genesis,
               totalDifficulty := td, userAgent := ua } : GV.SerMsg.Shake) r 0 := by
    intro bs; unfold GV.Msg.decShake; simp only [map_bind]; rfl
  intro bs
  show ((GV.Msg.decShake rd bs).map toShake).toExcept = some (GV.SerMsg.decShake bs)
  rw [hm]
  unfold GV.SerMsg.decShake
  exact (Erases.bind erases_rU32 fun version => Erases.bind erases_rU32 fun capab =>
    Erases.bind erases_rU64 fun td => Erases.bind (erases_decString rd) fun ua =>
    Erases.bind (erases_rHash rd) fun genesis => erases_pure _) bs

theorem erases_decPeerError (rd : Rdr) :
    Erases (fun bs => (GV.Msg.decPeerError rd bs).map fun p => ({ code := p.1, message := p.2 } : GV.SerMsg.PeerError))
      GV.SerMsg.decPeerError := by
  have hm : ∀ bs, (GV.Msg.decPeerError rd bs).map (fun p => ({ code := p.1, message := p.2 } : GV.SerMsg.PeerError)) =
      Dec.bind (rU32 bs) fun code r => Dec.bind (GV.Msg.decString rd r) fun m r =>
        .ok ({ code := code, message := m } : GV.SerMsg.PeerError) r 0 := by
    intro bs; unfold GV.Msg.decPeerError; simp only [map_bind]; rfl
  intro bs
  show ((GV.Msg.decPeerError rd bs).map _).toExcept = some (GV.SerMsg.decPeerError bs)
  rw [hm]
  unfold GV.SerMsg.decPeerError
  exact (Erases.bind erases_rU32 fun code => Erases.bind (erases_decString rd) fun m => erases_pure _) bs

/-! ### the bodies of `decode_message` that `msg.rs` defines -/

section bodies
variable {P : Type}

/-- what a body carries, as the plain model's types (`none` for the payload arm) -/
inductive BodyV
  | pingPong (p : GV.SerMsg.PingPong)
  | banReason (r : Nat)
  | hash (h : Bytes)
  | locator (hs : List Bytes)
  | getPeerAddrs (caps : Nat)
  | peerAddrs (l : List GV.SerMsg.PeerAddr)
  | txHashSetRequest (t : GV.SerMsg.TxHashSetRequest)
  | txHashSetArchive (t : GV.SerMsg.TxHashSetArchive)
  | segmentRequest (s : GV.SerMsg.SegmentRequest)
  | payload

def toBodyV : GV.Msg.Body P → BodyV
  | .pingPong td h => .pingPong { totalDifficulty := td, height := h }
  | .banReason r => .banReason r
  | .hash h => .hash h
  | .locator hs => .locator hs
  | .getPeerAddrs c => .getPeerAddrs c
  | .peerAddrs l => .peerAddrs (l.map toAddr)
  | .txHashSetRequest h height => .txHashSetRequest { hash := h, height := height }
  | .txHashSetArchive h height bytes => .txHashSetArchive { hash := h, height := height, bytes := bytes }
  | .segmentRequest h id => .segmentRequest { blockHash := h, id := toSegId id }
  | .payload _ => .payload

/-- a plain parser with its result wrapped -/
def wrap {T : Type} (f : T → BodyV) (q : Parser T) : Parser BodyV := fun bs =>
  andThen (q bs) fun x r => .ok (f x, r)

theorem andThen_assoc {T U V : Type} (p : Except SerErr (T × Bytes)) (f : T → Bytes → Except SerErr (U × Bytes))
    (g : U → Bytes → Except SerErr (V × Bytes)) :
    andThen (andThen p f) g = andThen p (fun a r => andThen (f a r) g) := by
  cases p with
  | error e => rfl
  | ok v => obtain ⟨a, r⟩ := v; rfl

theorem erases_body_pingPong :
    Erases (fun bs => ((GV.Msg.decPingPong (P := P)) bs).map toBodyV) (wrap .pingPong GV.SerMsg.decPingPong) := by
  refine Erases.of_eq
    (p' := fun bs => Dec.bind (rU64 bs) fun td r => Dec.bind (rU64 r) fun h r =>
      .ok (BodyV.pingPong { totalDifficulty := td, height := h }) r 0)
    (q' := fun bs => andThen (readU64 bs) fun td r => andThen (readU64 r) fun h r =>
      .ok (BodyV.pingPong { totalDifficulty := td, height := h }, r)) ?_ ?_ ?_
  · intro bs; unfold GV.Msg.decPingPong; simp only [map_bind]; rfl
  · intro bs; simp only [wrap, GV.SerMsg.decPingPong, andThen_assoc, andThen_ok]
  · exact Erases.bind erases_rU64 fun td => Erases.bind erases_rU64 fun h => erases_pure _

theorem erases_body_hash (rd : Rdr) :
    Erases (fun bs => ((GV.Msg.decHashBody (P := P) rd) bs).map toBodyV) (wrap .hash decHash) := by
  refine Erases.of_eq
    (p' := fun bs => Dec.bind (rHash rd bs) fun h r => .ok (BodyV.hash h) r 0)
    (q' := fun bs => andThen (decHash bs) fun h r => .ok (BodyV.hash h, r)) ?_ ?_ ?_
  · intro bs; unfold GV.Msg.decHashBody; simp only [map_bind]; rfl
  · intro bs; rfl
  · exact Erases.bind (erases_rHash rd) fun h => erases_pure _

theorem erases_body_getPeerAddrs :
    Erases (fun bs => ((GV.Msg.decGetPeerAddrs (P := P)) bs).map toBodyV) (wrap .getPeerAddrs GV.SerMsg.decGetPeerAddrs) := by
  refine Erases.of_eq
    (p' := fun bs => Dec.bind (rU32 bs) fun capab r => .ok (BodyV.getPeerAddrs (GV.SerMsg.capsTruncate capab)) r 0)
    (q' := fun bs => andThen (readU32 bs) fun capab r => .ok (BodyV.getPeerAddrs (GV.SerMsg.capsTruncate capab), r)) ?_ ?_ ?_
  · intro bs; unfold GV.Msg.decGetPeerAddrs; simp only [map_bind]; rfl
  · intro bs; simp only [wrap, GV.SerMsg.decGetPeerAddrs, andThen_assoc, andThen_ok]
  · exact Erases.bind erases_rU32 fun c => erases_pure _

theorem erases_body_txHashSetRequest (rd : Rdr) :
    Erases (fun bs => ((GV.Msg.decTxHashSetRequest (P := P) rd) bs).map toBodyV)
      (wrap .txHashSetRequest GV.SerMsg.decTxHashSetRequest) := by
  refine Erases.of_eq
    (p' := fun bs => Dec.bind (rHash rd bs) fun h r => Dec.bind (rU64 r) fun height r =>
      .ok (BodyV.txHashSetRequest { hash := h, height := height }) r 0)
    (q' := fun bs => andThen (decHash bs) fun h r => andThen (readU64 r) fun height r =>
      .ok (BodyV.txHashSetRequest { hash := h, height := height }, r)) ?_ ?_ ?_
  · intro bs; unfold GV.Msg.decTxHashSetRequest; simp only [map_bind]; rfl
  · intro bs; simp only [wrap, GV.SerMsg.decTxHashSetRequest, andThen_assoc, andThen_ok]
  · exact Erases.bind (erases_rHash rd) fun h => Erases.bind erases_rU64 fun height => erases_pure _

theorem erases_body_txHashSetArchive (rd : Rdr) :
    Erases (fun bs => ((GV.Msg.decTxHashSetArchive (P := P) rd) bs).map toBodyV)
      (wrap .txHashSetArchive GV.SerMsg.decTxHashSetArchive) := by
  refine Erases.of_eq
    (p' := fun bs => Dec.bind (rHash rd bs) fun h r => Dec.bind (rU64 r) fun height r => Dec.bind (rU64 r) fun bytes r =>
      .ok (BodyV.txHashSetArchive { hash := h, height := height, bytes := bytes }) r 0)
    (q' := fun bs => andThen (decHash bs) fun h r => andThen (readU64 r) fun height r => andThen (readU64 r) fun bytes r =>
      .ok (BodyV.txHashSetArchive { hash := h, height := height, bytes := bytes }, r)) ?_ ?_ ?_
  · intro bs; unfold GV.Msg.decTxHashSetArchive; simp only [map_bind]; rfl
  · intro bs; simp only [wrap, GV.SerMsg.decTxHashSetArchive, andThen_assoc, andThen_ok]
  · exact Erases.bind (erases_rHash rd) fun h => Erases.bind erases_rU64 fun height =>
      Erases.bind erases_rU64 fun bytes => erases_pure _

theorem erases_body_segmentRequest (rd : Rdr) :
    Erases (fun bs => ((GV.Msg.decSegmentRequest (P := P) rd) bs).map toBodyV)
      (wrap .segmentRequest GV.SerMsg.decSegmentRequest) := by
  refine Erases.of_eq
    (p' := fun bs => Dec.bind (rHash rd bs) fun h r => Dec.bind (segmentId r) fun id r =>
      .ok (BodyV.segmentRequest { blockHash := h, id := toSegId id }) r 0)
    (q' := fun bs => andThen (decHash bs) fun h r => andThen (GV.SerSeg.decSegId r) fun id r =>
      .ok (BodyV.segmentRequest { blockHash := h, id := id }, r)) ?_ ?_ ?_
  · intro bs; unfold GV.Msg.decSegmentRequest; simp only [map_bind]; rfl
  · intro bs; simp only [wrap, GV.SerMsg.decSegmentRequest, andThen_assoc, andThen_ok]
  · exact Erases.bind (erases_rHash rd) fun h =>
      Erases.bindM (k := fun id r => .ok (BodyV.segmentRequest { blockHash := h, id := id }, r))
        erases_segmentId fun id => erases_pure _

theorem erases_body_locator (rd : Rdr) :
    Erases (fun bs => ((GV.Msg.decLocator (P := P) rd) bs).map toBodyV) (wrap .locator GV.SerMsg.decLocator) := by
  refine Erases.of_eq
    (p' := fun bs => Dec.bind (rU8 bs) fun len r =>
        if len > GV.Gen.MAX_LOCATORS % 256 then .err .tooLarge 0
        else Dec.withCapacity len 32 (Dec.bind (GV.Dec.readN (rHash rd) len r) fun hs r => .ok (BodyV.locator hs) r 0))
    (q' := fun bs => andThen (readU8 bs) fun len r =>
        if len > GV.Gen.MAX_LOCATORS % 256 then .error .tooLarge
        else andThen (GV.SerSeg.readItems decHash len r) fun hs r => .ok (BodyV.locator hs, r)) ?_ ?_ ?_
  · intro bs; unfold GV.Msg.decLocator; simp only [map_bind]
    congr 1; funext len r
    split
    · rfl
    · simp only [map_withCapacity, map_bind]; rfl
  · intro bs
    unfold wrap GV.SerMsg.decLocator
    cases readU8 bs with
    | error e => rfl
    | ok v => obtain ⟨len, r⟩ := v; simp only [andThen_ok]; split <;> rfl
  · refine Erases.bind erases_rU8 fun len => Erases.iteH _ (fun _ => erases_err _) fun hle => ?_
    refine Erases.withCapacity (Erases.bind (erases_readN (erases_rHash rd) len) fun hs => erases_pure _) _ _ ?_
    have : len ≤ 255 := by
      have : GV.Gen.MAX_LOCATORS % 256 ≤ 255 := by omega
      omega
    unfold ISIZE_MAX; omega

theorem erases_readN_map {p : Dec α} {g : α → β} {q : Parser β} (h : Erases (fun bs => (p bs).map g) q) :
    ∀ n, Erases (fun bs => (GV.Dec.readN p n bs).map (List.map g)) (GV.SerSeg.readItems q n) := by
  intro n
  induction n with
  | zero => intro bs; rfl
  | succ n ih =>
    refine Erases.of_eq
      (p' := fun bs => Dec.bind (p bs) fun x r =>
        Dec.bind ((GV.Dec.readN p n r).map (List.map g)) fun ys r' => .ok (g x :: ys) r' 0)
      (q' := fun bs => andThen (q bs) fun y r => andThen (GV.SerSeg.readItems q n r) fun ys r => .ok (y :: ys, r))
      ?_ (fun _ => rfl) ?_
    · intro bs
      simp only [GV.Dec.readN, map_bind]
      congr 1; funext x r
      cases GV.Dec.readN p n r <;> rfl
    · exact Erases.bindM (k := fun y r => andThen (GV.SerSeg.readItems q n r) fun ys r => .ok (y :: ys, r))
        h fun x => Erases.bind ih fun ys => erases_pure _

theorem erases_body_peerAddrs (rd : Rdr) :
    Erases (fun bs => ((GV.Msg.decPeerAddrs (P := P) rd) bs).map toBodyV) (wrap .peerAddrs GV.SerMsg.decPeerAddrs) := by
  refine Erases.of_eq
    (p' := fun bs => Dec.bind (rU32 bs) fun count r =>
        if count > GV.Gen.MAX_PEER_ADDRS then .err .tooLarge 0
        else if count = 0 then .ok (BodyV.peerAddrs []) r 0
        else Dec.withCapacity count GV.Msg.PEER_ADDR_MEM
          (Dec.bind ((GV.Dec.readN (GV.Msg.decPeerAddr rd) count r).map (List.map toAddr)) fun ps r =>
            .ok (BodyV.peerAddrs ps) r 0))
    (q' := fun bs => andThen (readU32 bs) fun count r =>
        if count > GV.Gen.MAX_PEER_ADDRS then .error .tooLarge
        else if count = 0 then .ok (BodyV.peerAddrs [], r)
        else andThen (GV.SerSeg.readItems GV.SerMsg.decPeerAddr count r) fun ps r => .ok (BodyV.peerAddrs ps, r)) ?_ ?_ ?_
  · intro bs; unfold GV.Msg.decPeerAddrs; simp only [map_bind]
    congr 1; funext count r
    split
    · rfl
    · split
      · rfl
      · simp only [map_withCapacity, map_bind]
        congr 1
        cases GV.Dec.readN (GV.Msg.decPeerAddr rd) count r <;> rfl
  · intro bs
    unfold wrap GV.SerMsg.decPeerAddrs
    cases readU32 bs with
    | error e => rfl
    | ok v =>
      obtain ⟨count, r⟩ := v
      simp only [andThen_ok]
      by_cases h1 : count > GV.Gen.MAX_PEER_ADDRS
      · simp [h1, andThen]
      · by_cases h2 : count = 0
        · simp [h1, h2, andThen]
        · simp [h1, h2]
  · refine Erases.bind erases_rU32 fun count => Erases.iteH _ (fun _ => erases_err _) fun hle =>
      Erases.ite _ (erases_pure _) ?_
    refine Erases.withCapacity (Erases.bind (erases_readN_map (erases_decPeerAddr rd) count) fun ps => erases_pure _) _ _ ?_
    have : count ≤ 256 := by unfold GV.Gen.MAX_PEER_ADDRS at hle; omega
    unfold ISIZE_MAX GV.Msg.PEER_ADDR_MEM; omega

/-- `BanReason` through the `BinReader` (a failed `read_i32` is read as 0 and leaves nothing unread) -/
theorem erases_body_banReason_bin :
    Erases (fun bs => ((GV.Msg.decBanReason (P := P) .bin) bs).map toBodyV) (wrap .banReason GV.SerMsg.decBanReason) := by
  intro bs
  show (((GV.Msg.decBanReason (P := P) .bin) bs).map toBodyV).toExcept = _
  unfold GV.Msg.decBanReason wrap GV.SerMsg.decBanReason GV.SerMsg.reasonOfI32
  cases h : readU32 bs with
  | ok v =>
    obtain ⟨u, r⟩ := v
    simp only
    have : GV.Msg.toI32 u = GV.SerMsg.toI32 u := rfl
    rw [this]
    split <;> simp_all [Outcome.map, Outcome.toExcept, toBodyV, andThen]
  | error e =>
    simp only
    split <;> simp_all [Outcome.map, Outcome.toExcept, toBodyV, andThen]

end bodies

/-! ### segment responses (`SegmentResponse<T>`, `OutputSegmentResponse`) -/

def toSegmentResponse (p : Bytes × GV.Dec.Segment α) : GV.SerMsg.SegmentResponse α :=
  { blockHash := p.1, segment := toSegment p.2 }

theorem erases_rSegmentResponse (rd : Rdr) {p : Dec α} {q : Parser α} (h : Erases p q) (sz : Nat) (hsz : sz ≤ 2^40) :
    Erases (fun bs => (rSegmentResponse rd p sz bs).map toSegmentResponse) (GV.SerMsg.decSegmentResponse q) := by
  refine Erases.of_eq
    (p' := fun bs => Dec.bind (rHash rd bs) fun hh r =>
      Dec.bind ((segment rd p sz r).map toSegment) fun s r =>
        .ok ({ blockHash := hh, segment := s } : GV.SerMsg.SegmentResponse α) r 0)
    (q' := GV.SerMsg.decSegmentResponse q) ?_ (fun _ => rfl) ?_
  · intro bs
    unfold rSegmentResponse
    simp only [map_bind]
    congr 1; funext hh r
    cases segment rd p sz r <;> rfl
  · unfold GV.SerMsg.decSegmentResponse
    exact Erases.bind (erases_rHash rd) fun hh => Erases.bind (erases_segment rd h sz hsz) fun s => erases_pure _

def toOutputSegmentResponse (p : Bytes × GV.Dec.Segment OutputId × Bytes) : GV.SerMsg.OutputSegmentResponse :=
  { response := { blockHash := p.1, segment := toSegment p.2.1 }, outputBitmapRoot := p.2.2 }

theorem erases_rOutputSegmentResponse (rd : Rdr) :
    Erases (fun bs => (rOutputSegmentResponse rd bs).map toOutputSegmentResponse) GV.SerMsg.decOutputSegmentResponse := by
  refine Erases.of_eq
    (p' := fun bs => Dec.bind ((rSegmentResponse rd (rOutputId rd) OUTPUT_ID_MEM bs).map toSegmentResponse) fun resp r =>
      Dec.bind (rHash rd r) fun root r =>
        .ok ({ response := resp, outputBitmapRoot := root } : GV.SerMsg.OutputSegmentResponse) r 0)
    (q' := GV.SerMsg.decOutputSegmentResponse) ?_ (fun _ => rfl) ?_
  · intro bs
    unfold rOutputSegmentResponse
    simp only [map_bind]
    cases rSegmentResponse rd (rOutputId rd) OUTPUT_ID_MEM bs <;> rfl
  · unfold GV.SerMsg.decOutputSegmentResponse
    exact Erases.bind (erases_rSegmentResponse rd (erases_rOutputId rd) _ (by unfold OUTPUT_ID_MEM; omega)) fun resp =>
      Erases.bind (erases_rHash rd) fun root => erases_pure _

end GV.DecSer
