import GrinVerif.Model.Pmmr
import GrinVerif.Gen.FnsPmmr
import GrinVerif.Lemmas.PmmrCoord
import GrinVerif.Lemmas.PmmrBranch
import GrinVerif.Lemmas.XlateArith
/-! Loop invariants tying the translated `while` loops of `pmmr.rs` (`Gen/FnsPmmr.lean`) to the
structural recursions of the hand-written model (`Model/Pmmr.lean`), and range facts about
`peakMapHeight` used to show that the wrapping arithmetic of the translated code does not wrap. -/

namespace GV.Xlate
open GV GV.Pmmr GV.Pmmr.Co GV.Gen

/-- state of the translated loop of `peak_map_height` after it has run from peak size `2^k - 1`:
the hand model's `greedy k`.  `pm < 2^(64-k)` is what keeps `peak_map <<= 1` from wrapping. -/
theorem pmh_loop_eq : ∀ (k : Nat), k ≤ 64 → ∀ (fuel s pm : Nat), k ≤ fuel → s < 2^64 → pm < 2^(64-k) →
    Fns.peak_map_height_loop1 fuel s (2^k - 1) pm = ((greedy k s pm).2, 0, (greedy k s pm).1) := by
  intro k
  induction k with
  | zero =>
    intro _ fuel s pm _ _ _
    cases fuel <;> simp [Fns.peak_map_height_loop1, greedy]
  | succ k ih =>
    intro hk fuel s pm hf hs hpm
    obtain ⟨f, rfl⟩ : ∃ f, fuel = f + 1 := ⟨fuel - 1, by omega⟩
    have h2 : 2^(k+1) = 2 * 2^k := by rw [Nat.pow_succ]; omega
    have h3 : 2^(64-k) = 2 * 2^(64-(k+1)) := by
      rw [show 64 - k = (64 - (k+1)) + 1 by omega, Nat.pow_succ]; omega
    have h4 : 2^(64-(k+1)) ≤ 2^63 := Nat.pow_le_pow_right (by omega) (by omega)
    have hkpos : 0 < 2^k := Nat.pow_pos (by omega)
    have hne : (2^(k+1) - 1 != 0) = true := by simp; omega
    have hshl : shlW pm 1 = 2 * pm := shlW_one (by omega)
    have hshr : shrW (2^(k+1) - 1) 1 = 2^k - 1 := by rw [shrW_one]; omega
    rw [Fns.peak_map_height_loop1]
    simp only [hne, if_true, hshl, hshr]
    by_cases hge : s ≥ 2^(k+1) - 1
    · have hsub : subW s (2^(k+1) - 1) = s - (2^(k+1) - 1) := subW_eq hs hge
      simp only [hge, decide_true, if_true, hsub, two_mul_or_one]
      rw [ih (by omega) f _ _ (by omega) (by omega) (by omega)]
      simp [greedy, hge]
    · simp only [hge, decide_false, Bool.false_eq_true, if_false]
      rw [ih (by omega) f _ _ (by omega) hs (by omega)]
      simp [greedy, hge]

/-- the translated loop of `peak_map_height` exits within `k` iterations from peak size `2^k - 1` -/
theorem pmh_loop_exits : ∀ (k fuel s pm : Nat), k ≤ fuel →
    Fns.peak_map_height_loop1_exits fuel s (2^k - 1) pm = true := by
  intro k
  induction k with
  | zero =>
    intro fuel s pm _
    cases fuel <;> simp [Fns.peak_map_height_loop1_exits]
  | succ k ih =>
    intro fuel s pm hf
    obtain ⟨f, rfl⟩ : ∃ f, fuel = f + 1 := ⟨fuel - 1, by omega⟩
    have h2 : 2^(k+1) = 2 * 2^k := by rw [Nat.pow_succ]; omega
    have hkpos : 0 < 2^k := Nat.pow_pos (by omega)
    have hne : (2^(k+1) - 1 != 0) = true := by simp; omega
    have hshr : shrW (2^(k+1) - 1) 1 = 2^k - 1 := by rw [shrW_one]; omega
    rw [Fns.peak_map_height_loop1_exits]
    simp only [hne, if_true, hshr]
    exact ih f _ _ (by omega)

/-- the same for `peak_sizes_height`: the `Vec` is the accumulator followed by `greedySizes` -/
theorem psh_loop_eq : ∀ (k : Nat), k ≤ 64 → ∀ (fuel s : Nat) (acc : List Nat), k ≤ fuel → s < 2^64 →
    Fns.peak_sizes_height_loop1 fuel s (2^k - 1) acc
      = ((greedySizes k s).2, 0, acc ++ (greedySizes k s).1) := by
  intro k
  induction k with
  | zero =>
    intro _ fuel s acc _ _
    cases fuel <;> simp [Fns.peak_sizes_height_loop1, greedySizes]
  | succ k ih =>
    intro hk fuel s acc hf hs
    obtain ⟨f, rfl⟩ : ∃ f, fuel = f + 1 := ⟨fuel - 1, by omega⟩
    have h2 : 2^(k+1) = 2 * 2^k := by rw [Nat.pow_succ]; omega
    have hkpos : 0 < 2^k := Nat.pow_pos (by omega)
    have hne : (2^(k+1) - 1 != 0) = true := by simp; omega
    have hshr : shrW (2^(k+1) - 1) 1 = 2^k - 1 := by rw [shrW_one]; omega
    rw [Fns.peak_sizes_height_loop1]
    simp only [hne, if_true, hshr]
    by_cases hge : s ≥ 2^(k+1) - 1
    · have hsub : subW s (2^(k+1) - 1) = s - (2^(k+1) - 1) := subW_eq hs hge
      simp only [hge, decide_true, if_true, hsub]
      rw [ih (by omega) f _ _ (by omega) (by omega)]
      simp [greedySizes, hge]
    · simp only [hge, decide_false, Bool.false_eq_true, if_false]
      rw [ih (by omega) f _ _ (by omega) hs]
      simp [greedySizes, hge]

theorem psh_loop_exits : ∀ (k fuel s : Nat) (acc : List Nat), k ≤ fuel →
    Fns.peak_sizes_height_loop1_exits fuel s (2^k - 1) acc = true := by
  intro k
  induction k with
  | zero =>
    intro fuel s acc _
    cases fuel <;> simp [Fns.peak_sizes_height_loop1_exits]
  | succ k ih =>
    intro fuel s acc hf
    obtain ⟨f, rfl⟩ : ∃ f, fuel = f + 1 := ⟨fuel - 1, by omega⟩
    have h2 : 2^(k+1) = 2 * 2^k := by rw [Nat.pow_succ]; omega
    have hkpos : 0 < 2^k := Nat.pow_pos (by omega)
    have hne : (2^(k+1) - 1 != 0) = true := by simp; omega
    have hshr : shrW (2^(k+1) - 1) 1 = 2^k - 1 := by rw [shrW_one]; omega
    rw [Fns.peak_sizes_height_loop1_exits]
    simp only [hne, if_true, hshr]
    exact ih f _ _ (by omega)

/-! ### range facts about `peakMapHeight` -/

/-- with `(pm, h) = peakMapHeight pos`: the subtree below `pos` has `2·2^h - 1 ≤ pos + 1` nodes,
`pm ≤ pos`, and `pm + 1 ≤ pos` when `pos` is not a leaf -/
theorem pmh_bounds (pos : Nat) :
    2 * 2^(peakMapHeight pos).2 ≤ pos + 2 ∧ (peakMapHeight pos).1 ≤ pos
      ∧ ((peakMapHeight pos).2 ≠ 0 → (peakMapHeight pos).1 + 1 ≤ pos) := by
  obtain ⟨n, h, hh, rfl⟩ := coord_surj pos
  rw [peakMapHeight_co n h hh]
  have l := leftmost_coord hh
  have := le_mmr n
  refine ⟨by simp only; omega, by simp only; omega, ?_⟩
  simp only; omega

theorem height_lt_64 {pos : Nat} (h : pos < 2^64) : (peakMapHeight pos).2 < 64 := by
  have b := (pmh_bounds pos).1
  have : 2^(peakMapHeight pos).2 < 2^64 := by omega
  exact (Nat.pow_lt_pow_iff_right (by omega)).1 this

theorem height_lt_63 {pos : Nat} (h : pos + 2 < 2^64) : (peakMapHeight pos).2 < 63 := by
  have b := (pmh_bounds pos).1
  have : 2^(peakMapHeight pos).2 < 2^63 := by omega
  exact (Nat.pow_lt_pow_iff_right (by omega)).1 this

theorem height_le_pos (pos : Nat) : (peakMapHeight pos).2 ≤ pos := by
  have b := (pmh_bounds pos).1
  have := @Nat.lt_two_pow_self (peakMapHeight pos).2
  omega

/-- in the right-child case the left sibling exists: `2·2^h ≤ pos + 1` -/
theorem right_child_room {pos : Nat} (hb : bitSet (peakMapHeight pos).1 (peakMapHeight pos).2 = true) :
    2 * 2^(peakMapHeight pos).2 ≤ pos + 1 := by
  obtain ⟨n, h, hh, rfl⟩ := coord_surj pos
  rw [peakMapHeight_co n h hh] at hb ⊢
  simp only at hb ⊢
  rw [bitSet_coord hh] at hb
  have hlt : h < trailingOnes n := by simpa using hb
  have := left_sibling_coord hlt
  omega

/-! ### `family_branch` -/

/-- the level-`j` ancestor sits above a full subtree: `2·2^j ≤ pos + 2` -/
theorem cpos_up_room (n j : Nat) : 2 * 2^j ≤ cpos (up n j, j) + 2 := by
  have := leftmost_coord (up_valid n j)
  simp only [cpos]; omega

theorem fb_loop_eq (n size : Nat) (hsize : size ≤ 2^63) :
    ∀ (fuelT j fuelM : Nat) (acc : List (Nat × Nat)) (sib : Nat),
      64 ≤ j + fuelT → size ≤ cpos (up n j, j) + fuelM → cpos (up n j, j) + 1 < 2^64 →
      (Fns.family_branch_loop1 size n fuelT (2^j) acc (cpos (up n j, j)) sib).2.1
        = acc ++ familyBranchLoop n size fuelM (cpos (up n j, j)) j := by
  intro fuelT
  induction fuelT with
  | zero =>
    intro j fuelM acc sib hj hM hc
    have room := cpos_up_room n j
    have : ¬ cpos (up n j, j) + 1 < size := by
      intro hlt
      have : 2^j ≤ 2^62 := by omega
      have := (Nat.pow_le_pow_iff_right (a := 2) (by omega)).1 this
      omega
    cases fuelM <;> simp [Fns.family_branch_loop1, familyBranchLoop, this]
  | succ f ih =>
    intro j fuelM acc sib hj hM hc
    have room := cpos_up_room n j
    have hpos := two_pow_pos j
    rw [Fns.family_branch_loop1]
    rw [addW_eq hc]
    by_cases hlt : cpos (up n j, j) + 1 < size
    · obtain ⟨m, rfl⟩ : ∃ m, fuelM = m + 1 := ⟨fuelM - 1, by omega⟩
      have hj62 : 2^j ≤ 2^62 := by omega
      have hjlt : j ≤ 62 := (Nat.pow_le_pow_iff_right (a := 2) (by omega)).1 hj62
      have hmul : mulW 2 (2^j) = 2 * 2^j := mulW_eq (by omega)
      have hshl : shlW (2^j) 1 = 2^(j+1) := by rw [shlW_one (by omega), Nat.pow_succ]; omega
      have hbs : ∀ a b : Nat, (a / 2^b % 2 == 1) = bitSet a b := fun _ _ => rfl
      rw [familyBranchLoop]
      simp only [hlt, decide_true, if_true, and_two_pow_ne_zero, hbs, hmul, hshl]
      cases hb : bitSet n j with
      | true =>
        obtain ⟨_, _, h3, h4, _⟩ := step_right hb
        have e1 : cpos (up n j, j) + 1 = cpos (up n (j+1), j+1) := by omega
        simp only [if_true]
        rw [subW_eq (by omega) (by omega), e1]
        by_cases hge : cpos (up n (j+1), j+1) ≥ size
        · simp [hge]
        · simp only [hge, decide_false, Bool.false_eq_true, if_false]
          rw [ih (j+1) m _ _ (by omega) (by omega) (by omega)]
          simp
      | false =>
        obtain ⟨_, _, h3, h4, _⟩ := step_left hb
        have e1 : cpos (up n j, j) + 2 * 2^j = cpos (up n (j+1), j+1) := by omega
        simp only [Bool.false_eq_true, if_false]
        rw [addW_eq (by omega), subW_eq (by omega) (by omega), e1]
        by_cases hge : cpos (up n (j+1), j+1) ≥ size
        · simp [hge]
        · simp only [hge, decide_false, Bool.false_eq_true, if_false]
          rw [ih (j+1) m _ _ (by omega) (by omega) (by omega)]
          simp
    · cases fuelM <;> simp [familyBranchLoop, hlt]

/-- the translated loop of `family_branch` exits within `64 - j` iterations -/
theorem fb_loop_exits (n size : Nat) (hsize : size ≤ 2^63) :
    ∀ (fuelT j : Nat) (acc : List (Nat × Nat)) (sib : Nat),
      64 ≤ j + fuelT → cpos (up n j, j) + 1 < 2^64 →
      Fns.family_branch_loop1_exits size n fuelT (2^j) acc (cpos (up n j, j)) sib = true := by
  intro fuelT
  induction fuelT with
  | zero =>
    intro j acc sib hj hc
    have room := cpos_up_room n j
    have : ¬ cpos (up n j, j) + 1 < size := by
      intro hlt
      have : 2^j ≤ 2^62 := by omega
      have := (Nat.pow_le_pow_iff_right (a := 2) (by omega)).1 this
      omega
    simp [Fns.family_branch_loop1_exits, addW_eq hc, this]
  | succ f ih =>
    intro j acc sib hj hc
    have room := cpos_up_room n j
    have hpos := two_pow_pos j
    rw [Fns.family_branch_loop1_exits]
    rw [addW_eq hc]
    by_cases hlt : cpos (up n j, j) + 1 < size
    · have hj62 : 2^j ≤ 2^62 := by omega
      have hjlt : j ≤ 62 := (Nat.pow_le_pow_iff_right (a := 2) (by omega)).1 hj62
      have hmul : mulW 2 (2^j) = 2 * 2^j := mulW_eq (by omega)
      have hshl : shlW (2^j) 1 = 2^(j+1) := by rw [shlW_one (by omega), Nat.pow_succ]; omega
      have hbs : ∀ a b : Nat, (a / 2^b % 2 == 1) = bitSet a b := fun _ _ => rfl
      simp only [hlt, decide_true, if_true, and_two_pow_ne_zero, hbs, hmul, hshl]
      cases hb : bitSet n j with
      | true =>
        obtain ⟨_, _, h3, h4, _⟩ := step_right hb
        have e1 : cpos (up n j, j) + 1 = cpos (up n (j+1), j+1) := by omega
        simp only [if_true]
        rw [e1]
        by_cases hge : cpos (up n (j+1), j+1) ≥ size
        · simp [hge]
        · simp only [hge, decide_false, Bool.false_eq_true, if_false]
          exact ih (j+1) _ _ (by omega) (by omega)
      | false =>
        obtain ⟨_, _, h3, h4, _⟩ := step_left hb
        have e1 : cpos (up n j, j) + 2 * 2^j = cpos (up n (j+1), j+1) := by omega
        simp only [Bool.false_eq_true, if_false]
        rw [addW_eq (by omega), e1]
        by_cases hge : cpos (up n (j+1), j+1) ≥ size
        · simp [hge]
        · simp only [hge, decide_false, Bool.false_eq_true, if_false]
          exact ih (j+1) _ _ (by omega) (by omega)
    · simp [hlt]

end GV.Xlate
