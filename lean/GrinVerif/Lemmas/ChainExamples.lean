import GrinVerif.Model.ChainImpl
/-! A small concrete block tree used by the non-vacuity examples of C01/C02/C03/C06/C13:

    0 ── 1 ── 3 ── 4        (3 spends the genesis output 100; 4 re-creates commitment 100)
     └── 2                  (a lighter sibling of 1)
         1 ── 9             (invalid: spends an output that never existed)
-/
namespace GV.Chain.Ex

def P : Params := { maturity := 3, reward := 60, hfInterval := 3, maxOrphans := 100 }

def G : Blk := { id := 0, parent := none, h := 0, work := 1, ver := 1, ts := 0, ins := [], outs := [(100, false)], kers := [.cb], tags := [] }
def B1 : Blk := { id := 1, parent := some 0, h := 1, work := 3, ver := 1, ts := 1, ins := [], outs := [(101, true)], kers := [.cb], tags := [] }
def B2 : Blk := { id := 2, parent := some 0, h := 1, work := 2, ver := 1, ts := 1, ins := [], outs := [(102, true)], kers := [.cb], tags := [] }
def B3 : Blk := { id := 3, parent := some 1, h := 2, work := 5, ver := 1, ts := 2, ins := [100], outs := [(103, true), (104, false)], kers := [.cb, .plain 0], tags := [] }
def B4 : Blk := { id := 4, parent := some 3, h := 3, work := 7, ver := 2, ts := 3, ins := [104], outs := [(105, true), (100, false)], kers := [.cb, .plain 0], tags := [] }
def B9 : Blk := { id := 9, parent := some 1, h := 2, work := 9, ver := 1, ts := 2, ins := [999], outs := [(109, true)], kers := [.cb], tags := [] }

def outs : List OutDef :=
  [⟨100, false, 60⟩, ⟨101, true, 60⟩, ⟨102, true, 60⟩, ⟨103, true, 60⟩, ⟨104, false, 60⟩,
   ⟨105, true, 60⟩, ⟨109, true, 60⟩]

/-- a fresh node over the tree -/
def N : Node := { outs := outs, blks := [G, B1, B2, B3, B4, B9] }

end GV.Chain.Ex
