import GrinVerif.Lemmas.SegPruned
import GrinVerif.Lemmas.SegAncestor
/-! The completely compacted full segment (C16): the last position of the segment lies strictly
inside a compacted subtree.  `from_pmmr(.., prunable = true)` finds neither leaf data nor hashes in
the range, takes the "fully pruned segment" branch and ships one hash — the first position of the
family branch that is on file — with a proof that starts above it; `Segment::root` answers
`Ok(None)`; `first_unpruned_parent` walks up the family branch, finds the bitmap empty below every
ancestor up to and including that position, and returns its hash.  Part 1: coordinates, the range
is off file, nothing in it is required, the walk-up lemma.  Core Lean only. -/
namespace GV.Seg
open GV GV.Pmmr

variable {α H : Type}

/-- position of the level-`j` ancestor of leaf `n` -/
def anc (n j : Nat) : Nat := Co.cpos (Co.up n j, j)

theorem anc_eq (n j : Nat) : anc n j = mmr (Co.up n j) + j := rfl

theorem anc_lt_succ (n j : Nat) : anc n j < anc n (j + 1) := Co.cpos_up_lt_succ n j

theorem anc_mono (n : Nat) {j k : Nat} (h : j ≤ k) : anc n j ≤ anc n k := by
  obtain ⟨d, rfl⟩ := Nat.exists_eq_add_of_le h
  exact cpos_up_mono n d j

theorem anc_strict (n : Nat) {j k : Nat} (h : j < k) : anc n j < anc n k := by
  have h1 := anc_lt_succ n j
  have h2 := anc_mono n (show j + 1 ≤ k from h)
  omega

theorem branchCo_succ (n j d : Nat) :
    Co.branchCo n j (d + 1) = (anc n (j + 1), Co.cpos (Co.sibCo n j)) :: Co.branchCo n (j + 1) d := by
  simp only [Co.branchCo, List.range'_succ, List.map_cons, anc]

/-- the first level above `g` at which `P` holds -/
theorem first_true (P : Nat → Prop) : ∀ (D g : Nat), ¬ P g → P (g + D) →
    ∃ e, e < D ∧ (∀ i, i ≤ e → ¬ P (g + i)) ∧ P (g + e + 1) := by
  intro D
  induction D with
  | zero => intro g h1 h2; exact absurd h2 h1
  | succ D ih =>
    intro g h1 h2
    by_cases h : P (g + 1)
    · refine ⟨0, by omega, ?_, h⟩
      intro i hi
      have : i = 0 := by omega
      subst this; exact h1
    · have e0 : g + (D + 1) = g + 1 + D := by omega
      rw [e0] at h2
      obtain ⟨e, he, hno, hyes⟩ := ih (g + 1) h h2
      refine ⟨e + 1, by omega, ?_, ?_⟩
      · intro i hi
        cases i with
        | zero => exact h1
        | succ i =>
          have := hno i (by omega)
          have e1 : g + 1 + i = g + (i + 1) := by omega
          rw [e1] at this; exact this
      · have e1 : g + 1 + e + 1 = g + (e + 1) + 1 := by omega
        rw [e1] at hyes; exact hyes

/-! ### everything below an off-file node is off file -/

section Off
variable {hf : HashFn α H} {f : Nat → α} {N : Nat} {b : Nat → Bool} {V : View α H}

theorem subtree_off_file (pv : PrunedView hf f N b V) : ∀ (h n : Nat), h ≤ trailingOnes n → n < N →
    V.fromFile (mmr n + h) = none →
    ∀ q, mmr (n + 1 - 2 ^ h) ≤ q → q ≤ mmr n + h → V.fromFile q = none := by
  intro h
  induction h with
  | zero =>
    intro n _ _ hoff q h1 h2
    simp only [Nat.pow_zero, Nat.add_sub_cancel, Nat.add_zero] at h1 h2 hoff
    have : q = mmr n := by omega
    subst this; exact hoff
  | succ k ih =>
    intro n hv hn hoff q h1 h2
    obtain ⟨c1, c2, c3, _⟩ := Co.left_sibling_coord (show k < trailingOnes n from hv)
    obtain ⟨hL, hR, _⟩ := pv.compacted n k hv hn (Or.inl hoff)
    obtain ⟨d1, d2⟩ := Co.leftmost_coord (show k ≤ trailingOnes n by omega)
    obtain ⟨g1, g2⟩ := Co.leftmost_coord c1
    have hp := two_pow_succ k
    have hpos : 0 < 2 ^ k := Nat.pow_pos (by omega)
    have eqL : n - 2 ^ k + 1 - 2 ^ k = n + 1 - 2 ^ (k + 1) := by omega
    by_cases hq : q = mmr n + (k + 1)
    · subst hq; exact hoff
    · by_cases hq2 : q ≤ mmr (n - 2 ^ k) + k
      · exact ih (n - 2 ^ k) c1 (by omega) hL q (by rw [eqL]; exact h1) hq2
      · exact ih n (by omega) hn hR q (by omega) (by omega)

end Off

/-! ### a range without marked leaves: nothing required, nothing live -/

theorem even_of_trailingOnes_zero {j : Nat} (h : trailingOnes j = 0) : j % 2 = 0 := by
  rw [trailingOnes_eq] at h
  split at h
  · omega
  · omega

/-- the leaves `a·2^g .. (a+1)·2^g − 1` of a full block of height `g ≥ 1` inside the MMR: none is
required when none is marked (the sibling of each lies in the block, none is the last position) -/
theorem block_not_required (b : Nat → Bool) (N g a : Nat) (hg : 1 ≤ g) (hN : N < 2 ^ 32)
    (hfit : (a + 1) * 2 ^ g ≤ N)
    (hun : ∀ j, a * 2 ^ g ≤ j → j < (a + 1) * 2 ^ g → b j = false) :
    ∀ j, a * 2 ^ g ≤ j → j < (a + 1) * 2 ^ g → required (some b) (mmr N) (mmr j) = false := by
  intro j h1 h2
  obtain ⟨g', rfl⟩ : ∃ g', g = g' + 1 := ⟨g - 1, by omega⟩
  have hp := two_pow_succ g'
  have eX : a * 2 ^ (g' + 1) = 2 * (a * 2 ^ g') := by rw [hp]; ac_rfl
  have eY : (a + 1) * 2 ^ (g' + 1) = 2 * ((a + 1) * 2 ^ g') := by rw [hp]; ac_rfl
  rw [eX] at h1 hun
  rw [eY] at h2 hfit hun
  rw [required_leaf b N j (by omega) hN]
  have hb1 : b j = false := hun j h1 h2
  have hm1 := mmr_succ j
  have hm2 : mmr (j + 1) ≤ mmr N := Co.mmr_le_mmr (by omega)
  by_cases ht : trailingOnes j = 0
  · have hev := even_of_trailingOnes_zero ht
    have hb2 : b (j + 1) = false := hun (j + 1) (by omega) (by omega)
    have hm3 : mmr (j + 1) < mmr N := Co.mmr_lt_mmr (by omega)
    have e2 : (mmr j == mmr N - 1) = false := by
      simp only [beq_eq_false_iff_ne, ne_eq]; omega
    simp [ht, hb1, hb2, e2]
  · have hodd := odd_of_trailingOnes (show 1 ≤ trailingOnes j by omega)
    have hb2 : b (j - 1) = false := hun (j - 1) (by omega) (by omega)
    have e2 : (mmr j == mmr N - 1) = false := by
      simp only [beq_eq_false_iff_ne, ne_eq]; omega
    simp [ht, hb1, hb2, e2]

/-- nothing required in `lo..=hi` ⇒ no subtree inside `lo..=hi` is live -/
theorem liveAt_false_of_range (bm : Option (Nat → Bool)) (S lo hi : Nat)
    (hreq : ∀ q, lo ≤ q → q ≤ hi → height q = 0 → required bm S q = false) :
    ∀ h p, height p = h → lo ≤ p + 2 - 2 ^ (h + 1) → p ≤ hi → liveAt bm S h p = false := by
  intro h
  induction h with
  | zero =>
    intro p hp hlo hhi
    simp only [liveAt]
    exact hreq p (by simpa using hlo) hhi hp
  | succ h ih =>
    intro p hp hlo hhi
    have hb := GV.Store.height_bound p
    rw [hp] at hb
    obtain ⟨hr, hl⟩ := height_children p h hp
    have hp1 := two_pow_succ h
    have hp2 := two_pow_succ (h + 1)
    have hpos : 0 < 2 ^ h := Nat.pow_pos (by omega)
    rw [liveAt, ih (p - 2 ^ (h + 1)) hl (by omega) (by omega), ih (p - 1) hr (by omega) (by omega)]
    rfl

theorem holds_dead (hf : HashFn α H) (f : Nat → α) (s : Segment α H) (bm : Option (Nat → Bool))
    (S lo hi : Nat)
    (hreq : ∀ q, lo ≤ q → q ≤ hi → height q = 0 → required bm S q = false) :
    Holds hf f s bm S (fun _ => False) lo hi where
  leaf := fun q h1 h2 hl hr => by rw [hreq q h1 h2 hl] at hr; cases hr
  left := by
    intro p k h1 h2 hh _ hR
    have hb := GV.Store.height_bound p
    rw [hh] at hb
    obtain ⟨hr, _⟩ := height_children p k hh
    have hp1 := two_pow_succ k
    have hp2 := two_pow_succ (k + 1)
    have hpos : 0 < 2 ^ k := Nat.pow_pos (by omega)
    rw [liveAt_false_of_range bm S lo hi hreq k (p - 1) hr (by omega) (by omega)] at hR
    cases hR
  right := by
    intro p k h1 h2 hh hL _
    have hb := GV.Store.height_bound p
    rw [hh] at hb
    obtain ⟨_, hl⟩ := height_children p k hh
    have hp1 := two_pow_succ k
    have hp2 := two_pow_succ (k + 1)
    have hpos : 0 < 2 ^ k := Nat.pow_pos (by omega)
    rw [liveAt_false_of_range bm S lo hi hreq k (p - 2 ^ (k + 1)) hl (by omega) (by omega)] at hL
    cases hL

/-- `Segment::root` of a full segment that carries no leaves, over a range in which nothing is
required: `Ok(None)` — whatever hashes the segment carries -/
theorem rootWith_dead (hf : HashFn α H) (f : Nat → α) (s : Segment α H) (b : Nat → Bool) (S g p : Nat)
    (hp : height p = g) (hnol : s.leafPos.zip s.leafData = [])
    (hreq : ∀ q, p + 2 - 2 ^ (g + 1) ≤ q → q ≤ p → height q = 0 → required (some b) S q = false)
    (pks : List Nat) :
    rootWith hf s S (some b) (treeRange g p) true pks = .ok none := by
  have hinv : IterInv f (fun _ => False) (s.leafPos.zip s.leafData) (p + 2 - 2 ^ (g + 1)) := by
    rw [hnol]
    exact ⟨List.Pairwise.nil, fun e he => (by cases he), fun q _ hn => False.elim hn⟩
  rw [rootWith_tree_live hf f s (some b) S _ g p hp (holds_dead hf f s (some b) S _ p hreq) hinv pks]
  unfold entryAt
  rw [liveAt_false_of_range (some b) S _ p hreq g p hp (Nat.le_refl _) (Nat.le_refl _)]
  rfl

/-! ### the bitmap range `first_unpruned_parent` looks at, in coordinates -/

theorem leftmost_co' {n h : Nat} (hh : h ≤ trailingOnes n) :
    bintreeLeftmost (mmr n + h) = mmr (n + 1 - 2 ^ h) := by
  obtain ⟨_, h2⟩ := Co.leftmost_coord hh
  unfold bintreeLeftmost
  rw [Co.height_co n h hh]; omega

theorem rightmost_co' {n h : Nat} (hh : h ≤ trailingOnes n) :
    bintreeRightmost (mmr n + h) = mmr n := by
  unfold bintreeRightmost
  rw [Co.height_co n h hh]; omega

/-- the leaf range of the node `(n, h)`: leaves `n + 1 − 2^h ..= n` -/
theorem subtreeLeafRange_co {n h N : Nat} (hh : h ≤ trailingOnes n) (hn : n < N) :
    subtreeLeafRange (mmr n + h) N = (n + 1 - 2 ^ h, n + 1) := by
  unfold subtreeLeafRange
  rw [leftmost_co' hh, rightmost_co' hh, nLeaves_succ_leaf, nLeaves_succ_leaf]
  have : min (n + 1) N = n + 1 := Nat.min_eq_left (by omega)
  rw [this]; rfl

theorem rangeCard_co_zero (b : Nat → Bool) {n h N : Nat} (hh : h ≤ trailingOnes n) (hn : n < N)
    (hN : N < 2 ^ 32) (hun : ∀ j, n + 1 - 2 ^ h ≤ j → j ≤ n → b j = false) :
    rangeCard b (subtreeLeafRange (mmr n + h) N).1 (subtreeLeafRange (mmr n + h) N).2 = 0 := by
  rw [subtreeLeafRange_co hh hn]
  unfold rangeCard
  simp only
  have hle : n + 1 - 2 ^ h ≤ n + 1 := Nat.sub_le _ _
  have e1 : (n + 1 - 2 ^ h) % 2 ^ 32 = n + 1 - 2 ^ h := Nat.mod_eq_of_lt (by omega)
  have e2 : (n + 1) % 2 ^ 32 = n + 1 := Nat.mod_eq_of_lt (by omega)
  rw [e1, e2, List.countP_eq_zero]
  intro j hj
  rw [List.mem_range'_1] at hj
  rw [hun j (by omega) (by omega)]
  simp

/-! ### the segment of one hash, and the walk-up -/

/-- the "fully pruned segment" `from_pmmr` builds: one hash at `a`, no leaves -/
def parentSeg (id : Ident) (a : Nat) (x : H) (proof : List H) : Segment α H :=
  { id := id, hashPos := [a], hashes := [x], leafPos := [], leafData := [], proof := proof }

theorem parentSeg_getHash_self (id : Ident) (a : Nat) (x : H) (proof : List H) :
    (parentSeg id a x proof : Segment α H).getHash a = .ok x := by
  simp [Segment.getHash, parentSeg, lookup]

theorem parentSeg_getHash_ne (id : Ident) (a : Nat) (x : H) (proof : List H) (q : Nat) (hq : a ≠ q) :
    (parentSeg id a x proof : Segment α H).getHash q = .err (.missingHash q) := by
  simp [Segment.getHash, parentSeg, lookup, hq]

/-- the search of `from_pmmr` along the family branch: the first ancestor on file -/
theorem firstOnFile_branchCo (V : View α H) (n : Nat) (x : H) : ∀ (e j r : Nat),
    (∀ i, i < e → V.fromFile (anc n (j + i + 1)) = none) →
    V.fromFile (anc n (j + e + 1)) = some x →
    firstOnFile V (Co.branchCo n j (e + 1 + r)) = some (anc n (j + e + 1), x) := by
  intro e
  induction e with
  | zero =>
    intro j r _ hon
    have e0 : 0 + 1 + r = r + 1 := by omega
    rw [e0, branchCo_succ]
    simp only [firstOnFile]
    rw [Nat.add_zero] at hon ⊢
    rw [hon]
  | succ e ih =>
    intro j r hoff hon
    have e0 : e + 1 + 1 + r = (e + 1 + r) + 1 := by omega
    rw [e0, branchCo_succ]
    simp only [firstOnFile]
    have h0 := hoff 0 (by omega)
    rw [Nat.add_zero] at h0
    rw [h0]
    have e1 : j + (e + 1) + 1 = j + 1 + e + 1 := by omega
    rw [e1] at hon ⊢
    apply ih (j + 1) r _ hon
    intro i hi
    have := hoff (i + 1) (by omega)
    have e2 : j + (i + 1) + 1 = j + 1 + i + 1 := by omega
    rw [e2] at this; exact this

/-- **the walk-up lemma.**  `first_unpruned_parent` started at the level-`j` ancestor: the segment
has no hash at the levels `j ..= j+e`, the bitmap is empty below each of the levels
`j+1 ..= j+e+1`, and the segment holds `x` at level `j+e+1` — the loop returns `x` there. -/
theorem fupLoop_walk (s : Segment α H) (b : Nat → Bool) (nl n : Nat) (x : H) : ∀ (e j r : Nat),
    (∀ i, i ≤ e → s.getHash (anc n (j + i)) = .err (.missingHash (anc n (j + i)))) →
    s.getHash (anc n (j + e + 1)) = .ok x →
    (∀ i, i ≤ e → rangeCard b (subtreeLeafRange (anc n (j + i + 1)) nl).1
      (subtreeLeafRange (anc n (j + i + 1)) nl).2 = 0) →
    fupLoop s b nl (anc n j) (Co.branchCo n j (e + 1 + r)) = .ok (x, 1 + anc n (j + e + 1)) := by
  intro e
  induction e with
  | zero =>
    intro j r hmiss hget hcard
    have e0 : 0 + 1 + r = r + 1 := by omega
    have h0 := hmiss 0 (Nat.le_refl _)
    have c0 := hcard 0 (Nat.le_refl _)
    simp only [Nat.add_zero, subtreeLeafRange] at h0 c0 hget ⊢
    rw [e0, branchCo_succ]
    simp only [fupLoop, h0]
    rw [if_pos c0]
    exact fupLoop_first s b nl _ _ x hget
  | succ e ih =>
    intro j r hmiss hget hcard
    have e0 : e + 1 + 1 + r = (e + 1 + r) + 1 := by omega
    have h0 := hmiss 0 (by omega)
    have c0 := hcard 0 (by omega)
    simp only [Nat.add_zero, subtreeLeafRange] at h0 c0
    rw [e0, branchCo_succ]
    simp only [fupLoop, h0]
    rw [if_pos c0]
    have e1 : j + (e + 1) + 1 = j + 1 + e + 1 := by omega
    rw [e1] at hget ⊢
    apply ih (j + 1) r _ hget
    · intro i hi
      have := hcard (i + 1) (by omega)
      have e2 : j + (i + 1) + 1 = j + 1 + i + 1 := by omega
      rw [e2] at this; exact this
    · intro i hi
      have := hmiss (i + 1) (by omega)
      have e2 : j + (i + 1) = j + 1 + i := by omega
      rw [e2] at this; exact this

/-! ### `from_pmmr` over a range that is off file -/

theorem fromPmmrWith_compacted (hf : HashFn α H) (V : View α H) (id : Ident) (ps : List Nat)
    (first last : Nat) (hoffh : ∀ p ∈ ps, V.fromFile p = none)
    (hoffd : ∀ p ∈ ps, height p = 0 → V.dataFromFile p = none) (a : Nat) (x : H)
    (hfirst : firstOnFile V (familyBranch last V.size) = some (a, x)) (proof : List H)
    (hgen : generate hf V (1 + first) (1 + last) (some (1 + a)) = .ok proof) :
    fromPmmrWith hf V id true ps first last = .ok (parentSeg id a x proof) := by
  have hl : ps.filterMap (leafEntry V) = [] := by
    rw [List.filterMap_eq_nil_iff]
    intro p hp
    by_cases hl : height p = 0
    · simp [leafEntry, hoffd p hp hl]
    · simp [leafEntry, isLeaf, hl]
  have hh : ps.filterMap (hashEntry V) = [] := by
    rw [List.filterMap_eq_nil_iff]
    intro p hp
    by_cases hl : height p = 0
    · simp [hashEntry, leafEntry, hoffd p hp hl, hoffh p hp]
    · simp [hashEntry, leafEntry, isLeaf, hl, hoffh p hp]
  unfold fromPmmrWith
  rw [fill_prunable, hl, hh]
  simp only [List.isEmpty_nil, Bool.and_self, if_true, hfirst, hgen]
  rfl

end GV.Seg
