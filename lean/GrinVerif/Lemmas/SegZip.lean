import GrinVerif.Model.SegZip
/-! Helper lemmas about `Model/SegZip.lean`: the directory map, `by_name`, `create_zip`,
`extract_files`. -/
namespace GV.SegZip

/-! ## directory map -/

theorem get_put_self (d : Dir) (p : List String) (c : String) : (d.put p c).get p = some c := by
  induction d with
  | nil => simp [Dir.put, Dir.get]
  | cons hd tl ih =>
    obtain ⟨q, c'⟩ := hd
    unfold Dir.put
    by_cases h : q = p
    · simp [h, Dir.get]
    · simp [h, Dir.get, ih]

theorem get_put_ne (d : Dir) (p q : List String) (c : String) (h : q ≠ p) :
    (d.put p c).get q = d.get q := by
  induction d with
  | nil => simp [Dir.put, Dir.get, Ne.symm h]
  | cons hd tl ih =>
    obtain ⟨r, c'⟩ := hd
    unfold Dir.put
    by_cases h1 : r = p
    · subst h1
      simp [Dir.get, Ne.symm h]
    · simp only [h1, if_false]
      unfold Dir.get
      by_cases h2 : r = q
      · simp [h2]
      · simp [h2, ih]

/-- what a `put` leaves in the directory -/
theorem get_put (d : Dir) (p q : List String) (c : String) :
    (d.put p c).get q = if q = p then some c else d.get q := by
  by_cases h : q = p
  · subst h; simp [get_put_self]
  · simp [h, get_put_ne d p q c h]

/-! ## `by_name` -/

theorem byName_spec : ∀ (a : List Entry) (n : String) (e : Entry), byName a n = some e → e ∈ a ∧ e.name = n
  | [], _, _, h => by simp [byName] at h
  | x :: rest, n, e, h => by
    unfold byName at h
    cases hr : byName rest n with
    | some e' =>
      rw [hr] at h
      simp only [Option.some.injEq] at h
      subst h
      obtain ⟨h1, h2⟩ := byName_spec rest n e' hr
      exact ⟨List.mem_cons_of_mem _ h1, h2⟩
    | none =>
      rw [hr] at h
      simp only at h
      by_cases hx : x.name = n
      · rw [if_pos hx] at h
        simp only [Option.some.injEq] at h
        subst h
        exact ⟨List.mem_cons_self, hx⟩
      · rw [if_neg hx] at h; cases h

theorem byName_none : ∀ (a : List Entry) (n : String), byName a n = none → ∀ e ∈ a, e.name ≠ n
  | [], _, _, e, he => by cases he
  | x :: rest, n, h, e, he => by
    unfold byName at h
    cases hr : byName rest n with
    | some e' => rw [hr] at h; cases h
    | none =>
      rw [hr] at h
      simp only at h
      by_cases hx : x.name = n
      · rw [if_pos hx] at h; cases h
      · rcases List.mem_cons.mp he with h1 | h1
        · subst h1; exact hx
        · exact byName_none rest n hr e h1

/-- an entry with the name exists ⇒ `by_name` finds one -/
theorem byName_some_of_mem (a : List Entry) (n : String) (e : Entry) (he : e ∈ a) (hn : e.name = n) :
    ∃ e', byName a n = some e' := by
  cases h : byName a n with
  | some e' => exact ⟨e', rfl⟩
  | none => exact absurd hn (byName_none a n h e he)

/-! ## `create_zip` -/

theorem mem_createZip (nm : Names) (src : Dir) : ∀ (files : List String) (e : Entry),
    e ∈ createZip nm src files →
      ∃ x ∈ files, src.get (nm.sanitize x) = some e.content ∧ e.name = nm.pathToString x ∧ e.crcOk = true
  | [], e, h => by simp [createZip] at h
  | x :: xs, e, h => by
    unfold createZip at h
    cases hg : src.get (nm.sanitize x) with
    | some c =>
      rw [hg] at h
      simp only at h
      rcases List.mem_cons.mp h with h1 | h1
      · subst h1
        exact ⟨x, List.mem_cons_self, hg, rfl, rfl⟩
      · obtain ⟨y, hy, r⟩ := mem_createZip nm src xs e h1
        exact ⟨y, List.mem_cons_of_mem _ hy, r⟩
    | none =>
      rw [hg] at h
      simp only at h
      obtain ⟨y, hy, r⟩ := mem_createZip nm src xs e h
      exact ⟨y, List.mem_cons_of_mem _ hy, r⟩

theorem createZip_mem (nm : Names) (src : Dir) : ∀ (files : List String) (x : String) (c : String),
    x ∈ files → src.get (nm.sanitize x) = some c →
      (⟨nm.pathToString x, c, true⟩ : Entry) ∈ createZip nm src files
  | [], x, c, h, _ => by cases h
  | y :: ys, x, c, h, hg => by
    unfold createZip
    rcases List.mem_cons.mp h with h1 | h1
    · subst h1
      rw [hg]
      exact List.mem_cons_self
    · have := createZip_mem nm src ys x c h1 hg
      cases hy : src.get (nm.sanitize y) with
      | some c' => simp only; exact List.mem_cons_of_mem _ this
      | none => simp only; exact this

/-! ## `extract_files` -/

/-- only the answers of `by_name` for the LISTED names matter -/
theorem extractFiles_congr (nm : Names) (a b : List Entry) : ∀ (files : List String) (d : Dir),
    (∀ x ∈ files, byName a x = byName b x) → extractFiles nm a files d = extractFiles nm b files d
  | [], d, _ => by simp [extractFiles]
  | x :: xs, d, h => by
    have hx := h x List.mem_cons_self
    have ih := fun d' => extractFiles_congr nm a b xs d' (fun y hy => h y (List.mem_cons_of_mem _ hy))
    unfold extractFiles
    rw [hx]
    cases byName b x with
    | none => exact ih d
    | some e =>
      simp only
      split
      · rfl
      · split
        · rfl
        · exact ih _

/-- where every file of the resulting directory comes from -/
theorem extractFiles_origin (nm : Names) (a : List Entry) : ∀ (files : List String) (d0 d : Dir),
    extractFiles nm a files d0 = .ok d → ∀ p c, d.get p = some c →
      d0.get p = some c ∨
        ∃ x ∈ files, ∃ e, byName a x = some e ∧ p = nm.mangle e.name ∧ c = e.content ∧
          e.crcOk = true ∧ nm.mangle e.name ≠ []
  | [], d0, d, h, p, c, hp => by
    simp only [extractFiles, XRes.ok.injEq] at h
    subst h
    exact Or.inl hp
  | x :: xs, d0, d, h, p, c, hp => by
    unfold extractFiles at h
    cases hb : byName a x with
    | none =>
      rw [hb] at h
      simp only at h
      rcases extractFiles_origin nm a xs d0 d h p c hp with r | ⟨y, hy, r⟩
      · exact Or.inl r
      · exact Or.inr ⟨y, List.mem_cons_of_mem _ hy, r⟩
    | some e =>
      rw [hb] at h
      simp only at h
      by_cases h1 : nm.mangle e.name = []
      · rw [if_pos h1] at h; cases h
      · rw [if_neg h1] at h
        by_cases h2 : e.crcOk = true
        · have : (!e.crcOk) = false := by simp [h2]
          rw [this] at h
          simp only [Bool.false_eq_true, if_false] at h
          rcases extractFiles_origin nm a xs _ d h p c hp with r | ⟨y, hy, r⟩
          · rw [get_put] at r
            by_cases hq : p = nm.mangle e.name
            · rw [if_pos hq] at r
              simp only [Option.some.injEq] at r
              exact Or.inr ⟨x, List.mem_cons_self, e, hb, hq, r.symm, h2, h1⟩
            · rw [if_neg hq] at r
              exact Or.inl r
          · exact Or.inr ⟨y, List.mem_cons_of_mem _ hy, r⟩
        · have : (!e.crcOk) = true := by simp [h2]
          rw [this] at h
          simp only [if_true] at h
          cases h

end GV.SegZip
