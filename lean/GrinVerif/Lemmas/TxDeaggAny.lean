import GrinVerif.Lemmas.TxDeagg
/-! Lemmas for `Props/C12DeaggAny.lean`: the `if !other.contains(x) && !acc.contains(x) { push }`
loops of `deaggregate` on ARBITRARY vectors (duplicates allowed, nothing assumed about `other`). -/
namespace GV.Tx
open List

/-- what the loop collects: everything already there, and every `x` of the scanned vector that is
not in `other` -/
theorem mem_pushNew (other : List Nat) : ∀ (xs acc : List Nat) (x : Nat),
    x ∈ pushNew other acc xs ↔ x ∈ acc ∨ (x ∈ xs ∧ x ∉ other)
  | [], acc, x => by simp [pushNew]
  | y :: ys, acc, x => by
    unfold pushNew
    by_cases hc : (other.contains y || acc.contains y) = true
    · rw [if_pos hc, mem_pushNew other ys acc x]
      constructor
      · rintro (h | ⟨h1, h2⟩)
        · exact Or.inl h
        · exact Or.inr ⟨mem_cons_of_mem _ h1, h2⟩
      · rintro (h | ⟨h1, h2⟩)
        · exact Or.inl h
        · rcases mem_cons.1 h1 with rfl | h1
          · rcases Bool.or_eq_true_iff.1 hc with ho | ha
            · exact absurd (by simpa using ho) h2
            · exact Or.inl (by simpa using ha)
          · exact Or.inr ⟨h1, h2⟩
    · rw [if_neg hc, mem_pushNew other ys (acc ++ [y]) x]
      have hc' : other.contains y = false ∧ acc.contains y = false := by
        simpa [Bool.or_eq_false_iff] using hc
      have hyo : y ∉ other := by simpa using hc'.1
      constructor
      · rintro (h | ⟨h1, h2⟩)
        · rcases mem_append.1 h with h | h
          · exact Or.inl h
          · have : x = y := by simpa using h
            exact Or.inr ⟨this ▸ mem_cons_self, this ▸ hyo⟩
        · exact Or.inr ⟨mem_cons_of_mem _ h1, h2⟩
      · rintro (h | ⟨h1, h2⟩)
        · exact Or.inl (mem_append_left _ h)
        · rcases mem_cons.1 h1 with rfl | h1
          · exact Or.inl (mem_append_right _ (by simp))
          · exact Or.inr ⟨h1, h2⟩

/-- the loop never pushes an element twice -/
theorem pushNew_nodup_any (other : List Nat) : ∀ (xs acc : List Nat), acc.Nodup → (pushNew other acc xs).Nodup
  | [], acc, h => by simpa [pushNew] using h
  | y :: ys, acc, h => by
    unfold pushNew
    by_cases hc : (other.contains y || acc.contains y) = true
    · rw [if_pos hc]; exact pushNew_nodup_any other ys acc h
    · rw [if_neg hc]
      have hc' : other.contains y = false ∧ acc.contains y = false := by
        simpa [Bool.or_eq_false_iff] using hc
      have hya : y ∉ acc := by simpa using hc'.2
      apply pushNew_nodup_any other ys (acc ++ [y])
      rw [nodup_append]
      refine ⟨h, by simp, ?_⟩
      intro a ha b hb
      have : b = y := by simpa using hb
      intro e
      exact hya (this ▸ e ▸ ha)

/-- the offset branch of `deaggregate` is the scalar difference in every case (the "both empty"
shortcut and `blind_sum_or_zero` agree) -/
theorem deagg_offset_any (m a : Nat) :
    (if (toSecrets [m]).isEmpty && (toSecrets [a]).isEmpty then (.ok 0 : Except Err Nat)
      else blindSumOrZero (toSecrets [m]) (toSecrets [a])) = .ok (scalarSum (toSecrets [m]) (toSecrets [a])) := by
  rw [blindSumOrZero_eq]
  by_cases h : ((toSecrets [m]).isEmpty && (toSecrets [a]).isEmpty) = true
  · rw [if_pos h]
    have h' := Bool.and_eq_true_iff.1 h
    have e1 : toSecrets [m] = [] := by simpa using h'.1
    have e2 : toSecrets [a] = [] := by simpa using h'.2
    rw [e1, e2]; simp [scalarSum]
  · rw [if_neg h]

end GV.Tx
