import GrinVerif.Lemmas.TxDeagg
import GrinVerif.Lemmas.TxNormal
/-! Lemmas for `deaggregate` beyond the "share nothing" hypothesis (C12): membership in the kept
sides of the cut-through merge for duplicate-free operands. -/
namespace GV.Tx
open List

/-- kept inputs of the merge, for duplicate-free inputs: those that no output commits to -/
theorem mem_merged_ins_iff {cb : Nat → Nat} {ins outs : List Nat} (nd : ins.Nodup) (x : Nat) :
    x ∈ (merged id cb ins outs).ins ↔ x ∈ ins ∧ x ∉ outs.map cb := by
  have h := (merged_count id cb ins outs x).1
  simp only [map_id] at h
  have h1 := nodup_iff_count.1 nd x
  constructor
  · intro hx
    have : 0 < (merged id cb ins outs).ins.count x := count_pos_iff.2 hx
    refine ⟨count_pos_iff.1 (by omega), fun hm => ?_⟩
    have : 0 < (outs.map cb).count x := count_pos_iff.2 hm
    omega
  · rintro ⟨hi, ho⟩
    have a : 0 < ins.count x := count_pos_iff.2 hi
    have b : (outs.map cb).count x = 0 := count_eq_zero.2 ho
    exact count_pos_iff.1 (by omega)

/-- kept outputs of the merge, for outputs with pairwise different commitments: those whose
commitment is not an input -/
theorem mem_merged_outs_iff {cb : Nat → Nat} {ins outs : List Nat} (nd : (outs.map cb).Nodup) (o : Nat) :
    o ∈ (merged id cb ins outs).outs ↔ o ∈ outs ∧ cb o ∉ ins := by
  have h := (merged_count id cb ins outs (cb o)).2.1
  simp only [map_id] at h
  have h1 := nodup_iff_count.1 nd (cb o)
  constructor
  · intro ho
    refine ⟨mem_merged_outs ho, fun hi => ?_⟩
    have a : 0 < ((merged id cb ins outs).outs.map cb).count (cb o) := count_pos_iff.2 (mem_map.2 ⟨o, ho, rfl⟩)
    have b : 0 < ins.count (cb o) := count_pos_iff.2 hi
    omega
  · rintro ⟨ho, hi⟩
    have a : 0 < (outs.map cb).count (cb o) := count_pos_iff.2 (mem_map.2 ⟨o, ho, rfl⟩)
    have b : ins.count (cb o) = 0 := count_eq_zero.2 hi
    have c : 0 < ((merged id cb ins outs).outs.map cb).count (cb o) := by omega
    obtain ⟨o', ho', e⟩ := mem_map.1 (count_pos_iff.1 c)
    have ho'' : o' ∈ outs := mem_merged_outs ho'
    -- `cb` is injective on `outs`
    have inj : ∀ {l : List Nat}, (l.map cb).Nodup → ∀ a b, a ∈ l → b ∈ l → cb a = cb b → a = b := by
      intro l
      induction l with
      | nil => intro _ a b ha; cases ha
      | cons y t ih =>
        intro ndl a b ha hb hab
        rw [map_cons, nodup_cons] at ndl
        rcases mem_cons.1 ha with rfl | ha' <;> rcases mem_cons.1 hb with rfl | hb'
        · rfl
        · exact absurd (mem_map.2 ⟨b, hb', hab.symm⟩) ndl.1
        · exact absurd (mem_map.2 ⟨a, ha', hab⟩) ndl.1
        · exact ih ndl.2 a b ha' hb' hab
    rw [← inj nd o' o ho'' ho e]
    exact ho'

theorem nodup_of_nodup_map (f : Nat → Nat) : ∀ {l : List Nat}, (l.map f).Nodup → l.Nodup
  | [], _ => nodup_nil
  | a :: t, h => by
    rw [map_cons, nodup_cons] at h
    exact nodup_cons.2 ⟨fun ha => h.1 (mem_map.2 ⟨a, ha, rfl⟩), nodup_of_nodup_map f h.2⟩

theorem perm_filter_of_mem_iff {l₁ l₂ : List Nat} (n1 : l₁.Nodup) (n2 : l₂.Nodup) (h : ∀ x, x ∈ l₁ ↔ x ∈ l₂) :
    l₁ ~ l₂ := (perm_ext_iff_of_nodup n1 n2).2 h

end GV.Tx
