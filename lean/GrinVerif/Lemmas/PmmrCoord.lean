import GrinVerif.Lemmas.PmmrArith
/-! Bit-level facts behind the `(n, h)` coordinates of an MMR node (C07): node `(n, h)` is the
node of height `h` completed by the insertion of leaf `n` (0-based), `h ≤ trailingOnes n`, at
position `mmr n + h`.  Core Lean only.  Everything lives in `GV.Pmmr.Co` so that the short names
cannot collide with lemmas of other domains that `open GV.Pmmr`. -/
namespace GV.Pmmr.Co
open GV GV.Pmmr

theorem two_pow_succ (h : Nat) : 2^(h+1) = 2 * 2^h := by rw [Nat.pow_succ]; omega

theorem two_pow_pos (h : Nat) : 0 < 2^h := Nat.pow_pos (by omega)

theorem popcount_two_mul (a : Nat) : popcount (2*a) = popcount a := by
  cases a with
  | zero => simp [popcount]
  | succ a =>
    have e : 2*(a+1) = (2*a+1) + 1 := by omega
    rw [e, popcount, ← e]
    have h1 : 2*(a+1) % 2 = 0 := by omega
    have h2 : 2*(a+1) / 2 = a+1 := by omega
    rw [h1, h2]; omega

theorem popcount_two_mul_add_one (a : Nat) : popcount (2*a+1) = popcount a + 1 := by
  rw [popcount]
  have h1 : (2*a+1) % 2 = 1 := by omega
  have h2 : (2*a+1) / 2 = a := by omega
  rw [h1, h2]; omega

theorem popcount_lt_two (b : Nat) (hb : b < 2) : popcount b = b := by
  have : b = 0 ∨ b = 1 := by omega
  rcases this with rfl | rfl <;> simp [popcount]

/-- one bits of a number = one bits of its high part + one bits of its low `k` bits -/
theorem popcount_split (k : Nat) : ∀ a m, m < 2^k → popcount (a * 2^k + m) = popcount a + popcount m := by
  induction k with
  | zero =>
    intro a m hm
    have : m = 0 := by simpa using hm
    subst this; simp [popcount]
  | succ k ih =>
    intro a m hm
    have hp := two_pow_succ k
    -- split off the lowest bit
    have e : a * 2^(k+1) + m = 2 * (a * 2^k + m/2) + m % 2 := by
      have : a * 2^(k+1) = 2 * (a * 2^k) := by rw [hp]; ac_rfl
      omega
    have hm2 : m / 2 < 2^k := by omega
    have em : m = 2 * (m/2) + m % 2 := by omega
    rcases Nat.mod_two_eq_zero_or_one m with h0 | h1
    · rw [e, h0, Nat.add_zero, popcount_two_mul, ih a (m/2) hm2]
      conv => rhs; rw [em, h0, Nat.add_zero, popcount_two_mul]
    · rw [e, h1, popcount_two_mul_add_one, ih a (m/2) hm2]
      conv => rhs; rw [em, h1, popcount_two_mul_add_one]
      omega

theorem popcount_mul_pow (k a : Nat) : popcount (a * 2^k) = popcount a := by
  have := popcount_split k a 0 (two_pow_pos k)
  simpa [popcount] using this

theorem popcount_pow_sub_one (k : Nat) : popcount (2^k - 1) = k := by
  induction k with
  | zero => simp [popcount]
  | succ k ih =>
    have hp := two_pow_succ k
    have hpos := two_pow_pos k
    have e : 2^(k+1) - 1 = 2 * (2^k - 1) + 1 := by omega
    rw [e, popcount_two_mul_add_one, ih]

/-- `h ≤ trailingOnes n` says that the low `h` bits of `n` are ones: `n + 1` is a multiple of `2^h` -/
theorem le_trailingOnes_iff (h : Nat) : ∀ n, h ≤ trailingOnes n ↔ ∃ a, n = a * 2^h + (2^h - 1) := by
  induction h with
  | zero => intro n; simp
  | succ h ih =>
    intro n
    have hp := two_pow_succ h
    have hpos := two_pow_pos h
    constructor
    · intro hle
      cases n with
      | zero => simp [trailingOnes] at hle
      | succ m =>
        rw [trailingOnes] at hle
        split at hle
        · rename_i hodd
          obtain ⟨a, ha⟩ := (ih ((m+1)/2)).1 (by omega)
          refine ⟨a, ?_⟩
          have : a * 2^(h+1) = 2 * (a * 2^h) := by rw [hp]; ac_rfl
          omega
        · omega
    · rintro ⟨a, rfl⟩
      have e : a * 2^(h+1) + (2^(h+1) - 1) = (a * 2^(h+1) + (2^(h+1) - 1) - 1) + 1 := by omega
      have hA : a * 2^(h+1) = 2 * (a * 2^h) := by rw [hp]; ac_rfl
      rw [e, trailingOnes, ← e]
      have hodd : (a * 2^(h+1) + (2^(h+1) - 1)) % 2 = 1 := by omega
      have hdiv : (a * 2^(h+1) + (2^(h+1) - 1)) / 2 = a * 2^h + (2^h - 1) := by omega
      rw [if_pos hodd, hdiv]
      have := (ih (a * 2^h + (2^h - 1))).2 ⟨a, rfl⟩
      omega

/-- the node coordinates in "high part / all-ones low part" form -/
theorem coord_form {n h : Nat} (hh : h ≤ trailingOnes n) : ∃ a, n = a * 2^h + (2^h - 1) :=
  (le_trailingOnes_iff h n).1 hh

theorem div_pow_of_form (a h : Nat) : (a * 2^h + (2^h - 1)) / 2^h = a := by
  have hpos := two_pow_pos h
  rw [Nat.add_comm, Nat.add_mul_div_right _ _ hpos]
  have : (2^h - 1) / 2^h = 0 := Nat.div_eq_of_lt (by omega)
  omega

theorem bitSet_of_form (a h : Nat) : bitSet (a * 2^h + (2^h - 1)) h = (a % 2 == 1) := by
  simp only [bitSet, div_pow_of_form]

/-- one more trailing one iff the high part is odd -/
theorem lt_trailingOnes_of_form (a h : Nat) : h < trailingOnes (a * 2^h + (2^h - 1)) ↔ a % 2 = 1 := by
  have hp := two_pow_succ h
  have hpos := two_pow_pos h
  constructor
  · intro hlt
    obtain ⟨b, hb⟩ := (le_trailingOnes_iff (h+1) _).1 hlt
    have hB : b * 2^(h+1) = (2*b) * 2^h := by rw [hp]; ac_rfl
    have : a * 2^h = (2*b+1) * 2^h := by rw [Nat.add_mul, ← hB]; omega
    have := Nat.eq_of_mul_eq_mul_right hpos this
    omega
  · intro hodd
    apply (le_trailingOnes_iff (h+1) _).2
    refine ⟨a/2, ?_⟩
    have ea : a = 2*(a/2) + 1 := by omega
    have hB : (a/2) * 2^(h+1) = (2*(a/2)) * 2^h := by rw [hp]; ac_rfl
    rw [hB]
    conv => lhs; rw [ea, Nat.add_mul]
    omega

/-- on a node `(n, h)` the bit test of `family` / `is_left_sibling` / `push` asks whether the node
is a right child, i.e. whether leaf `n` completes a higher node as well -/
theorem bitSet_coord {n h : Nat} (hh : h ≤ trailingOnes n) : bitSet n h = decide (h < trailingOnes n) := by
  obtain ⟨a, rfl⟩ := coord_form hh
  rw [bitSet_of_form]
  have := lt_trailingOnes_of_form a h
  by_cases ho : a % 2 = 1
  · simp [ho, this.2 ho]
  · have : ¬ h < trailingOnes (a * 2^h + (2^h - 1)) := fun hc => ho (this.1 hc)
    simp [ho, this]

theorem popcount_of_form (a h : Nat) : popcount (a * 2^h + (2^h - 1)) = popcount a + h := by
  rw [popcount_split h a (2^h - 1) (by have := two_pow_pos h; omega), popcount_pow_sub_one]

theorem two_mul_eq_mmr_add (n : Nat) : 2 * n = mmr n + popcount n := by
  have := popcount_le n
  unfold mmr; omega

/-- position of the node `(n, h)`, additive form -/
theorem mmr_of_form (a h : Nat) :
    mmr (a * 2^h + (2^h - 1)) + h + popcount a + 2 = 2 * (a * 2^h) + 2 * 2^h := by
  have h1 := two_mul_eq_mmr_add (a * 2^h + (2^h - 1))
  rw [popcount_of_form] at h1
  have := two_pow_pos h
  omega

theorem mmr_mul_pow (a h : Nat) : mmr (a * 2^h) + popcount a = 2 * (a * 2^h) := by
  have h1 := two_mul_eq_mmr_add (a * 2^h)
  rw [popcount_mul_pow] at h1
  omega

/-- left sibling: for a right child `(n, h)` (`h < trailingOnes n`) the node `(n - 2^h, h)` exists and
sits `2·2^h - 1` positions earlier -/
theorem left_sibling_coord {n h : Nat} (hlt : h < trailingOnes n) :
    h ≤ trailingOnes (n - 2^h) ∧ 2^h ≤ n ∧ mmr (n - 2^h) + 2 * 2^h = mmr n + 1
      ∧ trailingOnes (n - 2^h) = h := by
  obtain ⟨a, rfl⟩ := coord_form (Nat.le_of_lt hlt)
  have hodd := (lt_trailingOnes_of_form a h).1 hlt
  have hpos := two_pow_pos h
  have ea : a = (a - 1) + 1 := by omega
  have e : a * 2^h + (2^h - 1) - 2^h = (a - 1) * 2^h + (2^h - 1) := by
    conv => lhs; rw [ea, Nat.add_mul]
    omega
  have hge : 2^h ≤ a * 2^h + (2^h - 1) := by
    conv => rhs; rw [ea, Nat.add_mul]
    omega
  have hle : h ≤ trailingOnes ((a - 1) * 2^h + (2^h - 1)) := (le_trailingOnes_iff h _).2 ⟨a - 1, rfl⟩
  have hnot : ¬ h < trailingOnes ((a - 1) * 2^h + (2^h - 1)) := by
    intro hc
    have := (lt_trailingOnes_of_form (a-1) h).1 hc
    omega
  rw [e]
  refine ⟨hle, hge, ?_, by omega⟩
  have m1 := mmr_of_form a h
  have m2 := mmr_of_form (a - 1) h
  have hpc : popcount a = popcount (a - 1) + 1 := by
    have : a = 2 * (a / 2) + 1 := by omega
    rw [this, popcount_two_mul_add_one]
    have : 2 * (a / 2) + 1 - 1 = 2 * (a/2) := by omega
    rw [this, popcount_two_mul]
  have e2 : a * 2^h = (a - 1) * 2^h + 2^h := by
    conv => lhs; rw [ea, Nat.add_mul]
    omega
  omega

/-- parent of a left child: for `h = trailingOnes n` the node `(n + 2^h, h+1)` is the parent,
`(n + 2^h, h)` the right sibling, `2·2^h - 1` positions later -/
theorem right_sibling_coord {n h : Nat} (he : h = trailingOnes n) :
    h + 1 ≤ trailingOnes (n + 2^h) ∧ mmr (n + 2^h) + 1 = mmr n + 2 * 2^h := by
  obtain ⟨a, ha⟩ := coord_form (Nat.le_of_eq he)
  have hpos := two_pow_pos h
  have hev : ¬ a % 2 = 1 := by
    intro hc
    have := (lt_trailingOnes_of_form a h).2 hc
    rw [← ha] at this; omega
  have e : n + 2^h = (a + 1) * 2^h + (2^h - 1) := by rw [ha, Nat.add_mul]; omega
  have hlt : h < trailingOnes ((a + 1) * 2^h + (2^h - 1)) :=
    (lt_trailingOnes_of_form (a+1) h).2 (by omega)
  rw [e]
  refine ⟨hlt, ?_⟩
  have m1 := mmr_of_form a h
  have m2 := mmr_of_form (a + 1) h
  rw [← ha] at m1
  have hpc : popcount (a + 1) = popcount a + 1 := by
    have : a = 2 * (a / 2) := by omega
    rw [this, popcount_two_mul_add_one, popcount_two_mul]
  have e2 : (a + 1) * 2^h = a * 2^h + 2^h := by rw [Nat.add_mul]; omega
  omega

/-- leftmost leaf below `(n, h)` is leaf `n + 1 - 2^h` -/
theorem leftmost_coord {n h : Nat} (hh : h ≤ trailingOnes n) :
    2^h ≤ n + 1 ∧ mmr (n + 1 - 2^h) + 2 * 2^h = mmr n + h + 2 := by
  obtain ⟨a, rfl⟩ := coord_form hh
  have hpos := two_pow_pos h
  have e : a * 2^h + (2^h - 1) + 1 - 2^h = a * 2^h := by omega
  rw [e]
  have m1 := mmr_of_form a h
  have m2 := mmr_mul_pow a h
  exact ⟨by omega, by omega⟩

theorem mmr_le_mmr {a b : Nat} (h : a ≤ b) : mmr a ≤ mmr b := by
  induction h with
  | refl => exact Nat.le_refl _
  | step _ ih => rw [mmr_succ]; omega

theorem mmr_lt_mmr {a b : Nat} (h : a < b) : mmr a < mmr b := by
  have := mmr_le_mmr (show a + 1 ≤ b from h)
  rw [mmr_succ] at this; omega

theorem mmr_zero : mmr 0 = 0 := by simp [mmr, popcount]

/-- a node `(n, h)` lies before the first position of leaf `n + 1` -/
theorem coord_lt_mmr_succ {n h : Nat} (hh : h ≤ trailingOnes n) : mmr n + h < mmr (n + 1) := by
  rw [mmr_succ]; omega

/-- `mmr n + h < mmr N` iff `n < N` for a node `(n, h)` -/
theorem coord_lt_iff {n h N : Nat} (hh : h ≤ trailingOnes n) : mmr n + h < mmr N ↔ n < N := by
  constructor
  · intro hlt
    apply Classical.byContradiction
    intro hc
    have := mmr_le_mmr (show N ≤ n by omega)
    omega
  · intro hlt
    have := coord_lt_mmr_succ hh
    have := mmr_le_mmr (show n + 1 ≤ N from hlt)
    omega

theorem two_pow_le_of_le_trailingOnes {n h : Nat} (hh : h ≤ trailingOnes n) : 2^h ≤ n + 1 :=
  (leftmost_coord hh).1


/-! ### The coordinate theorem (restated in `Props/C07` as `peakMapHeight_coord`) -/

theorem peakMapHeight_co (n h : Nat) (hh : h ≤ trailingOnes n) :
    peakMapHeight (mmr n + h) = (n, h) := by
  unfold peakMapHeight
  by_cases hz : mmr n + h = 0
  · have hn : n = 0 := by have := le_mmr n; omega
    subst hn
    have : h = 0 := by simpa [mmr, popcount] using hz
    subst this
    simp [mmr, popcount]
  · rw [if_neg hz]
    have hlt : n < 2^(bitLen (mmr n + h)) := by
      have := lt_two_pow_bitLen (mmr n + h)
      have := le_mmr n
      omega
    have := greedy_spec (bitLen (mmr n + h)) n 0 h hlt (by simpa using hh)
    simpa using this

theorem coord_surj (pos : Nat) : ∃ n h, h ≤ trailingOnes n ∧ pos = mmr n + h := by
  induction pos with
  | zero => exact ⟨0, 0, by simp [trailingOnes], by simp [mmr, popcount]⟩
  | succ p ih =>
    obtain ⟨n, h, hh, hp⟩ := ih
    by_cases hlt : h < trailingOnes n
    · exact ⟨n, h+1, by omega, by omega⟩
    · refine ⟨n+1, 0, by omega, ?_⟩
      rw [mmr_succ]; omega

theorem coord_inj {n h n' h' : Nat} (hh : h ≤ trailingOnes n) (hh' : h' ≤ trailingOnes n')
    (e : mmr n + h = mmr n' + h') : n = n' ∧ h = h' := by
  have a := peakMapHeight_co n h hh
  have b := peakMapHeight_co n' h' hh'
  rw [e] at a
  rw [a] at b
  exact ⟨by injection b, by injection b⟩

theorem height_co (n h : Nat) (hh : h ≤ trailingOnes n) : height (mmr n + h) = h := by
  simp [height, peakMapHeight_co n h hh]

theorem peakMapHeight_leaf (n : Nat) : peakMapHeight (mmr n) = (n, 0) := by
  have := peakMapHeight_co n 0 (Nat.zero_le _)
  simpa using this

/-! ### Ancestors: `up n j` is `n` with its low `j` bits set — the last leaf below the ancestor of
height `j` of leaf `n` (or of any node `(n, h)` with `h ≤ j`). -/

def up (n j : Nat) : Nat := n / 2^j * 2^j + (2^j - 1)

theorem up_zero (n : Nat) : up n 0 = n := by simp [up]

theorem up_valid (n j : Nat) : j ≤ trailingOnes (up n j) :=
  (le_trailingOnes_iff j _).2 ⟨n / 2^j, rfl⟩

theorem up_of_valid {n h : Nat} (hh : h ≤ trailingOnes n) : up n h = n := by
  obtain ⟨a, rfl⟩ := coord_form hh
  simp only [up, div_pow_of_form]

theorem up_div (n j : Nat) : up n j / 2^j = n / 2^j := div_pow_of_form _ _

theorem bitSet_up (n j : Nat) : bitSet (up n j) j = bitSet n j := by
  simp only [bitSet, up_div]

theorem le_up (n j : Nat) : n ≤ up n j := by
  have hpos := two_pow_pos j
  have h1 := Nat.div_add_mod n (2^j)
  have h2 := Nat.mod_lt n hpos
  have h3 : 2^j * (n / 2^j) = n / 2^j * 2^j := Nat.mul_comm _ _
  unfold up; omega

/-- one level up: a right child keeps its last leaf, a left child gains the `2^j` leaves of its
right sibling -/
theorem up_succ (n j : Nat) : up n (j+1) = if bitSet n j then up n j else up n j + 2^j := by
  have hp := two_pow_succ j
  have hpos := two_pow_pos j
  have hdiv : n / 2^(j+1) = n / 2^j / 2 := by rw [hp, Nat.mul_comm, Nat.div_div_eq_div_mul]
  have hq : n / 2^j / 2 * 2^(j+1) = (2 * (n / 2^j / 2)) * 2^j := by rw [hp]; ac_rfl
  simp only [up, bitSet, hdiv, hq]
  by_cases hodd : n / 2^j % 2 = 1
  · have e : n / 2^j = 2 * (n / 2^j / 2) + 1 := by omega
    simp only [hodd, beq_self_eq_true, if_true]
    conv => rhs; rw [e, Nat.add_mul]
    omega
  · have e : n / 2^j = 2 * (n / 2^j / 2) := by omega
    have : (n / 2^j % 2 == 1) = false := by simp [hodd]
    simp only [this, Bool.false_eq_true, if_false]
    conv => rhs; rw [e]
    omega

theorem up_le_up_succ (n j : Nat) : up n j ≤ up n (j+1) := by
  rw [up_succ]; split
  · exact Nat.le_refl _
  · exact Nat.le_add_right _ _

theorem up_mono (n : Nat) {j k : Nat} (h : j ≤ k) : up n j ≤ up n k := by
  induction h with
  | refl => exact Nat.le_refl _
  | step _ ih => exact Nat.le_trans ih (up_le_up_succ n _)

/-- the level-`j` ancestor is a right child iff bit `j` of the leaf index is set -/
theorem bitSet_up_iff (n j : Nat) : j < trailingOnes (up n j) ↔ bitSet n j = true := by
  have := bitSet_coord (up_valid n j)
  rw [bitSet_up] at this
  rw [this]; simp

end GV.Pmmr.Co
