import GrinVerif.Lemmas.TxAgg
/-! Lemmas about `insertSorted` (`with_output` / `with_kernel`), `compact` and `hydrateFrom` (C12). -/
namespace GV.Tx
open List

theorem contains_eq_false_of_not_mem {l : List Nat} {x : Nat} (h : x ∉ l) : l.contains x = false := by
  cases hc : l.contains x
  · rfl
  · exact absurd (by simpa using hc) h

theorem insertSorted_of_not_mem (key : Nat → Nat) {x : Nat} {l : List Nat} (h : x ∉ l) :
    insertSorted key x l =
      l.takeWhile (fun y => decide (key y < key x)) ++ x :: l.dropWhile (fun y => decide (key y < key x)) := by
  unfold insertSorted
  rw [contains_eq_false_of_not_mem h]
  rfl

theorem insertSorted_perm (key : Nat → Nat) {x : Nat} {l : List Nat} (h : x ∉ l) :
    insertSorted key x l ~ x :: l := by
  rw [insertSorted_of_not_mem key h]
  refine perm_middle.trans ?_
  rw [takeWhile_append_dropWhile]

theorem sorted_insert_aux (key : Nat → Nat) (x : Nat) : ∀ (l : List Nat), l.Pairwise (KeyLe key) →
    (l.takeWhile (fun y => decide (key y < key x)) ++ x :: l.dropWhile (fun y => decide (key y < key x))).Pairwise (KeyLe key)
  | [], _ => by simp
  | a :: t, s => by
    have st := (pairwise_cons.1 s).2
    have ha := (pairwise_cons.1 s).1
    by_cases h : key a < key x
    · have ih := sorted_insert_aux key x t st
      simp only [takeWhile_cons, dropWhile_cons, h, decide_true, if_true, cons_append]
      refine pairwise_cons.2 ⟨?_, ih⟩
      intro b hb
      rcases mem_append.1 hb with hb | hb
      · exact ha b ((takeWhile_sublist _).subset hb)
      · rcases mem_cons.1 hb with rfl | hb
        · exact Nat.le_of_lt h
        · exact ha b ((dropWhile_sublist _).subset hb)
    · simp only [takeWhile_cons, dropWhile_cons, h, decide_false]
      refine pairwise_cons.2 ⟨?_, s⟩
      intro b hb
      rcases mem_cons.1 hb with rfl | hb
      · exact Nat.le_of_not_lt h
      · exact Nat.le_trans (Nat.le_of_not_lt h) (ha b hb)

theorem insertSorted_sorted (key : Nat → Nat) (x : Nat) {l : List Nat} (s : l.Pairwise (KeyLe key)) :
    (insertSorted key x l).Pairwise (KeyLe key) := by
  unfold insertSorted
  split
  · exact s
  · exact sorted_insert_aux key x l s

/-- inserting into a sorted vector = sorting the vector with the element appended -/
theorem insertSorted_eq_sortBy {key : Nat → Nat} {x : Nat} {l : List Nat} (inj : InjOn key (x :: l))
    (h : x ∉ l) (s : l.Pairwise (KeyLe key)) : insertSorted key x l = sortBy key (l ++ [x]) := by
  apply eq_of_sorted_perm (inj.of_perm (insertSorted_perm key h).symm) (insertSorted_sorted key x s)
    (sortBy_sorted _ _)
  exact (insertSorted_perm key h).trans ((perm_append_singleton x l).symm.trans (sortBy_perm _ _).symm)

/-- the coinbase part of a vector of plain elements with one coinbase element inserted -/
theorem filter_coinbase_insertSorted (key : Nat → Nat) {x : Nat} {l : List Nat}
    (hx : isCoinbase x = true) (hl : ∀ o ∈ l, isCoinbase o = false) :
    (insertSorted key x l).filter isCoinbase = [x] := by
  have hnm : x ∉ l := fun hm => by have := hl x hm; rw [hx] at this; cases this
  have p := (insertSorted_perm key hnm).filter isCoinbase
  have e : (x :: l).filter isCoinbase = [x] := by
    rw [filter_cons, if_pos hx]
    congr 1
    exact filter_eq_nil_iff.2 (fun o ho => by simp [hl o ho])
  rw [e] at p
  exact perm_singleton.1 p

theorem sortBy_singleton (key : Nat → Nat) (x : Nat) : sortBy key [x] = [x] := by simp [sortBy]


/-- `hydrateFrom` with `cut_through` opened up -/
theorem hydrateFrom_eq (K : Keys) (cb : CompactBlock) (txs : List Tx) :
    hydrateFrom K cb txs =
      if adjDup (sortBy K.ik (merged id outCommit (allIns K txs) (allOuts txs)).ins) then .error .cutThrough
      else if adjDup (sortBy K.ok (merged id outCommit (allIns K txs) (allOuts txs)).outs) then .error .cutThrough
      else .ok ⟨cb.header, false,
            sortBy K.ik (sortBy K.ik (merged id outCommit (allIns K txs) (allOuts txs)).ins),
            sortBy K.ok (sortBy K.ok (merged id outCommit (allIns K txs) (allOuts txs)).outs ++ cb.outFull),
            sortBy K.kk (allKers txs ++ cb.kernFull)⟩ := by
  simp only [hydrateFrom, cutThrough_eq, allIns, allOuts, allKers]
  by_cases h1 : adjDup (sortBy K.ik (merged id outCommit (flatMap (Tx.inputsCO K) txs)
      (flatMap (fun x => x.outputs) txs)).ins) = true
  · simp only [h1, if_true]
  · by_cases h2 : adjDup (sortBy K.ok (merged id outCommit (flatMap (Tx.inputsCO K) txs)
        (flatMap (fun x => x.outputs) txs)).outs) = true
    · simp [h1, h2]
    · simp [h1, h2]

/-- shape of a successful `fromReward` -/
theorem fromReward_ok {K : Keys} {prev : Nat} {txs : List Tx} {rout rkern : Nat} {b : Block}
    (h : fromReward K prev txs rout rkern = .ok b) :
    ∃ agg, aggregate K txs = .ok agg ∧ sumKernelOffsets [agg.offset, prev] [] = .ok b.totalOffset ∧
      b.v2 = agg.v2 ∧ b.inputs = agg.inputs ∧ b.outputs = insertSorted K.ok rout agg.outputs ∧
      b.kernels = insertSorted K.kk rkern agg.kernels := by
  unfold fromReward at h
  split at h; · cases h
  rename_i agg ha
  split at h; · cases h
  rename_i off ho
  cases h
  exact ⟨agg, ha, ho, rfl, rfl, rfl, rfl⟩

/-- `from_reward` fails only when `aggregate` fails: the sum of the aggregate's offset and the
previous header's `total_kernel_offset` never does (also when the two cancel) -/
theorem fromReward_of_aggregate {K : Keys} {prev : Nat} {txs : List Tx} {rout rkern : Nat} {agg : Tx}
    (h : aggregate K txs = .ok agg) :
    fromReward K prev txs rout rkern =
      .ok ⟨(toSecrets [agg.offset, prev]).sum % N, agg.v2, agg.inputs, insertSorted K.ok rout agg.outputs,
        insertSorted K.kk rkern agg.kernels⟩ := by
  unfold fromReward
  rw [h]
  simp only [sumKernelOffsets_nil]

end GV.Tx
