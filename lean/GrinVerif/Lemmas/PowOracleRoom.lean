import GrinVerif.Lemmas.PowOracleExec
import GrinVerif.Lemmas.PowRoomComplete
/-! Cuckaroom: the slot-level reading of a directed cycle (an undirected simple cycle on slots in
which every vertex has one `from` end and one `to` end) is the declarative `IsDirCycle` (an ordering
of the edges with `to` of each = `from` of the next).  Entry slots of a slot cycle all have one
parity; entered through the `to` ends the edges are in directed order, entered through the `from`
ends they are in reverse order. -/
set_option linter.unusedSectionVars false
namespace GV.Pow

/-- a Cuckaroom edge set as an undirected cycle on slots in which the two edge ends meeting in a
vertex are one `to` end (odd slot) and one `from` end (even slot) -/
def IsSlotCycleCuckaroom (es : List (Nat × Nat)) : Prop :=
  ∃ c, IsCycle es.length
    (fun a b => slotNode es a = slotNode es b ∧ a % 2 ≠ b % 2)
    (fun a b => slotNode es a = slotNode es b) c

theorem slotNode_even (es : List (Nat × Nat)) (e : Nat) : slotNode es (2 * e) = (es.getD e (0, 0)).1 := by
  unfold slotNode
  have h1 : (2 * e) % 2 = 0 := by omega
  have h2 : (2 * e) / 2 = e := by omega
  rw [if_pos h1, h2]

theorem slotNode_odd (es : List (Nat × Nat)) (e : Nat) : slotNode es (2 * e + 1) = (es.getD e (0, 0)).2 := by
  unfold slotNode
  have h1 : ¬ (2 * e + 1) % 2 = 0 := by omega
  have h2 : (2 * e + 1) / 2 = e := by omega
  rw [if_neg h1, h2]

theorem range_map_getD (f : Nat → Nat) (L t : Nat) (ht : t < L) :
    ((List.range L).map f).getD t 0 = f t := by
  simp [List.getD_eq_getElem?_getD, ht]

theorem map_getD (f : Nat → Nat) (l : List Nat) (t : Nat) (ht : t < l.length) :
    (l.map f).getD t 0 = f (l.getD t 0) := by
  simp [List.getD_eq_getElem?_getD, ht]

theorem succ_mod_inj (L a b : Nat) (hL : 0 < L) (ha : a < L) (hb : b < L)
    (h : (a + 1) % L = (b + 1) % L) : a = b := by
  rw [modL_cases (a + 1) L hL (by omega), modL_cases (b + 1) L hL (by omega)] at h
  split at h <;> split at h <;> omega

/-- the reversal of a cyclic index -/
def rr (L t : Nat) : Nat := (L - t) % L

theorem rr_lt (L t : Nat) (hL : 0 < L) : rr L t < L := Nat.mod_lt _ hL

theorem rr_succ (L t : Nat) (hL : 0 < L) (ht : t < L) : (rr L ((t + 1) % L) + 1) % L = rr L t := by
  unfold rr
  by_cases h : t + 1 < L
  · rw [Nat.mod_eq_of_lt h, Nat.mod_eq_of_lt (by omega : L - (t + 1) < L)]
    congr 1
    omega
  · have e : t + 1 = L := by omega
    rw [e, Nat.mod_self, Nat.sub_zero, Nat.mod_self]
    congr 1
    omega

theorem rr_inj (L a b : Nat) (hL : 0 < L) (ha : a < L) (hb : b < L) (h : rr L a = rr L b) : a = b := by
  unfold rr at h
  by_cases ha0 : a = 0 <;> by_cases hb0 : b = 0
  · omega
  · subst ha0
    rw [Nat.sub_zero, Nat.mod_self, Nat.mod_eq_of_lt (by omega : L - b < L)] at h
    omega
  · subst hb0
    rw [Nat.sub_zero, Nat.mod_self, Nat.mod_eq_of_lt (by omega : L - a < L)] at h
    omega
  · rw [Nat.mod_eq_of_lt (by omega : L - a < L), Nat.mod_eq_of_lt (by omega : L - b < L)] at h
    omega

section
variable {L : Nat} {adj sameV : Nat → Nat → Prop} {c : List Nat} (hG : IsCycle L adj sameV c)
include hG

theorem cyc_edge_lt (t : Nat) (ht : t < L) : c.getD t 0 / 2 < L := by
  have : c.getD t 0 / 2 ∈ c.map (· / 2) := by
    apply List.mem_map.mpr
    refine ⟨c.getD t 0, ?_, rfl⟩
    have : t < c.length := by rw [hG.len]; exact ht
    rw [List.getD_eq_getElem?_getD, List.getElem?_eq_getElem this]; simp
  exact List.mem_range.mp (hG.perm.mem_iff.mp this)

theorem cyc_edge_inj (a b : Nat) (ha : a < L) (hb : b < L)
    (h : c.getD a 0 / 2 = c.getD b 0 / 2) : a = b := by
  have hcl := hG.len
  have hnd : (c.map (· / 2)).Nodup := hG.perm.nodup_iff.mpr List.nodup_range
  rw [List.Nodup, List.pairwise_map, List.pairwise_iff_getElem] at hnd
  have h' : ∀ x y (hx : x < c.length) (hy : y < c.length), x < y → c.getD x 0 / 2 ≠ c.getD y 0 / 2 := by
    intro x y hx hy hxy
    have := hnd x y hx hy hxy
    simpa [List.getD_eq_getElem?_getD, hx, hy] using this
  rcases Nat.lt_trichotomy a b with hlt | heq | hgt
  · exact absurd h (h' a b (by omega) (by omega) hlt)
  · exact heq
  · exact absurd h.symm (h' b a (by omega) (by omega) hgt)

end

/-- a directed cycle, entered through the `to` ends, is a slot cycle -/
theorem slotCycle_of_dirCycle (es : List (Nat × Nat)) (hL : 0 < es.length)
    (h : IsProofCycleCuckaroom es) : IsSlotCycleCuckaroom es := by
  obtain ⟨d, hd⟩ := h
  have hlen : d.length = es.length := by simpa using hd.perm.length_eq
  have hget : ∀ t, t < es.length → (d.map (fun e => 2 * e + 1)).getD t 0 = 2 * d.getD t 0 + 1 :=
    fun t ht => map_getD _ d t (by omega)
  have hx : ∀ e : Nat, (2 * e + 1) ^^^ 1 = 2 * e := by
    intro e; rw [xor_one_eq]; split <;> omega
  refine ⟨d.map (fun e => 2 * e + 1), ?_, ?_, ?_, ?_⟩
  · simp [hlen]
  · rw [List.map_map]
    have : ((fun x => x / 2) ∘ fun e => 2 * e + 1) = id := by
      funext e; simp only [Function.comp, id]; omega
    rw [this, List.map_id]; exact hd.perm
  · intro t ht
    have hm : (t + 1) % es.length < es.length := Nat.mod_lt _ hL
    rw [hget t ht, hget _ hm, hx, slotNode_odd, slotNode_even]
    exact ⟨hd.link t ht, by omega⟩
  · intro a b ha hb hab hv
    rw [hget a ha, hget b hb, slotNode_odd, slotNode_odd] at hv
    have hma : (a + 1) % es.length < es.length := Nat.mod_lt _ hL
    have hmb : (b + 1) % es.length < es.length := Nat.mod_lt _ hL
    have hne : (a + 1) % es.length ≠ (b + 1) % es.length :=
      fun e => hab (succ_mod_inj _ a b hL ha hb e)
    apply hd.simple _ _ hma hmb hne
    rw [← hd.link a ha, ← hd.link b hb]; exact hv

/-- a slot cycle is a directed cycle: in the order of the slot cycle when it enters through the `to`
ends, in the reverse order when it enters through the `from` ends -/
theorem dirCycle_of_slotCycle (es : List (Nat × Nat)) (hL : 0 < es.length)
    (h : IsSlotCycleCuckaroom es) : IsProofCycleCuckaroom es := by
  obtain ⟨c, hc⟩ := h
  have hcl := hc.len
  -- all entry slots have the parity of the first
  have hstep : ∀ t, t < es.length → c.getD ((t + 1) % es.length) 0 % 2 = c.getD t 0 % 2 := by
    intro t ht
    have := (hc.link t ht).2
    rw [xor_one_eq] at this
    split at this <;> omega
  have hpar : ∀ t, t < es.length → c.getD t 0 % 2 = c.getD 0 0 % 2 := by
    intro t
    induction t with
    | zero => intro _; rfl
    | succ t ih =>
      intro ht
      have := hstep t (by omega)
      rw [Nat.mod_eq_of_lt ht] at this
      rw [this]; exact ih (by omega)
  rcases Nat.mod_two_eq_zero_or_one (c.getD 0 0) with p0 | p1
  · -- entered through the `from` ends: reverse order
    have heven : ∀ t, t < es.length → c.getD t 0 = 2 * (c.getD t 0 / 2) := by
      intro t ht; have := hpar t ht; omega
    have hlink : ∀ s, s < es.length →
        (es.getD (c.getD s 0 / 2) (0, 0)).1 = (es.getD (c.getD ((s + 1) % es.length) 0 / 2) (0, 0)).2 := by
      intro s hs
      have hm : (s + 1) % es.length < es.length := Nat.mod_lt _ hL
      have l1 := (hc.link s hs).1
      have e1 := heven s hs
      have e2 := heven _ hm
      have hx : c.getD ((s + 1) % es.length) 0 ^^^ 1 = 2 * (c.getD ((s + 1) % es.length) 0 / 2) + 1 := by
        rw [xor_one_eq]; split <;> omega
      rw [hx, slotNode_odd, e1, slotNode_even] at l1
      have : 2 * (c.getD s 0 / 2) / 2 = c.getD s 0 / 2 := by omega
      try rw [this] at l1
      exact l1
    let f : Nat → Nat := fun t => c.getD (rr es.length t) 0 / 2
    have hget : ∀ t, t < es.length → ((List.range es.length).map f).getD t 0 = f t :=
      fun t ht => range_map_getD f _ t ht
    refine ⟨(List.range es.length).map f, ?_, ?_, ?_⟩
    · apply perm_range_of_nodup
      · rw [List.Nodup, List.pairwise_map, List.pairwise_iff_getElem]
        intro a b ha hb hab e
        simp only [List.getElem_range, List.length_range] at e ha hb
        have := cyc_edge_inj hc _ _ (rr_lt _ a hL) (rr_lt _ b hL) e
        have := rr_inj _ a b hL ha hb this
        omega
      · intro x hx
        obtain ⟨t, _, rfl⟩ := List.mem_map.mp hx
        exact cyc_edge_lt hc _ (rr_lt _ t hL)
      · simp
    · intro t ht
      have hm : (t + 1) % es.length < es.length := Nat.mod_lt _ hL
      rw [hget t ht, hget _ hm]
      have := hlink (rr es.length ((t + 1) % es.length)) (rr_lt _ _ hL)
      rw [rr_succ _ t hL ht] at this
      exact this.symm
    · intro a b ha hb hab e
      rw [hget a ha, hget b hb] at e
      have hne : rr es.length a ≠ rr es.length b := fun h => hab (rr_inj _ a b hL ha hb h)
      apply hc.simple _ _ (rr_lt _ a hL) (rr_lt _ b hL) hne
      show slotNode es _ = slotNode es _
      rw [heven _ (rr_lt _ a hL), heven _ (rr_lt _ b hL), slotNode_even, slotNode_even]
      have h1 : 2 * (c.getD (rr es.length a) 0 / 2) / 2 = c.getD (rr es.length a) 0 / 2 := by omega
      have h2 : 2 * (c.getD (rr es.length b) 0 / 2) / 2 = c.getD (rr es.length b) 0 / 2 := by omega
      try rw [h1, h2]
      exact e
  · -- entered through the `to` ends: the order of the slot cycle
    have hodd : ∀ t, t < es.length → c.getD t 0 = 2 * (c.getD t 0 / 2) + 1 := by
      intro t ht; have := hpar t ht; omega
    have hlink : ∀ s, s < es.length →
        (es.getD (c.getD s 0 / 2) (0, 0)).2 = (es.getD (c.getD ((s + 1) % es.length) 0 / 2) (0, 0)).1 := by
      intro s hs
      have hm : (s + 1) % es.length < es.length := Nat.mod_lt _ hL
      have l1 := (hc.link s hs).1
      have e1 := hodd s hs
      have e2 := hodd _ hm
      have hx : c.getD ((s + 1) % es.length) 0 ^^^ 1 = 2 * (c.getD ((s + 1) % es.length) 0 / 2) := by
        rw [xor_one_eq]; split <;> omega
      rw [hx, slotNode_even, e1, slotNode_odd] at l1
      have : (2 * (c.getD s 0 / 2) + 1) / 2 = c.getD s 0 / 2 := by omega
      try rw [this] at l1
      exact l1
    have hget : ∀ t, t < es.length → (c.map (· / 2)).getD t 0 = c.getD t 0 / 2 :=
      fun t ht => map_getD _ c t (by omega)
    refine ⟨c.map (· / 2), hc.perm, ?_, ?_⟩
    · intro t ht
      have hm : (t + 1) % es.length < es.length := Nat.mod_lt _ hL
      rw [hget t ht, hget _ hm]
      exact hlink t ht
    · intro a b ha hb hab e
      rw [hget a ha, hget b hb] at e
      -- `from` of an edge = `to` of its predecessor in the cycle
      have hpa : (a + es.length - 1) % es.length < es.length := Nat.mod_lt _ hL
      have hpb : (b + es.length - 1) % es.length < es.length := Nat.mod_lt _ hL
      have la := hlink _ hpa
      have lb := hlink _ hpb
      rw [pred_succ_mod a _ hL ha] at la
      rw [pred_succ_mod b _ hL hb] at lb
      have hne : (a + es.length - 1) % es.length ≠ (b + es.length - 1) % es.length := by
        intro h
        apply hab
        have h2 := congrArg (fun x => (x + 1) % es.length) h
        simp only [pred_succ_mod a _ hL ha, pred_succ_mod b _ hL hb] at h2
        exact h2
      apply hc.simple _ _ hpa hpb hne
      show slotNode es _ = slotNode es _
      rw [hodd _ hpa, hodd _ hpb, slotNode_odd, slotNode_odd]
      have h1 : ∀ x : Nat, (2 * (x / 2) + 1) / 2 = x / 2 := fun x => by omega
      try rw [h1, h1]
      rw [la, lb]; exact e

/-- **the two declarative forms of a Cuckaroom proof cycle coincide** -/
theorem slotCycle_iff_dirCycle (es : List (Nat × Nat)) (hL : 0 < es.length) :
    IsSlotCycleCuckaroom es ↔ IsProofCycleCuckaroom es :=
  ⟨dirCycle_of_slotCycle es hL, slotCycle_of_dirCycle es hL⟩

end GV.Pow
