import GrinVerif.Model.Crash
import GrinVerif.Model.CrashCompact
import GrinVerif.Lemmas.CrashBasic
import GrinVerif.Lemmas.CrashPath
import GrinVerif.Lemmas.CrashRecover
import GrinVerif.Lemmas.CrashSteps
import GrinVerif.Lemmas.CrashExt
/-! Lemmas for the compaction extension of the crash model: closed form of the state after `k`
compaction steps, which of them are coherent, `recoverC` on coherent states is `recover`,
the walk of the fallback loop with deleted blocks. -/
namespace GV.Crash

/-! ### closed form -/

def cState (t : CTarget) (d : DurableC) (k : Nat) : DurableC :=
  { base := d.base,
    out := { hash := if 2 ≤ k then some t.newPrun else if 1 ≤ k then none else d.out.hash,
             data := if 4 ≤ k then some t.newPrun else if 3 ≤ k then none else d.out.data,
             prun := if 5 ≤ k then t.newPrun else d.out.prun },
    rp := { hash := if 8 ≤ k then some t.newPrun else if 7 ≤ k then none else d.rp.hash,
            data := if 10 ≤ k then some t.newPrun else if 9 ≤ k then none else d.rp.data,
            prun := if 11 ≤ k then t.newPrun else d.rp.prun },
    tail := if 13 ≤ k then t.newTail else d.tail }

theorem crashAfterC_eq (t : CTarget) (d : DurableC) (k : Nat) : crashAfterC t d k = cState t d k := by
  have key : ∀ j, j ≤ 13 → crashAfterC t d j = cState t d j := by
    intro j hj
    have : j = 0 ∨ j = 1 ∨ j = 2 ∨ j = 3 ∨ j = 4 ∨ j = 5 ∨ j = 6 ∨ j = 7 ∨ j = 8 ∨ j = 9 ∨ j = 10 ∨
        j = 11 ∨ j = 12 ∨ j = 13 := by omega
    rcases this with h | h | h | h | h | h | h | h | h | h | h | h | h | h <;> subst h <;>
      simp [crashAfterC, compactSteps, applyCStep, cState]
  by_cases hk : k ≤ 13
  · exact key k hk
  · have e : crashAfterC t d k = crashAfterC t d 13 := by
      simp only [crashAfterC]
      rw [List.take_of_length_le (by simp [compactSteps]; omega), List.take_of_length_le (by simp [compactSteps])]
    rw [e, key 13 (Nat.le_refl _)]
    simp only [cState]
    have e : ∀ n, n ≤ 13 → (n ≤ k) = (n ≤ 13) := by intro n hn; simp [hn]; omega
    simp [e]

theorem cState_base (t : CTarget) (d : DurableC) (k : Nat) : (cState t d k).base = d.base := rfl

/-- the crash points of a compaction at which both prunable MMRs read coherently -/
theorem cState_coherent (t : CTarget) (O : List BlkInfo) (prun : List Leaf) (tail k : Nat)
    (hk : k = 0 ∨ k = 5 ∨ k = 6 ∨ 11 ≤ k) :
    (cState t (consistentC O prun tail) k).out.coherent = true ∧
    (cState t (consistentC O prun tail) k).rp.coherent = true := by
  rcases hk with rfl | rfl | rfl | hk
  · simp [cState, consistentC, PFiles.coherent, PFiles.clean]
  · simp [cState, consistentC, PFiles.coherent, PFiles.clean]
  · simp [cState, consistentC, PFiles.coherent, PFiles.clean]
  · have e : ∀ n, n ≤ 11 → n ≤ k := by intro n hn; omega
    simp [cState, consistentC, PFiles.coherent, PFiles.clean, e]

/-- … and those at which one of them does not: a file is absent (`k = 1, 3, 7, 9`), or — when
the compaction prunes anything new — a compacted file sits beside a stale prune list
(`k = 2, 4, 8, 10`) -/
theorem cState_incoherent (t : CTarget) (O : List BlkInfo) (prun : List Leaf) (tail k : Nat)
    (hk : k = 1 ∨ k = 3 ∨ k = 7 ∨ k = 9 ∨ (t.newPrun ≠ prun ∧ (k = 2 ∨ k = 4 ∨ k = 8 ∨ k = 10))) :
    ((cState t (consistentC O prun tail) k).out.coherent &&
     (cState t (consistentC O prun tail) k).rp.coherent) = false := by
  rcases hk with rfl | rfl | rfl | rfl | ⟨hne, hk⟩
  · simp [cState, consistentC, PFiles.coherent, PFiles.clean]
  · simp [cState, consistentC, PFiles.coherent, PFiles.clean]
  · simp [cState, consistentC, PFiles.coherent, PFiles.clean]
  · simp [cState, consistentC, PFiles.coherent, PFiles.clean]
  · rcases hk with rfl | rfl | rfl | rfl <;>
      simp [cState, consistentC, PFiles.coherent, PFiles.clean, hne]

/-! ### validity and the fallback loop -/

theorem validAtC_of_coherent (bc : Nat → Bool) (d : DurableC) (readded : List Leaf) (P : List BlkInfo)
    (h1 : d.out.coherent = true) (h2 : d.rp.coherent = true) :
    validAtC bc d readded P = validAt bc d.base readded P := by
  simp [validAtC, h1, h2]

theorem validAtC_of_incoherent (bc : Nat → Bool) (d : DurableC) (readded : List Leaf) (P : List BlkInfo)
    (h : (d.out.coherent && d.rp.coherent) = false) : validAtC bc d readded P = false := by
  simp only [validAtC, h, Bool.false_and]

theorem fallbackC_stop (bc : Nat → Bool) (tbl : List BlkInfo) (d : DurableC) (fuel h : Nat)
    (readded : List Leaf) (P : List BlkInfo)
    (hp : pathOf tbl (tbl.length + 1) h [] = some P)
    (hv : P.length ≤ 1 ∨ validAtC bc d readded P = true) :
    fallbackC bc tbl d (fuel + 1) h readded = .ok h := by
  simp only [fallbackC, hp]
  rcases hv with hv | hv
  · simp [hv]
  · simp [hv]

/-- the loop needs a deleted block: `Chain::init` fails with a store error -/
theorem fallbackC_brick (bc : Nat → Bool) (tbl : List BlkInfo) (d : DurableC) (fuel h : Nat)
    (readded : List Leaf) (P : List BlkInfo)
    (hp : pathOf tbl (tbl.length + 1) h [] = some P)
    (hlen : ¬ P.length ≤ 1) (hv : validAtC bc d readded P = false) (ht : P.length - 1 < d.tail) :
    fallbackC bc tbl d (fuel + 1) h readded = .openFail .storeErr := by
  simp only [fallbackC, hp, hlen, if_false, hv, Bool.false_eq_true, ht, if_true]

theorem fallbackC_step (bc : Nat → Bool) (tbl : List BlkInfo) (d : DurableC) (fuel : Nat)
    (readded : List Leaf) (Q : List BlkInfo) (x : BlkInfo) (hQ : Q ≠ [])
    (hp : pathOf tbl (tbl.length + 1) (tipOf (Q ++ [x])) [] = some (Q ++ [x]))
    (hv : validAtC bc d readded (Q ++ [x]) = false) (ht : d.tail ≤ Q.length) :
    fallbackC bc tbl d (fuel + 1) (tipOf (Q ++ [x])) readded =
      fallbackC bc tbl d fuel (tipOf Q) (readded ++ spentLeaves (unspentOf Q) x) := by
  have hlen : ¬ (Q ++ [x]).length ≤ 1 := by
    have : Q.length ≠ 0 := fun h => hQ (List.length_eq_zero_iff.mp h)
    simp; omega
  have ht' : ¬ (Q ++ [x]).length - 1 < d.tail := by simp; omega
  simp only [fallbackC, hp, hlen, if_false, hv, Bool.false_eq_true, ht', List.dropLast_concat, tipOf_eq]
  congr 3
  simp [List.getLast!_eq_getLast?_getD]

/-- the walk of the loop down to `M`, where it ends with outcome `r` -/
theorem fallbackC_walk (bc : Nat → Bool) (tbl : List BlkInfo) (d : DurableC) (M : List BlkInfo)
    (hM : M ≠ []) (r : Rec) (ht : d.tail ≤ M.length) :
    ∀ (T R : List BlkInfo) (fuel : Nat), T.length < fuel →
      (∀ Q S, Q ++ S = M ++ T → Q ≠ [] → pathOf tbl (tbl.length + 1) (tipOf Q) [] = some Q) →
      (∀ T1 x T2, T = T1 ++ x :: T2 →
        validAtC bc d (undo (M ++ T1 ++ [x]) (T2 ++ R)) (M ++ T1 ++ [x]) = false) →
      (∀ f, fallbackC bc tbl d (f + 1) (tipOf M) (undo M (T ++ R)) = r) →
      fallbackC bc tbl d fuel (tipOf (M ++ T)) (undo (M ++ T) R) = r := by
  intro T
  induction T using list_rev_ind with
  | nil =>
    intro R fuel hf _ _ hstop
    obtain ⟨f, rfl⟩ : ∃ f, fuel = f + 1 := ⟨fuel - 1, by simp at hf; omega⟩
    simp only [List.append_nil, List.nil_append] at hstop ⊢
    exact hstop f
  | snoc T x ih =>
    intro R fuel hf hpath hbad hstop
    obtain ⟨f, rfl⟩ : ∃ f, fuel = f + 1 := ⟨fuel - 1, by simp at hf; omega⟩
    have hQ : M ++ T ≠ [] := by
      intro h; exact hM (List.append_eq_nil_iff.mp h).1
    have hp := hpath (M ++ (T ++ [x])) [] (by simp) (by rw [← List.append_assoc]; exact snoc_ne_nil _ _)
    have hv := hbad T x [] rfl
    simp only [List.nil_append] at hv
    rw [← List.append_assoc] at hp ⊢
    rw [fallbackC_step bc tbl d f _ (M ++ T) x hQ hp hv (by simp; omega)]
    have hu : undo (M ++ T ++ [x]) R ++ spentLeaves (unspentOf (M ++ T)) x = undo (M ++ T) (x :: R) := by
      simp [undo]
    rw [hu]
    apply ih (x :: R) f (by simp at hf; omega)
    · intro Q S hQS hne
      exact hpath Q (S ++ [x]) (by rw [← List.append_assoc, hQS, List.append_assoc]) hne
    · intro T1 y T2 hT
      have := hbad T1 y (T2 ++ [x]) (by rw [hT]; simp)
      simpa using this
    · intro f'; simpa using hstop f'

/-! ### `recoverC` -/

theorem recoverC_of_hdrOk (bc : Nat → Bool) (tbl : List BlkInfo) (d : DurableC) (h : HdrOk tbl d.base) :
    recoverC bc tbl d = fallbackC bc tbl d (tbl.length + 1) d.base.dbHead [] := by
  obtain ⟨hp, hpath, hpre⟩ := h.path
  unfold recoverC
  rw [if_neg (by simpa using h.len), hpath]
  have := take_of_prefix _ _ hpre
  rw [List.length_map] at this
  simp only [ne_eq]
  rw [if_neg]
  simpa using this

/-- the safe-state characterisation carries over: coherent files, header files consistent with the
header head, base state agreeing with `consistent O` ⇒ reopens on the tip of `O` (no block has to
be undone, so the tail does not matter) -/
theorem recoverC_of_agrees (bc : Nat → Bool) (tbl : List BlkInfo) (O : List BlkInfo) (d : DurableC)
    (hO : pathOf tbl (tbl.length + 1) (tipOf O) [] = some O)
    (h1 : d.out.coherent = true) (h2 : d.rp.coherent = true)
    (hh : HdrOk tbl d.base) (ha : AgreesOld O d.base) :
    recoverC bc tbl d = .ok (tipOf O) := by
  rw [recoverC_of_hdrOk bc tbl d hh, ha.head]
  apply fallbackC_stop bc tbl d _ _ _ O hO
  right
  rw [validAtC_of_coherent bc d [] O h1 h2]
  exact validAt_of_agrees bc O d.base ha

/-- **Conservative extension.** On a never-compacted node (coherent files, nothing deleted)
`recoverC` is `recover`. -/
theorem fallbackC_eq_fallback (bc : Nat → Bool) (tbl : List BlkInfo) (d : DurableC)
    (h1 : d.out.coherent = true) (h2 : d.rp.coherent = true) (ht : d.tail = 0) :
    ∀ (fuel h : Nat) (readded : List Leaf),
      fallbackC bc tbl d fuel h readded = fallback bc tbl d.base fuel h readded := by
  intro fuel
  induction fuel with
  | zero => intro h readded; simp [fallbackC, fallback]
  | succ f ih =>
    intro h readded
    simp only [fallbackC, fallback, ht, Nat.not_lt_zero, if_false]
    cases pathOf tbl (tbl.length + 1) h [] with
    | none => rfl
    | some path =>
      simp only [validAtC_of_coherent bc d readded path h1 h2, ih]

theorem recoverC_eq_recover (bc : Nat → Bool) (tbl : List BlkInfo) (d : DurableC)
    (h1 : d.out.coherent = true) (h2 : d.rp.coherent = true) (ht : d.tail = 0) :
    recoverC bc tbl d = recover bc tbl d.base := by
  unfold recoverC recover
  simp only [fallbackC_eq_fallback bc tbl d h1 h2 ht]
  rfl

theorem consistentC_coherent (O : List BlkInfo) (prun : List Leaf) (tail : Nat) :
    (consistentC O prun tail).out.coherent = true ∧ (consistentC O prun tail).rp.coherent = true := by
  simp [consistentC, PFiles.coherent, PFiles.clean]

theorem consistent_hdrOk (tbl O : List BlkInfo) (hO : pathOf tbl (tbl.length + 1) (tipOf O) [] = some O) :
    HdrOk tbl (consistent O) :=
  ⟨by simp [consistent], O, by simpa [consistent, tipOf] using hO, by simp [consistent]⟩

theorem consistent_agrees (O : List BlkInfo) : AgreesOld O (consistent O) := by
  refine ⟨by simp [consistent, tipOf], by simp [consistent], ?_⟩
  constructor <;> simp [consistent]

theorem crashAfterCB_base (t : Target) (d : DurableC) (steps : List Step) (k : Nat) :
    (crashAfterCB t d steps k).base = crashAfter t d.base steps k ∧
    (crashAfterCB t d steps k).out = d.out ∧ (crashAfterCB t d steps k).rp = d.rp ∧
    (crashAfterCB t d steps k).tail = d.tail := by
  simp [crashAfterCB]

end GV.Crash
