import GrinVerif.Lemmas.StoreCompact
/-! The leaf-shift analogue of `shift_counts_compacted` (C08, gap (3)): `get_leaf_shift` counts
the compacted *leaves* below a position, `n_leaves(pos+1) − get_leaf_shift(pos+1) − 1` is the
index of leaf `pos` in the compacted data file, and the read law of the data file.
Core Lean only. -/
namespace GV.Store
open GV GV.Pmmr GV.Pmmr.Co

/-! ### counting leaves -/

/-- the number of leaves before the node `(n, h)` -/
theorem rk_leaf_coord : ∀ n, rk isLeaf (mmr n) = n ∧
    ∀ h, h ≤ trailingOnes n → rk isLeaf (mmr n + h) = n + if h = 0 then 0 else 1 := by
  have inner : ∀ n, rk isLeaf (mmr n) = n →
      ∀ h, h ≤ trailingOnes n → rk isLeaf (mmr n + h) = n + if h = 0 then 0 else 1 := by
    intro n h0 h
    induction h with
    | zero => intro _; simpa using h0
    | succ k ih =>
      intro hk
      have := ih (by omega)
      have e : mmr n + (k + 1) = (mmr n + k) + 1 := by omega
      rw [e, rk_succ, this]
      have hl : isLeaf (mmr n + k) = (k == 0) := by unfold isLeaf; rw [height_co n k (by omega)]
      rw [hl]
      by_cases hk0 : k = 0 <;> simp [hk0]
  intro n
  induction n with
  | zero =>
    have h0 : rk isLeaf (mmr 0) = 0 := by rw [mmr_zero]; rfl
    exact ⟨h0, inner 0 h0⟩
  | succ n ih =>
    have h1 := ih.2 (trailingOnes n) (Nat.le_refl _)
    have e : mmr (n + 1) = (mmr n + trailingOnes n) + 1 := by rw [mmr_succ]; omega
    have hl : isLeaf (mmr n + trailingOnes n) = (trailingOnes n == 0) := by
      unfold isLeaf; rw [height_co n _ (Nat.le_refl _)]
    have h0 : rk isLeaf (mmr (n + 1)) = n + 1 := by
      rw [e, rk_succ, h1, hl]
      by_cases hk0 : trailingOnes n = 0 <;> simp [hk0]
    exact ⟨h0, inner (n + 1) h0⟩

/-- `bintree_leftmost` in coordinates -/
theorem leftmost_co {n h : Nat} (hh : h ≤ trailingOnes n) :
    bintreeLeftmost (mmr n + h) = mmr (n + 1 - 2 ^ h) := by
  obtain ⟨_, h2⟩ := leftmost_coord hh
  unfold bintreeLeftmost
  rw [height_co n h hh]; omega

/-- **the leaf-shift summand is the number of leaves strictly inside the subtree** -/
theorem rootLeafShift_count (r : Nat) :
    PruneList.rootLeafShift r = rk isLeaf r - rk isLeaf (bintreeLeftmost r) := by
  obtain ⟨n, h, hh, rfl⟩ := coord_surj r
  rw [leftmost_co hh, (rk_leaf_coord _).1, (rk_leaf_coord n).2 h hh]
  unfold PruneList.rootLeafShift
  rw [height_co n h hh]
  have := (leftmost_coord hh).1
  by_cases h0 : h = 0
  · subst h0; simp
  · have hpos := two_pow_pos h
    simp only [h0, if_false]
    omega

/-- `n_leaves(pos + 1)` for a leaf position is its insertion index plus one -/
theorem nLeaves_leaf_succ (n : Nat) : nLeaves (mmr n + 1) = n + 1 := by
  unfold nLeaves
  by_cases ht : trailingOnes n = 0
  · have e : mmr n + 1 = mmr (n + 1) := by rw [mmr_succ]; omega
    rw [e, peakMapHeight_leaf]
    simp
  · have := peakMapHeight_co n 1 (by omega)
    rw [this]; simp

theorem leaf_coord {q : Nat} (hq : height q = 0) : ∃ n, q = mmr n := by
  obtain ⟨n, h, hh, rfl⟩ := coord_surj q
  rw [height_co n h hh] at hq
  subst hq; exact ⟨n, rfl⟩

/-- leaves before a leaf position = `n_leaves(pos+1) − 1` -/
theorem nLeaves_eq_rk {q : Nat} (hq : height q = 0) : nLeaves (q + 1) = rk isLeaf q + 1 := by
  obtain ⟨n, rfl⟩ := leaf_coord hq
  rw [nLeaves_leaf_succ, (rk_leaf_coord n).1]

/-! ### counting inside intervals, for any predicate -/

theorem countP_and_interval (p : Nat → Bool) (lo hi n : Nat) (h : lo ≤ hi) :
    (List.range n).countP (fun q => p q && (decide (lo ≤ q) && decide (q < hi))) =
      rk p (min hi n) - rk p (min lo n) := by
  induction n with
  | zero => simp [rk]
  | succ n ih =>
    rw [List.range_succ, List.countP_append, ih]
    simp only [List.countP_cons, List.countP_nil]
    by_cases h1 : lo ≤ n
    · by_cases h2 : n < hi
      · have e1 : min hi (n + 1) = n + 1 := by omega
        have e2 : min lo (n + 1) = lo := by omega
        have e3 : min hi n = n := by omega
        have e4 : min lo n = lo := by omega
        rw [e1, e2, e3, e4, rk_succ]
        have := rk_mono p h1
        cases p n <;> simp [h1, h2] <;> omega
      · have e1 : min hi (n + 1) = hi := by omega
        have e2 : min lo (n + 1) = lo := by omega
        have e3 : min hi n = hi := by omega
        have e4 : min lo n = lo := by omega
        rw [e1, e2, e3, e4]
        simp [h2]
    · have e1 : min hi (n + 1) = n + 1 := by omega
      have e2 : min lo (n + 1) = n + 1 := by omega
      have e3 : min hi n = n := by omega
      have e4 : min lo n = n := by omega
      rw [e1, e2, e3, e4]
      simp [h1]

/-- number of compacted positions satisfying `p` below `pos`, as a sum over the roots -/
theorem count_compacted_p (p : Nat → Bool) (bm : Bitmap)
    (hdisj : List.Pairwise (fun a b => a ≤ bintreeLeftmost (b - 1)) bm) (hpos : ∀ x ∈ bm, 1 ≤ x)
    (pos : Nat) :
    (List.range pos).countP (fun q => p q && compactedP bm q) =
      sumF (fun r => rk p (min r pos) - rk p (min (bintreeLeftmost r) pos)) bm := by
  induction bm with
  | nil => simp [compactedP, sumF]
  | cons a t ih =>
    have hd := List.pairwise_cons.1 hdisj
    have ih' := ih hd.2 (fun x hx => hpos x (by simp [hx]))
    have hfun : (fun q => p q && compactedP (a :: t) q) =
        fun q => (p q && interior a q) || (p q && compactedP t q) := by
      funext q; simp [compactedP, Bool.and_or_distrib_left]
    rw [hfun, countP_or_disjoint, ih', sumF]
    · congr 1
      unfold interior
      exact countP_and_interval p _ _ _ (PruneList.leftmost_le _)
    · intro q _ ⟨h1, h2⟩
      simp only [Bool.and_eq_true] at h1 h2
      have h1' := h1.2
      have h2' := h2.2
      unfold interior at h1'
      unfold compactedP at h2'
      rw [List.any_eq_true] at h2'
      obtain ⟨b, hb, hb2⟩ := h2'
      unfold interior at hb2
      have := hd.1 b hb
      have := hpos a (by simp)
      simp at h1' hb2
      omega

namespace PruneList

/-- **`get_leaf_shift(pos + 1)` = number of compacted leaves below `pos`** (gap (3)), for every
position that is not itself compacted away -/
theorem getLeafShift_counts {pl : PruneList} (h : Inv pl) (q : Nat)
    (hnc : compactedP pl.bitmap q = false) :
    getLeafShift pl (1 + q) = (List.range q).countP (fun x => isLeaf x && compactedP pl.bitmap x) := by
  rw [getLeafShift_spec h, count_compacted_p isLeaf _ h.disj h.pos]
  rw [sumF_filter_of_zero _ (fun x => decide (x ≤ 1 + (1 + q))) pl.bitmap]
  · apply sumF_congr
    intro x hx
    obtain ⟨hxm, hx'⟩ := List.mem_filter.1 hx
    have hx1 := h.pos x hxm
    simp at hx'
    have hlm := leftmost_le (x - 1)
    have hnc' := compactedP_false_iff.1 hnc
    show rootLeafShift (x - 1) = _
    rw [rootLeafShift_count]
    by_cases hlt : x - 1 ≤ q
    · -- the whole subtree is before `q`
      have e1 : min (x - 1) q = x - 1 := by omega
      have e2 : min (bintreeLeftmost (x - 1)) q = bintreeLeftmost (x - 1) := by omega
      rw [e1, e2]
    · -- the root is `q + 1`: a leaf, otherwise `q` would be compacted
      have hx2 : x - 1 = q + 1 := by omega
      have hL : q < bintreeLeftmost (x - 1) := by
        apply Classical.byContradiction
        intro hc
        exact hnc' ⟨x, hxm, ⟨by omega, by omega⟩, by omega⟩
      have e1 : min (x - 1) q = q := by omega
      have e2 : min (bintreeLeftmost (x - 1)) q = q := by omega
      have e3 : bintreeLeftmost (x - 1) = x - 1 := by omega
      rw [e1, e2, e3]; omega
  · intro x hx hc
    simp at hc
    have hnc' := compactedP_false_iff.1 hnc
    have hlm := leftmost_le (x - 1)
    have hL : q < bintreeLeftmost (x - 1) := by
      apply Classical.byContradiction
      intro hc'
      exact hnc' ⟨x, hx, ⟨by omega, by omega⟩, by omega⟩
    show rk isLeaf (min (x - 1) q) - rk isLeaf (min (bintreeLeftmost (x - 1)) q) = 0
    have e1 : min (x - 1) q = q := by omega
    have e2 : min (bintreeLeftmost (x - 1)) q = q := by omega
    rw [e1, e2]; omega

end PruneList

/-- the leaf positions whose data the compacted data file still holds, in order -/
def dataLayout (bm : Bitmap) (size : Nat) : List Nat :=
  (List.range size).filter fun q => isLeaf q && !compactedP bm q

theorem rk_split (p c : Nat → Bool) (q : Nat) :
    rk p q = rk (fun x => p x && c x) q + rk (fun x => p x && !c x) q := by
  induction q with
  | zero => rfl
  | succ n ih =>
    rw [rk_succ, rk_succ, rk_succ, ih]
    cases p n <;> cases c n <;> simp <;> omega

/-- **`n_leaves(pos+1) − get_leaf_shift(pos+1) − 1` indexes the compacted data file** -/
theorem dataIdx_eq {pl : PruneList} (h : PruneList.Inv pl) (q : Nat) (hq : height q = 0)
    (hnc : compactedP pl.bitmap q = false) :
    nLeaves (q + 1) - pl.getLeafShift (1 + q) =
      rk (fun x => isLeaf x && !compactedP pl.bitmap x) q + 1 := by
  rw [nLeaves_eq_rk hq, PruneList.getLeafShift_counts h q hnc]
  have := rk_split isLeaf (compactedP pl.bitmap) q
  unfold rk at *
  omega

theorem hashIdx_eq {pl : PruneList} (h : PruneList.Inv pl) (q : Nat)
    (hnc : compactedP pl.bitmap q = false) :
    q + 1 - pl.getShift q = rk (fun x => !compactedP pl.bitmap x) q + 1 := by
  have := countP_not_add (compactedP pl.bitmap) (List.range q)
  rw [PruneList.getShift_counts h q hnc]
  unfold rk
  simp at this; omega

namespace Backend
variable {H : Type}

/-- **read law of the compacted data file**: if the (synced, fixed-size) data file holds the
reference data of exactly the surviving leaves, `get_data_from_file` returns the reference data
of every leaf that `is_compacted` does not report as gone -/
theorem getDataFromFile_of_layout (el : Bytes → Option Nat) {b : Backend H} {df : AOF Bytes}
    (dref : Nat → Bytes) (size : Nat) (hinv : b.pruneList.Inv) (hd : b.dataFile = .fixed df)
    (hclean : df.Clean) (hlay : df.disk = (dataLayout b.pruneList.bitmap size).map dref)
    (q : Nat) (hq : q < size) (hleaf : height q = 0)
    (hnc : compactedP b.pruneList.bitmap q = false) (hic : b.isCompacted q = false) :
    b.getDataFromFile el q = some (dref q) := by
  unfold getDataFromFile
  have hl : isLeaf q = true := (isLeaf_iff q).2 hleaf
  simp only [hl, Bool.not_true, Bool.false_eq_true, if_false, hic]
  rw [hd]
  unfold DFile.read1 AOF.read1
  simp only
  have hidx := dataIdx_eq hinv q hleaf hnc
  rw [hidx, if_neg (by omega), Nat.add_sub_cancel, AOF.read_clean hclean, hlay, List.getElem?_map]
  have := filter_range_index (fun x => isLeaf x && !compactedP b.pruneList.bitmap x) size q hq
    (by simp [hl, hnc])
  unfold dataLayout
  rw [this]; rfl

end Backend
end GV.Store
