import GrinVerif.Model.ChainPool
import GrinVerif.Lemmas.ChainPoolPos
/-! The pool-facing admission checks of the chain (`txMaturity`, `txLock`, `txValidate` of
`Model/Chain.lean`) against the block-level rules, on an arbitrary replayed state: they are the
block rules evaluated for the block the transaction would be mined into next (`txBlock`), with
exact thresholds; and the NRD index of a replayed state is the list of NRD kernels of the path that
was replayed, most recent first. -/
namespace GV.Chain

/-! ### (a) pool decision = block decision at the next height -/

section Agreement
variable (p : Params) (s : UState) (t : TxA) (id par work ver ts cbo : Nat)

theorem txMaturity_eq_block :
    txMaturity p s t =
      if !((txBlock t id par (s.height + 1) work ver ts cbo).ins.all s.has) then some "AlreadySpent"
      else if immature p s (txBlock t id par (s.height + 1) work ver ts cbo)
        then some "ImmatureCoinbase" else none := rfl

theorem txLock_eq_block :
    txLock s t =
      if lockViolation (txBlock t id par (s.height + 1) work ver ts cbo) then some "TxLockHeight"
      else none := by
  simp [txLock, lockViolation, txBlock]

theorem dupOutput_txBlock (h : Nat) (hcbo : s.has cbo = false) :
    dupOutput s (txBlock t id par h work ver ts cbo) = t.outs.any s.has := by
  simp [dupOutput, txBlock, hcbo, List.any_map]
  rfl

theorem nrdBad_txBlock :
    nrdBad s (txBlock t id par (s.height + 1) work ver ts cbo) =
      t.kers.any (fun k => match k with
        | .nrd _ rel ex => match s.nrd.find? (·.1 == ex) with
          | some (_, hPrev) => decide (s.height + 1 < hPrev + rel)
          | none => false
        | _ => false) := by
  unfold nrdBad txBlock
  simp only [List.any_cons, Bool.false_or]
  rfl

theorem txValidate_eq_block (hcbo : s.has cbo = false) :
    txValidate s t =
      if dupOutput s (txBlock t id par (s.height + 1) work ver ts cbo) then some "DuplicateCommitment"
      else if !((txBlock t id par (s.height + 1) work ver ts cbo).ins.all s.has) then some "AlreadySpent"
      else if nrdBad s (txBlock t id par (s.height + 1) work ver ts cbo) then some "NRDRelativeHeight"
      else none := by
  rw [dupOutput_txBlock s t id par work ver ts cbo _ hcbo, nrdBad_txBlock]
  rfl

/-- **The state-dependent verdict on the block is the pool's verdict.** For the block made of the
transaction plus a fresh coinbase at the next height: `stateChecks` (the state-dependent rules of
block processing, in the code's order) answers what `verify_coinbase_maturity` answers, and when
that passes, what `validate_tx` answers. -/
theorem stateChecks_txBlock (hcbo : s.has cbo = false) :
    stateChecks p s (txBlock t id par (s.height + 1) work ver ts cbo) =
      match txMaturity p s t with
      | some e => some e
      | none => txValidate s t := by
  rw [txValidate_eq_block s t id par work ver ts cbo hcbo,
    txMaturity_eq_block p s t id par work ver ts cbo]
  unfold stateChecks
  have htag : ∀ pfx, hasTag (txBlock t id par (s.height + 1) work ver ts cbo) pfx = none := by
    intro pfx; simp [hasTag, txBlock]
  by_cases h1 : (!((txBlock t id par (s.height + 1) work ver ts cbo).ins.all s.has)) = true
  · simp [h1]
  · by_cases h2 : immature p s (txBlock t id par (s.height + 1) work ver ts cbo) = true
    · simp [h1, h2]
    · by_cases h3 : dupOutput s (txBlock t id par (s.height + 1) work ver ts cbo) = true
      · simp [h1, h2, h3]
      · simp [h1, h2, h3, htag]

/-- (a) **admitted by the pool-facing checks ⟺ the block passes every state and lock check** -/
theorem pool_admits_iff_block_passes (hcbo : s.has cbo = false) :
    (txMaturity p s t = none ∧ txLock s t = none ∧ txValidate s t = none) ↔
    ((∀ i ∈ t.ins, s.has i = true) ∧
     immature p s (txBlock t id par (s.height + 1) work ver ts cbo) = false ∧
     lockViolation (txBlock t id par (s.height + 1) work ver ts cbo) = false ∧
     nrdBad s (txBlock t id par (s.height + 1) work ver ts cbo) = false ∧
     dupOutput s (txBlock t id par (s.height + 1) work ver ts cbo) = false) := by
  rw [txLock_eq_block s t id par work ver ts cbo,
    txValidate_eq_block s t id par work ver ts cbo hcbo,
    txMaturity_eq_block p s t id par work ver ts cbo]
  have hins : (txBlock t id par (s.height + 1) work ver ts cbo).ins = t.ins := rfl
  rw [hins]
  have hall : (t.ins.all s.has = true) ↔ ∀ i ∈ t.ins, s.has i = true := List.all_eq_true
  cases h1 : t.ins.all s.has <;>
  cases h2 : immature p s (txBlock t id par (s.height + 1) work ver ts cbo) <;>
  cases h3 : lockViolation (txBlock t id par (s.height + 1) work ver ts cbo) <;>
  cases h4 : nrdBad s (txBlock t id par (s.height + 1) work ver ts cbo) <;>
  cases h5 : dupOutput s (txBlock t id par (s.height + 1) work ver ts cbo) <;>
  simp [← hall, h1]

/-- … so the block is applicable exactly when `verify_coinbase_maturity` and `validate_tx` pass -/
theorem applyBlock_txBlock_iff (hcbo : s.has cbo = false) :
    applyBlock p s (txBlock t id par (s.height + 1) work ver ts cbo) =
        .ok (effects s (txBlock t id par (s.height + 1) work ver ts cbo)) ↔
      (txMaturity p s t = none ∧ txValidate s t = none) := by
  unfold applyBlock
  rw [stateChecks_txBlock p s t id par work ver ts cbo hcbo]
  cases h1 : txMaturity p s t with
  | some e => simp
  | none =>
    cases h2 : txValidate s t with
    | some e => simp
    | none => simp

/-- a refusal by `verify_coinbase_maturity` is the block-level refusal with the same reason -/
theorem txMaturity_refusal_is_block_refusal (hcbo : s.has cbo = false) (e : Err)
    (h : txMaturity p s t = some e) :
    applyBlock p s (txBlock t id par (s.height + 1) work ver ts cbo) = .error e := by
  unfold applyBlock
  rw [stateChecks_txBlock p s t id par work ver ts cbo hcbo, h]

/-- a refusal by `validate_tx` is a block-level refusal (the same reason when maturity passes) -/
theorem txValidate_refusal_is_block_refusal (hcbo : s.has cbo = false) (e : Err)
    (h : txValidate s t = some e) :
    ∃ e', applyBlock p s (txBlock t id par (s.height + 1) work ver ts cbo) = .error e' ∧
      (txMaturity p s t = none → e' = e) := by
  unfold applyBlock
  rw [stateChecks_txBlock p s t id par work ver ts cbo hcbo, h]
  cases h1 : txMaturity p s t with
  | some e1 => exact ⟨e1, rfl, fun h => by cases h⟩
  | none => exact ⟨e, rfl, fun _ => rfl⟩

/-- a refusal by `verify_tx_lock_height` is a refusal of the body (`Block::validate`) -/
theorem txLock_refusal_is_block_refusal (outs : List OutDef) (iv : Nat) (e : Err)
    (h : txLock s t = some e) :
    validateBody p outs (txBlock t id par (s.height + 1) work ver ts cbo) iv ≠ none := by
  intro hv
  have := (validateBody_none p outs _ iv hv).2.1
  rw [txLock_eq_block s t id par work ver ts cbo, this] at h
  simp at h

end Agreement

/-! ### (b) exact thresholds -/

/-- coinbase maturity: with every input unspent, refused exactly when some coinbase input was
created at a height `c` with `next height < c + maturity` -/
theorem txMaturity_refuses_iff (p : Params) (s : UState) (t : TxA)
    (hall : ∀ i ∈ t.ins, s.has i = true) :
    (txMaturity p s t = some "ImmatureCoinbase" ↔
      ∃ i ∈ t.ins, ∃ c, s.find i = some (i, c, true) ∧ s.height + 1 < c + p.maturity) ∧
    (txMaturity p s t = none ↔
      ∀ i ∈ t.ins, ∀ c, s.find i = some (i, c, true) → c + p.maturity ≤ s.height + 1) := by
  rw [txMaturity_spec]
  have h1 : ¬ ∃ i ∈ t.ins, s.has i = false := by
    rintro ⟨i, hi, hn⟩
    rw [hall i hi] at hn; cases hn
  rw [if_neg h1]
  by_cases h2 : ∃ i ∈ t.ins, ∃ c, s.find i = some (i, c, true) ∧ s.height + 1 < c + p.maturity
  · rw [if_pos h2]
    refine ⟨⟨fun _ => h2, fun _ => rfl⟩, ⟨fun h => (by cases h), ?_⟩⟩
    intro h
    obtain ⟨i, hi, c, hf, hlt⟩ := h2
    have := h i hi c hf
    omega
  · rw [if_neg h2]
    refine ⟨⟨fun h => (by cases h), fun h => absurd h h2⟩, ⟨fun _ => ?_, fun _ => rfl⟩⟩
    intro i hi c hf
    by_cases hlt : s.height + 1 < c + p.maturity
    · exact absurd ⟨i, hi, c, hf, hlt⟩ h2
    · omega

/-- … for a transaction spending one unspent coinbase created at height `c`: refused iff the next
block height is below `c + maturity` (one below: refused; at: admitted) -/
theorem txMaturity_single (p : Params) (s : UState) (i c : Nat) (outs : List Nat) (kers : List Ker)
    (hc : s.find i = some (i, c, true)) :
    txMaturity p s ⟨[i], outs, kers⟩ =
      if s.height + 1 < c + p.maturity then some "ImmatureCoinbase" else none := by
  have hhas : s.has i = true := by
    unfold UState.has
    unfold UState.find at hc
    exact List.any_eq_true.mpr ⟨_, List.mem_of_find?_eq_some hc, by simp⟩
  simp [txMaturity, hhas, hc]

/-- … and a non-coinbase output is never held back -/
theorem txMaturity_plain (p : Params) (s : UState) (i c : Nat) (outs : List Nat) (kers : List Ker)
    (hc : s.find i = some (i, c, false)) : txMaturity p s ⟨[i], outs, kers⟩ = none := by
  have hhas : s.has i = true := by
    unfold UState.has
    unfold UState.find at hc
    exact List.any_eq_true.mpr ⟨_, List.mem_of_find?_eq_some hc, by simp⟩
  simp [txMaturity, hhas, hc]

/-- lock heights: refused exactly when some height-locked kernel has a lock above the next height -/
theorem txLock_refuses_iff (s : UState) (t : TxA) :
    (txLock s t = some "TxLockHeight" ↔ ∃ f l, Ker.hl f l ∈ t.kers ∧ s.height + 1 < l) ∧
    (txLock s t = none ↔ ∀ f l, Ker.hl f l ∈ t.kers → l ≤ s.height + 1) := by
  unfold txLock
  split
  · rename_i h
    obtain ⟨k, hk, hm⟩ := List.any_eq_true.mp h
    have hex : ∃ f l, Ker.hl f l ∈ t.kers ∧ s.height + 1 < l := by
      cases k with
      | hl f l => exact ⟨f, l, hk, by simpa using hm⟩
      | cb => simp at hm
      | plain f => simp at hm
      | nrd f r e => simp at hm
    refine ⟨⟨fun _ => hex, fun _ => rfl⟩, ⟨fun h => (by cases h), ?_⟩⟩
    intro hall
    obtain ⟨f, l, hk, hlt⟩ := hex
    have := hall f l hk
    omega
  · rename_i h
    have hno : ¬ ∃ f l, Ker.hl f l ∈ t.kers ∧ s.height + 1 < l := by
      rintro ⟨f, l, hk, hlt⟩
      exact h (List.any_eq_true.mpr ⟨_, hk, by simpa using hlt⟩)
    refine ⟨⟨fun h => (by cases h), fun h => absurd h hno⟩, ⟨fun _ => ?_, fun _ => rfl⟩⟩
    intro f l hk
    by_cases hlt : s.height + 1 < l
    · exact absurd ⟨f, l, hk, hlt⟩ hno
    · omega

/-- NRD: with no duplicate output and every input unspent, refused exactly when some NRD kernel's
excess was last seen on the replayed path at a height `hPrev` with `next height < hPrev + rel` -/
theorem txValidate_nrd_iff (s : UState) (t : TxA) (hdup : t.outs.any s.has = false)
    (hall : ∀ i ∈ t.ins, s.has i = true) :
    (txValidate s t = some "NRDRelativeHeight" ↔
      ∃ f rel ex hPrev, Ker.nrd f rel ex ∈ t.kers ∧ s.nrd.find? (·.1 == ex) = some (ex, hPrev) ∧
        s.height + 1 < hPrev + rel) ∧
    (txValidate s t = none ↔
      ∀ f rel ex hPrev, Ker.nrd f rel ex ∈ t.kers → s.nrd.find? (·.1 == ex) = some (ex, hPrev) →
        hPrev + rel ≤ s.height + 1) := by
  have hallb : t.ins.all s.has = true := List.all_eq_true.mpr hall
  unfold txValidate
  rw [hdup, hallb]
  simp only [Bool.false_eq_true, if_false, Bool.not_true]
  split
  · rename_i h
    obtain ⟨k, hk, hm⟩ := List.any_eq_true.mp h
    have hex : ∃ f rel ex hPrev, Ker.nrd f rel ex ∈ t.kers ∧
        s.nrd.find? (·.1 == ex) = some (ex, hPrev) ∧ s.height + 1 < hPrev + rel := by
      cases k with
      | cb => simp at hm
      | plain f => simp at hm
      | hl f l => simp at hm
      | nrd f rel ex =>
        cases hf : s.nrd.find? (·.1 == ex) with
        | none => simp [hf] at hm
        | some x =>
          obtain ⟨ex', hp⟩ := x
          have : ex' = ex := by simpa using List.find?_some hf
          subst this
          simp only [hf, decide_eq_true_eq] at hm
          exact ⟨f, rel, ex', hp, hk, hf, hm⟩
    refine ⟨⟨fun _ => hex, fun _ => rfl⟩, ⟨fun h => (by cases h), ?_⟩⟩
    intro hle
    obtain ⟨f, rel, ex, hPrev, hk, hf, hlt⟩ := hex
    have := hle f rel ex hPrev hk hf
    omega
  · rename_i h
    have hno : ¬ ∃ f rel ex hPrev, Ker.nrd f rel ex ∈ t.kers ∧
        s.nrd.find? (·.1 == ex) = some (ex, hPrev) ∧ s.height + 1 < hPrev + rel := by
      rintro ⟨f, rel, ex, hPrev, hk, hf, hlt⟩
      exact h (List.any_eq_true.mpr ⟨_, hk, by simp [hf, hlt]⟩)
    refine ⟨⟨fun h => (by cases h), fun h => absurd h hno⟩, ⟨fun _ => ?_, fun _ => rfl⟩⟩
    intro f rel ex hPrev hk hf
    by_cases hlt : s.height + 1 < hPrev + rel
    · exact absurd ⟨f, rel, ex, hPrev, hk, hf, hlt⟩ hno
    · omega

/-! ### the NRD index of a replayed state is the NRD kernels of the replayed path -/

/-- the NRD kernels of a block as index entries (excess, height of the block) -/
def nrdOf (b : Blk) : List (String × Nat) :=
  b.kers.filterMap fun k => match k with
    | .nrd _ _ ex => some (ex, b.h)
    | _ => none

/-- the block carries an NRD kernel with excess `ex` -/
def CarriesNrd (b : Blk) (ex : String) : Prop := ∃ f rel, Ker.nrd f rel ex ∈ b.kers

theorem replay_nrd (p : Params) (bs : List Blk) : ∀ (s s' : UState), replay p s bs = .ok s' →
    s'.nrd = bs.reverse.flatMap nrdOf ++ s.nrd := by
  induction bs with
  | nil =>
    intro s s' h
    simp only [replay] at h
    injection h with h
    subst h; simp
  | cons b bs ih =>
    intro s s' h
    simp only [replay] at h
    cases h1 : applyBlock p s b with
    | error e => rw [h1] at h; cases h
    | ok s1 =>
      rw [h1] at h
      have he := (applyBlock_ok p s s1 b h1).2.2.2.2
      rw [ih s1 s' h, he]
      simp only [effects, nrdOf, List.reverse_cons, List.flatMap_append, List.flatMap_cons,
        List.flatMap_nil, List.append_nil, List.append_assoc]
      rfl

theorem mem_nrdOf (b : Blk) (x : String × Nat) :
    x ∈ nrdOf b ↔ x.2 = b.h ∧ CarriesNrd b x.1 := by
  unfold nrdOf CarriesNrd
  simp only [List.mem_filterMap]
  constructor
  · rintro ⟨k, hk, hm⟩
    cases k with
    | nrd f rel ex =>
      simp only [Option.some.injEq] at hm
      subst hm
      exact ⟨rfl, f, rel, hk⟩
    | cb => simp at hm
    | plain f => simp at hm
    | hl f l => simp at hm
  · rintro ⟨hh, f, rel, hk⟩
    exact ⟨_, hk, by simp [← hh]⟩

theorem nrdOf_find (b : Blk) (ex : String) :
    (CarriesNrd b ex ∧ (nrdOf b).find? (·.1 == ex) = some (ex, b.h)) ∨
    (¬ CarriesNrd b ex ∧ (nrdOf b).find? (·.1 == ex) = none) := by
  cases hf : (nrdOf b).find? (·.1 == ex) with
  | none =>
    right
    refine ⟨?_, rfl⟩
    intro hc
    have := List.find?_eq_none.mp hf (ex, b.h) ((mem_nrdOf b _).mpr ⟨rfl, hc⟩)
    simp at this
  | some x =>
    left
    have h1 : x.1 = ex := by simpa using List.find?_some hf
    have h2 := (mem_nrdOf b x).mp (List.mem_of_find?_eq_some hf)
    obtain ⟨a, c⟩ := x
    simp only at h1 h2
    subst h1
    exact ⟨h2.2, by rw [h2.1]⟩

/-- the first match in the index of a tip-first list of blocks: the nearest block carrying `ex` -/
theorem nrd_find_tipFirst (rb : List Blk) (ex : String) :
    (∃ post b pre, rb = post ++ b :: pre ∧ (∀ b' ∈ post, ¬ CarriesNrd b' ex) ∧ CarriesNrd b ex ∧
      (rb.flatMap nrdOf).find? (·.1 == ex) = some (ex, b.h)) ∨
    ((∀ b' ∈ rb, ¬ CarriesNrd b' ex) ∧ (rb.flatMap nrdOf).find? (·.1 == ex) = none) := by
  induction rb with
  | nil => right; exact ⟨fun _ h => (by cases h), rfl⟩
  | cons a rb ih =>
    simp only [List.flatMap_cons, List.find?_append]
    rcases nrdOf_find a ex with ⟨hc, hf⟩ | ⟨hc, hf⟩
    · left
      exact ⟨[], a, rb, rfl, fun _ h => (by cases h), hc, by rw [hf]; rfl⟩
    · rw [hf]
      simp only [Option.none_or]
      rcases ih with ⟨post, b, pre, e, hpost, hb, hfind⟩ | ⟨hall, hfind⟩
      · left
        refine ⟨a :: post, b, pre, by rw [e]; rfl, ?_, hb, hfind⟩
        intro b' hb'
        rcases List.mem_cons.mp hb' with rfl | h
        · exact hc
        · exact hpost b' h
      · right
        refine ⟨?_, hfind⟩
        intro b' hb'
        rcases List.mem_cons.mp hb' with rfl | h
        · exact hc
        · exact hall b' h

/-- **NRD index = last occurrence on the replayed path.** After replaying `bs` from a state with an
empty index: looking up `ex` finds the height of the *last* block of `bs` carrying an NRD kernel
with that excess, and nothing when no block of `bs` carries one — blocks that are not in `bs`
(other forks, blocks rewound by a reorganisation) do not exist for the lookup. -/
theorem nrd_lookup_on_path (p : Params) (bs : List Blk) (s s' : UState) (hs : s.nrd = [])
    (hr : replay p s bs = .ok s') (ex : String) :
    (∃ pre b post, bs = pre ++ b :: post ∧ CarriesNrd b ex ∧ (∀ b' ∈ post, ¬ CarriesNrd b' ex) ∧
      s'.nrd.find? (·.1 == ex) = some (ex, b.h)) ∨
    ((∀ b' ∈ bs, ¬ CarriesNrd b' ex) ∧ s'.nrd.find? (·.1 == ex) = none) := by
  rw [replay_nrd p bs s s' hr, hs, List.append_nil]
  rcases nrd_find_tipFirst bs.reverse ex with ⟨post, b, pre, e, hpost, hb, hfind⟩ | ⟨hall, hfind⟩
  · left
    refine ⟨pre.reverse, b, post.reverse, ?_, hb, ?_, hfind⟩
    · have := congrArg List.reverse e
      simpa using this
    · intro b' hb'
      exact hpost b' (List.mem_reverse.mp hb')
  · right
    exact ⟨fun b' hb' => hall b' (List.mem_reverse.mpr hb'), hfind⟩

/-! ### provenance of the unspent outputs of a replayed state -/

theorem replay_utxo_provenance (p : Params) (bs : List Blk) : ∀ (s s' : UState),
    replay p s bs = .ok s' → ∀ u ∈ s'.utxo, u ∈ s.utxo ∨ ∃ b ∈ bs, u.2.1 = b.h ∧ (u.1, u.2.2) ∈ b.outs := by
  induction bs with
  | nil =>
    intro s s' h u hu
    simp only [replay] at h
    injection h with h
    subst h; exact Or.inl hu
  | cons b bs ih =>
    intro s s' h u hu
    simp only [replay] at h
    cases h1 : applyBlock p s b with
    | error e => rw [h1] at h; cases h
    | ok s1 =>
      rw [h1] at h
      have he := (applyBlock_ok p s s1 b h1).2.2.2.2
      rcases ih s1 s' h u hu with h2 | ⟨b', hb', h2⟩
      · rw [he] at h2
        simp only [effects, List.mem_append, List.mem_filter, List.mem_map] at h2
        rcases h2 with ⟨h2, _⟩ | ⟨o, ho, rfl⟩
        · exact Or.inl h2
        · exact Or.inr ⟨b, List.mem_cons_self .., rfl, ho⟩
      · exact Or.inr ⟨b', List.mem_cons_of_mem _ hb', h2⟩

end GV.Chain
