import GrinVerif.Lemmas.PowOracle
/-! The executable oracle (`degreeOkG`, `closureG` of `Model/PowSpec.lean`) computes `Deg2` and
`Conn` of `Lemmas/PowOracle.lean`. -/
set_option linter.unusedSectionVars false
namespace GV.Pow

/-! ### lists of numbers as finite sets -/

theorem filter_range_singleton (n : Nat) (p : Nat → Bool) (b : Nat) :
    (List.range n).filter p = [b] ↔ (b < n ∧ p b = true ∧ ∀ x, x < n → p x = true → x = b) := by
  constructor
  · intro h
    have hb : b ∈ (List.range n).filter p := by rw [h]; simp
    rw [List.mem_filter, List.mem_range] at hb
    refine ⟨hb.1, hb.2, fun x hx hp => ?_⟩
    have : x ∈ (List.range n).filter p := List.mem_filter.mpr ⟨List.mem_range.mpr hx, hp⟩
    rw [h] at this
    simpa using this
  · rintro ⟨hb, hp, hu⟩
    have nd : ((List.range n).filter p).Nodup := List.Nodup.sublist List.filter_sublist List.nodup_range
    have hall : ∀ x ∈ (List.range n).filter p, x = b := by
      intro x hx
      rw [List.mem_filter, List.mem_range] at hx
      exact hu x hx.1 hx.2
    have hmem : b ∈ (List.range n).filter p := List.mem_filter.mpr ⟨List.mem_range.mpr hb, hp⟩
    generalize (List.range n).filter p = l at nd hall hmem
    match l, nd, hall, hmem with
    | [], _, _, hmem => simp at hmem
    | [y], _, hall, _ => rw [hall y (by simp)]
    | y :: z :: r, nd, hall, _ =>
      have h1 := hall y (by simp)
      have h2 := hall z (by simp)
      rw [List.nodup_cons] at nd
      exact absurd (by rw [h1, h2]; simp) nd.1

theorem mem_of_nodup_sub_length {l m : List Nat} (ndl : l.Nodup) (hs : ∀ x ∈ l, x ∈ m)
    (hlen : m.length ≤ l.length) : ∀ x ∈ m, x ∈ l := by
  intro x hx
  have sp := List.subperm_of_subset ndl hs
  exact (sp.perm_of_length_le hlen).mem_iff.mpr hx

/-! ### degree counting -/

section
variable {C : UCfg} (E : MtEquiv C) {key uv : Nat → Nat} {L : Nat}
  (sv cont : Nat → Nat → Bool)
  (hsv : ∀ a b, a < 2 * L → b < 2 * L → (sv a b = true ↔ sameVG C key uv a b))
  (hcont : ∀ a b, a < 2 * L → b < 2 * L → sv a b = true →
      (cont a b = true ↔ (C.deadSame = true → uv b ≠ uv a)))
include E hsv hcont

theorem partner_iff_filter (a b : Nat) (ha : a < 2 * L) :
    Partner C key uv (2 * L) a b ↔
      ((List.range (2 * L)).filter (fun x => x != a && sv a x) = [b] ∧ cont a b = true) := by
  rw [filter_range_singleton]
  constructor
  · rintro ⟨⟨h1, h2, h3⟩, h4, h5, h6⟩
    have hs : sv a b = true := (hsv a b ha h1).mpr ⟨h3.symm, by rw [E.symm]; exact h4⟩
    refine ⟨⟨h1, ?_, ?_⟩, (hcont a b ha h1 hs).mpr h6⟩
    · simp only [Bool.and_eq_true, bne_iff_ne, ne_eq]
      exact ⟨h2, hs⟩
    · intro x hx hp
      simp only [Bool.and_eq_true, bne_iff_ne, ne_eq] at hp
      obtain ⟨k1, k2⟩ := (hsv a x ha hx).mp hp.2
      exact h5 x ⟨hx, hp.1, k1.symm⟩ (by rw [E.symm]; exact k2)
  · rintro ⟨⟨h1, h2, h3⟩, h4⟩
    simp only [Bool.and_eq_true, bne_iff_ne, ne_eq] at h2
    obtain ⟨k1, k2⟩ := (hsv a b ha h1).mp h2.2
    refine ⟨⟨h1, h2.1, k1.symm⟩, by rw [E.symm]; exact k2, ?_, (hcont a b ha h1 h2.2).mp h4⟩
    intro s ⟨s1, s2, s3⟩ sm
    apply h3 s s1
    simp only [Bool.and_eq_true, bne_iff_ne, ne_eq]
    exact ⟨s2, (hsv a s ha s1).mpr ⟨s3.symm, by rw [E.symm]; exact sm⟩⟩

/-- **the degree count of the executable oracle is `Deg2`** -/
theorem degreeOkG_iff : degreeOkG (2 * L) sv cont = true ↔ Deg2 C key uv L := by
  unfold degreeOkG Deg2
  rw [List.all_eq_true]
  constructor
  · intro h i hi
    have := h i (List.mem_range.mpr hi)
    split at this
    · next b hb => exact ⟨b, (partner_iff_filter E sv cont hsv hcont i b hi).mpr ⟨hb, this⟩⟩
    · cases this
  · intro h a ha
    have ha' := List.mem_range.mp ha
    obtain ⟨j, hj⟩ := h a ha'
    obtain ⟨h1, h2⟩ := (partner_iff_filter E sv cont hsv hcont a j ha').mp hj
    rw [h1]
    exact h2

end

/-! ### connectivity closure -/

section
variable {C : UCfg} {key uv : Nat → Nat} {L : Nat} (hL : 0 < L)
  (sv : Nat → Nat → Bool)
  (hsv : ∀ a b, a < 2 * L → b < 2 * L → (sv a b = true ↔ sameVG C key uv a b))
include hL hsv

theorem adjEdge_iff (e e' : Nat) (he : e < L) (he' : e' < L) :
    adjEdge sv e e' = true ↔ ∃ x y, x / 2 = e ∧ y / 2 = e' ∧ sameVG C key uv x y := by
  unfold adjEdge
  simp only [Bool.or_eq_true]
  constructor
  · intro h
    rcases h with ((h | h) | h) | h
    · exact ⟨2*e, 2*e', by omega, by omega, (hsv _ _ (by omega) (by omega)).mp h⟩
    · exact ⟨2*e, 2*e'+1, by omega, by omega, (hsv _ _ (by omega) (by omega)).mp h⟩
    · exact ⟨2*e+1, 2*e', by omega, by omega, (hsv _ _ (by omega) (by omega)).mp h⟩
    · exact ⟨2*e+1, 2*e'+1, by omega, by omega, (hsv _ _ (by omega) (by omega)).mp h⟩
  · rintro ⟨x, y, hx, hy, hv⟩
    have hxl : x < 2 * L := by omega
    have hyl : y < 2 * L := by omega
    have hs := (hsv x y hxl hyl).mpr hv
    rcases Nat.mod_two_eq_zero_or_one x with px | px <;>
    rcases Nat.mod_two_eq_zero_or_one y with py | py
    · have e1 : x = 2 * e := by omega
      have e2 : y = 2 * e' := by omega
      rw [e1, e2] at hs; simp [hs]
    · have e1 : x = 2 * e := by omega
      have e2 : y = 2 * e' + 1 := by omega
      rw [e1, e2] at hs; simp [hs]
    · have e1 : x = 2 * e + 1 := by omega
      have e2 : y = 2 * e' := by omega
      rw [e1, e2] at hs; simp [hs]
    · have e1 : x = 2 * e + 1 := by omega
      have e2 : y = 2 * e' + 1 := by omega
      rw [e1, e2] at hs; simp [hs]

/-- the invariant of the closure rounds -/
def CInv (L : Nat) (comp : List Nat) : Prop := comp.Nodup ∧ (∀ e ∈ comp, e < L) ∧ 0 ∈ comp

theorem mem_grow (comp : List Nat) (e : Nat) :
    e ∈ grow sv L comp ↔ e < L ∧ (e ∈ comp ∨ ∃ e' ∈ comp, adjEdge sv e e' = true) := by
  unfold grow
  simp [List.mem_filter, List.mem_range]

theorem grow_inv (comp : List Nat) (h : CInv L comp) :
    CInv L (grow sv L comp) ∧ (∀ e ∈ comp, e ∈ grow sv L comp) := by
  have hsub : ∀ e ∈ comp, e ∈ grow sv L comp := fun e he =>
    (mem_grow hL sv hsv comp e).mpr ⟨h.2.1 e he, .inl he⟩
  refine ⟨⟨?_, ?_, hsub 0 h.2.2⟩, hsub⟩
  · unfold grow; exact List.Nodup.sublist List.filter_sublist List.nodup_range
  · intro e he; exact ((mem_grow hL sv hsv comp e).mp he).1

theorem cinv_length_le (comp : List Nat) (h : CInv L comp) : comp.length ≤ L := by
  have := nodup_subset_length_le h.1 (m := List.range L) (fun x hx => List.mem_range.mpr (h.2.1 x hx))
  simpa using this

/-- whatever the closure returns lies in every adjacency-closed set that contains its start -/
theorem closureG_sub (X : Nat → Prop)
    (hcl : ∀ e e', e < L → e' < L → X e' →
      (∃ x y, x / 2 = e ∧ y / 2 = e' ∧ sameVG C key uv x y) → X e) :
    ∀ r comp, CInv L comp → (∀ e ∈ comp, X e) →
      CInv L (closureG sv L r comp) ∧ ∀ e ∈ closureG sv L r comp, X e := by
  intro r
  induction r with
  | zero => intro comp hi hx; exact ⟨hi, hx⟩
  | succ r ih =>
    intro comp hi hx
    unfold closureG
    simp only
    split
    · exact ⟨hi, hx⟩
    · apply ih _ (grow_inv hL sv hsv comp hi).1
      intro e he
      obtain ⟨heL, h⟩ := (mem_grow hL sv hsv comp e).mp he
      rcases h with h | ⟨e', he', ha⟩
      · exact hx e h
      · exact hcl e e' heL (hi.2.1 e' he') (hx e' he')
          ((adjEdge_iff hL sv hsv e e' heL (hi.2.1 e' he')).mp ha)

/-- with enough rounds the closure stops at a set closed under adjacency -/
theorem closureG_closed : ∀ r comp, CInv L comp → L < r + comp.length →
    CInv L (closureG sv L r comp) ∧
    ∀ e, e < L → (∃ e' ∈ closureG sv L r comp, adjEdge sv e e' = true) → e ∈ closureG sv L r comp := by
  intro r
  induction r with
  | zero =>
    intro comp hi hlt
    have := cinv_length_le hL sv hsv comp hi
    omega
  | succ r ih =>
    intro comp hi hlt
    have hg := grow_inv hL sv hsv comp hi
    unfold closureG
    simp only
    split
    · next heq =>
      refine ⟨hi, fun e he ⟨e', he', ha⟩ => ?_⟩
      have hin : e ∈ grow sv L comp := (mem_grow hL sv hsv comp e).mpr ⟨he, .inr ⟨e', he', ha⟩⟩
      exact mem_of_nodup_sub_length hi.1 hg.2 (by omega) e hin
    · next hne =>
      have hle := nodup_subset_length_le hi.1 hg.2
      exact ih _ hg.1 (by omega)

/-- **the connectivity closure of the executable oracle is `Conn`** -/
theorem closureG_iff : (closureG sv L L [0]).length = L ↔ Conn C key uv L := by
  have h0 : CInv L [0] := ⟨by simp, by intro e he; simp at he; omega, by simp⟩
  constructor
  · intro hlen X hX0 hcl e he
    obtain ⟨hi, hx⟩ := closureG_sub hL sv hsv X hcl L [0] h0 (by intro e he; simp at he; rw [he]; exact hX0)
    apply hx
    have := mem_of_nodup_sub_length hi.1 (m := List.range L)
      (fun x hx => List.mem_range.mpr (hi.2.1 x hx)) (by simp [hlen])
    exact this e (List.mem_range.mpr he)
  · intro hconn
    obtain ⟨hi, hc⟩ := closureG_closed hL sv hsv L [0] h0 (by simp)
    have hall := hconn (fun e => e ∈ closureG sv L L [0]) hi.2.2 (by
      intro e e' he he' hx hadj
      exact hc e he ⟨e', hx, (adjEdge_iff hL sv hsv e e' he he').mpr hadj⟩)
    have h1 := cinv_length_le hL sv hsv _ hi
    have h2 := nodup_subset_length_le (List.nodup_range (n := L)) (m := closureG sv L L [0])
      (fun e he => hall e (List.mem_range.mp he))
    simp at h2
    omega

end

/-! ### the slot array of the executable oracle is `slotNode` -/

theorem slotArray_toList_aux (es : List (Nat × Nat)) : ∀ acc : Array Nat,
    (es.foldl (fun a e => (a.push e.1).push e.2) acc).toList
      = acc.toList ++ es.flatMap (fun e => [e.1, e.2]) := by
  induction es with
  | nil => intro acc; simp
  | cons e es ih => intro acc; simp [List.foldl_cons, ih]

theorem slotArray_toList (es : List (Nat × Nat)) :
    (slotArray es).toList = es.flatMap (fun e => [e.1, e.2]) := by
  unfold slotArray; rw [slotArray_toList_aux]; simp

theorem flat_getD (es : List (Nat × Nat)) : ∀ s,
    (es.flatMap (fun e => [e.1, e.2])).getD s 0 = slotNode es s := by
  induction es with
  | nil => intro s; simp [slotNode]
  | cons e es ih =>
    intro s
    match s with
    | 0 => simp [slotNode]
    | 1 => simp [slotNode]
    | s + 2 =>
      have h1 : (s + 2) % 2 = s % 2 := by omega
      have h2 : (s + 2) / 2 = s / 2 + 1 := by omega
      simp only [List.flatMap_cons, List.cons_append, List.nil_append, List.getD_cons_succ]
      rw [ih s]
      unfold slotNode
      rw [h1, h2, List.getD_cons_succ]

theorem slotArray_get (es : List (Nat × Nat)) (s : Nat) : (slotArray es)[s]! = slotNode es s := by
  rw [← flat_getD, ← slotArray_toList]
  simp only [getElem!_def, List.getD_eq_getElem?_getD, Array.getElem?_toList]
  cases (slotArray es)[s]? <;> rfl

theorem slotArray_size (es : List (Nat × Nat)) : (slotArray es).size = 2 * es.length := by
  rw [← Array.length_toList, slotArray_toList]
  induction es with
  | nil => rfl
  | cons e es ih => simp [List.flatMap_cons, ih]; omega


/-- the Boolean core of `oracleCycle` (degree count + connectivity closure) decides "one simple
cycle through all edges" of the generic undirected engine -/
theorem oracle_core {C : UCfg} (E : MtEquiv C) {key uv : Nat → Nat} {L : Nat} (hL : 0 < L)
    (sv cont : Nat → Nat → Bool)
    (hsv : ∀ a b, a < 2 * L → b < 2 * L → (sv a b = true ↔ sameVG C key uv a b))
    (hcont : ∀ a b, a < 2 * L → b < 2 * L → sv a b = true →
      (cont a b = true ↔ (C.deadSame = true → uv b ≠ uv a))) :
    (degreeOkG (2 * L) sv cont = true ∧ (closureG sv L L [0]).length = L) ↔
      ∃ c, IsCycle L (adjG C key uv) (sameVG C key uv) c := by
  rw [degreeOkG_iff E sv cont hsv hcont, closureG_iff hL sv hsv]
  constructor
  · rintro ⟨hd, hc⟩
    obtain ⟨c, hcyc⟩ := cycle_of_deg2_conn E hL hd hc
    refine ⟨c, hcyc.mono ?_ ?_⟩
    · intro a b hp
      exact ⟨hp.1.2.2, hp.2.1, hp.2.2.2⟩
    · intro a b hv; exact hv
  · rintro ⟨c, hc⟩
    exact deg2_conn_of_cycle E hc hL

theorem ascendingb_iff (l : List Nat) : ascendingb l = true ↔ Ascending l := by
  unfold Ascending
  induction l with
  | nil => simp [ascendingb]
  | cons a l ih =>
    cases l with
    | nil => simp [ascendingb]
    | cons b r =>
      rw [ascendingb, Bool.and_eq_true, ih, decide_eq_true_iff, List.pairwise_cons (a := a)]
      constructor
      · rintro ⟨hab, hp⟩
        refine ⟨?_, hp⟩
        intro x hx
        rcases List.mem_cons.mp hx with rfl | hx
        · exact hab
        · exact Nat.lt_trans hab ((List.pairwise_cons.mp hp).1 x hx)
      · rintro ⟨h1, hp⟩
        exact ⟨h1 b (by simp), hp⟩

end GV.Pow
