import GrinVerif.Lemmas.BitmapScratch
import GrinVerif.Lemmas.BitmapBits
/-! `as_bitmap` of the from-scratch accumulator returns the unspent set it was built from.
Core Lean only. -/
namespace GV.Bitmap
open GV GV.Pmmr

variable {H : Type}

/-- the leaf positions below `mmr n` are `mmr 0, …, mmr (n-1)` -/
theorem leafPosIter_mmr : ∀ n : Nat, leafPosIter (mmr n) = (List.range n).map mmr := by
  intro n
  induction n with
  | zero => simp [leafPosIter, mmr, popcount]
  | succ n ih =>
    unfold leafPosIter at ih ⊢
    have hsplit : List.range (mmr (n + 1)) = List.range (mmr n) ++ List.range' (mmr n) (1 + trailingOnes n) := by
      have e : List.range' (mmr n) (1 + trailingOnes n) = List.range' (0 + mmr n) (1 + trailingOnes n) := by
        rw [Nat.zero_add]
      rw [List.range_eq_range', List.range_eq_range', e, List.range'_append_1, mmr_succ]
      congr 1; omega
    have hnew : (List.range' (mmr n) (1 + trailingOnes n)).filter isLeaf = [mmr n] := by
      rw [Nat.add_comm 1, List.range'_succ, List.filter_cons]
      have h0 : isLeaf (mmr n) = true := by
        have := GV.Props.C07.height_coord n 0 (Nat.zero_le _)
        simp only [Nat.add_zero] at this
        simp [isLeaf, this]
      rw [if_pos h0]
      congr 1
      rw [List.filter_eq_nil_iff]
      intro p hp
      obtain ⟨h1, h2⟩ := List.mem_range'_1.1 hp
      have hh : p = mmr n + (p - mmr n) := by omega
      have := GV.Props.C07.height_coord n (p - mmr n) (by omega)
      rw [← hh] at this
      simp [isLeaf, this]; omega
    rw [hsplit, List.filter_append, ih, hnew, List.range_succ, List.map_append]
    rfl

theorem zipIdx_map_range (f : Nat → Nat) : ∀ n : Nat,
    ((List.range n).map f).zipIdx = (List.range n).map (fun i => (f i, i)) := by
  intro n
  induction n with
  | zero => rfl
  | succ n ih =>
    rw [List.range_succ, List.map_append, List.zipIdx_append, ih, List.map_append]
    simp

theorem mapM_all_some {α β : Type} (f : α → Option β) (g : α → β) : ∀ (l : List α),
    (∀ x ∈ l, f x = some (g x)) → l.mapM f = some (l.map g) := by
  intro l
  induction l with
  | nil => intro _; rfl
  | cons a l ih =>
    intro h
    rw [List.mapM_cons, h a List.mem_cons_self, ih (fun x hx => h x (List.mem_cons_of_mem _ hx))]
    rfl

theorem filter_testBit_chunkOf (U : List Nat) (c : Nat) (R : List Nat) (hR : ∀ j ∈ R, j < 1024) :
    R.filter (fun i => (chunkOf U c).testBit i) = R.filter (fun j => decide (c * 1024 + j ∈ U)) :=
  List.filter_congr (fun j hj => chunkOf_testBit U c j (hR j hj))

/-- the set bits of chunk `c` of `U`, offset by `1024 c`, are the elements of `U` in that chunk -/
theorem chunkSetIter_chunkOf (U : List Nat) (c : Nat) :
    chunkSetIter (chunkOf U c) (c * 1024) =
      ((List.range 1024).filter (fun j => decide (c * 1024 + j ∈ U))).map (fun j => j + c * 1024) := by
  rw [chunkSetIter, filter_testBit_chunkOf U c _ (fun j hj => List.mem_range.1 hj)]

theorem flatten_chunks (U : List Nat) : ∀ n : Nat,
    ((List.range n).map (fun c => ((List.range 1024).filter (fun j => decide (c * 1024 + j ∈ U))).map
      (fun j => j + c * 1024))).flatten = (List.range (n * 1024)).filter (fun x => decide (x ∈ U)) := by
  intro n
  induction n with
  | zero => simp
  | succ n ih =>
    have hsplit : List.range ((n + 1) * 1024) = List.range (n * 1024) ++ List.range' (n * 1024) 1024 := by
      have e : List.range' (n * 1024) 1024 = List.range' (0 + n * 1024) 1024 := by rw [Nat.zero_add]
      rw [List.range_eq_range', List.range_eq_range', e, List.range'_append_1, Nat.succ_mul]
    rw [List.range_succ (n := n), List.map_append, List.flatten_append, ih, hsplit, List.filter_append]
    refine congrArg _ ?_
    rw [List.range'_eq_map_range, List.filter_map]
    simp only [List.map_cons, List.map_nil, List.flatten_cons, List.flatten_nil, List.append_nil]
    have : (fun j => j + n * 1024) = (fun j => n * 1024 + j) := by funext j; omega
    rw [this]
    generalize List.range 1024 = R
    rfl

/-- an ascending list below `N` is the `N`-range filtered by membership -/
theorem range_filter_mem (U : List Nat) (N : Nat) (hs : U.Pairwise (· < ·)) (hlt : ∀ x ∈ U, x < N) :
    (List.range N).filter (fun x => decide (x ∈ U)) = U := by
  have hp1 : ((List.range N).filter (fun x => decide (x ∈ U))).Pairwise (· < ·) :=
    List.pairwise_lt_range.filter _
  apply List.Perm.eq_of_pairwise (le := (· < ·)) (by intro a b _ _ h1 h2; omega) hp1 hs
  rw [List.perm_ext_iff_of_nodup (hp1.imp Nat.ne_of_lt) (hs.imp Nat.ne_of_lt)]
  intro a
  simp only [List.mem_filter, List.mem_range, decide_eq_true_eq]
  constructor
  · exact fun h => h.2
  · exact fun h => ⟨hlt a h, h⟩

/-- **`as_bitmap` of the accumulator holding `specData U` is `U`.** -/
theorem asBitmap_specData (U : List Nat) (hs : U.Pairwise (· < ·)) (hsh : List H)
    (hlen : hsh.length = mmr (nChunks U)) :
    asBitmap ({ data := specData U, hashes := hsh } : Acc H) = some U := by
  unfold asBitmap
  simp only [hlen, leafPosIter_mmr, zipIdx_map_range]
  rw [mapM_all_some _ (fun p => chunkSetIter (chunkOf U p.2) (p.2 * 1024)) _ (by
      intro p hp
      obtain ⟨i, hi, rfl⟩ := List.mem_map.1 hp
      have hi' : i < nChunks U := List.mem_range.1 hi
      have hidx : nLeaves (1 + mmr i) - 1 = i := by
        have : nLeaves (mmr i + 1) = i + 1 := by
          by_cases h : trailingOnes i = 0
          · have e : mmr i + 1 = mmr (i + 1) := by rw [mmr_succ]; omega
            rw [e, GV.Props.C07.nLeaves_at_leaf_boundary]
          · exact GV.Props.C07.nLeaves_mid i 1 (by omega) (by omega)
        rw [Nat.add_comm, this]; omega
      simp only [hidx]
      have : (specData U)[i]? = some (chunkOf U i) := by
        simp [specData, List.getElem?_map, List.getElem?_range hi']
      rw [this])]
  simp only [Option.map_some, List.map_map]
  have hcomp : ((fun p : Nat × Nat => chunkSetIter (chunkOf U p.2) (p.2 * 1024)) ∘ fun i => (mmr i, i)) =
      fun c => ((List.range 1024).filter (fun j => decide (c * 1024 + j ∈ U))).map (fun j => j + c * 1024) := by
    funext c
    simp only [Function.comp]
    exact chunkSetIter_chunkOf U c
  rw [hcomp, flatten_chunks]
  congr 1
  apply range_filter_mem U _ hs
  intro x hx
  unfold nChunks
  cases hl : U.getLast? with
  | none =>
    have : U = [] := by simpa using hl
    subst this; simp at hx
  | some m =>
    simp only []
    have := le_getLast U m (pairwise_le_of_lt hs) hl x hx
    have : x / 1024 < m / 1024 + 1 := by
      have : x / 1024 ≤ m / 1024 := Nat.div_le_div_right this
      omega
    exact (Nat.div_lt_iff_lt_mul (by omega)).1 this

end GV.Bitmap
