import GrinVerif.Lemmas.ConsHeader
/-! Definitions used to *state* the node-level theorems of `Props/C04.lean` (header batches, known
headers, the parameter store of `global.rs`) and the helper lemmas they are assembled from. -/
namespace GV.Cons
open GV GV.Gen

/-! ### header batches -/

/-- Every header of a batch obeys the header rules against its predecessor **as the batch sees
the store**: the parent is looked up in the store extended by the batch's earlier headers. -/
def BatchRules (ct : ChainType) (skip : Bool) : List FHdr → List FHdr → Prop
  | _, [] => True
  | s, f :: fs => HeaderRules (ctxFor ct skip s f) f.h ∧ BatchRules ct skip (f :: s) fs

instance : DecidableEq (Except ReadErr Unit) := fun a b =>
  match a, b with
  | .ok (), .ok () => isTrue rfl
  | .error e, .error f =>
    if h : e = f then isTrue (by rw [h]) else isFalse (by intro hh; cases hh; exact h rfl)
  | .ok (), .error _ => isFalse (by intro h; cases h)
  | .error _, .ok () => isFalse (by intro h; cases h)

/-- the error of a result, if any (lets the `decide` examples compare results whose success value
has no decidable equality) -/
def errOf {α : Type} : Except NErr α → Option NErr
  | .error e => some e
  | .ok _ => none

/-- two deliveries carry the same header (the oracle answers aside) -/
def SameContent (a b : FHdr) : Prop := a.h = b.h ∧ a.prevHash = b.prevHash ∧ a.rest = b.rest

/-- **The proof-of-work clause for one header** against the store `s`: the edge bits are an allowed
size, the cycle verifier accepted the proof for this header, the claimed total difficulty exceeds
the stored parent's by exactly the network difficulty, and the proof's own difficulty
(`to_difficulty`: a function of the hash of the proof nonces) reaches it. -/
def PowRule (ct : ChainType) (s : List FHdr) (f : FHdr) : Prop :=
  (isPrimary ct f.h.edgeBits = true ∨ isSecondary f.h.edgeBits = true) ∧ f.powOk = true ∧
  ∃ prev next, getHdr s f.prevHash = some prev ∧
    nextDifficulty ct f.h.height (windowFrom s (DMA_WINDOW + 1) f.prevHash) = some next ∧
    f.h.totalDiff - prev.h.totalDiff = next.diff ∧
    next.diff ≤ toDifficulty ct f.h.height f.h.edgeBits f.h.secondaryScaling f.h.hash64

theorem powRule_of_rules {ct : ChainType} {s : List FHdr} {f : FHdr}
    (h : HeaderRules (ctxFor ct false s f) f.h) : PowRule ct s f := by
  obtain ⟨_, prev, hp, _, _, _, _, _, _, hd⟩ := h
  obtain ⟨he, hpow, _, next, hn, hdiff, hle, _⟩ := hd rfl
  simp only [ctxFor, Option.map_eq_some_iff] at hp
  obtain ⟨p, hp1, hp2⟩ := hp
  subst hp2
  exact ⟨he, hpow, p, next, hp1, hn, hdiff, hle⟩

theorem batchRules_mem {ct : ChainType} {skip : Bool} :
    ∀ (pre : List FHdr) (s : List FHdr) (f : FHdr) (post : List FHdr),
      BatchRules ct skip s (pre ++ f :: post) →
      HeaderRules (ctxFor ct skip (pre.reverse ++ s) f) f.h := by
  intro pre
  induction pre with
  | nil => intro s f post h; exact h.1
  | cons a t ih =>
    intro s f post h
    have := ih (a :: s) f post h.2
    simpa [List.reverse_cons, List.append_assoc] using this

theorem getHdr_cons_self (f : FHdr) (s : List FHdr) : getHdr (f :: s) f.hash = some f := by
  simp [getHdr, List.find?]

theorem getHdr_hash {s : List FHdr} {k : Nat} {f : FHdr} (h : getHdr s k = some f) : f.hash = k := by
  have := List.find?_some h
  simpa using this

/-- the loop of `process_block_headers` succeeded on every header (executable form of
`BatchRules`; `Props.C04.batchOk_iff_rules` relates the two) -/
def BatchOk (ct : ChainType) (skip : Bool) : List FHdr → List FHdr → Prop
  | _, [] => True
  | s, f :: fs => validateHeader (ctxFor ct skip s f) f.h = .ok () ∧ BatchOk ct skip (f :: s) fs

theorem validateLoop_ok_iff {ct : ChainType} {skip : Bool} :
    ∀ (b s s' : List FHdr), validateLoop ct skip s b = .ok s' ↔
      BatchOk ct skip s b ∧ s' = b.reverse ++ s := by
  intro b
  induction b with
  | nil =>
    intro s s'
    simp only [validateLoop, BatchOk, List.reverse_nil, List.nil_append, true_and]
    constructor
    · intro h; cases h; rfl
    · intro h; rw [h]
  | cons a t ih =>
    intro s s'
    simp only [validateLoop, BatchOk]
    split
    · rename_i e he
      simp [he]
    · rename_i he
      rw [ih (a :: s) s']
      simp [he, List.reverse_cons, List.append_assoc]

/-- `validate_header` accepted without `SKIP_POW` only if the cycle verifier accepted -/
theorem validateHeader_ok_powOk (c : Ctx) (h : Hdr) (hv : validateHeader c h = .ok ())
    (hs : c.skipPow = false) : c.powOk = true := by
  unfold validateHeader at hv
  split at hv
  · cases hv
  split at hv
  · cases hv
  rename_i prev _
  split at hv
  · cases hv
  split at hv
  · cases hv
  split at hv
  · cases hv
  split at hv
  · cases hv
  split at hv
  · cases hv
  rw [if_neg (by simp [hs])] at hv
  exact ((validate_difficulty_iff c prev h).mp hv).2.1

/-- the loop fails as soon as one header fails -/
theorem validateLoop_error_of {ct : ChainType} {skip : Bool} :
    ∀ (pre : List FHdr) (f : FHdr) (post s : List FHdr),
      (∀ s', ∃ e, validateHeader (ctxFor ct skip s' f) f.h = .error e) →
      ∃ e, validateLoop ct skip s (pre ++ f :: post) = .error e := by
  intro pre
  induction pre with
  | nil =>
    intro f post s hf
    obtain ⟨e, he⟩ := hf s
    exact ⟨e, by simp [validateLoop, he]⟩
  | cons a t ih =>
    intro f post s hf
    simp only [List.cons_append, validateLoop]
    split
    · exact ⟨_, rfl⟩
    · exact ih f post (a :: s) hf

/-- without `SKIP_POW`, a header whose proof of work does not verify fails `validate_header`
whatever the store looks like -/
theorem validateHeader_badpow (ct : ChainType) (s : List FHdr) (f : FHdr) (hp : f.powOk = false) :
    ∃ e, validateHeader (ctxFor ct false s f) f.h = .error e := by
  cases hr : validateHeader (ctxFor ct false s f) f.h with
  | error e => exact ⟨e, rfl⟩
  | ok u =>
    exfalso
    cases u
    have h7 := validateHeader_ok_powOk (ctxFor ct false s f) f.h hr rfl
    simp [ctxFor, hp] at h7

/-! ### fork walk / re-application -/

theorem forkWalk_acc {s : List FHdr} {e : HExt} :
    ∀ (fuel : Nat) (cur : FHdr) (acc : List Nat) (f : FHdr) (l : List Nat),
      forkWalk s e fuel cur acc = .ok (f, l) → ∀ k ∈ acc, k ∈ l := by
  intro fuel
  induction fuel with
  | zero => intro cur acc f l h; simp [forkWalk] at h
  | succ n ih =>
    intro cur acc f l h k hk
    simp only [forkWalk] at h
    split at h
    · cases h; exact hk
    split at h
    · cases h
    · cases h; exact hk
    · split at h
      · cases h
      · exact ih _ _ _ _ h k (List.mem_cons_of_mem _ hk)

/-- the header the walk starts from is among the re-applied ones unless it is the genesis or on
the current header chain -/
theorem forkWalk_start {s : List FHdr} {e : HExt} (fuel : Nat) (cur f : FHdr) (l : List Nat)
    (h : forkWalk s e fuel cur [] = .ok (f, l)) :
    cur.h.height = 0 ∨ e.onChain s cur.hash cur.h.height = some true ∨ cur.hash ∈ l := by
  cases fuel with
  | zero => simp [forkWalk] at h
  | succ n =>
    simp only [forkWalk] at h
    split at h
    · left; assumption
    split at h
    · cases h
    · right; left; assumption
    · split at h
      · cases h
      · right; right
        exact forkWalk_acc _ _ _ _ _ h _ (by simp)

theorem reapply_roots {s : List FHdr} :
    ∀ (ks : List Nat) (e e' : HExt), reapply s e ks = .ok e' →
      ∀ k ∈ ks, ∃ f, getHdr s k = some f ∧ (f.h.height = 0 ∨ f.rootOk = true) := by
  intro ks
  induction ks with
  | nil => intro e e' _ k hk; cases hk
  | cons a t ih =>
    intro e e' h k hk
    simp only [reapply] at h
    split at h
    · cases h
    rename_i f hf
    split at h
    · cases h
    rename_i e1 hva
    rcases List.mem_cons.mp hk with rfl | hk
    · refine ⟨f, hf, ?_⟩
      unfold HExt.validateApply at hva
      split at hva
      · cases hva
      · rename_i hc
        by_cases h0 : f.h.height = 0
        · exact .inl h0
        · right
          cases hr : f.rootOk
          · exact absurd ⟨h0, hr⟩ hc
          · rfl
    · exact ih _ _ h k hk

/-! ### every header of a chunk is root-checked -/

/-- consecutive headers link up: each header's `prev_hash` is the hash of the one before it -/
def Linked (c : List FHdr) : Prop :=
  ∀ pre a b post, c = pre ++ a :: b :: post → b.prevHash = a.hash

theorem find_nodup : ∀ (l : List FHdr) (x : FHdr), (l.map (·.hash)).Nodup → x ∈ l →
    l.find? (fun f => f.hash == x.hash) = some x := by
  intro l
  induction l with
  | nil => intro x _ hx; cases hx
  | cons a t ih =>
    intro x hn hx
    simp only [List.map_cons, List.nodup_cons] at hn
    rcases List.mem_cons.mp hx with rfl | hx
    · simp [List.find?]
    · have hne : a.hash ≠ x.hash := by
        intro he
        exact hn.1 (by rw [he]; exact List.mem_map_of_mem hx)
      rw [List.find?_cons_of_neg (by simpa using hne)]
      exact ih x hn.2 hx

/-- in the batch's view of the store every chunk header is found under its own hash -/
theorem getHdr_chunk (chunk hdrs : List FHdr) (x : FHdr) (hn : (chunk.map (·.hash)).Nodup)
    (hx : x ∈ chunk) : getHdr (chunk.reverse ++ hdrs) x.hash = some x := by
  unfold getHdr
  rw [List.find?_append, find_nodup chunk.reverse x (by rw [List.map_reverse, List.Nodup, List.pairwise_reverse]; exact List.Pairwise.imp (fun h => Ne.symm h) hn) (by simpa using hx)]
  rfl

/-- the walk back from the end of a linked run of headers (`cur :: r` is the run latest first) that
are neither genesis nor on the current header chain collects every one of them -/
theorem forkWalk_covers {s : List FHdr} {e : HExt} :
    ∀ (r : List FHdr) (cur : FHdr) (fuel : Nat) (acc : List Nat) (f : FHdr) (l : List Nat),
      Linked (cur :: r).reverse →
      (∀ x ∈ cur :: r, getHdr s x.hash = some x ∧ x.h.height ≠ 0 ∧
        e.onChain s x.hash x.h.height ≠ some true) →
      forkWalk s e fuel cur acc = .ok (f, l) → ∀ x ∈ cur :: r, x.hash ∈ l := by
  intro r
  induction r with
  | nil =>
    intro cur fuel acc f l _ hall hw x hx
    simp only [List.mem_singleton] at hx
    subst hx
    obtain ⟨_, h0, hon⟩ := hall x (by simp)
    cases fuel with
    | zero => simp [forkWalk] at hw
    | succ n =>
      simp only [forkWalk, if_neg h0] at hw
      split at hw
      · cases hw
      · rename_i ht; exact absurd ht hon
      · split at hw
        · cases hw
        · exact forkWalk_acc _ _ _ _ _ hw _ (by simp)
  | cons b r' ih =>
    intro cur fuel acc f l hl hall hw x hx
    have hlink : cur.prevHash = b.hash :=
      hl r'.reverse b cur [] (by simp)
    have hl' : Linked (b :: r').reverse := by
      intro pre a c post hc
      exact hl pre a c (post ++ [cur]) (by
        have : (cur :: b :: r').reverse = (b :: r').reverse ++ [cur] := by simp
        rw [this, hc]; simp)
    obtain ⟨_, h0, hon⟩ := hall cur (by simp)
    obtain ⟨hb, _, _⟩ := hall b (by simp)
    cases fuel with
    | zero => simp [forkWalk] at hw
    | succ n =>
      simp only [forkWalk, if_neg h0] at hw
      split at hw
      · cases hw
      · rename_i ht; exact absurd ht hon
      · rw [hlink, hb] at hw
        simp only at hw
        rcases List.mem_cons.mp hx with hx | hx
        · subst hx
          exact forkWalk_acc _ _ _ _ _ hw _ (by simp)
        · exact ih b n _ f l hl' (fun y hy => hall y (List.mem_cons_of_mem _ hy)) hw x hx

/-! ### computed root comparisons -/

section roots
variable {α H : Type} [DecidableEq H]

/-- the chunk as the node-level pipeline sees it: every header with its computed `rootOk` -/
def flagged (hf : Pmmr.HashFn α H) (rs : RStore α H) (chunk : List (RHdr α H)) : List FHdr :=
  (flagChunk hf rs chunk).map (·.1.f)

theorem flagOne_same (hf : Pmmr.HashFn α H) (rs : RStore α H) (r : RHdr α H) :
    ∃ b, (flagOne hf rs r).1.f = { r.f with rootOk := b } ∧ (flagOne hf rs r).1.prevRoot = r.prevRoot := by
  unfold flagOne
  split <;> exact ⟨_, rfl, rfl⟩

/-- computing the flags changes nothing else about the headers -/
theorem flagged_same (hf : Pmmr.HashFn α H) :
    ∀ (chunk : List (RHdr α H)) (rs : RStore α H),
      (flagged hf rs chunk).map (fun f => { f with rootOk := false }) =
        chunk.map (fun r => { r.f with rootOk := false }) := by
  intro chunk
  induction chunk with
  | nil => intro rs; rfl
  | cons r t ih =>
    intro rs
    obtain ⟨b, hb, _⟩ := flagOne_same hf rs r
    have := ih (flagOne hf rs r :: rs)
    simp only [flagged, flagChunk, List.map_cons, hb] at this ⊢
    rw [this]

/-- a header's flag is set iff its `prev_root` is the root of the MMR recorded after its parent -/
theorem flagOne_rootOk (hf : Pmmr.HashFn α H) (rs : RStore α H) (r : RHdr α H)
    (h : (flagOne hf rs r).1.f.rootOk = true) :
    ∃ p m, rLookup rs r.f.prevHash = some (p, m) ∧ Pmmr.root hf m = .ok r.prevRoot := by
  unfold flagOne at h
  split at h
  · cases h
  · rename_i p m hl
    exact ⟨p, m, hl, by simpa [rootMatches] using h⟩

/-- the element of the flagged chunk at each position: the header against the store extended by
the flagged earlier headers of the chunk -/
theorem flagChunk_at (hf : Pmmr.HashFn α H) :
    ∀ (pre : List (RHdr α H)) (rs : RStore α H) (x : RHdr α H) (post : List (RHdr α H)),
      flagOne hf ((flagChunk hf rs pre).reverse ++ rs) x ∈ flagChunk hf rs (pre ++ x :: post) := by
  intro pre
  induction pre with
  | nil => intro rs x post; simp [flagChunk]
  | cons a t ih =>
    intro rs x post
    simp only [List.cons_append, flagChunk, List.reverse_cons, List.append_assoc, List.mem_cons]
    right
    exact ih _ x post

end roots

/-! ### the parameter store -/

theorem resolve_setLocal_ne (s : PStore) (p q : Param) (v : Nat) (h : p ≠ q) :
    (s.setLocal q v).resolve p = s.resolve p := by
  simp [PStore.resolve, PStore.setLocal, h]

theorem resolve_setGlobal_ne (s : PStore) (p q : Param) (v : Nat) (h : p ≠ q) :
    (s.setGlobal q v).resolve p = s.resolve p := by
  simp [PStore.resolve, PStore.setGlobal, h]

/-- caching the resolved value of `q` in `q`'s own cell changes nothing that can be looked up -/
theorem resolve_cache (s : PStore) (p q : Param) (v : Nat) (hv : s.resolve q = some v) :
    (s.setLocal q v).resolve p = s.resolve p := by
  by_cases h : p = q
  · subst h
    simp [PStore.resolve, PStore.setLocal] at *
    cases hl : s.loc p <;> simp [hl] at hv ⊢
    · cases hg : s.glob p <;> simp [hg] at hv ⊢ <;> exact hv.symm
    · exact hv.symm
  · exact resolve_setLocal_ne s p q v h

/-- every getter returns `local ?? global ?? default` … -/
theorem get_fst (s : PStore) (p : Param) : (s.get p).1 = s.resolve p := by
  cases p
  · cases hl : s.loc .chainType <;> cases hg : s.glob .chainType <;>
      simp [PStore.get, getChainType, PStore.resolve, pDefault, hl, hg]
  · cases hl : s.loc .feeBase <;> cases hg : s.glob .feeBase <;>
      simp [PStore.get, getAcceptFeeBase, PStore.resolve, pDefault, hl, hg]
  · cases hl : s.loc .ftl <;> cases hg : s.glob .ftl <;>
      simp [PStore.get, getFutureTimeLimit, PStore.resolve, pDefault, hl, hg]
  · cases hl : s.loc .nrd <;> cases hg : s.glob .nrd <;>
      simp [PStore.get, isNrdEnabled, PStore.resolve, pDefault, hl, hg]

/-- … and leaves every lookup's result as it was (it writes, at most, the value it resolved into
its own parameter's thread-local cell) -/
theorem resolve_get (s : PStore) (p q : Param) : ((s.get q).2).resolve p = s.resolve p := by
  cases q <;>
    simp only [PStore.get, getChainType, getAcceptFeeBase, getFutureTimeLimit, isNrdEnabled]
  all_goals
    split
    · rfl
    rename_i hl
  · split
    · rfl
    · rename_i g hg
      exact resolve_cache s p _ g (by simp [PStore.resolve, hl, hg])
  · exact resolve_cache s p _ _ (by
      cases hg : s.glob .feeBase <;> simp [PStore.resolve, hl, hg, pDefault])
  · exact resolve_cache s p _ _ (by
      cases hg : s.glob .ftl <;> simp [PStore.resolve, hl, hg, pDefault])
  · split
    · rename_i g hg
      exact resolve_cache s p _ g (by simp [PStore.resolve, hl, hg])
    · rfl

theorem get_glob (s : PStore) (q : Param) : (s.get q).2.glob = s.glob := by
  cases q <;>
    simp only [PStore.get, getChainType, getAcceptFeeBase, getFutureTimeLimit, isNrdEnabled] <;>
    (split <;> try rfl) <;> (try split) <;> rfl

theorem resolve_derived (f : ChainType → Nat) (s : PStore) (p : Param) :
    ((derived f s).2).resolve p = s.resolve p := by
  have := resolve_get s p .chainType
  simp only [PStore.get] at this
  unfold derived
  split <;> rename_i h <;> simp only [h] at this <;> exact this

theorem resolve_acceptFee (w : Nat) (s : PStore) (p : Param) :
    ((acceptFee w s).2).resolve p = s.resolve p := by
  have := resolve_get s p .feeBase
  simp only [PStore.get] at this
  unfold acceptFee
  split <;> rename_i h <;> simp only [h] at this <;> exact this

theorem resolve_readHeader (s : PStore) (now : Int) (ok : Bool) (h : Hdr) (p : Param) :
    ((untrustedHeaderRead s now ok h).2).resolve p = s.resolve p := by
  have h1 := resolve_get s p .chainType
  simp only [PStore.get] at h1
  unfold untrustedHeaderRead
  split
  · rename_i s1 hc
    simp only [hc] at h1; exact h1
  · rename_i c s1 hc
    simp only [hc] at h1
    have h2 := resolve_get s1 p .ftl
    simp only [PStore.get] at h2
    split <;> rename_i hf <;> simp only [hf] at h2 <;> rw [h2, h1]

/-- an operation that does not set / initialise `p` leaves the result of looking `p` up unchanged -/
theorem resolve_step (s : PStore) (op : POp) (p : Param) (hw : op.writes ≠ some p) :
    (s.step op).resolve p = s.resolve p := by
  cases op with
  | get q => exact resolve_get s p q
  | setLocal q v =>
    exact resolve_setLocal_ne s p q v (by intro h; subst h; simp [POp.writes] at hw)
  | setGlobal q v =>
    exact resolve_setGlobal_ne s p q v (by intro h; subst h; simp [POp.writes] at hw)
  | initGlobal q v =>
    simp only [PStore.step, PStore.initGlobal]
    split
    · rfl
    · exact resolve_setGlobal_ne s p q v (by intro h; subst h; simp [POp.writes] at hw)
  | maxBlockWeight => exact resolve_derived _ s p
  | coinbaseMaturity => exact resolve_derived _ s p
  | acceptFee w => exact resolve_acceptFee w s p
  | readHeader now ok h => exact resolve_readHeader s now ok h p

theorem resolve_run (ops : List POp) (s : PStore) (p : Param)
    (hw : ∀ op ∈ ops, op.writes ≠ some p) : (s.run ops).resolve p = s.resolve p := by
  induction ops generalizing s with
  | nil => rfl
  | cons a t ih =>
    simp only [PStore.run, List.foldl_cons]
    have := ih (s.step a) (fun op ho => hw op (List.mem_cons_of_mem _ ho))
    simp only [PStore.run] at this
    rw [this, resolve_step s a p (hw a (List.mem_cons_self ..))]

/-- the decode's answer as a function of what the two lookups resolve to -/
theorem untrustedHeaderRead_fst (s : PStore) (now : Int) (ok : Bool) (h : Hdr) :
    (untrustedHeaderRead s now ok h).1 =
      match s.resolve .chainType, s.resolve .ftl with
      | some c, some f => some (untrustedHeaderCheck (ctOfNat c) now f ok h)
      | _, _ => none := by
  have h1 := get_fst s .chainType
  have r1 := resolve_get s .ftl .chainType
  simp only [PStore.get] at h1 r1
  unfold untrustedHeaderRead
  split
  · rename_i s1 hc
    simp only [hc] at h1
    rw [← h1]
  · rename_i c s1 hc
    simp only [hc] at h1 r1
    have h2 := get_fst s1 .ftl
    simp only [PStore.get] at h2
    rw [← h1, ← r1]
    split <;> rename_i hf <;> simp only [hf] at h2 <;> rw [← h2]

end GV.Cons
