import GrinVerif.Model.ChainFull
/-! Lemmas on full-state validation (`Model/ChainFull.lean`): the two batching loops verify every
item, whatever the batch size, the count and the interleaving of leaves and parents. -/
namespace GV.Chain

/-- what `verify_kernel_signatures` must establish about one position -/
def KPos.good : KPos → Prop
  | .parent => True
  | .leaf k => k.sigBad = false
  | .missing => False

/-- what `verify_rangeproofs` must establish about one unspent output -/
def OItem.good (o : OItem) : Prop :=
  o.outMissing = false ∧ o.proofMissing = false ∧ o.proofBad = false

theorem batchSigVerify_iff (b : List KItem) :
    batchSigVerify b = true ↔ ∀ k ∈ b, k.sigBad = false := by
  simp [batchSigVerify, List.all_eq_true]

theorem batchProofVerify_iff (b : List OItem) :
    batchProofVerify b = true ↔ ∀ o ∈ b, o.proofBad = false := by
  simp [batchProofVerify, List.all_eq_true]

theorem accAfter_none (p : KPos) (acc : List KItem) : accAfter p acc = none ↔ p = .missing := by
  cases p <;> simp [accAfter]

theorem accAfter_some (p : KPos) (acc acc' : List KItem) (h : accAfter p acc = some acc') :
    ((∀ k ∈ acc', k.sigBad = false) ↔ (∀ k ∈ acc, k.sigBad = false) ∧ p.good) := by
  cases p with
  | parent =>
    simp only [accAfter, Option.some.injEq] at h
    subst h
    simp [KPos.good]
  | leaf k =>
    simp only [accAfter, Option.some.injEq] at h
    subst h
    simp only [List.mem_append, List.mem_singleton, KPos.good]
    constructor
    · intro hh
      exact ⟨fun x hx => hh x (Or.inl hx), hh k (Or.inr rfl)⟩
    · rintro ⟨h1, h2⟩ x (hx | rfl)
      · exact h1 x hx
      · exact h2
  | missing => simp [accAfter] at h

/-- **The kernel loop verifies every kernel.** For every batch size, every list of positions
(any count, any interleaving of leaves and parents, the last position a leaf or a parent) and every
pending batch: the loop passes iff every position is a parent or a readable leaf without a
signature fault, and — when there is at least one position left — the pending batch is clean. -/
theorem sigLoop_none_iff (B : Nat) (l : List KPos) (acc : List KItem) :
    sigLoop B l acc = none ↔
      (l ≠ [] → ∀ k ∈ acc, k.sigBad = false) ∧ ∀ p ∈ l, p.good := by
  induction l generalizing acc with
  | nil => simp [sigLoop]
  | cons p rest ih =>
    unfold sigLoop
    cases ha : accAfter p acc with
    | none =>
      have hp := (accAfter_none p acc).mp ha
      subst hp
      simp [KPos.good]
    | some acc' =>
      have hacc := accAfter_some p acc acc' ha
      simp only [ne_eq, reduceCtorEq, not_false_eq_true, forall_const, List.mem_cons,
        forall_eq_or_imp]
      by_cases hflush : B ≤ acc'.length ∨ rest.isEmpty = true
      · rw [if_pos hflush]
        by_cases hb : batchSigVerify acc' = true
        · rw [if_pos hb, ih []]
          have := (batchSigVerify_iff acc').mp hb
          have h2 := hacc.mp this
          simp only [List.not_mem_nil, false_imp_iff, implies_true, true_and]
          constructor
          · intro hr; exact ⟨h2.1, h2.2, hr⟩
          · intro hr; exact hr.2.2
        · rw [if_neg hb]
          simp only [reduceCtorEq, false_iff, not_and]
          intro h1 h2
          exact fun _ => hb ((batchSigVerify_iff acc').mpr (hacc.mpr ⟨h1, h2⟩))
      · rw [if_neg hflush, ih acc']
        have hne : rest ≠ [] := by
          intro h
          apply hflush
          right
          simp [h]
        constructor
        · rintro ⟨h1, h2⟩
          have := hacc.mp (h1 hne)
          exact ⟨this.1, this.2, h2⟩
        · rintro ⟨h1, h2, h3⟩
          exact ⟨fun _ => hacc.mpr ⟨h1, h2⟩, h3⟩

/-- **The range-proof loop verifies every unspent output.** For every batch size, every list of
unspent outputs and every pending batch: the loop passes iff every output and proof is readable
and no proof — pending or still to come — carries a fault. -/
theorem proofLoop_none_iff (B : Nat) (l : List OItem) (acc : List OItem) :
    proofLoop B l acc = none ↔
      (∀ o ∈ acc, o.proofBad = false) ∧ ∀ o ∈ l, o.good := by
  induction l generalizing acc with
  | nil =>
    unfold proofLoop
    by_cases he : acc.isEmpty = true
    · rw [if_pos he]
      have : acc = [] := by simpa using he
      subst this
      simp
    · rw [if_neg he]
      by_cases hb : batchProofVerify acc = true
      · rw [if_pos hb]
        simp only [List.not_mem_nil, false_imp_iff, implies_true, and_true, true_iff]
        exact (batchProofVerify_iff acc).mp hb
      · rw [if_neg hb]
        simp only [reduceCtorEq, List.not_mem_nil, false_imp_iff, implies_true, and_true,
          false_iff]
        exact fun h => hb ((batchProofVerify_iff acc).mpr h)
  | cons o rest ih =>
    unfold proofLoop
    simp only [List.mem_cons, forall_eq_or_imp, OItem.good]
    by_cases h1 : o.outMissing = true
    · rw [if_pos h1]; simp [h1]
    · rw [if_neg h1]
      by_cases h2 : o.proofMissing = true
      · rw [if_pos h2]; simp [h2]
      · rw [if_neg h2]
        have h1' : o.outMissing = false := by simpa using h1
        have h2' : o.proofMissing = false := by simpa using h2
        have happ : (∀ x ∈ acc ++ [o], x.proofBad = false) ↔
            (∀ x ∈ acc, x.proofBad = false) ∧ o.proofBad = false := by
          simp only [List.mem_append, List.mem_singleton]
          constructor
          · intro hh; exact ⟨fun x hx => hh x (Or.inl hx), hh o (Or.inr rfl)⟩
          · rintro ⟨ha, hb⟩ x (hx | rfl)
            · exact ha x hx
            · exact hb
        by_cases hflush : B ≤ (acc ++ [o]).length
        · rw [if_pos hflush]
          by_cases hb : batchProofVerify (acc ++ [o]) = true
          · rw [if_pos hb, ih []]
            have := happ.mp ((batchProofVerify_iff _).mp hb)
            simp only [List.not_mem_nil, false_imp_iff, implies_true, true_and, OItem.good]
            constructor
            · intro hr; exact ⟨this.1, ⟨h1', h2', this.2⟩, hr⟩
            · intro hr; exact hr.2.2
          · rw [if_neg hb]
            simp only [reduceCtorEq, false_iff, not_and]
            intro ha hb' _
            exact hb ((batchProofVerify_iff _).mpr (happ.mpr ⟨ha, hb'.2.2⟩))
        · rw [if_neg hflush, ih (acc ++ [o])]
          simp only [OItem.good]
          constructor
          · rintro ⟨ha, hr⟩
            have := happ.mp ha
            exact ⟨this.1, ⟨h1', h2', this.2⟩, hr⟩
          · rintro ⟨ha, hb, hr⟩
            exact ⟨happ.mpr ⟨ha, hb.2.2⟩, hr⟩

/-- every kernel of a laid-out list occurs as a leaf of its layout, and nothing else does -/
theorem layoutFrom_good (i : Nat) (ks : List KItem) :
    (∀ p ∈ layoutFrom i ks, p.good) ↔ ∀ k ∈ ks, k.sigBad = false := by
  induction ks generalizing i with
  | nil => simp [layoutFrom]
  | cons k ks ih =>
    simp only [layoutFrom, List.cons_append, List.mem_cons, List.mem_append, List.mem_replicate,
      forall_eq_or_imp]
    constructor
    · rintro ⟨hk, hr⟩
      refine ⟨hk, (ih (i + 1)).mp (fun p hp => hr p (Or.inr hp))⟩
    · rintro ⟨hk, hr⟩
      refine ⟨hk, ?_⟩
      rintro p (⟨_, rfl⟩ | hp)
      · trivial
      · exact (ih (i + 1)).mpr hr p hp

/-! concrete states for the non-vacuity examples of `Props/C01.lean` -/
namespace FullEx
def exP : Params := { reward := 60 }
def exUtxo : List OItem := [{ v := 60 }, { v := 50 }, { v := 70 }]
def exState (ks : List KItem) (u : List OItem) : FullState :=
  { height := 2, kernelMmr := kernelLayout ks, utxo := u }
end FullEx

end GV.Chain
